/-
  Well-formedness of the handle / inode tables and its preservation by every operation of
  FsModel.Handles (helper for FsProofs/HandleLaws.lean).
-/
import FsModel.Handles
import FsProofs.Lemmas.HandleLemmas
import FsProofs.C01
import FsProofs.C05

namespace Fs.HandleLemmas
open Fs Fs.Ref Fs.File Fs.Handles Fs.TreeLemmas

/-- the tree is a well-formed directory; every linked inode names a file (not the root); no two
inodes are linked at one path; every handle's inode is in the table -/
structure WF (s : HState) : Prop where
  root_dir : s.fs.root.isDir = true
  tree_wf : s.fs.root.wf = true
  linked_file : ∀ cs, Link.linked cs ∈ s.inodes → cs ≠ [] ∧ ∃ b, s.fs.root.get cs = some (.file b)
  links_nodup : (s.inodes.filterMap linkPath).Nodup
  handle_ino : ∀ h ∈ s.handles, h.ino < s.inodes.length

/-! ### lists -/

theorem nodup_map_on {α β : Type} {f : α → β} {l : List α}
    (hinj : ∀ x ∈ l, ∀ y ∈ l, f x = f y → x = y) (h : l.Nodup) : (l.map f).Nodup := by
  induction l with
  | nil => simp
  | cons a l ih =>
    rw [List.nodup_cons] at h
    rw [List.map_cons, List.nodup_cons]
    refine ⟨?_, ih (fun x hx y hy => hinj x (List.mem_cons_of_mem _ hx) y (List.mem_cons_of_mem _ hy)) h.2⟩
    intro hm
    obtain ⟨y, hy, hfy⟩ := List.mem_map.1 hm
    have := hinj y (List.mem_cons_of_mem _ hy) a (List.mem_cons_self) hfy
    subst this
    exact h.1 hy

theorem mem_linkPaths {l : List Link} {cs : List Name} : cs ∈ l.filterMap linkPath ↔ Link.linked cs ∈ l := by
  rw [List.mem_filterMap]
  constructor
  · rintro ⟨a, ha, hp⟩
    cases a with
    | linked q => simp only [linkPath, Option.some.injEq] at hp; subst hp; exact ha
    | unlinked b => simp [linkPath] at hp
  · intro h; exact ⟨_, h, rfl⟩

/-- two table entries linked at the same path are the same entry -/
theorem links_unique {l : List Link} (h : (l.filterMap linkPath).Nodup) {i j : Nat} {cs : List Name}
    (hi : l[i]? = some (.linked cs)) (hj : l[j]? = some (.linked cs)) : i = j := by
  induction l generalizing i j with
  | nil => simp at hi
  | cons x xs ih =>
    cases i with
    | zero =>
      cases j with
      | zero => rfl
      | succ j =>
        simp only [List.getElem?_cons_zero, Option.some.injEq] at hi
        simp only [List.getElem?_cons_succ] at hj
        subst hi
        simp only [List.filterMap_cons, linkPath, List.nodup_cons] at h
        exact absurd (mem_linkPaths.2 (List.mem_of_getElem? hj)) h.1
    | succ i =>
      cases j with
      | zero =>
        simp only [List.getElem?_cons_zero, Option.some.injEq] at hj
        simp only [List.getElem?_cons_succ] at hi
        subst hj
        simp only [List.filterMap_cons, linkPath, List.nodup_cons] at h
        exact absurd (mem_linkPaths.2 (List.mem_of_getElem? hi)) h.1
      | succ j =>
        simp only [List.getElem?_cons_succ] at hi hj
        have h' : (xs.filterMap linkPath).Nodup := by
          cases x with
          | linked q => simp only [List.filterMap_cons, linkPath, List.nodup_cons] at h; exact h.2
          | unlinked b => simpa [List.filterMap_cons, linkPath] using h
        rw [ih h' hi hj]

/-! ### the inode-table transformers -/

/-- where `relocate a b` sends a linked path -/
def reloc (a b q : List Name) : List Name := if isPrefix a q then b ++ q.drop a.length else q

theorem linkPaths_unlinkUnder (t : Node) (pre : List Name) (l : List Link) :
    (unlinkUnder t pre l).filterMap linkPath = (l.filterMap linkPath).filter (fun q => !isPrefix pre q) := by
  induction l with
  | nil => rfl
  | cons x xs ih =>
    cases x with
    | linked q =>
      by_cases hp : isPrefix pre q = true
      · simp only [unlinkUnder, List.map_cons, hp, if_true, List.filterMap_cons, linkPath] at ih ⊢
        simp [hp, ih]
      · simp only [Bool.not_eq_true] at hp
        simp only [unlinkUnder, List.map_cons, hp, List.filterMap_cons, linkPath] at ih ⊢
        simp [hp, ih]
    | unlinked b =>
      simp only [unlinkUnder, List.map_cons, List.filterMap_cons, linkPath] at ih ⊢
      exact ih

theorem linkPaths_relocate (a b : List Name) (l : List Link) :
    (relocate a b l).filterMap linkPath = (l.filterMap linkPath).map (reloc a b) := by
  induction l with
  | nil => rfl
  | cons x xs ih =>
    cases x with
    | linked q =>
      by_cases hp : isPrefix a q = true
      · simp only [relocate, List.map_cons, hp, if_true, List.filterMap_cons, linkPath] at ih ⊢
        simp [reloc, hp, ih]
      · simp only [Bool.not_eq_true] at hp
        simp only [relocate, List.map_cons, hp, List.filterMap_cons, linkPath] at ih ⊢
        simp [reloc, hp, ih]
    | unlinked x =>
      simp only [relocate, List.map_cons, List.filterMap_cons, linkPath] at ih ⊢
      exact ih

theorem mem_unlinkUnder {t : Node} {pre q : List Name} {l : List Link}
    (h : Link.linked q ∈ unlinkUnder t pre l) : Link.linked q ∈ l ∧ isPrefix pre q = false := by
  simp only [unlinkUnder, List.mem_map] at h
  obtain ⟨x, hx, hf⟩ := h
  cases x with
  | linked q' =>
    by_cases hp : isPrefix pre q' = true
    · simp [hp] at hf
    · simp only [Bool.not_eq_true] at hp
      simp only [hp, Bool.false_eq_true, if_false, Link.linked.injEq] at hf
      subst hf; exact ⟨hx, hp⟩
  | unlinked b => simp at hf

theorem mem_relocate {a b q : List Name} {l : List Link}
    (h : Link.linked q ∈ relocate a b l) : ∃ q0, Link.linked q0 ∈ l ∧ q = reloc a b q0 := by
  simp only [relocate, List.mem_map] at h
  obtain ⟨x, hx, hf⟩ := h
  cases x with
  | linked q' =>
    refine ⟨q', hx, ?_⟩
    by_cases hp : isPrefix a q' = true
    · simp only [hp, if_true, Link.linked.injEq] at hf
      simp [reloc, hp, hf]
    · simp only [Bool.not_eq_true] at hp
      simp only [hp, Bool.false_eq_true, if_false, Link.linked.injEq] at hf
      subst hf
      simp [reloc, hp]
  | unlinked b => simp at hf

theorem length_unlinkUnder (t : Node) (pre : List Name) (l : List Link) : (unlinkUnder t pre l).length = l.length := by
  simp [unlinkUnder]

theorem length_relocate (a b : List Name) (l : List Link) : (relocate a b l).length = l.length := by
  simp [relocate]

theorem length_fixup (impl : MovedirImpl) (t : Node) (op : Ref.Op) (l : List Link) :
    (fixup impl t op l).length = l.length := by
  unfold fixup
  split
  · split <;> simp [length_unlinkUnder]
  · split <;> simp [length_unlinkUnder]
  · split
    · split <;> simp [length_unlinkUnder, length_relocate]
    · rfl
  · split
    · split
      · rfl
      · split <;> simp [length_unlinkUnder, length_relocate]
    · rfl
  · rfl

/-! ### small tree facts -/

theorem ne_nil_of_file {t : Node} {q : List Name} {b : Bytes} (hd : t.isDir = true)
    (h : t.get q = some (.file b)) : q ≠ [] := by
  intro e; subst e
  simp only [Node.get, Option.some.injEq] at h
  subst h
  simp [Node.isDir] at hd

/-- a file below (or at) a file is that file -/
theorem eq_of_file_prefix {t : Node} {a q : List Name} {x y : Bytes}
    (ha : t.get a = some (.file x)) (hq : t.get q = some (.file y)) (hp : a <+: q) : q = a := by
  obtain ⟨r, rfl⟩ := hp
  rw [get_append, ha] at hq
  cases r with
  | nil => simp
  | cons c r => simp [Node.get] at hq

theorem isPrefix_self (a : List Name) : isPrefix a a = true := (isPrefix_iff a a).2 (List.prefix_refl a)

theorem isPrefix_false_iff {a q : List Name} : isPrefix a q = false ↔ ¬ a <+: q := by
  rw [← isPrefix_iff]; simp

theorem lookup_clean (c : Name) (n : Node) (es : Ents) (h : entsWf es = true)
    (hl : Ents.lookup c es = some n) : cleanName c = true := by
  induction es with
  | nil => simp [Ents.lookup] at hl
  | cons e es ih =>
    obtain ⟨k, v⟩ := e
    simp only [entsWf, Bool.and_eq_true] at h
    by_cases h' : k = c
    · subst h'; exact h.1.1.1
    · simp [Ents.lookup, h'] at hl
      exact ih h.2 hl

/-- rewriting a file that is there keeps the tree well-formed -/
theorem set_file_wf (cs : List Name) (t : Node) (b b' : Bytes) (ht : t.wf = true)
    (hg : t.get cs = some (.file b)) : (t.set cs (.file b')).wf = true := by
  generalize hv : Node.file b' = v
  fun_induction Node.set cs t v with
  | case1 n v => exact ht
  | case2 c es v =>
    simp only [Node.wf] at ht ⊢
    simp only [Node.get] at hg
    cases hl : Ents.lookup c es with
    | none => simp [hl] at hg
    | some ch => exact entsWf_put _ _ _ (lookup_clean _ _ _ ht hl) (by subst hv; rfl) ht
  | case3 c d cs es v ch hl ih =>
    simp only [Node.wf] at ht ⊢
    simp only [Node.get, hl] at hg
    exact entsWf_put _ _ _ (lookup_clean _ _ _ ht hl) (ih (lookup_wf _ _ _ ht hl) hg hv) ht
  | case4 c d cs es v hl => exact ht
  | case5 c cs b v => exact ht

theorem linkPaths_set_unlinked {l : List Link} {i : Nat} {b : Bytes} (b' : Bytes)
    (h : l[i]? = some (.unlinked b)) :
    (l.set i (.unlinked b')).filterMap linkPath = l.filterMap linkPath := by
  induction l generalizing i with
  | nil => simp at h
  | cons x xs ih =>
    cases i with
    | zero =>
      simp only [List.getElem?_cons_zero, Option.some.injEq] at h
      subst h
      simp only [List.set, List.filterMap_cons, linkPath]
    | succ i =>
      simp only [List.getElem?_cons_succ] at h
      simp only [List.set_cons_succ, List.filterMap_cons, ih h]

/-! ### what `WF` gives for one handle -/

theorem WF.inoOk {s : HState} (h : WF s) {hid : Nat} {hd : Handle} (hh : s.handles[hid]? = some hd) :
    inoOk s hd.ino := by
  have hlt := h.handle_ino hd (List.mem_of_getElem? hh)
  unfold HandleLemmas.inoOk
  rw [List.getElem?_eq_getElem hlt]
  cases hl : s.inodes[hd.ino] with
  | linked cs =>
    exact h.linked_file cs (by rw [← hl]; exact List.getElem_mem hlt)
  | unlinked b => trivial

/-! ### preservation: file-object calls -/

theorem wf_setInoBytes {s : HState} (h : WF s) (i : Nat) (b' : Bytes) : WF (s.setInoBytes i b') := by
  cases hi : s.inodes[i]? with
  | none => simp only [HState.setInoBytes, hi]; exact h
  | some l =>
    cases l with
    | linked cs =>
      obtain ⟨hne, b, hb⟩ := h.linked_file cs (List.mem_of_getElem? hi)
      rw [setInoBytes_linked b' hi hb]
      refine ⟨?_, ?_, ?_, h.links_nodup, h.handle_ino⟩
      · simpa [isDir_set] using h.root_dir
      · exact set_file_wf cs _ b b' h.tree_wf hb
      · intro q hq
        obtain ⟨hqne, x, hx⟩ := h.linked_file q hq
        refine ⟨hqne, ?_⟩
        by_cases hqc : q = cs
        · subst hqc; exact ⟨b', get_set_file_self b' hne hb⟩
        · have := fileAt_set_other b' hne hb hqc
          rw [fileAt_eq_some.2 hx] at this
          exact ⟨x, fileAt_eq_some.1 this⟩
    | unlinked b =>
      rw [setInoBytes_unlinked b' hi]
      refine ⟨h.root_dir, h.tree_wf, ?_, ?_, ?_⟩
      · intro q hq
        rcases List.mem_or_eq_of_mem_set hq with hq | hq
        · exact h.linked_file q hq
        · cases hq
      · simpa [linkPaths_set_unlinked b' hi] using h.links_nodup
      · intro hd hhd
        simpa using h.handle_ino hd hhd

theorem wf_fileStep {s : HState} (h : WF s) (hid : Nat) (op : File.Op) : WF (fileStep s hid op).1 := by
  cases hh : s.handles[hid]? with
  | none => rw [fileStep_bad op hh]; exact h
  | some hd =>
    rw [fileStep_eq op hh (h.inoOk hh)]
    have h1 := wf_setInoBytes h hd.ino (IoRef.step hd.fl ⟨s.inoBytes hd.ino, hd.pos, hd.closed⟩ op).1.bytes
    refine ⟨h1.root_dir, h1.tree_wf, h1.linked_file, h1.links_nodup, ?_⟩
    intro x hx
    simp only at hx
    rcases List.mem_or_eq_of_mem_set hx with hx | hx
    · have := h1.handle_ino x (by rw [setInoBytes_handles]; exact hx)
      exact this
    · subst hx
      have := h1.handle_ino hd (by rw [setInoBytes_handles]; exact List.mem_of_getElem? hh)
      exact this

/-! ### preservation: open -/

theorem findLink_some {cs : List Name} {l : List Link} {i : Nat} (h : findLink cs l = some i) :
    l[i]? = some (.linked cs) := by
  induction l generalizing i with
  | nil => simp [findLink] at h
  | cons x xs ih =>
    simp only [findLink] at h
    split at h
    · next hx => cases h; simp [hx]
    · simp only [Option.map_eq_some_iff] at h
      obtain ⟨j, hj, rfl⟩ := h
      simpa using ih hj

theorem findLink_none {cs : List Name} {l : List Link} (h : findLink cs l = none) : Link.linked cs ∉ l := by
  induction l with
  | nil => simp
  | cons x xs ih =>
    simp only [findLink] at h
    split at h
    · cases h
    · next hx =>
      simp only [Option.map_eq_none_iff] at h
      simp only [List.mem_cons, not_or]
      exact ⟨fun e => hx e.symm, ih h⟩

/-- after a successful `openbin` there is a file at the path -/
theorem openbin_ok_file {st : State} {p m : Str} {cs : List Name} {v : Val}
    (hv : validate p = .ok cs) (hok : (step st (.openbin p m)).2 = .ok v) :
    cs ≠ [] ∧ ∃ b, (step st (.openbin p m)).1.root.get cs = some (.file b) := by
  have hs := step_one_ok (op := .openbin p m) rfl hv hok
  rw [hs] at hok ⊢
  cases hm : parseBinMode m with
  | none => simp [step1, hm, Ref.fail] at hok
  | some md =>
    by_cases hcs : cs = []
    · simp [step1, hm, hcs, Ref.fail] at hok
    · refine ⟨hcs, ?_⟩
      cases hpar : st.root.get (parentOf cs) with
      | none => simp [step1, hm, hcs, hpar, Ref.fail] at hok
      | some pn =>
        cases pn with
        | file _ => simp [step1, hm, hcs, hpar, Ref.fail] at hok
        | dir es =>
          have hset : ∀ x, (st.root.set cs (.file x)).get cs = some (.file x) :=
            fun x => get_set_same cs st.root _ es hcs hpar
          cases hg : st.root.get cs with
          | none =>
            by_cases hc : md.create = true
            · simp only [step1, hm, hcs, hpar, hg, hc, if_true, if_false, upd]
              exact ⟨[], hset []⟩
            · simp [step1, hm, hcs, hpar, hg, hc, Ref.fail] at hok
          | some n =>
            cases n with
            | dir _ => simp [step1, hm, hcs, hpar, hg, Ref.fail] at hok
            | file b =>
              by_cases hx : md.exclusive = true
              · simp [step1, hm, hcs, hpar, hg, hx, Ref.fail] at hok
              · by_cases ht : md.truncate = true
                · simp only [step1, hm, hcs, hpar, hg, hx, ht, if_true, if_false, upd]
                  exact ⟨[], hset []⟩
                · simp only [step1, hm, hcs, hpar, hg, hx, ht, if_false, done]
                  exact ⟨b, hg⟩

/-- the links of the old table are still files after a call that takes none of them out of the tree -/
theorem links_survive {s : HState} (h : WF s) (op : Ref.Op)
    (hA : ∀ q, Link.linked q ∈ s.inodes → ¬ removed op q) :
    ∀ cs, Link.linked cs ∈ s.inodes → cs ≠ [] ∧ ∃ b, (step s.fs op).1.root.get cs = some (.file b) := by
  intro cs hcs
  obtain ⟨hne, x, hx⟩ := h.linked_file cs hcs
  exact ⟨hne, file_survives s.fs op cs x hx (hA cs hcs)⟩

theorem intern_spec (l : List Link) (cs : List Name) :
    (intern l cs).1[(intern l cs).2]? = some (.linked cs) ∧
    ((intern l cs).1 = l ∨ ((intern l cs).1 = l ++ [.linked cs] ∧ Link.linked cs ∉ l)) := by
  unfold intern
  cases hf : findLink cs l with
  | some i => exact ⟨findLink_some hf, Or.inl rfl⟩
  | none => exact ⟨by simp, Or.inr ⟨rfl, findLink_none hf⟩⟩

/-- the handle `open` returns -/
def newHandle (s : HState) (fs' : State) (cs : List Name) (mode : Str) : Handle :=
  { ino := (intern s.inodes cs).2, fl := Mode.flags mode,
    pos := if (Mode.flags mode).appending then ((fileAt fs'.root cs).getD []).length else 0, closed := false }

theorem openStep_ok {s : HState} {p mode : Str} {fs' : State} {v : Val} {cs : List Name}
    (hr : Ref.step s.fs (.openbin p mode) = (fs', .ok v)) (hv : validate p = .ok cs) :
    openStep s p mode =
      ({ fs := fs', inodes := (intern s.inodes cs).1, handles := s.handles ++ [newHandle s fs' cs mode] },
       .opened s.handles.length) := by
  simp only [openStep, hr, hv, newHandle]

theorem openStep_err {s : HState} {p mode : Str} {fs' : State} {e : Err}
    (hr : Ref.step s.fs (.openbin p mode) = (fs', .err e)) : openStep s p mode = (s, .openErr e) := by
  simp only [openStep, hr]

theorem openStep_invalid {s : HState} {p mode : Str} {fs' : State} {v : Val} {e : Err}
    (hr : Ref.step s.fs (.openbin p mode) = (fs', .ok v)) (hv : validate p = .err e) :
    openStep s p mode = (s, .openErr e) := by
  simp only [openStep, hr, hv]

theorem wf_openStep {s : HState} (h : WF s) (p mode : Str) : WF (openStep s p mode).1 := by
  cases hr : Ref.step s.fs (.openbin p mode) with
  | mk fs' out =>
    cases out with
    | err e => rw [openStep_err hr]; exact h
    | ok v =>
      cases hv : validate p with
      | err e => rw [openStep_invalid hr hv]; exact h
      | ok cs =>
        rw [openStep_ok hr hv]
        have hok : (Ref.step s.fs (.openbin p mode)).2 = .ok v := by rw [hr]
        have hfs : fs' = (Ref.step s.fs (.openbin p mode)).1 := by rw [hr]
        obtain ⟨hne, b, hb⟩ := openbin_ok_file hv hok
        rw [← hfs] at hb
        have hsurv := links_survive h (.openbin p mode) (fun _ _ hx => hx)
        rw [← hfs] at hsurv
        obtain ⟨hi, hcase⟩ := intern_spec s.inodes cs
        have hlt : (intern s.inodes cs).2 < (intern s.inodes cs).1.length := by
          obtain ⟨hlt, _⟩ := List.getElem?_eq_some_iff.1 hi
          exact hlt
        refine ⟨?_, ?_, ?_, ?_, ?_⟩
        · rw [hfs]; exact C01.ref_root_is_dir s.fs _ h.root_dir
        · rw [hfs]; exact C01.ref_wf_preserved s.fs _ h.root_dir h.tree_wf
        · intro q hq
          rcases hcase with hc | ⟨hc, _⟩
          · rw [hc] at hq; exact hsurv q hq
          · rw [hc, List.mem_append] at hq
            rcases hq with hq | hq
            · exact hsurv q hq
            · simp only [List.mem_singleton, Link.linked.injEq] at hq
              subst hq; exact ⟨hne, b, hb⟩
        · rcases hcase with hc | ⟨hc, hnot⟩
          · simp only [hc]; exact h.links_nodup
          · simp only [hc, List.filterMap_append, List.filterMap_cons, linkPath, List.filterMap_nil]
            rw [List.nodup_append]
            refine ⟨h.links_nodup, by simp, ?_⟩
            intro a ha b' hb' e
            simp only [List.mem_singleton] at hb'
            subst hb'; subst e
            exact hnot (mem_linkPaths.1 ha)
        · intro hd hhd
          simp only [List.mem_append, List.mem_singleton] at hhd
          rcases hhd with hhd | hhd
          · have := h.handle_ino hd hhd
            rcases hcase with hc | ⟨hc, _⟩
            · simp only [hc]; exact this
            · simp only [hc, List.length_append, List.length_singleton]; omega
          · subst hhd; exact hlt

/-! ### preservation: filesystem calls -/

theorem treeStep_err {impl : MovedirImpl} {s : HState} {op : Ref.Op} {e : Err}
    (hr : (Ref.step s.fs op).2 = .err e) : treeStep impl s op = (s, .tree (.err e)) := by
  have := C05.failed_call_changes_nothing s.fs op e hr
  simp only [treeStep, hr, this]

theorem treeStep_ok {impl : MovedirImpl} {s : HState} {op : Ref.Op} {v : Val}
    (hr : (Ref.step s.fs op).2 = .ok v) :
    treeStep impl s op =
      ({ s with fs := (Ref.step s.fs op).1, inodes := fixup impl s.fs.root op s.inodes }, .tree (.ok v)) := by
  simp only [treeStep, hr]

/-- the two parts of `WF` that talk about the inode table, after an unlinking call -/
theorem links_after_unlink {s : HState} (h : WF s) (op : Ref.Op) (pre : List Name)
    (hrem : ∀ q, removed op q → pre <+: q) :
    (∀ cs, Link.linked cs ∈ unlinkUnder s.fs.root pre s.inodes →
        cs ≠ [] ∧ ∃ b, (step s.fs op).1.root.get cs = some (.file b)) ∧
    ((unlinkUnder s.fs.root pre s.inodes).filterMap linkPath).Nodup := by
  constructor
  · intro cs hcs
    obtain ⟨hmem, hp⟩ := mem_unlinkUnder hcs
    obtain ⟨hne, x, hx⟩ := h.linked_file cs hmem
    exact ⟨hne, file_survives s.fs op cs x hx (fun hr => isPrefix_false_iff.1 hp (hrem cs hr))⟩
  · rw [linkPaths_unlinkUnder]
    exact List.Nodup.sublist List.filter_sublist h.links_nodup

theorem reloc_under {a b r : List Name} : reloc a b (a ++ r) = b ++ r := by
  have : isPrefix a (a ++ r) = true := (isPrefix_iff _ _).2 (List.prefix_append a r)
  simp [reloc, this]

theorem reloc_other {a b q : List Name} (h : isPrefix a q = false) : reloc a b q = q := by
  simp [reloc, h]

theorem wf_treeStep (impl : MovedirImpl) {s : HState} (h : WF s) (op : Ref.Op) : WF (treeStep impl s op).1 := by
  cases hr : (Ref.step s.fs op).2 with
  | err e => rw [treeStep_err hr]; exact h
  | ok v =>
    rw [treeStep_ok hr]
    have hd := C01.ref_root_is_dir s.fs op h.root_dir
    have hw := C01.ref_wf_preserved s.fs op h.root_dir h.tree_wf
    suffices hl : (∀ cs, Link.linked cs ∈ fixup impl s.fs.root op s.inodes →
          cs ≠ [] ∧ ∃ b, (step s.fs op).1.root.get cs = some (.file b)) ∧
        ((fixup impl s.fs.root op s.inodes).filterMap linkPath).Nodup by
      refine ⟨hd, hw, hl.1, hl.2, ?_⟩
      intro x hx
      simp only [length_fixup]
      exact h.handle_ino x hx
    -- calls that leave the table alone
    have hA : (∀ q, ¬ removed op q) → fixup impl s.fs.root op s.inodes = s.inodes →
        (∀ cs, Link.linked cs ∈ fixup impl s.fs.root op s.inodes →
          cs ≠ [] ∧ ∃ b, (step s.fs op).1.root.get cs = some (.file b)) ∧
        ((fixup impl s.fs.root op s.inodes).filterMap linkPath).Nodup := by
      intro hn he
      rw [he]
      exact ⟨links_survive h op (fun q _ => hn q), h.links_nodup⟩
    cases op with
    | remove p =>
      cases hv : validate p with
      | err e => exact hA (fun q ⟨a, ha, _⟩ => by rw [hv] at ha; cases ha) (by simp only [fixup, hv])
      | ok cs =>
        simp only [fixup, hv]
        refine links_after_unlink h _ cs ?_
        rintro q ⟨a, ha, rfl⟩
        rw [hv] at ha; cases ha; exact List.prefix_refl _
    | removetree p =>
      cases hv : validate p with
      | err e => exact hA (fun q ⟨a, ha, _⟩ => by rw [hv] at ha; cases ha) (by simp only [fixup, hv])
      | ok cs =>
        simp only [fixup, hv]
        refine links_after_unlink h _ cs ?_
        rintro q ⟨a, ha, hp⟩
        rw [hv] at ha; cases ha; exact hp
    | move sp dp ow =>
      cases hva : validate sp with
      | err e => exact hA (fun q ⟨a, b, ha, _⟩ => by rw [hva] at ha; cases ha) (by simp only [fixup, hva])
      | ok a =>
        cases hvb : validate dp with
        | err e => exact hA (fun q ⟨a', b, _, hb, _⟩ => by rw [hvb] at hb; cases hb) (by simp only [fixup, hva, hvb])
        | ok b =>
          by_cases hab : a = b
          · refine hA ?_ (by simp only [fixup, hva, hvb, hab, if_true])
            rintro q ⟨a', b', ha', hb', hne, _⟩
            rw [hva] at ha'; rw [hvb] at hb'; cases ha'; cases hb'; exact hne hab
          · simp only [fixup, hva, hvb, hab, if_false]
            obtain ⟨hpb, _, data, hga⟩ := C05.move_post s.fs sp dp ow a b v hva hvb hab h.tree_wf hr
            have hL := links_after_unlink (s := s) h (.exists_ []) b (fun q hq => absurd hq (by simp [removed]))
            constructor
            · intro q hq
              obtain ⟨q0, hq0, rfl⟩ := mem_relocate hq
              obtain ⟨hm0, hpb0⟩ := mem_unlinkUnder hq0
              obtain ⟨hne0, x, hx⟩ := h.linked_file q0 hm0
              by_cases hpa : isPrefix a q0 = true
              · have : q0 = a := eq_of_file_prefix hga hx ((isPrefix_iff _ _).1 hpa)
                subst this
                have hrb : reloc q0 b q0 = b := by simpa using reloc_under (a := q0) (b := b) (r := [])
                rw [hrb]
                have hfb : (step s.fs (.move sp dp ow)).1.root.get b = some (.file data) := by rw [hpb, hga]
                exact ⟨ne_nil_of_file hd hfb, data, hfb⟩
              · simp only [Bool.not_eq_true] at hpa
                rw [reloc_other hpa]
                refine ⟨hne0, file_survives s.fs _ q0 x hx ?_⟩
                rintro ⟨a', b', ha', _, _, rfl⟩
                rw [hva] at ha'; cases ha'
                rw [isPrefix_self] at hpa; cases hpa
            · rw [linkPaths_relocate]
              refine nodup_map_on ?_ hL.2
              intro x hx y hy hxy
              rw [linkPaths_unlinkUnder] at hx hy
              simp only [List.mem_filter, Bool.not_eq_eq_eq_not, Bool.not_true] at hx hy
              obtain ⟨_, fx, hfx⟩ := h.linked_file x (mem_linkPaths.1 hx.1)
              obtain ⟨_, fy, hfy⟩ := h.linked_file y (mem_linkPaths.1 hy.1)
              by_cases hpx : isPrefix a x = true <;> by_cases hpy : isPrefix a y = true
              · rw [eq_of_file_prefix hga hfx ((isPrefix_iff _ _).1 hpx),
                    eq_of_file_prefix hga hfy ((isPrefix_iff _ _).1 hpy)]
              · simp only [Bool.not_eq_true] at hpy
                have hxa : x = a := eq_of_file_prefix hga hfx ((isPrefix_iff _ _).1 hpx)
                subst hxa
                have hrb : reloc x b x = b := by simpa using reloc_under (a := x) (b := b) (r := [])
                rw [hrb, reloc_other hpy] at hxy
                subst hxy
                rw [isPrefix_self] at hy; cases hy.2
              · simp only [Bool.not_eq_true] at hpx
                have hya : y = a := eq_of_file_prefix hga hfy ((isPrefix_iff _ _).1 hpy)
                subst hya
                have hrb : reloc y b y = b := by simpa using reloc_under (a := y) (b := b) (r := [])
                rw [hrb, reloc_other hpx] at hxy
                subst hxy
                rw [isPrefix_self] at hx; cases hx.2
              · simp only [Bool.not_eq_true] at hpx hpy
                rwa [reloc_other hpx, reloc_other hpy] at hxy
    | movedir sp dp cr =>
      cases hva : validate sp with
      | err e => exact hA (fun q ⟨a, b, ha, _⟩ => by rw [hva] at ha; cases ha) (by simp only [fixup, hva])
      | ok a =>
        cases hvb : validate dp with
        | err e => exact hA (fun q ⟨a', b, _, hb, _⟩ => by rw [hvb] at hb; cases hb) (by simp only [fixup, hva, hvb])
        | ok b =>
          by_cases hab : a = b
          · refine hA ?_ (by simp only [fixup, hva, hvb, hab, if_true])
            rintro q ⟨a', b', ha', hb', hne, _⟩
            rw [hva] at ha'; rw [hvb] at hb'; cases ha'; cases hb'; exact hne hab
          · have hUnl : (∀ cs, Link.linked cs ∈ unlinkUnder s.fs.root a s.inodes →
                  cs ≠ [] ∧ ∃ b', (step s.fs (.movedir sp dp cr)).1.root.get cs = some (.file b')) ∧
                ((unlinkUnder s.fs.root a s.inodes).filterMap linkPath).Nodup := by
              refine links_after_unlink h _ a ?_
              rintro q ⟨a', b', ha', _, _, hp⟩
              rw [hva] at ha'; cases ha'; exact hp
            cases himpl : impl with
            | copy => simpa only [fixup, hva, hvb, hab, if_false] using hUnl
            | rename =>
              cases hgb : s.fs.root.get b with
              | some n => simpa only [fixup, hva, hvb, hab, if_false, hgb] using hUnl
              | none =>
                simp only [fixup, hva, hvb, hab, if_false, hgb]
                constructor
                · intro q hq
                  obtain ⟨q0, hm0, rfl⟩ := mem_relocate hq
                  obtain ⟨hne0, x, hx⟩ := h.linked_file q0 hm0
                  by_cases hpa : isPrefix a q0 = true
                  · obtain ⟨r, rfl⟩ := (isPrefix_iff _ _).1 hpa
                    rw [reloc_under]
                    have := C05.movedir_post s.fs sp dp cr a b r v x hva hvb hab h.tree_wf hr hx
                    exact ⟨ne_nil_of_file hd this, x, this⟩
                  · simp only [Bool.not_eq_true] at hpa
                    rw [reloc_other hpa]
                    refine ⟨hne0, file_survives s.fs _ q0 x hx ?_⟩
                    rintro ⟨a', b', ha', _, _, hp⟩
                    rw [hva] at ha'; cases ha'
                    exact isPrefix_false_iff.1 hpa hp
                · rw [linkPaths_relocate]
                  refine nodup_map_on ?_ h.links_nodup
                  intro x hx y hy hxy
                  obtain ⟨_, fx, hfx⟩ := h.linked_file x (mem_linkPaths.1 hx)
                  obtain ⟨_, fy, hfy⟩ := h.linked_file y (mem_linkPaths.1 hy)
                  by_cases hpx : isPrefix a x = true <;> by_cases hpy : isPrefix a y = true
                  · obtain ⟨rx, rfl⟩ := (isPrefix_iff _ _).1 hpx
                    obtain ⟨ry, rfl⟩ := (isPrefix_iff _ _).1 hpy
                    rw [reloc_under, reloc_under] at hxy
                    rw [List.append_cancel_left hxy]
                  · simp only [Bool.not_eq_true] at hpy
                    obtain ⟨rx, rfl⟩ := (isPrefix_iff _ _).1 hpx
                    rw [reloc_under, reloc_other hpy] at hxy
                    subst hxy
                    rw [get_of_get_prefix_none hgb] at hfy; cases hfy
                  · simp only [Bool.not_eq_true] at hpx
                    obtain ⟨ry, rfl⟩ := (isPrefix_iff _ _).1 hpy
                    rw [reloc_under, reloc_other hpx] at hxy
                    subst hxy
                    rw [get_of_get_prefix_none hgb] at hfx; cases hfx
                  · simp only [Bool.not_eq_true] at hpx hpy
                    rwa [reloc_other hpx, reloc_other hpy] at hxy
    | _ => exact hA (fun _ hx => hx) rfl

end Fs.HandleLemmas
