/-
  `Sim F pth → Sim (SubFS at sub over F) (pth ++ sub)`, operation by operation
  (helper lemmas for FsProofs/WrapRefines.lean).
-/
import FsProofs.Lemmas.WrapSimLemmas

namespace Fs.WrapLemmas
open Fs Fs.Ref Fs.TreeLemmas Fs.MemRefines

theorem delegate_valid {sub cs : List Name} {p : Str} (hs : ∀ c ∈ sub, cleanName c = true)
    (h : validate p = .ok cs) :
    Wrap.Sub.delegate (absOf sub) p = .ok (fdel sub p) ∧ Wrap.isRootPath p = .ok (decide (cs = [])) := by
  have hr := validate_ok_resolve h
  rw [fdel_ok h]
  exact ⟨delegate_of_resolve (clean_of_cleanName hs) (not_nul_of_validate_ok h) hr, isRootPath_of_resolve hr⟩

theorem ref_one_valid (s : State) (op : Op) (p : Str) (cs : List Name) (hc : s.closed = false)
    (hp : op.paths = [p]) (hno : ∀ q m, op ≠ .openbin q m) (hv : validate p = .ok cs) :
    Ref.step s op = step1 s cs op := by
  rw [QueryLemmas.step_one s op p hc hp hno, hv]

theorem ref_two_valid (s : State) (op : Op) (a b : Str) (ca cb : List Name) (hc : s.closed = false)
    (hp : op.paths = [a, b]) (ha : validate a = .ok ca) (hb : validate b = .ok cb) :
    Ref.step s op = step2 s ca cb op := by
  rw [QueryLemmas.step_two s op a b hc hp, ha, hb]

theorem simAt_congr {F F' : Wrap.FS State} {pth : List Name} {s : State} {es : Ents} {op : Op}
    (h : F' s op = F s op) (hs : SimAt F pth s es op) : SimAt F' pth s es op := by
  simp only [SimAt] at hs ⊢
  rw [h]; exact hs

section Ops
variable {F : Wrap.FS State} {pth sub : List Name} (hS : Sim F pth) {s : State} {es : Ents}
  (G : Good s (pth ++ sub) es)
include hS G

omit hS in
theorem subNames : ∀ c ∈ sub, cleanName c = true := fun c hc => G.names c (by simp [hc])

/-- methods that delegate one call with delegated paths -/
theorem sim_direct (op : Op) (hop : op ≠ .close)
    (hval : ∀ p ∈ op.paths, ∃ cs, validate p = .ok cs)
    (hsp : rootSpecial op = false ∨ ∀ p ∈ op.paths, validate p ≠ .ok [])
    (hk : ¬ knownDeviation op) (hl : (Ref.step (V es) op).2 ≠ .err .OperationFailed)
    (heq : Wrap.Sub.stepOpen (absOf sub) F s op = F s (mapPaths (fdel sub) op)) :
    SimAt (Wrap.Sub.stepOpen (absOf sub) F) (pth ++ sub) s es op :=
  simAt_congr (F := fun s o => F s (mapPaths (fdel sub) o)) heq (core hS G op hop hval hsp hk hl)


omit hS G in
theorem getinfo_nonroot {σ : Type} (dp : Wrap.Delegate) (F : Wrap.FS σ) (s : σ) (p q : Str)
    (hd : dp p = .ok q) (hr : Wrap.isRootPath p = .ok false) :
    Wrap.getinfo dp F s p = F s (.getinfo q) := by
  simp only [Wrap.getinfo, hd, hr]
  generalize F s (.getinfo q) = r
  obtain ⟨s1, o⟩ := r
  cases o with
  | err e => rfl
  | ok v => cases v <;> rfl

theorem sim_getinfo (p : Str) (cs : List Name) (hv : validate p = .ok cs) :
    SimAt (Wrap.Sub.stepOpen (absOf sub) F) (pth ++ sub) s es (.getinfo p) := by
  have hsn := subNames G
  obtain ⟨hd, hr⟩ := delegate_valid hsn hv
  by_cases hcs : cs = []
  · subst hcs
    obtain ⟨esP, GP, hsubdir⟩ := good_split G
    have hfd : fdel sub p = absOf sub := by rw [fdel_ok hv]; simp
    have hvq : validate (absOf sub) = .ok sub := validate_absOf hsn
    -- the parent's view of the call
    have hP : Ref.step (V esP) (.getinfo (absOf sub)) = done (V esP) (.info (lastName sub) true 0) := by
      rw [ref_one_valid (V esP) _ (absOf sub) sub rfl rfl (by simp) hvq]
      simp [step1, V, hsubdir]
    have hnnq : ¬ nulRootTest (.getinfo (absOf sub)) := by simp [nulRootTest]
    obtain ⟨_, h2, _⟩ := hS s esP (.getinfo (absOf sub)) GP (by simp) hnnq (by simp [knownDeviation])
      (by rw [hP]; simp [done])
    have hF : F s (.getinfo (absOf sub)) = (s, .ok (.info (lastName sub) true 0)) := by
      rw [h2 (by rw [hP]; rfl), hP, ← viewOf_good GP, graft_done GP.dir]; rfl
    have hR : Ref.step (V es) (.getinfo p) = done (V es) (.info [] true 0) := by
      rw [ref_one_valid (V es) _ p [] rfl rfl (by simp) hv]
      simp [step1, V, Node.get, lastName]
    have hW : Wrap.Sub.stepOpen (absOf sub) F s (.getinfo p) = (s, .ok (.info [] true 0)) := by
      simp [Wrap.Sub.stepOpen, Wrap.stepOpen, Wrap.getinfo, hd, hr, hfd, hF]
    simp only [SimAt, hW, hR]
    refine ⟨rfl, fun _ => ?_, fun e he => by cases he⟩
    rw [← viewOf_good G, graft_done G.dir]; rfl
  · have hr' : Wrap.isRootPath p = .ok false := by rw [hr]; simp [hcs]
    refine sim_direct hS G (.getinfo p) (by simp) ?_ (Or.inr ?_) (by simp [knownDeviation]) ?_ ?_
    · intro q hq; simp [Op.paths] at hq; subst hq; exact ⟨cs, hv⟩
    · intro q hq; simp [Op.paths] at hq; subst hq; rw [hv]; simpa using hcs
    · rw [ref_one_valid (V es) _ p cs rfl rfl (by simp) hv]
      simp only [step1]; repeat' split
      all_goals simp [fail, done]
    · simp only [Wrap.Sub.stepOpen, Wrap.stepOpen]
      exact getinfo_nonroot _ F s p _ hd hr'


/-! #### isempty -/

/-- what `FS.isempty` makes of the scan -/
def empPost : State × Out → State × Out
  | (s1, .ok (.names l)) => (s1, .ok (.bool l.isEmpty))
  | r => r

omit hS G in
theorem ref_isempty (s : State) (p : Str) :
    Ref.step s (.isempty p) = empPost (Ref.step s (.listdir p)) := by
  cases hc : s.closed with
  | true => rw [QueryLemmas.step_closed s _ (by simp) hc, QueryLemmas.step_closed s _ (by simp) hc]; rfl
  | false =>
    rw [QueryLemmas.step_one s _ p hc rfl (by simp), QueryLemmas.step_one s _ p hc rfl (by simp)]
    cases validate p with
    | err e => rfl
    | ok cs =>
      simp only [step1]
      cases s.root.get cs with
      | none => rfl
      | some n => cases n <;> simp [fail, done, Ents.names, empPost]

omit hS G in
theorem adm_isempty (s : State) (p : Str) : adm s (.isempty p) = adm s (.listdir p) := by
  cases hc : s.closed with
  | true => rw [QueryLemmas.adm_closed s _ (by simp) hc, QueryLemmas.adm_closed s _ (by simp) hc]
  | false =>
    rw [QueryLemmas.adm_one s _ p hc rfl (by simp), QueryLemmas.adm_one s _ p hc rfl (by simp)]
    cases validate p <;> rfl

omit hS G in
theorem step1_listdir_ok {s sv : State} {cs : List Name} {p : Str} {v : Val}
    (h : step1 s cs (.listdir p) = (sv, .ok v)) : sv = s ∧ ∃ l, v = .names l := by
  simp only [step1] at h
  split at h
  · cases h
  · cases h
  · simp only [done, Prod.mk.injEq, Res.ok.injEq] at h
    exact ⟨h.1.symm, _, h.2.symm⟩

theorem sim_isempty (p : Str) (cs : List Name) (hv : validate p = .ok cs) :
    SimAt (Wrap.Sub.stepOpen (absOf sub) F) (pth ++ sub) s es (.isempty p) := by
  have hsn := subNames G
  obtain ⟨hd, _⟩ := delegate_valid hsn hv
  have hRl : Ref.step (V es) (.listdir p) = step1 (V es) cs (.listdir p) :=
    ref_one_valid (V es) _ p cs rfl rfl (by simp) hv
  have hc := core hS G (.listdir p) (by simp) (by intro q hq; simp [Op.paths] at hq; subst hq; exact ⟨cs, hv⟩)
    (Or.inl rfl) (by simp [knownDeviation]) (by
      rw [hRl]; simp only [step1]; repeat' split
      all_goals simp [fail, done])
  simp only [SimAt, mapPaths] at hc
  obtain ⟨h1, h2, h3⟩ := hc
  have hW : Wrap.Sub.stepOpen (absOf sub) F s (.isempty p) = empPost (F s (.listdir (fdel sub p))) := by
    simp only [Wrap.Sub.stepOpen, Wrap.stepOpen, Wrap.isempty, hd]
    generalize F s (.listdir (fdel sub p)) = r
    obtain ⟨s1, o⟩ := r
    cases o with
    | err e => rfl
    | ok v => cases v <;> rfl
  unfold SimAt
  rw [hW, ref_isempty, adm_isempty]
  generalize F s (.listdir (fdel sub p)) = r at h1 h2 h3 ⊢
  obtain ⟨s1, o⟩ := r
  rw [hRl] at h1 h2 ⊢
  cases hR : step1 (V es) cs (.listdir p) with
  | mk sv ov =>
    rw [hR] at h1 h2
    cases ov with
    | err e0 =>
      cases o with
      | ok v => simp [Res.isOk] at h1
      | err e =>
        refine ⟨rfl, ?_, ?_⟩
        · intro h; simp [empPost, Res.isOk] at h
        · intro e' he'; exact h3 e' he'
    | ok v =>
      obtain ⟨rfl, l, rfl⟩ := step1_listdir_ok hR
      have := h2 rfl
      simp only [graft, Prod.mk.injEq] at this
      obtain ⟨rfl, rfl⟩ := this
      exact ⟨rfl, fun _ => rfl, fun e he => by cases he⟩

/-! #### removedir -/

theorem sim_removedir (p : Str) (cs : List Name) (hv : validate p = .ok cs)
    (hl : (Ref.step (V es) (.removedir p)).2 ≠ .err .OperationFailed) :
    SimAt (Wrap.Sub.stepOpen (absOf sub) F) (pth ++ sub) s es (.removedir p) := by
  have hsn := subNames G
  obtain ⟨hd, hr⟩ := delegate_valid hsn hv
  by_cases hcs : cs = []
  · subst hcs
    have hW : Wrap.Sub.stepOpen (absOf sub) F s (.removedir p) = (s, .err .RemoveRootError) := by
      simp [Wrap.Sub.stepOpen, Wrap.stepOpen, Wrap.removedir, hr]
    have hR : Ref.step (V es) (.removedir p) = fail (V es) .RemoveRootError := by
      rw [ref_one_valid (V es) _ p [] rfl rfl (by simp) hv]; simp [step1]
    unfold SimAt
    rw [hW, hR]
    refine ⟨rfl, ?_, ?_⟩
    · intro h; simp [fail, Res.isOk] at h
    intro e he
    simp only [Res.err.injEq] at he
    subst he
    refine ⟨rfl, ?_⟩
    rw [QueryLemmas.adm_one (V es) _ p rfl rfl (by simp), hv]
    simp [adm1]
  · have hr' : Wrap.isRootPath p = .ok false := by rw [hr]; simp [hcs]
    refine sim_direct hS G (.removedir p) (by simp) ?_ (Or.inr ?_) (by simp [knownDeviation]) hl ?_
    · intro q hq; simp [Op.paths] at hq; subst hq; exact ⟨cs, hv⟩
    · intro q hq; simp [Op.paths] at hq; subst hq; rw [hv]; simpa using hcs
    · simp [Wrap.Sub.stepOpen, Wrap.stepOpen, Wrap.removedir, hr', hd, mapPaths]


/-! #### removetree: the loop of the root branch -/

omit hS G in
theorem good_after {s : State} {P : List Name} {es es' : Ents} (G : Good s P es) (hw : entsWf es' = true) :
    Good { s with root := setAt s.root P (.dir es') } P es' :=
  ⟨G.opn, setAt_wf _ _ _ G.names G.wf hw, get_setAt_self G.dir _, G.names⟩

omit G in
/-- every entry of the directory is removed (sub-directories with `removetree`, files with
`remove`), the directory itself stays: the parent ends with an empty directory at the place -/
theorem rmLoop_sim : ∀ (es : Ents) (s : State), Good s (pth ++ sub) es →
    Wrap.rmLoop F (absOf sub) (Ents.names es) s =
      ({ s with root := setAt s.root (pth ++ sub) (.dir []) }, .ok .unit) := by
  intro es
  induction es with
  | nil =>
    intro s G
    simp only [Ents.names, List.map_nil, Wrap.rmLoop]
    rw [setAt_self _ _ _ G.dir]
  | cons e es' ih =>
    intro s G
    obtain ⟨k, v⟩ := e
    have hsn := subNames G
    have hwf : entsWf ((k, v) :: es') = true := by
      have := get_wf _ _ _ G.wf G.dir
      simpa [Node.wf] using this
    simp only [entsWf, Bool.and_eq_true] at hwf
    obtain ⟨⟨⟨hk, hlk⟩, hvw⟩, hw'⟩ := hwf
    have hjoin : Path.join [absOf sub, k] = .ok (absOf (sub ++ [k])) := join_child (clean_of_cleanName hsn) hk
    have hvk : validate (absOf [k]) = .ok [k] := validate_absOf (by simpa using hk)
    have hfd : fdel sub (absOf [k]) = absOf (sub ++ [k]) := fdel_ok hvk
    have hget : (V ((k, v) :: es')).root.get [k] = some v := by simp [V, Node.get, Ents.lookup]
    have hval : ∀ (mk : Str → Op), (∀ x, (mk x).paths = [x]) → ∀ q ∈ (mk (absOf [k])).paths, ∃ cs, validate q = .ok cs := by
      intro mk hmk q hq; rw [hmk] at hq; simp at hq; subst hq; exact ⟨[k], hvk⟩
    have hspk : ∀ (mk : Str → Op), (∀ x, (mk x).paths = [x]) →
        ∀ q ∈ (mk (absOf [k])).paths, validate q ≠ .ok [] := by
      intro mk hmk q hq; rw [hmk] at hq; simp at hq; subst hq; rw [hvk]; simp
    -- the Info of this entry
    have hRi : Ref.step (V ((k, v) :: es')) (.getinfo (absOf [k])) = step1 (V ((k, v) :: es')) [k] (.getinfo (absOf [k])) :=
      ref_one_valid _ _ _ [k] rfl rfl (by simp) hvk
    have hci := core hS G (.getinfo (absOf [k])) (by simp) (hval .getinfo (fun _ => rfl))
      (Or.inr (hspk .getinfo (fun _ => rfl))) (by simp [knownDeviation])
      (by rw [hRi]; simp only [step1, hget]; cases v <;> simp [done])
    simp only [SimAt, mapPaths, hfd] at hci
    simp only [Ents.names, List.map_cons, Wrap.rmLoop, hjoin]
    cases v with
    | dir sub_es =>
      have hi : F s (.getinfo (absOf (sub ++ [k]))) = (s, .ok (.info k true 0)) := by
        rw [hci.2.1 (by rw [hRi]; simp [step1, hget, done, Res.isOk]), hRi]
        simp only [step1, hget, lastName]
        rw [← viewOf_good G, graft_done G.dir]; rfl
      have hRt : Ref.step (V ((k, .dir sub_es) :: es')) (.removetree (absOf [k])) =
          upd (V ((k, .dir sub_es) :: es')) (.dir es') := by
        rw [ref_one_valid _ _ _ [k] rfl rfl (by simp) hvk]
        simp [step1, V, Node.del, Ents.erase, Node.get, Ents.lookup]
      have hct := core hS G (.removetree (absOf [k])) (by simp) (hval .removetree (fun _ => rfl))
        (Or.inr (hspk .removetree (fun _ => rfl))) (by simp [knownDeviation]) (by rw [hRt]; simp [upd])
      simp only [SimAt, mapPaths, hfd] at hct
      have ht : F s (.removetree (absOf (sub ++ [k]))) =
          ({ s with root := setAt s.root (pth ++ sub) (.dir es') }, .ok .unit) := by
        rw [hct.2.1 (by rw [hRt]; rfl), hRt, ← viewOf_good G, graft_upd]; rfl
      simp only [hi, ht]
      have := ih _ (good_after G hw')
      simp only [Ents.names] at this
      rw [this]
      simp [setAt_setAt]
    | file data =>
      have hi : F s (.getinfo (absOf (sub ++ [k]))) = (s, .ok (.info k false data.length)) := by
        rw [hci.2.1 (by rw [hRi]; simp [step1, hget, done, Res.isOk]), hRi]
        simp only [step1, hget, lastName]
        rw [← viewOf_good G, graft_done G.dir]; rfl
      have hRt : Ref.step (V ((k, .file data) :: es')) (.remove (absOf [k])) =
          upd (V ((k, .file data) :: es')) (.dir es') := by
        rw [ref_one_valid _ _ _ [k] rfl rfl (by simp) hvk]
        simp [step1, V, Node.del, Ents.erase, Node.get, Ents.lookup]
      have hct := core hS G (.remove (absOf [k])) (by simp) (hval .remove (fun _ => rfl))
        (Or.inl rfl) (by simp [knownDeviation]) (by rw [hRt]; simp [upd])
      simp only [SimAt, mapPaths, hfd] at hct
      have ht : F s (.remove (absOf (sub ++ [k]))) =
          ({ s with root := setAt s.root (pth ++ sub) (.dir es') }, .ok .unit) := by
        rw [hct.2.1 (by rw [hRt]; rfl), hRt, ← viewOf_good G, graft_upd]; rfl
      simp only [hi, ht]
      have := ih _ (good_after G hw')
      simp only [Ents.names] at this
      rw [this]
      simp [setAt_setAt]


theorem sim_removetree (p : Str) (cs : List Name) (hv : validate p = .ok cs)
    (hl : (Ref.step (V es) (.removetree p)).2 ≠ .err .OperationFailed) :
    SimAt (Wrap.Sub.stepOpen (absOf sub) F) (pth ++ sub) s es (.removetree p) := by
  have hsn := subNames G
  obtain ⟨hd, hr⟩ := delegate_valid hsn hv
  by_cases hcs : cs = []
  · subst hcs
    have hfd : fdel sub p = absOf sub := by rw [fdel_ok hv]; simp
    have hRl : Ref.step (V es) (.listdir p) = done (V es) (.names (Ents.names es)) := by
      rw [ref_one_valid (V es) _ p [] rfl rfl (by simp) hv]; simp [step1, V, Node.get]
    have hc := core hS G (.listdir p) (by simp) (by intro q hq; simp [Op.paths] at hq; subst hq; exact ⟨[], hv⟩)
      (Or.inl rfl) (by simp [knownDeviation]) (by rw [hRl]; simp [done])
    simp only [SimAt, mapPaths, hfd] at hc
    have hlist : F s (.listdir (absOf sub)) = (s, .ok (.names (Ents.names es))) := by
      rw [hc.2.1 (by rw [hRl]; rfl), hRl, ← viewOf_good G, graft_done G.dir]; rfl
    have hW : Wrap.Sub.stepOpen (absOf sub) F s (.removetree p) =
        ({ s with root := setAt s.root (pth ++ sub) (.dir []) }, .ok .unit) := by
      simp only [Wrap.Sub.stepOpen, Wrap.stepOpen, Wrap.removetree, hr, hd, hfd, decide_true, if_true, hlist]
      exact rmLoop_sim hS es s G
    have hR : Ref.step (V es) (.removetree p) = upd (V es) (.dir []) := by
      rw [ref_one_valid (V es) _ p [] rfl rfl (by simp) hv]; simp [step1]
    unfold SimAt
    rw [hW, hR]
    refine ⟨rfl, fun _ => ?_, fun e he => by cases he⟩
    rw [← viewOf_good G, graft_upd]; rfl
  · have hr' : Wrap.isRootPath p = .ok false := by rw [hr]; simp [hcs]
    refine sim_direct hS G (.removetree p) (by simp) ?_ (Or.inr ?_) (by simp [knownDeviation]) hl ?_
    · intro q hq; simp [Op.paths] at hq; subst hq; exact ⟨cs, hv⟩
    · intro q hq; simp [Op.paths] at hq; subst hq; rw [hv]; simpa using hcs
    · simp [Wrap.Sub.stepOpen, Wrap.stepOpen, Wrap.removetree, hr', hd, mapPaths]

/-! #### copy -/

omit hS G in
theorem ref_exists_valid (s : State) (p : Str) (cs : List Name) (hc : s.closed = false) (hv : validate p = .ok cs) :
    Ref.step s (.exists_ p) = done s (.bool (s.root.get cs).isSome) := by
  rw [ref_one_valid s _ p cs hc rfl (by simp) hv]; rfl

/-- the inner `exists(_dst)` of `copy` / `copydir` -/
theorem inner_exists (p : Str) (cs : List Name) (hv : validate p = .ok cs) :
    F s (.exists_ (fdel sub p)) = (s, .ok (.bool ((Node.dir es).get cs).isSome)) := by
  have hR := ref_exists_valid (V es) p cs rfl hv
  have hc := core hS G (.exists_ p) (by simp) (by intro q hq; simp [Op.paths] at hq; subst hq; exact ⟨cs, hv⟩)
    (Or.inl rfl) (by simp [knownDeviation]) (by rw [hR]; simp [done])
  simp only [SimAt, mapPaths] at hc
  rw [hc.2.1 (by rw [hR]; rfl), hR, ← viewOf_good G, graft_done G.dir]; rfl

omit hS G in
theorem adm_copy_mono (s : State) (a b : Str) (ow : Bool) :
    ∀ e ∈ adm s (.copy a b true), e ∈ adm s (.copy a b ow) := by
  intro e he
  cases hc : s.closed with
  | true =>
    rw [QueryLemmas.adm_closed s _ (by simp) hc] at he ⊢; exact he
  | false =>
    rw [QueryLemmas.adm_two s _ a b hc rfl] at he ⊢
    generalize validate a = va at he ⊢
    generalize validate b = vb at he ⊢
    cases va with
    | err ea => cases vb <;> exact he
    | ok ca =>
      cases vb with
      | err eb => exact he
      | ok cb =>
        simp only [adm2, List.mem_append] at he ⊢
        rcases he with (he | he) | he
        · exact Or.inl (Or.inl he)
        · simp at he
        · exact Or.inr he

theorem sim_copy (a b : Str) (ow : Bool) (ca cb : List Name) (ha : validate a = .ok ca) (hb : validate b = .ok cb) :
    SimAt (Wrap.Sub.stepOpen (absOf sub) F) (pth ++ sub) s es (.copy a b ow) := by
  have hsn := subNames G
  obtain ⟨hda, _⟩ := delegate_valid hsn ha
  obtain ⟨hdb, _⟩ := delegate_valid hsn hb
  have hval : ∀ o, ∀ q ∈ (Op.copy a b o).paths, ∃ cs, validate q = .ok cs := by
    intro o q hq; simp [Op.paths] at hq; rcases hq with rfl | rfl
    · exact ⟨ca, ha⟩
    · exact ⟨cb, hb⟩
  have hnl : ∀ o, (Ref.step (V es) (.copy a b o)).2 ≠ .err .OperationFailed := by
    intro o
    rw [ref_two_valid (V es) _ a b ca cb rfl rfl ha hb]
    simp only [step2]; repeat' split
    all_goals simp [fail, done, upd]
  have hcT := core hS G (.copy a b true) (by simp) (hval true) (Or.inl rfl) (by simp [knownDeviation]) (hnl true)
  simp only [SimAt, mapPaths] at hcT
  cases ow with
  | true =>
    have hW : Wrap.Sub.stepOpen (absOf sub) F s (.copy a b true) = F s (.copy (fdel sub a) (fdel sub b) true) := by
      simp [Wrap.Sub.stepOpen, Wrap.stepOpen, Wrap.copy, hda, hdb]
    unfold SimAt; rw [hW]; exact hcT
  | false =>
    have hex := inner_exists hS G b cb hb
    cases hg : ((Node.dir es).get cb).isSome with
    | true =>
      have hW : Wrap.Sub.stepOpen (absOf sub) F s (.copy a b false) = (s, .err .DestinationExists) := by
        simp [Wrap.Sub.stepOpen, Wrap.stepOpen, Wrap.copy, hda, hdb, hex, hg]
      have hR : Ref.step (V es) (.copy a b false) = fail (V es) .DestinationExists := by
        rw [ref_two_valid (V es) _ a b ca cb rfl rfl ha hb]
        simp [step2, V, hg]
      unfold SimAt; rw [hW, hR]
      refine ⟨rfl, ?_, ?_⟩
      · intro h; simp [fail, Res.isOk] at h
      intro e he
      simp only [Res.err.injEq] at he
      subst he
      refine ⟨rfl, ?_⟩
      rw [QueryLemmas.adm_two (V es) _ a b rfl rfl, ha, hb]
      have : kindAt (V es).root cb ≠ none := by
        simp only [kindAt, V]
        cases hgg : (Node.dir es).get cb with
        | none => simp [hgg] at hg
        | some n => cases n <;> simp
      simp [adm2, this]
    | false =>
      have hW : Wrap.Sub.stepOpen (absOf sub) F s (.copy a b false) = F s (.copy (fdel sub a) (fdel sub b) true) := by
        simp [Wrap.Sub.stepOpen, Wrap.stepOpen, Wrap.copy, hda, hdb, hex, hg]
      have hR : Ref.step (V es) (.copy a b false) = Ref.step (V es) (.copy a b true) := by
        rw [ref_two_valid (V es) _ a b ca cb rfl rfl ha hb, ref_two_valid (V es) _ a b ca cb rfl rfl ha hb]
        simp [step2, V, hg]
      unfold SimAt; rw [hW, hR]
      exact ⟨hcT.1, hcT.2.1, fun e he => ⟨(hcT.2.2 e he).1, adm_copy_mono _ a b false e (hcT.2.2 e he).2⟩⟩


/-! #### copydir -/

/-- the inner `getinfo(_src)` of `copydir` on an existing source -/
theorem inner_getinfo_some (a : Str) (ca : List Name) (ha : validate a = .ok ca) (nd : Node)
    (hg : (Node.dir es).get ca = some nd) :
    ∃ n sz, F s (.getinfo (fdel sub a)) = (s, .ok (.info n nd.isDir sz)) := by
  have hsn := subNames G
  by_cases hcs : ca = []
  · subst hcs
    simp only [Node.get, Option.some.injEq] at hg
    subst hg
    obtain ⟨esP, GP, hsubdir⟩ := good_split G
    have hfd : fdel sub a = absOf sub := by rw [fdel_ok ha]; simp
    have hvq : validate (absOf sub) = .ok sub := validate_absOf hsn
    have hP : Ref.step (V esP) (.getinfo (absOf sub)) = done (V esP) (.info (lastName sub) true 0) := by
      rw [ref_one_valid (V esP) _ (absOf sub) sub rfl rfl (by simp) hvq]
      simp [step1, V, hsubdir]
    have hnnq : ¬ nulRootTest (.getinfo (absOf sub)) := by simp [nulRootTest]
    obtain ⟨_, h2, _⟩ := hS s esP (.getinfo (absOf sub)) GP (by simp) hnnq (by simp [knownDeviation])
      (by rw [hP]; simp [done])
    refine ⟨lastName sub, 0, ?_⟩
    rw [hfd, h2 (by rw [hP]; rfl), hP, ← viewOf_good GP, graft_done GP.dir]; rfl
  · have hR : Ref.step (V es) (.getinfo a) = step1 (V es) ca (.getinfo a) :=
      ref_one_valid (V es) _ a ca rfl rfl (by simp) ha
    have hR' : ∃ sz, step1 (V es) ca (.getinfo a) = done (V es) (.info (lastName ca) nd.isDir sz) := by
      cases nd with
      | file d => exact ⟨d.length, by simp only [step1, V, hg]; rfl⟩
      | dir eas => exact ⟨0, by simp only [step1, V, hg]; rfl⟩
    obtain ⟨sz, hR'⟩ := hR'
    have hc := core hS G (.getinfo a) (by simp) (by intro q hq; simp [Op.paths] at hq; subst hq; exact ⟨ca, ha⟩)
      (Or.inr (by intro q hq; simp [Op.paths] at hq; subst hq; rw [ha]; simpa using hcs))
      (by simp [knownDeviation]) (by rw [hR, hR']; simp [done])
    simp only [SimAt, mapPaths] at hc
    refine ⟨lastName ca, sz, ?_⟩
    rw [hc.2.1 (by rw [hR, hR']; rfl), hR, hR', ← viewOf_good G, graft_done G.dir]; rfl

/-- … and on a missing source: it fails, the parent is untouched, the class is admissible -/
theorem inner_getinfo_none (a : Str) (ca : List Name) (ha : validate a = .ok ca)
    (hg : (Node.dir es).get ca = none) :
    ∃ e, F s (.getinfo (fdel sub a)) = (s, .err e) ∧ e ∈ adm (V es) (.getinfo a) := by
  have hcs : ca ≠ [] := ne_nil_of_get_none hg
  have hR : Ref.step (V es) (.getinfo a) = fail (V es) .ResourceNotFound := by
    rw [ref_one_valid (V es) _ a ca rfl rfl (by simp) ha]; simp [step1, V, hg]
  have hc := core hS G (.getinfo a) (by simp) (by intro q hq; simp [Op.paths] at hq; subst hq; exact ⟨ca, ha⟩)
    (Or.inr (by intro q hq; simp [Op.paths] at hq; subst hq; rw [ha]; simpa using hcs))
    (by simp [knownDeviation]) (by rw [hR]; simp [fail])
  simp only [SimAt, mapPaths] at hc
  obtain ⟨h1, _, h3⟩ := hc
  rw [hR] at h1
  generalize F s (.getinfo (fdel sub a)) = r at h1 h3 ⊢
  obtain ⟨s1, o⟩ := r
  cases o with
  | ok v => simp [fail, Res.isOk] at h1
  | err e =>
    obtain ⟨hs, he⟩ := h3 e rfl
    simp only at hs
    subst hs
    exact ⟨e, rfl, he⟩

omit hS G in
theorem adm_copydir_of_getinfo (a b : Str) (c : Bool) (ca cb : List Name) (ha : validate a = .ok ca)
    (hb : validate b = .ok cb) :
    ∀ e ∈ adm (V es) (.getinfo a), e ∈ adm (V es) (.copydir a b c) := by
  intro e he
  rw [QueryLemmas.adm_one (V es) _ a rfl rfl (by simp), ha] at he
  rw [QueryLemmas.adm_two (V es) _ a b rfl rfl, ha, hb]
  simp only [adm1, List.mem_append] at he
  simp only [adm2, admDirArg, List.mem_append]
  rcases he with he | he
  · exact Or.inl (Or.inl (Or.inl (Or.inl he)))
  · left; left; left; right
    split at he
    · rename_i h1; simp [h1]; simpa using he
    · simp at he

omit hS G in
theorem adm_copydir_mono (s : State) (a b : Str) (c : Bool) :
    ∀ e ∈ adm s (.copydir a b true), e ∈ adm s (.copydir a b c) := by
  intro e he
  cases hc : s.closed with
  | true =>
    rw [QueryLemmas.adm_closed s _ (by simp) hc] at he ⊢; exact he
  | false =>
    rw [QueryLemmas.adm_two s _ a b hc rfl] at he ⊢
    generalize validate a = va at he ⊢
    generalize validate b = vb at he ⊢
    cases va with
    | err ea => cases vb <;> exact he
    | ok ca =>
      cases vb with
      | err eb => exact he
      | ok cb =>
        simp only [adm2, List.mem_append] at he ⊢
        rcases he with ((he | he) | he) | he
        · exact Or.inl (Or.inl (Or.inl he))
        · exact Or.inl (Or.inl (Or.inr he))
        · simp at he
        · exact Or.inr he

omit hS G in
/-- the reference's `copydir`, by the three guards `WrapFS.copydir` evaluates first -/
theorem ref_copydir_guards (a b : Str) (c : Bool) (ca cb : List Name) (ha : validate a = .ok ca)
    (hb : validate b = .ok cb) :
    (c = false → (Node.dir es).get cb = none → (Ref.step (V es) (.copydir a b c)).2.isOk = false ∧
      Err.ResourceNotFound ∈ adm (V es) (.copydir a b c)) ∧
    ((Node.dir es).get ca = none → (Ref.step (V es) (.copydir a b c)).2.isOk = false) ∧
    (∀ d, (Node.dir es).get ca = some (.file d) → (Ref.step (V es) (.copydir a b c)).2.isOk = false ∧
      Err.DirectoryExpected ∈ adm (V es) (.copydir a b c)) ∧
    (∀ eas, (Node.dir es).get ca = some (.dir eas) → (c = true ∨ ((Node.dir es).get cb).isSome = true) →
      Ref.step (V es) (.copydir a b c) = Ref.step (V es) (.copydir a b true)) := by
  let R := fun c => Ref.step (V es) (.copydir a b c)
  show (c = false → (Node.dir es).get cb = none → (R c).2.isOk = false ∧ Err.ResourceNotFound ∈ adm (V es) (.copydir a b c)) ∧
    ((Node.dir es).get ca = none → (R c).2.isOk = false) ∧
    (∀ d, (Node.dir es).get ca = some (.file d) → (R c).2.isOk = false ∧ Err.DirectoryExpected ∈ adm (V es) (.copydir a b c)) ∧
    (∀ eas, (Node.dir es).get ca = some (.dir eas) → (c = true ∨ ((Node.dir es).get cb).isSome = true) → R c = R true)
  have hR : ∀ c, R c = step2 (V es) ca cb (.copydir a b c) := fun c =>
    ref_two_valid (V es) _ a b ca cb rfl rfl ha hb
  have hadm : ∀ c, adm (V es) (.copydir a b c) = adm2 (Node.dir es) ca cb (.copydir a b c) := by
    intro c; rw [QueryLemmas.adm_two (V es) _ a b rfl rfl, ha, hb]; rfl
  refine ⟨?_, ?_, ?_, ?_⟩
  · intro hc hg
    subst hc
    refine ⟨?_, ?_⟩
    · rw [hR]; simp only [step2, V, hg]
      split <;> simp [fail, Res.isOk]
    · rw [hadm]; simp [adm2, kindAt, hg]
  · intro hg
    rw [hR]; simp only [step2, V, hg]
    repeat' split
    all_goals simp [fail, Res.isOk]
  · intro d hg
    refine ⟨?_, ?_⟩
    · rw [hR]; simp only [step2, V, hg]
      repeat' split
      all_goals simp [fail, Res.isOk]
    · rw [hadm]; simp [adm2, admDirArg, kindAt, hg]
  · intro eas hg hc
    rw [hR, hR]
    rcases hc with hc | hc
    · subst hc; rfl
    · simp only [step2, V]
      cases hgb : (Node.dir es).get cb with
      | none => simp [hgb] at hc
      | some nb => cases nb <;> rfl


theorem sim_copydir (a b : Str) (c : Bool) (ca cb : List Name) (ha : validate a = .ok ca) (hb : validate b = .ok cb)
    (hl : (Ref.step (V es) (.copydir a b c)).2 ≠ .err .OperationFailed) :
    SimAt (Wrap.Sub.stepOpen (absOf sub) F) (pth ++ sub) s es (.copydir a b c) := by
  have hsn := subNames G
  obtain ⟨hda, _⟩ := delegate_valid hsn ha
  obtain ⟨hdb, _⟩ := delegate_valid hsn hb
  obtain ⟨g1, g2, g3, g4⟩ := ref_copydir_guards (es := es) a b c ca cb ha hb
  have hex := inner_exists hS G b cb hb
  -- the part after the destination guard
  have hgo : (c = true ∨ ((Node.dir es).get cb).isSome = true) →
      SimAt (fun s _ => Wrap.copydirGo F (fdel sub a) (fdel sub b) s) (pth ++ sub) s es (.copydir a b c) := by
    intro hc
    unfold SimAt
    simp only [Wrap.copydirGo]
    cases hga : (Node.dir es).get ca with
    | none =>
      obtain ⟨e, hF, hadm⟩ := inner_getinfo_none hS G a ca ha hga
      simp only [hF]
      refine ⟨by rw [g2 hga]; rfl, ?_, ?_⟩
      · intro h; rw [g2 hga] at h; cases h
      · intro e' he'
        simp only [Res.err.injEq] at he'
        subst he'
        exact ⟨by simp, adm_copydir_of_getinfo a b c ca cb ha hb e hadm⟩
    | some nd =>
      obtain ⟨n, sz, hF⟩ := inner_getinfo_some hS G a ca ha nd hga
      cases nd with
      | file d =>
        simp only [hF, Node.isDir]
        refine ⟨by rw [(g3 d hga).1]; rfl, ?_, ?_⟩
        · intro h; rw [(g3 d hga).1] at h; cases h
        · intro e' he'
          simp only [Res.err.injEq] at he'
          subst he'
          exact ⟨by simp, (g3 d hga).2⟩
      | dir eas =>
        simp only [hF, Node.isDir]
        have hRc := g4 eas hga hc
        have hcT := core hS G (.copydir a b true) (by simp)
          (by intro q hq; simp [Op.paths] at hq; rcases hq with rfl | rfl
              · exact ⟨ca, ha⟩
              · exact ⟨cb, hb⟩)
          (Or.inl rfl) (by simp [knownDeviation]) (by rw [← hRc]; exact hl)
        simp only [SimAt, mapPaths] at hcT
        rw [hRc]
        exact ⟨hcT.1, hcT.2.1, fun e he => ⟨(hcT.2.2 e he).1, adm_copydir_mono _ a b c e (hcT.2.2 e he).2⟩⟩
  cases c with
  | true =>
    refine simAt_congr ?_ (hgo (Or.inl rfl))
    simp only [Wrap.Sub.stepOpen, Wrap.stepOpen, Wrap.copydir, hda, hdb, if_true]
  | false =>
    cases hg : ((Node.dir es).get cb).isSome with
    | true =>
      refine simAt_congr ?_ (hgo (Or.inr hg))
      simp only [Wrap.Sub.stepOpen, Wrap.stepOpen, Wrap.copydir, hda, hdb, hex, hg, Bool.false_eq_true, if_false]
    | false =>
      have hgn : (Node.dir es).get cb = none := by
        cases hh : (Node.dir es).get cb with
        | none => rfl
        | some x => simp [hh] at hg
      have hW : Wrap.Sub.stepOpen (absOf sub) F s (.copydir a b false) = (s, .err .ResourceNotFound) := by
        simp only [Wrap.Sub.stepOpen, Wrap.stepOpen, Wrap.copydir, hda, hdb, hex, hg, Bool.false_eq_true, if_false]
      obtain ⟨h1, h2⟩ := g1 rfl hgn
      unfold SimAt
      rw [hW]
      refine ⟨by rw [h1]; rfl, ?_, ?_⟩
      · intro h; rw [h1] at h; cases h
      · intro e he
        simp only [Res.err.injEq] at he
        subst he
        exact ⟨rfl, h2⟩

end Ops

/-- some path argument does not validate (it climbs, or contains NUL): refused by the wrapper -/
theorem sim_sub_invalid {F : Wrap.FS State} {pth sub : List Name} {s : State} {es : Ents}
    (G : Good s (pth ++ sub) es) (op : Op) (hnn : ¬ nulRootTest op)
    (hinv : ∃ p ∈ op.paths, ∀ cs, validate p ≠ .ok cs) :
    SimAt (Wrap.Sub.stepOpen (absOf sub) F) (pth ++ sub) s es op := by
  have hsn : ∀ c ∈ sub, cleanName c = true := fun c hc => G.names c (by simp [hc])
  have hinv' : ∃ p ∈ op.paths, ∃ e, validate p = .err e := by
    obtain ⟨p, hp, hne⟩ := hinv
    cases hv : validate p with
    | ok cs => exact absurd hv (hne cs)
    | err e => exact ⟨p, hp, e, hv⟩
  obtain ⟨e, hW, hrest⟩ := stepOpen_invalid F sub (clean_of_cleanName hsn) s op hinv'
  obtain ⟨⟨p, hp, hv⟩, _⟩ := hrest hnn
  obtain ⟨e', hR⟩ := ref_step_invalid (V es) op p _ hp hv
  unfold SimAt
  rw [hW, hR]
  refine ⟨rfl, ?_, ?_⟩
  · intro h; simp [fail, Res.isOk] at h
  · intro e1 he
    simp only [Res.err.injEq] at he
    subst he
    exact ⟨rfl, adm_of_invalid (V es) op p _ rfl hp hv⟩

/-- **the functor lemma**: a `SubFS` at `sub` over a filesystem that shows a refinement of the
reference at `pth` shows a refinement of the reference at `pth ++ sub` -/
theorem sim_sub {F : Wrap.FS State} {pth sub : List Name} (hS : Sim F pth) :
    Sim (Wrap.Sub.stepOpen (absOf sub) F) (pth ++ sub) := by
  intro s es op G hop hnn hk hl
  by_cases hinv : ∃ p ∈ op.paths, ∀ cs, validate p ≠ .ok cs
  · exact sim_sub_invalid G op hnn hinv
  have hval : ∀ p ∈ op.paths, ∃ cs, validate p = .ok cs := by
    intro p hp
    cases hv : validate p with
    | ok cs => exact ⟨cs, rfl⟩
    | err e =>
      exfalso; apply hinv
      exact ⟨p, hp, fun cs h => by rw [hv] at h; cases h⟩
  have hsn : ∀ c ∈ sub, cleanName c = true := fun c hc => G.names c (by simp [hc])
  cases op with
  | close => exact absurd rfl hop
  | getinfo p =>
    obtain ⟨cs, hv⟩ := hval p (by simp [Op.paths])
    exact sim_getinfo hS G p cs hv
  | isempty p =>
    obtain ⟨cs, hv⟩ := hval p (by simp [Op.paths])
    exact sim_isempty hS G p cs hv
  | removedir p =>
    obtain ⟨cs, hv⟩ := hval p (by simp [Op.paths])
    exact sim_removedir hS G p cs hv hl
  | removetree p =>
    obtain ⟨cs, hv⟩ := hval p (by simp [Op.paths])
    exact sim_removetree hS G p cs hv hl
  | copy a b o =>
    obtain ⟨ca, ha⟩ := hval a (by simp [Op.paths])
    obtain ⟨cb, hb⟩ := hval b (by simp [Op.paths])
    exact sim_copy hS G a b o ca cb ha hb
  | copydir a b o =>
    obtain ⟨ca, ha⟩ := hval a (by simp [Op.paths])
    obtain ⟨cb, hb⟩ := hval b (by simp [Op.paths])
    exact sim_copydir hS G a b o ca cb ha hb hl
  | move a b o =>
    obtain ⟨ca, ha⟩ := hval a (by simp [Op.paths])
    obtain ⟨cb, hb⟩ := hval b (by simp [Op.paths])
    refine sim_direct hS G _ hop hval (Or.inl rfl) hk hl ?_
    simp [Wrap.Sub.stepOpen, Wrap.stepOpen, Wrap.direct2, (delegate_valid hsn ha).1, (delegate_valid hsn hb).1, mapPaths]
  | movedir a b o =>
    obtain ⟨ca, ha⟩ := hval a (by simp [Op.paths])
    obtain ⟨cb, hb⟩ := hval b (by simp [Op.paths])
    refine sim_direct hS G _ hop hval (Or.inl rfl) hk hl ?_
    simp [Wrap.Sub.stepOpen, Wrap.stepOpen, Wrap.direct2, (delegate_valid hsn ha).1, (delegate_valid hsn hb).1, mapPaths]
  | _ =>
    all_goals (
      obtain ⟨cs, hv⟩ := hval _ (List.mem_singleton_self _)
      refine sim_direct hS G _ hop hval (Or.inl rfl) hk hl ?_
      simp [Wrap.Sub.stepOpen, Wrap.stepOpen, Wrap.direct1, (delegate_valid hsn hv).1, mapPaths])

end Fs.WrapLemmas
