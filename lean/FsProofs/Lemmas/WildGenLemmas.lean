/-
  Helper lemmas for `FsProofs/WildGenEq.lean` (and `GlobGenEq.lean`): nothing here mentions the generated
  definitions.  The index-driven scanner of `wildcard._translate` is related to the structural recursion of
  the hand model: `bracketEnd`/`relEnd` (indices) vs `Wild.scanClass`; `pyWhile_scanStep` (inner loop),
  `pyWhile_wstep` (outer loop = `Wild.textGo`, fuel suffices); `anyLoop` for `any(match(p, name) for p in ...)`.
  Loop lemmas are hypothesis-style (`∀ s, f s = step s`).  Core Lean only.
-/
import FsModel.PyRe
import FsProofs.Lemmas.PathGenLemmas
import FsProofs.Lemmas.GlobLemmas

namespace Fs.WildGenLemmas
open Fs Fs.PyStr Fs.PyRe Fs.PyStrLemmas Fs.PathGenLemmas Fs.WildSpec Fs.GlobLemmas

theorem pyJoinS_nil (l : List Str) : pyJoinS [] l = l.flatten := by
  induction l with
  | nil => rfl
  | cons a r ih =>
    cases r with
    | nil => simp [pyJoinS]
    | cons b r' => simp only [pyJoinS, List.append_nil, List.flatten_cons] at ih ⊢; rw [ih]

/-! ### subscripts with a natural-number index -/

theorem pyIdx_ofNat {α} (l : List α) (j : Nat) :
    pyIdx l (Int.ofNat j) = match l[j]? with | some x => .ok x | none => .err .IndexError := by
  have h0 : ¬ (Int.ofNat j < 0) := by simp
  simp only [pyIdx, h0, if_false]
  rfl

theorem pyStrIdx_ofNat (s : Str) (j : Nat) :
    pyStrIdx s (Int.ofNat j) = match s[j]? with | some c => .ok [c] | none => .err .IndexError := by
  simp only [pyStrIdx, pyIdx_ofNat]
  cases s[j]? <;> rfl

/-! ### the bracket scan by indices (what the code does) vs. `Wild.scanClass` (what the hand model does) -/

/-- number of characters before the first `]` -/
def tw (s : Str) : Nat := (s.takeWhile (· != ']')).length

theorem tw_le (s : Str) : tw s ≤ s.length := by
  induction s with
  | nil => simp [tw]
  | cons c r ih =>
    simp only [tw, List.takeWhile_cons] at ih ⊢
    split <;> simp <;> omega

theorem findClose_eq_tw (s : Str) : findClose s = if tw s < s.length then some (tw s) else none := by
  induction s with
  | nil => rfl
  | cons c r ih =>
    by_cases hc : c = ']'
    · subst hc; simp [findClose, tw]
    · simp only [findClose, hc, if_false, ih, tw, List.takeWhile_cons, bne_iff_ne, ne_eq, not_false_eq_true,
        decide_true, if_true, List.length_cons]
      by_cases h : (List.takeWhile (fun x => x != ']') r).length < r.length
      · simp [h, tw]
      · simp [h, tw]

/-- `j` after `if j < n and pattern[j] == c: j = j + 1` -/
def bump (pat : Str) (c : Char) (j : Nat) : Nat := if pat[j]? = some c then j + 1 else j

/-- `j` after `while j < n and pattern[j] != "]": j = j + 1` -/
def scanTo (pat : Str) (j : Nat) : Nat := j + tw (pat.drop j)

/-- `j` after the whole bracket scan that starts at `i` (the position after `[`) -/
def bracketEnd (pat : Str) (i : Nat) : Nat := scanTo pat (bump pat ']' (bump pat '!' i))

/-- the same on the text after `[` -/
def relEnd (cs : Str) : Nat :=
  let k1 := if cs.head? = some '!' then 1 else 0
  let k2 := if (cs.drop k1).head? = some ']' then k1 + 1 else k1
  k2 + tw (cs.drop k2)

theorem bracketEnd_eq (pat : Str) (i : Nat) : bracketEnd pat i = i + relEnd (pat.drop i) := by
  simp only [bracketEnd, relEnd, scanTo, bump, List.head?_drop, List.drop_drop, List.getElem?_drop]
  by_cases h1 : pat[i]? = some '!'
  · simp only [h1, if_true, Nat.add_zero]
    by_cases h2 : pat[i + 1]? = some ']'
    · simp [h2, Nat.add_assoc]
    · simp [h2]; omega
  · simp only [h1, if_false, Nat.add_zero]
    by_cases h2 : pat[i]? = some ']'
    · simp [h2]; omega
    · simp [h2]

theorem scanClass_eq_relEnd (cs : Str) :
    Wild.scanClass cs =
      if relEnd cs < cs.length then some (cs.take (relEnd cs), cs.drop (relEnd cs + 1)) else none := by
  cases cs with
  | nil => rfl
  | cons c r =>
    by_cases hb : c = '!'
    · subst hb
      rw [scanClass_neg]
      cases r with
      | nil => rfl
      | cons d r' =>
        have hk : relEnd ('!' :: d :: r') = 2 + tw r' := by
          by_cases hd : d = ']'
          · subst hd; simp [relEnd]
          · simp [relEnd, hd, tw]; omega
        rw [hk]
        simp only [closeIdx, findClose_eq_tw]
        by_cases h : tw r' < r'.length
        · have h' : 2 + tw r' < ('!' :: d :: r').length := by simp; omega
          simp only [h, h', if_true, Option.map_some]
          have e1 : 2 + tw r' = (tw r' + 1) + 1 := by omega
          simp [e1]
        · have h' : ¬ 2 + tw r' < ('!' :: d :: r').length := by simp; omega
          simp [h, h']; omega
    · rw [scanClass_pos _ (by simpa using hb)]
      have hk : relEnd (c :: r) = 1 + tw r := by
        by_cases hd : c = ']'
        · subst hd; simp [relEnd]
        · simp [relEnd, hb, hd, tw]; omega
      rw [hk]
      simp only [closeIdx, findClose_eq_tw]
      by_cases h : tw r < r.length
      · have h' : 1 + tw r < (c :: r).length := by simp; omega
        simp only [h, h', if_true, Option.map_some]
        have e1 : 1 + tw r = tw r + 1 := by omega
        simp [e1]
      · have h' : ¬ 1 + tw r < (c :: r).length := by simp; omega
        simp [h, h']; omega

theorem relEnd_pos (cs : Str) (h : relEnd cs < cs.length) : 0 < relEnd cs := by
  cases cs with
  | nil => simp at h
  | cons c r =>
    by_cases hb : c = '!'
    · subst hb; simp only [relEnd, List.head?_cons, if_true]; split <;> omega
    · by_cases hd : c = ']'
      · subst hd; simp [relEnd]; omega
      · simp [relEnd, hb, hd, tw]


/-- `if j < n and pattern[j] == c: j = j + 1` as the translator renders it (a joined `if` with an effectful test) -/
theorem bumpR_eq (pat : Str) (c : Char) (j : Nat) :
    (if decide (j < pat.length) = true then
        (match pyStrIdx pat (Int.ofNat j) with
         | .err e' => Res.err e'
         | .ok t => if (t == [c]) = true then Res.ok (j + 1) else Res.ok j)
      else Res.ok j) = Res.ok (bump pat c j) := by
  rw [pyStrIdx_ofNat]
  by_cases hj : j < pat.length
  · simp only [hj, decide_true, if_true, List.getElem?_eq_getElem hj, bump]
    by_cases hc : pat[j] = c
    · simp [hc]
    · simp [hc]
  · have : pat[j]? = none := List.getElem?_eq_none (by omega)
    simp [hj, bump, this]

theorem getElem?_of_lt (pat : Str) (i : Nat) (h : i < pat.length) : ∃ c, pat[i]? = some c :=
  ⟨pat[i], List.getElem?_eq_getElem h⟩

/-! ### the inner `while j < n and pattern[j] != "]": j = j + 1` -/

def scanStep (pat : Str) (j : Nat) : Flow Nat Empty :=
  match pat[j]? with
  | none => .brk j
  | some c => if c = ']' then .brk j else .next (j + 1)

theorem drop_eq_cons_of_getElem? {α} (l : List α) (j : Nat) (c : α) (h : l[j]? = some c) :
    l.drop j = c :: l.drop (j + 1) := by
  have hj : j < l.length := by
    rcases Nat.lt_or_ge j l.length with h' | h'
    · exact h'
    · rw [List.getElem?_eq_none h'] at h; cases h
  rw [List.drop_eq_getElem_cons hj]
  rw [List.getElem?_eq_getElem hj] at h
  cases h; rfl

theorem pyWhile_scanStep (pat : Str) (g : Nat → Flow Nat Empty) (hg : ∀ j, g j = scanStep pat j)
    (fuel j : Nat) (h : pat.length - j < fuel) :
    pyWhile fuel j g = .done (scanTo pat j) := by
  induction fuel generalizing j with
  | zero => omega
  | succ n ih =>
    rw [pyWhile, hg, scanStep]
    cases hc : pat[j]? with
    | none =>
      have : pat.length ≤ j := by
        rcases Nat.lt_or_ge j pat.length with h' | h'
        · rw [List.getElem?_eq_getElem h'] at hc; cases hc
        · exact h'
      simp [scanTo, tw, List.drop_eq_nil_of_le this]
    | some c =>
      have hd := drop_eq_cons_of_getElem? pat j c hc
      have hj : j < pat.length := by
        rcases Nat.lt_or_ge j pat.length with h' | h'
        · exact h'
        · rw [List.getElem?_eq_none h'] at hc; cases hc
      by_cases hcc : c = ']'
      · subst hcc; simp [scanTo, tw, hd]
      · simp only [hcc, if_false]
        rw [ih (j + 1) (by omega)]
        simp [scanTo, tw, hd, hcc]; omega

/-! ### the outer loop of `wildcard._translate` -/

theorem textGo_skip (s : Str) (k : Nat) : Wild.textGo s k = Wild.textGo (s.drop k) 0 := by
  induction s generalizing k with
  | nil => simp [Wild.textGo]
  | cons c r ih =>
    cases k with
    | zero => rfl
    | succ k => simp only [Wild.textGo, List.drop_succ_cons]; exact ih k

def wstep (pat : Str) (s : Nat × List Str) : Flow (Nat × List Str) Empty :=
  match pat[s.1]? with
  | none => .brk s
  | some c =>
    if c = '*' then .next (s.1 + 1, s.2 ++ [['[', '^', '/', ']', '*']])
    else if c = '?' then .next (s.1 + 1, s.2 ++ [['.']])
    else if c = '[' then
      (if bracketEnd pat (s.1 + 1) < pat.length then
        .next (bracketEnd pat (s.1 + 1) + 1,
          s.2 ++ [Wild.classText ['^'] ((pat.take (bracketEnd pat (s.1 + 1))).drop (s.1 + 1))])
       else .next (s.1 + 1, s.2 ++ [['\\', '[']]))
    else .next (s.1 + 1, s.2 ++ [Wild.reEscape c])

theorem pyWhile_wstep (pat : Str) (f : Nat × List Str → Flow (Nat × List Str) Empty)
    (hf : ∀ s, f s = wstep pat s) (fuel i : Nat) (res : List Str) (h : pat.length - i < fuel) :
    ∃ i' res', pyWhile fuel (i, res) f = .done (i', res') ∧
      res'.flatten = res.flatten ++ Wild.textGo (pat.drop i) 0 := by
  induction fuel generalizing i res with
  | zero => omega
  | succ n ih =>
    rw [pyWhile, hf, wstep]
    cases hc : pat[i]? with
    | none =>
      have : pat.length ≤ i := by
        rcases Nat.lt_or_ge i pat.length with h' | h'
        · rw [List.getElem?_eq_getElem h'] at hc; cases hc
        · exact h'
      exact ⟨i, res, by simp, by simp [List.drop_eq_nil_of_le this, Wild.textGo]⟩
    | some c =>
      have hd := drop_eq_cons_of_getElem? pat i c hc
      have hi : i < pat.length := by
        rcases Nat.lt_or_ge i pat.length with h' | h'
        · exact h'
        · rw [List.getElem?_eq_none h'] at hc; cases hc
      simp only [hd, Wild.textGo]
      by_cases h1 : c = '*'
      · simp only [h1, if_true]
        obtain ⟨i', res', e1, e2⟩ := ih (i + 1) (res ++ [['[', '^', '/', ']', '*']]) (by omega)
        exact ⟨i', res', e1, by rw [e2]; simp⟩
      · by_cases h2 : c = '?'
        · simp only [h1, h2, if_true, if_false]
          obtain ⟨i', res', e1, e2⟩ := ih (i + 1) (res ++ [['.']]) (by omega)
          exact ⟨i', res', e1, by rw [e2]; simp⟩
        · by_cases h3 : c = '['
          · simp only [h1, h2, h3, if_true, if_false]
            rw [scanClass_eq_relEnd, bracketEnd_eq]
            have hl : (pat.drop (i + 1)).length = pat.length - (i + 1) := by simp
            by_cases hk : relEnd (pat.drop (i + 1)) < (pat.drop (i + 1)).length
            · have hk' : i + 1 + relEnd (pat.drop (i + 1)) < pat.length := by omega
              simp only [hk, hk', if_true]
              obtain ⟨i', res', e1, e2⟩ := ih (i + 1 + relEnd (pat.drop (i + 1)) + 1)
                (res ++ [Wild.classText ['^'] ((pat.take (i + 1 + relEnd (pat.drop (i + 1)))).drop (i + 1))])
                (by omega)
              refine ⟨i', res', e1, ?_⟩
              have e3 : List.drop (i + 1) (List.take (i + 1 + relEnd (pat.drop (i + 1))) pat) =
                  List.take (relEnd (pat.drop (i + 1))) (pat.drop (i + 1)) := by
                rw [List.drop_take]; congr 1; omega
              have e4 : (List.take (relEnd (pat.drop (i + 1))) (pat.drop (i + 1))).length =
                  relEnd (pat.drop (i + 1)) := by
                rw [List.length_take]; omega
              have e5 : Wild.textGo (pat.drop (i + 1))
                  ((List.take (relEnd (pat.drop (i + 1))) (pat.drop (i + 1))).length + 1) =
                  Wild.textGo (pat.drop (i + 1 + relEnd (pat.drop (i + 1)) + 1)) 0 := by
                rw [textGo_skip, e4, List.drop_drop]; congr 2
              rw [e2, e3, e5]
              simp [List.flatten_append]
            · have hk' : ¬ i + 1 + relEnd (pat.drop (i + 1)) < pat.length := by omega
              simp only [hk, hk', if_false]
              obtain ⟨i', res', e1, e2⟩ := ih (i + 1) (res ++ [['\\', '[']]) (by omega)
              exact ⟨i', res', e1, by rw [e2]; simp⟩
          · simp only [h1, h2, h3, if_false]
            obtain ⟨i', res', e1, e2⟩ := ih (i + 1) (res ++ [Wild.reEscape c]) (by omega)
            exact ⟨i', res', e1, by rw [e2]; simp⟩

theorem escBackslash_eq (s : Str) : Wild.escBackslash s = pyReplace s '\\' ['\\', '\\'] := rfl

theorem pyReplace_ne_nil (s : Str) (h : s ≠ []) : ∃ c r, pyReplace s '\\' ['\\', '\\'] = c :: r := by
  cases s with
  | nil => contradiction
  | cons x xs =>
    by_cases hx : x = '\\'
    · exact ⟨'\\', _, by simp [pyReplace, hx]; rfl⟩
    · exact ⟨x, _, by simp [pyReplace, hx]; rfl⟩

/-- the raw text of a bracket expression that was found is not empty -/
theorem stuff_ne_nil (pat : Str) (i : Nat) (h : bracketEnd pat i < pat.length) :
    List.drop i (List.take (bracketEnd pat i) pat) ≠ [] := by
  have hle : i ≤ pat.length := by rw [bracketEnd_eq] at h; omega
  have hl : (pat.drop i).length = pat.length - i := by simp
  have hpos := relEnd_pos (pat.drop i) (by rw [bracketEnd_eq] at h; omega)
  intro e
  have := congrArg List.length e
  rw [bracketEnd_eq] at this h
  simp [List.length_drop, List.length_take] at this
  omega

/-- the same, phrased for `generalize hW : pyWhile _ _ _ = w` -/
theorem pyWhile_wstep' (pat : Str) (f : Nat × List Str → Flow (Nat × List Str) Empty)
    (hf : ∀ s, f s = wstep pat s) (fuel i : Nat) (res : List Str) (h : pat.length - i < fuel)
    (w : LoopOut (Nat × List Str) Empty) (hW : pyWhile fuel (i, res) f = w) :
    ∃ i' res', w = .done (i', res') ∧ res'.flatten = res.flatten ++ Wild.textGo (pat.drop i) 0 := by
  obtain ⟨i', res', e1, e2⟩ := pyWhile_wstep pat f hf fuel i res h
  exact ⟨i', res', by rw [← hW, e1], e2⟩

/-! ### `match` / `imatch` / `match_any` through the regex *text*

The generated `match` hands the text `"(?ms)" + _translate(pattern) + "\\Z"` to `re.compile`, whose model is
`Regex.parse`.  The hand model `Wild.compile` builds the AST directly; that `parse` of the text is that AST
is the `<parse-eq>` column of the C14 correspondence (validated on every run, not proved), so the
equalities are stated against the text route and, under that hypothesis, against `Wild.wmatch`. -/

open Fs.Regex in
/-- `match` / `imatch` of the hand model, through the text and the model of Python's parser -/
def wmatchViaText (pat name : Str) (cs : Bool) : TR Bool :=
  (Regex.parse (Wild.regexText pat cs) (!cs)).map (·.matches name)

def matchAnyViaText (pats : List Str) (name : Str) (cs : Bool) : Regex.TR Bool :=
  if pats.isEmpty then .ok true else Wild.anyMatch (fun p => wmatchViaText p name cs) pats

theorem toTR_pyReCompile (t : Str) (ic : Bool) : toTR (pyReCompile t ic) = Regex.parse t ic := by
  simp only [pyReCompile]
  cases Regex.parse t ic with
  | ok r => rfl
  | err e => cases e <;> rfl

/-- `any(g(p) for p in ps)` as the translator renders it -/
def anyStep (g : Str → Res Bool) (p : Str) (_s : Unit) : Flow Unit Bool :=
  match g p with
  | .err e => .exc e
  | .ok b => if b then .ret true else .next ()

def anyRes (g : Str → Res Bool) : List Str → Res Bool
  | [] => .ok false
  | p :: ps =>
    match g p with
    | .err e => .err e
    | .ok true => .ok true
    | .ok false => anyRes g ps

/-- the outcome of that loop -/
def anyLoop (g : Str → Res Bool) : List Str → LoopOut Unit Bool
  | [] => .done ()
  | p :: ps =>
    match g p with
    | .err e => .exc e
    | .ok true => .ret true
    | .ok false => anyLoop g ps

theorem pyFor_anyStep (g : Str → Res Bool) (f : Str → Unit → Flow Unit Bool)
    (hf : ∀ p s, f p s = anyStep g p s) (ps : List Str) :
    pyFor ps () f = anyLoop g ps := by
  induction ps with
  | nil => rfl
  | cons p ps ih =>
    rw [pyFor, hf, anyStep, anyLoop]
    cases g p with
    | err e => rfl
    | ok b => cases b <;> simp [ih]

/-- what the translator wraps around the loop of `any(...)` (stated with `exact`/`trans` in mind: the
`match`es here are definitionally those of the generated code) -/
theorem any_final (g : Str → Res Bool) (ps : List Str) :
    (match (match anyLoop g ps with
            | .done _ => Res.ok false
            | .ret r => .ok r
            | .exc e => .err e) with
     | .err e => Res.err e
     | .ok r => Res.ok r) = anyRes g ps := by
  induction ps with
  | nil => rfl
  | cons p ps ih =>
    simp only [anyLoop, anyRes]
    cases g p with
    | err e => rfl
    | ok b =>
      cases b with
      | true => rfl
      | false => exact ih

theorem toTR_anyRes (g : Str → Res Bool) (ps : List Str) :
    toTR (anyRes g ps) = Wild.anyMatch (fun p => toTR (g p)) ps := by
  induction ps with
  | nil => rfl
  | cons p ps ih =>
    simp only [anyRes, Wild.anyMatch]
    cases g p with
    | err e => rfl
    | ok b =>
      cases b with
      | true => rfl
      | false => exact ih

end Fs.WildGenLemmas
