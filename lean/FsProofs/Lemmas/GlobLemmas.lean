/-
  Helper lemmas for FsProofs/C14.lean: the flat regex matcher as "∃ split" statements, the
  token view of `wildcard._translate` / `glob._translate`, and the component-wise reading of a
  rendered path.
-/
import FsModel.Glob
import FsProofs.Lemmas.PathLemmas

namespace Fs.GlobLemmas
open Fs Fs.Regex Fs.Path Fs.WildSpec Fs.GlobSpec Fs.PathLemmas Fs.PathSpec

/-! ### the matcher -/

theorem starLoop_congr (ok : Char → Bool) (k k' : Option Char → Str → Bool)
    (h : ∀ p q s, k p s = k' q s) : ∀ p q s, starLoop ok k p s = starLoop ok k' q s := by
  intro p q s
  induction s generalizing p q with
  | nil => simp [starLoop, h p q]
  | cons c cs ih => simp [starLoop, h p q, ih (some c) (some c)]

theorem matchG_congr (ok : Atom → Char → Bool) (body : List GItem) (k k' : Option Char → Str → Bool)
    (h : ∀ p q s, k p s = k' q s) : ∀ p q s, matchG ok body k p s = matchG ok body k' q s := by
  induction body with
  | nil => intro p q s; simp [matchG, h p q]
  | cons g r ih =>
    intro p q s
    cases g with
    | one a =>
      cases s with
      | nil => simp [matchG]
      | cons c cs => simp only [matchG]; rw [ih (some c) (some c) cs]
    | plus a =>
      cases s with
      | nil => simp [matchG]
      | cons c cs => simp only [matchG]; rw [starLoop_congr _ _ _ ih (some c) (some c) cs]

theorem groupLoop_congr (ok : Atom → Char → Bool) (body : List GItem) (k k' : Option Char → Str → Bool)
    (h : ∀ p q s, k p s = k' q s) : ∀ fuel p q s, groupLoop ok body k fuel p s = groupLoop ok body k' fuel q s := by
  intro fuel
  induction fuel with
  | zero => intro p q s; simp [groupLoop, h p q]
  | succ n ih =>
    intro p q s
    simp only [groupLoop]
    rw [h p q s]
    congr 1
    apply matchG_congr
    intro p' q' s'
    rw [ih p' q' s']

/-- items other than `^` never look at the previous character -/
theorem matchItems_prev (f : Flags) (items : List Item) (h : Item.bol ∉ items) :
    ∀ p q s, matchItems f items p s = matchItems f items q s := by
  induction items with
  | nil => intro p q s; simp [matchItems]
  | cons it r ih =>
    have hr : Item.bol ∉ r := fun hm => h (List.mem_cons_of_mem _ hm)
    have ih' := ih hr
    intro p q s
    cases it with
    | one a => cases s <;> simp [matchItems]
    | star a l => simp only [matchItems]; exact starLoop_congr _ _ _ ih' p q s
    | plus a l => cases s <;> simp [matchItems]
    | opt a l => cases s <;> simp [matchItems, ih' p q]
    | bol => exact absurd (List.mem_cons_self) h
    | eol => simp [matchItems, ih' p q]
    | endZ => simp [matchItems, ih' p q]
    | notAhead a => cases s <;> simp [matchItems, ih' p q]
    | starGroup body => simp only [matchItems]; exact groupLoop_congr _ _ _ _ ih' _ p q s

theorem starLoop_iff (ok : Char → Bool) (k : Option Char → Str → Bool)
    (hk : ∀ p q s, k p s = k q s) (prev : Option Char) (s : Str) :
    starLoop ok k prev s = true ↔
      ∃ u t, s = u ++ t ∧ (∀ c ∈ u, ok c = true) ∧ k none t = true := by
  induction s generalizing prev with
  | nil =>
    simp only [starLoop]
    constructor
    · intro h; exact ⟨[], [], rfl, by simp, by rw [hk none prev]; exact h⟩
    · rintro ⟨u, t, hs, _, hkt⟩
      have : u = [] ∧ t = [] := by simpa using hs.symm
      rw [this.2] at hkt; rw [hk prev none]; exact hkt
  | cons c cs ih =>
    simp only [starLoop, Bool.or_eq_true, Bool.and_eq_true]
    constructor
    · rintro (h | ⟨hc, h⟩)
      · exact ⟨[], c :: cs, rfl, by simp, by rw [hk none prev]; exact h⟩
      · obtain ⟨u, t, hs, hu, hkt⟩ := (ih (some c)).1 h
        refine ⟨c :: u, t, by rw [hs]; rfl, ?_, hkt⟩
        intro x hx
        rcases List.mem_cons.1 hx with rfl | hx
        · exact hc
        · exact hu x hx
    · rintro ⟨u, t, hs, hu, hkt⟩
      cases u with
      | nil =>
        left; simp only [List.nil_append] at hs; rw [hs, hk prev none]; exact hkt
      | cons x u =>
        simp only [List.cons_append, List.cons.injEq] at hs
        obtain ⟨rfl, rfl⟩ := hs
        right
        exact ⟨hu _ List.mem_cons_self,
          (ih (some c)).2 ⟨u, t, rfl, fun y hy => hu y (List.mem_cons_of_mem _ hy), hkt⟩⟩

theorem starRun_iff (k : Str → Bool) (s : Str) :
    starRun k s = true ↔ ∃ u t, s = u ++ t ∧ k t = true := by
  induction s with
  | nil =>
    simp only [starRun]
    constructor
    · intro h; exact ⟨[], [], rfl, h⟩
    · rintro ⟨u, t, hs, hkt⟩
      have : u = [] ∧ t = [] := by simpa using hs.symm
      rw [this.2] at hkt; exact hkt
  | cons c cs ih =>
    simp only [starRun, Bool.or_eq_true]
    constructor
    · rintro (h | h)
      · exact ⟨[], c :: cs, rfl, h⟩
      · obtain ⟨u, t, hs, hkt⟩ := ih.1 h
        exact ⟨c :: u, t, by rw [hs]; rfl, hkt⟩
    · rintro ⟨u, t, hs, hkt⟩
      cases u with
      | nil => left; simp only [List.nil_append] at hs; rw [hs]; exact hkt
      | cons x u =>
        simp only [List.cons_append, List.cons.injEq] at hs
        right; exact ih.2 ⟨u, t, hs.2, hkt⟩

theorem ssRun_iff (k : List Str → Bool) (ns : List Str) :
    GlobSpec.ssRun k ns = true ↔ ∃ u t, ns = u ++ t ∧ k t = true := by
  induction ns with
  | nil =>
    simp only [GlobSpec.ssRun]
    constructor
    · intro h; exact ⟨[], [], rfl, h⟩
    · rintro ⟨u, t, hs, hkt⟩
      have : u = [] ∧ t = [] := by simpa using hs.symm
      rw [this.2] at hkt; exact hkt
  | cons c cs ih =>
    simp only [GlobSpec.ssRun, Bool.or_eq_true]
    constructor
    · rintro (h | h)
      · exact ⟨[], c :: cs, rfl, h⟩
      · obtain ⟨u, t, hs, hkt⟩ := ih.1 h
        exact ⟨c :: u, t, by rw [hs]; rfl, hkt⟩
    · rintro ⟨u, t, hs, hkt⟩
      cases u with
      | nil => left; simp only [List.nil_append] at hs; rw [hs]; exact hkt
      | cons x u =>
        simp only [List.cons_append, List.cons.injEq] at hs
        right; exact ih.2 ⟨u, t, hs.2, hkt⟩

/-! ### characters -/

theorem lower_aux : ∀ n, n < 91 → 65 ≤ n → Char.ofNat (n + 32) ≠ '/' := by decide
theorem upper_aux : ∀ n, n < 123 → 97 ≤ n → Char.ofNat (n - 32) ≠ '/' := by decide

theorem lower_eq_slash (c : Char) : lower c = '/' ↔ c = '/' := by
  unfold lower
  split
  · rename_i h
    have h1 : 65 ≤ c.toNat := h.1
    have h2 : c.toNat ≤ 90 := h.2
    constructor
    · intro e; exact absurd e (lower_aux c.toNat (by omega) h1)
    · intro e; subst e; exact absurd h1 (by decide)
  · rfl

theorem upper_eq_slash (c : Char) : upper c = '/' ↔ c = '/' := by
  unfold upper
  split
  · rename_i h
    have h1 : 97 ≤ c.toNat := h.1
    have h2 : c.toNat ≤ 122 := h.2
    constructor
    · intro e; exact absurd e (upper_aux c.toNat (by omega) h1)
    · intro e; subst e; exact absurd h1 (by decide)
  · rfl

/-- the flags of every regex the two modules compile: `(?ms)` plus IGNORECASE on request -/
def flagsOf (cs : Bool) : Flags := { dotall := true, multiline := true, ic := !cs }

theorem flags_ms (cs : Bool) (items : List Item) :
    ({ inline := ['m', 's'], ic := !cs, items := items } : Regex).flags = flagsOf cs := by
  cases cs <;> rfl

theorem setHas_nil (c : Char) : setHas [] c = false := rfl
theorem setHas_cons (x : SetItem) (l : List SetItem) (c : Char) :
    setHas (x :: l) c = (x.has c || setHas l c) := by simp [setHas]

theorem notSlash_ok (cs : Bool) (c : Char) : Wild.notSlash.ok (flagsOf cs) c = (c != '/') := by
  have hl := lower_eq_slash c
  have hu := upper_eq_slash c
  by_cases hc : c = '/'
  · subst hc; cases cs <;> decide
  · have h1 : lower c ≠ '/' := fun e => hc (hl.1 e)
    have h2 : upper c ≠ '/' := fun e => hc (hu.1 e)
    have e1 : ('/' == lower c) = false := beq_eq_false_iff_ne.2 (Ne.symm h1)
    have e2 : ('/' == upper c) = false := beq_eq_false_iff_ne.2 (Ne.symm h2)
    have e3 : ('/' == c) = false := beq_eq_false_iff_ne.2 (Ne.symm hc)
    have e4 : (c != '/') = true := by simp [hc]
    cases cs <;>
      simp [Wild.notSlash, Atom.ok, flagsOf, setHas_cons, setHas_nil, SetItem.has, e1, e2, e3, e4]

/-! ### bracket expressions -/

theorem rawItems_has (body : Str) (first : Bool) :
    ∀ l, Wild.rawItems body first = .ok l → ∀ c, setHas l c = inBody body c := by
  fun_induction Wild.rawItems body first with
  | case1 first => intro l h c; cases h; simp [setHas, inBody]
  | case2 a b rest first hlt => intro l h; cases h
  | case3 a b rest first hlt l' hl ih =>
    intro l h c
    cases h
    rw [setHas_cons, ih l' hl c]
    simp only [inBody, SetItem.has, Wild.rawChar]
    rfl
  | case4 a b rest first hlt e he ih => intro l h; cases h
  | case5 a rest first hne l' hl ih =>
    intro l h c
    cases h
    rw [setHas_cons, ih l' hl c]
    rw [inBody]
    · simp [SetItem.has, Wild.rawChar]
    · exact hne
  | case6 a rest first hne e he ih => intro l h; cases h

theorem findClose_lt (r : Str) (j : Nat) (h : findClose r = some j) : j < r.length := by
  induction r generalizing j with
  | nil => simp [findClose] at h
  | cons c r ih =>
    simp only [findClose] at h
    split at h
    · cases h; simp
    · cases hf : findClose r with
      | none => simp [hf] at h
      | some j' =>
        simp [hf] at h; subst h
        have := ih j' hf
        simp; omega

theorem closeIdx_lt (r : Str) (k : Nat) (h : closeIdx r = some k) : k < r.length := by
  cases r with
  | nil => simp [closeIdx] at h
  | cons c r =>
    simp only [closeIdx] at h
    cases hf : findClose r with
    | none => simp [hf] at h
    | some j =>
      simp [hf] at h; subst h
      have := findClose_lt r j hf
      simp; omega

theorem untilClose_eq (r : Str) :
    Wild.untilClose r = (findClose r).map fun j => (r.take j, r.drop (j + 1)) := by
  induction r with
  | nil => rfl
  | cons c r ih =>
    simp only [Wild.untilClose, findClose]
    split
    · simp
    · rw [ih]; cases findClose r <;> simp

/-- the bracket scan of the code finds what the documented syntax describes:
`[!body]` / `[body]`, where the first character of the body never closes the bracket -/
theorem scanClass_neg (r : Str) :
    Wild.scanClass ('!' :: r) = (closeIdx r).map fun k => ('!' :: r.take k, r.drop (k + 1)) := by
  cases r with
  | nil => rfl
  | cons c r =>
    by_cases hc : c = ']'
    · subst hc
      simp only [Wild.scanClass, closeIdx, untilClose_eq]
      cases findClose r <;> simp
    · have : Wild.scanClass ('!' :: c :: r) =
          match Wild.untilClose (c :: r) with
          | none => none
          | some (a, b) => some ('!' :: a, b) := by
        simp only [Wild.scanClass]
        split <;> simp_all
      rw [this, untilClose_eq]
      simp only [findClose, closeIdx, hc, if_false]
      cases findClose r <;> simp

theorem scanClass_pos (r : Str) (h : r.head? ≠ some '!') :
    Wild.scanClass r = (closeIdx r).map fun k => (r.take k, r.drop (k + 1)) := by
  cases r with
  | nil => rfl
  | cons c r =>
    have hb : c ≠ '!' := by simpa using h
    by_cases hc : c = ']'
    · subst hc
      simp only [Wild.scanClass, closeIdx, untilClose_eq]
      cases hf : findClose r <;> simp [hf]
    · have : Wild.scanClass (c :: r) =
          match Wild.untilClose (c :: r) with
          | none => none
          | some (a, b) => some (a, b) := by
        simp only [Wild.scanClass]
        split <;> simp_all
      rw [this, untilClose_eq]
      simp only [findClose, closeIdx, hc, if_false]
      cases findClose r <;> simp

/-! ### the token view of `wildcard._translate` -/

/-- the regex item `wildcard._translate` emits for one token of the pattern -/
def wildItem : Tok → TR Item
  | .star => .ok (.star Wild.notSlash false)
  | .any => .ok (.one .any)
  | .lit c => .ok (.one (.chr (LChar.lit c)))
  | .cls neg body => (Wild.rawItems body (!neg)).map fun l => .one (.set neg l)

theorem mapM'_cons {α β} (f : α → TR β) (a : α) (as : List α) :
    Glob.mapM' f (a :: as) = (match f a with | .err e => .err e | .ok b => (Glob.mapM' f as).map (b :: ·)) := rfl

theorem take_length_of_lt (r : Str) (k : Nat) (h : k < r.length) : (r.take k).length = k := by
  simp [List.length_take]; omega

theorem wild_go_eq (cs : Str) : ∀ n, Wild.go cs n = Glob.mapM' wildItem (tokenize cs n) := by
  induction cs with
  | nil => intro n; simp [Wild.go, tokenize, Glob.mapM']
  | cons c cs ih =>
    intro n
    cases n with
    | succ n => simp only [Wild.go, tokenize]; exact ih n
    | zero =>
      simp only [Wild.go, tokenize]
      split
      · simp only [mapM'_cons, wildItem, Wild.cons, ih]
      · split
        · simp only [mapM'_cons, wildItem, Wild.cons, ih]
        · split
          · -- bracket
            cases cs with
            | nil => simp [Wild.scanClass, Wild.untilClose, closeIdx, mapM'_cons, wildItem, Wild.cons, Wild.go, tokenize, Glob.mapM', LChar.lit, isSpecial]
            | cons d r =>
              by_cases hd : d = '!'
              · subst hd
                rw [scanClass_neg]
                simp only [List.head?_cons, beq_self_eq_true, if_true, List.tail_cons]
                cases hk : closeIdx r with
                | none => simp [mapM'_cons, wildItem, Wild.cons, ih, LChar.lit, isSpecial]
                | some k =>
                  have hlen := take_length_of_lt r k (closeIdx_lt r k hk)
                  simp only [Option.map_some, Wild.classAtom, List.length_cons, hlen, mapM'_cons, wildItem, Bool.not_true]
                  cases Wild.rawItems (List.take k r) false with
                  | err e => rfl
                  | ok l => simp only [TR.map, Wild.cons, ih]
              · have hh : (d :: r).head? ≠ some '!' := by simpa using hd
                rw [scanClass_pos _ hh]
                have hn : ((d :: r).head? == some '!') = false := by simp [hd]
                simp only [hn, Bool.false_eq_true, if_false]
                cases hk : closeIdx (d :: r) with
                | none => simp [mapM'_cons, wildItem, Wild.cons, ih, LChar.lit, isSpecial]
                | some k =>
                  have hlen := take_length_of_lt (d :: r) k (closeIdx_lt _ k hk)
                  have hk1 : ∃ k', k = k' + 1 := by
                    simp only [closeIdx] at hk
                    cases hf : findClose r with
                    | none => simp [hf] at hk
                    | some j => simp [hf] at hk; exact ⟨j, hk.symm⟩
                  obtain ⟨k', rfl⟩ := hk1
                  have hne : ∀ t, List.take (k' + 1) (d :: r) ≠ '!' :: t := by
                    intro t; simp [hd]
                  simp only [Option.map_some, hlen, mapM'_cons, wildItem, Bool.not_false]
                  have hca : Wild.classAtom (List.take (k' + 1) (d :: r)) =
                      (Wild.rawItems (List.take (k' + 1) (d :: r)) true).map (Atom.set false) := by
                    simp only [List.take_succ_cons, Wild.classAtom]
                    split
                    · rename_i heq; simp at heq; exact absurd heq.1 hd
                    · rfl
                  rw [hca]
                  cases Wild.rawItems (List.take (k' + 1) (d :: r)) true with
                  | err e => rfl
                  | ok l => simp only [TR.map, Wild.cons, ih]
          · simp only [mapM'_cons, wildItem, Wild.cons, ih]

theorem wildItem_ok (cs : Bool) (t : Tok) (ht : t ≠ .star) (it : Item) (h : wildItem t = .ok it) :
    ∃ a, it = .one a ∧ ∀ c, a.ok (flagsOf cs) c = tokOk cs t c := by
  cases t with
  | star => exact absurd rfl ht
  | any => cases h; exact ⟨_, rfl, fun c => by simp [Atom.ok, flagsOf, tokOk]⟩
  | lit x =>
    cases h
    refine ⟨_, rfl, fun c => ?_⟩
    cases cs <;> simp [Atom.ok, flagsOf, tokOk, fold, LChar.lit]
  | cls neg body =>
    simp only [wildItem] at h
    cases hr : Wild.rawItems body (!neg) with
    | err e => rw [hr] at h; cases h
    | ok l =>
      rw [hr] at h; cases h
      refine ⟨_, rfl, fun c => ?_⟩
      have hh := rawItems_has body (!neg) l hr
      cases cs <;> simp [Atom.ok, flagsOf, tokOk, inBodyCI, hh]

theorem rawItems_err (body : Str) (first : Bool) :
    ∀ e, Wild.rawItems body first = .err e → e = .reError := by
  fun_induction Wild.rawItems body first with
  | case1 first => intro e h; cases h
  | case2 a b rest first hlt => intro e h; cases h; rfl
  | case3 a b rest first hlt l' hl ih => intro e h; cases h
  | case4 a b rest first hlt e' he ih => intro e h; cases h; exact ih e' he
  | case5 a rest first hne l' hl ih => intro e h; cases h
  | case6 a rest first hne e' he ih => intro e h; cases h; exact ih e' he

/-- the only way `wildcard._translate`'s output fails to compile is a reversed range -/
theorem mapM_wildItem_err (toks : List Tok) :
    ∀ e, Glob.mapM' wildItem toks = .err e → e = .reError := by
  induction toks with
  | nil => intro e h; cases h
  | cons t toks ih =>
    intro e h
    rw [mapM'_cons] at h
    cases hit : wildItem t with
    | err e' =>
      rw [hit] at h; cases h
      cases t with
      | star => cases hit
      | any => cases hit
      | lit x => cases hit
      | cls neg body =>
        simp only [wildItem] at hit
        cases hr : Wild.rawItems body (!neg) with
        | ok l => rw [hr] at hit; cases hit
        | err e'' => rw [hr] at hit; cases hit; exact rawItems_err _ _ _ hr
    | ok it =>
      rw [hit] at h
      cases hr : Glob.mapM' wildItem toks with
      | err e' => rw [hr] at h; cases h; exact ih _ hr
      | ok items => rw [hr] at h; cases h

theorem starLoop_eq_starRun (ok : Char → Bool) (k : Option Char → Str → Bool) (k' : Str → Bool)
    (s : Str) (hok : ∀ c ∈ s, ok c = true)
    (hk : ∀ p t, (∀ c ∈ t, c ∈ s) → k p t = k' t) :
    ∀ prev, starLoop ok k prev s = starRun k' s := by
  induction s with
  | nil => intro prev; simp [starLoop, starRun, hk]
  | cons c cs ih =>
    intro prev
    simp only [starLoop, starRun]
    rw [hk prev (c :: cs) (fun _ h => h), hok c List.mem_cons_self, Bool.true_and]
    rw [ih (fun x hx => hok x (List.mem_cons_of_mem _ hx))
      (fun p t ht => hk p t (fun x hx => List.mem_cons_of_mem _ (ht x hx)))]

theorem wild_tokens_match (cs : Bool) (toks : List Tok) :
    ∀ items, Glob.mapM' wildItem toks = .ok items → ∀ prev s, '/' ∉ s →
      matchItems (flagsOf cs) (items ++ [.endZ]) prev s = tokMatch cs toks s := by
  induction toks with
  | nil =>
    intro items h prev s _
    cases h
    simp [matchItems, tokMatch]
  | cons t toks ih =>
    intro items h prev s hs
    rw [mapM'_cons] at h
    cases hit : wildItem t with
    | err e => rw [hit] at h; cases h
    | ok it =>
      rw [hit] at h
      cases hr : Glob.mapM' wildItem toks with
      | err e => rw [hr] at h; cases h
      | ok items' =>
        rw [hr] at h; cases h
        by_cases ht : t = .star
        · subst ht
          cases hit
          simp only [List.cons_append, matchItems, tokMatch]
          apply starLoop_eq_starRun
          · intro c hc
            rw [notSlash_ok]
            have : c ≠ '/' := fun e => hs (e ▸ hc)
            simp [this]
          · intro p t ht
            exact ih items' hr p t (fun hm => hs (ht _ hm))
        · obtain ⟨a, rfl, hok⟩ := wildItem_ok cs t ht it hit
          cases s with
          | nil => cases t <;> simp_all [matchItems, tokMatch]
          | cons c s' =>
            have hs' : '/' ∉ s' := fun hm => hs (List.mem_cons_of_mem _ hm)
            have := ih items' hr (some c) s' hs'
            cases t <;> simp_all [matchItems, tokMatch]


/-! ### the token view of `glob._translate` -/

/-- the flags of the regex `_translate_glob` builds: `(?s)` plus IGNORECASE on request -/
def flagsG (cs : Bool) : Flags := { dotall := true, multiline := false, ic := !cs }

theorem flags_s (cs : Bool) (items : List Item) :
    ({ inline := ['s'], ic := !cs, items := items } : Regex).flags = flagsG cs := by
  cases cs <;> rfl

/-- single-character tests do not depend on MULTILINE -/
theorem atom_ok_flagsG (cs : Bool) (a : Atom) (c : Char) : a.ok (flagsG cs) c = a.ok (flagsOf cs) c := by
  cases a <;> rfl

/-- the regex items `glob._translate` emits for one token of a component -/
def globItem : Tok → TR (List Item)
  | .star => .ok [.star Wild.notSlash false]
  | .any => .ok [.one Wild.notSlash]
  | .lit c => .ok [.one (.chr (LChar.lit c))]
  | .cls neg body =>
    (Wild.rawItems body (!neg)).map fun l => [.notAhead Glob.slash, .one (.set neg l)]

theorem hasSS_tail (c : Char) (cs : Str) (h : Glob.hasSS (c :: cs) = false) : Glob.hasSS cs = false := by
  cases cs with
  | nil => rfl
  | cons d r =>
    by_cases h1 : c = '*' ∧ d = '*'
    · obtain ⟨rfl, rfl⟩ := h1
      have : Glob.hasSS ('*' :: '*' :: r) = true := by rw [Glob.hasSS]
      rw [this] at h; cases h
    · rw [Glob.hasSS] at h
      · exact h
      · intro r' hc he; simp at he; exact h1 ⟨hc, he.1⟩

theorem hasSS_head (cs : Str) (h : Glob.hasSS ('*' :: cs) = false) : cs.head? ≠ some '*' := by
  cases cs with
  | nil => simp
  | cons d r =>
    intro hd
    simp at hd; subst hd
    have : Glob.hasSS ('*' :: '*' :: r) = true := by rw [Glob.hasSS]
    rw [this] at h; cases h

theorem glob_go_eq (cs : Str) : ∀ n, Glob.hasSS cs = false →
    Glob.go cs n = (Glob.mapM' globItem (tokenize cs n)).map List.flatten := by
  induction cs with
  | nil => intro n _; simp [Glob.go, tokenize, Glob.mapM', TR.map]
  | cons c cs ih =>
    intro n hss
    have hss' := hasSS_tail c cs hss
    have step1 : ∀ (it : Item) (t : Tok) (k : Nat), globItem t = .ok [it] →
        Wild.cons it (Glob.go cs k) = (Glob.mapM' globItem (t :: tokenize cs k)).map List.flatten := by
      intro it t k ht
      rw [mapM'_cons, ht, ih k hss']
      cases Glob.mapM' globItem (tokenize cs k) <;> simp [Wild.cons, TR.map]
    cases n with
    | succ n => simp only [Glob.go, tokenize]; exact ih n hss'
    | zero =>
      simp only [Glob.go, tokenize]
      split
      · rename_i hc; subst hc
        have := hasSS_head cs hss
        simp only [this, if_false]
        exact step1 _ .star 0 rfl
      · split
        · exact step1 _ .any 0 rfl
        · split
          · -- bracket
            have lit : Wild.cons (Item.one (Atom.chr ⟨'[', true⟩)) (Glob.go cs 0) =
                (Glob.mapM' globItem (Tok.lit '[' :: tokenize cs 0)).map List.flatten :=
              step1 _ (.lit '[') 0 (by simp [globItem, LChar.lit, isSpecial])
            have cls : ∀ (neg : Bool) (body : Str) (k : Nat),
                (match (Wild.rawItems body (!neg)).map (Atom.set neg) with
                  | .err e => .err e
                  | .ok a => Glob.consL [.notAhead Glob.slash, .one a] (Glob.go cs k)) =
                (Glob.mapM' globItem (Tok.cls neg body :: tokenize cs k)).map List.flatten := by
              intro neg body k
              rw [mapM'_cons, ih k hss']
              simp only [globItem]
              cases Wild.rawItems body (!neg) with
              | err e => rfl
              | ok l =>
                cases Glob.mapM' globItem (tokenize cs k) <;> simp [Glob.consL, TR.map]
            cases cs with
            | nil => simpa [Wild.scanClass, Wild.untilClose, closeIdx] using lit
            | cons d r =>
              by_cases hd : d = '!'
              · subst hd
                rw [scanClass_neg]
                simp only [List.head?_cons, beq_self_eq_true, if_true, List.tail_cons]
                cases hk : closeIdx r with
                | none => simpa using lit
                | some k =>
                  have hlen := take_length_of_lt r k (closeIdx_lt r k hk)
                  simp only [Option.map_some, List.length_cons, hlen, Wild.classAtom]
                  exact cls true (List.take k r) (k + 2)
              · have hh : (d :: r).head? ≠ some '!' := by simpa using hd
                rw [scanClass_pos _ hh]
                have hn : ((d :: r).head? == some '!') = false := by simp [hd]
                simp only [hn, Bool.false_eq_true, if_false]
                cases hk : closeIdx (d :: r) with
                | none => simpa using lit
                | some k =>
                  have hlen := take_length_of_lt (d :: r) k (closeIdx_lt _ k hk)
                  have hk1 : ∃ k', k = k' + 1 := by
                    simp only [closeIdx] at hk
                    cases hf : findClose r with
                    | none => simp [hf] at hk
                    | some j => simp [hf] at hk; exact ⟨j, hk.symm⟩
                  obtain ⟨k', rfl⟩ := hk1
                  simp only [Option.map_some, hlen]
                  have hca : Wild.classAtom (List.take (k' + 1) (d :: r)) =
                      (Wild.rawItems (List.take (k' + 1) (d :: r)) true).map (Atom.set false) := by
                    simp only [List.take_succ_cons, Wild.classAtom]
                    split
                    · rename_i heq; simp at heq; exact absurd heq.1 hd
                    · rfl
                  rw [hca]
                  exact cls false _ _
          · exact step1 _ (.lit c) 0 rfl

theorem lower_slash : lower '/' = '/' := by decide
theorem upper_slash : upper '/' = '/' := by decide

theorem slash_ok (cs : Bool) (c : Char) : Glob.slash.ok (flagsG cs) c = true ↔ c = '/' := by
  cases cs
  · simp only [Glob.slash, Atom.ok, flagsG, Bool.not_false, if_true, lower_slash, beq_iff_eq]
    constructor
    · intro h; exact (lower_eq_slash c).1 h.symm
    · intro h; subst h; exact lower_slash.symm
  · simp only [Glob.slash, Atom.ok, flagsG, Bool.not_true, Bool.false_eq_true, if_false, beq_iff_eq]
    exact eq_comm

theorem slash_ok_b (cs : Bool) (c : Char) : Glob.slash.ok (flagsG cs) c = (c == '/') := by
  by_cases h : c = '/'
  · subst h; exact (slash_ok cs '/').2 rfl
  · have : Glob.slash.ok (flagsG cs) c = false := by
      cases hh : Glob.slash.ok (flagsG cs) c
      · rfl
      · exact absurd ((slash_ok cs c).1 hh) h
    simp [this, h]

theorem notSlash_okG (cs : Bool) (c : Char) : Wild.notSlash.ok (flagsG cs) c = (c != '/') := by
  rw [atom_ok_flagsG, notSlash_ok]

/-- what the items of one token (other than `*`) do: consume one character that is not the
separator and that the token accepts -/
theorem globItem_step (cs : Bool) (t : Tok) (ht : t ≠ .star) (hlit : ∀ x, t = .lit x → x ≠ '/')
    (its : List Item) (h : globItem t = .ok its) (R : List Item) (prev : Option Char) (s : Str) :
    matchItems (flagsG cs) (its ++ R) prev s =
      (match s with
       | c :: s' => (c != '/' && tokOk cs t c) && matchItems (flagsG cs) R (some c) s'
       | [] => false) := by
  cases t with
  | star => exact absurd rfl ht
  | any =>
    cases h
    cases s with
    | nil => simp [matchItems]
    | cons c s' => simp [matchItems, notSlash_okG, tokOk]
  | lit x =>
    cases h
    have hx := hlit x rfl
    cases s with
    | nil => simp [matchItems]
    | cons c s' =>
      simp only [List.cons_append, List.nil_append, matchItems]
      congr 1
      by_cases hc : c = '/'
      · subst hc
        have h1 : lower x ≠ '/' := fun e => hx ((lower_eq_slash x).1 e)
        cases cs <;> simp [Atom.ok, flagsG, tokOk, fold, LChar.lit, lower_slash, hx, h1]
      · cases cs <;> simp [Atom.ok, flagsG, tokOk, fold, LChar.lit, hc]
  | cls neg body =>
    simp only [globItem] at h
    cases hr : Wild.rawItems body (!neg) with
    | err e => rw [hr] at h; cases h
    | ok l =>
      rw [hr] at h; cases h
      have hw : wildItem (.cls neg body) = .ok (.one (.set neg l)) := by simp [wildItem, hr, TR.map]
      obtain ⟨a, ha, hok⟩ := wildItem_ok cs (.cls neg body) (by simp) _ hw
      cases ha
      cases s with
      | nil => simp [matchItems]
      | cons c s' =>
        simp only [List.cons_append, List.nil_append, matchItems]
        rw [slash_ok_b, atom_ok_flagsG, hok c]
        simp only [bne, Bool.and_assoc]

theorem globItem_no_bol (t : Tok) (its : List Item) (h : globItem t = .ok its) : Item.bol ∉ its := by
  cases t with
  | star => cases h; simp
  | any => cases h; simp
  | lit x => cases h; simp
  | cls neg body =>
    simp only [globItem] at h
    cases hr : Wild.rawItems body (!neg) <;> rw [hr] at h <;> cases h
    simp

theorem mapM_globItem_no_bol (toks : List Tok) :
    ∀ l, Glob.mapM' globItem toks = .ok l → Item.bol ∉ l.flatten := by
  induction toks with
  | nil => intro l h; cases h; simp
  | cons t toks ih =>
    intro l h
    rw [mapM'_cons] at h
    cases hit : globItem t with
    | err e => rw [hit] at h; cases h
    | ok its =>
      rw [hit] at h
      cases hr : Glob.mapM' globItem toks with
      | err e => rw [hr] at h; cases h
      | ok l' =>
        rw [hr] at h; cases h
        rw [List.flatten_cons]
        intro hm
        rcases List.mem_append.1 hm with hm | hm
        · exact globItem_no_bol t its hit hm
        · exact ih l' hr hm

theorem not_mem_append {a b : Str} {c : Char} (ha : c ∉ a) (hb : c ∉ b) : c ∉ a ++ b := by
  intro h; rcases List.mem_append.1 h with h | h
  · exact ha h
  · exact hb h

/-- the items of one component followed by `K` match `s` exactly when `s` splits into a
separator-free name that the component's tokens match in full, and a rest that `K` matches -/
theorem seg_split (cs : Bool) (toks : List Tok) (hlit : ∀ x, Tok.lit x ∈ toks → x ≠ '/') :
    ∀ l, Glob.mapM' globItem toks = .ok l → ∀ (K : List Item), Item.bol ∉ K →
    ∀ prev s, matchItems (flagsG cs) (l.flatten ++ K) prev s = true ↔
      ∃ n rest, s = n ++ rest ∧ '/' ∉ n ∧ tokMatch cs toks n = true ∧
        matchItems (flagsG cs) K none rest = true := by
  induction toks with
  | nil =>
    intro l h K hK prev s
    cases h
    simp only [List.flatten_nil, List.nil_append, tokMatch]
    constructor
    · intro hm
      exact ⟨[], s, rfl, by simp, by simp, by rw [matchItems_prev _ K hK none prev]; exact hm⟩
    · rintro ⟨n, rest, rfl, _, hn, hm⟩
      have : n = [] := by simpa using hn
      subst this
      rw [matchItems_prev _ K hK prev none]; exact hm
  | cons t toks ih =>
    intro l h K hK prev s
    rw [mapM'_cons] at h
    cases hit : globItem t with
    | err e => rw [hit] at h; cases h
    | ok its =>
      rw [hit] at h
      cases hr : Glob.mapM' globItem toks with
      | err e => rw [hr] at h; cases h
      | ok l' =>
        rw [hr] at h; cases h
        have hlit' : ∀ x, Tok.lit x ∈ toks → x ≠ '/' := fun x hx => hlit x (List.mem_cons_of_mem _ hx)
        have ih' := ih hlit' l' hr K hK
        have hnb : Item.bol ∉ l'.flatten ++ K := by
          intro hm; rcases List.mem_append.1 hm with hm | hm
          · exact mapM_globItem_no_bol toks l' hr hm
          · exact hK hm
        rw [List.flatten_cons, List.append_assoc]
        by_cases ht : t = .star
        · subst ht
          cases hit
          simp only [List.cons_append, List.nil_append, matchItems]
          rw [starLoop_iff _ _ (matchItems_prev _ _ hnb)]
          constructor
          · rintro ⟨u, t, rfl, hu, hm⟩
            obtain ⟨n', rest, rfl, hn', htm, hk⟩ := (ih' none t).1 hm
            refine ⟨u ++ n', rest, by simp, ?_, ?_, hk⟩
            · apply not_mem_append _ hn'
              intro hmem
              have := hu _ hmem
              rw [notSlash_okG] at this; simp at this
            · simp only [tokMatch]
              exact (starRun_iff _ _).2 ⟨u, n', rfl, htm⟩
          · rintro ⟨n, rest, rfl, hn, htm, hk⟩
            simp only [tokMatch] at htm
            obtain ⟨u, n', rfl, htm'⟩ := (starRun_iff _ _).1 htm
            refine ⟨u, n' ++ rest, by simp, ?_, ?_⟩
            · intro c hc
              rw [notSlash_okG]
              have : c ≠ '/' := fun e => hn (e ▸ List.mem_append_left _ hc)
              simp [this]
            · exact (ih' none _).2 ⟨n', rest, rfl, fun hm => hn (List.mem_append_right _ hm), htm', hk⟩
        · have hstep := globItem_step cs t ht (fun x hx => hlit x (hx ▸ List.mem_cons_self)) its hit
          have htm : ∀ c n', tokMatch cs (t :: toks) (c :: n') = (tokOk cs t c && tokMatch cs toks n') := by
            intro c n'; cases t <;> simp_all [tokMatch]
          have htn : tokMatch cs (t :: toks) [] = false := by
            cases t <;> simp_all [tokMatch]
          rw [hstep]
          cases s with
          | nil =>
            constructor
            · intro h; cases h
            · rintro ⟨n, rest, hs, _, hn, _⟩
              have : n = [] := by
                cases n with
                | nil => rfl
                | cons x n => simp at hs
              subst this; rw [htn] at hn; cases hn
          | cons c s' =>
            simp only [Bool.and_eq_true, bne_iff_ne, ne_eq]
            constructor
            · rintro ⟨⟨hcs, hc⟩, hm⟩
              obtain ⟨n', rest, rfl, hn', htm', hk⟩ := (ih' (some c) s').1 hm
              refine ⟨c :: n', rest, rfl, ?_, ?_, hk⟩
              · intro hmem
                rcases List.mem_cons.1 hmem with e | hmem
                · exact hcs e.symm
                · exact hn' hmem
              · rw [htm, hc, htm']; rfl
            · rintro ⟨n, rest, hs, hn, hn2, hk⟩
              cases n with
              | nil => rw [htn] at hn2; cases hn2
              | cons x n' =>
                simp only [List.cons_append, List.cons.injEq] at hs
                obtain ⟨rfl, rfl⟩ := hs
                have hcs : c ≠ '/' := fun e => hn (e ▸ List.mem_cons_self)
                rw [htm, Bool.and_eq_true] at hn2
                exact ⟨⟨hcs, hn2.1⟩,
                  (ih' (some c) _).2 ⟨n', rest, rfl, fun hm => hn (List.mem_cons_of_mem _ hm), hn2.2, hk⟩⟩

/-! ### rendered paths -/

theorem render_nil (d : Bool) : render [] d = if d then ['/'] else [] := by simp [render]

theorem render_cons (n : Str) (ns : List Str) (d : Bool) :
    render (n :: ns) d = '/' :: (n ++ render ns d) := by simp [render]

theorem render_append (us ts : List Str) (d : Bool) :
    render (us ++ ts) d = render us false ++ render ts d := by
  induction us with
  | nil => simp [render]
  | cons u us ih => rw [List.cons_append, render_cons, render_cons, ih]; simp

theorem render_head (ns : List Str) (d : Bool) (x : Char) (t : Str) (h : render ns d = x :: t) :
    x = '/' := by
  cases ns with
  | nil => rw [render_nil] at h; cases d <;> simp at h; exact h.1.symm
  | cons n ns => rw [render_cons] at h; simp at h; exact h.1.symm

/-! ### the pieces of `_translate_glob` -/

/-- the items appended for one component of the pattern -/
def pcItems : PComp → TR (List Item)
  | .starstar => .ok [.starGroup Glob.levelGroup]
  | .seg toks => (Glob.mapM' globItem toks).map fun l => Item.one Glob.slash :: l.flatten

def tailItems (ends : Bool) : List Item :=
  if ends then [.one Glob.slash, .endZ] else [Glob.optSlash, .endZ]

theorem tail_no_bol (ends : Bool) : Item.bol ∉ tailItems ends := by
  cases ends <;> simp [tailItems, Glob.optSlash]

theorem pcItems_no_bol (p : PComp) (its : List Item) (h : pcItems p = .ok its) : Item.bol ∉ its := by
  cases p with
  | starstar => cases h; simp
  | seg toks =>
    simp only [pcItems] at h
    cases hr : Glob.mapM' globItem toks with
    | err e => rw [hr] at h; cases h
    | ok l =>
      rw [hr] at h; cases h
      intro hm
      rcases List.mem_cons.1 hm with e | hm
      · cases e
      · exact mapM_globItem_no_bol toks l hr hm

theorem pieces_no_bol (ps : List PComp) : ∀ pieces, Glob.mapM' pcItems ps = .ok pieces →
    ∀ ends, Item.bol ∉ pieces.flatten ++ tailItems ends := by
  induction ps with
  | nil => intro pieces h ends; cases h; simpa using tail_no_bol ends
  | cons p ps ih =>
    intro pieces h ends
    rw [mapM'_cons] at h
    cases hit : pcItems p with
    | err e => rw [hit] at h; cases h
    | ok its =>
      rw [hit] at h
      cases hr : Glob.mapM' pcItems ps with
      | err e => rw [hr] at h; cases h
      | ok pieces' =>
        rw [hr] at h; cases h
        rw [List.flatten_cons, List.append_assoc]
        intro hm
        rcases List.mem_append.1 hm with hm | hm
        · exact pcItems_no_bol p its hit hm
        · exact ih pieces' hr ends hm

/-! ### `(?:/[^/]+)*` -/

/-- one round of the group: `/`, then a non-empty separator-free run -/
theorem level_iter (cs : Bool) (k : Option Char → Str → Bool) (hk : ∀ p q s, k p s = k q s)
    (prev : Option Char) (s : Str) :
    matchG (fun a => a.ok (flagsG cs)) Glob.levelGroup k prev s = true ↔
      ∃ m t, s = '/' :: (m ++ t) ∧ m ≠ [] ∧ '/' ∉ m ∧ k none t = true := by
  simp only [Glob.levelGroup, matchG]
  cases s with
  | nil => simp
  | cons c s1 =>
    cases s1 with
    | nil =>
      simp only [Bool.and_false, Bool.false_eq_true, false_iff]
      rintro ⟨m, t, hs, hm, _, _⟩
      simp only [List.cons.injEq] at hs
      have := congrArg List.length hs.2
      cases m with
      | nil => exact hm rfl
      | cons x m => simp at this
    | cons c2 s2 =>
      simp only [Bool.and_eq_true]
      rw [starLoop_iff _ _ hk]
      constructor
      · rintro ⟨hc, hc2, u, t, hs, hu, hkt⟩
        have e1 := (slash_ok cs c).1 hc
        subst e1
        refine ⟨c2 :: u, t, by rw [hs]; rfl, by simp, ?_, hkt⟩
        intro hmem
        rcases List.mem_cons.1 hmem with e | hmem
        · rw [← e, notSlash_okG] at hc2; simp at hc2
        · have := hu _ hmem; rw [notSlash_okG] at this; simp at this
      · rintro ⟨m, t, hs, hm, hnm, hkt⟩
        simp only [List.cons.injEq] at hs
        obtain ⟨rfl, hs⟩ := hs
        cases m with
        | nil => exact absurd rfl hm
        | cons x m =>
          simp only [List.cons_append, List.cons.injEq] at hs
          obtain ⟨rfl, rfl⟩ := hs
          refine ⟨(slash_ok cs '/').2 rfl, ?_, m, t, rfl, ?_, hkt⟩
          · rw [notSlash_okG]
            have : c2 ≠ '/' := fun e => hnm (e ▸ List.mem_cons_self)
            simp [this]
          · intro y hy
            rw [notSlash_okG]
            have : y ≠ '/' := fun e => hnm (e ▸ List.mem_cons_of_mem _ hy)
            simp [this]

/-- names a starred group iteration can consume -/
def LevelNames (ms : List Str) : Prop := ∀ m ∈ ms, m ≠ [] ∧ '/' ∉ m

theorem levelNames_nil : LevelNames [] := by intro m hm; cases hm

theorem group_sound (cs : Bool) (k : Option Char → Str → Bool) (hk : ∀ p q s, k p s = k q s) :
    ∀ fuel prev s, groupLoop (fun a => a.ok (flagsG cs)) Glob.levelGroup k fuel prev s = true →
      ∃ ms rest, LevelNames ms ∧ s = render ms false ++ rest ∧ k none rest = true := by
  intro fuel
  induction fuel with
  | zero =>
    intro prev s h
    simp only [groupLoop] at h
    exact ⟨[], s, levelNames_nil, by simp [render], by rw [hk none prev]; exact h⟩
  | succ n ih =>
    intro prev s h
    simp only [groupLoop, Bool.or_eq_true] at h
    rcases h with h | h
    · exact ⟨[], s, levelNames_nil, by simp [render], by rw [hk none prev]; exact h⟩
    · have hk' : ∀ p q s', (fun p s' => decide (s'.length < s.length) &&
          groupLoop (fun a => a.ok (flagsG cs)) Glob.levelGroup k n p s') p s' =
          (fun p s' => decide (s'.length < s.length) &&
          groupLoop (fun a => a.ok (flagsG cs)) Glob.levelGroup k n p s') q s' := by
        intro p q s'
        simp only
        rw [groupLoop_congr _ _ k k hk n p q s']
      obtain ⟨m, t, hs, hm, hnm, hkt⟩ := (level_iter cs _ hk' prev s).1 h
      simp only [Bool.and_eq_true] at hkt
      obtain ⟨ms, rest, hms, ht, hrest⟩ := ih none t hkt.2
      refine ⟨m :: ms, rest, ?_, ?_, hrest⟩
      · intro x hx
        rcases List.mem_cons.1 hx with e | hx
        · subst e; exact ⟨hm, hnm⟩
        · exact hms x hx
      · rw [hs, ht, render_cons]; simp

theorem group_complete (cs : Bool) (k : Option Char → Str → Bool) (hk : ∀ p q s, k p s = k q s)
    (ms : List Str) : LevelNames ms → ∀ rest, k none rest = true → ∀ fuel, ms.length ≤ fuel → ∀ prev,
      groupLoop (fun a => a.ok (flagsG cs)) Glob.levelGroup k fuel prev (render ms false ++ rest) = true := by
  induction ms with
  | nil =>
    intro _ rest hr fuel _ prev
    simp only [render, List.map_nil, List.flatten_nil, Bool.false_eq_true, if_false, List.append_nil, List.nil_append]
    cases fuel with
    | zero => simp only [groupLoop]; rw [hk prev none]; exact hr
    | succ n => simp only [groupLoop, Bool.or_eq_true]; left; rw [hk prev none]; exact hr
  | cons m ms ih =>
    intro hms rest hr fuel hf prev
    cases fuel with
    | zero => simp at hf
    | succ n =>
      have hm := hms m List.mem_cons_self
      have hms' : LevelNames ms := fun x hx => hms x (List.mem_cons_of_mem _ hx)
      simp only [groupLoop, Bool.or_eq_true]
      right
      have hk' : ∀ p q s', (fun p s' => decide (s'.length < (render (m :: ms) false ++ rest).length) &&
          groupLoop (fun a => a.ok (flagsG cs)) Glob.levelGroup k n p s') p s' =
          (fun p s' => decide (s'.length < (render (m :: ms) false ++ rest).length) &&
          groupLoop (fun a => a.ok (flagsG cs)) Glob.levelGroup k n p s') q s' := by
        intro p q s'
        simp only
        rw [groupLoop_congr _ _ k k hk n p q s']
      apply (level_iter cs _ hk' prev _).2
      refine ⟨m, render ms false ++ rest, by rw [render_cons]; simp, hm.1, hm.2, ?_⟩
      simp only [Bool.and_eq_true, decide_eq_true_eq]
      refine ⟨?_, ih hms' rest hr n (by simp at hf; omega) none⟩
      rw [render_cons]; simp; omega

/-! ### the whole pattern against a rendered path -/

theorem slash_not (cs : Bool) (x : Char) (h : x ≠ '/') : Glob.slash.ok (flagsG cs) x = false := by
  rw [slash_ok_b]; simp [h]

theorem tail_match (cs ends d : Bool) (ns : List Str) (hns : ∀ n ∈ ns, FsName n) (prev : Option Char) :
    matchItems (flagsG cs) (tailItems ends) prev (render ns d) = (ns.isEmpty && (!ends || d)) := by
  cases ns with
  | nil =>
    rw [render_nil]
    cases ends <;> cases d <;> cases cs <;>
      simp [tailItems, matchItems, flagsG, Glob.slash, Glob.optSlash, Atom.ok, lower_slash]
  | cons n ns =>
    rw [render_cons]
    obtain ⟨hne, hsl⟩ := hns n List.mem_cons_self
    cases n with
    | nil => exact absurd rfl hne
    | cons x n =>
      cases ends
      · simp [tailItems, matchItems, Glob.optSlash]
      · simp [tailItems, matchItems]

theorem groupLoop_head (cs : Bool) (k : Option Char → Str → Bool) (x : Char) (t : Str) (hx : x ≠ '/')
    (hk : ∀ p, k p (x :: t) = false) :
    ∀ fuel prev, groupLoop (fun a => a.ok (flagsG cs)) Glob.levelGroup k fuel prev (x :: t) = false := by
  intro fuel prev
  cases fuel with
  | zero => simp [groupLoop, hk]
  | succ n => simp [groupLoop, hk, Glob.levelGroup, matchG, slash_not cs x hx]

/-- what follows a component cannot start in the middle of a name -/
theorem khead (cs ends : Bool) (ps : List PComp) : ∀ pieces, Glob.mapM' pcItems ps = .ok pieces →
    ∀ prev x t, x ≠ '/' → matchItems (flagsG cs) (pieces.flatten ++ tailItems ends) prev (x :: t) = false := by
  induction ps with
  | nil =>
    intro pieces h prev x t hx
    cases h
    cases ends <;> simp [tailItems, matchItems, Glob.optSlash, slash_not cs x hx]
  | cons p ps ih =>
    intro pieces h prev x t hx
    rw [mapM'_cons] at h
    cases hit : pcItems p with
    | err e => rw [hit] at h; cases h
    | ok its =>
      rw [hit] at h
      cases hr : Glob.mapM' pcItems ps with
      | err e => rw [hr] at h; cases h
      | ok pieces' =>
        rw [hr] at h; cases h
        rw [List.flatten_cons, List.append_assoc]
        cases p with
        | starstar =>
          cases hit
          simp only [List.cons_append, List.nil_append, matchItems]
          exact groupLoop_head cs _ x t hx (fun p => ih pieces' hr p x t hx) _ _
        | seg toks =>
          simp only [pcItems] at hit
          cases hl : Glob.mapM' globItem toks with
          | err e => rw [hl] at hit; cases hit
          | ok l =>
            rw [hl] at hit; cases hit
            simp [matchItems, slash_not cs x hx]

theorem allSS_emptyTail (ps : List PComp) (h : ps.all (· == .starstar) = true) : emptyTail ps = false := by
  induction ps with
  | nil => rfl
  | cons p ps ih =>
    simp only [List.all_cons, Bool.and_eq_true, beq_iff_eq] at h
    obtain ⟨rfl, h⟩ := h
    simp only [emptyTail]; exact ih h

theorem emptyTail_tail (p : PComp) (ps : List PComp) (h : emptyTail (p :: ps) = false) : emptyTail ps = false := by
  cases p with
  | starstar => simpa [emptyTail] using h
  | seg toks =>
    simp only [emptyTail] at h
    split at h
    · rename_i hall; exact allSS_emptyTail ps hall
    · exact h

theorem tokMatch_nil (cs : Bool) (toks : List Tok) : tokMatch cs toks [] = toks.all isStar := by
  induction toks with
  | nil => rfl
  | cons t toks ih => cases t <;> simp [tokMatch, starRun, isStar, ih]

/-- on the empty rest only `**` components (zero levels) and the optional final slash survive -/
theorem knil (cs ends : Bool) (ps : List PComp) : ∀ pieces, Glob.mapM' pcItems ps = .ok pieces →
    ∀ prev, matchItems (flagsG cs) (pieces.flatten ++ tailItems ends) prev [] =
      (ps.all (· == .starstar) && !ends) := by
  induction ps with
  | nil => intro pieces h prev; cases h; cases ends <;> simp [tailItems, matchItems, Glob.optSlash]
  | cons p ps ih =>
    intro pieces h prev
    rw [mapM'_cons] at h
    cases hit : pcItems p with
    | err e => rw [hit] at h; cases h
    | ok its =>
      rw [hit] at h
      cases hr : Glob.mapM' pcItems ps with
      | err e => rw [hr] at h; cases h
      | ok pieces' =>
        rw [hr] at h; cases h
        rw [List.flatten_cons, List.append_assoc]
        cases p with
        | starstar =>
          cases hit
          simp [matchItems, groupLoop, ih pieces' hr]
        | seg toks =>
          simp only [pcItems] at hit
          cases hl : Glob.mapM' globItem toks with
          | err e => rw [hl] at hit; cases hit
          | ok l => rw [hl] at hit; cases hit; simp [matchItems]

/-- group iterations line up with the names of the path -/
theorem align (d : Bool) (ms : List Str) (hms : LevelNames ms) :
    ∀ ns, (∀ n ∈ ns, FsName n) → ∀ rest, render ns d = render ms false ++ rest →
      (rest = [] ∨ rest.head? = some '/' ∨ ms = []) → ∃ ts, ns = ms ++ ts ∧ rest = render ts d := by
  induction ms with
  | nil => intro ns _ rest h _; exact ⟨ns, rfl, by simpa [render] using h.symm⟩
  | cons m ms ih =>
    intro ns hns rest h hrest
    have hm := hms m List.mem_cons_self
    have hms' : LevelNames ms := fun x hx => hms x (List.mem_cons_of_mem _ hx)
    rw [render_cons] at h
    cases ns with
    | nil =>
      rw [render_nil] at h
      cases d
      · simp at h
      · simp only [if_true, List.cons_append, List.cons.injEq, true_and] at h
        have := congrArg List.length h
        cases m with
        | nil => exact absurd rfl hm.1
        | cons x m => simp at this
    | cons n ns' =>
      have hn := hns n List.mem_cons_self
      have hns' : ∀ x ∈ ns', FsName x := fun x hx => hns x (List.mem_cons_of_mem _ hx)
      rw [render_cons] at h
      simp only [List.cons_append, List.cons.injEq, true_and, List.append_assoc] at h
      have hY : render ms false ++ rest = [] ∨ (render ms false ++ rest).head? = some '/' := by
        cases ms with
        | nil =>
          simp only [render, List.map_nil, List.flatten_nil, Bool.false_eq_true, if_false, List.append_nil, List.nil_append]
          rcases hrest with h1 | h1 | h1
          · exact Or.inl h1
          · exact Or.inr h1
          · cases h1
        | cons m2 ms2 => right; rw [render_cons]; rfl
      rcases List.append_eq_append_iff.1 h with ⟨z, h1, h2⟩ | ⟨z, h1, h2⟩
      · -- m = n ++ z, render ns' d = z ++ (render ms false ++ rest)
        cases z with
        | nil =>
          simp only [List.append_nil, List.nil_append] at h1 h2
          subst h1
          have hr' : rest = [] ∨ rest.head? = some '/' ∨ ms = [] := by
            rcases hrest with h3 | h3 | h3
            · exact Or.inl h3
            · exact Or.inr (Or.inl h3)
            · cases h3
          obtain ⟨ts, rfl, hts⟩ := ih hms' ns' hns' rest h2 hr'
          exact ⟨ts, rfl, hts⟩
        | cons x z =>
          have hx : x = '/' := render_head ns' d x _ h2
          subst hx
          exact absurd (by rw [h1]; simp) hm.2
      · -- n = m ++ z, render ms false ++ rest = z ++ render ns' d
        cases z with
        | nil =>
          simp only [List.append_nil, List.nil_append] at h1 h2
          subst h1
          have hr' : rest = [] ∨ rest.head? = some '/' ∨ ms = [] := by
            rcases hrest with h3 | h3 | h3
            · exact Or.inl h3
            · exact Or.inr (Or.inl h3)
            · cases h3
          obtain ⟨ts, rfl, hts⟩ := ih hms' ns' hns' rest h2.symm hr'
          exact ⟨ts, rfl, hts⟩
        | cons x z =>
          have hxn : x ∈ n := by rw [h1]; simp
          have hx : x ≠ '/' := fun e => hn.2 (e ▸ hxn)
          rcases hY with hY | hY
          · rw [h2] at hY; cases hY
          · rw [h2] at hY; simp at hY; exact absurd hY hx

/-- literal tokens of the pattern's components are never the separator -/
def LitOk (ps : List PComp) : Prop := ∀ toks, PComp.seg toks ∈ ps → ∀ x, Tok.lit x ∈ toks → x ≠ '/'

theorem glob_items_match (cs ends d : Bool) (ps : List PComp) :
    ∀ pieces, Glob.mapM' pcItems ps = .ok pieces → LitOk ps →
    (d = true → ends = false → emptyTail ps = false) →
    ∀ ns, (∀ n ∈ ns, FsName n) → ∀ prev,
    (matchItems (flagsG cs) (pieces.flatten ++ tailItems ends) prev (render ns d) = true ↔
      (compsMatch cs ps ns = true ∧ (!ends || d) = true)) := by
  induction ps with
  | nil =>
    intro pieces h _ _ ns hns prev
    cases h
    simp only [List.flatten_nil, List.nil_append, compsMatch]
    rw [tail_match cs ends d ns hns prev]
    cases ns <;> simp
  | cons p ps ih =>
    intro pieces h hlit hET ns hns prev
    rw [mapM'_cons] at h
    cases hit : pcItems p with
    | err e => rw [hit] at h; cases h
    | ok its =>
      rw [hit] at h
      cases hr : Glob.mapM' pcItems ps with
      | err e => rw [hr] at h; cases h
      | ok pieces' =>
        rw [hr] at h; cases h
        have hlit' : LitOk ps := fun toks ht => hlit toks (List.mem_cons_of_mem _ ht)
        have hET' : d = true → ends = false → emptyTail ps = false :=
          fun h1 h2 => emptyTail_tail p ps (hET h1 h2)
        have hK := pieces_no_bol ps pieces' hr ends
        have ih' := ih pieces' hr hlit' hET'
        rw [List.flatten_cons, List.append_assoc]
        cases p with
        | starstar =>
          cases hit
          simp only [List.cons_append, List.nil_append, matchItems, compsMatch]
          rw [ssRun_iff]
          constructor
          · intro hm
            obtain ⟨ms, rest, hms, hs, hk⟩ := group_sound cs _ (matchItems_prev _ _ hK) _ _ _ hm
            have hrest : rest = [] ∨ rest.head? = some '/' ∨ ms = [] := by
              cases rest with
              | nil => exact Or.inl rfl
              | cons x t =>
                by_cases hx : x = '/'
                · subst hx; exact Or.inr (Or.inl rfl)
                · rw [khead cs ends ps pieces' hr none x t hx] at hk; cases hk
            obtain ⟨ts, rfl, hts⟩ := align d ms hms ns hns rest hs hrest
            have hts' : ∀ n ∈ ts, FsName n := fun n hn => hns n (List.mem_append_right _ hn)
            rw [hts] at hk
            have := (ih' ts hts' none).1 hk
            exact ⟨⟨ms, ts, rfl, this.1⟩, this.2⟩
          · rintro ⟨⟨us, ts, rfl, hcm⟩, hc⟩
            have hts' : ∀ n ∈ ts, FsName n := fun n hn => hns n (List.mem_append_right _ hn)
            have hus : LevelNames us := fun n hn => hns n (List.mem_append_left _ hn)
            have hk := (ih' ts hts' none).2 ⟨hcm, hc⟩
            rw [render_append]
            apply group_complete cs _ (matchItems_prev _ _ hK) us hus _ hk
            rw [← render_append]
            have : us.length ≤ (render (us ++ ts) d).length := by
              rw [render_append]
              have : ∀ l : List Str, l.length ≤ (render l false).length := by
                intro l; induction l with
                | nil => simp
                | cons a l ih => rw [render_cons]; simp; omega
              have := this us
              simp; omega
            exact this
        | seg toks =>
          simp only [pcItems] at hit
          cases hl : Glob.mapM' globItem toks with
          | err e => rw [hl] at hit; cases hit
          | ok l =>
            rw [hl] at hit; cases hit
            have split := seg_split cs toks (hlit toks List.mem_cons_self) l hl _ hK
            simp only [List.cons_append, compsMatch]
            cases ns with
            | nil =>
              rw [render_nil]
              cases d with
              | false => simp [matchItems]
              | true =>
                simp only [if_true, matchItems, Bool.and_eq_true]
                constructor
                · rintro ⟨_, hm⟩
                  obtain ⟨n, rest, hs, _, htm, hk⟩ := (split (some '/') []).1 hm
                  have hn0 : n = [] ∧ rest = [] := by simpa using hs.symm
                  obtain ⟨rfl, rfl⟩ := hn0
                  rw [knil cs ends ps pieces' hr none, Bool.and_eq_true] at hk
                  have he : ends = false := by simpa using hk.2
                  have := hET rfl he
                  simp only [emptyTail, hk.1, if_true] at this
                  rw [tokMatch_nil, this] at htm; cases htm
                · rintro ⟨h, _⟩; cases h
            | cons n ns' =>
              have hn := hns n List.mem_cons_self
              have hns' : ∀ x ∈ ns', FsName x := fun x hx => hns x (List.mem_cons_of_mem _ hx)
              rw [render_cons]
              simp only [matchItems, Bool.and_eq_true, (slash_ok cs '/').2 rfl, true_and]
              rw [split (some '/')]
              constructor
              · rintro ⟨n0, rest0, hs, hn0, htm, hk⟩
                rcases List.append_eq_append_iff.1 hs with ⟨m, h1, h2⟩ | ⟨m, h1, h2⟩
                · cases m with
                  | nil =>
                    simp only [List.append_nil, List.nil_append] at h1 h2
                    subst h1; rw [← h2] at hk
                    exact ⟨⟨htm, ((ih' ns' hns' none).1 hk).1⟩, ((ih' ns' hns' none).1 hk).2⟩
                  | cons x m =>
                    have hx : x = '/' := render_head ns' d x (m ++ rest0) (by simpa using h2)
                    subst hx
                    exact absurd (by rw [h1]; simp) hn0
                · cases m with
                  | nil =>
                    simp only [List.append_nil, List.nil_append] at h1 h2
                    subst h1; rw [h2] at hk
                    exact ⟨⟨htm, ((ih' ns' hns' none).1 hk).1⟩, ((ih' ns' hns' none).1 hk).2⟩
                  | cons x m =>
                    have hxn : x ∈ n := by rw [h1]; simp
                    have hx1 : x ≠ '/' := fun e => hn.2 (e ▸ hxn)
                    rw [h2, List.cons_append, khead cs ends ps pieces' hr none x _ hx1] at hk
                    cases hk
              · rintro ⟨⟨htm, hcm⟩, hc⟩
                exact ⟨n, render ns' d, rfl, hn.2, htm, (ih' ns' hns' none).2 ⟨hcm, hc⟩⟩

/-! ### utilities -/

theorem mapM'_append {α β} (f : α → TR β) (a b : List α) :
    Glob.mapM' f (a ++ b) =
      (match Glob.mapM' f a with
       | .err e => .err e
       | .ok x => (Glob.mapM' f b).map (x ++ ·)) := by
  induction a with
  | nil => simp only [List.nil_append, Glob.mapM']; cases Glob.mapM' f b <;> simp [TR.map]
  | cons x a ih =>
    rw [List.cons_append, mapM'_cons, mapM'_cons, ih]
    cases f x with
    | err e => rfl
    | ok y =>
      cases Glob.mapM' f a with
      | err e => rfl
      | ok ys => cases Glob.mapM' f b <;> simp [TR.map]

theorem iteratepath_of_resolve (p : Str) (cs : List Str) (hres : resolve (splitSlash p) = some cs) :
    iteratepath p = .ok cs := by
  have hclean := resolve_result_clean p _ hres
  unfold iteratepath
  rw [normpath_eq_specNorm, specNorm, hres]
  show (Res.ok _ >>= _) = _
  rw [bind_ok]
  have hm : ((if startsWithSlash p = true then ['/'] else []) ++ joinSlash cs) = mkp (startsWithSlash p) cs := rfl
  rw [hm]
  simp only [relpath, lstripSlash_mkp hclean, pure_eq]
  by_cases hc : cs = []
  · subst hc; rfl
  · have : joinWith '/' cs ≠ [] := fun e => hc ((join_clean_eq_nil_iff hclean).1 e)
    simp [this, splitSlash, splitOn_join_clean hclean hc]

theorem iteratepath_nodots (p : Str) (h : (splitSlash p).any isDots = false) :
    iteratepath p = .ok ((splitSlash p).filter (fun c => c ≠ [])) := by
  apply iteratepath_of_resolve
  unfold resolve; rw [foldl_step_nodots _ _ h]; rfl

theorem hasSS_ss : Glob.hasSS ss = true := by decide

theorem countSlash_append (a b : Str) : Glob.countSlash (a ++ b) = Glob.countSlash a + Glob.countSlash b := by
  simp [Glob.countSlash]

theorem countSlash_of_not_mem (a : Str) (h : '/' ∉ a) : Glob.countSlash a = 0 := by
  simp [Glob.countSlash, List.count_eq_zero, h]

theorem tokenize_lit_mem (c : Str) : ∀ n x, Tok.lit x ∈ tokenize c n → x ∈ c := by
  induction c with
  | nil => intro n x h; simp [tokenize] at h
  | cons a cs ih =>
    intro n x h
    cases n with
    | succ n => simp only [tokenize] at h; exact List.mem_cons_of_mem _ (ih n x h)
    | zero =>
      simp only [tokenize] at h
      split at h
      · simp only [List.mem_cons] at h
        rcases h with h | h
        · cases h
        · exact List.mem_cons_of_mem _ (ih _ x h)
      · split at h
        · simp only [List.mem_cons] at h
          rcases h with h | h
          · cases h
          · exact List.mem_cons_of_mem _ (ih _ x h)
        · split at h
          · rename_i hb
            split at h
            · simp only [List.mem_cons] at h
              rcases h with h | h
              · cases h
              · exact List.mem_cons_of_mem _ (ih _ x h)
            · simp only [List.mem_cons] at h
              rcases h with h | h
              · cases h; rw [hb]; exact List.mem_cons_self
              · exact List.mem_cons_of_mem _ (ih _ x h)
          · simp only [List.mem_cons] at h
            rcases h with h | h
            · cases h; exact List.mem_cons_self
            · exact List.mem_cons_of_mem _ (ih _ x h)

theorem foldl_step_mem (cs : List Str) : ∀ s r, cs.foldl step (some s) = some r →
    ∀ x ∈ r, x ∈ s ∨ x ∈ cs := by
  induction cs with
  | nil => intro s r h x hx; simp at h; subst h; exact Or.inl hx
  | cons c cs ih =>
    intro s r h x hx
    rw [List.foldl_cons] at h
    cases hst : step (some s) c with
    | none => rw [hst, foldl_step_none] at h; cases h
    | some s' =>
      rw [hst] at h
      rcases ih s' r h x hx with h1 | h1
      · simp only [step] at hst
        split at hst
        · cases hst; exact Or.inl h1
        · split at hst
          · split at hst
            · cases hst
            · cases hst; exact Or.inl ((List.dropLast_sublist _).subset h1)
          · cases hst
            rcases List.mem_append.1 h1 with h2 | h2
            · exact Or.inl h2
            · simp at h2; subst h2; exact Or.inr List.mem_cons_self
      · exact Or.inr (List.mem_cons_of_mem _ h1)

theorem foldl_step_length (p : Str → Bool) (hp : ∀ c, p c = true ↔ c ≠ []) (cs : List Str) :
    ∀ s r, cs.foldl step (some s) = some r → r.length ≤ s.length + (cs.filter p).length := by
  induction cs with
  | nil => intro s r h; simp at h; subst h; simp
  | cons c cs ih =>
    intro s r h
    rw [List.foldl_cons] at h
    cases hst : step (some s) c with
    | none => rw [hst, foldl_step_none] at h; cases h
    | some s' =>
      rw [hst] at h
      have := ih s' r h
      have key : (List.filter p (c :: cs)).length = (if p c = true then 1 else 0) + (List.filter p cs).length := by
        rw [List.filter_cons]; split <;> simp <;> omega
      rw [key]
      simp only [step] at hst
      split at hst
      · cases hst; omega
      · rename_i hc
        have hne : p c = true := (hp c).2 (fun e => hc (Or.inl e))
        rw [if_pos hne]
        split at hst
        · split at hst
          · cases hst
          · cases hst; simp at this; omega
        · cases hst; simp at this; omega

theorem splitOn_length (p : Str) : (splitOn '/' p).length = Glob.countSlash p + 1 := by
  induction p with
  | nil => rfl
  | cons x p ih =>
    by_cases hx : x = '/'
    · subst hx; rw [splitOn_cons_sep, List.length_cons, ih]; simp [Glob.countSlash]
    · rw [splitOn_cons_ne _ _ _ hx]
      have hne := splitOn_ne_nil '/' p
      have : (splitOn '/' p).tail.length + 1 = (splitOn '/' p).length := by
        cases h : splitOn '/' p with
        | nil => exact absurd h hne
        | cons a b => simp
      simp [Glob.countSlash, hx] at *
      omega

theorem splitOn_snoc_sep (q : Str) : splitOn '/' (q ++ ['/']) = splitOn '/' q ++ [[]] := by
  induction q with
  | nil => rfl
  | cons x q ih =>
    by_cases hx : x = '/'
    · subst hx; rw [List.cons_append, splitOn_cons_sep, splitOn_cons_sep, ih]; rfl
    · rw [List.cons_append, splitOn_cons_ne _ _ _ hx, splitOn_cons_ne _ _ _ hx, ih]
      have hne := splitOn_ne_nil '/' q
      cases h : splitOn '/' q with
      | nil => exact absurd h hne
      | cons a b => simp

theorem endsWithSlash_snoc (p : Str) (h : endsWithSlash p = true) : ∃ q, p = q ++ ['/'] := by
  unfold endsWithSlash at h
  cases hr : p.reverse with
  | nil => rw [hr] at h; cases h
  | cons x r =>
    rw [hr, startsWithSlash_cons] at h
    have hx : x = '/' := by simpa using h
    subst hx
    refine ⟨r.reverse, ?_⟩
    have := congrArg List.reverse hr
    simpa using this

theorem pieces_bound (f : Str → Bool) (hf : f [] = false) (p : Str) :
    ((splitSlash p).filter f).length + (if endsWithSlash p = true then 1 else 0) ≤ Glob.countSlash p + 1 := by
  by_cases he : endsWithSlash p = true
  · obtain ⟨q, rfl⟩ := endsWithSlash_snoc p he
    rw [if_pos he]
    simp only [splitSlash]
    rw [splitOn_snoc_sep, List.filter_append]
    have h1 : List.filter f [[]] = [] := by simp [hf]
    rw [h1, List.append_nil]
    have h2 := List.length_filter_le f (splitOn '/' q)
    have h3 := splitOn_length q
    have h4 : Glob.countSlash (q ++ ['/']) = Glob.countSlash q + 1 := by simp [Glob.countSlash]
    omega
  · rw [if_neg he]
    have h2 := List.length_filter_le f (splitSlash p)
    have h3 := splitOn_length p
    simp only [splitSlash] at h2 ⊢
    omega

theorem countSlash_render (ns : List Str) (d : Bool) (h : ∀ n ∈ ns, '/' ∉ n) :
    Glob.countSlash (render ns d) = ns.length + (if d = true then 1 else 0) := by
  induction ns with
  | nil => rw [render_nil]; cases d <;> rfl
  | cons n ns ih =>
    rw [render_cons, show ('/' :: (n ++ render ns d)) = ['/'] ++ (n ++ render ns d) from rfl,
      countSlash_append, countSlash_append, countSlash_of_not_mem n (h n List.mem_cons_self),
      ih (fun x hx => h x (List.mem_cons_of_mem _ hx))]
    simp [Glob.countSlash]; omega

theorem mapM'_length {α β} (f : α → TR β) (l : List α) : ∀ r, Glob.mapM' f l = .ok r → r.length = l.length := by
  induction l with
  | nil => intro r h; cases h; rfl
  | cons a l ih =>
    intro r h
    rw [mapM'_cons] at h
    cases hf : f a with
    | err e => rw [hf] at h; cases h
    | ok b =>
      rw [hf] at h
      cases hr : Glob.mapM' f l with
      | err e => rw [hr] at h; cases h
      | ok r' => rw [hr] at h; cases h; simp [ih r' hr]

theorem iteratepath_ok_resolve (p : Str) (comps : List Str) (h : iteratepath p = .ok comps) :
    resolve (splitSlash p) = some comps := by
  cases hr : resolve (splitSlash p) with
  | none =>
    unfold iteratepath at h
    rw [normpath_eq_specNorm, specNorm, hr] at h
    cases h
  | some cs =>
    rw [iteratepath_of_resolve p cs hr] at h
    cases h; rfl


/-! ### the shape of `_translate_glob`'s output -/

theorem pcomp_ss : pcomp ss = .starstar := by decide

theorem pcomp_seg (c : Str) (h : Glob.hasSS c = false) : pcomp c = .seg (tokenize c 0) := by
  have : c ≠ ss := by intro e; rw [e, hasSS_ss] at h; cases h
  simp only [pcomp]
  rw [if_neg]
  exact this

theorem compItems_pc (c : Str) (h : c = ss ∨ Glob.hasSS c = false) : Glob.compItems c = pcItems (pcomp c) := by
  rcases h with rfl | h
  · rfl
  · have hne : c ≠ ['*', '*'] := by intro e; rw [e] at h; exact absurd h (by decide)
    rw [pcomp_seg c h]
    simp only [Glob.compItems, hne, if_false, h, Bool.false_eq_true, Glob.translate, glob_go_eq c 0 h, pcItems]
    cases Glob.mapM' globItem (tokenize c 0) <;> rfl

theorem mapM'_congr_map {α β γ} (f : α → TR γ) (g : β → TR γ) (m : α → β) (l : List α)
    (h : ∀ a ∈ l, f a = g (m a)) : Glob.mapM' f l = Glob.mapM' g (l.map m) := by
  induction l with
  | nil => rfl
  | cons a l ih =>
    rw [List.map_cons, mapM'_cons, mapM'_cons, h a List.mem_cons_self,
      ih (fun x hx => h x (List.mem_cons_of_mem _ hx))]

theorem glob_core (pat : Str) (path : List Str) (isDir cs : Bool)
    (hreg : Regular pat = true) (hpath : ∀ n ∈ path, FsName n)
    (hdir : isDir = true → endsWithSlash pat = false → emptyTail (pcomps pat) = false)
    (c : Glob.Compiled) (hc : Glob.translateGlob pat cs = .ok c) :
    c.re.matches (render path isDir) = GlobSpec.matches pat path isDir cs := by
  simp only [Regular, Bool.and_eq_true] at hreg
  obtain ⟨hdot, hss⟩ := hreg
  have hdot' : (splitSlash pat).any isDots = false := by simpa [dotFree] using hdot
  have hit := iteratepath_nodots pat hdot'
  have hshape : ∀ x ∈ patComps pat, x = ss ∨ Glob.hasSS x = false := by
    intro x hx
    have := List.all_eq_true.1 hss x hx
    simpa using this
  have hlit : LitOk (pcomps pat) := by
    intro toks htoks x hx
    obtain ⟨comp, hcomp, hpc⟩ := List.mem_map.1 htoks
    rcases hshape comp hcomp with rfl | hh
    · rw [pcomp_ss] at hpc; cases hpc
    · rw [pcomp_seg comp hh] at hpc
      cases hpc
      have hxc := tokenize_lit_mem comp 0 x hx
      have hcs : comp ∈ splitSlash pat := (List.mem_filter.1 hcomp).1
      intro e; subst e
      exact not_mem_of_mem_splitOn '/' pat comp hcs hxc
  unfold Glob.translateGlob at hc
  have hit' : iteratepath pat = .ok (patComps pat) := hit
  rw [hit'] at hc
  simp only [Glob.liftRes] at hc
  rw [mapM'_congr_map Glob.compItems pcItems pcomp (patComps pat) (fun a ha => compItems_pc a (hshape a ha))] at hc
  cases hl : Glob.mapM' pcItems ((patComps pat).map pcomp) with
  | err e => rw [hl] at hc; cases hc
  | ok pieces =>
    rw [hl] at hc
    simp only [TR.ok.injEq] at hc
    subst hc
    have htail : (if endsWithSlash pat = true then [Item.one Glob.slash, Item.endZ] else [Glob.optSlash, Item.endZ])
        = tailItems (endsWithSlash pat) := by unfold tailItems; rfl
    simp only [Regex.matches, flags_s, htail, List.cons_append, matchItems, atBol,
      beq_self_eq_true, Bool.true_or, Bool.true_and]
    have main := glob_items_match cs (endsWithSlash pat) isDir (pcomps pat) pieces hl hlit hdir path hpath none
    unfold GlobSpec.matches
    rw [Bool.eq_iff_iff, main, Bool.and_eq_true, and_comm]

/-! ### levels -/

theorem endsWithSlash_render (ns : List Str) (d : Bool) (hns : ∀ n ∈ ns, FsName n)
    (h : endsWithSlash (render ns d) = true) : d = true := by
  induction ns with
  | nil => rw [render_nil] at h; cases d <;> simp_all [endsWithSlash, startsWithSlash]
  | cons n ns ih =>
    have hn := hns n List.mem_cons_self
    rw [render_cons] at h
    by_cases hr : render ns d = []
    · rw [hr, List.append_nil] at h
      have h2 : endsWithSlash (['/'] ++ n) = endsWithSlash n := endsWithSlash_append ['/'] n hn.1
      rw [show ('/' :: n) = ['/'] ++ n from rfl, h2, endsWithSlash_of_not_mem n hn.2] at h
      cases h
    · have h2 : endsWithSlash (('/' :: n) ++ render ns d) = endsWithSlash (render ns d) :=
        endsWithSlash_append _ _ hr
      rw [show ('/' :: (n ++ render ns d)) = ('/' :: n) ++ render ns d from rfl, h2] at h
      exact ih (fun x hx => hns x (List.mem_cons_of_mem _ hx)) h

theorem count_slash (cs ends : Bool) (ps : List PComp) (hseg : ∀ p ∈ ps, p ≠ .starstar) (hlit : LitOk ps) :
    ∀ pieces, Glob.mapM' pcItems ps = .ok pieces → ∀ prev s,
      matchItems (flagsG cs) (pieces.flatten ++ tailItems ends) prev s = true →
      (Glob.countSlash s = ps.length + 1 ∧ endsWithSlash s = true) ∨
        (ends = false ∧ Glob.countSlash s = ps.length) := by
  induction ps with
  | nil =>
    intro pieces h prev s hm
    cases h
    simp only [List.flatten_nil, List.nil_append, List.length_nil, Nat.zero_add] at hm ⊢
    cases ends with
    | true =>
      cases s with
      | nil => simp [tailItems, matchItems] at hm
      | cons c s' =>
        simp only [tailItems, if_true, matchItems, Bool.and_true, Bool.and_eq_true, beq_iff_eq] at hm
        have hc := (slash_ok cs c).1 hm.1
        obtain ⟨_, rfl⟩ := hm
        subst hc
        left; exact ⟨rfl, rfl⟩
    | false =>
      simp only [tailItems, Bool.false_eq_true, if_false, Glob.optSlash, matchItems, Bool.and_true,
        Bool.or_eq_true, beq_iff_eq] at hm
      rcases hm with rfl | hm
      · right; exact ⟨rfl, rfl⟩
      · cases s with
        | nil => cases hm
        | cons c s' =>
          simp only [Bool.and_eq_true, beq_iff_eq] at hm
          have hc := (slash_ok cs c).1 hm.1
          obtain ⟨_, rfl⟩ := hm
          subst hc
          left; exact ⟨rfl, rfl⟩
  | cons p ps ih =>
    intro pieces h prev s hm
    rw [mapM'_cons] at h
    cases hit : pcItems p with
    | err e => rw [hit] at h; cases h
    | ok its =>
      rw [hit] at h
      cases hr : Glob.mapM' pcItems ps with
      | err e => rw [hr] at h; cases h
      | ok pieces' =>
        rw [hr] at h; cases h
        have hK := pieces_no_bol ps pieces' hr ends
        rw [List.flatten_cons, List.append_assoc] at hm
        cases p with
        | starstar => exact absurd rfl (hseg _ List.mem_cons_self)
        | seg toks =>
          simp only [pcItems] at hit
          cases hl : Glob.mapM' globItem toks with
          | err e => rw [hl] at hit; cases hit
          | ok l =>
            rw [hl] at hit; cases hit
            cases s with
            | nil => simp [matchItems] at hm
            | cons c s' =>
              simp only [List.cons_append, matchItems, Bool.and_eq_true] at hm
              have hc := (slash_ok cs c).1 hm.1
              subst hc
              obtain ⟨n, rest, rfl, hn, _, hk⟩ :=
                (seg_split cs toks (hlit toks List.mem_cons_self) l hl _ hK _ _).1 hm.2
              have hcount : Glob.countSlash ('/' :: (n ++ rest)) = Glob.countSlash rest + 1 := by
                rw [show ('/' :: (n ++ rest)) = ['/'] ++ (n ++ rest) from rfl, countSlash_append,
                  countSlash_append, countSlash_of_not_mem n hn]
                simp [Glob.countSlash]; omega
              rcases ih (fun x hx => hseg x (List.mem_cons_of_mem _ hx))
                (fun toks ht => hlit toks (List.mem_cons_of_mem _ ht)) pieces' hr none rest hk with ⟨h1, h2⟩ | ⟨h1, h2⟩
              · left
                refine ⟨by rw [hcount, h1]; simp, ?_⟩
                have hne : rest ≠ [] := by intro e; rw [e] at h2; cases h2
                rw [show ('/' :: (n ++ rest)) = ('/' :: n) ++ rest from rfl, endsWithSlash_append _ _ hne]
                exact h2
              · right
                exact ⟨h1, by rw [hcount, h2]; simp⟩

theorem levels_core (pat : Str) (path : List Str) (isDir cs : Bool) (hpath : ∀ n ∈ path, FsName n)
    (c : Glob.Compiled) (hc : Glob.translateGlob pat cs = .ok c) (k : Nat) (hk : c.levels = some k)
    (hm : c.re.matches (render path isDir) = true) : depth path ≤ k := by
  unfold Glob.translateGlob at hc
  cases hit : iteratepath pat with
  | err e => rw [hit] at hc; cases hc
  | ok comps =>
    rw [hit] at hc
    simp only [Glob.liftRes] at hc
    have hres := iteratepath_ok_resolve pat comps hit
    have hclean := resolve_result_clean pat comps hres
    cases hp : Glob.mapM' Glob.compItems comps with
    | err e => rw [hp] at hc; cases hc
    | ok pieces =>
      rw [hp] at hc
      simp only [TR.ok.injEq] at hc
      subst hc
      simp only [Glob.levelsOf] at hk
      split at hk
      · cases hk
      · rename_i hrec
        cases hk
        have hss : ∀ x ∈ comps, Glob.hasSS x = false := by
          intro x hx
          cases hh : Glob.hasSS x with
          | false => rfl
          | true => exact absurd (List.any_eq_true.2 ⟨x, hx, hh⟩) hrec
        rw [mapM'_congr_map Glob.compItems pcItems pcomp comps
          (fun a ha => compItems_pc a (Or.inr (hss a ha)))] at hp
        have hseg : ∀ p ∈ comps.map pcomp, p ≠ PComp.starstar := by
          intro p hp'
          obtain ⟨x, hx, rfl⟩ := List.mem_map.1 hp'
          rw [pcomp_seg x (hss x hx)]; simp
        have hlit : LitOk (comps.map pcomp) := by
          intro toks htoks x hx
          obtain ⟨comp, hcomp, hpc⟩ := List.mem_map.1 htoks
          rw [pcomp_seg comp (hss comp hcomp)] at hpc
          cases hpc
          have hxc := tokenize_lit_mem comp 0 x hx
          intro e; subst e
          exact (hclean comp hcomp).2.2.2 hxc
        have htail : (if endsWithSlash pat = true then [Item.one Glob.slash, Item.endZ] else [Glob.optSlash, Item.endZ])
            = tailItems (endsWithSlash pat) := by unfold tailItems; rfl
        simp only [Regex.matches, flags_s, htail, List.cons_append, matchItems, atBol,
          beq_self_eq_true, Bool.true_or, Bool.true_and] at hm
        have hcount := count_slash cs (endsWithSlash pat) _ hseg hlit pieces hp none _ hm
        rw [countSlash_render path isDir (fun n hn => (hpath n hn).2), List.length_map] at hcount
        have hcl := foldl_step_length (fun c => decide (c ≠ [])) (by intro c; simp)
          (splitSlash pat) [] comps hres
        have hpb := pieces_bound (fun c => decide (c ≠ [])) (by simp) pat
        simp only [depth, List.length_nil, Nat.zero_add] at *
        rcases hcount with ⟨h1, h2⟩ | ⟨h1, h2⟩
        · have hd := endsWithSlash_render path isDir hpath h2
          subst hd
          simp only [if_true] at h1
          split at hpb <;> omega
        · split at h2 <;> split at hpb <;> omega

/-! ### the LRU cache -/

theorem mem_odSet {κ ν} [DecidableEq κ] (l : List (κ × ν)) (k : κ) (v : ν) :
    ∀ x ∈ LRU.odSet l k v, x ∈ l ∨ x = (k, v) := by
  induction l with
  | nil => intro x hx; simp [LRU.odSet] at hx; exact Or.inr hx
  | cons a l ih =>
    intro x hx
    obtain ⟨k', v'⟩ := a
    simp only [LRU.odSet] at hx
    split at hx
    · rcases List.mem_cons.1 hx with e | hx
      · exact Or.inr e
      · exact Or.inl (List.mem_cons_of_mem _ hx)
    · rcases List.mem_cons.1 hx with e | hx
      · exact Or.inl (e ▸ List.mem_cons_self)
      · rcases ih x hx with h | h
        · exact Or.inl (List.mem_cons_of_mem _ h)
        · exact Or.inr h

theorem lookup_mem {κ ν} [DecidableEq κ] (c : LRU.Cache κ ν) (k : κ) (v : ν)
    (h : LRU.lookup c k = some v) : (k, v) ∈ c.entries := by
  unfold LRU.lookup at h
  cases hf : c.entries.find? (·.1 = k) with
  | none => rw [hf] at h; cases h
  | some e =>
    rw [hf] at h
    simp only [Option.map_some, Option.some.injEq] at h
    have h1 := List.mem_of_find?_eq_some hf
    have h2 := List.find?_some hf
    simp only [decide_eq_true_eq] at h2
    obtain ⟨a, b⟩ := e
    simp only at h h2
    subst h; subst h2
    exact h1

theorem cache_transparent (cache : Glob.PatCache) (hv : Glob.PatCache.Valid cache) (pat path : Str) (cs : Bool) :
    (Glob.cachedMatch cache pat path cs).1 = Glob.gmatch pat path cs ∧
      Glob.PatCache.Valid (Glob.cachedMatch cache pat path cs).2 := by
  unfold Glob.cachedMatch LRU.get
  cases hl : LRU.lookup cache (pat, cs) with
  | some c =>
    have hmem := lookup_mem cache (pat, cs) c hl
    have hc := hv _ hmem
    simp only at hc
    simp only [Glob.gmatch, hc, TR.map]
    refine ⟨trivial, ?_⟩
    intro e he
    rcases mem_odSet _ _ _ e he with h | h
    · exact hv e ((List.filter_sublist).subset h)
    · subst h; exact hc
  | none =>
    simp only
    cases hc : Glob.compile pat cs with
    | err e => simp only [Glob.gmatch, hc, TR.map]; exact ⟨trivial, hv⟩
    | ok c =>
      simp only [Glob.gmatch, hc, TR.map]
      refine ⟨trivial, ?_⟩
      intro e he
      unfold LRU.set at he
      simp only at he
      rcases mem_odSet _ _ _ e he with h | h
      · split at h
        · exact hv e (List.mem_of_mem_tail h)
        · exact hv e h
      · subst h; exact hc

theorem empty_valid (n : Nat) : Glob.PatCache.Valid (LRU.empty n) := by
  intro e he; cases he

theorem globber_transparent (cache : Glob.PatCache) (hv : Glob.PatCache.Valid cache) (pat subject : Str) (cs : Bool) :
    (Glob.globberTest cache pat subject cs).1 = (Glob.compile pat cs).map (·.re.matches subject) ∧
      Glob.PatCache.Valid (Glob.globberTest cache pat subject cs).2 := by
  unfold Glob.globberTest Glob.globberCompile LRU.get
  cases hl : LRU.lookup cache (pat, cs) with
  | some c =>
    have hmem := lookup_mem cache (pat, cs) c hl
    have hc := hv _ hmem
    simp only at hc
    simp only [hc, TR.map]
    refine ⟨trivial, ?_⟩
    intro e he
    rcases mem_odSet _ _ _ e he with h | h
    · exact hv e ((List.filter_sublist).subset h)
    · subst h; exact hc
  | none => exact ⟨rfl, hv⟩

theorem wild_cache_transparent (cache : Wild.PatCache) (hv : Wild.PatCache.Valid cache) (pat name : Str) (cs : Bool) :
    (Wild.cachedMatch cache pat name cs).1 = Wild.wmatch pat name cs ∧
      Wild.PatCache.Valid (Wild.cachedMatch cache pat name cs).2 := by
  unfold Wild.cachedMatch LRU.get
  cases hl : LRU.lookup cache (pat, cs) with
  | some c =>
    have hmem := lookup_mem cache (pat, cs) c hl
    have hc := hv _ hmem
    simp only at hc
    simp only [Wild.wmatch, hc, TR.map]
    refine ⟨trivial, ?_⟩
    intro e he
    rcases mem_odSet _ _ _ e he with h | h
    · exact hv e ((List.filter_sublist).subset h)
    · subst h; exact hc
  | none =>
    simp only
    cases hc : Wild.compile pat cs with
    | err e => simp only [Wild.wmatch, hc, TR.map]; exact ⟨trivial, hv⟩
    | ok c =>
      simp only [Wild.wmatch, hc, TR.map]
      refine ⟨trivial, ?_⟩
      intro e he
      unfold LRU.set at he
      simp only at he
      rcases mem_odSet _ _ _ e he with h | h
      · split at h
        · exact hv e (List.mem_of_mem_tail h)
        · exact hv e h
      · subst h; exact hc

theorem op_transparent (st : Glob.Caches) (hv : st.Valid) (op : Glob.CacheOp) :
    (op.run st).1 = op.direct ∧ (op.run st).2.Valid := by
  cases op with
  | globMatch pat path cs =>
    have := cache_transparent st.glob hv.1 pat path cs
    exact ⟨this.1, this.2, hv.2⟩
  | globber pat subject cs =>
    have := globber_transparent st.glob hv.1 pat subject cs
    exact ⟨this.1, this.2, hv.2⟩
  | wildMatch pat name cs =>
    have := wild_cache_transparent st.wild hv.2 pat name cs
    exact ⟨this.1, hv.1, this.2⟩

theorem runAll_transparent (ops : List Glob.CacheOp) : ∀ st : Glob.Caches, st.Valid →
    (Glob.runAll st ops).1 = ops.map Glob.CacheOp.direct ∧ (Glob.runAll st ops).2.Valid := by
  induction ops with
  | nil => intro st hv; exact ⟨rfl, hv⟩
  | cons op ops ih =>
    intro st hv
    have h1 := op_transparent st hv op
    have h2 := ih (op.run st).2 h1.2
    simp only [Glob.runAll, List.map_cons]
    exact ⟨by rw [h1.1, h2.1], h2.2⟩

/-! ### the printer: the AST prints to the text the code builds -/

def rawText : Bool → Str → Str
  | _, [] => []
  | first, c :: rest => (Wild.rawChar first c).toPy ++ rawText false rest

theorem rawText_false (s : Str) : rawText false s = Wild.escBackslash s := by
  induction s with
  | nil => rfl
  | cons c s ih =>
    simp only [rawText, ih, Wild.escBackslash, List.flatMap_cons, Wild.rawChar, LChar.toPy]
    by_cases hc : c = '\\' <;> simp [hc]

theorem rawItems_print (body : Str) (first : Bool) :
    ∀ l, Wild.rawItems body first = .ok l → l.flatMap SetItem.toPy = rawText first body := by
  fun_induction Wild.rawItems body first with
  | case1 first => intro l h; cases h; rfl
  | case2 a b rest first hlt => intro l h; cases h
  | case3 a b rest first hlt l' hl ih =>
    intro l h; cases h
    simp only [List.flatMap_cons, SetItem.toPy, ih l' hl, rawText]
    simp [Wild.rawChar, LChar.toPy]
  | case4 a b rest first hlt e he ih => intro l h; cases h
  | case5 a rest first hne l' hl ih =>
    intro l h; cases h
    simp only [List.flatMap_cons, SetItem.toPy, ih l' hl, rawText]
  | case6 a rest first hne e he ih => intro l h; cases h

theorem escBackslash_cons (c : Char) (s : Str) :
    Wild.escBackslash (c :: s) = (if c = '\\' then ['\\', '\\'] else [c]) ++ Wild.escBackslash s := by
  simp [Wild.escBackslash]

theorem wild_classAtom_print (stuff : Str) (a : Atom) (h : Wild.classAtom stuff = .ok a) :
    a.toPy = Wild.classText ['^'] stuff := by
  cases stuff with
  | nil => simp [Wild.classAtom, Wild.rawItems, TR.map] at h; subst h; rfl
  | cons c r =>
    by_cases h1 : c = '!'
    · subst h1
      simp only [Wild.classAtom] at h
      cases hr : Wild.rawItems r false with
      | err e => rw [hr] at h; cases h
      | ok l =>
        rw [hr] at h; cases h
        simp [Atom.toPy, Wild.classText, escBackslash_cons, rawItems_print r false l hr, rawText_false]
    · have hca : Wild.classAtom (c :: r) = (Wild.rawItems (c :: r) true).map (Atom.set false) := by
        simp only [Wild.classAtom]
        split
        · rename_i heq; simp at heq; exact absurd heq.1 h1
        · rfl
      rw [hca] at h
      cases hr : Wild.rawItems (c :: r) true with
      | err e => rw [hr] at h; cases h
      | ok l =>
        rw [hr] at h; cases h
        simp only [Atom.toPy, Bool.false_eq_true, if_false, rawItems_print _ _ l hr,
          rawText, rawText_false, Wild.classText, escBackslash_cons]
        by_cases h2 : c = '^'
        · subst h2; simp [Wild.rawChar, LChar.toPy]
        · by_cases h3 : c = '\\'
          · subst h3; simp [Wild.rawChar, LChar.toPy]
          · simp [Wild.rawChar, LChar.toPy, h1, h2, h3]

theorem itemsToPy_cons (i : Item) (l : List Item) : itemsToPy (i :: l) = i.toPy ++ itemsToPy l := by
  simp [itemsToPy]

theorem wild_go_print (s : Str) : ∀ n items, Wild.go s n = .ok items → itemsToPy items = Wild.textGo s n := by
  induction s with
  | nil => intro n items h; simp [Wild.go] at h; subst h; simp [itemsToPy, Wild.textGo]
  | cons c cs ih =>
    intro n items h
    cases n with
    | succ n => simp only [Wild.go] at h; simp only [Wild.textGo]; exact ih n items h
    | zero =>
      simp only [Wild.go] at h
      simp only [Wild.textGo]
      have hcons : ∀ (i : Item) (k : Nat), Wild.cons i (Wild.go cs k) = .ok items →
          ∃ items', Wild.go cs k = .ok items' ∧ items = i :: items' := by
        intro i k hh
        cases hg : Wild.go cs k with
        | err e => rw [hg] at hh; cases hh
        | ok items' => rw [hg] at hh; cases hh; exact ⟨items', rfl, rfl⟩
      split at h
      · obtain ⟨items', hg, rfl⟩ := hcons _ _ h
        rename_i hc
        simp [hc, itemsToPy_cons, ih 0 items' hg, Item.toPy, Atom.toPy, Wild.notSlash, SetItem.toPy, LChar.toPy, lazyMark]
      · split at h
        · obtain ⟨items', hg, rfl⟩ := hcons _ _ h
          rename_i hc1 hc
          simp [hc, itemsToPy_cons, ih 0 items' hg, Item.toPy, Atom.toPy]
        · split at h
          · rename_i hc1 hc2 hc
            cases hs : Wild.scanClass cs with
            | none =>
              rw [hs] at h
              obtain ⟨items', hg, rfl⟩ := hcons _ _ h
              simp [hc, itemsToPy_cons, ih 0 items' hg, Item.toPy, Atom.toPy, LChar.toPy]
            | some p =>
              obtain ⟨stuff, rest⟩ := p
              rw [hs] at h
              simp only at h
              cases ha : Wild.classAtom stuff with
              | err e => rw [ha] at h; cases h
              | ok a =>
                rw [ha] at h
                obtain ⟨items', hg, rfl⟩ := hcons _ _ h
                simp [hc, itemsToPy_cons, ih _ items' hg, Item.toPy, wild_classAtom_print stuff a ha]
          · rename_i hc1 hc2 hc3
            obtain ⟨items', hg, rfl⟩ := hcons _ _ h
            simp [hc1, hc2, hc3, itemsToPy_cons, ih 0 items' hg, Item.toPy, Atom.toPy, Wild.reEscape]

theorem wild_print (pat : Str) (cs : Bool) (r : Regex) (h : Wild.compile pat cs = .ok r) :
    r.toPy = Wild.regexText pat cs := by
  unfold Wild.compile Wild.translate at h
  cases hg : Wild.go (if cs = true then pat else Wild.lowerStr pat) 0 with
  | err e => rw [hg] at h; cases h
  | ok items =>
    rw [hg] at h
    simp only [TR.map, TR.ok.injEq] at h
    subst h
    have := wild_go_print _ 0 items hg
    simp only [Regex.toPy, Wild.regexText, Wild.translateText, itemsToPy, List.flatMap_append] at this ⊢
    rw [this]
    simp [Item.toPy]


theorem itemsToPy_append (a b : List Item) : itemsToPy (a ++ b) = itemsToPy a ++ itemsToPy b := by
  simp [itemsToPy]

theorem glob_go_print (s : Str) : ∀ n items, Glob.go s n = .ok items →
    Glob.textGo s n = .ok (itemsToPy items) := by
  induction s with
  | nil => intro n items h; simp [Glob.go] at h; subst h; simp [itemsToPy, Glob.textGo]
  | cons c cs ih =>
    intro n items h
    cases n with
    | succ n => simp only [Glob.go] at h; simp only [Glob.textGo]; exact ih n items h
    | zero =>
      simp only [Glob.go] at h
      simp only [Glob.textGo]
      have hcons : ∀ (i : Item) (k : Nat), Wild.cons i (Glob.go cs k) = .ok items →
          ∃ items', Glob.go cs k = .ok items' ∧ items = i :: items' := by
        intro i k hh
        cases hg : Glob.go cs k with
        | err e => rw [hg] at hh; cases hh
        | ok items' => rw [hg] at hh; cases hh; exact ⟨items', rfl, rfl⟩
      split at h
      · rename_i hc
        split at h
        · cases h
        · rename_i hh
          obtain ⟨items', hg, rfl⟩ := hcons _ _ h
          simp [hc, hh, Glob.tappend, TR.map, itemsToPy_cons, ih 0 items' hg, Item.toPy, Atom.toPy, Wild.notSlash, SetItem.toPy, LChar.toPy, lazyMark]
      · split at h
        · obtain ⟨items', hg, rfl⟩ := hcons _ _ h
          rename_i hc1 hc
          simp [hc, Glob.tappend, TR.map, itemsToPy_cons, ih 0 items' hg, Item.toPy, Atom.toPy, Wild.notSlash, SetItem.toPy, LChar.toPy]
        · split at h
          · rename_i hc1 hc2 hc
            cases hs : Wild.scanClass cs with
            | none =>
              rw [hs] at h
              obtain ⟨items', hg, rfl⟩ := hcons _ _ h
              simp [hc, Glob.tappend, TR.map, itemsToPy_cons, ih 0 items' hg, Item.toPy, Atom.toPy, LChar.toPy]
            | some p =>
              obtain ⟨stuff, rest⟩ := p
              rw [hs] at h
              simp only at h
              cases ha : Wild.classAtom stuff with
              | err e => rw [ha] at h; cases h
              | ok a =>
                rw [ha] at h
                simp only [Glob.consL] at h
                cases hg : Glob.go cs (stuff.length + 1) with
                | err e => rw [hg] at h; cases h
                | ok items' =>
                  rw [hg] at h
                  simp only [TR.map, TR.ok.injEq] at h
                  subst h
                  simp only [Glob.tappend, TR.map, itemsToPy_cons, ih _ items' hg, Item.toPy,
                    List.cons_append, List.nil_append, wild_classAtom_print stuff a ha]
                  simp [hc, Atom.toPy, Glob.slash, LChar.toPy]
          · rename_i hc1 hc2 hc3
            obtain ⟨items', hg, rfl⟩ := hcons _ _ h
            simp [hc1, hc2, hc3, Glob.tappend, TR.map, itemsToPy_cons, ih 0 items' hg, Item.toPy, Atom.toPy, Wild.reEscape]

theorem mapM_translate_print (L : List Str) : ∀ ls, Glob.mapM' Glob.translate L = .ok ls →
    Glob.mapM' Glob.translateText L = .ok (ls.map itemsToPy) := by
  induction L with
  | nil => intro ls h; cases h; rfl
  | cons c L ih =>
    intro ls h
    rw [mapM'_cons] at h
    cases ht : Glob.translate c with
    | err e => rw [ht] at h; cases h
    | ok items =>
      rw [ht] at h
      cases hr : Glob.mapM' Glob.translate L with
      | err e => rw [hr] at h; cases h
      | ok ls' =>
        rw [hr] at h; cases h
        rw [mapM'_cons, Glob.translateText, glob_go_print c 0 items ht, ih ls' hr]
        rfl

theorem joinItems_print (sep : List Item) (ls : List (List Item)) :
    itemsToPy (Glob.joinItems sep ls) = Glob.joinStr (itemsToPy sep) (ls.map itemsToPy) := by
  induction ls with
  | nil => rfl
  | cons a ls ih =>
    cases ls with
    | nil => rfl
    | cons b rest =>
      simp only [Glob.joinItems, Glob.joinStr, List.map_cons, itemsToPy_append] at ih ⊢
      rw [ih]

theorem compItems_print (c : Str) (items : List Item) (h : Glob.compItems c = .ok items) :
    Glob.compText c = .ok (itemsToPy items) := by
  unfold Glob.compItems at h
  unfold Glob.compText
  split at h
  · rename_i hss
    simp only [hss, if_true]
    cases h
    rfl
  · rename_i hne
    simp only [hne, if_false]
    split at h
    · rename_i hss
      simp only [hss, if_true]
      cases hm : Glob.mapM' Glob.translate (Glob.splitSS c) with
      | err e => rw [hm] at h; cases h
      | ok ls =>
        rw [hm] at h
        simp only [TR.map, TR.ok.injEq] at h
        subst h
        rw [mapM_translate_print _ ls hm]
        simp only [TR.map, itemsToPy_cons, joinItems_print]
        rfl
    · rename_i hss
      simp only [hss]
      cases ht : Glob.translate c with
      | err e => rw [ht] at h; cases h
      | ok its =>
        rw [ht] at h
        simp only [Wild.cons, TR.map, TR.ok.injEq] at h
        subst h
        rw [Glob.translateText, glob_go_print c 0 its ht]
        rfl

theorem mapM_compItems_print (L : List Str) : ∀ ps, Glob.mapM' Glob.compItems L = .ok ps →
    Glob.mapM' Glob.compText L = .ok (ps.map itemsToPy) := by
  induction L with
  | nil => intro ls h; cases h; rfl
  | cons c L ih =>
    intro ps h
    rw [mapM'_cons] at h
    cases ht : Glob.compItems c with
    | err e => rw [ht] at h; cases h
    | ok items =>
      rw [ht] at h
      cases hr : Glob.mapM' Glob.compItems L with
      | err e => rw [hr] at h; cases h
      | ok ps' =>
        rw [hr] at h; cases h
        rw [mapM'_cons, compItems_print c items ht, ih ps' hr]
        rfl

theorem itemsToPy_flatten (ps : List (List Item)) : itemsToPy ps.flatten = (ps.map itemsToPy).flatten := by
  induction ps with
  | nil => rfl
  | cons a ps ih => simp [itemsToPy_append, ih]

theorem glob_print (pat : Str) (cs : Bool) (c : Glob.Compiled) (h : Glob.translateGlob pat cs = .ok c) :
    Glob.translateGlobText pat = .ok (c.levels, c.recursive, c.re.toPy) := by
  unfold Glob.translateGlob at h
  unfold Glob.translateGlobText
  cases hit : Glob.liftRes (iteratepath pat) with
  | err e => rw [hit] at h; cases h
  | ok comps =>
    rw [hit] at h
    simp only at h ⊢
    cases hp : Glob.mapM' Glob.compItems comps with
    | err e => rw [hp] at h; cases h
    | ok ps =>
      rw [hp] at h
      simp only [TR.ok.injEq] at h
      subst h
      rw [mapM_compItems_print comps ps hp]
      simp only [Regex.toPy, itemsToPy_cons, List.cons_append, itemsToPy_append, itemsToPy_flatten]
      by_cases he : endsWithSlash pat = true <;>
        simp [he, itemsToPy, Item.toPy, Atom.toPy, Glob.slash, Glob.optSlash, LChar.toPy, lazyMark]

end Fs.GlobLemmas
