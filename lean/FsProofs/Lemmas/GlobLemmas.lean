/-
  Helper lemmas for FsProofs/C14.lean: the flat regex matcher as "∃ split" statements, the
  token view of `wildcard._translate` / `glob._translate`, and the component-wise reading of a
  rendered path.
-/
import FsModel.Glob
import FsProofs.Lemmas.PathLemmas

namespace Fs.GlobLemmas
open Fs Fs.Regex Fs.Path Fs.WildSpec Fs.GlobSpec Fs.PathLemmas Fs.PathSpec

/-! ### the matcher -/

theorem starLoop_congr (ok : Char → Bool) (k k' : Option Char → Str → Bool)
    (h : ∀ p q s, k p s = k' q s) : ∀ p q s, starLoop ok k p s = starLoop ok k' q s := by
  intro p q s
  induction s generalizing p q with
  | nil => simp [starLoop, h p q]
  | cons c cs ih => simp [starLoop, h p q, ih (some c) (some c)]

/-- items other than `^` never look at the previous character -/
theorem matchItems_prev (f : Flags) (items : List Item) (h : Item.bol ∉ items) :
    ∀ p q s, matchItems f items p s = matchItems f items q s := by
  induction items with
  | nil => intro p q s; simp [matchItems]
  | cons it r ih =>
    have hr : Item.bol ∉ r := fun hm => h (List.mem_cons_of_mem _ hm)
    have ih' := ih hr
    intro p q s
    cases it with
    | one a => cases s <;> simp [matchItems]
    | star a l => simp only [matchItems]; exact starLoop_congr _ _ _ ih' p q s
    | plus a l => cases s <;> simp [matchItems]
    | opt a l => cases s <;> simp [matchItems, ih' p q]
    | bol => exact absurd (List.mem_cons_self) h
    | eol => simp [matchItems, ih' p q]
    | endZ => simp [matchItems, ih' p q]

theorem starLoop_iff (ok : Char → Bool) (k : Option Char → Str → Bool)
    (hk : ∀ p q s, k p s = k q s) (prev : Option Char) (s : Str) :
    starLoop ok k prev s = true ↔
      ∃ u t, s = u ++ t ∧ (∀ c ∈ u, ok c = true) ∧ k none t = true := by
  induction s generalizing prev with
  | nil =>
    simp only [starLoop]
    constructor
    · intro h; exact ⟨[], [], rfl, by simp, by rw [hk none prev]; exact h⟩
    · rintro ⟨u, t, hs, _, hkt⟩
      have : u = [] ∧ t = [] := by simpa using hs.symm
      rw [this.2] at hkt; rw [hk prev none]; exact hkt
  | cons c cs ih =>
    simp only [starLoop, Bool.or_eq_true, Bool.and_eq_true]
    constructor
    · rintro (h | ⟨hc, h⟩)
      · exact ⟨[], c :: cs, rfl, by simp, by rw [hk none prev]; exact h⟩
      · obtain ⟨u, t, hs, hu, hkt⟩ := (ih (some c)).1 h
        refine ⟨c :: u, t, by rw [hs]; rfl, ?_, hkt⟩
        intro x hx
        rcases List.mem_cons.1 hx with rfl | hx
        · exact hc
        · exact hu x hx
    · rintro ⟨u, t, hs, hu, hkt⟩
      cases u with
      | nil =>
        left; simp only [List.nil_append] at hs; rw [hs, hk prev none]; exact hkt
      | cons x u =>
        simp only [List.cons_append, List.cons.injEq] at hs
        obtain ⟨rfl, rfl⟩ := hs
        right
        exact ⟨hu _ List.mem_cons_self,
          (ih (some c)).2 ⟨u, t, rfl, fun y hy => hu y (List.mem_cons_of_mem _ hy), hkt⟩⟩

theorem starRun_iff (k : Str → Bool) (s : Str) :
    starRun k s = true ↔ ∃ u t, s = u ++ t ∧ k t = true := by
  induction s with
  | nil =>
    simp only [starRun]
    constructor
    · intro h; exact ⟨[], [], rfl, h⟩
    · rintro ⟨u, t, hs, hkt⟩
      have : u = [] ∧ t = [] := by simpa using hs.symm
      rw [this.2] at hkt; exact hkt
  | cons c cs ih =>
    simp only [starRun, Bool.or_eq_true]
    constructor
    · rintro (h | h)
      · exact ⟨[], c :: cs, rfl, h⟩
      · obtain ⟨u, t, hs, hkt⟩ := ih.1 h
        exact ⟨c :: u, t, by rw [hs]; rfl, hkt⟩
    · rintro ⟨u, t, hs, hkt⟩
      cases u with
      | nil => left; simp only [List.nil_append] at hs; rw [hs]; exact hkt
      | cons x u =>
        simp only [List.cons_append, List.cons.injEq] at hs
        right; exact ih.2 ⟨u, t, hs.2, hkt⟩

theorem ssRun_iff (k : List Str → Bool) (ns : List Str) :
    GlobSpec.ssRun k ns = true ↔ ∃ u t, ns = u ++ t ∧ k t = true := by
  induction ns with
  | nil =>
    simp only [GlobSpec.ssRun]
    constructor
    · intro h; exact ⟨[], [], rfl, h⟩
    · rintro ⟨u, t, hs, hkt⟩
      have : u = [] ∧ t = [] := by simpa using hs.symm
      rw [this.2] at hkt; exact hkt
  | cons c cs ih =>
    simp only [GlobSpec.ssRun, Bool.or_eq_true]
    constructor
    · rintro (h | h)
      · exact ⟨[], c :: cs, rfl, h⟩
      · obtain ⟨u, t, hs, hkt⟩ := ih.1 h
        exact ⟨c :: u, t, by rw [hs]; rfl, hkt⟩
    · rintro ⟨u, t, hs, hkt⟩
      cases u with
      | nil => left; simp only [List.nil_append] at hs; rw [hs]; exact hkt
      | cons x u =>
        simp only [List.cons_append, List.cons.injEq] at hs
        right; exact ih.2 ⟨u, t, hs.2, hkt⟩

/-! ### characters -/

theorem lower_aux : ∀ n, n < 91 → 65 ≤ n → Char.ofNat (n + 32) ≠ '/' := by decide
theorem upper_aux : ∀ n, n < 123 → 97 ≤ n → Char.ofNat (n - 32) ≠ '/' := by decide

theorem lower_eq_slash (c : Char) : lower c = '/' ↔ c = '/' := by
  unfold lower
  split
  · rename_i h
    have h1 : 65 ≤ c.toNat := h.1
    have h2 : c.toNat ≤ 90 := h.2
    constructor
    · intro e; exact absurd e (lower_aux c.toNat (by omega) h1)
    · intro e; subst e; exact absurd h1 (by decide)
  · rfl

theorem upper_eq_slash (c : Char) : upper c = '/' ↔ c = '/' := by
  unfold upper
  split
  · rename_i h
    have h1 : 97 ≤ c.toNat := h.1
    have h2 : c.toNat ≤ 122 := h.2
    constructor
    · intro e; exact absurd e (upper_aux c.toNat (by omega) h1)
    · intro e; subst e; exact absurd h1 (by decide)
  · rfl

/-- the flags of every regex the two modules compile: `(?ms)` plus IGNORECASE on request -/
def flagsOf (cs : Bool) : Flags := { dotall := true, multiline := true, ic := !cs }

theorem flags_ms (cs : Bool) (items : List Item) :
    ({ inline := ['m', 's'], ic := !cs, items := items } : Regex).flags = flagsOf cs := by
  cases cs <;> rfl

theorem setHas_nil (c : Char) : setHas [] c = false := rfl
theorem setHas_cons (x : SetItem) (l : List SetItem) (c : Char) :
    setHas (x :: l) c = (x.has c || setHas l c) := by simp [setHas]

theorem notSlash_ok (cs : Bool) (c : Char) : Wild.notSlash.ok (flagsOf cs) c = (c != '/') := by
  have hl := lower_eq_slash c
  have hu := upper_eq_slash c
  by_cases hc : c = '/'
  · subst hc; cases cs <;> decide
  · have h1 : lower c ≠ '/' := fun e => hc (hl.1 e)
    have h2 : upper c ≠ '/' := fun e => hc (hu.1 e)
    have e1 : ('/' == lower c) = false := beq_eq_false_iff_ne.2 (Ne.symm h1)
    have e2 : ('/' == upper c) = false := beq_eq_false_iff_ne.2 (Ne.symm h2)
    have e3 : ('/' == c) = false := beq_eq_false_iff_ne.2 (Ne.symm hc)
    have e4 : (c != '/') = true := by simp [hc]
    cases cs <;>
      simp [Wild.notSlash, Atom.ok, flagsOf, setHas_cons, setHas_nil, SetItem.has, e1, e2, e3, e4]

/-! ### bracket expressions -/

theorem rawItems_has (body : Str) (first : Bool) :
    ∀ l, Wild.rawItems body first = .ok l → ∀ c, setHas l c = inBody body c := by
  fun_induction Wild.rawItems body first with
  | case1 first => intro l h c; cases h; simp [setHas, inBody]
  | case2 a b rest first hlt => intro l h; cases h
  | case3 a b rest first hlt l' hl ih =>
    intro l h c
    cases h
    rw [setHas_cons, ih l' hl c]
    simp only [inBody, SetItem.has, Wild.rawChar]
    rfl
  | case4 a b rest first hlt e he ih => intro l h; cases h
  | case5 a rest first hne l' hl ih =>
    intro l h c
    cases h
    rw [setHas_cons, ih l' hl c]
    rw [inBody]
    · simp [SetItem.has, Wild.rawChar]
    · exact hne
  | case6 a rest first hne e he ih => intro l h; cases h

theorem findClose_lt (r : Str) (j : Nat) (h : findClose r = some j) : j < r.length := by
  induction r generalizing j with
  | nil => simp [findClose] at h
  | cons c r ih =>
    simp only [findClose] at h
    split at h
    · cases h; simp
    · cases hf : findClose r with
      | none => simp [hf] at h
      | some j' =>
        simp [hf] at h; subst h
        have := ih j' hf
        simp; omega

theorem closeIdx_lt (r : Str) (k : Nat) (h : closeIdx r = some k) : k < r.length := by
  cases r with
  | nil => simp [closeIdx] at h
  | cons c r =>
    simp only [closeIdx] at h
    cases hf : findClose r with
    | none => simp [hf] at h
    | some j =>
      simp [hf] at h; subst h
      have := findClose_lt r j hf
      simp; omega

theorem untilClose_eq (r : Str) :
    Wild.untilClose r = (findClose r).map fun j => (r.take j, r.drop (j + 1)) := by
  induction r with
  | nil => rfl
  | cons c r ih =>
    simp only [Wild.untilClose, findClose]
    split
    · simp
    · rw [ih]; cases findClose r <;> simp

/-- the bracket scan of the code finds what the documented syntax describes:
`[!body]` / `[body]`, where the first character of the body never closes the bracket -/
theorem scanClass_neg (r : Str) :
    Wild.scanClass ('!' :: r) = (closeIdx r).map fun k => ('!' :: r.take k, r.drop (k + 1)) := by
  cases r with
  | nil => rfl
  | cons c r =>
    by_cases hc : c = ']'
    · subst hc
      simp only [Wild.scanClass, closeIdx, untilClose_eq]
      cases findClose r <;> simp
    · have : Wild.scanClass ('!' :: c :: r) =
          match Wild.untilClose (c :: r) with
          | none => none
          | some (a, b) => some ('!' :: a, b) := by
        simp only [Wild.scanClass]
        split <;> simp_all
      rw [this, untilClose_eq]
      simp only [findClose, closeIdx, hc, if_false]
      cases findClose r <;> simp

theorem scanClass_pos (r : Str) (h : r.head? ≠ some '!') :
    Wild.scanClass r = (closeIdx r).map fun k => (r.take k, r.drop (k + 1)) := by
  cases r with
  | nil => rfl
  | cons c r =>
    have hb : c ≠ '!' := by simpa using h
    by_cases hc : c = ']'
    · subst hc
      simp only [Wild.scanClass, closeIdx, untilClose_eq]
      cases hf : findClose r <;> simp [hf]
    · have : Wild.scanClass (c :: r) =
          match Wild.untilClose (c :: r) with
          | none => none
          | some (a, b) => some (a, b) := by
        simp only [Wild.scanClass]
        split <;> simp_all
      rw [this, untilClose_eq]
      simp only [findClose, closeIdx, hc, if_false]
      cases findClose r <;> simp

/-! ### the token view of `wildcard._translate` -/

/-- the regex item `wildcard._translate` emits for one token of the pattern -/
def wildItem : Tok → TR Item
  | .star => .ok (.star Wild.notSlash false)
  | .any => .ok (.one .any)
  | .lit c => .ok (.one (.chr (LChar.lit c)))
  | .cls neg body => (Wild.rawItems body (!neg)).map fun l => .one (.set neg l)

theorem mapM'_cons {α β} (f : α → TR β) (a : α) (as : List α) :
    Glob.mapM' f (a :: as) = (match f a with | .err e => .err e | .ok b => (Glob.mapM' f as).map (b :: ·)) := rfl

theorem take_length_of_lt (r : Str) (k : Nat) (h : k < r.length) : (r.take k).length = k := by
  simp [List.length_take]; omega

theorem wild_go_eq (cs : Str) : ∀ n, Wild.go cs n = Glob.mapM' wildItem (tokenize cs n) := by
  induction cs with
  | nil => intro n; simp [Wild.go, tokenize, Glob.mapM']
  | cons c cs ih =>
    intro n
    cases n with
    | succ n => simp only [Wild.go, tokenize]; exact ih n
    | zero =>
      simp only [Wild.go, tokenize]
      split
      · simp only [mapM'_cons, wildItem, Wild.cons, ih]
      · split
        · simp only [mapM'_cons, wildItem, Wild.cons, ih]
        · split
          · -- bracket
            cases cs with
            | nil => simp [Wild.scanClass, Wild.untilClose, closeIdx, mapM'_cons, wildItem, Wild.cons, Wild.go, tokenize, Glob.mapM', LChar.lit, isSpecial]
            | cons d r =>
              by_cases hd : d = '!'
              · subst hd
                rw [scanClass_neg]
                simp only [List.head?_cons, beq_self_eq_true, if_true, List.tail_cons]
                cases hk : closeIdx r with
                | none => simp [mapM'_cons, wildItem, Wild.cons, ih, LChar.lit, isSpecial]
                | some k =>
                  have hlen := take_length_of_lt r k (closeIdx_lt r k hk)
                  simp only [Option.map_some, Wild.classAtom, List.length_cons, hlen, mapM'_cons, wildItem, Bool.not_true]
                  cases Wild.rawItems (List.take k r) false with
                  | err e => rfl
                  | ok l => simp only [TR.map, Wild.cons, ih]
              · have hh : (d :: r).head? ≠ some '!' := by simpa using hd
                rw [scanClass_pos _ hh]
                have hn : ((d :: r).head? == some '!') = false := by simp [hd]
                simp only [hn, Bool.false_eq_true, if_false]
                cases hk : closeIdx (d :: r) with
                | none => simp [mapM'_cons, wildItem, Wild.cons, ih, LChar.lit, isSpecial]
                | some k =>
                  have hlen := take_length_of_lt (d :: r) k (closeIdx_lt _ k hk)
                  have hk1 : ∃ k', k = k' + 1 := by
                    simp only [closeIdx] at hk
                    cases hf : findClose r with
                    | none => simp [hf] at hk
                    | some j => simp [hf] at hk; exact ⟨j, hk.symm⟩
                  obtain ⟨k', rfl⟩ := hk1
                  have hne : ∀ t, List.take (k' + 1) (d :: r) ≠ '!' :: t := by
                    intro t; simp [hd]
                  simp only [Option.map_some, hlen, mapM'_cons, wildItem, Bool.not_false]
                  have hca : Wild.classAtom (List.take (k' + 1) (d :: r)) =
                      (Wild.rawItems (List.take (k' + 1) (d :: r)) true).map (Atom.set false) := by
                    simp only [List.take_succ_cons, Wild.classAtom]
                    split
                    · rename_i heq; simp at heq; exact absurd heq.1 hd
                    · rfl
                  rw [hca]
                  cases Wild.rawItems (List.take (k' + 1) (d :: r)) true with
                  | err e => rfl
                  | ok l => simp only [TR.map, Wild.cons, ih]
          · simp only [mapM'_cons, wildItem, Wild.cons, ih]

theorem wildItem_ok (cs : Bool) (t : Tok) (ht : t ≠ .star) (it : Item) (h : wildItem t = .ok it) :
    ∃ a, it = .one a ∧ ∀ c, a.ok (flagsOf cs) c = tokOk cs t c := by
  cases t with
  | star => exact absurd rfl ht
  | any => cases h; exact ⟨_, rfl, fun c => by simp [Atom.ok, flagsOf, tokOk]⟩
  | lit x =>
    cases h
    refine ⟨_, rfl, fun c => ?_⟩
    cases cs <;> simp [Atom.ok, flagsOf, tokOk, fold, LChar.lit]
  | cls neg body =>
    simp only [wildItem] at h
    cases hr : Wild.rawItems body (!neg) with
    | err e => rw [hr] at h; cases h
    | ok l =>
      rw [hr] at h; cases h
      refine ⟨_, rfl, fun c => ?_⟩
      have hh := rawItems_has body (!neg) l hr
      cases cs <;> simp [Atom.ok, flagsOf, tokOk, inBodyCI, hh]

theorem rawItems_err (body : Str) (first : Bool) :
    ∀ e, Wild.rawItems body first = .err e → e = .reError := by
  fun_induction Wild.rawItems body first with
  | case1 first => intro e h; cases h
  | case2 a b rest first hlt => intro e h; cases h; rfl
  | case3 a b rest first hlt l' hl ih => intro e h; cases h
  | case4 a b rest first hlt e' he ih => intro e h; cases h; exact ih e' he
  | case5 a rest first hne l' hl ih => intro e h; cases h
  | case6 a rest first hne e' he ih => intro e h; cases h; exact ih e' he

/-- the only way `wildcard._translate`'s output fails to compile is a reversed range -/
theorem mapM_wildItem_err (toks : List Tok) :
    ∀ e, Glob.mapM' wildItem toks = .err e → e = .reError := by
  induction toks with
  | nil => intro e h; cases h
  | cons t toks ih =>
    intro e h
    rw [mapM'_cons] at h
    cases hit : wildItem t with
    | err e' =>
      rw [hit] at h; cases h
      cases t with
      | star => cases hit
      | any => cases hit
      | lit x => cases hit
      | cls neg body =>
        simp only [wildItem] at hit
        cases hr : Wild.rawItems body (!neg) with
        | ok l => rw [hr] at hit; cases hit
        | err e'' => rw [hr] at hit; cases hit; exact rawItems_err _ _ _ hr
    | ok it =>
      rw [hit] at h
      cases hr : Glob.mapM' wildItem toks with
      | err e' => rw [hr] at h; cases h; exact ih _ hr
      | ok items => rw [hr] at h; cases h

theorem starLoop_eq_starRun (ok : Char → Bool) (k : Option Char → Str → Bool) (k' : Str → Bool)
    (s : Str) (hok : ∀ c ∈ s, ok c = true)
    (hk : ∀ p t, (∀ c ∈ t, c ∈ s) → k p t = k' t) :
    ∀ prev, starLoop ok k prev s = starRun k' s := by
  induction s with
  | nil => intro prev; simp [starLoop, starRun, hk]
  | cons c cs ih =>
    intro prev
    simp only [starLoop, starRun]
    rw [hk prev (c :: cs) (fun _ h => h), hok c List.mem_cons_self, Bool.true_and]
    rw [ih (fun x hx => hok x (List.mem_cons_of_mem _ hx))
      (fun p t ht => hk p t (fun x hx => List.mem_cons_of_mem _ (ht x hx)))]

theorem wild_tokens_match (cs : Bool) (toks : List Tok) :
    ∀ items, Glob.mapM' wildItem toks = .ok items → ∀ prev s, '/' ∉ s →
      matchItems (flagsOf cs) (items ++ [.endZ]) prev s = tokMatch cs toks s := by
  induction toks with
  | nil =>
    intro items h prev s _
    cases h
    simp [matchItems, tokMatch]
  | cons t toks ih =>
    intro items h prev s hs
    rw [mapM'_cons] at h
    cases hit : wildItem t with
    | err e => rw [hit] at h; cases h
    | ok it =>
      rw [hit] at h
      cases hr : Glob.mapM' wildItem toks with
      | err e => rw [hr] at h; cases h
      | ok items' =>
        rw [hr] at h; cases h
        by_cases ht : t = .star
        · subst ht
          cases hit
          simp only [List.cons_append, matchItems, tokMatch]
          apply starLoop_eq_starRun
          · intro c hc
            rw [notSlash_ok]
            have : c ≠ '/' := fun e => hs (e ▸ hc)
            simp [this]
          · intro p t ht
            exact ih items' hr p t (fun hm => hs (ht _ hm))
        · obtain ⟨a, rfl, hok⟩ := wildItem_ok cs t ht it hit
          cases s with
          | nil => cases t <;> simp_all [matchItems, tokMatch]
          | cons c s' =>
            have hs' : '/' ∉ s' := fun hm => hs (List.mem_cons_of_mem _ hm)
            have := ih items' hr (some c) s' hs'
            cases t <;> simp_all [matchItems, tokMatch]

/-! ### the token view of `glob._translate` -/

/-- the regex item `glob._translate` emits for one token of a component -/
def globItem : Tok → TR Item
  | .star => .ok (.star Wild.notSlash false)
  | .any => .ok (.one Wild.notSlash)
  | .lit c => .ok (.one (.chr (LChar.lit c)))
  | .cls true body =>
    if body.head? = some ']' then .err .outside
    else (Wild.rawItems ('/' :: body) false).map fun l => .one (.set true l)
  | .cls false body => (Wild.rawItems body true).map fun l => .one (.set false l)

theorem hasSS_tail (c : Char) (cs : Str) (h : Glob.hasSS (c :: cs) = false) : Glob.hasSS cs = false := by
  cases cs with
  | nil => rfl
  | cons d r =>
    by_cases h1 : c = '*' ∧ d = '*'
    · obtain ⟨rfl, rfl⟩ := h1
      have : Glob.hasSS ('*' :: '*' :: r) = true := by rw [Glob.hasSS]
      rw [this] at h; cases h
    · rw [Glob.hasSS] at h
      · exact h
      · intro r' hc he; simp at he; exact h1 ⟨hc, he.1⟩

theorem hasSS_head (cs : Str) (h : Glob.hasSS ('*' :: cs) = false) : cs.head? ≠ some '*' := by
  cases cs with
  | nil => simp
  | cons d r =>
    intro hd
    simp at hd; subst hd
    have : Glob.hasSS ('*' :: '*' :: r) = true := by rw [Glob.hasSS]
    rw [this] at h; cases h

theorem glob_go_eq (cs : Str) : ∀ n, Glob.hasSS cs = false →
    Glob.go cs n = Glob.mapM' globItem (tokenize cs n) := by
  induction cs with
  | nil => intro n _; simp [Glob.go, tokenize, Glob.mapM']
  | cons c cs ih =>
    intro n hss
    have hss' := hasSS_tail c cs hss
    cases n with
    | succ n => simp only [Glob.go, tokenize]; exact ih n hss'
    | zero =>
      simp only [Glob.go, tokenize]
      split
      · rename_i hc; subst hc
        have := hasSS_head cs hss
        simp only [this, if_false, mapM'_cons, globItem, Wild.cons, ih _ hss']
      · split
        · simp only [mapM'_cons, globItem, Wild.cons, ih _ hss']
        · split
          · -- bracket
            cases cs with
            | nil => simp [Wild.scanClass, Wild.untilClose, closeIdx, mapM'_cons, globItem, Wild.cons, Glob.go, tokenize, Glob.mapM', LChar.lit, isSpecial]
            | cons d r =>
              by_cases hd : d = '!'
              · subst hd
                rw [scanClass_neg]
                simp only [List.head?_cons, beq_self_eq_true, if_true, List.tail_cons]
                cases hk : closeIdx r with
                | none => simp [mapM'_cons, globItem, Wild.cons, ih _ hss', LChar.lit, isSpecial]
                | some k =>
                  have hlen := take_length_of_lt r k (closeIdx_lt r k hk)
                  simp only [Option.map_some, List.length_cons, hlen, mapM'_cons, globItem]
                  simp only [Glob.classAtom]
                  by_cases hh : (List.take k r).head? = some ']'
                  · simp only [hh, if_true]
                  · simp only [hh, if_false]
                    cases Wild.rawItems ('/' :: List.take k r) false with
                    | err e => rfl
                    | ok l => simp only [TR.map, Wild.cons, ih _ hss']
              · have hh : (d :: r).head? ≠ some '!' := by simpa using hd
                rw [scanClass_pos _ hh]
                have hn : ((d :: r).head? == some '!') = false := by simp [hd]
                simp only [hn, Bool.false_eq_true, if_false]
                cases hk : closeIdx (d :: r) with
                | none => simp [mapM'_cons, globItem, Wild.cons, ih _ hss', LChar.lit, isSpecial]
                | some k =>
                  have hlen := take_length_of_lt (d :: r) k (closeIdx_lt _ k hk)
                  have hk1 : ∃ k', k = k' + 1 := by
                    simp only [closeIdx] at hk
                    cases hf : findClose r with
                    | none => simp [hf] at hk
                    | some j => simp [hf] at hk; exact ⟨j, hk.symm⟩
                  obtain ⟨k', rfl⟩ := hk1
                  simp only [Option.map_some, hlen, mapM'_cons, globItem]
                  have hca : Glob.classAtom (List.take (k' + 1) (d :: r)) =
                      (Wild.rawItems (List.take (k' + 1) (d :: r)) true).map (Atom.set false) := by
                    simp only [List.take_succ_cons, Glob.classAtom]
                    split
                    · rename_i heq; simp at heq; exact absurd heq.1 hd
                    · rfl
                  rw [hca]
                  cases Wild.rawItems (List.take (k' + 1) (d :: r)) true with
                  | err e => rfl
                  | ok l => simp only [TR.map, Wild.cons, ih _ hss']
          · simp only [mapM'_cons, globItem, Wild.cons, ih _ hss']

theorem rawItems_slash_cons (body : Str) (h : (body.head? == some '-' && decide (2 ≤ body.length)) = false) :
    Wild.rawItems ('/' :: body) false =
      (Wild.rawItems body false).map (SetItem.ch (Wild.rawChar false '/') :: ·) := by
  rw [Wild.rawItems]
  · cases Wild.rawItems body false <;> rfl
  · intro b rest he
    subst he
    simp at h

theorem inBody_slash_cons (body : Str) (h : (body.head? == some '-' && decide (2 ≤ body.length)) = false)
    (c : Char) : inBody ('/' :: body) c = ('/' == c || inBody body c) := by
  rw [inBody]
  intro b rest he
  subst he
  simp at h

theorem lower_slash : lower '/' = '/' := by decide
theorem upper_slash : upper '/' = '/' := by decide

theorem globItem_ok (cs : Bool) (t : Tok) (ht : t ≠ .star) (hg : goodTok t = true) (it : Item)
    (h : globItem t = .ok it) :
    ∃ a, it = .one a ∧ (∀ c, c ≠ '/' → a.ok (flagsOf cs) c = tokOk cs t c) ∧
      a.ok (flagsOf cs) '/' = false := by
  cases t with
  | star => exact absurd rfl ht
  | any =>
    cases h
    refine ⟨_, rfl, fun c hc => ?_, ?_⟩
    · rw [notSlash_ok]; simp [tokOk, hc]
    · rw [notSlash_ok]; rfl
  | lit x =>
    cases h
    have hx : x ≠ '/' := by simpa [goodTok] using hg
    refine ⟨_, rfl, fun c _ => ?_, ?_⟩
    · cases cs <;> simp [Atom.ok, flagsOf, tokOk, fold, LChar.lit]
    · have h1 : lower x ≠ '/' := fun e => hx ((lower_eq_slash x).1 e)
      cases cs <;> simp [Atom.ok, flagsOf, LChar.lit, lower_slash, hx, h1]
  | cls neg body =>
    cases neg with
    | false =>
      simp only [globItem] at h
      cases hr : Wild.rawItems body true with
      | err e => rw [hr] at h; cases h
      | ok l =>
        rw [hr] at h; cases h
        have hh := rawItems_has body true l hr
        have hb : inBody body '/' = false := by simpa [goodTok] using hg
        refine ⟨_, rfl, fun c _ => ?_, ?_⟩
        · cases cs <;> simp [Atom.ok, flagsOf, tokOk, inBodyCI, hh]
        · cases cs <;> simp [Atom.ok, flagsOf, hh, lower_slash, upper_slash, hb]
    | true =>
      simp only [goodTok, Bool.and_eq_true, Bool.not_eq_true'] at hg
      obtain ⟨hg1, hg2⟩ := hg
      have hg1' : ¬ body.head? = some ']' := by simpa using hg1
      simp only [globItem, hg1', if_false] at h
      rw [rawItems_slash_cons body hg2] at h
      cases hr : Wild.rawItems body false with
      | err e => rw [hr] at h; cases h
      | ok l =>
        rw [hr] at h; cases h
        have hh := rawItems_has body false l hr
        refine ⟨_, rfl, fun c hc => ?_, ?_⟩
        · have h1 : lower c ≠ '/' := fun e => hc ((lower_eq_slash c).1 e)
          have h2 : upper c ≠ '/' := fun e => hc ((upper_eq_slash c).1 e)
          have e1 : ('/' == lower c) = false := beq_eq_false_iff_ne.2 (Ne.symm h1)
          have e2 : ('/' == upper c) = false := beq_eq_false_iff_ne.2 (Ne.symm h2)
          have e3 : ('/' == c) = false := beq_eq_false_iff_ne.2 (Ne.symm hc)
          cases cs <;>
            simp [Atom.ok, flagsOf, tokOk, inBodyCI, hh, setHas_cons, SetItem.has, Wild.rawChar, e1, e2, e3]
        · cases cs <;>
            simp [Atom.ok, flagsOf, setHas_cons, SetItem.has, Wild.rawChar, lower_slash, upper_slash]

theorem globItem_ne_bol (t : Tok) (it : Item) (h : globItem t = .ok it) : it ≠ .bol := by
  cases t with
  | star => cases h; simp
  | any => cases h; simp
  | lit x => cases h; simp
  | cls neg body =>
    cases neg with
    | false =>
      simp only [globItem] at h
      cases hr : Wild.rawItems body true <;> rw [hr] at h <;> cases h
      simp
    | true =>
      simp only [globItem] at h
      split at h
      · cases h
      · cases hr : Wild.rawItems ('/' :: body) false <;> rw [hr] at h <;> cases h
        simp

theorem mapM_globItem_no_bol (toks : List Tok) :
    ∀ items, Glob.mapM' globItem toks = .ok items → Item.bol ∉ items := by
  induction toks with
  | nil => intro items h; cases h; simp
  | cons t toks ih =>
    intro items h
    rw [mapM'_cons] at h
    cases hit : globItem t with
    | err e => rw [hit] at h; cases h
    | ok it =>
      rw [hit] at h
      cases hr : Glob.mapM' globItem toks with
      | err e => rw [hr] at h; cases h
      | ok items' =>
        rw [hr] at h; cases h
        intro hm
        rcases List.mem_cons.1 hm with e | hm
        · exact globItem_ne_bol t it hit e.symm
        · exact ih items' hr hm

theorem not_mem_append {a b : Str} {c : Char} (ha : c ∉ a) (hb : c ∉ b) : c ∉ a ++ b := by
  intro h; rcases List.mem_append.1 h with h | h
  · exact ha h
  · exact hb h

theorem seg_split (cs : Bool) (toks : List Tok) (hg : ∀ t ∈ toks, goodTok t = true) :
    ∀ items, Glob.mapM' globItem toks = .ok items → ∀ (K : List Item), Item.bol ∉ K →
    ∀ prev s, matchItems (flagsOf cs) (items ++ K) prev s = true ↔
      ∃ n rest, s = n ++ rest ∧ '/' ∉ n ∧ tokMatch cs toks n = true ∧
        matchItems (flagsOf cs) K none rest = true := by
  induction toks with
  | nil =>
    intro items h K hK prev s
    cases h
    simp only [List.nil_append, tokMatch]
    constructor
    · intro hm
      exact ⟨[], s, rfl, by simp, by simp, by rw [matchItems_prev _ K hK none prev]; exact hm⟩
    · rintro ⟨n, rest, rfl, _, hn, hm⟩
      have : n = [] := by simpa using hn
      subst this
      rw [matchItems_prev _ K hK prev none]; exact hm
  | cons t toks ih =>
    intro items h K hK prev s
    rw [mapM'_cons] at h
    cases hit : globItem t with
    | err e => rw [hit] at h; cases h
    | ok it =>
      rw [hit] at h
      cases hr : Glob.mapM' globItem toks with
      | err e => rw [hr] at h; cases h
      | ok items' =>
        rw [hr] at h; cases h
        have hg' : ∀ t ∈ toks, goodTok t = true := fun x hx => hg x (List.mem_cons_of_mem _ hx)
        have ih' := ih hg' items' hr K hK
        have hnb : Item.bol ∉ items' ++ K := by
          intro hm; rcases List.mem_append.1 hm with hm | hm
          · exact mapM_globItem_no_bol toks items' hr hm
          · exact hK hm
        by_cases ht : t = .star
        · subst ht
          cases hit
          simp only [List.cons_append, matchItems]
          rw [starLoop_iff _ _ (matchItems_prev _ _ hnb)]
          constructor
          · rintro ⟨u, t, rfl, hu, hm⟩
            obtain ⟨n', rest, rfl, hn', htm, hk⟩ := (ih' none t).1 hm
            refine ⟨u ++ n', rest, by simp, ?_, ?_, hk⟩
            · apply not_mem_append _ hn'
              intro hmem
              have := hu _ hmem
              rw [notSlash_ok] at this; simp at this
            · simp only [tokMatch]
              exact (starRun_iff _ _).2 ⟨u, n', rfl, htm⟩
          · rintro ⟨n, rest, rfl, hn, htm, hk⟩
            simp only [tokMatch] at htm
            obtain ⟨u, n', rfl, htm'⟩ := (starRun_iff _ _).1 htm
            refine ⟨u, n' ++ rest, by simp, ?_, ?_⟩
            · intro c hc
              rw [notSlash_ok]
              have : c ≠ '/' := fun e => hn (e ▸ List.mem_append_left _ hc)
              simp [this]
            · exact (ih' none _).2 ⟨n', rest, rfl, fun hm => hn (List.mem_append_right _ hm), htm', hk⟩
        · obtain ⟨a, rfl, hok, hrej⟩ := globItem_ok cs t ht (hg t List.mem_cons_self) it hit
          have htm : ∀ c n', tokMatch cs (t :: toks) (c :: n') = (tokOk cs t c && tokMatch cs toks n') := by
            intro c n'; cases t <;> simp_all [tokMatch]
          have htn : tokMatch cs (t :: toks) [] = false := by
            cases t <;> simp_all [tokMatch]
          cases s with
          | nil =>
            simp only [List.cons_append, matchItems]
            constructor
            · intro h; cases h
            · rintro ⟨n, rest, hs, _, hn, _⟩
              have : n = [] := by
                cases n with
                | nil => rfl
                | cons x n => simp at hs
              subst this; rw [htn] at hn; cases hn
          | cons c s' =>
            simp only [List.cons_append, matchItems, Bool.and_eq_true]
            constructor
            · rintro ⟨hc, hm⟩
              have hcs : c ≠ '/' := by intro e; subst e; rw [hrej] at hc; cases hc
              obtain ⟨n', rest, rfl, hn', htm', hk⟩ := (ih' (some c) s').1 hm
              refine ⟨c :: n', rest, rfl, ?_, ?_, hk⟩
              · intro hmem
                rcases List.mem_cons.1 hmem with e | hmem
                · exact hcs e.symm
                · exact hn' hmem
              · rw [htm, ← hok c hcs, hc, htm']; rfl
            · rintro ⟨n, rest, hs, hn, hn2, hk⟩
              cases n with
              | nil => rw [htn] at hn2; cases hn2
              | cons x n' =>
                simp only [List.cons_append, List.cons.injEq] at hs
                obtain ⟨rfl, rfl⟩ := hs
                have hcs : c ≠ '/' := fun e => hn (e ▸ List.mem_cons_self)
                rw [htm, Bool.and_eq_true] at hn2
                refine ⟨by rw [hok c hcs]; exact hn2.1, ?_⟩
                exact (ih' (some c) _).2 ⟨n', rest, rfl, fun hm => hn (List.mem_cons_of_mem _ hm), hn2.2, hk⟩

/-! ### rendered paths -/

theorem render_nil (d : Bool) : render [] d = if d then ['/'] else [] := by simp [render]

theorem render_cons (n : Str) (ns : List Str) (d : Bool) :
    render (n :: ns) d = '/' :: (n ++ render ns d) := by simp [render]

theorem render_append (us ts : List Str) (d : Bool) :
    render (us ++ ts) d = render us false ++ render ts d := by
  induction us with
  | nil => simp [render]
  | cons u us ih => rw [List.cons_append, render_cons, render_cons, ih]; simp

theorem render_head (ns : List Str) (d : Bool) (x : Char) (t : Str) (h : render ns d = x :: t) :
    x = '/' := by
  cases ns with
  | nil => rw [render_nil] at h; cases d <;> simp at h; exact h.1.symm
  | cons n ns => rw [render_cons] at h; simp at h; exact h.1.symm

theorem render_no_nl (ns : List Str) (d : Bool) (h : ∀ n ∈ ns, GoodName n) : '\n' ∉ render ns d := by
  induction ns with
  | nil => rw [render_nil]; cases d <;> simp
  | cons n ns ih =>
    rw [render_cons]
    intro hm
    rcases List.mem_cons.1 hm with e | hm
    · cases e
    · rcases List.mem_append.1 hm with hm | hm
      · exact (h n List.mem_cons_self).2.2 hm
      · exact ih (fun x hx => h x (List.mem_cons_of_mem _ hx)) hm

theorem slash_ok (cs : Bool) (c : Char) : Glob.slash.ok (flagsOf cs) c = true ↔ c = '/' := by
  cases cs
  · simp only [Glob.slash, Atom.ok, flagsOf, Bool.not_false, if_true, lower_slash, beq_iff_eq]
    constructor
    · intro h; exact (lower_eq_slash c).1 h.symm
    · intro h; subst h; exact lower_slash.symm
  · simp only [Glob.slash, Atom.ok, flagsOf, Bool.not_true, Bool.false_eq_true, if_false, beq_iff_eq]
    exact eq_comm

def tailItems (ends : Bool) : List Item := if ends then [.one Glob.slash, .eol] else [.eol]

def segsItems (l : List (List Item)) : List Item := (l.map (Item.one Glob.slash :: ·)).flatten

theorem segsItems_cons (a : List Item) (l : List (List Item)) :
    segsItems (a :: l) = Item.one Glob.slash :: (a ++ segsItems l) := by simp [segsItems]

theorem atEol_cons (cs : Bool) (x : Char) (t : Str) (hx : x ≠ '\n') : atEol (flagsOf cs) (x :: t) = false := by
  simp [atEol, flagsOf, hx]

/-- what follows a component cannot start in the middle of a name -/
theorem khead (cs ends : Bool) (l : List (List Item)) (prev : Option Char) (x : Char) (t : Str)
    (h1 : x ≠ '/') (h2 : x ≠ '\n') :
    matchItems (flagsOf cs) (segsItems l ++ tailItems ends) prev (x :: t) = false := by
  have hs : Glob.slash.ok (flagsOf cs) x = false := by
    cases h : Glob.slash.ok (flagsOf cs) x
    · rfl
    · exact absurd ((slash_ok cs x).1 h) h1
  cases l with
  | cons a l => rw [segsItems_cons]; simp [matchItems, hs]
  | nil =>
    cases ends
    · simp [segsItems, tailItems, matchItems, atEol_cons cs x t h2]
    · simp [segsItems, tailItems, matchItems, hs]

theorem knil_of_dir (cs : Bool) (l : List (List Item)) (prev : Option Char) :
    matchItems (flagsOf cs) (segsItems l ++ tailItems true) prev [] = false := by
  cases l with
  | cons a l => rw [segsItems_cons]; simp [matchItems]
  | nil => simp [segsItems, tailItems, matchItems]

theorem tail_match (cs ends d : Bool) (hde : d = true → ends = true) (ns : List Str)
    (hns : ∀ n ∈ ns, GoodName n) (prev : Option Char) :
    matchItems (flagsOf cs) (tailItems ends) prev (render ns d) = (ns.isEmpty && (!ends || d)) := by
  cases ns with
  | nil =>
    rw [render_nil]
    cases ends <;> cases d <;> cases cs <;>
      first
        | (exact absurd (hde rfl) (by decide))
        | simp [tailItems, matchItems, atEol, flagsOf, Glob.slash, Atom.ok, lower_slash]
  | cons n ns =>
    rw [render_cons]
    obtain ⟨hne, _, hnl⟩ := hns n List.mem_cons_self
    cases n with
    | nil => exact absurd rfl hne
    | cons x n =>
      have hx : x ≠ '\n' := fun e => hnl (e ▸ List.mem_cons_self)
      cases ends
      · simp [tailItems, matchItems, atEol, flagsOf]
      · simp [tailItems, matchItems, atEol_cons cs x _ hx]

theorem segsItems_no_bol (segs : List (List Tok)) :
    ∀ l, Glob.mapM' (Glob.mapM' globItem) segs = .ok l → ∀ ends, Item.bol ∉ segsItems l ++ tailItems ends := by
  induction segs with
  | nil => intro l h ends; cases h; cases ends <;> simp [segsItems, tailItems]
  | cons toks segs ih =>
    intro l h ends
    rw [mapM'_cons] at h
    cases hit : Glob.mapM' globItem toks with
    | err e => rw [hit] at h; cases h
    | ok items =>
      rw [hit] at h
      cases hr : Glob.mapM' (Glob.mapM' globItem) segs with
      | err e => rw [hr] at h; cases h
      | ok l' =>
        rw [hr] at h; cases h
        rw [segsItems_cons]
        intro hm
        simp only [List.cons_append, List.append_assoc, List.mem_cons, List.mem_append] at hm
        rcases hm with e | hm | hm | hm
        · cases e
        · exact mapM_globItem_no_bol toks items hit hm
        · exact ih l' hr ends (List.mem_append_left _ hm)
        · exact ih l' hr ends (List.mem_append_right _ hm)

theorem segs_match (cs ends d : Bool) (hde : d = true → ends = true) (segs : List (List Tok))
    (hg : ∀ toks ∈ segs, ∀ t ∈ toks, goodTok t = true) :
    ∀ l, Glob.mapM' (Glob.mapM' globItem) segs = .ok l → ∀ ns, (∀ n ∈ ns, GoodName n) → ∀ prev,
    (matchItems (flagsOf cs) (segsItems l ++ tailItems ends) prev (render ns d) = true ↔
      (compsMatch cs (segs.map PComp.seg) ns = true ∧ (!ends || d) = true)) := by
  induction segs with
  | nil =>
    intro l h ns hns prev
    cases h
    simp only [segsItems, List.map_nil, List.flatten_nil, List.nil_append, compsMatch]
    rw [tail_match cs ends d hde ns hns prev]
    cases ns <;> simp
  | cons toks segs ih =>
    intro l h ns hns prev
    rw [mapM'_cons] at h
    cases hit : Glob.mapM' globItem toks with
    | err e => rw [hit] at h; cases h
    | ok items =>
      rw [hit] at h
      cases hr : Glob.mapM' (Glob.mapM' globItem) segs with
      | err e => rw [hr] at h; cases h
      | ok l' =>
        rw [hr] at h; cases h
        have hg' : ∀ toks ∈ segs, ∀ t ∈ toks, goodTok t = true :=
          fun x hx => hg x (List.mem_cons_of_mem _ hx)
        have hK := segsItems_no_bol segs l' hr ends
        have split := seg_split cs toks (hg toks List.mem_cons_self) items hit _ hK
        rw [segsItems_cons]
        simp only [List.cons_append, List.append_assoc, List.map_cons, compsMatch]
        cases ns with
        | nil =>
          rw [render_nil]
          cases d with
          | false => simp [matchItems]
          | true =>
            have he : ends = true := hde rfl
            subst he
            simp only [if_true, matchItems, Bool.and_eq_true]
            constructor
            · rintro ⟨_, hm⟩
              obtain ⟨n, rest, hs, _, _, hk⟩ := (split (some '/') []).1 hm
              have : rest = [] := by
                have := congrArg List.length hs; simp at this; exact List.eq_nil_of_length_eq_zero (by omega)
              subst this
              rw [knil_of_dir] at hk; cases hk
            · rintro ⟨h, _⟩; cases h
        | cons n ns' =>
          have hn := hns n List.mem_cons_self
          have hns' : ∀ x ∈ ns', GoodName x := fun x hx => hns x (List.mem_cons_of_mem _ hx)
          rw [render_cons]
          simp only [matchItems, Bool.and_eq_true, (slash_ok cs '/').2 rfl, true_and]
          rw [split (some '/')]
          constructor
          · rintro ⟨n0, rest0, hs, hn0, htm, hk⟩
            rcases List.append_eq_append_iff.1 hs with ⟨m, h1, h2⟩ | ⟨m, h1, h2⟩
            · -- n0 = n ++ m, render ns' d = m ++ rest0  -- orientation checked below
              cases m with
              | nil =>
                simp only [List.append_nil, List.nil_append] at h1 h2
                subst h1; rw [← h2] at hk
                exact ⟨⟨htm, ((ih hg' l' hr ns' hns' none).1 hk).1⟩, ((ih hg' l' hr ns' hns' none).1 hk).2⟩
              | cons x m =>
                have hx : x = '/' := render_head ns' d x (m ++ rest0) (by simpa using h2)
                subst hx
                exact absurd (by rw [h1]; simp) hn0
            · cases m with
              | nil =>
                simp only [List.append_nil, List.nil_append] at h1 h2
                subst h1; rw [h2] at hk
                exact ⟨⟨htm, ((ih hg' l' hr ns' hns' none).1 hk).1⟩, ((ih hg' l' hr ns' hns' none).1 hk).2⟩
              | cons x m =>
                have hxn : x ∈ n := by rw [h1]; simp
                have hx1 : x ≠ '/' := fun e => hn.2.1 (e ▸ hxn)
                have hx2 : x ≠ '\n' := fun e => hn.2.2 (e ▸ hxn)
                rw [h2, List.cons_append, khead cs ends l' none x _ hx1 hx2] at hk
                cases hk
          · rintro ⟨⟨htm, hcm⟩, hc⟩
            exact ⟨n, render ns' d, rfl, hn.2.1, htm, (ih hg' l' hr ns' hns' none).2 ⟨hcm, hc⟩⟩

/-! ### `**` -/

theorem any_ok (cs : Bool) (c : Char) : Atom.any.ok (flagsOf cs) c = true := by
  simp [Atom.ok, flagsOf]

/-- `/?.*/?X` matches exactly when `X` matches some suffix -/
theorem block_match (cs : Bool) (X : List Item) (hX : Item.bol ∉ X) (prev : Option Char) (s : Str) :
    matchItems (flagsOf cs) (Glob.optSlash :: Glob.anyRun :: Glob.optSlash :: X) prev s = true ↔
      ∃ u t, s = u ++ t ∧ matchItems (flagsOf cs) X none t = true := by
  have hX2 : Item.bol ∉ Glob.optSlash :: X := by
    intro hm; rcases List.mem_cons.1 hm with e | hm
    · cases e
    · exact hX hm
  have star : ∀ prev s, matchItems (flagsOf cs) (Glob.anyRun :: Glob.optSlash :: X) prev s = true ↔
      ∃ u t, s = u ++ t ∧ matchItems (flagsOf cs) X none t = true := by
    intro prev s
    simp only [Glob.anyRun, matchItems]
    rw [starLoop_iff _ _ (matchItems_prev _ _ hX2)]
    constructor
    · rintro ⟨u, t, rfl, _, hm⟩
      simp only [Glob.optSlash, matchItems, Bool.or_eq_true] at hm
      rcases hm with hm | hm
      · exact ⟨u, t, rfl, hm⟩
      · cases t with
        | nil => cases hm
        | cons c t' =>
          simp only [Bool.and_eq_true] at hm
          refine ⟨u ++ [c], t', by simp, ?_⟩
          rw [matchItems_prev _ X hX none (some c)]; exact hm.2
    · rintro ⟨u, t, rfl, hm⟩
      refine ⟨u, t, rfl, fun c _ => any_ok cs c, ?_⟩
      simp only [Glob.optSlash, matchItems, Bool.or_eq_true]
      left; exact hm
  simp only [Glob.optSlash, matchItems, Bool.or_eq_true]
  constructor
  · rintro (hm | hm)
    · exact (star prev s).1 hm
    · cases s with
      | nil => cases hm
      | cons c s' =>
        simp only [Bool.and_eq_true] at hm
        obtain ⟨u, t, hs, hk⟩ := (star (some c) s').1 hm.2
        exact ⟨c :: u, t, by rw [hs]; rfl, hk⟩
  · rintro ⟨u, t, hs, hm⟩
    left
    exact (star prev s).2 ⟨u, t, hs, hm⟩

def addBlocks : Nat → List Item → List Item
  | 0, X => X
  | k + 1, X => Glob.optSlash :: Glob.anyRun :: Glob.optSlash :: addBlocks k X

theorem addBlocks_no_bol (k : Nat) (X : List Item) (hX : Item.bol ∉ X) : Item.bol ∉ addBlocks k X := by
  induction k with
  | zero => exact hX
  | succ k ih =>
    simp only [addBlocks, List.mem_cons, not_or]
    exact ⟨by simp [Glob.optSlash], by simp [Glob.anyRun], by simp [Glob.optSlash], ih⟩

theorem blocks_match (cs : Bool) (X : List Item) (hX : Item.bol ∉ X) (k : Nat) :
    ∀ prev s, matchItems (flagsOf cs) (addBlocks (k + 1) X) prev s = true ↔
      ∃ u t, s = u ++ t ∧ matchItems (flagsOf cs) X none t = true := by
  induction k with
  | zero => intro prev s; exact block_match cs X hX prev s
  | succ k ih =>
    intro prev s
    rw [addBlocks, block_match cs _ (addBlocks_no_bol (k + 1) X hX)]
    constructor
    · rintro ⟨u, t, rfl, hm⟩
      obtain ⟨u', t', rfl, hm'⟩ := (ih none t).1 hm
      exact ⟨u ++ u', t', by simp, hm'⟩
    · rintro ⟨u, t, rfl, hm⟩
      exact ⟨u, t, rfl, (ih none t).2 ⟨[], t, rfl, hm⟩⟩

theorem starstars_match (cs : Bool) (ps : List PComp) (k : Nat) :
    ∀ ns, compsMatch cs (List.replicate (k + 1) PComp.starstar ++ ps) ns = true ↔
      ∃ us ts, ns = us ++ ts ∧ compsMatch cs ps ts = true := by
  induction k with
  | zero =>
    intro ns
    simp only [List.replicate, List.cons_append, List.nil_append, compsMatch]
    exact ssRun_iff _ ns
  | succ k ih =>
    intro ns
    rw [List.replicate_succ, List.cons_append, compsMatch]
    rw [ssRun_iff]
    constructor
    · rintro ⟨us, ts, rfl, hm⟩
      obtain ⟨us', ts', rfl, hm'⟩ := (ih ts).1 hm
      exact ⟨us ++ us', ts', by simp, hm'⟩
    · rintro ⟨us, ts, rfl, hm⟩
      exact ⟨us, ts, rfl, (ih ts).2 ⟨[], ts, rfl, hm⟩⟩

/-- a suffix of a rendered path that starts with `/` starts at a component boundary -/
theorem boundary (d : Bool) (ns : List Str) (hns : ∀ n ∈ ns, GoodName n) :
    ∀ u t, render ns d = u ++ t → t.head? = some '/' → ∃ us ts, ns = us ++ ts ∧ t = render ts d := by
  induction ns with
  | nil =>
    intro u t h ht
    rw [render_nil] at h
    cases d with
    | false =>
      simp only [Bool.false_eq_true, if_false] at h
      have : t = [] := by
        have := congrArg List.length h; simp at this; exact List.eq_nil_of_length_eq_zero (by omega)
      subst this; cases ht
    | true =>
      simp only [if_true] at h
      cases u with
      | nil => exact ⟨[], [], rfl, by rw [render_nil]; simpa using h.symm⟩
      | cons x u =>
        simp only [List.cons_append, List.cons.injEq] at h
        have : t = [] := by
          have := congrArg List.length h.2; simp at this; exact List.eq_nil_of_length_eq_zero (by omega)
        subst this; cases ht
  | cons n ns ih =>
    intro u t h ht
    have hn := hns n List.mem_cons_self
    have hns' : ∀ x ∈ ns, GoodName x := fun x hx => hns x (List.mem_cons_of_mem _ hx)
    rw [render_cons] at h
    cases u with
    | nil =>
      exact ⟨[], n :: ns, rfl, by rw [render_cons]; simpa using h.symm⟩
    | cons x u =>
      simp only [List.cons_append, List.cons.injEq] at h
      obtain ⟨_, h⟩ := h
      rcases List.append_eq_append_iff.1 h with ⟨m, h1, h2⟩ | ⟨m, h1, h2⟩
      · -- u = n ++ m, render ns d = m ++ t
        obtain ⟨us, ts, rfl, hts⟩ := ih hns' m t h2 ht
        exact ⟨n :: us, ts, rfl, hts⟩
      · -- n = u ++ m, t = m ++ render ns d
        cases m with
        | nil =>
          simp only [List.nil_append] at h2
          exact ⟨[n], ns, rfl, h2⟩
        | cons y m =>
          rw [h2] at ht
          simp at ht
          subst ht
          exact absurd (by rw [h1]; simp) hn.2.1

theorem glob_items_match (cs ends d : Bool) (hde : d = true → ends = true) (k : Nat)
    (segs : List (List Tok)) (hg : ∀ toks ∈ segs, ∀ t ∈ toks, goodTok t = true)
    (l : List (List Item)) (hl : Glob.mapM' (Glob.mapM' globItem) segs = .ok l)
    (ns : List Str) (hns : ∀ n ∈ ns, GoodName n) :
    matchItems (flagsOf cs) (addBlocks k (segsItems l ++ tailItems ends)) none (render ns d) = true ↔
      (compsMatch cs (List.replicate k PComp.starstar ++ segs.map PComp.seg) ns = true ∧
        (!ends || d) = true) := by
  cases k with
  | zero => simpa [addBlocks] using segs_match cs ends d hde segs hg l hl ns hns none
  | succ k =>
    have hnb := segsItems_no_bol segs l hl ends
    rw [blocks_match cs _ hnb k, starstars_match]
    constructor
    · rintro ⟨u, t, h, hm⟩
      cases t with
      | nil =>
        cases d with
        | true =>
          have he : ends = true := hde rfl
          subst he
          rw [knil_of_dir] at hm; cases hm
        | false =>
          have := (segs_match cs ends false hde segs hg l hl [] (by simp) none).1
            (by rw [render_nil]; exact hm)
          exact ⟨⟨ns, [], by simp, this.1⟩, this.2⟩
      | cons x t' =>
        by_cases hx : x = '/'
        · subst hx
          obtain ⟨us, ts, rfl, hts⟩ := boundary d ns hns u _ h rfl
          have hts' : ∀ n ∈ ts, GoodName n := fun n hn => hns n (List.mem_append_right _ hn)
          rw [hts] at hm
          have := (segs_match cs ends d hde segs hg l hl ts hts' none).1 hm
          exact ⟨⟨us, ts, rfl, this.1⟩, this.2⟩
        · have hmem : x ∈ render ns d := by rw [h]; simp
          have hx2 : x ≠ '\n' := fun e => render_no_nl ns d hns (e ▸ hmem)
          rw [khead cs ends l none x t' hx hx2] at hm; cases hm
    · rintro ⟨⟨us, ts, rfl, hcm⟩, hc⟩
      have hts' : ∀ n ∈ ts, GoodName n := fun n hn => hns n (List.mem_append_right _ hn)
      exact ⟨render us false, render ts d, render_append us ts d,
        (segs_match cs ends d hde segs hg l hl ts hts' none).2 ⟨hcm, hc⟩⟩

/-! ### the shape of `_translate_glob`'s output -/

def blockItems : List Item := [Glob.optSlash, Glob.anyRun, Glob.optSlash]

theorem compItems_ss : Glob.compItems ss = .ok blockItems := by decide

theorem compItems_seg (c : Str) (h : Glob.hasSS c = false) :
    Glob.compItems c = (Glob.mapM' globItem (tokenize c 0)).map (Item.one Glob.slash :: ·) := by
  simp only [Glob.compItems, h, Bool.false_eq_true, if_false, Glob.translate, glob_go_eq c 0 h, Wild.cons]

theorem mapM'_append {α β} (f : α → TR β) (a b : List α) :
    Glob.mapM' f (a ++ b) =
      (match Glob.mapM' f a with
       | .err e => .err e
       | .ok x => (Glob.mapM' f b).map (x ++ ·)) := by
  induction a with
  | nil => simp only [List.nil_append, Glob.mapM']; cases Glob.mapM' f b <;> simp [TR.map]
  | cons x a ih =>
    rw [List.cons_append, mapM'_cons, mapM'_cons, ih]
    cases f x with
    | err e => rfl
    | ok y =>
      cases Glob.mapM' f a with
      | err e => rfl
      | ok ys => cases Glob.mapM' f b <;> simp [TR.map]

theorem mapM'_replicate {α β} (f : α → TR β) (a : α) (b : β) (h : f a = .ok b) (k : Nat) :
    Glob.mapM' f (List.replicate k a) = .ok (List.replicate k b) := by
  induction k with
  | zero => rfl
  | succ k ih => rw [List.replicate_succ, mapM'_cons, h, ih]; rfl

theorem mapM'_segs (segComps : List Str) (h : ∀ c ∈ segComps, Glob.hasSS c = false) :
    Glob.mapM' Glob.compItems segComps =
      (Glob.mapM' (Glob.mapM' globItem) (segComps.map (tokenize · 0))).map
        (fun l => l.map (Item.one Glob.slash :: ·)) := by
  induction segComps with
  | nil => rfl
  | cons c cs ih =>
    rw [mapM'_cons, List.map_cons, mapM'_cons, compItems_seg c (h c List.mem_cons_self),
      ih (fun x hx => h x (List.mem_cons_of_mem _ hx))]
    cases Glob.mapM' globItem (tokenize c 0) with
    | err e => rfl
    | ok a =>
      cases Glob.mapM' (Glob.mapM' globItem) (cs.map (tokenize · 0)) <;> simp [TR.map]

theorem flatten_blocks (k : Nat) (L : List (List Item)) (T : List Item) :
    (List.replicate k blockItems ++ L).flatten ++ T = addBlocks k (L.flatten ++ T) := by
  induction k with
  | zero => simp [addBlocks]
  | succ k ih =>
    rw [List.replicate_succ, List.cons_append, List.flatten_cons, List.append_assoc, ih]
    rfl

theorem iteratepath_of_resolve (p : Str) (cs : List Str) (hres : resolve (splitSlash p) = some cs) :
    iteratepath p = .ok cs := by
  have hclean := resolve_result_clean p _ hres
  unfold iteratepath
  rw [normpath_eq_specNorm, specNorm, hres]
  show (Res.ok _ >>= _) = _
  rw [bind_ok]
  have hm : ((if startsWithSlash p = true then ['/'] else []) ++ joinSlash cs) = mkp (startsWithSlash p) cs := rfl
  rw [hm]
  simp only [relpath, lstripSlash_mkp hclean, pure_eq]
  by_cases hc : cs = []
  · subst hc; rfl
  · have : joinWith '/' cs ≠ [] := fun e => hc ((join_clean_eq_nil_iff hclean).1 e)
    simp [this, splitSlash, splitOn_join_clean hclean hc]

theorem iteratepath_nodots (p : Str) (h : (splitSlash p).any isDots = false) :
    iteratepath p = .ok ((splitSlash p).filter (fun c => c ≠ [])) := by
  apply iteratepath_of_resolve
  unfold resolve; rw [foldl_step_nodots _ _ h]; rfl

theorem mem_takeWhile_sat {α} (p : α → Bool) (l : List α) : ∀ x ∈ l.takeWhile p, p x = true := by
  induction l with
  | nil => intro x hx; cases hx
  | cons a l ih =>
    intro x hx
    rw [List.takeWhile_cons] at hx
    split at hx
    · rcases List.mem_cons.1 hx with e | hx
      · subst e; assumption
      · exact ih x hx
    · cases hx

theorem takeWhile_eq_replicate (l : List Str) :
    l.takeWhile (· == ss) = List.replicate (l.takeWhile (· == ss)).length ss := by
  apply List.eq_replicate_iff.2
  refine ⟨rfl, fun x hx => ?_⟩
  have := mem_takeWhile_sat _ l x hx
  simpa using this

theorem pcomp_ss : pcomp ss = .starstar := by decide

theorem hasSS_ss : Glob.hasSS ss = true := by decide

theorem pcomp_seg (c : Str) (h : Glob.hasSS c = false) : pcomp c = .seg (tokenize c 0) := by
  have : c ≠ ss := by intro e; rw [e, hasSS_ss] at h; cases h
  simp only [pcomp]
  rw [if_neg]
  exact this

theorem glob_partial_core (pat : Str) (path : List Str) (isDir cs : Bool)
    (hreg : Regular pat = true) (hpath : ∀ n ∈ path, GoodName n)
    (hdir : isDir = true → endsWithSlash pat = true)
    (c : Glob.Compiled) (hc : Glob.translateGlob pat cs = .ok c) :
    c.re.matches (render path isDir) = GlobSpec.matches pat path isDir cs := by
  simp only [Regular, Bool.and_eq_true] at hreg
  obtain ⟨⟨hdot, hss⟩, hcls⟩ := hreg
  have hdot' : (splitSlash pat).any isDots = false := by simpa [dotFree] using hdot
  have hit := iteratepath_nodots pat hdot'
  -- shape of the component list
  let comps := patComps pat
  have hcomps : comps = List.replicate (comps.takeWhile (· == ss)).length ss ++ comps.dropWhile (· == ss) := by
    conv => lhs; rw [← List.takeWhile_append_dropWhile (p := (· == ss)) (l := comps)]
    rw [← takeWhile_eq_replicate]
  generalize hk : (comps.takeWhile (· == ss)).length = k at hcomps
  generalize hrest : comps.dropWhile (· == ss) = rest at hcomps
  have hrest_ss : ∀ x ∈ rest, Glob.hasSS x = false := by
    intro x hx
    have := List.all_eq_true.1 hss x (by rw [← hrest] at hx; exact hx)
    simpa using this
  have hrest_good : ∀ toks ∈ rest.map (tokenize · 0), ∀ t ∈ toks, goodTok t = true := by
    intro toks htoks t ht
    obtain ⟨x, hx, rfl⟩ := List.mem_map.1 htoks
    have hxc : x ∈ patComps pat := by
      show x ∈ comps
      rw [hcomps]; exact List.mem_append_right _ hx
    have h1 := List.all_eq_true.1 hcls x hxc
    have hne : x ≠ ss := by intro e; have := hrest_ss x hx; rw [e, hasSS_ss] at this; cases this
    simp only [Bool.or_eq_true, beq_iff_eq, hne, false_or] at h1
    exact List.all_eq_true.1 h1 t ht
  -- unfold the translation
  unfold Glob.translateGlob at hc
  have hit' : iteratepath pat = .ok (List.replicate k ss ++ rest) := by rw [hit]; exact congrArg _ hcomps
  rw [hit'] at hc
  simp only [Glob.liftRes] at hc
  rw [mapM'_append, mapM'_replicate _ _ _ compItems_ss, mapM'_segs rest hrest_ss] at hc
  cases hl : Glob.mapM' (Glob.mapM' globItem) (rest.map (tokenize · 0)) with
  | err e => rw [hl] at hc; cases hc
  | ok l =>
    rw [hl] at hc
    simp only [TR.map, TR.ok.injEq] at hc
    subst hc
    -- the matcher side
    have htail : (if endsWithSlash pat = true then [Item.one Glob.slash, Item.eol] else [Item.eol])
        = tailItems (endsWithSlash pat) := by unfold tailItems; rfl
    simp only [Regex.matches, flags_ms, htail, List.cons_append]
    rw [show (List.map (fun x => Item.one Glob.slash :: x) l) = l.map (Item.one Glob.slash :: ·) from rfl]
    rw [flatten_blocks k (l.map (Item.one Glob.slash :: ·)) (tailItems (endsWithSlash pat))]
    rw [show (l.map (Item.one Glob.slash :: ·)).flatten = segsItems l from rfl]
    have main := glob_items_match cs (endsWithSlash pat) isDir hdir k (rest.map (tokenize · 0)) hrest_good l hl path hpath
    -- the spec side
    have hp : pcomps pat = List.replicate k PComp.starstar ++ (rest.map (tokenize · 0)).map PComp.seg := by
      show (patComps pat).map pcomp = _
      show comps.map pcomp = _
      rw [hcomps, List.map_append, List.map_replicate, pcomp_ss, List.map_map]
      congr 1
      apply List.map_congr_left
      intro x hx
      exact pcomp_seg x (hrest_ss x hx)
    unfold GlobSpec.matches
    rw [hp]
    simp only [matchItems, atBol, beq_self_eq_true, Bool.true_or, Bool.true_and]
    rw [Bool.eq_iff_iff, main, Bool.and_eq_true, and_comm]

/-! ### levels -/

theorem inBody_slash_self (body : Str) (l : List SetItem)
    (h : Wild.rawItems ('/' :: body) false = .ok l) : inBody ('/' :: body) '/' = true := by
  cases body with
  | nil => simp [inBody]
  | cons x r =>
    cases r with
    | nil => rw [inBody]; · simp
             intro b rest he; cases he
    | cons y r' =>
      by_cases hx : x = '-'
      · subst hx
        rw [Wild.rawItems] at h
        split at h
        · cases h
        · rename_i hlt
          have : '/' ≤ y := Char.not_lt.1 hlt
          simp [inBody, this]
      · rw [inBody]
        · simp
        · intro b rest he; simp at he; exact hx he.1

theorem globItem_rej (cs : Bool) (t : Tok) (hns : noSlashTok t = true) (hlit : ∀ x, t = .lit x → x ≠ '/')
    (it : Item) (h : globItem t = .ok it) :
    ∃ a, (it = .star a false ∨ it = .one a) ∧ a.ok (flagsOf cs) '/' = false := by
  cases t with
  | star => cases h; exact ⟨_, Or.inl rfl, by rw [notSlash_ok]; rfl⟩
  | any => cases h; exact ⟨_, Or.inr rfl, by rw [notSlash_ok]; rfl⟩
  | lit x =>
    cases h
    have hx := hlit x rfl
    have h1 : lower x ≠ '/' := fun e => hx ((lower_eq_slash x).1 e)
    exact ⟨_, Or.inr rfl, by cases cs <;> simp [Atom.ok, flagsOf, LChar.lit, lower_slash, hx, h1]⟩
  | cls neg body =>
    cases neg with
    | false =>
      simp only [globItem] at h
      cases hr : Wild.rawItems body true with
      | err e => rw [hr] at h; cases h
      | ok l =>
        rw [hr] at h; cases h
        have hh := rawItems_has body true l hr
        have hb : inBody body '/' = false := by simpa [noSlashTok] using hns
        exact ⟨_, Or.inr rfl, by cases cs <;> simp [Atom.ok, flagsOf, hh, lower_slash, upper_slash, hb]⟩
    | true =>
      simp only [globItem] at h
      split at h
      · cases h
      · cases hr : Wild.rawItems ('/' :: body) false with
        | err e => rw [hr] at h; cases h
        | ok l =>
          rw [hr] at h; cases h
          have hh := rawItems_has ('/' :: body) false l hr
          have hb := inBody_slash_self body l hr
          exact ⟨_, Or.inr rfl, by cases cs <;> simp [Atom.ok, flagsOf, hh, lower_slash, upper_slash, hb]⟩

theorem seg_consume (cs : Bool) (toks : List Tok) (hns : ∀ t ∈ toks, noSlashTok t = true)
    (hlit : ∀ x, Tok.lit x ∈ toks → x ≠ '/') :
    ∀ items, Glob.mapM' globItem toks = .ok items → ∀ (K : List Item), Item.bol ∉ K →
    ∀ prev s, matchItems (flagsOf cs) (items ++ K) prev s = true →
      ∃ n rest, s = n ++ rest ∧ '/' ∉ n ∧ matchItems (flagsOf cs) K none rest = true := by
  induction toks with
  | nil =>
    intro items h K hK prev s hm
    cases h
    exact ⟨[], s, rfl, by simp, by rw [matchItems_prev _ K hK none prev]; exact hm⟩
  | cons t toks ih =>
    intro items h K hK prev s hm
    rw [mapM'_cons] at h
    cases hit : globItem t with
    | err e => rw [hit] at h; cases h
    | ok it =>
      rw [hit] at h
      cases hr : Glob.mapM' globItem toks with
      | err e => rw [hr] at h; cases h
      | ok items' =>
        rw [hr] at h; cases h
        have ih' := ih (fun x hx => hns x (List.mem_cons_of_mem _ hx))
          (fun x hx => hlit x (List.mem_cons_of_mem _ hx)) items' hr K hK
        have hnb : Item.bol ∉ items' ++ K := by
          intro hm; rcases List.mem_append.1 hm with hm | hm
          · exact mapM_globItem_no_bol toks items' hr hm
          · exact hK hm
        obtain ⟨a, hshape, hrej⟩ := globItem_rej cs t (hns t List.mem_cons_self)
          (fun x hx => hlit x (hx ▸ List.mem_cons_self)) it hit
        rcases hshape with rfl | rfl
        · simp only [List.cons_append, matchItems] at hm
          obtain ⟨u, t', rfl, hu, hm'⟩ := (starLoop_iff _ _ (matchItems_prev _ _ hnb) prev s).1 hm
          obtain ⟨n', rest, rfl, hn', hk⟩ := ih' none t' hm'
          refine ⟨u ++ n', rest, by simp, ?_, hk⟩
          apply not_mem_append _ hn'
          intro hmem
          have := hu _ hmem
          rw [hrej] at this; cases this
        · cases s with
          | nil => simp [matchItems] at hm
          | cons c s' =>
            simp only [List.cons_append, matchItems, Bool.and_eq_true] at hm
            obtain ⟨n', rest, rfl, hn', hk⟩ := ih' (some c) s' hm.2
            refine ⟨c :: n', rest, rfl, ?_, hk⟩
            intro hmem
            rcases List.mem_cons.1 hmem with e | hmem
            · rw [← e, hrej] at hm; cases hm.1
            · exact hn' hmem

theorem countSlash_append (a b : Str) : Glob.countSlash (a ++ b) = Glob.countSlash a + Glob.countSlash b := by
  simp [Glob.countSlash]

theorem countSlash_of_not_mem (a : Str) (h : '/' ∉ a) : Glob.countSlash a = 0 := by
  simp [Glob.countSlash, List.count_eq_zero, h]

theorem atEol_no_nl (cs : Bool) (s : Str) (h : '\n' ∉ s) (he : atEol (flagsOf cs) s = true) : s = [] := by
  cases s with
  | nil => rfl
  | cons x t =>
    have hx : x ≠ '\n' := fun e => h (e ▸ List.mem_cons_self)
    rw [atEol_cons cs x t hx] at he; cases he

theorem count_slash (cs ends : Bool) (segs : List (List Tok))
    (hns : ∀ toks ∈ segs, ∀ t ∈ toks, noSlashTok t = true)
    (hlit : ∀ toks ∈ segs, ∀ x, Tok.lit x ∈ toks → x ≠ '/') :
    ∀ l, Glob.mapM' (Glob.mapM' globItem) segs = .ok l → ∀ prev s, '\n' ∉ s →
      matchItems (flagsOf cs) (segsItems l ++ tailItems ends) prev s = true →
      Glob.countSlash s = l.length + (if ends then 1 else 0) := by
  induction segs with
  | nil =>
    intro l h prev s hnl hm
    cases h
    simp only [segsItems, List.map_nil, List.flatten_nil, List.nil_append, List.length_nil, Nat.zero_add] at hm ⊢
    cases ends with
    | false =>
      simp only [tailItems, Bool.false_eq_true, if_false, matchItems, Bool.and_true] at hm
      rw [atEol_no_nl cs s hnl hm]; rfl
    | true =>
      cases s with
      | nil => simp [tailItems, matchItems] at hm
      | cons c s' =>
        simp only [tailItems, if_true, matchItems, Bool.and_true, Bool.and_eq_true] at hm
        have hc := (slash_ok cs c).1 hm.1
        have := atEol_no_nl cs s' (fun h => hnl (List.mem_cons_of_mem _ h)) hm.2
        subst hc; subst this; rfl
  | cons toks segs ih =>
    intro l h prev s hnl hm
    rw [mapM'_cons] at h
    cases hit : Glob.mapM' globItem toks with
    | err e => rw [hit] at h; cases h
    | ok items =>
      rw [hit] at h
      cases hr : Glob.mapM' (Glob.mapM' globItem) segs with
      | err e => rw [hr] at h; cases h
      | ok l' =>
        rw [hr] at h; cases h
        have hK := segsItems_no_bol segs l' hr ends
        rw [segsItems_cons] at hm
        cases s with
        | nil => simp [matchItems] at hm
        | cons c s' =>
          simp only [List.cons_append, List.append_assoc, matchItems, Bool.and_eq_true] at hm
          have hc := (slash_ok cs c).1 hm.1
          subst hc
          obtain ⟨n, rest, rfl, hn, hk⟩ := seg_consume cs toks (hns toks List.mem_cons_self)
            (hlit toks List.mem_cons_self) items hit _ hK _ _ hm.2
          have hrest : '\n' ∉ rest := fun h => hnl (List.mem_cons_of_mem _ (List.mem_append_right _ h))
          have := ih (fun x hx => hns x (List.mem_cons_of_mem _ hx))
            (fun x hx => hlit x (List.mem_cons_of_mem _ hx)) l' hr none rest hrest hk
          rw [show ('/' :: (n ++ rest)) = ['/'] ++ (n ++ rest) from rfl, countSlash_append,
            countSlash_append, countSlash_of_not_mem n hn, this]
          simp [Glob.countSlash]; omega

theorem tokenize_lit_mem (c : Str) : ∀ n x, Tok.lit x ∈ tokenize c n → x ∈ c := by
  induction c with
  | nil => intro n x h; simp [tokenize] at h
  | cons a cs ih =>
    intro n x h
    cases n with
    | succ n => simp only [tokenize] at h; exact List.mem_cons_of_mem _ (ih n x h)
    | zero =>
      simp only [tokenize] at h
      split at h
      · simp only [List.mem_cons] at h
        rcases h with h | h
        · cases h
        · exact List.mem_cons_of_mem _ (ih _ x h)
      · split at h
        · simp only [List.mem_cons] at h
          rcases h with h | h
          · cases h
          · exact List.mem_cons_of_mem _ (ih _ x h)
        · split at h
          · rename_i hb
            split at h
            · simp only [List.mem_cons] at h
              rcases h with h | h
              · cases h
              · exact List.mem_cons_of_mem _ (ih _ x h)
            · simp only [List.mem_cons] at h
              rcases h with h | h
              · cases h; rw [hb]; exact List.mem_cons_self
              · exact List.mem_cons_of_mem _ (ih _ x h)
          · simp only [List.mem_cons] at h
            rcases h with h | h
            · cases h; exact List.mem_cons_self
            · exact List.mem_cons_of_mem _ (ih _ x h)

theorem foldl_step_mem (cs : List Str) : ∀ s r, cs.foldl step (some s) = some r →
    ∀ x ∈ r, x ∈ s ∨ x ∈ cs := by
  induction cs with
  | nil => intro s r h x hx; simp at h; subst h; exact Or.inl hx
  | cons c cs ih =>
    intro s r h x hx
    rw [List.foldl_cons] at h
    cases hst : step (some s) c with
    | none => rw [hst, foldl_step_none] at h; cases h
    | some s' =>
      rw [hst] at h
      rcases ih s' r h x hx with h1 | h1
      · simp only [step] at hst
        split at hst
        · cases hst; exact Or.inl h1
        · split at hst
          · split at hst
            · cases hst
            · cases hst; exact Or.inl ((List.dropLast_sublist _).subset h1)
          · cases hst
            rcases List.mem_append.1 h1 with h2 | h2
            · exact Or.inl h2
            · simp at h2; subst h2; exact Or.inr List.mem_cons_self
      · exact Or.inr (List.mem_cons_of_mem _ h1)

theorem foldl_step_length (p : Str → Bool) (hp : ∀ c, p c = true ↔ c ≠ []) (cs : List Str) :
    ∀ s r, cs.foldl step (some s) = some r → r.length ≤ s.length + (cs.filter p).length := by
  induction cs with
  | nil => intro s r h; simp at h; subst h; simp
  | cons c cs ih =>
    intro s r h
    rw [List.foldl_cons] at h
    cases hst : step (some s) c with
    | none => rw [hst, foldl_step_none] at h; cases h
    | some s' =>
      rw [hst] at h
      have := ih s' r h
      have key : (List.filter p (c :: cs)).length = (if p c = true then 1 else 0) + (List.filter p cs).length := by
        rw [List.filter_cons]; split <;> simp <;> omega
      rw [key]
      simp only [step] at hst
      split at hst
      · cases hst; omega
      · rename_i hc
        have hne : p c = true := (hp c).2 (fun e => hc (Or.inl e))
        rw [if_pos hne]
        split at hst
        · split at hst
          · cases hst
          · cases hst; simp at this; omega
        · cases hst; simp at this; omega

theorem splitOn_length (p : Str) : (splitOn '/' p).length = Glob.countSlash p + 1 := by
  induction p with
  | nil => rfl
  | cons x p ih =>
    by_cases hx : x = '/'
    · subst hx; rw [splitOn_cons_sep, List.length_cons, ih]; simp [Glob.countSlash]
    · rw [splitOn_cons_ne _ _ _ hx]
      have hne := splitOn_ne_nil '/' p
      have : (splitOn '/' p).tail.length + 1 = (splitOn '/' p).length := by
        cases h : splitOn '/' p with
        | nil => exact absurd h hne
        | cons a b => simp
      simp [Glob.countSlash, hx] at *
      omega

theorem splitOn_snoc_sep (q : Str) : splitOn '/' (q ++ ['/']) = splitOn '/' q ++ [[]] := by
  induction q with
  | nil => rfl
  | cons x q ih =>
    by_cases hx : x = '/'
    · subst hx; rw [List.cons_append, splitOn_cons_sep, splitOn_cons_sep, ih]; rfl
    · rw [List.cons_append, splitOn_cons_ne _ _ _ hx, splitOn_cons_ne _ _ _ hx, ih]
      have hne := splitOn_ne_nil '/' q
      cases h : splitOn '/' q with
      | nil => exact absurd h hne
      | cons a b => simp

theorem endsWithSlash_snoc (p : Str) (h : endsWithSlash p = true) : ∃ q, p = q ++ ['/'] := by
  unfold endsWithSlash at h
  cases hr : p.reverse with
  | nil => rw [hr] at h; cases h
  | cons x r =>
    rw [hr, startsWithSlash_cons] at h
    have hx : x = '/' := by simpa using h
    subst hx
    refine ⟨r.reverse, ?_⟩
    have := congrArg List.reverse hr
    simpa using this

theorem pieces_bound (f : Str → Bool) (hf : f [] = false) (p : Str) :
    ((splitSlash p).filter f).length + (if endsWithSlash p = true then 1 else 0) ≤ Glob.countSlash p + 1 := by
  by_cases he : endsWithSlash p = true
  · obtain ⟨q, rfl⟩ := endsWithSlash_snoc p he
    rw [if_pos he]
    simp only [splitSlash]
    rw [splitOn_snoc_sep, List.filter_append]
    have h1 : List.filter f [[]] = [] := by simp [hf]
    rw [h1, List.append_nil]
    have h2 := List.length_filter_le f (splitOn '/' q)
    have h3 := splitOn_length q
    have h4 : Glob.countSlash (q ++ ['/']) = Glob.countSlash q + 1 := by simp [Glob.countSlash]
    omega
  · rw [if_neg he]
    have h2 := List.length_filter_le f (splitSlash p)
    have h3 := splitOn_length p
    simp only [splitSlash] at h2 ⊢
    omega

theorem countSlash_render (ns : List Str) (d : Bool) (h : ∀ n ∈ ns, '/' ∉ n) :
    Glob.countSlash (render ns d) = ns.length + (if d = true then 1 else 0) := by
  induction ns with
  | nil => rw [render_nil]; cases d <;> rfl
  | cons n ns ih =>
    rw [render_cons, show ('/' :: (n ++ render ns d)) = ['/'] ++ (n ++ render ns d) from rfl,
      countSlash_append, countSlash_append, countSlash_of_not_mem n (h n List.mem_cons_self),
      ih (fun x hx => h x (List.mem_cons_of_mem _ hx))]
    simp [Glob.countSlash]; omega

theorem mapM'_length {α β} (f : α → TR β) (l : List α) : ∀ r, Glob.mapM' f l = .ok r → r.length = l.length := by
  induction l with
  | nil => intro r h; cases h; rfl
  | cons a l ih =>
    intro r h
    rw [mapM'_cons] at h
    cases hf : f a with
    | err e => rw [hf] at h; cases h
    | ok b =>
      rw [hf] at h
      cases hr : Glob.mapM' f l with
      | err e => rw [hr] at h; cases h
      | ok r' => rw [hr] at h; cases h; simp [ih r' hr]

theorem iteratepath_ok_resolve (p : Str) (comps : List Str) (h : iteratepath p = .ok comps) :
    resolve (splitSlash p) = some comps := by
  cases hr : resolve (splitSlash p) with
  | none =>
    unfold iteratepath at h
    rw [normpath_eq_specNorm, specNorm, hr] at h
    cases h
  | some cs =>
    rw [iteratepath_of_resolve p cs hr] at h
    cases h; rfl

theorem levels_core (pat : Str) (path : List Str) (isDir cs : Bool)
    (hnsr : noSlashRanges pat = true) (hpath : ∀ n ∈ path, GoodName n)
    (c : Glob.Compiled) (hc : Glob.translateGlob pat cs = .ok c) (k : Nat) (hk : c.levels = some k)
    (hm : c.re.matches (render path isDir) = true) : depth path ≤ k := by
  unfold Glob.translateGlob at hc
  cases hit : iteratepath pat with
  | err e => rw [hit] at hc; cases hc
  | ok comps =>
    rw [hit] at hc
    simp only [Glob.liftRes] at hc
    have hres := iteratepath_ok_resolve pat comps hit
    have hclean := resolve_result_clean pat comps hres
    cases hp : Glob.mapM' Glob.compItems comps with
    | err e => rw [hp] at hc; cases hc
    | ok pieces =>
      rw [hp] at hc
      simp only [TR.ok.injEq] at hc
      subst hc
      simp only [Glob.levelsOf] at hk
      split at hk
      · cases hk
      · rename_i hrec
        cases hk
        have hss : ∀ x ∈ comps, Glob.hasSS x = false := by
          intro x hx
          cases hh : Glob.hasSS x with
          | false => rfl
          | true => exact absurd (List.any_eq_true.2 ⟨x, hx, hh⟩) hrec
        rw [mapM'_segs comps hss] at hp
        cases hl : Glob.mapM' (Glob.mapM' globItem) (comps.map (tokenize · 0)) with
        | err e => rw [hl] at hp; cases hp
        | ok l =>
          rw [hl] at hp
          simp only [TR.map, TR.ok.injEq] at hp
          subst hp
          have htail : (if endsWithSlash pat = true then [Item.one Glob.slash, Item.eol] else [Item.eol])
              = tailItems (endsWithSlash pat) := by unfold tailItems; rfl
          simp only [Regex.matches, flags_ms, htail, List.cons_append, matchItems, atBol,
            beq_self_eq_true, Bool.true_or, Bool.true_and] at hm
          rw [show (List.map (fun x => Item.one Glob.slash :: x) l).flatten = segsItems l from rfl] at hm
          have hmem : ∀ x ∈ comps, x ∈ splitSlash pat := by
            intro x hx
            rcases foldl_step_mem (splitSlash pat) [] comps hres x hx with h | h
            · cases h
            · exact h
          have hns : ∀ toks ∈ comps.map (tokenize · 0), ∀ t ∈ toks, noSlashTok t = true := by
            intro toks htoks t ht
            obtain ⟨x, hx, rfl⟩ := List.mem_map.1 htoks
            have := List.all_eq_true.1 hnsr x (hmem x hx)
            exact List.all_eq_true.1 this t ht
          have hlit : ∀ toks ∈ comps.map (tokenize · 0), ∀ x, Tok.lit x ∈ toks → x ≠ '/' := by
            intro toks htoks x hx
            obtain ⟨comp, hcomp, rfl⟩ := List.mem_map.1 htoks
            have hxc := tokenize_lit_mem comp 0 x hx
            intro e; subst e
            exact (hclean comp hcomp).2.2.2 hxc
          have hcount := count_slash cs (endsWithSlash pat) _ hns hlit l hl none _
            (render_no_nl path isDir hpath) hm
          rw [countSlash_render path isDir (fun n hn => (hpath n hn).2.1)] at hcount
          have hlen : l.length = comps.length := by
            rw [mapM'_length _ _ l hl, List.length_map]
          have hcl := foldl_step_length (fun c => decide (c ≠ [])) (by intro c; simp)
            (splitSlash pat) [] comps hres
          have hpb := pieces_bound (fun c => decide (c ≠ [])) (by simp) pat
          simp only [depth, List.length_nil, Nat.zero_add] at *
          split at hcount <;> split at hcount <;> split at hpb <;> simp_all <;> omega

/-! ### the LRU cache -/

theorem mem_odSet {κ ν} [DecidableEq κ] (l : List (κ × ν)) (k : κ) (v : ν) :
    ∀ x ∈ LRU.odSet l k v, x ∈ l ∨ x = (k, v) := by
  induction l with
  | nil => intro x hx; simp [LRU.odSet] at hx; exact Or.inr hx
  | cons a l ih =>
    intro x hx
    obtain ⟨k', v'⟩ := a
    simp only [LRU.odSet] at hx
    split at hx
    · rcases List.mem_cons.1 hx with e | hx
      · exact Or.inr e
      · exact Or.inl (List.mem_cons_of_mem _ hx)
    · rcases List.mem_cons.1 hx with e | hx
      · exact Or.inl (e ▸ List.mem_cons_self)
      · rcases ih x hx with h | h
        · exact Or.inl (List.mem_cons_of_mem _ h)
        · exact Or.inr h

theorem lookup_mem {κ ν} [DecidableEq κ] (c : LRU.Cache κ ν) (k : κ) (v : ν)
    (h : LRU.lookup c k = some v) : (k, v) ∈ c.entries := by
  unfold LRU.lookup at h
  cases hf : c.entries.find? (·.1 = k) with
  | none => rw [hf] at h; cases h
  | some e =>
    rw [hf] at h
    simp only [Option.map_some, Option.some.injEq] at h
    have h1 := List.mem_of_find?_eq_some hf
    have h2 := List.find?_some hf
    simp only [decide_eq_true_eq] at h2
    obtain ⟨a, b⟩ := e
    simp only at h h2
    subst h; subst h2
    exact h1

theorem cache_transparent (cache : Glob.PatCache) (hv : Glob.PatCache.Valid cache) (pat path : Str) (cs : Bool) :
    (Glob.cachedMatch cache pat path cs).1 = Glob.gmatch pat path cs ∧
      Glob.PatCache.Valid (Glob.cachedMatch cache pat path cs).2 := by
  unfold Glob.cachedMatch LRU.get
  cases hl : LRU.lookup cache (pat, cs) with
  | some c =>
    have hmem := lookup_mem cache (pat, cs) c hl
    have hc := hv _ hmem
    simp only at hc
    simp only [Glob.gmatch, hc, TR.map]
    refine ⟨trivial, ?_⟩
    intro e he
    rcases mem_odSet _ _ _ e he with h | h
    · exact hv e ((List.filter_sublist).subset h)
    · subst h; exact hc
  | none =>
    simp only
    cases hc : Glob.compile pat cs with
    | err e => simp only [Glob.gmatch, hc, TR.map]; exact ⟨trivial, hv⟩
    | ok c =>
      simp only [Glob.gmatch, hc, TR.map]
      refine ⟨trivial, ?_⟩
      intro e he
      unfold LRU.set at he
      simp only at he
      rcases mem_odSet _ _ _ e he with h | h
      · split at h
        · exact hv e (List.mem_of_mem_tail h)
        · exact hv e h
      · subst h; exact hc

theorem empty_valid (n : Nat) : Glob.PatCache.Valid (LRU.empty n) := by
  intro e he; cases he

/-! ### the printer: the AST prints to the text the code builds -/

def rawText : Bool → Str → Str
  | _, [] => []
  | first, c :: rest => (Wild.rawChar first c).toPy ++ rawText false rest

theorem rawText_false (s : Str) : rawText false s = Wild.escBackslash s := by
  induction s with
  | nil => rfl
  | cons c s ih =>
    simp only [rawText, ih, Wild.escBackslash, List.flatMap_cons, Wild.rawChar, LChar.toPy]
    by_cases hc : c = '\\' <;> simp [hc]

theorem rawItems_print (body : Str) (first : Bool) :
    ∀ l, Wild.rawItems body first = .ok l → l.flatMap SetItem.toPy = rawText first body := by
  fun_induction Wild.rawItems body first with
  | case1 first => intro l h; cases h; rfl
  | case2 a b rest first hlt => intro l h; cases h
  | case3 a b rest first hlt l' hl ih =>
    intro l h; cases h
    simp only [List.flatMap_cons, SetItem.toPy, ih l' hl, rawText]
    simp [Wild.rawChar, LChar.toPy]
  | case4 a b rest first hlt e he ih => intro l h; cases h
  | case5 a rest first hne l' hl ih =>
    intro l h; cases h
    simp only [List.flatMap_cons, SetItem.toPy, ih l' hl, rawText]
  | case6 a rest first hne e he ih => intro l h; cases h

theorem escBackslash_cons (c : Char) (s : Str) :
    Wild.escBackslash (c :: s) = (if c = '\\' then ['\\', '\\'] else [c]) ++ Wild.escBackslash s := by
  simp [Wild.escBackslash]

theorem wild_classAtom_print (stuff : Str) (a : Atom) (h : Wild.classAtom stuff = .ok a) :
    a.toPy = Wild.classText ['^'] stuff := by
  cases stuff with
  | nil => simp [Wild.classAtom, Wild.rawItems, TR.map] at h; subst h; rfl
  | cons c r =>
    by_cases h1 : c = '!'
    · subst h1
      simp only [Wild.classAtom] at h
      cases hr : Wild.rawItems r false with
      | err e => rw [hr] at h; cases h
      | ok l =>
        rw [hr] at h; cases h
        simp [Atom.toPy, Wild.classText, escBackslash_cons, rawItems_print r false l hr, rawText_false]
    · have hca : Wild.classAtom (c :: r) = (Wild.rawItems (c :: r) true).map (Atom.set false) := by
        simp only [Wild.classAtom]
        split
        · rename_i heq; simp at heq; exact absurd heq.1 h1
        · rfl
      rw [hca] at h
      cases hr : Wild.rawItems (c :: r) true with
      | err e => rw [hr] at h; cases h
      | ok l =>
        rw [hr] at h; cases h
        simp only [Atom.toPy, Bool.false_eq_true, if_false, rawItems_print _ _ l hr,
          rawText, rawText_false, Wild.classText, escBackslash_cons]
        by_cases h2 : c = '^'
        · subst h2; simp [Wild.rawChar, LChar.toPy]
        · by_cases h3 : c = '\\'
          · subst h3; simp [Wild.rawChar, LChar.toPy]
          · simp [Wild.rawChar, LChar.toPy, h1, h2, h3]

theorem itemsToPy_cons (i : Item) (l : List Item) : itemsToPy (i :: l) = i.toPy ++ itemsToPy l := by
  simp [itemsToPy]

theorem wild_go_print (s : Str) : ∀ n items, Wild.go s n = .ok items → itemsToPy items = Wild.textGo s n := by
  induction s with
  | nil => intro n items h; simp [Wild.go] at h; subst h; simp [itemsToPy, Wild.textGo]
  | cons c cs ih =>
    intro n items h
    cases n with
    | succ n => simp only [Wild.go] at h; simp only [Wild.textGo]; exact ih n items h
    | zero =>
      simp only [Wild.go] at h
      simp only [Wild.textGo]
      have hcons : ∀ (i : Item) (k : Nat), Wild.cons i (Wild.go cs k) = .ok items →
          ∃ items', Wild.go cs k = .ok items' ∧ items = i :: items' := by
        intro i k hh
        cases hg : Wild.go cs k with
        | err e => rw [hg] at hh; cases hh
        | ok items' => rw [hg] at hh; cases hh; exact ⟨items', rfl, rfl⟩
      split at h
      · obtain ⟨items', hg, rfl⟩ := hcons _ _ h
        rename_i hc
        simp [hc, itemsToPy_cons, ih 0 items' hg, Item.toPy, Atom.toPy, Wild.notSlash, SetItem.toPy, LChar.toPy, lazyMark]
      · split at h
        · obtain ⟨items', hg, rfl⟩ := hcons _ _ h
          rename_i hc1 hc
          simp [hc, itemsToPy_cons, ih 0 items' hg, Item.toPy, Atom.toPy]
        · split at h
          · rename_i hc1 hc2 hc
            cases hs : Wild.scanClass cs with
            | none =>
              rw [hs] at h
              obtain ⟨items', hg, rfl⟩ := hcons _ _ h
              simp [hc, itemsToPy_cons, ih 0 items' hg, Item.toPy, Atom.toPy, LChar.toPy]
            | some p =>
              obtain ⟨stuff, rest⟩ := p
              rw [hs] at h
              simp only at h
              cases ha : Wild.classAtom stuff with
              | err e => rw [ha] at h; cases h
              | ok a =>
                rw [ha] at h
                obtain ⟨items', hg, rfl⟩ := hcons _ _ h
                simp [hc, itemsToPy_cons, ih _ items' hg, Item.toPy, wild_classAtom_print stuff a ha]
          · rename_i hc1 hc2 hc3
            obtain ⟨items', hg, rfl⟩ := hcons _ _ h
            simp [hc1, hc2, hc3, itemsToPy_cons, ih 0 items' hg, Item.toPy, Atom.toPy, Wild.reEscape]

theorem wild_print (pat : Str) (cs : Bool) (r : Regex) (h : Wild.compile pat cs = .ok r) :
    r.toPy = Wild.regexText pat cs := by
  unfold Wild.compile Wild.translate at h
  cases hg : Wild.go (if cs = true then pat else Wild.lowerStr pat) 0 with
  | err e => rw [hg] at h; cases h
  | ok items =>
    rw [hg] at h
    simp only [TR.map, TR.ok.injEq] at h
    subst h
    have := wild_go_print _ 0 items hg
    simp only [Regex.toPy, Wild.regexText, Wild.translateText, itemsToPy, List.flatMap_append] at this ⊢
    rw [this]
    simp [Item.toPy]

theorem glob_classAtom_print (stuff : Str) (a : Atom) (h : Glob.classAtom stuff = .ok a) :
    a.toPy = Wild.classText ['^', '/'] stuff := by
  cases stuff with
  | nil => simp [Glob.classAtom, Wild.rawItems, TR.map] at h; subst h; rfl
  | cons c r =>
    by_cases h1 : c = '!'
    · subst h1
      simp only [Glob.classAtom] at h
      split at h
      · cases h
      · cases hr : Wild.rawItems ('/' :: r) false with
        | err e => rw [hr] at h; cases h
        | ok l =>
          rw [hr] at h; cases h
          simp [Atom.toPy, Wild.classText, escBackslash_cons, rawItems_print _ false l hr, rawText_false]
    · have hca : Glob.classAtom (c :: r) = (Wild.rawItems (c :: r) true).map (Atom.set false) := by
        simp only [Glob.classAtom]
        split
        · rename_i heq; simp at heq; exact absurd heq.1 h1
        · rfl
      rw [hca] at h
      cases hr : Wild.rawItems (c :: r) true with
      | err e => rw [hr] at h; cases h
      | ok l =>
        rw [hr] at h; cases h
        simp only [Atom.toPy, Bool.false_eq_true, if_false, rawItems_print _ _ l hr,
          rawText, rawText_false, Wild.classText, escBackslash_cons]
        by_cases h2 : c = '^'
        · subst h2; simp [Wild.rawChar, LChar.toPy]
        · by_cases h3 : c = '\\'
          · subst h3; simp [Wild.rawChar, LChar.toPy]
          · simp [Wild.rawChar, LChar.toPy, h1, h2, h3]

theorem glob_go_print (s : Str) : ∀ n items, Glob.go s n = .ok items →
    Glob.textGo s n = .ok (itemsToPy items) := by
  induction s with
  | nil => intro n items h; simp [Glob.go] at h; subst h; simp [itemsToPy, Glob.textGo]
  | cons c cs ih =>
    intro n items h
    cases n with
    | succ n => simp only [Glob.go] at h; simp only [Glob.textGo]; exact ih n items h
    | zero =>
      simp only [Glob.go] at h
      simp only [Glob.textGo]
      have hcons : ∀ (i : Item) (k : Nat), Wild.cons i (Glob.go cs k) = .ok items →
          ∃ items', Glob.go cs k = .ok items' ∧ items = i :: items' := by
        intro i k hh
        cases hg : Glob.go cs k with
        | err e => rw [hg] at hh; cases hh
        | ok items' => rw [hg] at hh; cases hh; exact ⟨items', rfl, rfl⟩
      split at h
      · rename_i hc
        split at h
        · cases h
        · rename_i hh
          obtain ⟨items', hg, rfl⟩ := hcons _ _ h
          simp [hc, hh, Glob.tappend, TR.map, itemsToPy_cons, ih 0 items' hg, Item.toPy, Atom.toPy, Wild.notSlash, SetItem.toPy, LChar.toPy, lazyMark]
      · split at h
        · obtain ⟨items', hg, rfl⟩ := hcons _ _ h
          rename_i hc1 hc
          simp [hc, Glob.tappend, TR.map, itemsToPy_cons, ih 0 items' hg, Item.toPy, Atom.toPy, Wild.notSlash, SetItem.toPy, LChar.toPy]
        · split at h
          · rename_i hc1 hc2 hc
            cases hs : Wild.scanClass cs with
            | none =>
              rw [hs] at h
              obtain ⟨items', hg, rfl⟩ := hcons _ _ h
              simp [hc, Glob.tappend, TR.map, itemsToPy_cons, ih 0 items' hg, Item.toPy, Atom.toPy, LChar.toPy]
            | some p =>
              obtain ⟨stuff, rest⟩ := p
              rw [hs] at h
              simp only at h
              cases ha : Glob.classAtom stuff with
              | err e => rw [ha] at h; cases h
              | ok a =>
                rw [ha] at h
                obtain ⟨items', hg, rfl⟩ := hcons _ _ h
                simp [hc, Glob.tappend, TR.map, itemsToPy_cons, ih _ items' hg, Item.toPy, glob_classAtom_print stuff a ha]
          · rename_i hc1 hc2 hc3
            obtain ⟨items', hg, rfl⟩ := hcons _ _ h
            simp [hc1, hc2, hc3, Glob.tappend, TR.map, itemsToPy_cons, ih 0 items' hg, Item.toPy, Atom.toPy, Wild.reEscape]

theorem itemsToPy_append (a b : List Item) : itemsToPy (a ++ b) = itemsToPy a ++ itemsToPy b := by
  simp [itemsToPy]

theorem mapM_translate_print (L : List Str) : ∀ ls, Glob.mapM' Glob.translate L = .ok ls →
    Glob.mapM' Glob.translateText L = .ok (ls.map itemsToPy) := by
  induction L with
  | nil => intro ls h; cases h; rfl
  | cons c L ih =>
    intro ls h
    rw [mapM'_cons] at h
    cases ht : Glob.translate c with
    | err e => rw [ht] at h; cases h
    | ok items =>
      rw [ht] at h
      cases hr : Glob.mapM' Glob.translate L with
      | err e => rw [hr] at h; cases h
      | ok ls' =>
        rw [hr] at h; cases h
        rw [mapM'_cons, Glob.translateText, glob_go_print c 0 items ht, ih ls' hr]
        rfl

theorem joinItems_print (sep : List Item) (ls : List (List Item)) :
    itemsToPy (Glob.joinItems sep ls) = Glob.joinStr (itemsToPy sep) (ls.map itemsToPy) := by
  induction ls with
  | nil => rfl
  | cons a ls ih =>
    cases ls with
    | nil => rfl
    | cons b rest =>
      simp only [Glob.joinItems, Glob.joinStr, List.map_cons, itemsToPy_append] at ih ⊢
      rw [ih]

theorem compItems_print (c : Str) (items : List Item) (h : Glob.compItems c = .ok items) :
    Glob.compText c = .ok (itemsToPy items) := by
  unfold Glob.compItems at h
  unfold Glob.compText
  split at h
  · rename_i hss
    simp only [hss, if_true]
    cases hm : Glob.mapM' Glob.translate (Glob.splitSS c) with
    | err e => rw [hm] at h; cases h
    | ok ls =>
      rw [hm] at h
      simp only [TR.map, TR.ok.injEq] at h
      subst h
      rw [mapM_translate_print _ ls hm]
      simp only [TR.map, itemsToPy_cons, joinItems_print]
      rfl
  · rename_i hss
    simp only [hss]
    cases ht : Glob.translate c with
    | err e => rw [ht] at h; cases h
    | ok its =>
      rw [ht] at h
      simp only [Wild.cons, TR.map, TR.ok.injEq] at h
      subst h
      rw [Glob.translateText, glob_go_print c 0 its ht]
      rfl

theorem mapM_compItems_print (L : List Str) : ∀ ps, Glob.mapM' Glob.compItems L = .ok ps →
    Glob.mapM' Glob.compText L = .ok (ps.map itemsToPy) := by
  induction L with
  | nil => intro ls h; cases h; rfl
  | cons c L ih =>
    intro ps h
    rw [mapM'_cons] at h
    cases ht : Glob.compItems c with
    | err e => rw [ht] at h; cases h
    | ok items =>
      rw [ht] at h
      cases hr : Glob.mapM' Glob.compItems L with
      | err e => rw [hr] at h; cases h
      | ok ps' =>
        rw [hr] at h; cases h
        rw [mapM'_cons, compItems_print c items ht, ih ps' hr]
        rfl

theorem itemsToPy_flatten (ps : List (List Item)) : itemsToPy ps.flatten = (ps.map itemsToPy).flatten := by
  induction ps with
  | nil => rfl
  | cons a ps ih => simp [itemsToPy_append, ih]

theorem glob_print (pat : Str) (cs : Bool) (c : Glob.Compiled) (h : Glob.translateGlob pat cs = .ok c) :
    Glob.translateGlobText pat = .ok (c.levels, c.recursive, c.re.toPy) := by
  unfold Glob.translateGlob at h
  unfold Glob.translateGlobText
  cases hit : Glob.liftRes (iteratepath pat) with
  | err e => rw [hit] at h; cases h
  | ok comps =>
    rw [hit] at h
    simp only at h ⊢
    cases hp : Glob.mapM' Glob.compItems comps with
    | err e => rw [hp] at h; cases h
    | ok ps =>
      rw [hp] at h
      simp only [TR.ok.injEq] at h
      subst h
      rw [mapM_compItems_print comps ps hp]
      simp only [Regex.toPy, itemsToPy_cons, List.cons_append, itemsToPy_append, itemsToPy_flatten]
      by_cases he : endsWithSlash pat = true <;> simp [he, itemsToPy, Item.toPy, Atom.toPy, Glob.slash, LChar.toPy]

end Fs.GlobLemmas
