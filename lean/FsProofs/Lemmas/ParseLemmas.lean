/-
  Helper lemmas for C20 (URL parser / builder).  Core Lean only.
-/
import FsModel.Parse
import FsProofs.Lemmas.PathLemmas

namespace Fs.ParseLemmas
open Fs Fs.Path Fs.Parse Fs.PathLemmas

/-! ### `has`, `partition` -/

theorem has_eq_true_iff (c : Char) (s : Str) : has c s = true ↔ c ∈ s := by
  unfold has
  induction s with
  | nil => simp
  | cons x xs ih =>
    simp only [List.any_cons, Bool.or_eq_true, ih, List.mem_cons, beq_iff_eq]
    constructor
    · rintro (h | h)
      · exact Or.inl h.symm
      · exact Or.inr h
    · rintro (h | h)
      · exact Or.inl h.symm
      · exact Or.inr h

theorem has_eq_false_iff (c : Char) (s : Str) : has c s = false ↔ c ∉ s := by
  rw [← has_eq_true_iff]; cases has c s <;> simp

theorem partition_append_sep (c : Char) (a b : Str) (h : c ∉ a) :
    partition c (a ++ c :: b) = (a, true, b) := by
  induction a with
  | nil => simp [partition]
  | cons x xs ih =>
    have hx : x ≠ c := fun e => h (by simp [e])
    have hxs : c ∉ xs := fun e => h (by simp [e])
    simp [partition, hx, ih hxs]

theorem partition_not_mem (c : Char) (a : Str) (h : c ∉ a) :
    partition c a = (a, false, []) := by
  induction a with
  | nil => simp [partition]
  | cons x xs ih =>
    have hx : x ≠ c := fun e => h (by simp [e])
    have hxs : c ∉ xs := fun e => h (by simp [e])
    simp [partition, hx, ih hxs]

/-- `partition` always splits its input: before ++ (sep) ++ after -/
theorem partition_spec (c : Char) (s : Str) :
    (partition c s).2.1 = true → s = (partition c s).1 ++ c :: (partition c s).2.2 := by
  induction s with
  | nil => simp [partition]
  | cons x xs ih =>
    by_cases hx : x = c
    · subst hx; simp [partition]
    · simp only [partition, hx, if_false]
      intro h
      have := ih h
      simp only [List.cons_append]
      exact congrArg (x :: ·) this

theorem partition_fst_not_mem (c : Char) (s : Str) : c ∉ (partition c s).1 := by
  induction s with
  | nil => simp [partition]
  | cons x xs ih =>
    by_cases hx : x = c
    · subst hx; simp [partition]
    · simp only [partition, hx, if_false, List.mem_cons, not_or]
      exact ⟨fun e => hx e.symm, ih⟩

theorem partition_found_iff (c : Char) (s : Str) : (partition c s).2.1 = true ↔ c ∈ s := by
  induction s with
  | nil => simp [partition]
  | cons x xs ih =>
    by_cases hx : x = c
    · subst hx; simp [partition]
    · have : c ≠ x := fun e => hx e.symm
      simp [partition, hx, ih, this]

/-! ### `dropFinalNl` -/

theorem dropFinalNl_of_not_mem (s : Str) (h : '\n' ∉ s) : dropFinalNl s = s := by
  induction s with
  | nil => rfl
  | cons x xs ih =>
    cases xs with
    | nil =>
      have : x ≠ '\n' := fun e => h (by simp [e])
      simp [dropFinalNl, this]
    | cons y ys =>
      have hxs : '\n' ∉ y :: ys := fun e => h (List.mem_cons_of_mem _ e)
      simp only [dropFinalNl]
      rw [ih hxs]

theorem dropFinalNl_append (a b : Str) (hb : b ≠ []) :
    dropFinalNl (a ++ b) = a ++ dropFinalNl b := by
  induction a with
  | nil => rfl
  | cons x xs ih =>
    cases hxs : xs ++ b with
    | nil =>
      have := List.append_eq_nil_iff.1 hxs
      exact absurd this.2 hb
    | cons y ys =>
      simp only [List.cons_append, hxs, dropFinalNl]
      rw [← hxs, ih]

theorem dropFinalNl_sublist (s : Str) : ∀ c ∈ dropFinalNl s, c ∈ s := by
  induction s with
  | nil => simp [dropFinalNl]
  | cons x xs ih =>
    cases xs with
    | nil =>
      intro c hc
      by_cases hx : x = '\n'
      · simp [dropFinalNl, hx] at hc
      · simpa [dropFinalNl, hx] using hc
    | cons y ys =>
      intro c hc
      simp only [dropFinalNl, List.mem_cons] at hc
      rcases hc with h | h
      · simp [h]
      · exact List.mem_cons_of_mem _ (ih c h)

/-! ### `splitScheme` -/

def sep3 : Str := [':', '/', '/']

theorem splitScheme_some {s a b : Str} (h : splitScheme s = some (a, b)) :
    s = a ++ ':' :: '/' :: '/' :: b := by
  induction s generalizing a with
  | nil => simp [splitScheme] at h
  | cons c rest ih =>
    unfold splitScheme at h
    split at h
    · simp only [Option.some.injEq, Prod.mk.injEq] at h
      obtain ⟨rfl, rfl⟩ := h
      rfl
    · split at h
      · simp at h
      · rename_i a' b' hr
        simp only [Option.some.injEq, Prod.mk.injEq] at h
        obtain ⟨rfl, rfl⟩ := h
        rw [ih hr]; rfl

theorem splitScheme_none {s : Str} (h : splitScheme s = none) (a b : Str) :
    s ≠ a ++ ':' :: '/' :: '/' :: b := by
  induction s generalizing a with
  | nil => intro e; cases a <;> simp at e
  | cons c rest ih =>
    unfold splitScheme at h
    split at h
    · simp at h
    · rename_i hne
      split at h
      · rename_i hr
        intro e
        cases a with
        | nil =>
          simp only [List.nil_append, List.cons.injEq] at e
          obtain ⟨rfl, rfl⟩ := e
          exact hne _ rfl rfl
        | cons x xs =>
          simp only [List.cons_append, List.cons.injEq] at e
          exact ih hr xs e.2
      · simp at h

/-- the first occurrence: nothing before it starts a `://` -/
theorem splitScheme_first {s a b : Str} (h : splitScheme s = some (a, b)) :
    splitScheme (a ++ [':', '/']) = none := by
  induction s generalizing a with
  | nil => simp [splitScheme] at h
  | cons c rest ih =>
    unfold splitScheme at h
    split at h
    · simp only [Option.some.injEq, Prod.mk.injEq] at h
      obtain ⟨rfl, rfl⟩ := h
      decide
    · rename_i hne
      split at h
      · simp at h
      · rename_i a' b' hr
        simp only [Option.some.injEq, Prod.mk.injEq] at h
        obtain ⟨rfl, rfl⟩ := h
        have ih' := ih hr
        have hrest := splitScheme_some hr
        show splitScheme (c :: (a' ++ [':', '/'])) = none
        unfold splitScheme
        split
        · rename_i r heq
          -- a head match in `c :: a' ++ ":/"` would be a head match in `c :: rest`
          exfalso
          rw [hrest] at hne
          cases a' with
          | nil => simp at heq
          | cons x xs =>
            cases xs with
            | nil => simp at heq
            | cons y ys =>
              simp only [List.cons_append, List.cons.injEq] at heq
              obtain ⟨rfl, rfl, _⟩ := heq
              exact hne _ rfl rfl
        · rw [ih']

/-- builder direction: a protocol that starts no `://` (even with the separator's first two
    characters appended) is recovered as group 1 -/
theorem splitScheme_build (p r : Str) (h : splitScheme (p ++ [':', '/']) = none) :
    splitScheme (p ++ ':' :: '/' :: '/' :: r) = some (p, r) := by
  induction p with
  | nil => simp [splitScheme]
  | cons c p' ih =>
    have h' := h
    simp only [List.cons_append] at h'
    unfold splitScheme at h'
    split at h'
    · simp at h'
    · rename_i hne
      split at h'
      · rename_i hr
        have ihr := ih hr
        simp only [List.cons_append]
        unfold splitScheme
        split
        · rename_i r' heq
          exfalso
          cases p' with
          | nil => simp at heq
          | cons x xs =>
            cases xs with
            | nil => simp at heq
            | cons y ys =>
              simp only [List.cons_append, List.cons.injEq] at heq
              obtain ⟨rfl, rfl, _⟩ := heq
              exact hne _ rfl rfl
        · rw [ihr]
      · simp at h'

/-! ### UTF-8, `quote`, `unquote` -/

theorem char_valid (c : Char) : c.toNat < 0xD800 ∨ (0xDFFF < c.toNat ∧ c.toNat < 0x110000) := by
  have := c.valid
  unfold UInt32.isValidChar Nat.isValidChar at this
  exact this

theorem hexVal_hexUp : ∀ n, n < 16 → hexVal? (hexUp n) = some n := by decide

theorem hexUp_ne_pct : ∀ n, n < 16 → hexUp n ≠ '%' := by decide

theorem unqBytes_cons_ne (c : Char) (rest : Str) (h : c ≠ '%') :
    unqBytes (c :: rest) = c.toNat :: unqBytes rest := by
  rw [unqBytes.eq_def]
  split
  · simp at *
  · rename_i heq; simp only [List.cons.injEq] at heq; exact absurd heq.1 h
  · rename_i heq; simp only [List.cons.injEq] at heq; obtain ⟨rfl, rfl⟩ := heq; rfl

theorem unqBytes_pct (b : Nat) (hb : b < 256) (rest : Str) :
    unqBytes (pctByte b ++ rest) = b :: unqBytes rest := by
  have h1 : b / 16 < 16 := by omega
  have h2 : b % 16 < 16 := by omega
  simp only [pctByte, List.cons_append, List.nil_append]
  rw [unqBytes.eq_def]
  simp only [hexVal_hexUp _ h1, hexVal_hexUp _ h2]
  congr 1
  omega

theorem u8Start_1 (b : Nat) (h : b < 0x80) : u8Start b = (some (Char.ofNat b), .idle) := by
  simp [u8Start, h]
theorem u8Start_2 (b : Nat) (h1 : 0xC2 ≤ b) (h2 : b < 0xE0) :
    u8Start b = (none, .pend (b - 0xC0) 1 0x80 0xC0) := by
  simp [u8Start, show ¬ b < 0x80 by omega, show ¬ b < 0xC2 by omega, h2]
theorem u8Start_3 (b : Nat) (h1 : 0xE0 ≤ b) (h2 : b < 0xF0) :
    u8Start b = (none, .pend (b - 0xE0) 2 (if b = 0xE0 then 0xA0 else 0x80) (if b = 0xED then 0xA0 else 0xC0)) := by
  simp [u8Start, show ¬ b < 0x80 by omega, show ¬ b < 0xC2 by omega, show ¬ b < 0xE0 by omega, h2]
theorem u8Start_4 (b : Nat) (h1 : 0xF0 ≤ b) (h2 : b < 0xF5) :
    u8Start b = (none, .pend (b - 0xF0) 3 (if b = 0xF0 then 0x90 else 0x80) (if b = 0xF4 then 0x90 else 0xC0)) := by
  simp [u8Start, show ¬ b < 0x80 by omega, show ¬ b < 0xC2 by omega, show ¬ b < 0xE0 by omega,
    show ¬ b < 0xF0 by omega, h2]

theorem u8Go_pend_last (acc lo hi b : Nat) (rest : List Nat) (h1 : lo ≤ b) (h2 : b < hi) :
    u8Go (.pend acc 1 lo hi) (b :: rest) = Char.ofNat (acc * 64 + (b - 0x80)) :: u8Go .idle rest := by
  simp [u8Go, h1, h2]

theorem u8Go_pend_more (acc k lo hi b : Nat) (rest : List Nat) (h1 : lo ≤ b) (h2 : b < hi) (hk : 1 < k) :
    u8Go (.pend acc k lo hi) (b :: rest) = u8Go (.pend (acc * 64 + (b - 0x80)) (k - 1) 0x80 0xC0) rest := by
  simp [u8Go, h1, h2, show ¬ k ≤ 1 by omega]

theorem u8Go_idle_cons (b : Nat) (rest : List Nat) :
    u8Go .idle (b :: rest) = emit (u8Start b).1 (u8Go (u8Start b).2 rest) := by
  simp [u8Go]

theorem u8Go_enc (c : Char) (rest : List Nat) :
    u8Go .idle (utf8Enc c ++ rest) = c :: u8Go .idle rest := by
  have hv := char_valid c
  have hc : Char.ofNat c.toNat = c := Char.ofNat_toNat c
  generalize hn : c.toNat = n at *
  unfold utf8Enc
  simp only [hn]
  by_cases h1 : n < 0x80
  · simp only [h1, if_true, List.cons_append, List.nil_append]
    rw [u8Go_idle_cons, u8Start_1 _ h1]; simp [emit, hc]
  · by_cases h2 : n < 0x800
    · simp only [h1, h2, if_true, if_false, List.cons_append, List.nil_append]
      rw [u8Go_idle_cons, u8Start_2 _ (by omega) (by omega)]
      simp only [emit]
      rw [u8Go_pend_last _ _ _ _ _ (by omega) (by omega)]
      rw [show (0xC0 + n / 64 - 0xC0) * 64 + (0x80 + n % 64 - 0x80) = n by omega, hc]
    · by_cases h3 : n < 0x10000
      · simp only [h1, h2, h3, if_true, if_false, List.cons_append, List.nil_append]
        rw [u8Go_idle_cons, u8Start_3 _ (by omega) (by omega)]
        simp only [emit]
        rw [u8Go_pend_more _ _ _ _ _ _ (by split <;> omega) (by split <;> omega) (by omega)]
        rw [u8Go_pend_last _ _ _ _ _ (by omega) (by omega)]
        rw [show ((0xE0 + n / 4096 - 0xE0) * 64 + (0x80 + n / 64 % 64 - 0x80)) * 64 + (0x80 + n % 64 - 0x80) = n by omega, hc]
      · simp only [h1, h2, h3, if_false, List.cons_append, List.nil_append]
        rw [u8Go_idle_cons, u8Start_4 _ (by omega) (by omega)]
        simp only [emit]
        rw [u8Go_pend_more _ _ _ _ _ _ (by split <;> omega) (by split <;> omega) (by omega)]
        rw [u8Go_pend_more _ _ _ _ _ _ (by omega) (by omega) (by omega)]
        rw [u8Go_pend_last _ _ _ _ _ (by omega) (by omega)]
        rw [show (((0xF0 + n / 262144 - 0xF0) * 64 + (0x80 + n / 4096 % 64 - 0x80)) * 64 + (0x80 + n / 64 % 64 - 0x80)) * 64 + (0x80 + n % 64 - 0x80) = n by omega, hc]

theorem utf8Dec_flatMap (s : Str) (rest : List Nat) :
    u8Go .idle (s.flatMap utf8Enc ++ rest) = s ++ u8Go .idle rest := by
  induction s with
  | nil => rfl
  | cons c cs ih => simp only [List.flatMap_cons, List.append_assoc, u8Go_enc, ih, List.cons_append]

theorem utf8Enc_lt (c : Char) : ∀ b ∈ utf8Enc c, b < 256 := by
  have hv := char_valid c
  intro b hb
  unfold utf8Enc at hb
  simp only at hb
  generalize c.toNat = n at *
  split at hb
  · simp at hb; omega
  · split at hb
    · simp at hb; omega
    · split at hb
      · simp at hb; omega
      · simp at hb; omega

theorem utf8Enc_ascii (c : Char) (h : c.toNat < 128) : utf8Enc c = [c.toNat] := by
  simp [utf8Enc, h]

theorem utf8Enc_ne_nil (c : Char) : utf8Enc c ≠ [] := by
  unfold utf8Enc; simp only; split
  · simp
  · split
    · simp
    · split <;> simp

theorem unqBytes_flatMap_pct (bs : List Nat) (h : ∀ b ∈ bs, b < 256) (rest : Str) :
    unqBytes (bs.flatMap pctByte ++ rest) = bs ++ unqBytes rest := by
  induction bs with
  | nil => rfl
  | cons b bs ih =>
    simp only [List.flatMap_cons, List.append_assoc]
    rw [unqBytes_pct b (h b (by simp)), ih (fun x hx => h x (by simp [hx]))]
    rfl

theorem unreserved_ne_pct (c : Char) (h : isUnreserved c = true) : c ≠ '%' := by
  rintro rfl; revert h; decide

theorem unreserved_ascii (c : Char) (h : isUnreserved c = true) : c.toNat < 128 := by
  unfold isUnreserved isAlnumAscii at h
  simp only [Bool.or_eq_true, Bool.and_eq_true, decide_eq_true_eq, beq_iff_eq] at h
  rcases h with (((((h | h) | h) | h) | h) | h) | h
  · omega
  · omega
  · omega
  · subst h; decide
  · subst h; decide
  · subst h; decide
  · subst h; decide

/-- the characters `quoteWith safe` leaves alone -/
def Kept (safe : Char → Bool) (c : Char) : Bool := isUnreserved c || (isAscii c && safe c)

theorem kept_ascii (safe : Char → Bool) (c : Char) (h : Kept safe c = true) : c.toNat < 128 := by
  unfold Kept at h
  simp only [Bool.or_eq_true, Bool.and_eq_true] at h
  rcases h with h | h
  · exact unreserved_ascii c h
  · simpa [isAscii] using h.1

theorem kept_ne_pct (safe : Char → Bool) (hs : safe '%' = false) (c : Char) (h : Kept safe c = true) :
    c ≠ '%' := by
  rintro rfl
  unfold Kept at h
  simp only [Bool.or_eq_true, Bool.and_eq_true, hs] at h
  rcases h with h | h
  · exact absurd h (by decide)
  · simp at h

theorem unqBytes_quoteChar (safe : Char → Bool) (hs : safe '%' = false) (c : Char) (rest : Str) :
    unqBytes (quoteChar safe c ++ rest) = utf8Enc c ++ unqBytes rest := by
  unfold quoteChar
  by_cases hk : Kept safe c = true
  · have hk' := hk; unfold Kept at hk'
    simp only [hk', if_true, List.cons_append, List.nil_append]
    rw [unqBytes_cons_ne c rest (kept_ne_pct safe hs c hk), utf8Enc_ascii c (kept_ascii safe c hk)]
    rfl
  · have hk' := hk; unfold Kept at hk'
    simp only [hk']
    exact unqBytes_flatMap_pct _ (utf8Enc_lt c) rest

theorem unqBytes_quoteWith (safe : Char → Bool) (hs : safe '%' = false) (s : Str) (rest : Str) :
    unqBytes (quoteWith safe s ++ rest) = s.flatMap utf8Enc ++ unqBytes rest := by
  induction s with
  | nil => rfl
  | cons c cs ih =>
    simp only [quoteWith, List.flatMap_cons, List.append_assoc] at ih ⊢
    rw [unqBytes_quoteChar safe hs, ih]

/-- characters of a quoted string: kept ones, `%`, upper-case hex digits -/
def QOut (safe : Char → Bool) (c : Char) : Prop := Kept safe c = true ∨ c = '%'

theorem hexUp_unreserved : ∀ n, n < 16 → isUnreserved (hexUp n) = true := by decide

theorem quoteWith_mem (safe : Char → Bool) (s : Str) : ∀ c ∈ quoteWith safe s, QOut safe c := by
  intro c hc
  simp only [quoteWith, List.mem_flatMap] at hc
  obtain ⟨x, _, hx⟩ := hc
  unfold quoteChar at hx
  split at hx
  · rename_i hk
    simp only [List.mem_singleton] at hx
    subst hx
    exact Or.inl hk
  · simp only [List.mem_flatMap] at hx
    obtain ⟨b, hb, hcb⟩ := hx
    have hb' := utf8Enc_lt x b hb
    simp only [pctByte, List.mem_cons, List.not_mem_nil, or_false] at hcb
    rcases hcb with h | h | h
    · exact Or.inr h
    · left; subst h; unfold Kept; rw [hexUp_unreserved _ (by omega)]; rfl
    · left; subst h; unfold Kept; rw [hexUp_unreserved _ (by omega)]; rfl

theorem qout_ascii (safe : Char → Bool) (c : Char) (h : QOut safe c) : isAscii c = true := by
  rcases h with h | h
  · simpa [isAscii] using kept_ascii safe c h
  · subst h; decide

theorem unqRuns_ascii (q : Str) (h : ∀ c ∈ q, isAscii c = true) (acc : Str) :
    unqRuns acc q = utf8Dec (unqBytes (acc.reverse ++ q)) := by
  induction q generalizing acc with
  | nil => simp [unqRuns]
  | cons c cs ih =>
    have hc := h c (by simp)
    simp only [unqRuns, hc, if_true]
    rw [ih (fun x hx => h x (by simp [hx]))]
    simp

theorem quoteWith_eq_self_of_no_pct (safe : Char → Bool) (s : Str) (h : '%' ∉ quoteWith safe s) :
    quoteWith safe s = s := by
  induction s with
  | nil => rfl
  | cons c cs ih =>
    simp only [quoteWith, List.flatMap_cons, List.mem_append, not_or] at h ih ⊢
    rw [ih h.2]
    have h1 := h.1
    unfold quoteChar at h1 ⊢
    split
    · rfl
    · rename_i hk
      simp only [hk] at h1
      exfalso
      apply h1
      cases he : utf8Enc c with
      | nil => exact absurd he (utf8Enc_ne_nil c)
      | cons b bs => simp [pctByte]

theorem unquote_quoteWith (safe : Char → Bool) (hs : safe '%' = false) (s : Str) :
    unquote (quoteWith safe s) = s := by
  unfold unquote
  split
  · rw [unqRuns_ascii _ (fun c hc => qout_ascii safe c (quoteWith_mem safe s c hc))]
    simp only [List.reverse_nil, List.nil_append]
    have := unqBytes_quoteWith safe hs s []
    simp only [List.append_nil] at this
    rw [this]
    have h2 := utf8Dec_flatMap s []
    simpa [utf8Dec, u8Go, unqBytes] using h2
  · rename_i hp
    have : '%' ∉ quoteWith safe s := by
      rw [← has_eq_false_iff]; simpa using hp
    exact quoteWith_eq_self_of_no_pct safe s this

theorem unquote_quoteAll (s : Str) : unquote (quoteAll s) = s :=
  unquote_quoteWith _ rfl s

theorem unquote_urlQuote (s : Str) : unquote (urlQuote s) = s :=
  unquote_quoteWith _ (by decide) s

/-! ### the builder and the parser -/

abbrev noSafe : Char → Bool := fun _ => false

theorem not_mem_quoteAll (c : Char) (hc : ¬ QOut noSafe c) (s : Str) : c ∉ quoteAll s :=
  fun h => hc (quoteWith_mem _ s c h)

theorem nq_at : ¬ QOut noSafe '@' := by unfold QOut; decide
theorem nq_colon : ¬ QOut noSafe ':' := by unfold QOut; decide
theorem nq_bang : ¬ QOut noSafe '!' := by unfold QOut; decide
theorem nq_quest : ¬ QOut noSafe '?' := by unfold QOut; decide
theorem nq_amp : ¬ QOut noSafe '&' := by unfold QOut; decide
theorem nq_eq : ¬ QOut noSafe '=' := by unfold QOut; decide
theorem nq_plus : ¬ QOut noSafe '+' := by unfold QOut; decide
theorem nq_nl : ¬ QOut noSafe '\n' := by unfold QOut; decide

theorem replaceChar_of_not_mem (a b : Char) (s : Str) (h : a ∉ s) : replaceChar a b s = s := by
  induction s with
  | nil => rfl
  | cons x xs ih =>
    have hx : x ≠ a := fun e => h (by simp [e])
    have hxs : a ∉ xs := fun e => h (by simp [e])
    simp [replaceChar, hx] at ih ⊢
    exact ih hxs

theorem buildParam_ne_nil (kv : Str × Str) : buildParam kv ≠ [] := by
  unfold buildParam; simp

theorem amp_not_mem_buildParam (kv : Str × Str) : '&' ∉ buildParam kv := by
  unfold buildParam
  simp only [List.mem_append, List.mem_cons, not_or]
  exact ⟨not_mem_quoteAll _ nq_amp _, by decide, not_mem_quoteAll _ nq_amp _⟩

theorem parseQsl_build (ps : List (Str × Str)) :
    parseQsl (joinWith '&' (ps.map buildParam)) = ps := by
  by_cases hne : ps = []
  · subst hne; simp [parseQsl, joinWith]
  · have hne' : ps.map buildParam ≠ [] := by simpa using hne
    have hnil : joinWith '&' (ps.map buildParam) ≠ [] := by
      intro e
      rw [joinWith_eq_nil_iff _ _ (by
        intro x hx; simp only [List.mem_map] at hx; obtain ⟨kv, _, rfl⟩ := hx
        exact buildParam_ne_nil kv)] at e
      exact hne' e
    unfold parseQsl
    rw [if_neg hnil, splitOn_joinWith _ _ hne' (by
      intro x hx; simp only [List.mem_map] at hx; obtain ⟨kv, _, rfl⟩ := hx
      exact amp_not_mem_buildParam kv)]
    rw [List.filter_eq_self.2 (by
      intro x hx; simp only [List.mem_map] at hx; obtain ⟨kv, _, rfl⟩ := hx
      simpa using buildParam_ne_nil kv)]
    rw [List.map_map]
    conv => rhs; rw [← List.map_id ps]
    apply List.map_congr_left
    intro kv _
    simp only [Function.comp, buildParam, id]
    rw [partition_append_sep _ _ _ (not_mem_quoteAll _ nq_eq _)]
    simp only
    rw [replaceChar_of_not_mem _ _ _ (not_mem_quoteAll _ nq_plus _),
      replaceChar_of_not_mem _ _ _ (not_mem_quoteAll _ nq_plus _),
      unquote_quoteAll, unquote_quoteAll]

theorem insertFirst_new (k v : Str) (d : List (Str × Str)) (h : k ∉ d.map Prod.fst) :
    insertFirst k v d = d ++ [(k, v)] := by
  induction d with
  | nil => rfl
  | cons x xs ih =>
    obtain ⟨k', v'⟩ := x
    simp only [List.map_cons, List.mem_cons, not_or] at h
    have : k' ≠ k := fun e => h.1 e.symm
    simp [insertFirst, this, ih h.2]

theorem foldl_insertFirst_nodup (ps d : List (Str × Str))
    (h : ((d ++ ps).map Prod.fst).Nodup) :
    ps.foldl (fun d kv => insertFirst kv.1 kv.2 d) d = d ++ ps := by
  induction ps generalizing d with
  | nil => simp
  | cons x xs ih =>
    simp only [List.foldl_cons]
    have hx : x.1 ∉ d.map Prod.fst := by
      simp only [List.map_append, List.map_cons] at h
      have := (List.nodup_append.1 h).2.2
      intro hm
      exact this _ hm _ (by simp) rfl
    rw [insertFirst_new _ _ _ hx]
    have : d ++ [(x.1, x.2)] ++ xs = d ++ x :: xs := by simp
    rw [ih _ (by rw [this]; exact h), this]

theorem parseParams_build (ps : List (Str × Str)) (h : (ps.map Prod.fst).Nodup) :
    parseParams (joinWith '&' (ps.map buildParam)) = ps := by
  unfold parseParams
  rw [parseQsl_build, foldl_insertFirst_nodup _ [] (by rw [List.nil_append]; exact h)]
  rfl

def tailOf : Option Str → Str
  | none => []
  | some p => '!' :: p

def qsOf (ps : List (Str × Str)) : Str :=
  if ps = [] then [] else '?' :: joinWith '&' (ps.map buildParam)

theorem buildFsUrl_eq (x : ParseResult) :
    buildFsUrl x = x.protocol ++ ':' :: '/' :: '/' ::
      ((match x.username, x.password with
        | none, none => []
        | u, p => quoteAll (u.getD []) ++ ':' :: quoteAll (p.getD []) ++ ['@'])
       ++ (quoteAll x.resource ++ qsOf x.params) ++ tailOf x.path) := by
  obtain ⟨proto, u, p, res, ps, path⟩ := x
  cases u <;> cases p <;> cases path <;> simp [buildFsUrl, qsOf, tailOf, List.append_assoc]

theorem partition_tail (B : Str) (hB : '!' ∉ B) (path : Option Str) :
    partition '!' (B ++ tailOf path) = (B, path.isSome, path.getD []) := by
  cases path with
  | none => simpa [tailOf] using partition_not_mem '!' B hB
  | some p => simpa [tailOf] using partition_append_sep '!' B p hB

theorem joinWith_not_mem (c d : Char) (hcd : c ≠ d) (l : List Str) (h : ∀ x ∈ l, c ∉ x) :
    c ∉ joinWith d l := by
  induction l with
  | nil => simp [joinWith]
  | cons a rest ih =>
    rw [joinWith_cons]
    split
    · exact h a (by simp)
    · simp only [List.mem_append, List.mem_cons, not_or]
      exact ⟨h a (by simp), hcd, ih (fun x hx => h x (by simp [hx]))⟩

theorem not_mem_buildParam (c : Char) (hc : ¬ QOut noSafe c) (hne : c ≠ '=') (kv : Str × Str) :
    c ∉ buildParam kv := by
  unfold buildParam
  simp only [List.mem_append, List.mem_cons, not_or]
  exact ⟨not_mem_quoteAll _ hc _, hne, not_mem_quoteAll _ hc _⟩

theorem not_mem_qs (c : Char) (hc : ¬ QOut noSafe c) (h1 : c ≠ '=') (h2 : c ≠ '&') (h3 : c ≠ '?')
    (ps : List (Str × Str)) : c ∉ qsOf ps := by
  unfold qsOf
  split
  · simp
  · simp only [List.mem_cons, not_or]
    refine ⟨h3, joinWith_not_mem c '&' h2 _ ?_⟩
    intro x hx
    simp only [List.mem_map] at hx
    obtain ⟨kv, _, rfl⟩ := hx
    exact not_mem_buildParam c hc h1 kv

theorem finishUrl_build (proto : Str) (u p : Option Str) (res : Str) (ps : List (Str × Str))
    (path : Option Str) (h : (ps.map Prod.fst).Nodup) :
    finishUrl proto u p (quoteAll res ++ qsOf ps) path = ⟨proto, u, p, res, ps, path⟩ := by
  unfold finishUrl qsOf
  by_cases hps : ps = []
  · subst hps
    simp only [if_true, List.append_nil]
    rw [partition_not_mem _ _ (not_mem_quoteAll _ nq_quest _)]
    simp [unquote_quoteAll]
  · simp only [hps, if_false]
    rw [partition_append_sep _ _ _ (not_mem_quoteAll _ nq_quest _)]
    simp [unquote_quoteAll, parseParams_build ps h]

theorem url_roundtrip_core (x : ParseResult) (h : wfParts x = true) :
    parseFsUrl (buildFsUrl x) = .ok x := by
  obtain ⟨proto, u, p, res, ps, path⟩ := x
  unfold wfParts at h
  simp only [Bool.and_eq_true, Option.isNone_iff_eq_none, Bool.not_eq_true', has_eq_false_iff,
    beq_iff_eq, decide_eq_true_eq] at h
  obtain ⟨⟨⟨⟨h1, h2⟩, h3⟩, h4⟩, h5⟩ := h
  rw [buildFsUrl_eq]
  simp only
  -- pieces
  have hnlq : ∀ s, '\n' ∉ quoteAll s := fun s => not_mem_quoteAll _ nq_nl s
  have hnlqs : '\n' ∉ qsOf ps := not_mem_qs _ nq_nl (by decide) (by decide) (by decide) ps
  have hnlt : '\n' ∉ tailOf path := by
    cases path with
    | none => simp [tailOf]
    | some pp =>
      simp only [pathOk, Bool.and_eq_true, Bool.not_eq_true', has_eq_false_iff] at h5
      simp only [tailOf, List.mem_cons, not_or]
      exact ⟨by decide, h5.1⟩
  have hbang : '!' ∉ quoteAll res ++ qsOf ps := by
    simp only [List.mem_append, not_or]
    exact ⟨not_mem_quoteAll _ nq_bang _, not_mem_qs _ nq_bang (by decide) (by decide) (by decide) ps⟩
  have hpath : (if path.isSome = true then some (path.getD []) else none) = path := by
    cases path <;> rfl
  cases u with
  | none =>
    cases p with
    | some _ => simp at h3
    | none =>
      simp only [List.nil_append]
      have hat : '@' ∉ (quoteAll res ++ qsOf ps) ++ tailOf path := by
        simp only [List.mem_append, not_or]
        refine ⟨⟨not_mem_quoteAll _ nq_at _, not_mem_qs _ nq_at (by decide) (by decide) (by decide) ps⟩, ?_⟩
        cases path with
        | none => simp [tailOf]
        | some pp =>
          simp only [pathOk, Bool.and_eq_true, Bool.not_eq_true', has_eq_false_iff, Option.isSome_none,
            Bool.false_or] at h5
          simp only [tailOf, List.mem_cons, not_or]
          exact ⟨by decide, h5.2⟩
      have hnl : '\n' ∉ (quoteAll res ++ qsOf ps) ++ tailOf path := by
        simp only [List.mem_append, not_or]; exact ⟨⟨hnlq _, hnlqs⟩, hnlt⟩
      have hre : reFsUrl (proto ++ ':' :: '/' :: '/' :: ((quoteAll res ++ qsOf ps) ++ tailOf path))
          = some ⟨proto, none, none, some (quoteAll res ++ qsOf ps), path⟩ := by
        unfold reFsUrl
        rw [splitScheme_build _ _ h1]
        simp only [dropFinalNl_of_not_mem _ hnl]
        rw [(has_eq_false_iff _ _).2 h2, (has_eq_false_iff _ _).2 hnl]
        simp only [Bool.or_self, Bool.false_eq_true, if_false]
        rw [partition_not_mem _ _ hat]
        simp only [Bool.false_eq_true, if_false]
        rw [partition_tail _ hbang, hpath]
      unfold parseFsUrl
      rw [hre]
      simp only [Option.getD_some]
      rw [finishUrl_build _ _ _ _ _ _ h4]
  | some uu =>
    cases p with
    | none => simp at h3
    | some pw =>
      simp only [Option.getD_some]
      have hnl : '\n' ∉ (quoteAll uu ++ ':' :: quoteAll pw ++ ['@']) ++ (quoteAll res ++ qsOf ps) ++ tailOf path := by
        simp only [List.mem_append, List.mem_cons, List.not_mem_nil, or_false, not_or]
        exact ⟨⟨⟨⟨hnlq _, by decide, hnlq _⟩, by decide⟩, hnlq _, hnlqs⟩, hnlt⟩
      have hcat : '@' ∉ quoteAll uu ++ ':' :: quoteAll pw := by
        simp only [List.mem_append, List.mem_cons, not_or]
        exact ⟨not_mem_quoteAll _ nq_at _, by decide, not_mem_quoteAll _ nq_at _⟩
      have hshape : (quoteAll uu ++ ':' :: quoteAll pw ++ ['@']) ++ (quoteAll res ++ qsOf ps) ++ tailOf path
          = (quoteAll uu ++ ':' :: quoteAll pw) ++ '@' :: ((quoteAll res ++ qsOf ps) ++ tailOf path) := by
        simp [List.append_assoc]
      have hre : reFsUrl (proto ++ ':' :: '/' :: '/' :: ((quoteAll uu ++ ':' :: quoteAll pw ++ ['@']) ++ (quoteAll res ++ qsOf ps) ++ tailOf path))
          = some ⟨proto, some (quoteAll uu ++ ':' :: quoteAll pw), some (quoteAll res ++ qsOf ps), none, path⟩ := by
        unfold reFsUrl
        rw [splitScheme_build _ _ h1]
        simp only [dropFinalNl_of_not_mem _ hnl]
        rw [(has_eq_false_iff _ _).2 h2, (has_eq_false_iff _ _).2 hnl]
        simp only [Bool.or_self, Bool.false_eq_true, if_false]
        rw [hshape, partition_append_sep _ _ _ hcat]
        simp only [if_true]
        rw [partition_tail _ hbang, hpath]
      unfold parseFsUrl
      rw [hre]
      simp only
      rw [partition_append_sep _ _ _ (not_mem_quoteAll _ nq_colon _)]
      simp only [unquote_quoteAll, Option.getD_some]
      rw [finishUrl_build _ _ _ _ _ _ h4]

/-- the groups of a match: either no credentials and `url2`, or credentials and `url1` -/
theorem reFsUrl_shape {s : Str} {g : UrlGroups} (hg : reFsUrl s = some g) :
    (g.credentials = none ∧ ∃ u, g.url2 = some u) ∨
    (∃ c u, g.credentials = some c ∧ g.url1 = some u ∧ g.url2 = none) := by
  unfold reFsUrl at hg
  split at hg
  · simp at hg
  · dsimp only at hg
    split at hg
    · simp at hg
    · split at hg
      · simp only [Option.some.injEq] at hg; subst hg; exact Or.inr ⟨_, _, rfl, rfl, rfl⟩
      · simp only [Option.some.injEq] at hg; subst hg; exact Or.inl ⟨rfl, _, rfl⟩

end Fs.ParseLemmas
