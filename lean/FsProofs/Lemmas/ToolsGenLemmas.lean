/-
  Helper lemmas for `FsProofs/ToolsGenEq.lean`; nothing here mentions the generated definitions.
  The loop of `copy_file_data` over the abstract reader: hypothesis-style, fuel `len(data) + 1` suffices.
-/
import FsModel.PyStr
import FsProofs.Lemmas.CopyLemmas

namespace Fs.ToolsGenLemmas
open Fs Fs.PyStr Fs.File Fs.CopyLemmas

/-- one round of `for chunk in iter(lambda: read(n) or None, None): write(chunk)` -/
def cstep (chunk : Int) (s : Reader × Bytes) : Flow (Reader × Bytes) Empty :=
  if (s.1.read chunk).1.isEmpty then .brk ((s.1.read chunk).2, s.2)
  else .next ((s.1.read chunk).2, s.2 ++ (s.1.read chunk).1)

theorem pyWhile_cstep (chunk : Int) (hc : chunk ≠ 0) (f : Reader × Bytes → Flow (Reader × Bytes) Empty)
    (hf : ∀ s, f s = cstep chunk s) (fuel : Nat) (r : Reader) (out : Bytes) (h : r.data.length < fuel) :
    ∃ r', pyWhile fuel (r, out) f = .done (r', out ++ r.data) := by
  induction fuel generalizing r out with
  | zero => omega
  | succ n ih =>
    rw [pyWhile, hf, cstep]
    obtain ⟨data, oracle⟩ := r
    simp only [Reader.read]
    cases data with
    | nil => exact ⟨⟨[], oracle.tail⟩, by simp⟩
    | cons x xs =>
      have hk := readSize_pos chunk (x :: xs).length oracle.head? hc (by simp)
      have hne : (List.take (readSize chunk (x :: xs).length oracle.head?) (x :: xs)).isEmpty = false := by
        cases hk' : readSize chunk (x :: xs).length oracle.head? with
        | zero => rw [hk'] at hk; omega
        | succ k => simp
      simp only [hne, Bool.false_eq_true, if_false]
      obtain ⟨r', hr⟩ := ih ⟨List.drop (readSize chunk (x :: xs).length oracle.head?) (x :: xs), oracle.tail⟩
        (out ++ List.take (readSize chunk (x :: xs).length oracle.head?) (x :: xs))
        (by simp only [List.length_drop, List.length_cons] at h hk ⊢; omega)
      exact ⟨r', by rw [hr]; simp [List.append_assoc]⟩

theorem pyWhile_cstep' (chunk : Int) (hc : chunk ≠ 0) (f : Reader × Bytes → Flow (Reader × Bytes) Empty)
    (hf : ∀ s, f s = cstep chunk s) (fuel : Nat) (r : Reader) (out : Bytes) (h : r.data.length < fuel)
    (w : LoopOut (Reader × Bytes) Empty) (hW : pyWhile fuel (r, out) f = w) :
    ∃ r', w = .done (r', out ++ r.data) := by
  obtain ⟨r', hr⟩ := pyWhile_cstep chunk hc f hf fuel r out h
  exact ⟨r', by rw [← hW, hr]⟩

theorem pyOrOptInt_eq (chunk : Option Int) :
    pyOrOptInt chunk (Int.ofNat ((1024 : Nat) * (1024 : Nat))) = effChunk chunk := by
  cases chunk with
  | none => rfl
  | some c =>
    simp only [pyOrOptInt, effChunk]
    by_cases h : c = 0 <;> simp [h]

theorem effChunk_ne_zero (chunk : Option Int) : effChunk chunk ≠ 0 := by
  cases chunk with
  | none => simp [effChunk]
  | some c => simp only [effChunk]; split <;> simp_all

end Fs.ToolsGenLemmas
