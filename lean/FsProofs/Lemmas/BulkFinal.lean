/-
  C09 helper: small invariants about the end of a run, and the assembly of all invariants
  along `Reach`.
-/
import FsProofs.Lemmas.BulkCons
import FsProofs.Lemmas.BulkHandles
import FsProofs.Lemmas.BulkQueue
import FsProofs.Lemmas.BulkVis
import FsProofs.Lemmas.BulkDest

namespace Fs.BulkLemmas
open Fs Fs.Bulk
set_option linter.unusedSimpArgs false

/-! ### every transition counts its failure -/

theorem BTrans.nfail_ev {c : Cfg} {s s1 : St} {i : Nat} {a : Side} {ph : Phase} {nx : BNext} {e : Ev}
    (hb : BTrans c s i a ph nx e s1) : s1.nfail = s.nfail + b2n e.failed := by
  cases hb <;> simp [Ev.failed]

theorem nfail_worker {c : Cfg} {s s' : St} {w : Nat} {e : Ev} (hs : WTrans c s w s' e) :
    s'.nfail = s.nfail + b2n e.failed := by
  cases hs with
  | bodyCont i ph ph' e s1 hw hb => exact hb.nfail_ev
  | bodyFin i ph exc e s1 hw hb => exact hb.nfail_ev
  | _ => simp [Ev.failed]

theorem nfail_prod {c : Cfg} {s s' : St} {e : Ev} (hs : PTrans c s s' e) :
    s'.nfail = s.nfail + b2n e.failed := by
  cases hs
  case inlBodyCont => have hb := ‹BTrans c s _ _ _ _ _ _›; simpa [raiseP] using hb.nfail_ev
  case inlBodyRaise => have hb := ‹BTrans c s _ _ _ _ _ _›; simpa [raiseP] using hb.nfail_ev
  case inlBodyToPtime => have hb := ‹BTrans c s _ _ _ _ _ _›; simpa [raiseP] using hb.nfail_ev
  case inlBodyNext => have hb := ‹BTrans c s _ _ _ _ _ _›; simpa [raiseP] using hb.nfail_ev
  all_goals simp [raiseP, Ev.failed]

/-! ### dropped tasks only after the producer raised -/

def raised : Prod → Bool
  | .sentinels _ e => e
  | .joining _ e => e
  | .ptimes _ _ e => e
  | .qjoin e => e
  | .exiting e => e
  | .finished o => o == .other
  | _ => false

def Drop (s : St) : Prop := s.dropped ≠ [] → raised s.prod = true

theorem raised_afterBody (c : Cfg) (b : Bool) : raised (afterBody c b) = b := by
  unfold afterBody; split <;> rfl
theorem raised_ptimesNext (l : List Nat) (b : Bool) : raised (ptimesNext l b) = b := by
  cases l <;> rfl
theorem raised_afterJoin (c : Cfg) (l : List Nat) (b : Bool) : raised (afterJoin c l b) = b := by
  unfold afterJoin; split
  · exact raised_ptimesNext l b
  · rfl

theorem raised_imp_prodExc (p : Prod) (h : raised p = true) : prodExc p = true := by
  cases p <;> simp_all [raised, prodExc]

theorem drop_worker {c : Cfg} {s s' : St} {w : Nat} {e : Ev} (h : Drop s) (hs : WTrans c s w s' e) :
    Drop s' := by
  cases hs with
  | bodyCont i ph ph' e s1 hw hb =>
    obtain ⟨h1, _, _, _, _, _, _, h8⟩ := hb.frame
    intro hd; simp only [h8, h1] at hd ⊢; exact h hd
  | bodyFin i ph exc e s1 hw hb =>
    obtain ⟨h1, _, _, _, _, _, _, h8⟩ := hb.frame
    intro hd; simp only [h8, h1] at hd ⊢; exact h hd
  | _ => exact h

theorem drop_prod {c : Cfg} {s s' : St} {e : Ev} (h : Drop s) (hs : PTrans c s s' e) : Drop s' := by
  unfold Drop at *
  cases hs
  case inlBodyCont =>
    obtain ⟨h1, _, _, _, _, _, _, h8⟩ := BTrans.frame ‹BTrans c s _ _ _ _ _ _›
    have hp := ‹s.prod = _›
    intro hd; simp only [h8] at hd; have := h hd; simp [hp, raised] at this
  case inlBodyRaise => intro _; simp only [raiseP, raised_afterBody]
  case inlBodyToPtime =>
    obtain ⟨h1, _, _, _, _, _, _, h8⟩ := BTrans.frame ‹BTrans c s _ _ _ _ _ _›
    have hp := ‹s.prod = _›
    intro hd; simp only [h8] at hd; have := h hd; simp [hp, raised] at this
  case inlBodyNext =>
    obtain ⟨h1, _, _, _, _, _, _, h8⟩ := BTrans.frame ‹BTrans c s _ _ _ _ _ _›
    have hp := ‹s.prod = _›
    intro hd; simp only [h8] at hd; have := h hd; simp [hp, raised] at this
  case exit exc hp =>
    intro hd; have := h hd; simp [hp, raised] at this; simp [this, raised]
  all_goals
    have hp := ‹s.prod = _›
    rw [hp] at h
    (try simp only [raiseP, raised_afterBody, raised_ptimesNext, raised_afterJoin, apply_ite raised])
    simp_all [raised]


/-! ### once all workers are joined -/

theorem WTrans.not_exited {c : Cfg} {s s' : St} {w : Nat} {e : Ev} (hs : WTrans c s w s' e) :
    ∃ a, s.workers[w]? = some a ∧ a ≠ W.exited := by
  cases hs <;> exact ⟨_, ‹_›, by simp⟩

theorem no_worker_step_when_joined {c : Cfg} {s s' : St} {w : Nat} {e : Ev} (hA : InvA c s)
    (hj : joined c.n s.prod = c.n) (hs : WTrans c s w s' e) : False := by
  obtain ⟨a, hw, hne⟩ := hs.not_exited
  have hlt : w < s.workers.length := by
    rcases Nat.lt_or_ge w s.workers.length with h | h
    · exact h
    · rw [List.getElem?_eq_none h] at hw; simp at hw
  have := hA.joinedEx w (by rw [hj, ← hA.wlen]; exact hlt)
  rw [hw] at this; simp at this; exact hne this

theorem allExited_of_joined {c : Cfg} {s : St} (hA : InvA c s) (hj : joined c.n s.prod = c.n) :
    s.allExited := by
  intro w hw
  obtain ⟨k, hk, rfl⟩ := List.mem_iff_getElem.mp hw
  have := hA.joinedEx k (by rw [hj, ← hA.wlen]; exact hk)
  rw [List.getElem?_eq_getElem hk] at this
  simpa using this

theorem count_stopMark_all : ∀ ws : List W, (∀ w ∈ ws, w = W.exited) →
    List.count () (ws.flatMap stopMark) = ws.length
  | [], _ => rfl
  | w :: ws, h => by
    have hw : w = W.exited := h w (by simp)
    subst hw
    have := count_stopMark_all ws (fun x hx => h x (by simp [hx]))
    simp [List.flatMap_cons, stopMark, stopped, List.count_append, this]

theorem queue_empty_of_joined {c : Cfg} {s : St} (hA : InvA c s) (hj : joined c.n s.prod = c.n)
    (hsent : sentPut c.n s.prod = c.n) : s.queue = [] := by
  have hex := allExited_of_joined hA hj
  have hn : nStopped s = c.n := by
    unfold nStopped; rw [count_stopMark_all _ hex, hA.wlen]
  have hsent' := hA.sent
  rw [hsent, hn] at hsent'
  have hnone : List.count none s.queue = 0 := by omega
  by_cases hz : c.n = 0
  · have := hA.qlen; rw [hz] at this
    exact List.eq_nil_of_length_eq_zero (by omega)
  · have := hA.nosome (by omega)
    exact eq_nil_of_no_none_no_some _ hnone this

theorem flatMap_nil_of_allExited {β : Type} (g : W → List β) (hg : g W.exited = []) :
    ∀ ws : List W, (∀ w ∈ ws, w = W.exited) → ws.flatMap g = []
  | [], _ => rfl
  | w :: ws, h => by
    have hw : w = W.exited := h w (by simp)
    subst hw
    simp [List.flatMap_cons, hg, flatMap_nil_of_allExited g hg ws (fun x hx => h x (by simp [hx]))]

/-! ### `finished ok` means the error list was empty -/

def FinE (s : St) : Prop := s.prod = .finished .ok → s.errors = []

theorem isFin_afterBody (c : Cfg) (b : Bool) : (afterBody c b).isFinished = false := by
  unfold afterBody; split <;> rfl
theorem isFin_nextLoop (c : Cfg) (r : List Nat) : (nextLoop c r).isFinished = false := by
  cases r with
  | nil => exact isFin_afterBody c false
  | cons i r => rfl
theorem isFin_ptimesNext (l : List Nat) (b : Bool) : (ptimesNext l b).isFinished = false := by
  cases l <;> rfl
theorem isFin_afterJoin (c : Cfg) (l : List Nat) (b : Bool) : (afterJoin c l b).isFinished = false := by
  unfold afterJoin; split
  · exact isFin_ptimesNext l b
  · rfl

theorem finE_prod {c : Cfg} {s s' : St} {e : Ev} (_h : FinE s) (hs : PTrans c s s' e) : FinE s' := by
  unfold FinE at *
  cases hs
  case exit exc hp =>
    intro hf
    simp at hf
    rcases Bool.eq_false_or_eq_true exc with hexc | hexc
    · simp [hexc] at hf
    · simp [hexc] at hf
      by_cases hE : s.errors = []
      · exact hE
      · simp [hE] at hf
  all_goals
    intro hf
    have := congrArg Prod.isFinished hf
    (try simp only [raiseP, isFin_afterBody, isFin_nextLoop, isFin_ptimesNext, isFin_afterJoin,
      apply_ite Prod.isFinished] at this) <;>
    simp [Prod.isFinished] at this

theorem finE_worker {c : Cfg} {s s' : St} {w : Nat} {e : Ev} (hA : InvA c s) (_h : FinE s)
    (hs : WTrans c s w s' e) : FinE s' := by
  intro hf
  have hp : s'.prod = s.prod := by
    cases hs with
    | bodyCont i ph ph' e s1 hw hb => exact hb.frame.1
    | bodyFin i ph exc e s1 hw hb => exact hb.frame.1
    | _ => rfl
  rw [hp] at hf
  exact (no_worker_step_when_joined hA (by simp [hf, joined]) hs).elim


/-! ### the preserve-time loop only names real tasks -/

def ptList : Prod → List Nat
  | .ptimes i todo _ => i :: todo
  | _ => []

def PT (c : Cfg) (s : St) : Prop :=
  (∀ j ∈ s.allTasks, j < c.tasks.length) ∧ (∀ j ∈ ptList s.prod, j < c.tasks.length)

theorem ptList_afterBody (c : Cfg) (b : Bool) : ptList (afterBody c b) = [] := by
  unfold afterBody; split <;> rfl
theorem ptList_nextLoop (c : Cfg) (r : List Nat) : ptList (nextLoop c r) = [] := by
  cases r with
  | nil => exact ptList_afterBody c false
  | cons i r => rfl
theorem ptList_ptimesNext (l : List Nat) (b : Bool) : ptList (ptimesNext l b) = l := by
  cases l <;> rfl
theorem ptList_afterJoin_sub (c : Cfg) (l : List Nat) (b : Bool) : ∀ j ∈ ptList (afterJoin c l b), j ∈ l := by
  unfold afterJoin; split
  · rw [ptList_ptimesNext]; exact fun _ h => h
  · intro j hj; simp [ptList] at hj

theorem lt_of_mem_pending {c : Cfg} {s : St} (hC : Cons c s) {i : Nat} (hi : i ∈ s.prod.pending) :
    i < c.tasks.length := by
  have h1 : 0 < List.count i s.allTasksView := by
    apply List.count_pos_iff.mpr
    simp [St.allTasksView, St.pending, hi]
  have h4 := hC i
  rw [List.count_range] at h4
  split at h4
  · assumption
  · omega

theorem pt_worker {c : Cfg} {s s' : St} {w : Nat} {e : Ev} (h : PT c s) (hs : WTrans c s w s' e) :
    PT c s' := by
  cases hs with
  | bodyCont i ph ph' e s1 hw hb =>
    obtain ⟨h1, _, _, _, h5, _, _, _⟩ := hb.frame
    simpa [PT, h1, h5] using h
  | bodyFin i ph exc e s1 hw hb =>
    obtain ⟨h1, _, _, _, h5, _, _, _⟩ := hb.frame
    simpa [PT, h1, h5] using h
  | _ => exact h

theorem pt_prod {c : Cfg} {s s' : St} {e : Ev} (hC : Cons c s) (h : PT c s) (hs : PTrans c s s' e) :
    PT c s' := by
  obtain ⟨ha, hp'⟩ := h
  cases hs
  case openDstOk i rest hp _ =>
    have hi := lt_of_mem_pending hC (i := i) (by simp [hp, Prod.pending])
    refine ⟨?_, ?_⟩
    · intro j hj; simp at hj; rcases hj with hj | hj
      · exact ha j hj
      · subst hj; exact hi
    · intro j hj; simp [ptList] at hj
  case join k exc hp _ =>
    refine ⟨ha, ?_⟩
    intro j hj
    simp only [apply_ite ptList] at hj
    split at hj
    · simp [ptList] at hj
    · exact ha j (ptList_afterJoin_sub c _ _ j hj)
  case ptimesOk i todo exc hp _ =>
    refine ⟨ha, ?_⟩
    intro j hj
    simp only [ptList_ptimesNext] at hj
    exact hp' j (by simp [hp, ptList, hj])
  case inlBodyCont =>
    obtain ⟨_, _, _, _, h5, _, _, _⟩ := BTrans.frame ‹BTrans c s _ _ _ _ _ _›
    exact ⟨by simpa [h5] using ha, by intro j hj; simp [ptList] at hj⟩
  case inlBodyRaise =>
    obtain ⟨_, _, _, _, h5, _, _, _⟩ := BTrans.frame ‹BTrans c s _ _ _ _ _ _›
    exact ⟨by simpa [raiseP, h5] using ha, by simp only [raiseP, ptList_afterBody]; intro j hj; simp at hj⟩
  case inlBodyToPtime =>
    obtain ⟨_, _, _, _, h5, _, _, _⟩ := BTrans.frame ‹BTrans c s _ _ _ _ _ _›
    exact ⟨by simpa [h5] using ha, by intro j hj; simp [ptList] at hj⟩
  case inlBodyNext =>
    obtain ⟨_, _, _, _, h5, _, _, _⟩ := BTrans.frame ‹BTrans c s _ _ _ _ _ _›
    exact ⟨by simpa [h5] using ha, by simp only [ptList_nextLoop]; intro j hj; simp at hj⟩
  all_goals
    refine ⟨by simpa [raiseP] using ha, ?_⟩
    (try simp only [raiseP, ptList_afterBody, ptList_nextLoop, apply_ite ptList])
    intro j hj
    simp [ptList] at hj


/-! ### all invariants along every execution -/

structure Inv (c : Cfg) (s : St) : Prop where
  cons : Cons c s
  hand : Hand c s
  invA : InvA c s
  vis : Vis s
  drop : Drop s
  finE : FinE s
  pt : PT c s

theorem inv_init (c : Cfg) : Inv c (init c) where
  cons := cons_init c
  hand := hand_init c
  invA := invA_init c
  vis := vis_init c
  drop := by intro h; simp [init] at h
  finE := by intro _; rfl
  pt := by
    constructor
    · intro j hj; simp [init] at hj
    · simp only [init, ptList_nextLoop]; intro j hj; simp at hj

theorem inv_step {c : Cfg} {s s' : St} {l : Label} {e : Ev} (h : Inv c s)
    (hs : stepEv c s l = some (s', e)) : Inv c s' := by
  cases l with
  | p =>
    have ht := prodStep_sound (by simpa [stepEv] using hs)
    exact ⟨cons_prod h.cons ht, hand_prod h.hand ht, invA_prod h.invA ht, vis_prod h.vis ht,
      drop_prod h.drop ht, finE_prod h.finE ht, pt_prod h.cons h.pt ht⟩
  | w k =>
    have ht := workerStep_sound (by simpa [stepEv] using hs)
    exact ⟨cons_worker h.cons ht, hand_worker h.hand ht, invA_worker h.invA ht, vis_worker h.vis ht,
      drop_worker h.drop ht, finE_worker h.invA h.finE ht, pt_worker h.pt ht⟩

theorem inv_reach {c : Cfg} {s : St} (h : Reach c s) : Inv c s := by
  induction h with
  | init => exact inv_init c
  | step _ hs ih => exact inv_step ih hs

theorem dest_reach {c : Cfg} {s : St} (hwf : WfCfg c) (h : Reach c s) : Dest c s := by
  induction h with
  | init => exact dest_init c
  | @step s s' l e hr hs ih =>
    have hC' := (inv_step (inv_reach hr) hs).cons
    cases l with
    | p => exact dest_prod hwf ih hC' (prodStep_sound (by simpa [stepEv] using hs))
    | w k => exact dest_worker hwf ih hC' (workerStep_sound (by simpa [stepEv] using hs))

theorem nfail_step {c : Cfg} {s s' : St} {l : Label} {e : Ev} (hs : stepEv c s l = some (s', e)) :
    s'.nfail = s.nfail + b2n e.failed := by
  cases l with
  | p => exact nfail_prod (prodStep_sound (by simpa [stepEv] using hs))
  | w k => exact nfail_worker (workerStep_sound (by simpa [stepEv] using hs))

theorem reach_of_exec {c : Cfg} {t : Trace} {s : St} (h : Exec c t s) : Reach c s := by
  induction h with
  | init => exact .init
  | step _ hs ih => exact .step ih hs

theorem exec_of_reach {c : Cfg} {s : St} (h : Reach c s) : ∃ t, Exec c t s := by
  induction h with
  | init => exact ⟨[], .init⟩
  | step _ hs ih => obtain ⟨t, ht⟩ := ih; exact ⟨_, .step ht hs⟩

/-- the ghost counter is exactly the number of failed events of the trace -/
theorem nfail_exec {c : Cfg} {t : Trace} {s : St} (h : Exec c t s) :
    s.nfail = (t.filter fun le => le.2.failed).length := by
  induction h with
  | init => rfl
  | @step t s s' l e _ hs ih =>
    rw [nfail_step hs, ih]
    cases hf : e.failed <;> simp [List.filter_cons, hf]


/-! ### consequences once every worker has been joined -/

theorem done_dropped_of_joined {c : Cfg} {s : St} (hI : Inv c s) (hj : joined c.n s.prod = c.n)
    (hsp : sentPut c.n s.prod = c.n) (hpend : s.prod.pending = []) (hinf : s.prod.inflight = []) :
    s.queue = [] ∧ s.allExited ∧
      ∀ x, List.count x (s.done ++ s.dropped) = List.count x (List.range c.tasks.length) := by
  have hq := queue_empty_of_joined hI.invA hj hsp
  have hex := allExited_of_joined hI.invA hj
  refine ⟨hq, hex, ?_⟩
  intro x
  have := hI.cons x
  simpa [St.allTasksView, St.pending, St.queued, St.inflight, hpend, hinf, hq,
    flatMap_nil_of_allExited W.tasks rfl _ hex, List.count_append] using this

theorem opened_nil_of_joined {c : Cfg} {s : St} (hI : Inv c s) (hj : joined c.n s.prod = c.n)
    (hsp : sentPut c.n s.prod = c.n) (hph : prodHandles c s.prod = []) : s.opened = [] := by
  have hq := queue_empty_of_joined hI.invA hj hsp
  have hex := allExited_of_joined hI.invA hj
  apply eq_nil_of_count_zero
  intro h
  rw [hI.hand h]
  simp [held, hph, hq, flatMap_nil_of_allExited wHandles rfl _ hex]

theorem dropped_nil_of_nofail {s : St} {c : Cfg} (hI : Inv c s) (h0 : s.nfail = 0) : s.dropped = [] := by
  by_cases hd : s.dropped = []
  · exact hd
  · have hr := raised_imp_prodExc _ (hI.drop hd)
    have hv := hI.vis
    unfold Vis visN at hv
    rw [hr] at hv
    simp at hv
    omega

theorem mem_done_of_joined {c : Cfg} {s : St} (hI : Inv c s) (hj : joined c.n s.prod = c.n)
    (hsp : sentPut c.n s.prod = c.n) (hpend : s.prod.pending = []) (hinf : s.prod.inflight = [])
    (h0 : s.nfail = 0) {i : Nat} (hi : i < c.tasks.length) : i ∈ s.done := by
  have h := (done_dropped_of_joined hI hj hsp hpend hinf).2.2 i
  rw [dropped_nil_of_nofail hI h0, List.append_nil, List.count_range, if_pos hi] at h
  exact List.count_pos_iff.mp (by omega)

/-! ### no failure injected ⇒ no failure fires -/

theorem fails_false_of_nofaults {c : Cfg} (hnf : c.faults = []) (i : Nat) (st : FStep) :
    c.fails i st = false := by
  simp [Cfg.fails, hnf]

theorem BTrans.nofail {c : Cfg} {s s1 : St} {i : Nat} {a : Side} {ph : Phase} {nx : BNext} {e : Ev}
    (hnf : c.faults = []) (hb : BTrans c s i a ph nx e s1) : e.failed = false := by
  cases hb <;> simp_all [fails_false_of_nofaults hnf, Ev.failed]

theorem nofail_worker {c : Cfg} {s s' : St} {w : Nat} {e : Ev} (hnf : c.faults = [])
    (hs : WTrans c s w s' e) : e.failed = false := by
  cases hs with
  | bodyCont i ph ph' e s1 hw hb => exact hb.nofail hnf
  | bodyFin i ph exc e s1 hw hb => exact hb.nofail hnf
  | _ => rfl

theorem nofail_prod {c : Cfg} {s s' : St} {e : Ev} (hwf : WfCfg c) (hnf : c.faults = [])
    (hI : Inv c s) (hD : Dest c s) (h0 : s.nfail = 0) (hs : PTrans c s s' e) : e.failed = false := by
  have hff := fails_false_of_nofaults hnf
  cases hs
  case inlBodyCont => exact BTrans.nofail hnf ‹BTrans c s _ _ _ _ _ _›
  case inlBodyRaise => exact BTrans.nofail hnf ‹BTrans c s _ _ _ _ _ _›
  case inlBodyToPtime => exact BTrans.nofail hnf ‹BTrans c s _ _ _ _ _ _›
  case inlBodyNext => exact BTrans.nofail hnf ‹BTrans c s _ _ _ _ _ _›
  case inlPtimeFail i rest hp hf =>
    have := (hD h0).1 (i, some (c.data i)) (by simp [claims, hp, prodClaims])
    simp [hff] at hf
    simp at this; rw [this] at hf; simp at hf
  case ptimesFail i todo exc hp hf =>
    have hi : i < c.tasks.length := hI.pt.2 i (by simp [hp, ptList])
    have hmem := mem_done_of_joined hI (by simp [hp, joined]) (by simp [hp, sentPut])
      (by simp [hp, Prod.pending]) (by simp [hp, Prod.inflight]) h0 hi
    have := (hD h0).1 (i, some (c.data i)) (by
      simp only [claims, List.mem_append]
      exact Or.inr (List.mem_map.mpr ⟨i, hmem, rfl⟩))
    simp [hff] at hf
    simp at this; rw [this] at hf; simp at hf
  all_goals simp_all [Ev.failed]

theorem nofault_reach {c : Cfg} {s : St} (hwf : WfCfg c) (hnf : c.faults = []) (h : Reach c s) :
    s.nfail = 0 := by
  induction h with
  | init => rfl
  | @step s s' l e hr hs ih =>
    rw [nfail_step hs, ih]
    have : e.failed = false := by
      cases l with
      | p => exact nofail_prod hwf hnf (inv_reach hr) (dest_reach hwf hr) ih
               (prodStep_sound (by simpa [stepEv] using hs))
      | w k => exact nofail_worker hnf (workerStep_sound (by simpa [stepEv] using hs))
    simp [this]

end Fs.BulkLemmas
