/-
  The two breadth-first phases of `copy_dir` (`BaseWalkSpec.recNode .struct`, then `.files`) against the
  reference merge `Ref.mergeEnts`: same failures, same result up to the order of entries (`ObsEq`).

  Route: pointwise.  For each of the three functions the value `(result).get q` (seen through `shallow`) is
  characterised for every path `q`; the failure cases are characterised by the existence of a conflicting
  path.  The comparison theorems `merge_some` / `merge_none` follow.
-/
import FsModel.Ref
import FsProofs.Lemmas.BaseWalkSpec
import FsProofs.Lemmas.TreeLemmas

namespace Fs.BaseWalkMerge
open Fs Fs.Ref Fs.BaseWalkSpec Fs.TreeLemmas

/-! ### basics -/

theorem get_nil (n : Node) : n.get [] = some n := by
  cases n <;> rfl

theorem get_cons_dir (k : Name) (r : List Name) (es : Ents) :
    (Node.dir es).get (k :: r) = (Ents.lookup k es).bind (Node.get r) := by
  simp only [Node.get]
  cases Ents.lookup k es <;> rfl

theorem get_cons_empty (k : Name) (r : List Name) : (Node.dir []).get (k :: r) = none := by
  simp [Node.get, Ents.lookup]

theorem lookup_cons (k k0 : Name) (v : Node) (es : Ents) :
    Ents.lookup k ((k0, v) :: es) = if k0 = k then some v else Ents.lookup k es := rfl

theorem wf_cons {k : Name} {v : Node} {es : Ents} :
    entsWf ((k, v) :: es) = true ↔
      cleanName k = true ∧ Ents.lookup k es = none ∧ v.wf = true ∧ entsWf es = true := by
  simp [entsWf, and_assoc]

theorem wf_dir {es : Ents} : (Node.dir es).wf = true ↔ entsWf es = true := by
  simp [Node.wf]

theorem count_lookup (k : Name) (n : Node) : ∀ es : Ents, Ents.lookup k es = some n → n.count ≤ entsCount es := by
  intro es
  induction es with
  | nil => intro h; simp [Ents.lookup] at h
  | cons e es ih =>
    obtain ⟨k0, v⟩ := e
    intro h
    rw [lookup_cons] at h
    simp only [entsCount]
    by_cases hk : k0 = k
    · simp only [hk, if_true, Option.some.injEq] at h
      subst h
      omega
    · simp only [hk, if_false] at h
      have := ih h
      omega

/-- induction over the sub-directories of a directory -/
theorem ents_induction {P : Ents → Prop}
    (step : ∀ es, (∀ k e, Ents.lookup k es = some (.dir e) → P e) → P es) (es : Ents) : P es := by
  have key : ∀ n (es : Ents), entsCount es ≤ n → P es := by
    intro n
    induction n with
    | zero =>
      intro es h
      apply step
      intro k e hl
      have := count_lookup k _ es hl
      simp only [Node.count] at this
      omega
    | succ n ih =>
      intro es h
      apply step
      intro k e hl
      have := count_lookup k _ es hl
      simp only [Node.count] at this
      exact ih e (by omega)
  exact key _ es (Nat.le_refl _)

/-! ### one level -/

theorem lvl_wf (ph : Phase) (es : Ents) : ∀ (ds d1 : Ents), entsWf es = true → entsWf ds = true →
    lvl ph es ds = some d1 → entsWf d1 = true := by
  induction es with
  | nil =>
    intro ds d1 _ hd h
    simp only [lvl, Option.some.injEq] at h
    subst h
    exact hd
  | cons e es ih =>
    obtain ⟨k, v⟩ := e
    intro ds d1 he hd h
    rw [wf_cons] at he
    obtain ⟨hk, _, _, he'⟩ := he
    cases ph with
    | struct =>
      cases v with
      | file b => exact ih _ _ he' hd (by simpa only [lvl] using h)
      | dir e0 =>
        simp only [lvl] at h
        cases hl : Ents.lookup k ds with
        | none =>
          rw [hl] at h
          exact ih _ _ he' (entsWf_put _ _ _ hk (by simp [Node.wf, entsWf]) hd) h
        | some dn =>
          cases dn with
          | file b => simp [hl] at h
          | dir d => simp only [hl] at h; exact ih _ _ he' hd h
    | files =>
      cases v with
      | dir e0 => exact ih _ _ he' hd (by simpa only [lvl] using h)
      | file b =>
        simp only [lvl] at h
        have hp := entsWf_put k (.file b) ds hk (by simp [Node.wf]) hd
        cases hl : Ents.lookup k ds with
        | none => rw [hl] at h; exact ih _ _ he' hp h
        | some dn =>
          cases dn with
          | file b => simp only [hl] at h; exact ih _ _ he' hp h
          | dir d => simp [hl] at h

/-- what one `struct` level does to the entry of each name -/
theorem lvl_struct_spec (es : Ents) : ∀ (ds d1 : Ents), entsWf es = true → lvl .struct es ds = some d1 →
    ∀ k, (∀ e, Ents.lookup k es = some (.dir e) →
            (∃ d, Ents.lookup k ds = some (.dir d) ∧ Ents.lookup k d1 = some (.dir d)) ∨
            (Ents.lookup k ds = none ∧ Ents.lookup k d1 = some (.dir []))) ∧
         ((∀ e, Ents.lookup k es ≠ some (.dir e)) → Ents.lookup k d1 = Ents.lookup k ds) := by
  induction es with
  | nil =>
    intro ds d1 _ h k
    simp only [lvl, Option.some.injEq] at h
    subst h
    exact ⟨fun e he => by simp [Ents.lookup] at he, fun _ => rfl⟩
  | cons e es ih =>
    obtain ⟨k0, v⟩ := e
    intro ds d1 he h k
    rw [wf_cons] at he
    obtain ⟨_, hu, _, he'⟩ := he
    cases v with
    | file b0 =>
      simp only [lvl] at h
      have IH := ih ds d1 he' h k
      by_cases hk : k0 = k
      · subst hk
        refine ⟨fun e hl => by simp [lookup_cons] at hl, fun _ => IH.2 (by simp [hu])⟩
      · simpa only [lookup_cons, hk, if_false] using IH
    | dir e0 =>
      simp only [lvl] at h
      cases hl : Ents.lookup k0 ds with
      | none =>
        rw [hl] at h
        have IH := ih _ d1 he' h k
        by_cases hk : k0 = k
        · subst hk
          refine ⟨fun e _ => Or.inr ⟨hl, ?_⟩, fun hne => absurd (by simp [lookup_cons]) (hne e0)⟩
          rw [IH.2 (by simp [hu]), lookup_put_same]
        · rw [lookup_put_other _ _ _ _ (Ne.symm hk)] at IH
          simpa only [lookup_cons, hk, if_false] using IH
      | some dn =>
        cases dn with
        | file b => simp [hl] at h
        | dir d =>
          simp only [hl] at h
          have IH := ih ds d1 he' h k
          by_cases hk : k0 = k
          · subst hk
            refine ⟨fun e _ => Or.inl ⟨d, hl, ?_⟩, fun hne => absurd (by simp [lookup_cons]) (hne e0)⟩
            rw [IH.2 (by simp [hu]), hl]
          · simpa only [lookup_cons, hk, if_false] using IH

theorem lvl_struct_none (es : Ents) : ∀ (ds : Ents), entsWf es = true → lvl .struct es ds = none →
    ∃ k e b, Ents.lookup k es = some (.dir e) ∧ Ents.lookup k ds = some (.file b) := by
  induction es with
  | nil => intro ds _ h; simp [lvl] at h
  | cons e es ih =>
    obtain ⟨k0, v⟩ := e
    intro ds he h
    rw [wf_cons] at he
    obtain ⟨_, hu, _, he'⟩ := he
    have lift : ∀ k e, Ents.lookup k es = some (Node.dir e) →
        k0 ≠ k ∧ Ents.lookup k ((k0, v) :: es) = some (Node.dir e) := by
      intro k e hl
      have hk : k0 ≠ k := by intro hk; subst hk; rw [hu] at hl; cases hl
      exact ⟨hk, by simp [lookup_cons, hk, hl]⟩
    cases v with
    | file b0 =>
      simp only [lvl] at h
      obtain ⟨k, e, b, h1, h2⟩ := ih ds he' h
      exact ⟨k, e, b, (lift k e h1).2, h2⟩
    | dir e0 =>
      simp only [lvl] at h
      cases hl : Ents.lookup k0 ds with
      | none =>
        rw [hl] at h
        obtain ⟨k, e, b, h1, h2⟩ := ih _ he' h
        rw [lookup_put_other _ _ _ _ (Ne.symm (lift k e h1).1)] at h2
        exact ⟨k, e, b, (lift k e h1).2, h2⟩
      | some dn =>
        cases dn with
        | file b => exact ⟨k0, e0, b, by simp [lookup_cons], hl⟩
        | dir d =>
          simp only [hl] at h
          obtain ⟨k, e, b, h1, h2⟩ := ih ds he' h
          exact ⟨k, e, b, (lift k e h1).2, h2⟩

/-- what one `files` level does to the entry of each name -/
theorem lvl_files_spec (es : Ents) : ∀ (ds d1 : Ents), entsWf es = true → lvl .files es ds = some d1 →
    ∀ k, (∀ b, Ents.lookup k es = some (.file b) →
            Ents.lookup k d1 = some (.file b) ∧ ∀ e, Ents.lookup k ds ≠ some (.dir e)) ∧
         ((∀ b, Ents.lookup k es ≠ some (.file b)) → Ents.lookup k d1 = Ents.lookup k ds) := by
  induction es with
  | nil =>
    intro ds d1 _ h k
    simp only [lvl, Option.some.injEq] at h
    subst h
    exact ⟨fun e he => by simp [Ents.lookup] at he, fun _ => rfl⟩
  | cons e es ih =>
    obtain ⟨k0, v⟩ := e
    intro ds d1 he h k
    rw [wf_cons] at he
    obtain ⟨_, hu, _, he'⟩ := he
    cases v with
    | dir e0 =>
      simp only [lvl] at h
      have IH := ih ds d1 he' h k
      by_cases hk : k0 = k
      · subst hk
        refine ⟨fun e hl => by simp [lookup_cons] at hl, fun _ => IH.2 (by simp [hu])⟩
      · simpa only [lookup_cons, hk, if_false] using IH
    | file b0 =>
      simp only [lvl] at h
      have hh : (∀ e, Ents.lookup k0 ds ≠ some (.dir e)) ∧
          lvl .files es (Ents.put k0 (.file b0) ds) = some d1 := by
        cases hl : Ents.lookup k0 ds with
        | none => rw [hl] at h; exact ⟨fun e he => (by cases he), h⟩
        | some dn =>
          cases dn with
          | file b => simp only [hl] at h; exact ⟨fun e he => (by cases he), h⟩
          | dir d => simp [hl] at h
      obtain ⟨hnd, h'⟩ := hh
      have IH := ih _ d1 he' h' k
      by_cases hk : k0 = k
      · subst hk
        refine ⟨fun b hb => ?_, fun hne => absurd (by simp [lookup_cons]) (hne b0)⟩
        simp only [lookup_cons, if_true, Option.some.injEq, Node.file.injEq] at hb
        subst hb
        refine ⟨?_, hnd⟩
        rw [IH.2 (by simp [hu]), lookup_put_same]
      · rw [lookup_put_other _ _ _ _ (Ne.symm hk)] at IH
        simpa only [lookup_cons, hk, if_false] using IH

theorem lvl_files_none (es : Ents) : ∀ (ds : Ents), entsWf es = true → lvl .files es ds = none →
    ∃ k b e, Ents.lookup k es = some (.file b) ∧ Ents.lookup k ds = some (.dir e) := by
  induction es with
  | nil => intro ds _ h; simp [lvl] at h
  | cons e es ih =>
    obtain ⟨k0, v⟩ := e
    intro ds he h
    rw [wf_cons] at he
    obtain ⟨_, hu, _, he'⟩ := he
    have lift : ∀ k b, Ents.lookup k es = some (Node.file b) →
        k0 ≠ k ∧ Ents.lookup k ((k0, v) :: es) = some (Node.file b) := by
      intro k e hl
      have hk : k0 ≠ k := by intro hk; subst hk; rw [hu] at hl; cases hl
      exact ⟨hk, by simp [lookup_cons, hk, hl]⟩
    cases v with
    | dir e0 =>
      simp only [lvl] at h
      obtain ⟨k, b, e, h1, h2⟩ := ih ds he' h
      exact ⟨k, b, e, (lift k b h1).2, h2⟩
    | file b0 =>
      simp only [lvl] at h
      have hh : (∃ e, Ents.lookup k0 ds = some (.dir e)) ∨
          lvl .files es (Ents.put k0 (.file b0) ds) = none := by
        cases hl : Ents.lookup k0 ds with
        | none => rw [hl] at h; exact Or.inr h
        | some dn =>
          cases dn with
          | file b => simp only [hl] at h; exact Or.inr h
          | dir d => exact Or.inl ⟨d, rfl⟩
      rcases hh with ⟨d, hl⟩ | h'
      · exact ⟨k0, b0, d, by simp [lookup_cons], hl⟩
      · obtain ⟨k, b, e, h1, h2⟩ := ih _ he' h'
        rw [lookup_put_other _ _ _ _ (Ne.symm (lift k b h1).1)] at h2
        exact ⟨k, b, e, (lift k b h1).2, h2⟩

/-! ### the sub-directories -/

/-- what `recKids` does to the entry of each name -/
theorem recKids_spec (ph : Phase) (es : Ents) : ∀ (d1 d2 : Ents), entsWf es = true →
    recKids ph es d1 = some d2 →
    ∀ k, (∀ e, Ents.lookup k es = some (.dir e) →
            ∃ dn m, Ents.lookup k d1 = some dn ∧ recNode ph (.dir e) dn = some m ∧
              Ents.lookup k d2 = some m) ∧
         ((∀ e, Ents.lookup k es ≠ some (.dir e)) → Ents.lookup k d2 = Ents.lookup k d1) := by
  induction es with
  | nil =>
    intro d1 d2 _ h k
    simp only [recKids, Option.some.injEq] at h
    subst h
    exact ⟨fun e he => by simp [Ents.lookup] at he, fun _ => rfl⟩
  | cons e es ih =>
    obtain ⟨k0, v⟩ := e
    intro d1 d2 he h k
    rw [wf_cons] at he
    obtain ⟨_, hu, _, he'⟩ := he
    cases v with
    | file b0 =>
      simp only [recKids] at h
      have IH := ih d1 d2 he' h k
      by_cases hk : k0 = k
      · subst hk
        refine ⟨fun e hl => by simp [lookup_cons] at hl, fun _ => IH.2 (by simp [hu])⟩
      · simpa only [lookup_cons, hk, if_false] using IH
    | dir e0 =>
      simp only [recKids] at h
      cases hl : Ents.lookup k0 d1 with
      | none => simp [hl] at h
      | some dn =>
        simp only [hl] at h
        cases hr : recNode ph (.dir e0) dn with
        | none => simp [hr] at h
        | some m =>
          simp only [hr] at h
          have IH := ih _ d2 he' h k
          by_cases hk : k0 = k
          · subst hk
            refine ⟨fun e hle => ?_, fun hne => absurd (by simp [lookup_cons]) (hne e0)⟩
            simp only [lookup_cons, if_true, Option.some.injEq, Node.dir.injEq] at hle
            subst hle
            refine ⟨dn, m, hl, hr, ?_⟩
            rw [IH.2 (by simp [hu]), lookup_put_same]
          · rw [lookup_put_other _ _ _ _ (Ne.symm hk)] at IH
            simpa only [lookup_cons, hk, if_false] using IH

theorem recKids_none (ph : Phase) (es : Ents) : ∀ (d1 : Ents), entsWf es = true →
    recKids ph es d1 = none →
    ∃ k e, Ents.lookup k es = some (.dir e) ∧
      (Ents.lookup k d1 = none ∨ ∃ dn, Ents.lookup k d1 = some dn ∧ recNode ph (.dir e) dn = none) := by
  induction es with
  | nil => intro d1 _ h; simp [recKids] at h
  | cons e es ih =>
    obtain ⟨k0, v⟩ := e
    intro d1 he h
    rw [wf_cons] at he
    obtain ⟨_, hu, _, he'⟩ := he
    have lift : ∀ k e, Ents.lookup k es = some (Node.dir e) →
        k0 ≠ k ∧ Ents.lookup k ((k0, v) :: es) = some (Node.dir e) := by
      intro k e hl
      have hk : k0 ≠ k := by intro hk; subst hk; rw [hu] at hl; cases hl
      exact ⟨hk, by simp [lookup_cons, hk, hl]⟩
    cases v with
    | file b0 =>
      simp only [recKids] at h
      obtain ⟨k, e, h1, h2⟩ := ih d1 he' h
      exact ⟨k, e, (lift k e h1).2, h2⟩
    | dir e0 =>
      simp only [recKids] at h
      cases hl : Ents.lookup k0 d1 with
      | none => exact ⟨k0, e0, by simp [lookup_cons], Or.inl hl⟩
      | some dn =>
        simp only [hl] at h
        cases hr : recNode ph (.dir e0) dn with
        | none => exact ⟨k0, e0, by simp [lookup_cons], Or.inr ⟨dn, hl, hr⟩⟩
        | some m =>
          simp only [hr] at h
          obtain ⟨k, e, h1, h2⟩ := ih _ he' h
          rw [lookup_put_other _ _ _ _ (Ne.symm (lift k e h1).1)] at h2
          exact ⟨k, e, (lift k e h1).2, h2⟩

/-- a successful `recNode` is one level followed by the sub-directories, on two directories -/
theorem recNode_inv {ph : Phase} {S D D1 : Node} (h : recNode ph S D = some D1) :
    ∃ es ds d1 d2, S = .dir es ∧ D = .dir ds ∧ lvl ph es ds = some d1 ∧
      recKids ph es d1 = some d2 ∧ D1 = .dir d2 := by
  cases S with
  | file b => simp [recNode] at h
  | dir es =>
    cases D with
    | file b => simp [recNode] at h
    | dir ds =>
      simp only [recNode] at h
      cases hl : lvl ph es ds with
      | none => simp [hl] at h
      | some d1 =>
        simp only [hl, Option.map_eq_some_iff] at h
        obtain ⟨d2, h2, rfl⟩ := h
        exact ⟨es, ds, d1, d2, rfl, rfl, hl, h2, rfl⟩

theorem recNode_none_inv {ph : Phase} {es ds : Ents} (h : recNode ph (.dir es) (.dir ds) = none) :
    lvl ph es ds = none ∨ ∃ d1, lvl ph es ds = some d1 ∧ recKids ph es d1 = none := by
  simp only [recNode] at h
  cases hl : lvl ph es ds with
  | none => exact Or.inl rfl
  | some d1 =>
    simp only [hl, Option.map_eq_none_iff] at h
    exact Or.inr ⟨d1, rfl, h⟩

/-! ### A. well-formedness -/

mutual
theorem recNode_wf' : ∀ (ph : Phase) (S D D1 : Node), S.wf = true → D.wf = true →
    recNode ph S D = some D1 → D1.wf = true
  | ph, .dir es, .dir ds, D1, hS, hD, h => by
    simp only [recNode] at h
    cases hl : lvl ph es ds with
    | none => simp [hl] at h
    | some d1 =>
      simp only [hl, Option.map_eq_some_iff] at h
      obtain ⟨d2, h2, rfl⟩ := h
      rw [wf_dir] at hS hD ⊢
      exact recKids_wf' ph es d1 d2 hS (lvl_wf ph es ds d1 hS hD hl) h2
  | ph, .file _, .file _, D1, _, _, h => by simp [recNode] at h
  | ph, .file _, .dir _, D1, _, _, h => by simp [recNode] at h
  | ph, .dir _, .file _, D1, _, _, h => by simp [recNode] at h
theorem recKids_wf' : ∀ (ph : Phase) (es ds d2 : Ents), entsWf es = true → entsWf ds = true →
    recKids ph es ds = some d2 → entsWf d2 = true
  | ph, [], ds, d2, _, hd, h => by
    simp only [recKids, Option.some.injEq] at h
    subst h
    exact hd
  | ph, (k, .file b) :: es, ds, d2, he, hd, h => by
    rw [wf_cons] at he
    simp only [recKids] at h
    exact recKids_wf' ph es ds d2 he.2.2.2 hd h
  | ph, (k, .dir e) :: es, ds, d2, he, hd, h => by
    rw [wf_cons] at he
    simp only [recKids] at h
    cases hl : Ents.lookup k ds with
    | none => simp [hl] at h
    | some dn =>
      simp only [hl] at h
      cases hr : recNode ph (.dir e) dn with
      | none => simp [hr] at h
      | some m =>
        simp only [hr] at h
        have hm := recNode_wf' ph (.dir e) dn m he.2.2.1 (lookup_wf _ _ _ hd hl) hr
        exact recKids_wf' ph es _ d2 he.2.2.2 (entsWf_put _ _ _ he.1 hm hd) h
end

theorem recNode_wf (ph : Phase) (S D D1 : Node) (hS : S.wf = true) (hD : D.wf = true)
    (h : recNode ph S D = some D1) : D1.wf = true :=
  recNode_wf' ph S D D1 hS hD h

/-! ### B. the phases, pointwise -/

theorem file_get_ne_dir (b : Bytes) (r : List Name) (e : Ents) : (Node.file b).get r ≠ some (.dir e) := by
  cases r <;> simp [Node.get]

theorem struct_get_aux : ∀ (q : List Name) (S D D1 : Node), S.wf = true →
    recNode .struct S D = some D1 →
    (∀ e, S.get q = some (.dir e) → ∃ d, D1.get q = some (.dir d)) ∧
    ((∀ e, S.get q ≠ some (.dir e)) → (D1.get q).map shallow = (D.get q).map shallow) := by
  intro q
  induction q with
  | nil =>
    intro S D D1 _ h
    obtain ⟨es, ds, d1, d2, rfl, rfl, _, _, rfl⟩ := recNode_inv h
    exact ⟨fun _ _ => ⟨d2, rfl⟩, fun hne => absurd rfl (hne es)⟩
  | cons k r ih =>
    intro S D D1 hS h
    obtain ⟨es, ds, d1, d2, rfl, rfl, hl, hk, rfl⟩ := recNode_inv h
    rw [wf_dir] at hS
    have hs := lvl_struct_spec es ds d1 hS hl k
    have hr := recKids_spec .struct es d1 d2 hS hk k
    simp only [get_cons_dir]
    cases hle : Ents.lookup k es with
    | none =>
      have e1 := hs.2 (by simp [hle])
      have e2 := hr.2 (by simp [hle])
      simp [e2, e1]
    | some sn =>
      cases sn with
      | file b =>
        have e1 := hs.2 (by simp [hle])
        have e2 := hr.2 (by simp [hle])
        simp [e2, e1, file_get_ne_dir]
      | dir e0 =>
        obtain ⟨dn, m, hd1, hrec, hd2⟩ := hr.1 e0 hle
        have IH := ih (.dir e0) dn m (lookup_wf _ _ _ hS hle) hrec
        simp only [hd2, Option.bind_some]
        refine ⟨IH.1, fun hne => ?_⟩
        rw [IH.2 hne]
        rcases hs.1 e0 hle with ⟨d, h1, h2⟩ | ⟨h1, h2⟩
        · rw [hd1] at h2
          cases h2
          simp [h1]
        · rw [hd1] at h2
          cases h2
          cases r with
          | nil => exact absurd rfl (hne e0)
          | cons c r' => simp [h1, get_cons_empty]

theorem files_get_aux : ∀ (q : List Name) (S D D1 : Node), S.wf = true →
    recNode .files S D = some D1 →
    (∀ b, S.get q = some (.file b) → D1.get q = some (.file b)) ∧
    ((∀ b, S.get q ≠ some (.file b)) → (D1.get q).map shallow = (D.get q).map shallow) := by
  intro q
  induction q with
  | nil =>
    intro S D D1 _ h
    obtain ⟨es, ds, d1, d2, rfl, rfl, _, _, rfl⟩ := recNode_inv h
    exact ⟨fun _ hb => (by cases hb), fun _ => rfl⟩
  | cons k r ih =>
    intro S D D1 hS h
    obtain ⟨es, ds, d1, d2, rfl, rfl, hl, hk, rfl⟩ := recNode_inv h
    rw [wf_dir] at hS
    have hs := lvl_files_spec es ds d1 hS hl k
    have hr := recKids_spec .files es d1 d2 hS hk k
    simp only [get_cons_dir]
    cases hle : Ents.lookup k es with
    | none =>
      have e1 := hs.2 (by simp [hle])
      have e2 := hr.2 (by simp [hle])
      simp [e2, e1]
    | some sn =>
      cases sn with
      | file b =>
        obtain ⟨e1, hnd⟩ := hs.1 b hle
        have e2 := hr.2 (by simp [hle])
        simp only [e2, e1, Option.bind_some]
        refine ⟨fun _ hb => hb, fun hne => ?_⟩
        cases r with
        | nil => exact absurd rfl (hne b)
        | cons c r' =>
          cases hld : Ents.lookup k ds with
          | none => simp [get_cons_file]
          | some dn =>
            cases dn with
            | file b1 => simp [get_cons_file]
            | dir d => exact absurd hld (hnd d)
      | dir e0 =>
        have e1 := hs.2 (by simp [hle])
        obtain ⟨dn, m, hd1, hrec, hd2⟩ := hr.1 e0 hle
        have IH := ih (.dir e0) dn m (lookup_wf _ _ _ hS hle) hrec
        rw [e1] at hd1
        simpa only [hd2, hd1, Option.bind_some] using IH

open Classical in
/-- the `struct` phase, at every path: a source directory is a directory; any other position is unchanged -/
theorem struct_get (es ds : Ents) (D1 : Node) (hS : entsWf es = true) (_hD : entsWf ds = true)
    (h : recNode .struct (.dir es) (.dir ds) = some D1) (q : List Name) :
    (D1.get q).map shallow =
      if (∃ e, (Node.dir es).get q = some (.dir e)) then some none
      else ((Node.dir ds).get q).map shallow := by
  have A := struct_get_aux q (.dir es) (.dir ds) D1 (wf_dir.mpr hS) h
  by_cases hc : ∃ e, (Node.dir es).get q = some (.dir e)
  · rw [if_pos hc]
    obtain ⟨e, he⟩ := hc
    obtain ⟨d, hd⟩ := A.1 e he
    simp [hd, shallow]
  · rw [if_neg hc]
    exact A.2 (fun e he => hc ⟨e, he⟩)

theorem struct_get_dir {S D D1 : Node} (hS : S.wf = true) (h : recNode .struct S D = some D1)
    {q : List Name} {e : Ents} (hq : S.get q = some (.dir e)) : ∃ d, D1.get q = some (.dir d) :=
  (struct_get_aux q S D D1 hS h).1 e hq

theorem struct_get_other {S D D1 : Node} (hS : S.wf = true) (h : recNode .struct S D = some D1)
    {q : List Name} (hq : ∀ e, S.get q ≠ some (.dir e)) :
    (D1.get q).map shallow = (D.get q).map shallow :=
  (struct_get_aux q S D D1 hS h).2 hq

theorem files_get_file {S D D1 : Node} (hS : S.wf = true) (h : recNode .files S D = some D1)
    {q : List Name} {b : Bytes} (hq : S.get q = some (.file b)) : D1.get q = some (.file b) :=
  (files_get_aux q S D D1 hS h).1 b hq

theorem files_get_other {S D D1 : Node} (hS : S.wf = true) (h : recNode .files S D = some D1)
    {q : List Name} (hq : ∀ b, S.get q ≠ some (.file b)) :
    (D1.get q).map shallow = (D.get q).map shallow :=
  (files_get_aux q S D D1 hS h).2 hq

/-- the `files` phase, at every path: a source file is there with its bytes; any other position is unchanged.
(`Cov` is not needed: it follows from the success of the phase, see `files_cov'`.) -/
theorem files_get' (es ds : Ents) (D1 : Node) (hS : entsWf es = true)
    (h : recNode .files (.dir es) (.dir ds) = some D1) (q : List Name) :
    (D1.get q).map shallow =
      match (Node.dir es).get q with
      | some (.file b) => some (some b)
      | _ => ((Node.dir ds).get q).map shallow := by
  have A := files_get_aux q (.dir es) (.dir ds) D1 (wf_dir.mpr hS) h
  split
  · next b hb => simp [A.1 b hb, shallow]
  · next hne => exact A.2 (fun b hb => hne b hb)

theorem files_get (es ds : Ents) (D1 : Node) (hS : entsWf es = true) (_hD : entsWf ds = true)
    (_hc : Cov (.dir es) (.dir ds) []) (h : recNode .files (.dir es) (.dir ds) = some D1)
    (q : List Name) :
    (D1.get q).map shallow =
      match (Node.dir es).get q with
      | some (.file b) => some (some b)
      | _ => ((Node.dir ds).get q).map shallow :=
  files_get' es ds D1 hS h q

/-! ### C. every source directory is a destination directory -/

theorem cov_nil {S D : Node} :
    Cov S D [] ↔ ∀ x e, S.get x = some (.dir e) → ∃ d, D.get x = some (.dir d) := by
  simp [Cov]

theorem map_shallow_dir {o : Option Node} (h : o.map shallow = some none) : ∃ d, o = some (.dir d) := by
  cases o with
  | none => simp at h
  | some n =>
    cases n with
    | file b => simp [shallow] at h
    | dir d => exact ⟨d, rfl⟩

theorem struct_cov (S D D1 : Node) (hS : S.wf = true) (_hD : D.wf = true)
    (h : recNode .struct S D = some D1) : Cov S D1 [] :=
  cov_nil.mpr fun _ _ hx => struct_get_dir hS h hx

/-- a successful `files` phase implies the cover (the walk fails on a missing destination directory) -/
theorem files_cov_pre : ∀ (q : List Name) (S D D1 : Node), S.wf = true →
    recNode .files S D = some D1 → ∀ e, S.get q = some (.dir e) → ∃ d, D.get q = some (.dir d) := by
  intro q
  induction q with
  | nil =>
    intro S D D1 _ h e _
    obtain ⟨es, ds, d1, d2, rfl, rfl, _, _, rfl⟩ := recNode_inv h
    exact ⟨ds, rfl⟩
  | cons k r ih =>
    intro S D D1 hS h e hq
    obtain ⟨es, ds, d1, d2, rfl, rfl, hl, hk, rfl⟩ := recNode_inv h
    rw [wf_dir] at hS
    have hs := lvl_files_spec es ds d1 hS hl k
    have hr := recKids_spec .files es d1 d2 hS hk k
    rw [get_cons_dir] at hq ⊢
    cases hle : Ents.lookup k es with
    | none => simp [hle] at hq
    | some sn =>
      cases sn with
      | file b => simp only [hle, Option.bind_some] at hq; exact absurd hq (file_get_ne_dir _ _ _)
      | dir e0 =>
        have e1 := hs.2 (by simp [hle])
        obtain ⟨dn, m, hd1, hrec, _⟩ := hr.1 e0 hle
        rw [e1] at hd1
        simp only [hle, Option.bind_some] at hq
        simpa only [hd1, Option.bind_some] using ih (.dir e0) dn m (lookup_wf _ _ _ hS hle) hrec e hq

theorem files_cov' (S D D1 : Node) (hS : S.wf = true) (h : recNode .files S D = some D1) :
    Cov S D [] ∧ Cov S D1 [] := by
  have h1 : Cov S D [] := cov_nil.mpr fun x e hx => files_cov_pre x S D D1 hS h e hx
  refine ⟨h1, cov_nil.mpr fun x e hx => ?_⟩
  obtain ⟨d, hd⟩ := cov_nil.mp h1 x e hx
  have := files_get_other hS h (q := x) (fun b hb => by rw [hx] at hb; cases hb)
  rw [hd] at this
  exact map_shallow_dir (by simpa [shallow] using this)

theorem files_cov (S D D1 : Node) (hS : S.wf = true) (_hD : D.wf = true) (_hc : Cov S D [])
    (h : recNode .files S D = some D1) : Cov S D1 [] :=
  (files_cov' S D D1 hS h).2

/-! ### the reference merge, pointwise -/

/-- what `mergeEnts` does to the entry of each name -/
theorem mergeEnts_spec (es : Ents) : ∀ (ds m : Ents), entsWf es = true → mergeEnts es ds = some m →
    ∀ k, (∀ v, Ents.lookup k es = some v →
            ∃ n, mergeNode v (Ents.lookup k ds) = some n ∧ Ents.lookup k m = some n) ∧
         (Ents.lookup k es = none → Ents.lookup k m = Ents.lookup k ds) := by
  induction es with
  | nil =>
    intro ds m _ h k
    simp only [mergeEnts, Option.some.injEq] at h
    subst h
    exact ⟨fun e he => by simp [Ents.lookup] at he, fun _ => rfl⟩
  | cons e es ih =>
    obtain ⟨k0, v0⟩ := e
    intro ds m he h k
    rw [wf_cons] at he
    obtain ⟨_, hu, _, he'⟩ := he
    simp only [mergeEnts] at h
    cases hn : mergeNode v0 (Ents.lookup k0 ds) with
    | none => simp [hn] at h
    | some n =>
      simp only [hn] at h
      have IH := ih _ m he' h k
      by_cases hk : k0 = k
      · subst hk
        refine ⟨fun v hv => ?_, fun hne => by simp [lookup_cons] at hne⟩
        simp only [lookup_cons, if_true, Option.some.injEq] at hv
        subst hv
        refine ⟨n, hn, ?_⟩
        rw [IH.2 hu, lookup_put_same]
      · rw [lookup_put_other _ _ _ _ (Ne.symm hk)] at IH
        simpa only [lookup_cons, hk, if_false] using IH

theorem mergeEnts_none (es : Ents) : ∀ (ds : Ents), entsWf es = true → mergeEnts es ds = none →
    ∃ k v, Ents.lookup k es = some v ∧ mergeNode v (Ents.lookup k ds) = none := by
  induction es with
  | nil => intro ds _ h; simp [mergeEnts] at h
  | cons e es ih =>
    obtain ⟨k0, v0⟩ := e
    intro ds he h
    rw [wf_cons] at he
    obtain ⟨_, hu, _, he'⟩ := he
    simp only [mergeEnts] at h
    cases hn : mergeNode v0 (Ents.lookup k0 ds) with
    | none => exact ⟨k0, v0, by simp [lookup_cons], hn⟩
    | some n =>
      simp only [hn] at h
      obtain ⟨k, v, h1, h2⟩ := ih _ he' h
      have hk : k0 ≠ k := by intro hk; subst hk; rw [hu] at h1; cases h1
      rw [lookup_put_other _ _ _ _ (Ne.symm hk)] at h2
      exact ⟨k, v, by simp [lookup_cons, hk, h1], h2⟩

/-- the merge, at every path: the source where it has something, else the destination -/
theorem merge_get_aux : ∀ (q : List Name) (es ds m : Ents), entsWf es = true →
    mergeEnts es ds = some m →
    ((Node.dir m).get q).map shallow =
      match ((Node.dir es).get q).map shallow with
      | some x => some x
      | none => ((Node.dir ds).get q).map shallow := by
  intro q
  induction q with
  | nil => intro es ds m _ _; simp [Node.get, shallow]
  | cons k r ih =>
    intro es ds m he h
    have ms := mergeEnts_spec es ds m he h k
    simp only [get_cons_dir]
    cases hle : Ents.lookup k es with
    | none => simp [ms.2 hle]
    | some sn =>
      obtain ⟨n, hn, hm⟩ := ms.1 sn hle
      simp only [hm, Option.bind_some]
      cases sn with
      | file b =>
        have hnb : n = .file b ∧ ∀ c r', ((Ents.lookup k ds).bind (Node.get (c :: r'))) = none := by
          cases hld : Ents.lookup k ds with
          | none => rw [hld] at hn; simp only [mergeNode, Option.some.injEq] at hn; simp [hn]
          | some dn =>
            cases dn with
            | file b1 =>
              rw [hld] at hn; simp only [mergeNode, Option.some.injEq] at hn
              simp [hn, get_cons_file]
            | dir d => rw [hld] at hn; simp [mergeNode] at hn
        obtain ⟨rfl, hz⟩ := hnb
        cases r with
        | nil => simp [Node.get, shallow]
        | cons c r' => simp [get_cons_file, hz]
      | dir e0 =>
        have he0 : entsWf e0 = true := wf_dir.mp (lookup_wf _ _ _ he hle)
        cases hld : Ents.lookup k ds with
        | none =>
          rw [hld] at hn
          simp only [mergeNode, Option.map_eq_some_iff] at hn
          obtain ⟨m', hm', rfl⟩ := hn
          have IH := ih e0 [] m' he0 hm'
          cases r with
          | nil => simp [Node.get, shallow]
          | cons c r' => simpa [get_cons_empty] using IH
        | some dn =>
          cases dn with
          | file b1 => rw [hld] at hn; simp [mergeNode] at hn
          | dir d =>
            rw [hld] at hn
            simp only [mergeNode, Option.map_eq_some_iff] at hn
            obtain ⟨m', hm', rfl⟩ := hn
            simpa using ih e0 d m' he0 hm'

theorem merge_get (es ds m : Ents) (he : entsWf es = true) (_hd : entsWf ds = true)
    (hm : mergeEnts es ds = some m) (q : List Name) :
    ((Node.dir m).get q).map shallow =
      match ((Node.dir es).get q).map shallow with
      | some x => some x
      | none => ((Node.dir ds).get q).map shallow :=
  merge_get_aux q es ds m he hm

/-! ### E. the conflicts -/

theorem empty_get_ne_file (q : List Name) (b : Bytes) : (Node.dir []).get q ≠ some (.file b) := by
  cases q <;> simp [Node.get, Ents.lookup]

/-- a successful `struct` phase has no (source directory, destination file) pair -/
theorem struct_no_conflict : ∀ (q : List Name) (S D D1 : Node), S.wf = true →
    recNode .struct S D = some D1 → ∀ e b, S.get q = some (.dir e) → D.get q = some (.file b) → False := by
  intro q
  induction q with
  | nil =>
    intro S D D1 _ h e b _ hD
    obtain ⟨es, ds, d1, d2, rfl, rfl, _, _, rfl⟩ := recNode_inv h
    cases hD
  | cons k r ih =>
    intro S D D1 hS h e b hSq hDq
    obtain ⟨es, ds, d1, d2, rfl, rfl, hl, hk, rfl⟩ := recNode_inv h
    rw [wf_dir] at hS
    have hs := lvl_struct_spec es ds d1 hS hl k
    have hr := recKids_spec .struct es d1 d2 hS hk k
    rw [get_cons_dir] at hSq hDq
    cases hle : Ents.lookup k es with
    | none => simp [hle] at hSq
    | some sn =>
      cases hld : Ents.lookup k ds with
      | none => simp [hld] at hDq
      | some dn =>
        simp only [hle, Option.bind_some] at hSq
        simp only [hld, Option.bind_some] at hDq
        cases sn with
        | file b0 => exact file_get_ne_dir _ _ _ hSq
        | dir e0 =>
          obtain ⟨dn', m, hd1, hrec, _⟩ := hr.1 e0 hle
          rcases hs.1 e0 hle with ⟨d, h1, h2⟩ | ⟨h1, _⟩
          · rw [hld] at h1
            cases h1
            rw [hd1] at h2
            cases h2
            exact ih (.dir e0) (.dir d) m (lookup_wf _ _ _ hS hle) hrec e b hSq hDq
          · rw [hld] at h1
            cases h1

/-- a successful `files` phase has no (source file, destination directory) pair -/
theorem files_no_conflict : ∀ (q : List Name) (S D D1 : Node), S.wf = true →
    recNode .files S D = some D1 → ∀ b e, S.get q = some (.file b) → D.get q = some (.dir e) → False := by
  intro q
  induction q with
  | nil =>
    intro S D D1 _ h b e hSq _
    obtain ⟨es, ds, d1, d2, rfl, rfl, _, _, rfl⟩ := recNode_inv h
    cases hSq
  | cons k r ih =>
    intro S D D1 hS h b e hSq hDq
    obtain ⟨es, ds, d1, d2, rfl, rfl, hl, hk, rfl⟩ := recNode_inv h
    rw [wf_dir] at hS
    have hs := lvl_files_spec es ds d1 hS hl k
    have hr := recKids_spec .files es d1 d2 hS hk k
    rw [get_cons_dir] at hSq hDq
    cases hle : Ents.lookup k es with
    | none => simp [hle] at hSq
    | some sn =>
      cases hld : Ents.lookup k ds with
      | none => simp [hld] at hDq
      | some dn =>
        simp only [hle, Option.bind_some] at hSq
        simp only [hld, Option.bind_some] at hDq
        cases sn with
        | file b0 =>
          cases r with
          | cons c r' => simp [get_cons_file] at hSq
          | nil =>
            simp only [get_nil, Option.some.injEq] at hDq
            subst hDq
            exact (hs.1 b0 hle).2 e hld
        | dir e0 =>
          have e1 := hs.2 (by simp [hle])
          obtain ⟨dn', m, hd1, hrec, _⟩ := hr.1 e0 hle
          rw [e1, hld] at hd1
          cases hd1
          exact ih (.dir e0) dn m (lookup_wf _ _ _ hS hle) hrec b e hSq hDq

/-- a failing `struct` phase has a (source directory, destination file) pair -/
theorem struct_none_conflict (es : Ents) : ∀ (ds : Ents), entsWf es = true →
    recNode .struct (.dir es) (.dir ds) = none →
    ∃ q e b, (Node.dir es).get q = some (.dir e) ∧ (Node.dir ds).get q = some (.file b) := by
  induction es using ents_induction with
  | step es ih =>
    intro ds hS h
    rcases recNode_none_inv h with hl | ⟨d1, hl, hk⟩
    · obtain ⟨k, e, b, h1, h2⟩ := lvl_struct_none es ds hS hl
      exact ⟨[k], e, b, by simp [get_cons_dir, h1, get_nil], by simp [get_cons_dir, h2, get_nil]⟩
    · obtain ⟨k, e, hle, hc⟩ := recKids_none .struct es d1 hS hk
      have he : entsWf e = true := wf_dir.mp (lookup_wf _ _ _ hS hle)
      rcases (lvl_struct_spec es ds d1 hS hl k).1 e hle with ⟨d, h1, h2⟩ | ⟨h1, h2⟩
      · rcases hc with hc | ⟨dn, hc, hrec⟩
        · rw [h2] at hc; cases hc
        · rw [h2] at hc
          cases hc
          obtain ⟨q, e', b, hq1, hq2⟩ := ih k e hle d he hrec
          exact ⟨k :: q, e', b, by simp [get_cons_dir, hle, hq1], by simp [get_cons_dir, h1, hq2]⟩
      · rcases hc with hc | ⟨dn, hc, hrec⟩
        · rw [h2] at hc; cases hc
        · rw [h2] at hc
          cases hc
          obtain ⟨q, e', b, _, hq2⟩ := ih k e hle [] he hrec
          exact absurd hq2 (empty_get_ne_file _ _)

/-- a failing `files` phase (on a destination that covers the source directories) has a (source file,
destination directory) pair -/
theorem files_none_conflict (es : Ents) : ∀ (ds : Ents), entsWf es = true →
    Cov (.dir es) (.dir ds) [] → recNode .files (.dir es) (.dir ds) = none →
    ∃ q b e, (Node.dir es).get q = some (.file b) ∧ (Node.dir ds).get q = some (.dir e) := by
  induction es using ents_induction with
  | step es ih =>
    intro ds hS hc h
    rw [cov_nil] at hc
    rcases recNode_none_inv h with hl | ⟨d1, hl, hk⟩
    · obtain ⟨k, b, e, h1, h2⟩ := lvl_files_none es ds hS hl
      exact ⟨[k], b, e, by simp [get_cons_dir, h1, get_nil], by simp [get_cons_dir, h2, get_nil]⟩
    · obtain ⟨k, e, hle, hcc⟩ := recKids_none .files es d1 hS hk
      have he : entsWf e = true := wf_dir.mp (lookup_wf _ _ _ hS hle)
      have e1 := (lvl_files_spec es ds d1 hS hl k).2 (by simp [hle])
      obtain ⟨d, hd⟩ := hc [k] e (by simp [get_cons_dir, hle, get_nil])
      have hld : Ents.lookup k ds = some (.dir d) := by
        rw [get_cons_dir] at hd
        cases hx : Ents.lookup k ds with
        | none => simp [hx] at hd
        | some x => simpa [hx, get_nil] using hd
      rw [e1, hld] at hcc
      rcases hcc with hcc | ⟨dn, hcc, hrec⟩
      · cases hcc
      · cases hcc
        have hc' : Cov (.dir e) (.dir d) [] := by
          rw [cov_nil]
          intro x e' hx
          have := hc (k :: x) e' (by simp [get_cons_dir, hle, hx])
          simpa [get_cons_dir, hld] using this
        obtain ⟨q, b, e', hq1, hq2⟩ := ih k e hle d he hc' hrec
        exact ⟨k :: q, b, e', by simp [get_cons_dir, hle, hq1], by simp [get_cons_dir, hld, hq2]⟩

theorem struct_none_iff (es ds : Ents) (he : entsWf es = true) (_hd : entsWf ds = true) :
    recNode .struct (.dir es) (.dir ds) = none ↔
      ∃ q e b, (Node.dir es).get q = some (.dir e) ∧ (Node.dir ds).get q = some (.file b) := by
  constructor
  · exact struct_none_conflict es ds he
  · rintro ⟨q, e, b, h1, h2⟩
    cases h : recNode .struct (.dir es) (.dir ds) with
    | none => rfl
    | some D1 => exact (struct_no_conflict q _ _ D1 (wf_dir.mpr he) h e b h1 h2).elim

theorem files_none_iff (es ds : Ents) (he : entsWf es = true) (_hd : entsWf ds = true)
    (hc : Cov (.dir es) (.dir ds) []) :
    recNode .files (.dir es) (.dir ds) = none ↔
      ∃ q b e, (Node.dir es).get q = some (.file b) ∧ (Node.dir ds).get q = some (.dir e) := by
  constructor
  · exact files_none_conflict es ds he hc
  · rintro ⟨q, b, e, h1, h2⟩
    cases h : recNode .files (.dir es) (.dir ds) with
    | none => rfl
    | some D1 => exact (files_no_conflict q _ _ D1 (wf_dir.mpr he) h b e h1 h2).elim

/-- a successful merge has no conflicting pair of either kind -/
theorem merge_no_conflict : ∀ (q : List Name) (es ds m : Ents), entsWf es = true →
    mergeEnts es ds = some m →
    (∀ e b, (Node.dir es).get q = some (.dir e) → (Node.dir ds).get q = some (.file b) → False) ∧
    (∀ b e, (Node.dir es).get q = some (.file b) → (Node.dir ds).get q = some (.dir e) → False) := by
  intro q
  induction q with
  | nil =>
    intro es ds m _ _
    exact ⟨fun e b _ h => (by cases h), fun b e h _ => (by cases h)⟩
  | cons k r ih =>
    intro es ds m he h
    have ms := mergeEnts_spec es ds m he h k
    simp only [get_cons_dir]
    cases hle : Ents.lookup k es with
    | none => exact ⟨fun e b h _ => (by cases h), fun b e h _ => (by cases h)⟩
    | some sn =>
      cases hld : Ents.lookup k ds with
      | none => exact ⟨fun e b _ h => (by cases h), fun b e _ h => (by cases h)⟩
      | some dn =>
        obtain ⟨n, hn, _⟩ := ms.1 sn hle
        rw [hld] at hn
        simp only [Option.bind_some]
        cases sn with
        | file b0 =>
          cases dn with
          | dir d => simp [mergeNode] at hn
          | file b1 =>
            refine ⟨fun e b h _ => file_get_ne_dir _ _ _ h, fun b e _ h => file_get_ne_dir _ _ _ h⟩
        | dir e0 =>
          cases dn with
          | file b1 => simp [mergeNode] at hn
          | dir d =>
            simp only [mergeNode, Option.map_eq_some_iff] at hn
            obtain ⟨m', hm', _⟩ := hn
            exact ih e0 d m' (wf_dir.mp (lookup_wf _ _ _ he hle)) hm'

/-- a failing merge has a conflicting pair -/
theorem merge_none_conflict (es : Ents) : ∀ (ds : Ents), entsWf es = true → mergeEnts es ds = none →
    (∃ q e b, (Node.dir es).get q = some (.dir e) ∧ (Node.dir ds).get q = some (.file b)) ∨
    (∃ q b e, (Node.dir es).get q = some (.file b) ∧ (Node.dir ds).get q = some (.dir e)) := by
  induction es using ents_induction with
  | step es ih =>
    intro ds hS h
    obtain ⟨k, v, hle, hn⟩ := mergeEnts_none es ds hS h
    cases v with
    | file b0 =>
      cases hld : Ents.lookup k ds with
      | none => rw [hld] at hn; simp [mergeNode] at hn
      | some dn =>
        cases dn with
        | file b1 => rw [hld] at hn; simp [mergeNode] at hn
        | dir d =>
          exact Or.inr ⟨[k], b0, d, by simp [get_cons_dir, hle, get_nil],
            by simp [get_cons_dir, hld, get_nil]⟩
    | dir e0 =>
      have he0 : entsWf e0 = true := wf_dir.mp (lookup_wf _ _ _ hS hle)
      cases hld : Ents.lookup k ds with
      | none =>
        rw [hld] at hn
        simp only [mergeNode, Option.map_eq_none_iff] at hn
        rcases ih k e0 hle [] he0 hn with ⟨q, e, b, _, h2⟩ | ⟨q, b, e, h1, h2⟩
        · exact absurd h2 (empty_get_ne_file _ _)
        · cases q with
          | nil => cases h1
          | cons c q' => simp [get_cons_empty] at h2
      | some dn =>
        cases dn with
        | file b1 =>
          exact Or.inl ⟨[k], e0, b1, by simp [get_cons_dir, hle, get_nil],
            by simp [get_cons_dir, hld, get_nil]⟩
        | dir d =>
          rw [hld] at hn
          simp only [mergeNode, Option.map_eq_none_iff] at hn
          rcases ih k e0 hle d he0 hn with ⟨q, e, b, h1, h2⟩ | ⟨q, b, e, h1, h2⟩
          · exact Or.inl ⟨k :: q, e, b, by simp [get_cons_dir, hle, h1],
              by simp [get_cons_dir, hld, h2]⟩
          · exact Or.inr ⟨k :: q, b, e, by simp [get_cons_dir, hle, h1],
              by simp [get_cons_dir, hld, h2]⟩

theorem merge_none_iff (es ds : Ents) (he : entsWf es = true) (_hd : entsWf ds = true) :
    mergeEnts es ds = none ↔
      (∃ q e b, (Node.dir es).get q = some (.dir e) ∧ (Node.dir ds).get q = some (.file b)) ∨
      (∃ q b e, (Node.dir es).get q = some (.file b) ∧ (Node.dir ds).get q = some (.dir e)) := by
  constructor
  · exact merge_none_conflict es ds he
  · intro hc
    cases h : mergeEnts es ds with
    | none => rfl
    | some m =>
      rcases hc with ⟨q, e, b, h1, h2⟩ | ⟨q, b, e, h1, h2⟩
      · exact ((merge_no_conflict q es ds m he h).1 e b h1 h2).elim
      · exact ((merge_no_conflict q es ds m he h).2 b e h1 h2).elim

/-! ### D. the two phases against the reference merge -/

/-- a (source file, destination directory) pair survives the `struct` phase -/
theorem conflict_after_struct {es ds m1 : Ents} (he : entsWf es = true)
    (h1 : recNode .struct (.dir es) (.dir ds) = some (.dir m1)) {q : List Name} {b : Bytes}
    (hq : (Node.dir es).get q = some (.file b)) :
    (∃ e, (Node.dir m1).get q = some (.dir e)) ↔ (∃ e, (Node.dir ds).get q = some (.dir e)) := by
  have hx := struct_get_other (wf_dir.mpr he) h1 (q := q) (fun e h => by rw [hq] at h; cases h)
  constructor
  · rintro ⟨e, h⟩
    rw [h] at hx
    exact map_shallow_dir (by simpa [shallow] using hx.symm)
  · rintro ⟨e, h⟩
    rw [h] at hx
    exact map_shallow_dir (by simpa [shallow] using hx)

theorem merge_some (es ds m : Ents) (he : entsWf es = true) (hd : entsWf ds = true)
    (hm : mergeEnts es ds = some m) :
    ∃ m1 m2, recNode .struct (.dir es) (.dir ds) = some (.dir m1) ∧
      recNode .files (.dir es) (.dir m1) = some (.dir m2) ∧
      entsWf m1 = true ∧ entsWf m2 = true ∧ ObsEq (.dir m2) (.dir m) := by
  have hSw : (Node.dir es).wf = true := wf_dir.mpr he
  have hDw : (Node.dir ds).wf = true := wf_dir.mpr hd
  -- the struct phase succeeds
  cases h1 : recNode .struct (.dir es) (.dir ds) with
  | none =>
    obtain ⟨q, e, b, x1, x2⟩ := (struct_none_iff es ds he hd).mp h1
    exact ((merge_no_conflict q es ds m he hm).1 e b x1 x2).elim
  | some D1 =>
    obtain ⟨_, _, _, m1, _, _, _, _, rfl⟩ := recNode_inv h1
    have hm1 : entsWf m1 = true := wf_dir.mp (recNode_wf .struct _ _ _ hSw hDw h1)
    have hcov := struct_cov _ _ _ hSw hDw h1
    -- the files phase succeeds
    cases h2 : recNode .files (.dir es) (.dir m1) with
    | none =>
      obtain ⟨q, b, e, x1, x2⟩ := (files_none_iff es m1 he hm1 hcov).mp h2
      obtain ⟨e', x3⟩ := (conflict_after_struct he h1 x1).mp ⟨e, x2⟩
      exact ((merge_no_conflict q es ds m he hm).2 b e' x1 x3).elim
    | some D2 =>
      obtain ⟨_, _, _, m2, _, _, _, _, rfl⟩ := recNode_inv h2
      have hm2 : entsWf m2 = true :=
        wf_dir.mp (recNode_wf .files _ _ _ hSw (wf_dir.mpr hm1) h2)
      refine ⟨m1, m2, rfl, h2, hm1, hm2, fun q => ?_⟩
      rw [merge_get_aux q es ds m he hm]
      cases hq : (Node.dir es).get q with
      | none =>
        rw [files_get_other hSw h2 (fun b h => by rw [hq] at h; cases h),
          struct_get_other hSw h1 (fun e h => by rw [hq] at h; cases h)]
        simp
      | some sn =>
        cases sn with
        | file b => rw [files_get_file hSw h2 hq]; simp [shallow]
        | dir e =>
          rw [files_get_other hSw h2 (fun b h => by rw [hq] at h; cases h)]
          obtain ⟨d, hd1⟩ := struct_get_dir hSw h1 hq
          simp [hd1, shallow]

theorem merge_none (es ds : Ents) (he : entsWf es = true) (hd : entsWf ds = true)
    (hm : mergeEnts es ds = none) :
    recNode .struct (.dir es) (.dir ds) = none ∨
      ∃ m1, recNode .struct (.dir es) (.dir ds) = some (.dir m1) ∧
        recNode .files (.dir es) (.dir m1) = none := by
  have hSw : (Node.dir es).wf = true := wf_dir.mpr he
  have hDw : (Node.dir ds).wf = true := wf_dir.mpr hd
  cases h1 : recNode .struct (.dir es) (.dir ds) with
  | none => exact Or.inl rfl
  | some D1 =>
    obtain ⟨_, _, _, m1, _, _, _, _, rfl⟩ := recNode_inv h1
    refine Or.inr ⟨m1, rfl, ?_⟩
    have hm1 : entsWf m1 = true := wf_dir.mp (recNode_wf .struct _ _ _ hSw hDw h1)
    have hcov := struct_cov _ _ _ hSw hDw h1
    rcases (merge_none_iff es ds he hd).mp hm with ⟨q, e, b, x1, x2⟩ | ⟨q, b, e, x1, x2⟩
    · exact (struct_no_conflict q _ _ _ hSw h1 e b x1 x2).elim
    · obtain ⟨e', x3⟩ := (conflict_after_struct he h1 x1).mpr ⟨e, x2⟩
      exact (files_none_iff es m1 he hm1 hcov).mpr ⟨q, b, e', x1, x3⟩

/-- `opMerge` (both phases) and the reference merge fail together -/
theorem opMerge_none_iff (es ds : Ents) (he : entsWf es = true) (hd : entsWf ds = true) :
    opMerge (.dir es) (.dir ds) = none ↔ mergeEnts es ds = none := by
  constructor
  · intro h
    cases hm : mergeEnts es ds with
    | none => rfl
    | some m =>
      obtain ⟨m1, m2, h1, h2, _⟩ := merge_some es ds m he hd hm
      simp [opMerge, h1, h2] at h
  · intro hm
    rcases merge_none es ds he hd hm with h1 | ⟨m1, h1, h2⟩
    · simp [opMerge, h1]
    · simp [opMerge, h1, h2]

/-- `opMerge` (both phases) shows what the reference merge shows -/
theorem opMerge_some (es ds m : Ents) (he : entsWf es = true) (hd : entsWf ds = true)
    (hm : mergeEnts es ds = some m) :
    ∃ m2, opMerge (.dir es) (.dir ds) = some (.dir m2) ∧ entsWf m2 = true ∧
      ObsEq (.dir m2) (.dir m) := by
  obtain ⟨m1, m2, h1, h2, _, hw, ho⟩ := merge_some es ds m he hd hm
  exact ⟨m2, by simp [opMerge, h1, h2], hw, ho⟩

end Fs.BaseWalkMerge
