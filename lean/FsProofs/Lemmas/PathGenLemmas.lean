/-
  Helper lemmas for `FsProofs/PathGenEq.lean`: nothing here mentions the generated definitions.
  Each loop of fs/path.py gets (a) a hand-stated *step function* (`normStep`, `joinStep`, `stripStep`,
  `recStep`, the zip steps) and (b) a lemma "for ANY body `f` that agrees pointwise with the step function,
  running the loop combinator of `FsModel/PyStr.lean` gives what the hand model's recursion gives".
  `PathGenEq` instantiates `f` with the lambda the translator emitted and discharges the pointwise
  agreement by `simp`/`rfl`, so the equality proofs do not depend on variable names or on the exact
  shape of the generated `let`s.  For the two `while` loops the lemma also shows that the translator's
  fuel hint suffices (the loop never returns `Err.Leak`).  Core Lean only.
-/
import FsModel.PyStr
import FsProofs.Lemmas.PyStrLemmas

namespace Fs.PathGenLemmas
open Fs Fs.PyStr Fs.PyStrLemmas Fs.PathLemmas

theorem exists_last_occurrence (c : Char) (s : Str) (h : c ∈ s) :
    ∃ a b, s = a ++ c :: b ∧ c ∉ b := by
  induction s with
  | nil => cases h
  | cons x xs ih =>
    by_cases hx : c ∈ xs
    · obtain ⟨a, b, hab, hb⟩ := ih hx
      exact ⟨x :: a, b, by rw [hab]; rfl, hb⟩
    · have : c = x := by
        cases h with
        | head => rfl
        | tail _ h' => exact absurd h' hx
      subst this
      exact ⟨[], xs, rfl, hx⟩

theorem rsplit1_cases (c : Char) (s : Str) :
    (c ∉ s ∧ Path.rsplit1 c s = none) ∨
    (∃ a b, s = a ++ c :: b ∧ c ∉ b ∧ Path.rsplit1 c s = some (a, b)) := by
  by_cases h : c ∈ s
  · right
    obtain ⟨a, b, hab, hb⟩ := exists_last_occurrence c s h
    exact ⟨a, b, hab, hb, by rw [hab]; exact rsplit1_some c a b hb⟩
  · left; exact ⟨h, rsplit1_none c s h⟩

theorem pyIdx_two_0 {α} (a b : α) : pyIdx [a, b] (0 : Int) = .ok a := rfl

theorem pyIdx_two_1 {α} (a b : α) : pyIdx [a, b] (1 : Int) = .ok b := rfl

/-- the body of `normpath`'s component loop, on the in-order component list -/
def normStep (c : Str) (s : List Str) : Flow (List Str) Empty :=
  if Path.inDotDot c then
    (if c == ['.', '.'] then
      (match s.getLast? with
       | none => .exc .IndexError
       | some _ => .next s.dropLast)
     else .next s)
  else .next (s ++ [c])

theorem pyFor_normStep (f : Str → List Str → Flow (List Str) Empty)
    (hf : ∀ c s, f c s = normStep c s) (cs : List Str) (s : List Str) :
    pyFor cs s f =
      (match Path.normLoop cs s.reverse with
       | none => .exc .IndexError
       | some r => .done r) := by
  induction cs generalizing s with
  | nil => simp [pyFor, Path.normLoop]
  | cons c cs ih =>
    rw [pyFor, hf, normStep]
    conv => rhs; rw [Path.normLoop.eq_def]
    by_cases h1 : Path.inDotDot c = true
    · by_cases h2 : (c == ['.', '.']) = true
      · simp only [h1, h2, if_true]
        rcases list_nil_or_snoc s with rfl | ⟨i, x, rfl⟩
        · simp
        · simp [ih]
      · simp only [h1, h2, if_true]
        simp [ih]
    · simp only [h1]
      simp [ih]

/-- body of `join`'s loop: state = (relpaths in order, absolute) -/
def joinStep (p : Str) (s : List Str × Bool) : Flow (List Str × Bool) Empty :=
  match p with
  | [] => .next s
  | c :: _ => if c = '/' then .next ([p], true) else .next (s.1 ++ [p], s.2)

theorem pyFor_joinStep (f : Str → List Str × Bool → Flow (List Str × Bool) Empty)
    (hf : ∀ p s, f p s = joinStep p s) (ps : List Str) (rel : List Str) (ab : Bool) :
    pyFor ps (rel, ab) f = .done ((Path.join.go ps ab rel.reverse).2, (Path.join.go ps ab rel.reverse).1) := by
  induction ps generalizing rel ab with
  | nil => simp [pyFor, join_go_nil]
  | cons p ps ih =>
    rw [pyFor, hf]
    cases p with
    | nil => simp only [joinStep, join_go_cons_nil]; exact ih rel ab
    | cons c r =>
      simp only [joinStep]
      rw [join_go_cons _ _ _ _ (by simp), startsWithSlash_cons]
      by_cases hc : c = '/'
      · simp only [hc, if_true, decide_true]
        have := ih [('/' :: r)] true
        simpa using this
      · simp only [hc, if_false, decide_false]
        have := ih (rel ++ [c :: r]) ab
        simpa using this

theorem pyStrIdx_cons_zero (c : Char) (r : Str) : pyStrIdx (c :: r) (0 : Int) = .ok [c] := rfl

theorem join_tail (ab : Bool) (rel : List Str) :
    (match Path.normpath (pyJoin '/' rel) with
      | Res.err e => Res.err e
      | Res.ok t2 => if ab = true then Res.ok (Path.abspath t2) else Res.ok t2) =
    (do let path ← Path.normpath (Path.joinSlash rel)
        pure (if ab = true then Path.abspath path else path)) := by
  cases Path.normpath (Path.joinSlash rel) with
  | err e => rfl
  | ok n => cases ab <;> rfl

theorem pyIdx_neg_one_snoc {α} (i : List α) (x : α) : pyIdx (i ++ [x]) (-1 : Int) = .ok x := by
  simp [pyIdx]

theorem pyPop_snoc {α} (i : List α) (x : α) : pyPop (i ++ [x]) = .ok (i, x) := by
  simp [pyPop]

/-- one round of `while bits1 and bits1[-1] == "": bits1.pop()` -/
def stripStep (s : List Str) : Flow (List Str) Empty :=
  match s.getLast? with
  | none => .brk s
  | some x => if x == [] then .next s.dropLast else .brk s

theorem pyWhile_stripStep (f : List Str → Flow (List Str) Empty) (hf : ∀ s, f s = stripStep s)
    (fuel : Nat) (s : List Str) (h : s.length < fuel) :
    pyWhile fuel s f = .done (Path.dropTrailingEmpty s) := by
  induction fuel generalizing s with
  | zero => omega
  | succ n ih =>
    rw [pyWhile, hf, stripStep]
    rcases list_nil_or_snoc s with rfl | ⟨i, x, rfl⟩
    · simp [Path.dropTrailingEmpty]
    · by_cases hx : x = []
      · subst hx
        have hl : i.length < n := by simp at h; omega
        simp [ih i hl, Path.dropTrailingEmpty]
      · simp [hx, Path.dropTrailingEmpty]

theorem pyFor_zipStep (f : Str × Str → Unit → Flow Unit Bool)
    (hf : ∀ x s, f x s = if x.1 != x.2 then .ret false else .next ()) (a b : List Str) :
    pyFor (List.zip a b) () f = if Path.zipAllEq a b then .done () else .ret false := by
  induction a generalizing b with
  | nil => simp [pyFor, Path.zipAllEq]
  | cons x xs ih =>
    cases b with
    | nil => simp [pyFor, Path.zipAllEq]
    | cons y ys =>
      rw [List.zip_cons_cons, pyFor, hf, Path.zipAllEq]
      by_cases hxy : x = y
      · subst hxy; simp [ih]
      · simp [hxy]

theorem pyFor_commonStep (f : Str × Str → Nat → Flow Nat Empty)
    (hf : ∀ x s, f x s = if x.1 != x.2 then .brk s else .next (s + 1)) (a b : List Str) (n : Nat) :
    pyFor (List.zip a b) n f = .done (n + Path.commonLen a b) := by
  induction a generalizing b n with
  | nil => simp [pyFor, Path.commonLen]
  | cons x xs ih =>
    cases b with
    | nil => simp [pyFor, Path.commonLen]
    | cons y ys =>
      rw [List.zip_cons_cons, pyFor, hf, Path.commonLen]
      by_cases hxy : x = y
      · subst hxy; simp [ih]; omega
      · simp [hxy]

theorem pyRepeat_single {α} (x : α) (a b : Nat) :
    pyRepeat [x] (Int.ofNat a - Int.ofNat b) = List.replicate (a - b) x := by
  simp [pyRepeat]

theorem findGo_eq (xs : Str) (k : Nat) : findGo '/' xs k = Path.findSlashFrom.go xs k := by
  induction xs generalizing k with
  | nil => simp [findGo, Path.findSlashFrom.go]
  | cons x xs ih => simp [findGo, Path.findSlashFrom.go, ih]

theorem findGo_of_mem (c : Char) (xs : Str) (k : Nat) (h : c ∈ xs) :
    ∃ j, findGo c xs k = some j ∧ k ≤ j ∧ j < k + xs.length := by
  induction xs generalizing k with
  | nil => cases h
  | cons x xs ih =>
    by_cases hx : x = c
    · exact ⟨k, by simp [findGo, hx], Nat.le_refl _, by simp⟩
    · have hm : c ∈ xs := by
        cases h with
        | head => exact absurd rfl hx
        | tail _ h' => exact h'
      obtain ⟨j, hj, h1, h2⟩ := ih (k + 1) hm
      exact ⟨j, by simp [findGo, hx, hj], by omega, by simp; omega⟩

theorem clampIdx_ofNat (len n : Nat) (h : n ≤ len) : clampIdx len (Int.ofNat n) = n := by
  have h0 : ¬ (Int.ofNat n < 0) := by simp
  simp only [clampIdx, h0, if_false]
  exact Nat.min_eq_left h

/-- `find` in a string that ends with the character always succeeds below the length -/
theorem pyFind_ends (q : Str) (pos : Nat) (h : pos < (q ++ ['/']).length) :
    ∃ i, Path.findSlashFrom (q ++ ['/']) pos = some i ∧ pyFind (q ++ ['/']) '/' (Int.ofNat pos) = Int.ofNat i ∧
      pos ≤ i ∧ i < (q ++ ['/']).length := by
  have hle : pos ≤ q.length := by simp at h; omega
  have hmem : '/' ∈ (q ++ ['/']).drop pos := by
    rw [List.drop_append_of_le_length hle]; simp
  obtain ⟨j, hj, h1, h2⟩ := findGo_of_mem '/' _ pos hmem
  refine ⟨j, ?_, ?_, h1, ?_⟩
  · rw [Path.findSlashFrom, ← findGo_eq, hj]
  · rw [pyFind, clampIdx_ofNat _ _ (by simp; omega)]
    simp only [hj]
  · simp at h2 ⊢; omega

/-- the `while pos < len_path` loop of `recursepath` -/
def recStep (path : Str) (s : Int × List Str) : Flow (Int × List Str) Empty :=
  if s.1 < Int.ofNat path.length then
    .next (pyFind path '/' s.1 + 1, s.2 ++ [pySliceTo path (pyFind path '/' s.1)])
  else .brk s

theorem pySliceTo_ofNat {α} (s : List α) (i : Nat) (h : i ≤ s.length) :
    pySliceTo s (Int.ofNat i) = s.take i := by
  rw [pySliceTo, clampIdx_ofNat _ _ h]

theorem pyWhile_recStep (q : Str) (f : Int × List Str → Flow (Int × List Str) Empty)
    (hf : ∀ s, f s = recStep (q ++ ['/']) s) (fuel pos : Nat) (acc : List Str)
    (h1 : 1 ≤ fuel) (h2 : (q ++ ['/']).length + 1 ≤ pos + fuel) :
    ∃ pos', pyWhile fuel (Int.ofNat pos, acc) f =
      .done (pos', Path.recurseLoop (q ++ ['/']) fuel pos acc.reverse) := by
  induction fuel generalizing pos acc with
  | zero => omega
  | succ n ih =>
    rw [pyWhile, hf, recStep, Path.recurseLoop]
    by_cases hp : pos < (q ++ ['/']).length
    · obtain ⟨i, hi, hfind, hle, hlt⟩ := pyFind_ends q pos hp
      have hp' : Int.ofNat pos < Int.ofNat (q ++ ['/']).length := by
        simp only [Int.ofNat_eq_natCast]; omega
      simp only [hp, hp', if_true, hi, hfind]
      rw [pySliceTo_ofNat _ _ (by omega)]
      have hn : 1 ≤ n := by omega
      obtain ⟨pos', hpos'⟩ := ih (i + 1) (acc ++ [List.take i (q ++ ['/'])]) hn (by omega)
      refine ⟨pos', ?_⟩
      have e : Int.ofNat i + 1 = Int.ofNat (i + 1) := by simp
      rw [e, hpos']
      simp
    · have hp' : ¬ Int.ofNat pos < Int.ofNat (q ++ ['/']).length := by
        simp only [Int.ofNat_eq_natCast]; omega
      simp only [hp, hp', if_false]
      exact ⟨Int.ofNat pos, by simp⟩

theorem pyWhile_recStep' (q : Str) (f : Int × List Str → Flow (Int × List Str) Empty)
    (hf : ∀ s, f s = recStep (q ++ ['/']) s) (fuel pos : Nat) (acc : List Str)
    (h1 : 1 ≤ fuel) (h2 : (q ++ ['/']).length + 1 ≤ pos + fuel)
    (w : LoopOut (Int × List Str) Empty) (hW : pyWhile fuel (Int.ofNat pos, acc) f = w) :
    ∃ pos', w = .done (pos', Path.recurseLoop (q ++ ['/']) fuel pos acc.reverse) := by
  obtain ⟨pos', h⟩ := pyWhile_recStep q f hf fuel pos acc h1 h2
  exact ⟨pos', by rw [← hW, h]⟩

end Fs.PathGenLemmas
