/-
  C09 helper: the destination store.  As long as no failure has fired, the content of every
  task's destination path is determined by how far that task has got, and every other path is
  untouched.  (Needs pairwise distinct destination paths and a positive chunk size.)
-/
import FsProofs.Lemmas.BulkCons

namespace Fs.BulkLemmas
open Fs Fs.Bulk
set_option linter.unusedSimpArgs false

/-! ### stores -/

theorem get_set_self (d : Store) (p : Str) (v : Bytes) : (d.set p v).get p = some v := by
  simp [Store.set, Store.get]

theorem get_set_ne (d : Store) (p q : Str) (v : Bytes) (h : q ≠ p) : (d.set p v).get q = d.get q := by
  simp [Store.set, Store.get, Ne.symm h]

theorem get_append_ne (d : Store) (p q : Str) (v : Bytes) (h : q ≠ p) :
    (d.append p v).get q = d.get q := by
  unfold Store.append; split <;> exact get_set_ne _ _ _ _ h

theorem get_append_self (d : Store) (p : Str) (old v : Bytes) (h : d.get p = some old) :
    (d.append p v).get p = some (old ++ v) := by
  unfold Store.append; rw [h]; exact get_set_self _ _ _

theorem get_openEffect_ne (c : Cfg) (d : Store) (i : Nat) (sd : Side) (q : Str) (h : q ≠ c.dstp i) :
    (openEffect c d i sd).get q = d.get q := by
  cases sd
  · rfl
  · exact get_set_ne _ _ _ _ h

/-! ### what each owner of a task claims about the task's destination -/

def phaseWant (c : Cfg) (i : Nat) : Phase → Option Bytes
  | .reading k => some ((c.data i).take (k * c.chunk))
  | .writing k => some ((c.data i).take (k * c.chunk))
  | .closeA _ => some (c.data i)
  | .closeB _ => some (c.data i)

def nextWant (c : Cfg) (i : Nat) : BNext → Option Bytes
  | .cont ph => phaseWant c i ph
  | .fin _ => some (c.data i)

def wClaims (c : Cfg) : W → List (Nat × Option Bytes)
  | .run i ph => [(i, phaseWant c i ph)]
  | .ending i _ => [(i, some (c.data i))]
  | _ => []

def qClaims : Option Nat → List (Nat × Option Bytes)
  | some i => [(i, some [])]
  | none => []

def pendClaims (c : Cfg) (l : List Nat) : List (Nat × Option Bytes) :=
  l.map fun j => (j, c.d0.get (c.dstp j))

def prodClaims (c : Cfg) : Prod → List (Nat × Option Bytes)
  | .loop i rest => pendClaims c (i :: rest)
  | .srcOpen i rest => pendClaims c (i :: rest)
  | .failClose i rest => pendClaims c (i :: rest)
  | .bothOpen i rest => (i, some []) :: pendClaims c rest
  | .inl i .second rest => (i, (openEffect c c.d0 i (firstSide c)).get (c.dstp i)) :: pendClaims c rest
  | .inl _ .failClose rest => pendClaims c rest
  | .inl i (.body ph) rest => (i, phaseWant c i ph) :: pendClaims c rest
  | .inl i .ptime rest => (i, some (c.data i)) :: pendClaims c rest
  | _ => []

def doneClaims (c : Cfg) (l : List Nat) : List (Nat × Option Bytes) :=
  l.map fun j => (j, some (c.data j))

def claims (c : Cfg) (s : St) : List (Nat × Option Bytes) :=
  prodClaims c s.prod ++ s.queue.flatMap qClaims ++ s.workers.flatMap (wClaims c) ++ doneClaims c s.done

/-- distinct destination paths, positive chunk size -/
structure WfCfg (c : Cfg) : Prop where
  nodup : (c.tasks.map (·.dst)).Nodup
  chunk : 0 < c.chunk

def Dest (c : Cfg) (s : St) : Prop :=
  s.nfail = 0 →
    (∀ x ∈ claims c s, s.dest.get (c.dstp x.1) = x.2) ∧
    (∀ p, (∀ i, i < c.tasks.length → c.dstp i ≠ p) → s.dest.get p = c.d0.get p)

theorem dstp_inj {c : Cfg} (h : WfCfg c) {i j : Nat} (hi : i < c.tasks.length) (hj : j < c.tasks.length)
    (hij : i ≠ j) : c.dstp i ≠ c.dstp j := by
  have hn := h.nodup
  rw [List.nodup_iff_pairwise_ne, List.pairwise_iff_getElem] at hn
  have hi' : i < (c.tasks.map (·.dst)).length := by simpa using hi
  have hj' : j < (c.tasks.map (·.dst)).length := by simpa using hj
  simp only [Cfg.dstp, List.getElem?_eq_getElem hi, List.getElem?_eq_getElem hj]
  rcases Nat.lt_or_gt_of_ne hij with hlt | hgt
  · have := hn i j hi' hj' hlt; simpa using this
  · have := hn j i hj' hi' hgt; simpa using Ne.symm this


/-! ### claims vs. the conservation view -/

theorem map_fst_pendClaims (c : Cfg) (l : List Nat) : (pendClaims c l).map Prod.fst = l := by
  simp [pendClaims, List.map_map, Function.comp_def]

theorem map_fst_doneClaims (c : Cfg) (l : List Nat) : (doneClaims c l).map Prod.fst = l := by
  simp [doneClaims, List.map_map, Function.comp_def]

theorem map_fst_qClaims : ∀ q : List (Option Nat), (q.flatMap qClaims).map Prod.fst = q.filterMap id
  | [] => rfl
  | none :: q => by simpa [List.flatMap_cons, qClaims] using map_fst_qClaims q
  | some i :: q => by simpa [List.flatMap_cons, qClaims] using map_fst_qClaims q

theorem map_fst_wClaims (c : Cfg) : ∀ ws : List W, (ws.flatMap (wClaims c)).map Prod.fst = ws.flatMap W.tasks
  | [] => rfl
  | w :: ws => by
    have := map_fst_wClaims c ws
    cases w <;> simp [List.flatMap_cons, wClaims, W.tasks, W.task?, this]

theorem count_fst_prodClaims (c : Cfg) (p : Prod) (x : Nat) :
    List.count x ((prodClaims c p).map Prod.fst) ≤ List.count x (p.pending ++ p.inflight) := by
  cases p <;> try (simp [prodClaims, Prod.pending, Prod.inflight, map_fst_pendClaims, List.count_cons,
    List.count_append]; done)
  rename_i i st rest
  cases st <;> simp [prodClaims, Prod.pending, Prod.inflight, map_fst_pendClaims, List.count_cons,
    List.count_append] <;> omega

theorem count_fst_claims_le (c : Cfg) (s : St) (x : Nat) :
    List.count x ((claims c s).map Prod.fst) ≤ List.count x s.allTasksView := by
  have := count_fst_prodClaims c s.prod x
  simp [claims, St.allTasksView, St.pending, St.queued, St.inflight, map_fst_qClaims, map_fst_wClaims,
    map_fst_doneClaims, List.count_append] at this ⊢
  omega

theorem uniq_of_count_le_one {β : Type} : ∀ (l : List (Nat × β)) (i : Nat) (v w : β),
    List.count i (l.map Prod.fst) ≤ 1 → (i, v) ∈ l → (i, w) ∈ l → v = w
  | [], _, _, _, _, h, _ => by simp at h
  | (j, u) :: l, i, v, w, hc, hv, hw => by
    simp [List.count_cons] at hc
    simp at hv hw
    by_cases hji : j = i
    · subst hji
      simp at hc
      have hz : ∀ u', (j, u') ∈ l → False := by
        intro u' hm
        have : j ∈ l.map Prod.fst := List.mem_map.mpr ⟨(j, u'), hm, rfl⟩
        have := List.count_pos_iff.mpr this
        omega
      rcases hv with hv | hv
      · rcases hw with hw | hw
        · rw [hv.2, hw.2]
        · exact (hz _ hw).elim
      · exact (hz _ hv).elim
    · have hij : ¬ i = j := fun h => hji h.symm
      simp [hji] at hc
      simp [hij] at hv hw
      exact uniq_of_count_le_one l i v w hc hv hw

theorem lt_of_mem_claims {c : Cfg} {s : St} (hC : Cons c s) {x : Nat × Option Bytes}
    (hx : x ∈ claims c s) : x.1 < c.tasks.length := by
  have h1 : x.1 ∈ (claims c s).map Prod.fst := List.mem_map.mpr ⟨x, hx, rfl⟩
  have h2 := List.count_pos_iff.mpr h1
  have h3 := count_fst_claims_le c s x.1
  have h4 := hC x.1
  rw [List.count_range] at h4
  split at h4
  · assumption
  · omega

/-! ### the two preservation principles -/

/-- claims only shrink / move, destination untouched -/
theorem dest_step_same {c : Cfg} {s s' : St} (hD : Dest c s) (hmono : s'.nfail = 0 → s.nfail = 0)
    (hcl : ∀ x ∈ claims c s', x ∈ claims c s) (hd : s'.dest = s.dest) : Dest c s' := by
  intro h0
  obtain ⟨h1, h2⟩ := hD (hmono h0)
  rw [hd]
  exact ⟨fun x hx => h1 x (hcl x hx), h2⟩

/-- one task `i` advances: its claim becomes `(i, v)`, only `dstp i` may change -/
theorem dest_step_task {c : Cfg} {s s' : St} (hwf : WfCfg c) (hD : Dest c s) (hC' : Cons c s')
    (hmono : s'.nfail = 0 → s.nfail = 0) (i : Nat) (v : Option Bytes)
    (ha : ∀ x ∈ claims c s', x ∈ claims c s ∨ x = (i, v))
    (he : (i, v) ∈ claims c s')
    (hb : ∀ p, p ≠ c.dstp i → s'.dest.get p = s.dest.get p)
    (hc : s'.nfail = 0 → s'.dest.get (c.dstp i) = v) : Dest c s' := by
  intro h0
  have h0s := hmono h0
  obtain ⟨h1, h2⟩ := hD h0s
  have hi : i < c.tasks.length := lt_of_mem_claims hC' he
  constructor
  · intro x hx
    obtain ⟨j, w⟩ := x
    by_cases hji : j = i
    · subst hji
      have hcnt : List.count j ((claims c s').map Prod.fst) ≤ 1 := by
        have := count_fst_claims_le c s' j
        have h4 := hC' j
        rw [List.count_range] at h4
        split at h4 <;> omega
      have := uniq_of_count_le_one _ j w v hcnt hx he
      subst this
      exact hc h0
    · rcases ha _ hx with hold | hnew
      · have hj : j < c.tasks.length := lt_of_mem_claims hC' hx
        have hne : c.dstp j ≠ c.dstp i := dstp_inj hwf hj hi hji
        show s'.dest.get (c.dstp j) = w
        rw [hb _ hne]
        exact h1 _ hold
      · simp at hnew; exact absurd hnew.1 hji
  · intro p hp
    rw [hb p (fun h => hp i hi h.symm)]
    exact h2 p hp


/-! ### chunks -/

theorem take_full_of_chunk_empty (data : Bytes) (k ch : Nat) (hch : 0 < ch)
    (h : ((data.drop (k * ch)).take ch).isEmpty = true) : data.take (k * ch) = data := by
  have hd : data.drop (k * ch) = [] := by
    cases hdd : data.drop (k * ch) with
    | nil => rfl
    | cons a t =>
      rw [hdd] at h
      cases ch with
      | zero => omega
      | succ n => simp at h
  have hlen : data.length ≤ k * ch := by simpa using hd
  exact List.take_of_length_le hlen

theorem take_succ_chunk (data : Bytes) (k ch : Nat) :
    data.take (k * ch) ++ (data.drop (k * ch)).take ch = data.take ((k + 1) * ch) := by
  rw [Nat.succ_mul, List.take_add]

theorem BTrans.nfail_le {c : Cfg} {s s1 : St} {i : Nat} {a : Side} {ph : Phase} {nx : BNext} {e : Ev}
    (hb : BTrans c s i a ph nx e s1) : s.nfail ≤ s1.nfail := by
  cases hb <;> simp

/-- effect of a body step on the destination -/
theorem BTrans.dest {c : Cfg} {s s1 : St} {i : Nat} {a : Side} {ph : Phase} {nx : BNext} {e : Ev}
    (hb : BTrans c s i a ph nx e s1) (hch : 0 < c.chunk) :
    (∀ p, p ≠ c.dstp i → s1.dest.get p = s.dest.get p) ∧
    (s1.nfail = 0 → s.dest.get (c.dstp i) = phaseWant c i ph → s1.dest.get (c.dstp i) = nextWant c i nx) := by
  cases hb with
  | readFail k hf => exact ⟨fun _ _ => rfl, fun h => by simp at h⟩
  | readEof k hf he =>
    refine ⟨fun _ _ => rfl, fun _ hw => ?_⟩
    simp only [nextWant, phaseWant] at hw ⊢
    rw [hw, take_full_of_chunk_empty (c.data i) k c.chunk hch he]
  | readData k hf he => exact ⟨fun _ _ => rfl, fun _ hw => hw⟩
  | writeFail k hf => exact ⟨fun _ _ => rfl, fun h => by simp at h⟩
  | writeOk k hf =>
    refine ⟨fun p hp => get_append_ne _ _ _ _ hp, fun _ hw => ?_⟩
    simp only [nextWant, phaseWant] at hw ⊢
    show (s.dest.append (c.dstp i) (c.chunkOf i k)).get (c.dstp i) = _
    rw [get_append_self _ _ _ _ hw, Cfg.chunkOf, take_succ_chunk]
  | closeAFail exc hf => exact ⟨fun _ _ => rfl, fun h => by simp at h⟩
  | closeAOk exc hf => exact ⟨fun _ _ => rfl, fun _ hw => hw⟩
  | closeBFail exc hf => exact ⟨fun _ _ => rfl, fun h => by simp at h⟩
  | closeBOk exc hf => exact ⟨fun _ _ => rfl, fun _ hw => hw⟩

/-! ### membership under `set` -/

theorem mem_flatMap_set {α β : Type} (g : α → List β) (x : β) (l : List α) (w : Nat) (b : α)
    (h : x ∈ (l.set w b).flatMap g) : x ∈ g b ∨ x ∈ l.flatMap g := by
  rw [List.mem_flatMap] at h
  obtain ⟨a, ha, hx⟩ := h
  rcases List.mem_or_eq_of_mem_set ha with ha | ha
  · exact Or.inr (List.mem_flatMap.mpr ⟨a, ha, hx⟩)
  · subst ha; exact Or.inl hx

theorem mem_flatMap_set_self {α β : Type} (g : α → List β) (x : β) (l : List α) (w : Nat) (a b : α)
    (hw : l[w]? = some a) (hx : x ∈ g b) : x ∈ (l.set w b).flatMap g := by
  have hlt : w < l.length := by
    rcases Nat.lt_or_ge w l.length with h | h
    · exact h
    · rw [List.getElem?_eq_none h] at hw; simp at hw
  exact List.mem_flatMap.mpr ⟨b, List.mem_set hlt b, hx⟩

theorem mem_flatMap_of_getElem {α β : Type} (g : α → List β) (x : β) (l : List α) (w : Nat) (a : α)
    (hw : l[w]? = some a) (hx : x ∈ g a) : x ∈ l.flatMap g :=
  List.mem_flatMap.mpr ⟨a, List.mem_of_getElem? hw, hx⟩

theorem prodClaims_afterBody (c : Cfg) (b : Bool) : prodClaims c (afterBody c b) = [] := by
  unfold afterBody; split <;> rfl
theorem prodClaims_nextLoop (c : Cfg) (r : List Nat) : prodClaims c (nextLoop c r) = pendClaims c r := by
  cases r with
  | nil => exact prodClaims_afterBody c false
  | cons i r => rfl
theorem prodClaims_ptimesNext (c : Cfg) (l : List Nat) (b : Bool) : prodClaims c (ptimesNext l b) = [] := by
  cases l <;> rfl
theorem prodClaims_afterJoin (c : Cfg) (l : List Nat) (b : Bool) : prodClaims c (afterJoin c l b) = [] := by
  unfold afterJoin; split
  · exact prodClaims_ptimesNext c l b
  · rfl

theorem dest_init (c : Cfg) : Dest c (init c) := by
  intro _
  constructor
  · intro x hx
    simp [claims, init, prodClaims_nextLoop, pendClaims, doneClaims,
      flatMap_replicate_nil (wClaims c) W.idle rfl] at hx
    obtain ⟨j, _, rfl⟩ := hx
    rfl
  · intro p _; rfl


theorem dest_worker {c : Cfg} {s s' : St} {w : Nat} {e : Ev} (hwf : WfCfg c) (hD : Dest c s)
    (hC' : Cons c s') (hs : WTrans c s w s' e) : Dest c s' := by
  cases hs with
  | getTask i q hw hq =>
    refine dest_step_same hD (fun h => h) ?_ rfl
    intro x hx
    simp only [claims, List.mem_append] at hx ⊢
    rcases hx with ((hx | hx) | hx) | hx
    · exact Or.inl (Or.inl (Or.inl hx))
    · exact Or.inl (Or.inl (Or.inr (by rw [hq]; simp [List.flatMap_cons]; exact Or.inr (by simpa using hx))))
    · rcases mem_flatMap_set _ _ _ _ _ hx with hx | hx
      · simp [wClaims, phaseWant] at hx
        exact Or.inl (Or.inl (Or.inr (by rw [hq]; simp [List.flatMap_cons, qClaims, hx])))
      · exact Or.inl (Or.inr hx)
    · exact Or.inr hx
  | getSentinel q hw hq =>
    refine dest_step_same hD (fun h => h) ?_ rfl
    intro x hx
    simp only [claims, List.mem_append] at hx ⊢
    rcases hx with ((hx | hx) | hx) | hx
    · exact Or.inl (Or.inl (Or.inl hx))
    · exact Or.inl (Or.inl (Or.inr (by rw [hq]; simp [List.flatMap_cons]; exact Or.inr (by simpa using hx))))
    · rcases mem_flatMap_set _ _ _ _ _ hx with hx | hx
      · simp [wClaims] at hx
      · exact Or.inl (Or.inr hx)
    · exact Or.inr hx
  | bodyCont i ph ph' e s1 hw hb =>
    obtain ⟨h1, h2, h3, _, _, _, h7, _⟩ := hb.frame
    obtain ⟨hd1, hd2⟩ := hb.dest hwf.chunk
    have hmono : s1.nfail = 0 → s.nfail = 0 := fun h => by have := hb.nfail_le; omega
    refine dest_step_task hwf hD hC' hmono i (phaseWant c i ph') ?_ ?_ hd1 ?_
    · intro x hx
      simp only [claims, List.mem_append, h1, h2, h3, h7] at hx ⊢
      rcases hx with ((hx | hx) | hx) | hx
      · exact Or.inl (Or.inl (Or.inl (Or.inl hx)))
      · exact Or.inl (Or.inl (Or.inl (Or.inr hx)))
      · rcases mem_flatMap_set _ _ _ _ _ hx with hx | hx
        · simp [wClaims] at hx; exact Or.inr hx
        · exact Or.inl (Or.inl (Or.inr hx))
      · exact Or.inl (Or.inr hx)
    · simp only [claims, List.mem_append, h3]
      exact Or.inl (Or.inr (mem_flatMap_set_self _ _ _ _ _ _ hw (by simp [wClaims])))
    · intro h10
      have h10 : s1.nfail = 0 := h10
      refine hd2 h10 ?_
      exact (hD (hmono h10)).1 (i, phaseWant c i ph) (by
        simp only [claims, List.mem_append]
        exact Or.inl (Or.inr (mem_flatMap_of_getElem _ _ _ _ _ hw (by simp [wClaims]))))
  | bodyFin i ph exc e s1 hw hb =>
    obtain ⟨h1, h2, h3, _, _, _, h7, _⟩ := hb.frame
    obtain ⟨hd1, hd2⟩ := hb.dest hwf.chunk
    have hmono : s1.nfail = 0 → s.nfail = 0 := fun h => by have := hb.nfail_le; omega
    refine dest_step_task hwf hD hC' hmono i (some (c.data i)) ?_ ?_ hd1 ?_
    · intro x hx
      simp only [claims, List.mem_append, h1, h2, h3, h7] at hx ⊢
      rcases hx with ((hx | hx) | hx) | hx
      · exact Or.inl (Or.inl (Or.inl (Or.inl hx)))
      · exact Or.inl (Or.inl (Or.inl (Or.inr hx)))
      · rcases mem_flatMap_set _ _ _ _ _ hx with hx | hx
        · simp [wClaims] at hx; exact Or.inr hx
        · exact Or.inl (Or.inl (Or.inr hx))
      · exact Or.inl (Or.inr hx)
    · simp only [claims, List.mem_append, h3]
      exact Or.inl (Or.inr (mem_flatMap_set_self _ _ _ _ _ _ hw (by simp [wClaims])))
    · intro h10
      have h10 : s1.nfail = 0 := h10
      refine hd2 h10 ?_
      exact (hD (hmono h10)).1 (i, phaseWant c i ph) (by
        simp only [claims, List.mem_append]
        exact Or.inl (Or.inr (mem_flatMap_of_getElem _ _ _ _ _ hw (by simp [wClaims]))))
  | endTask i exc hw =>
    refine dest_step_same hD (fun h => h) ?_ rfl
    intro x hx
    simp only [claims, List.mem_append] at hx ⊢
    rcases hx with ((hx | hx) | hx) | hx
    · exact Or.inl (Or.inl (Or.inl hx))
    · exact Or.inl (Or.inl (Or.inr hx))
    · rcases mem_flatMap_set _ _ _ _ _ hx with hx | hx
      · simp [wClaims] at hx
      · exact Or.inl (Or.inr hx)
    · simp [doneClaims] at hx
      rcases hx with hx | hx
      · exact Or.inr (by simpa [doneClaims] using hx)
      · exact Or.inl (Or.inr (mem_flatMap_of_getElem _ _ _ _ _ hw (by simp [wClaims, hx])))
  | exitW hw =>
    refine dest_step_same hD (fun h => h) ?_ rfl
    intro x hx
    simp only [claims, List.mem_append] at hx ⊢
    rcases hx with ((hx | hx) | hx) | hx
    · exact Or.inl (Or.inl (Or.inl hx))
    · exact Or.inl (Or.inl (Or.inr hx))
    · rcases mem_flatMap_set _ _ _ _ _ hx with hx | hx
      · simp [wClaims] at hx
      · exact Or.inl (Or.inr hx)
    · exact Or.inr hx


theorem openEffect_get_src (c : Cfg) (d : Store) (i : Nat) :
    (openEffect c d i .src).get (c.dstp i) = d.get (c.dstp i) := rfl
theorem openEffect_get_dst (c : Cfg) (d : Store) (i : Nat) :
    (openEffect c d i .dst).get (c.dstp i) = some [] := get_set_self _ _ _

theorem dest_prod {c : Cfg} {s s' : St} {e : Ev} (hwf : WfCfg c) (hD : Dest c s)
    (hC' : Cons c s') (hs : PTrans c s s' e) : Dest c s' := by
  cases hs
  -- a failure fires: nothing to show
  case inlOpen1Fail => intro h0; simp [raiseP] at h0
  case openSrcFail => intro h0; simp [raiseP] at h0
  case openDstFail => intro h0; simp at h0
  case failCloseFail => intro h0; simp [raiseP] at h0
  case inlOpen2Fail => intro h0; simp at h0
  case inlFailCloseFail => intro h0; simp [raiseP] at h0
  case inlPtimeFail => intro h0; simp [raiseP] at h0
  case ptimesFail => intro h0; simp at h0
  -- a task advances
  case inlOpen1Ok =>
    have hp := ‹s.prod = _›
    rename_i i rest _ _ _
    refine dest_step_task hwf hD hC' (fun h => h) i
      ((openEffect c c.d0 i (firstSide c)).get (c.dstp i)) ?_ ?_ ?_ ?_
    · intro x hx
      simp only [claims, hp] at hx ⊢
      simp [prodClaims, pendClaims] at hx ⊢
      grind
    · simp [claims, prodClaims]
    · intro p hne; exact get_openEffect_ne c s.dest i (firstSide c) p hne
    · intro h0
      have h0 : s.nfail = 0 := h0
      have hcl := (hD h0).1 (i, c.d0.get (c.dstp i)) (by simp [claims, hp, prodClaims, pendClaims])
      show (openEffect c s.dest i (firstSide c)).get (c.dstp i) = _
      cases firstSide c
      · rw [openEffect_get_src, openEffect_get_src]; exact hcl
      · rw [openEffect_get_dst, openEffect_get_dst]
  case openDstOk =>
    have hp := ‹s.prod = _›
    rename_i i rest _ _
    refine dest_step_task hwf hD hC' (fun h => h) i (some []) ?_ ?_ ?_ ?_
    · intro x hx
      simp only [claims, hp] at hx ⊢
      simp [prodClaims, pendClaims] at hx ⊢
      grind
    · simp [claims, prodClaims]
    · intro p hne; exact get_openEffect_ne c s.dest i .dst p hne
    · intro _; exact openEffect_get_dst c _ _
  case inlOpen2Ok =>
    have hp := ‹s.prod = _›
    rename_i i rest _ _
    refine dest_step_task hwf hD hC' (fun h => h) i (some []) ?_ ?_ ?_ ?_
    · intro x hx
      simp only [claims, hp] at hx ⊢
      simp [prodClaims, pendClaims, phaseWant] at hx ⊢
      grind
    · simp [claims, prodClaims, phaseWant]
    · intro p hne; exact get_openEffect_ne c s.dest i (firstSide c).other p hne
    · intro h0
      have h0 : s.nfail = 0 := h0
      have hcl := (hD h0).1 (i, (openEffect c c.d0 i (firstSide c)).get (c.dstp i))
        (by simp [claims, hp, prodClaims])
      show (openEffect c s.dest i (firstSide c).other).get (c.dstp i) = _
      cases hfs : firstSide c
      · simp only [Side.other]; exact openEffect_get_dst c _ _
      · simp only [Side.other]; rw [openEffect_get_src]
        rw [hfs, openEffect_get_dst] at hcl; exact hcl
  case inlBodyCont i rest ph ph' s1 _ _ =>
    have hb := ‹BTrans c s _ _ _ _ _ _›; have hp := ‹s.prod = _›
    obtain ⟨h1, h2, h3, _, _, _, h7, _⟩ := hb.frame
    obtain ⟨hd1, hd2⟩ := hb.dest hwf.chunk
    have hmono : s1.nfail = 0 → s.nfail = 0 := fun h => by have := hb.nfail_le; omega
    refine dest_step_task hwf hD hC' hmono i (phaseWant c i ph') ?_ ?_ hd1 ?_
    · intro x hx
      simp only [claims, raiseP, hp, h2, h3, h7, prodClaims_afterBody, prodClaims_nextLoop] at hx ⊢
      simp [prodClaims, pendClaims, doneClaims] at hx ⊢
      grind
    · simp only [claims, raiseP, prodClaims_afterBody, prodClaims_nextLoop]
      simp [prodClaims, doneClaims]
    · intro h10
      have h10 : s1.nfail = 0 := h10
      refine hd2 h10 ?_
      exact (hD (hmono h10)).1 (i, phaseWant c i ph) (by simp [claims, hp, prodClaims])
  case inlBodyRaise i rest ph s1 _ _ =>
    have hb := ‹BTrans c s _ _ _ _ _ _›; have hp := ‹s.prod = _›
    obtain ⟨h1, h2, h3, _, _, _, h7, _⟩ := hb.frame
    obtain ⟨hd1, hd2⟩ := hb.dest hwf.chunk
    have hmono : s1.nfail = 0 → s.nfail = 0 := fun h => by have := hb.nfail_le; omega
    refine dest_step_task hwf hD hC' hmono i (some (c.data i)) ?_ ?_ hd1 ?_
    · intro x hx
      simp only [claims, raiseP, hp, h2, h3, h7, prodClaims_afterBody, prodClaims_nextLoop] at hx ⊢
      simp [prodClaims, pendClaims, doneClaims] at hx ⊢
      grind
    · simp only [claims, raiseP, prodClaims_afterBody, prodClaims_nextLoop]
      simp [prodClaims, doneClaims]
    · intro h10
      have h10 : s1.nfail = 0 := h10
      refine hd2 h10 ?_
      exact (hD (hmono h10)).1 (i, phaseWant c i ph) (by simp [claims, hp, prodClaims])
  case inlBodyToPtime i rest ph s1 _ _ _ =>
    have hb := ‹BTrans c s _ _ _ _ _ _›; have hp := ‹s.prod = _›
    obtain ⟨h1, h2, h3, _, _, _, h7, _⟩ := hb.frame
    obtain ⟨hd1, hd2⟩ := hb.dest hwf.chunk
    have hmono : s1.nfail = 0 → s.nfail = 0 := fun h => by have := hb.nfail_le; omega
    refine dest_step_task hwf hD hC' hmono i (some (c.data i)) ?_ ?_ hd1 ?_
    · intro x hx
      simp only [claims, raiseP, hp, h2, h3, h7, prodClaims_afterBody, prodClaims_nextLoop] at hx ⊢
      simp [prodClaims, pendClaims, doneClaims] at hx ⊢
      grind
    · simp only [claims, raiseP, prodClaims_afterBody, prodClaims_nextLoop]
      simp [prodClaims, doneClaims]
    · intro h10
      have h10 : s1.nfail = 0 := h10
      refine hd2 h10 ?_
      exact (hD (hmono h10)).1 (i, phaseWant c i ph) (by simp [claims, hp, prodClaims])
  case inlBodyNext i rest ph s1 _ _ _ =>
    have hb := ‹BTrans c s _ _ _ _ _ _›; have hp := ‹s.prod = _›
    obtain ⟨h1, h2, h3, _, _, _, h7, _⟩ := hb.frame
    obtain ⟨hd1, hd2⟩ := hb.dest hwf.chunk
    have hmono : s1.nfail = 0 → s.nfail = 0 := fun h => by have := hb.nfail_le; omega
    refine dest_step_task hwf hD hC' hmono i (some (c.data i)) ?_ ?_ hd1 ?_
    · intro x hx
      simp only [claims, raiseP, hp, h2, h3, h7, prodClaims_afterBody, prodClaims_nextLoop] at hx ⊢
      simp [prodClaims, pendClaims, doneClaims] at hx ⊢
      grind
    · simp only [claims, raiseP, prodClaims_afterBody, prodClaims_nextLoop]
      simp [prodClaims, doneClaims]
    · intro h10
      have h10 : s1.nfail = 0 := h10
      refine hd2 h10 ?_
      exact (hD (hmono h10)).1 (i, phaseWant c i ph) (by simp [claims, hp, prodClaims])
  -- bookkeeping only
  all_goals
    have hp := ‹s.prod = _›
    refine dest_step_same hD (fun h => h) ?_ rfl
    intro x hx
    simp only [claims, raiseP, hp, prodClaims_afterBody, prodClaims_nextLoop, prodClaims_ptimesNext,
      prodClaims_afterJoin, apply_ite (prodClaims c)] at hx ⊢
    simp [prodClaims, pendClaims, doneClaims, qClaims, List.flatMap_append] at hx ⊢
    grind

end Fs.BulkLemmas
