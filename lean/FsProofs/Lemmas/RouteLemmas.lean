/-
  Helper lemmas for C17 (MountFS / MultiFS routing).
-/
import FsModel.Mount
import FsModel.Multi
import FsModel.RouteSpec
import FsProofs.Lemmas.PathLemmas
import FsProofs.Lemmas.TreeLemmas
import FsProofs.Lemmas.WrapLemmas

namespace Fs.RouteLemmas
open Fs Fs.Path Fs.PathSpec Fs.PathLemmas Fs.Ref Fs.Route Fs.RouteSpec

/-! ## Part 1 — the mount table: string prefixes of forcedir'ed keys are component prefixes -/

theorem absOf_eq_mkp (cs : List Str) : absOf cs = mkp true cs := rfl

theorem mountKey_mkp {a : Bool} {cs : List Str} (h : Clean cs) :
    Mount.mountKey (mkp a cs) = '/' :: dirs cs := by
  rw [Mount.mountKey, abspath_mkp h, forcedir_mkp_true h]

theorem dirs_length_drop (ms rest : List Str) :
    ('/' :: dirs (ms ++ rest)).drop ('/' :: dirs ms).length = dirs rest := by
  rw [dirs_append]
  simp

theorem rstripSlash_dirs {cs : List Str} (h : Clean cs) : rstripSlash (dirs cs) = joinWith '/' cs := by
  by_cases hne : cs = []
  · subst hne; rfl
  · rw [← join_append_slash cs hne, rstripSlash_append_single]
    simp only [if_true]
    exact rstripSlash_of_not_ends _ (endsWithSlash_join_clean h)

theorem startsWith_keys {ms cs : List Str} (hm : Clean ms) (hc : Clean cs) :
    startsWith ('/' :: dirs cs) ('/' :: dirs ms) = ms.isPrefixOf cs := by
  rw [Bool.eq_iff_iff, startsWith_iff_prefix, List.cons_prefix_cons, List.isPrefixOf_iff_prefix]
  simp [dirs_prefix_iff hm hc]

theorem findMount_tableOf (t : List (List Str × Nat)) (ht : ∀ e ∈ t, Clean e.1) (cs : List Str)
    (hc : Clean cs) :
    Mount.findMount ('/' :: dirs cs) (tableOf t) =
      (routeSpec t cs).map fun r => (r.1, joinWith '/' r.2) := by
  induction t with
  | nil => rfl
  | cons e rest ih =>
    obtain ⟨ms, i⟩ := e
    have hm : Clean ms := ht (ms, i) (by simp)
    have ih' := ih (fun e he => ht e (by simp [he]))
    simp only [tableOf, List.map_cons, Mount.findMount, routeSpec] at ih' ⊢
    rw [absOf_eq_mkp, mountKey_mkp hm, startsWith_keys hm hc]
    by_cases hp : ms.isPrefixOf cs = true
    · simp only [hp, if_true, Option.map_some]
      obtain ⟨rest', rfl⟩ := List.isPrefixOf_iff_prefix.1 hp
      rw [dirs_length_drop, List.drop_left, rstripSlash_dirs (clean_append.1 hc).2]
    · simp only [hp, Bool.false_eq_true, if_false]
      exact ih'

theorem delegate_nul {t : Mount.Table} {p : Str} (hn : '\x00' ∈ p) :
    Mount.delegate t p = .err .InvalidCharsInPath := by
  simp [Mount.delegate, hn]

theorem delegate_noNul {t : Mount.Table} {p : Str} (hn : '\x00' ∉ p) :
    Mount.delegate t p =
      (match normpath p with
       | .err e => .err e
       | .ok n =>
         match Mount.findMount (Mount.mountKey n) t with
         | some r => .ok r
         | none => .ok (0, p)) := by
  have : p.contains '\x00' = false := by simpa using hn
  simp only [Mount.delegate, this, Bool.false_eq_true, if_false]
  rfl

theorem delegate_tableOf (t : List (List Str × Nat)) (ht : ∀ e ∈ t, Clean e.1) (p : Str) (a : Bool)
    (cs : List Str) (hc : Clean cs) (hn : '\x00' ∉ p) (hp : normpath p = .ok (mkp a cs)) :
    Mount.delegate (tableOf t) p =
      match routeSpec t cs with
      | some (i, rest) => .ok (i, joinWith '/' rest)
      | none => .ok (0, p) := by
  rw [delegate_noNul hn]
  rw [hp]
  simp only
  rw [mountKey_mkp hc, findMount_tableOf t ht cs hc]
  cases routeSpec t cs with
  | none => rfl
  | some r => rfl

theorem routeSpec_some_iff (t : List (List Str × Nat)) (cs : List Str) (i : Nat) (rest : List Str) :
    routeSpec t cs = some (i, rest) ↔
      ∃ pre ms post, t = pre ++ (ms, i) :: post ∧ (∀ e ∈ pre, ¬ e.1 <+: cs) ∧ ms <+: cs ∧
        rest = cs.drop ms.length := by
  induction t with
  | nil => simp [routeSpec]
  | cons e t ih =>
    obtain ⟨ms, k⟩ := e
    simp only [routeSpec]
    by_cases hp : ms.isPrefixOf cs = true
    · simp only [hp, if_true, Option.some.injEq, Prod.mk.injEq]
      have hp' := List.isPrefixOf_iff_prefix.1 hp
      constructor
      · rintro ⟨rfl, rfl⟩
        exact ⟨[], ms, t, rfl, by simp, hp', rfl⟩
      · rintro ⟨pre, ms', post, heq, hpre, _, hrest⟩
        cases pre with
        | nil =>
          simp only [List.nil_append, List.cons.injEq, Prod.mk.injEq] at heq
          obtain ⟨⟨rfl, rfl⟩, _⟩ := heq
          exact ⟨rfl, hrest.symm⟩
        | cons x pre =>
          simp only [List.cons_append, List.cons.injEq] at heq
          have := hpre x (by simp)
          rw [← heq.1] at this
          exact absurd hp' this
    · simp only [hp, Bool.false_eq_true, if_false]
      have hp' : ¬ ms <+: cs := fun h => hp (List.isPrefixOf_iff_prefix.2 h)
      rw [ih]
      constructor
      · rintro ⟨pre, ms', post, rfl, hpre, h1, h2⟩
        refine ⟨(ms, k) :: pre, ms', post, rfl, ?_, h1, h2⟩
        intro e he
        simp only [List.mem_cons] at he
        rcases he with rfl | he
        · exact hp'
        · exact hpre e he
      · rintro ⟨pre, ms', post, heq, hpre, h1, h2⟩
        cases pre with
        | nil =>
          simp only [List.nil_append, List.cons.injEq, Prod.mk.injEq] at heq
          obtain ⟨⟨rfl, rfl⟩, _⟩ := heq
          exact absurd h1 hp'
        | cons x pre =>
          simp only [List.cons_append, List.cons.injEq] at heq
          obtain ⟨rfl, rfl⟩ := heq
          exact ⟨pre, ms', post, rfl, fun e he => hpre e (by simp [he]), h1, h2⟩

theorem routeSpec_none_iff (t : List (List Str × Nat)) (cs : List Str) :
    routeSpec t cs = none ↔ ∀ e ∈ t, ¬ e.1 <+: cs := by
  induction t with
  | nil => simp [routeSpec]
  | cons e t ih =>
    obtain ⟨ms, k⟩ := e
    simp only [routeSpec]
    by_cases hp : ms.isPrefixOf cs = true
    · have hp' := List.isPrefixOf_iff_prefix.1 hp
      simp only [hp, if_true, reduceCtorEq, List.mem_cons, forall_eq_or_imp, false_iff, not_and]
      intro h; exact absurd hp' h
    · have hp' : ¬ ms <+: cs := fun h => hp (List.isPrefixOf_iff_prefix.2 h)
      simp only [hp, Bool.false_eq_true, if_false, ih, List.mem_cons, forall_eq_or_imp, hp',
        not_false_eq_true, true_and]


/-! ## Part 2 — `mount` -/

theorem any_startsWith_tableOf (t : List (List Str × Nat)) (ht : ∀ e ∈ t, Clean e.1) (cs : List Str)
    (hc : Clean cs) :
    (tableOf t).any (fun m => startsWith ('/' :: dirs cs) m.1) = t.any (fun e => e.1.isPrefixOf cs) := by
  induction t with
  | nil => rfl
  | cons e rest ih =>
    have hm : Clean e.1 := ht e (by simp)
    simp only [tableOf, List.map_cons, List.any_cons] at ih ⊢
    rw [absOf_eq_mkp, mountKey_mkp hm, startsWith_keys hm hc, ih (fun e he => ht e (by simp [he]))]

theorem any_isPrefixOf_iff (t : List (List Str × Nat)) (cs : List Str) :
    t.any (fun e => e.1.isPrefixOf cs) = true ↔ ∃ e ∈ t, e.1 <+: cs := by
  simp only [List.any_eq_true, List.isPrefixOf_iff_prefix]

theorem tableOf_append (t u : List (List Str × Nat)) : tableOf (t ++ u) = tableOf t ++ tableOf u := by
  simp [tableOf]

/-! ## Part 3 — member calls that are queries change nothing -/

theorem mapM_one (p : Str) : [p].mapM validate = (validate p).bind (fun a => Res.ok [a]) := by
  cases h : validate p <;> simp [List.mapM, List.mapM.loop, h, bind, Res.bind, pure]

theorem parse_readonly (m : Str) (md : Mode) (h : parseBinMode m = some md)
    (hq : (m.contains 'w' || m.contains 'a' || m.contains '+' || m.contains 'x') = false) :
    md.create = false ∧ md.truncate = false ∧ md.exclusive = false := by
  simp only [Bool.or_eq_false_iff] at hq
  obtain ⟨⟨⟨hw, ha⟩, hpl⟩, hx⟩ := hq
  unfold parseBinMode at h
  split at h
  · cases h
  · split at h
    · cases h
    · split at h
      · cases h
      · split at h
        · cases h
        · split at h
          · cases h
          · split at h
            · cases h
            · simp only [Option.some.injEq] at h
              subst h
              simp_all

theorem step_openbin_readonly (s : Ref.State) (p m : Str)
    (hq : (m.contains 'w' || m.contains 'a' || m.contains '+' || m.contains 'x') = false) :
    (Ref.step s (.openbin p m)).1 = s := by
  unfold Ref.step
  simp only [Op.paths, mapM_one]
  by_cases hc : s.closed = true
  · simp [hc, fail]
  · simp only [hc]
    cases hm : parseBinMode m with
    | none => simp [fail]
    | some md =>
      obtain ⟨h1, h2, h3⟩ := parse_readonly m md hm hq
      simp only [Option.isNone_some, Bool.false_eq_true, if_false]
      cases hv : validate p with
      | err e => simp [Res.bind, fail]
      | ok cs =>
        simp only [Res.bind, step1, hm]
        repeat' split
        all_goals simp_all [done, fail]

theorem step_query_state (s : Ref.State) (op : Ref.Op) (h : isQuery op = true) :
    (Ref.step s op).1 = s := by
  cases op
  case openbin p m =>
    simp only [isQuery, Bool.not_eq_true'] at h
    exact step_openbin_readonly s p m h
  all_goals simp [isQuery] at h
  all_goals
    unfold Ref.step
    simp only [Op.paths, mapM_one]
    by_cases hc : s.closed = true
    · simp [hc, fail]
    · simp only [hc]
      cases hv : validate _ with
      | err e => simp [Res.bind, fail]
      | ok cs =>
        simp only [Res.bind, step1]
        repeat' split
        all_goals simp [done, fail]

theorem set_same (f : Fss) (i : Nat) (v : Ref.State) : (f.set i v) i = v := by simp [Fss.set]

theorem set_other (f : Fss) (i j : Nat) (v : Ref.State) (h : j ≠ i) : (f.set i v) j = f j := by
  simp [Fss.set, h]

theorem set_self (f : Fss) (i : Nat) : f.set i (f i) = f := by
  funext j; by_cases h : j = i <;> simp [Fss.set, h]

/-- a member call leaves member `j` alone when it goes elsewhere or is a query -/
theorem memberCall_frame (f : Fss) (i : Nat) (meth : Meth) (path : Str) (op : Ref.Op) (j : Nat)
    (h : i = j → isQuery op = true) : (memberCall f i meth path op).1 j = f j := by
  simp only [memberCall]
  by_cases hij : j = i
  · subst hij
    rw [set_same, step_query_state _ _ (h rfl)]
  · exact set_other _ _ _ _ hij

theorem memberCall_query (f : Fss) (i : Nat) (meth : Meth) (path : Str) (op : Ref.Op)
    (h : isQuery op = true) : (memberCall f i meth path op).1 = f := by
  funext j
  exact memberCall_frame f i meth path op j (fun _ => h)

theorem memberCall_call (f : Fss) (i : Nat) (meth : Meth) (path : Str) (op : Ref.Op) :
    (memberCall f i meth path op).2.2 = ⟨i, meth, path, op⟩ := rfl

theorem binMode_contains (m : Str) (c : Char) (hc : c ≠ 't') : (binMode m).contains c = m.contains c := by
  induction m with
  | nil => rfl
  | cons x xs ih =>
    by_cases hx : x = 't'
    · subst hx
      have hct : ('t' == c) = false := by simpa using fun h => hc h.symm
      have hne : c ≠ 't' := hc
      simp only [binMode, List.filter_cons] at ih ⊢
      simp [List.contains_cons, hne, ih]
    · have : (x != 't') = true := by simpa using hx
      simp only [binMode, List.filter_cons, this, if_true, List.contains_cons] at ih ⊢
      rw [ih]

theorem checkWritable_binMode (m : Str) : checkWritable (binMode m) = checkWritable m := by
  unfold checkWritable
  rw [binMode_contains m 'w' (by decide), binMode_contains m 'a' (by decide),
    binMode_contains m '+' (by decide), binMode_contains m 'x' (by decide)]

theorem openCall_call (f : Fss) (i : Nat) (r bm : Str) (d : Option Bytes) :
    (openCall f i r bm d).2.2 = ⟨i, .open_, r, .openbin r bm⟩ := by
  unfold openCall
  simp only
  split <;> rfl

theorem writeEffect_none_of_query (r bm : Str) (d : Option Bytes) (old : Bytes)
    (h : isQuery (.openbin r bm) = true) : writeEffect r bm d old = none := by
  simp only [isQuery, Bool.not_eq_true'] at h
  have hcw : checkWritable bm = false := h
  cases d with
  | none => rfl
  | some d =>
    show (if (!checkWritable bm) = true then none else _) = none
    simp [hcw]

theorem openCall_frame (f : Fss) (i : Nat) (r bm : Str) (d : Option Bytes) (j : Nat)
    (h : i = j → isQuery (.openbin r bm) = true) : (openCall f i r bm d).1 j = f j := by
  by_cases hij : j = i
  · subst hij
    have hq := h rfl
    unfold openCall
    simp only [writeEffect_none_of_query r bm d _ hq]
    split
    · next heq => simp at heq
    · exact (set_same _ _ _).trans (step_query_state _ _ hq)
  · unfold openCall
    simp only
    split <;> exact set_other _ _ _ _ hij

theorem forward_call (f : Fss) (i : Nat) (pr : Prim) (path : Str) :
    (forward f i pr path).2.2 = ⟨i, pr.meth, path, pr.memberOp path⟩ := by
  cases pr <;> first | rfl | exact openCall_call _ _ _ _ _

theorem forward_frame (f : Fss) (i : Nat) (pr : Prim) (path : Str) (j : Nat)
    (h : i = j → isQuery (pr.memberOp path) = true) : (forward f i pr path).1 j = f j := by
  cases pr <;> first
    | exact memberCall_frame _ _ _ _ _ _ h
    | exact openCall_frame _ _ _ _ _ _ h

theorem forward_query (f : Fss) (i : Nat) (pr : Prim) (path : Str)
    (h : isQuery (pr.memberOp path) = true) : (forward f i pr path).1 = f := by
  funext j
  exact forward_frame f i pr path j (fun _ => h)

/-! ## Part 4 — programs over primitives -/

/-- every primitive the program can issue (whatever the results of earlier calls) satisfies `P` -/
def AllPrims (P : Prim → Prop) : Prog → Prop
  | .ret _ => True
  | .call p k => P p ∧ ∀ o, AllPrims P (k o)
  | .validate _ k => AllPrims P k
  | .check k => AllPrims P k

/-- every path handed to `validatepath` satisfies `V` -/
def AllValidates (V : Str → Prop) : Prog → Prop
  | .ret _ => True
  | .call _ k => ∀ o, AllValidates V (k o)
  | .validate p k => V p ∧ AllValidates V k
  | .check k => AllValidates V k

/-- frame rule for arbitrary programs: a member is unchanged when every call it receives is a
query (in particular when it receives none), provided the primitives have that property -/
theorem run_frame {σ : Type} (sem : Sem σ) (proj : σ → Fss)
    (hp : ∀ s p j, (∀ c ∈ (sem.prim s p).2.2, c.fs = j → isQuery c.op = true) →
      proj (sem.prim s p).1 j = proj s j) :
    ∀ (prog : Prog) (s : σ) (j : Nat),
      (∀ c ∈ (prog.run sem s).2.2, c.fs = j → isQuery c.op = true) →
      proj (prog.run sem s).1 j = proj s j := by
  intro prog
  induction prog with
  | ret o => intro s j _; rfl
  | call p k ih =>
    intro s j h
    simp only [Prog.run] at h ⊢
    have h1 : ∀ c ∈ (sem.prim s p).2.2, c.fs = j → isQuery c.op = true :=
      fun c hc => h c (List.mem_append_left _ hc)
    have h2 := ih (sem.prim s p).2.1 (sem.prim s p).1 j (fun c hc => h c (List.mem_append_right _ hc))
    rw [h2, hp s p j h1]
  | validate p k ih =>
    intro s j h
    simp only [Prog.run] at h ⊢
    split
    · rfl
    · next _ t heq =>
      rw [heq] at h
      exact ih s j (fun c hc => h c (List.mem_append_right _ hc))
  | check k ih =>
    intro s j h
    simp only [Prog.run] at h ⊢
    split
    · rfl
    · next hcl =>
      rw [if_neg hcl] at h
      exact ih s j h

/-- what the calls of a program look like, from what the calls of its primitives look like;
`Inv` is any property of the composite's own state that the primitives preserve -/
theorem run_calls {σ : Type} (sem : Sem σ) (Inv : σ → Prop) (P : Prim → Prop) (V : Str → Prop)
    (Q : Call → Prop)
    (hinv : ∀ s p, Inv s → Inv (sem.prim s p).1)
    (hprim : ∀ s p, Inv s → P p → ∀ c ∈ (sem.prim s p).2.2, Q c)
    (hval : ∀ s p, Inv s → V p → ∀ c ∈ (sem.validate s p).2, Q c) :
    ∀ (prog : Prog) (s : σ), Inv s → AllPrims P prog → AllValidates V prog →
      (∀ c ∈ (prog.run sem s).2.2, Q c) ∧ Inv (prog.run sem s).1 := by
  intro prog
  induction prog with
  | ret o => intro s hi _ _; exact ⟨by simp [Prog.run], hi⟩
  | call p k ih =>
    intro s hi hP hV
    simp only [Prog.run]
    have ⟨h2, h3⟩ := ih (sem.prim s p).2.1 (sem.prim s p).1 (hinv s p hi) (hP.2 _) (hV _)
    refine ⟨?_, h3⟩
    intro c hc
    rcases List.mem_append.1 hc with hc | hc
    · exact hprim s p hi hP.1 c hc
    · exact h2 c hc
  | validate p k ih =>
    intro s hi hP hV
    simp only [Prog.run]
    have hv := hval s p hi hV.1
    split
    · next e t heq => rw [heq] at hv; exact ⟨hv, hi⟩
    · next _ t heq =>
      rw [heq] at hv
      have ⟨h2, h3⟩ := ih s hi hP hV.2
      refine ⟨?_, h3⟩
      intro c hc
      rcases List.mem_append.1 hc with hc | hc
      · exact hv c hc
      · exact h2 c hc
  | check k ih =>
    intro s hi hP hV
    simp only [Prog.run]
    split
    · exact ⟨by simp, hi⟩
    · exact ih s hi hP hV

theorem allPrims_mono {P P' : Prim → Prop} (h : ∀ p, P p → P' p) :
    ∀ prog, AllPrims P prog → AllPrims P' prog := by
  intro prog
  induction prog with
  | ret o => intro _; trivial
  | call p k ih => intro hp; exact ⟨h p hp.1, fun o => ih o (hp.2 o)⟩
  | validate p k ih => intro hp; exact ih hp
  | check k ih => intro hp; exact ih hp


/-! ## Part 5 — MountFS primitives -/

/-! ### the inherited programs only hand on the paths they were given -/

theorem allPrims_true : ∀ prog, AllPrims (fun _ => True) prog := by
  intro prog
  induction prog with
  | ret o => trivial
  | call p k ih => exact ⟨trivial, ih⟩
  | validate p k ih => exact ih
  | check k ih => exact ih

theorem allValidates_true : ∀ prog, AllValidates (fun _ => True) prog := by
  intro prog
  induction prog with
  | ret o => trivial
  | call p k ih => exact ih
  | validate p k ih => exact ⟨trivial, ih⟩
  | check k ih => exact ih

theorem allPrims_one {P : Prim → Prop} {pr : Prim} (h : P pr) : AllPrims P (one pr) :=
  ⟨h, fun _ => trivial⟩

theorem allValidates_one {V : Str → Prop} (pr : Prim) : AllValidates V (one pr) := fun _ => trivial

local macro "bsplit" : tactic => `(tactic| ((try dsimp only); split))

set_option hygiene false in
local macro "prep" : tactic =>
  `(tactic| (simp only [commonProg, Option.some.injEq] at h
             simp only [Op.paths, List.cons.injEq, and_true] at hp
             subst h; subst hp))

theorem allPrims_existsThen {P : Prim → Prop} {p : Str} {k : Bool → Prog} (hp : P (.getinfo p))
    (hk : ∀ b, AllPrims P (k b)) : AllPrims P (existsThen p k) := by
  refine ⟨hp, fun o => ?_⟩
  bsplit
  · exact hk true
  · exact hk false
  · trivial

theorem allValidates_existsThen {V : Str → Prop} {p : Str} {k : Bool → Prog}
    (hk : ∀ b, AllValidates V (k b)) : AllValidates V (existsThen p k) := by
  intro o
  bsplit
  · exact hk true
  · exact hk false
  · trivial

theorem allPrims_createThen {P : Prim → Prop} {p : Str} {w : Bool} {k : Bool → Prog}
    (h1 : P (.getinfo p)) (h2 : P (.openWrite p)) (hk : ∀ b, AllPrims P (k b)) :
    AllPrims P (createThen p w k) := by
  have hd : AllPrims P (.call (.openWrite p) fun
      | .ok _ => k true
      | .err e => .ret (.err e)) := by
    refine ⟨h2, fun o => ?_⟩
    bsplit
    · exact hk true
    · trivial
  unfold createThen
  bsplit
  · exact hd
  · apply allPrims_existsThen h1
    intro b
    bsplit
    · exact hk false
    · exact hd

theorem allValidates_createThen {V : Str → Prop} {p : Str} {w : Bool} {k : Bool → Prog}
    (hk : ∀ b, AllValidates V (k b)) : AllValidates V (createThen p w k) := by
  have hd : AllValidates V (.call (.openWrite p) fun
      | .ok _ => k true
      | .err e => .ret (.err e)) := by
    intro o
    bsplit
    · exact hk true
    · trivial
  unfold createThen
  bsplit
  · exact hd
  · apply allValidates_existsThen
    intro b
    bsplit
    · exact hk false
    · exact hd

/-- the programs for one-path operations call primitives on that very path, and never
`validatepath` -/
theorem commonProg_single (op : Ref.Op) (pr : Prog) (p : Str) (h : commonProg op = some pr)
    (hp : op.paths = [p]) :
    AllPrims (fun q => q.path = p) pr ∧ AllValidates (fun _ => False) pr := by
  cases op
  case exists_ p =>
    prep
    exact ⟨allPrims_existsThen rfl (fun _ => trivial), allValidates_existsThen (fun _ => trivial)⟩
  case create p w =>
    prep
    exact ⟨allPrims_createThen rfl rfl (fun _ => trivial), allValidates_createThen (fun _ => trivial)⟩
  case touch p =>
    prep
    refine ⟨allPrims_createThen rfl rfl (fun b => ?_), allValidates_createThen (fun b => ?_)⟩
    · cases b
      · exact allPrims_one rfl
      · trivial
    · cases b
      · exact allValidates_one _
      · trivial
  case makedirs => simp [commonProg] at h
  case removetree => simp [commonProg] at h
  case move => simp [Op.paths] at hp
  case copy => simp [Op.paths] at hp
  case movedir => simp [Op.paths] at hp
  case copydir => simp [Op.paths] at hp
  case close => simp [Op.paths] at hp
  all_goals
    prep
    exact ⟨allPrims_one rfl, allValidates_one _⟩

def moveBody (P : Prim → Prop) (ns nd : Str) : Prop :=
  P (.getinfo ns) ∧ P (.getinfo nd) ∧ P (.openRead ns) ∧ (∀ b, P (.upload nd b)) ∧ P (.remove ns)

theorem allPrims_baseMove {P : Prim → Prop} (src dst : Str) (ow : Bool)
    (h : moveBody P (absnorm src) (absnorm dst)) : AllPrims P (baseMove src dst ow) := by
  obtain ⟨h1, h2, h3, h4, h5⟩ := h
  have hb : AllPrims P (.call (.getinfo (absnorm src)) fun
        | .err e => .ret (.err e)
        | .ok v =>
          if isDirInfo v then .ret (.err .FileExpected)
          else if absnorm src = absnorm dst then .ret (.ok .unit)
          else .call (.openRead (absnorm src)) fun
            | .err e => .ret (.err e)
            | .ok rd => .call (.upload (absnorm dst) (bytesOf (.ok rd))) fun
              | .err e => .ret (.err e)
              | .ok _ => one (.remove (absnorm src))) := by
    refine ⟨h1, fun o => ?_⟩
    bsplit
    · trivial
    · bsplit
      · trivial
      · bsplit
        · trivial
        · refine ⟨h3, fun o => ?_⟩
          bsplit
          · trivial
          · refine ⟨h4 _, fun o => ?_⟩
            bsplit
            · trivial
            · exact allPrims_one h5
  simp only [baseMove, AllPrims]
  bsplit
  · exact hb
  · apply allPrims_existsThen h2
    intro b
    bsplit
    · trivial
    · exact hb

theorem allPrims_baseCopy {P : Prim → Prop} (src dst : Str) (ow : Bool)
    (h2 : P (.getinfo (absnorm dst))) (h3 : P (.openRead (absnorm src)))
    (h4 : ∀ b, P (.upload (absnorm dst) b)) : AllPrims P (baseCopy src dst ow) := by
  have hb : AllPrims P (if absnorm src = absnorm dst then .ret (.err .IllegalDestination)
      else .call (.openRead (absnorm src)) fun
        | .err e => .ret (.err e)
        | .ok rd => one (.upload (absnorm dst) (bytesOf (.ok rd)))) := by
    bsplit
    · trivial
    · refine ⟨h3, fun o => ?_⟩
      bsplit
      · trivial
      · exact allPrims_one (h4 _)
  simp only [baseCopy, AllPrims]
  bsplit
  · exact hb
  · apply allPrims_existsThen h2
    intro b
    bsplit
    · trivial
    · exact hb

theorem allValidates_baseMove {V : Str → Prop} (src dst : Str) (ow : Bool) (h1 : V src) (h2 : V dst) :
    AllValidates V (baseMove src dst ow) := by
  simp only [baseMove, AllValidates]
  refine ⟨h1, h2, ?_⟩
  have hb : AllValidates V (.call (.getinfo (absnorm src)) fun
        | .err e => .ret (.err e)
        | .ok v =>
          if isDirInfo v then .ret (.err .FileExpected)
          else if absnorm src = absnorm dst then .ret (.ok .unit)
          else .call (.openRead (absnorm src)) fun
            | .err e => .ret (.err e)
            | .ok rd => .call (.upload (absnorm dst) (bytesOf (.ok rd))) fun
              | .err e => .ret (.err e)
              | .ok _ => one (.remove (absnorm src))) := by
    intro o
    bsplit
    · trivial
    · bsplit
      · trivial
      · bsplit
        · trivial
        · intro o
          bsplit
          · trivial
          · intro o
            bsplit
            · trivial
            · exact allValidates_one _
  bsplit
  · exact hb
  · apply allValidates_existsThen
    intro b
    bsplit
    · trivial
    · exact hb

theorem allValidates_baseCopy {V : Str → Prop} (src dst : Str) (ow : Bool) (h1 : V src) (h2 : V dst) :
    AllValidates V (baseCopy src dst ow) := by
  simp only [baseCopy, AllValidates]
  refine ⟨h1, h2, ?_⟩
  have hb : AllValidates V (if absnorm src = absnorm dst then .ret (.err .IllegalDestination)
      else .call (.openRead (absnorm src)) fun
        | .err e => .ret (.err e)
        | .ok rd => one (.upload (absnorm dst) (bytesOf (.ok rd)))) := by
    bsplit
    · trivial
    · intro o
      bsplit
      · trivial
      · exact allValidates_one _
  bsplit
  · exact hb
  · apply allValidates_existsThen
    intro b
    bsplit
    · trivial
    · exact hb

theorem allPrims_makeLoop (L : List Str) (p : Str) (rc : Bool) (hp : p ∈ L) :
    ∀ ds : List Str, (∀ d ∈ ds, d ∈ L) → AllPrims (fun q => q.path ∈ L) (makeLoop p rc ds) := by
  intro ds
  induction ds with
  | nil =>
    intro _
    have hopen : AllPrims (fun q => q.path ∈ L) (.call (.getinfo p) fun
        | .ok v => if isDirInfo v then .ret (.ok .unit) else .ret (.err .DirectoryExpected)
        | .err e => .ret (.err e)) := by
      refine ⟨hp, fun o => ?_⟩
      bsplit
      · split <;> trivial
      · trivial
    refine ⟨hp, fun o => ?_⟩
    bsplit
    · exact hopen
    · split
      · exact hopen
      · trivial
    · trivial
  | cons d ds ih =>
    intro h
    refine ⟨h d (by simp), fun o => ?_⟩
    have ih' := ih (fun x hx => h x (by simp [hx]))
    bsplit
    · exact ih'
    · split
      · exact ih'
      · trivial
    · trivial

theorem allPrims_interLoop (L : List Str) (p : Str) (rc : Bool) (hp : p ∈ L) :
    ∀ (qs acc : List Str), (∀ q ∈ qs, q ∈ L ∧ abspath q ∈ L) → (∀ a ∈ acc, a ∈ L) →
      AllPrims (fun q => q.path ∈ L) (interLoop p rc qs acc) := by
  intro qs
  induction qs with
  | nil =>
    intro acc _ hacc
    apply allPrims_makeLoop L p rc hp
    intro d hd
    exact hacc d (List.mem_reverse.1 (List.dropLast_subset _ hd))
  | cons q qs ih =>
    intro acc hqs hacc
    refine ⟨(hqs q (by simp)).1, fun o => ?_⟩
    bsplit
    · apply ih
      · exact fun x hx => hqs x (by simp [hx])
      · intro a ha
        simp only [List.mem_append, List.mem_singleton] at ha
        rcases ha with ha | rfl
        · exact hacc a ha
        · exact (hqs q (by simp)).2
    · trivial
    · split
      · apply allPrims_makeLoop L p rc hp
        intro d hd
        exact hacc d (List.mem_reverse.1 (List.dropLast_subset _ hd))
      · trivial

theorem allPrims_baseMakedirs (p : Str) (rc : Bool) :
    AllPrims (fun q => q.path ∈ makedirsPaths p) (baseMakedirs p rc) := by
  unfold baseMakedirs
  simp only [AllPrims]
  cases hr : recursepath (abspath p) true with
  | err e => trivial
  | ok l =>
    simp only
    apply allPrims_interLoop _ p rc (by simp [makedirsPaths])
    · intro q hq
      simp only [makedirsPaths, hr, List.mem_cons, List.mem_append, List.mem_map]
      exact ⟨Or.inr (Or.inl hq), Or.inr (Or.inr ⟨q, hq, rfl⟩)⟩
    · simp

theorem allValidates_makeLoop (V : Str → Prop) (p : Str) (rc : Bool) :
    ∀ ds : List Str, AllValidates V (makeLoop p rc ds) := by
  intro ds
  induction ds with
  | nil =>
    intro o
    have hopen : AllValidates V (.call (.getinfo p) fun
        | .ok v => if isDirInfo v then .ret (.ok .unit) else .ret (.err .DirectoryExpected)
        | .err e => .ret (.err e)) := by
      intro o
      bsplit
      · split <;> trivial
      · trivial
    bsplit
    · exact hopen
    · split
      · exact hopen
      · trivial
    · trivial
  | cons d ds ih =>
    intro o
    bsplit
    · exact ih
    · split
      · exact ih
      · trivial
    · trivial

theorem allValidates_interLoop (V : Str → Prop) (p : Str) (rc : Bool) :
    ∀ (qs acc : List Str), AllValidates V (interLoop p rc qs acc) := by
  intro qs
  induction qs with
  | nil => intro acc; exact allValidates_makeLoop V p rc _
  | cons q qs ih =>
    intro acc o
    bsplit
    · exact ih _
    · trivial
    · split
      · exact allValidates_makeLoop V p rc _
      · trivial

theorem allValidates_baseMakedirs (V : Str → Prop) (p : Str) (rc : Bool) :
    AllValidates V (baseMakedirs p rc) := by
  unfold baseMakedirs
  simp only [AllValidates]
  cases recursepath (abspath p) true with
  | err e => trivial
  | ok l => exact allValidates_interLoop V p rc l []

namespace MountL
open Fs.Mount

/-- the parts of a MountFS state that no method except `mount` / `close` touches -/
def SameCfg (s s' : MState) : Prop :=
  s'.mounts = s.mounts ∧ s'.closed = s.closed ∧ s'.autoClose = s.autoClose

theorem SameCfg.refl (s : MState) : SameCfg s s := ⟨rfl, rfl, rfl⟩

theorem SameCfg.trans {a b c : MState} (h1 : SameCfg a b) (h2 : SameCfg b c) : SameCfg a c :=
  ⟨h2.1.trans h1.1, h2.2.1.trans h1.2.1, h2.2.2.trans h1.2.2⟩

/-- all calls of a trace go to the member `_delegate` picks for `q`, or are queries -/
def CallOk (t : Table) (q : Str) (c : Call) : Prop :=
  isQuery c.op = true ∨ routeMember t q = some c.fs

theorem checked_cfg (s : MState) (k : MState × Out × List Call) (h : SameCfg s k.1) :
    SameCfg s (checked s k).1 := by
  unfold checked; split
  · exact SameCfg.refl s
  · exact h

theorem routed_cfg (s : MState) (pr : Prim) (p : Str) : SameCfg s (routed s pr p).1 := by
  unfold routed
  split
  · exact SameCfg.refl s
  · exact ⟨rfl, rfl, rfl⟩

theorem getinfoRouted_cfg (s : MState) (p : Str) : SameCfg s (getinfoRouted s p).1 := by
  unfold getinfoRouted
  split
  · exact SameCfg.refl s
  · exact ⟨rfl, rfl, rfl⟩

theorem scanMountPoints_cfg (dirKey : Str) (names : List Name) :
    ∀ s : MState, SameCfg s (scanMountPoints s dirKey names).1 := by
  induction names with
  | nil => intro s; exact SameCfg.refl s
  | cons n rest ih =>
    intro s
    simp only [scanMountPoints]
    split
    · have h1 : SameCfg s (checked s (getinfoRouted s (dirKey ++ n))).1 :=
        checked_cfg s _ (getinfoRouted_cfg s _)
      split
      · exact h1
      · exact h1.trans (ih _)
    · exact ih s

theorem scanAfter_cfg (s1 : MState) (p : Str) (b v : Bool) (o : Out) (c : Call) :
    SameCfg s1 (scanAfter s1 p b v o c).1 := by
  unfold scanAfter
  split
  · cases v
    · simp only [Bool.false_eq_true, ↓reduceIte]; exact SameCfg.refl s1
    · simp only [↓reduceIte]; exact scanMountPoints_cfg _ _ _
  · exact SameCfg.refl s1

theorem scanRouted_cfg (s : MState) (p : Str) (b : Bool) : SameCfg s (scanRouted s p b).1 := by
  unfold scanRouted
  split
  · exact SameCfg.refl s
  · next i r _ =>
    have h0 : SameCfg s { s with fs := (memberCall s.fs i .scandir r (.listdir r)).1 } := ⟨rfl, rfl, rfl⟩
    exact h0.trans (scanAfter_cfg _ _ _ _ _ _)

theorem prim_cfg (s : MState) (pr : Prim) : SameCfg s (prim s pr).1 := by
  cases pr <;> simp only [prim]
  case getinfo p => exact checked_cfg s _ (getinfoRouted_cfg s p)
  case scandir p => exact checked_cfg s _ (scanRouted_cfg s p false)
  case scanFirst p => exact checked_cfg s _ (scanRouted_cfg s p true)
  case openbin p m =>
    split
    · exact SameCfg.refl s
    · exact checked_cfg s _ (routed_cfg s _ _)
  case open_ p m d =>
    split
    · exact SameCfg.refl s
    · exact checked_cfg s _ (routed_cfg s _ _)
  case removedir p =>
    apply checked_cfg
    split
    · exact SameCfg.refl s
    · split
      · exact SameCfg.refl s
      · exact routed_cfg s _ _
  case makedirs p rc => exact SameCfg.refl s
  all_goals exact checked_cfg s _ (routed_cfg s _ _)


/-! ### routing is insensitive to the spelling handed on by the base-class programs -/

theorem routeMember_of_key (t : Table) (p q n m : Str) (hnp : '\x00' ∉ p) (hnq : '\x00' ∉ q)
    (hp : normpath p = .ok n) (hq : normpath q = .ok m)
    (hk : mountKey n = mountKey m) : routeMember t p = routeMember t q := by
  simp only [routeMember, delegate_noNul hnp, delegate_noNul hnq, hp, hq, hk]
  cases findMount (mountKey m) t <;> rfl

/-- the components of a normal form come from the path: no NUL appears -/
theorem noNul_mkp_of_normpath {p : Str} {a b : Bool} {cs : List Str} (hn : '\x00' ∉ p)
    (hp : normpath p = .ok (mkp a cs)) (hc : Clean cs) : '\x00' ∉ mkp b cs := by
  have hr : resolve (splitSlash p) = some cs := by
    rw [normpath_eq_specNorm, specNorm] at hp
    cases hr : resolve (splitSlash p) with
    | none => rw [hr] at hp; cases hp
    | some r =>
      rw [hr] at hp
      simp only [Res.ok.injEq] at hp
      change mkp (startsWithSlash p) r = mkp a cs at hp
      have hcr := resolve_result_clean p r hr
      have h1 : joinWith '/' r = joinWith '/' cs := by
        have := congrArg lstripSlash hp
        rw [lstripSlash_mkp hcr, lstripSlash_mkp hc] at this
        exact this
      rw [join_clean_inj hcr hc h1]
  intro hm
  have hm' : '\x00' ∈ joinWith '/' cs := by
    cases b <;> simp only [mkp, if_true, List.mem_append, List.mem_singleton] at hm
    · simpa using hm
    · rcases hm with hm | hm
      · cases hm
      · exact hm
  rcases Fs.WrapLemmas.mem_joinWith _ _ hm' with h' | ⟨c, hc', hx⟩
  · cases h'
  · rcases Fs.TreeLemmas.foldl_step_mem _ _ _ hr c hc' with h' | h'
    · cases h'
    · exact hn (Fs.TreeLemmas.mem_of_mem_splitOn '/' p c h' _ hx)

/-- routing does not tell a NUL-free path from the spelling `validatepath` returns for it
(`abspath(normpath(p))`); a path with NUL is refused by `_delegate` before it is normalised -/
theorem routeMember_absnorm (t : Table) (p : Str) (hn : '\x00' ∉ p) :
    routeMember t (absnorm p) = routeMember t p := by
  unfold absnorm
  cases hp : normpath p with
  | err e => rfl
  | ok n =>
    obtain ⟨cs, hc, rfl⟩ := normpath_ok_clean p n hp
    simp only
    rw [abspath_mkp hc]
    exact routeMember_of_key t _ _ _ _ (noNul_mkp_of_normpath hn hp hc) hn (normpath_mkp hc) hp
      (by rw [mountKey_mkp hc, mountKey_mkp hc])

theorem routeMember_of_delegate {t : Table} {p : Str} {i : Nat} {r : Str}
    (h : delegate t p = .ok (i, r)) : routeMember t p = some i := by
  simp [routeMember, h]

/-! ### frame and routing of each primitive -/

theorem checked_fs (s : MState) (k : MState × Out × List Call) (j : Nat)
    (h : ¬ s.closed = true → k.1.fs j = s.fs j) : (checked s k).1.fs j = s.fs j := by
  unfold checked; split
  · rfl
  · next hc => exact h hc

theorem checked_trace (s : MState) (k : MState × Out × List Call) (c : Call)
    (h : c ∈ (checked s k).2.2) : c ∈ k.2.2 := by
  unfold checked at h; split at h
  · simp at h
  · exact h

theorem checked_trace' (s : MState) (k : MState × Out × List Call) (Q : Call → Prop)
    (h : ∀ c ∈ k.2.2, Q c) : ∀ c ∈ (checked s k).2.2, Q c :=
  fun c hc => h c (checked_trace s k c hc)

theorem routed_frame (s : MState) (pr : Prim) (p : Str) (j : Nat)
    (h : ∀ c ∈ (routed s pr p).2.2, c.fs = j → isQuery c.op = true) :
    (routed s pr p).1.fs j = s.fs j := by
  cases hd : delegate s.mounts p with
  | err e => simp only [routed, hd]
  | ok ir =>
    obtain ⟨i, r⟩ := ir
    simp only [routed, hd, List.mem_singleton, forall_eq, forward_call] at h ⊢
    exact forward_frame _ _ _ _ _ h

theorem routed_calls (s : MState) (pr : Prim) (p : Str) :
    ∀ c ∈ (routed s pr p).2.2, routeMember s.mounts p = some c.fs ∧ c.meth = pr.meth ∧
      delegate s.mounts p = .ok (c.fs, c.path) ∧ c.op = pr.memberOp c.path := by
  cases hd : delegate s.mounts p with
  | err e => simp [routed, hd]
  | ok ir =>
    obtain ⟨i, r⟩ := ir
    intro c hc
    simp only [routed, hd, List.mem_singleton] at hc
    subst hc
    simp only [forward_call]
    refine ⟨routeMember_of_delegate hd, ?_, ?_, ?_⟩ <;> first | trivial | rfl

theorem getinfoRouted_fs (s : MState) (p : Str) : (getinfoRouted s p).1.fs = s.fs := by
  cases hd : delegate s.mounts p with
  | err e => simp only [getinfoRouted, hd]
  | ok ir =>
    obtain ⟨i, r⟩ := ir
    simp only [getinfoRouted, hd]
    exact memberCall_query _ _ _ _ _ rfl

theorem getinfoRouted_calls (s : MState) (p : Str) :
    ∀ c ∈ (getinfoRouted s p).2.2, isQuery c.op = true ∧ c.meth = .getinfo ∧
      delegate s.mounts p = .ok (c.fs, c.path) := by
  cases hd : delegate s.mounts p with
  | err e => simp [getinfoRouted, hd]
  | ok ir =>
    obtain ⟨i, r⟩ := ir
    intro c hc
    simp only [getinfoRouted, hd, List.mem_singleton] at hc
    subst hc
    exact ⟨rfl, rfl, rfl⟩

theorem checked_fs_eq (s : MState) (k : MState × Out × List Call) (h : k.1.fs = s.fs) :
    (checked s k).1.fs = s.fs := by
  unfold checked; split
  · rfl
  · exact h

theorem scanMountPoints_fs (dirKey : Str) (names : List Name) :
    ∀ s : MState, (scanMountPoints s dirKey names).1.fs = s.fs := by
  induction names with
  | nil => intro s; rfl
  | cons n rest ih =>
    intro s
    simp only [scanMountPoints]
    have h1 := checked_fs_eq s _ (getinfoRouted_fs s (dirKey ++ n))
    split
    · split
      · exact h1
      · rw [ih, h1]
    · exact ih s

/-- every call made by `_scan_mount_points` is a `getinfo` query routed by `_delegate` -/
theorem scanMountPoints_calls (dirKey : Str) (names : List Name) :
    ∀ s : MState, ∀ c ∈ (scanMountPoints s dirKey names).2.2,
      isQuery c.op = true ∧ ∃ q, delegate s.mounts q = .ok (c.fs, c.path) := by
  induction names with
  | nil => intro s; simp [scanMountPoints]
  | cons n rest ih =>
    intro s c hc
    simp only [scanMountPoints] at hc
    have hg : ∀ c ∈ (checked s (getinfoRouted s (dirKey ++ n))).2.2,
        isQuery c.op = true ∧ ∃ q, delegate s.mounts q = .ok (c.fs, c.path) :=
      checked_trace' s _ _ (fun c hc =>
        ⟨(getinfoRouted_calls s _ c hc).1, _, (getinfoRouted_calls s _ c hc).2.2⟩)
    have hcfg : (checked s (getinfoRouted s (dirKey ++ n))).1.mounts = s.mounts :=
      (checked_cfg s _ (getinfoRouted_cfg s _)).1
    split at hc
    · split at hc
      · exact hg c hc
      · rcases List.mem_append.1 hc with hc | hc
        · exact hg c hc
        · have := ih _ c hc
          rw [hcfg] at this
          exact this
    · exact ih s c hc

theorem scanAfter_fs (s1 : MState) (p : Str) (b v : Bool) (o : Out) (c : Call) :
    (scanAfter s1 p b v o c).1.fs = s1.fs := by
  unfold scanAfter
  split
  · cases v
    · simp only [Bool.false_eq_true, ↓reduceIte]
    · simp only [↓reduceIte]; exact scanMountPoints_fs _ _ _
  · rfl

theorem scanAfter_calls (s1 : MState) (p : Str) (b v : Bool) (o : Out) (c0 : Call) :
    ∀ c ∈ (scanAfter s1 p b v o c0).2.2,
      c = c0 ∨ (isQuery c.op = true ∧ ∃ q, delegate s1.mounts q = .ok (c.fs, c.path)) := by
  unfold scanAfter
  split
  · cases v
    · simp only [Bool.false_eq_true, ↓reduceIte, List.mem_singleton]
      intro c hc; exact Or.inl hc
    · simp only [↓reduceIte, List.mem_cons]
      intro c hc
      rcases hc with hc | hc
      · exact Or.inl hc
      · exact Or.inr (scanMountPoints_calls _ _ _ c hc)
  · simp only [List.mem_singleton]
    intro c hc; exact Or.inl hc

theorem scanRouted_fs (s : MState) (p : Str) (b : Bool) : (scanRouted s p b).1.fs = s.fs := by
  cases hd : delegate s.mounts p with
  | err e => simp only [scanRouted, hd]
  | ok ir =>
    obtain ⟨i, r⟩ := ir
    simp only [scanRouted, hd]
    rw [scanAfter_fs]
    exact memberCall_query s.fs i .scandir r (.listdir r) rfl

theorem scanRouted_calls (s : MState) (p : Str) (b : Bool) :
    ∀ c ∈ (scanRouted s p b).2.2,
      isQuery c.op = true ∧ ∃ q, delegate s.mounts q = .ok (c.fs, c.path) := by
  unfold scanRouted
  split
  · simp
  · next i r heq =>
    intro c hc
    rcases scanAfter_calls _ _ _ _ _ _ c hc with rfl | h
    · exact ⟨rfl, p, heq⟩
    · exact h

/-- the path `_delegate` is applied to by the primitive: the caller's own path, for every method (since
/repo 48e26ed also for `removedir`, which used to delegate `normpath(path)`) -/
def routePath : Prim → Str
  | pr => pr.path

theorem routeMember_routePath (t : Table) (pr : Prim) : routeMember t (routePath pr) = routeMember t pr.path := rfl

/-- frame of a primitive: member `j` is unchanged when every call it receives is a query -/
theorem prim_frame (s : MState) (pr : Prim) (j : Nat)
    (h : ∀ c ∈ (prim s pr).2.2, c.fs = j → isQuery c.op = true) : (prim s pr).1.fs j = s.fs j := by
  cases pr <;> simp only [prim] at h ⊢
  case getinfo p => rw [checked_fs_eq s _ (getinfoRouted_fs s p)]
  case scandir p => rw [checked_fs_eq s _ (scanRouted_fs s p false)]
  case scanFirst p => rw [checked_fs_eq s _ (scanRouted_fs s p true)]
  case openbin p m =>
    split
    · rfl
    · next hm =>
      rw [if_neg hm] at h
      apply checked_fs; intro hc
      apply routed_frame
      intro c hcm; apply h c
      simp only [checked, hc]; exact hcm
  case open_ p m d =>
    split
    · rfl
    · next hm =>
      rw [if_neg hm] at h
      apply checked_fs; intro hc
      apply routed_frame
      intro c hcm; apply h c
      simp only [checked, hc]; exact hcm
  case removedir p =>
    apply checked_fs; intro hc
    simp only [checked, hc] at h
    split
    · rfl
    · split
      · rfl
      · next n hn hroot =>
        rw [hn] at h
        simp only [hroot, ↓reduceIte] at h
        exact routed_frame _ _ _ _ h
  all_goals
    apply checked_fs; intro hc
    apply routed_frame
    intro c hcm; apply h c
    simp only [checked, hc]; exact hcm

/-- routing of a primitive: every call is a query routed by `_delegate` from some path, or goes
to the member `_delegate` picks for the primitive's own path, with the member-relative path,
under the same method name -/
theorem prim_calls (s : MState) (pr : Prim) :
    ∀ c ∈ (prim s pr).2.2,
      (isQuery c.op = true ∧ ∃ q, delegate s.mounts q = .ok (c.fs, c.path)) ∨
      (delegate s.mounts (routePath pr) = .ok (c.fs, c.path) ∧ c.meth = pr.meth ∧
        c.op = pr.memberOp c.path) := by
  cases pr <;> simp only [prim]
  case getinfo p =>
    apply checked_trace'
    intro c hc
    exact Or.inl ⟨(getinfoRouted_calls s p c hc).1, p, (getinfoRouted_calls s p c hc).2.2⟩
  case scandir p => apply checked_trace'; intro c hc; exact Or.inl (scanRouted_calls s p false c hc)
  case scanFirst p => apply checked_trace'; intro c hc; exact Or.inl (scanRouted_calls s p true c hc)
  case openbin p m =>
    split
    · simp
    · apply checked_trace'
      intro c hc
      have := routed_calls s (.openbin p m) p c hc
      exact Or.inr ⟨this.2.2.1, this.2.1, this.2.2.2⟩
  case open_ p m d =>
    split
    · simp
    · apply checked_trace'
      intro c hc
      have := routed_calls s (.open_ p m d) p c hc
      exact Or.inr ⟨this.2.2.1, this.2.1, this.2.2.2⟩
  case removedir p =>
    apply checked_trace'
    split
    · simp
    · split
      · simp
      · intro c hc
        have := routed_calls s (.removedir p) p c hc
        exact Or.inr ⟨this.2.2.1, this.2.1, this.2.2.2⟩
  case makedirs p rc => simp
  all_goals
    apply checked_trace'
    intro c hc
    have := routed_calls s _ _ c hc
    exact Or.inr ⟨this.2.2.1, this.2.1, this.2.2.2⟩

theorem validate_calls (s : MState) (p : Str) :
    ∀ c ∈ (Mount.validate s p).2, isQuery c.op = true ∧ delegate s.mounts p = .ok (c.fs, c.path) := by
  unfold Mount.validate
  split
  · simp
  · split
    · simp
    · next i r heq =>
      simp only [List.mem_singleton, forall_eq]
      exact ⟨rfl, heq⟩

end MountL


/-! ## Part 6 — MultiFS -/

namespace MultiL
open Fs.Multi

/-! ### the priority order -/

theorem keyLe_iff (a b : Entry) : keyLe a b = true ↔ KeyLe a b := by
  simp [keyLe, KeyLe]

theorem keyLe_total (a b : Entry) : keyLe a b = true ∨ keyLe b a = true := by
  simp only [keyLe_iff, KeyLe]; omega

theorem keyLe_trans (a b c : Entry) (h1 : keyLe a b = true) (h2 : keyLe b c = true) : keyLe a c = true := by
  simp only [keyLe_iff, KeyLe] at *; omega

theorem keyLe_refl (a : Entry) : keyLe a a = true :=
  (keyLe_iff a a).2 (Or.inr ⟨rfl, Nat.le_refl _⟩)

theorem insertDesc_perm (e : Entry) (l : List Entry) : (insertDesc e l).Perm (e :: l) := by
  induction l with
  | nil => exact List.Perm.refl _
  | cons x xs ih =>
    simp only [insertDesc]
    split
    · exact List.Perm.refl _
    · exact (List.Perm.cons x ih).trans (List.Perm.swap e x xs)

theorem sortDesc_perm (l : List Entry) : (sortDesc l).Perm l := by
  induction l with
  | nil => exact List.Perm.refl _
  | cons e es ih => exact (insertDesc_perm e _).trans (List.Perm.cons e ih)

theorem mem_sortDesc (l : List Entry) (x : Entry) : x ∈ sortDesc l ↔ x ∈ l :=
  (sortDesc_perm l).mem_iff

/-- descending: every entry is ≥ every later one -/
def Desc (l : List Entry) : Prop := l.Pairwise (fun x y => keyLe y x = true)

theorem insertDesc_desc (e : Entry) (l : List Entry) (h : Desc l) : Desc (insertDesc e l) := by
  induction l with
  | nil => simp [insertDesc, Desc]
  | cons x xs ih =>
    simp only [insertDesc]
    have hx := List.pairwise_cons.1 h
    split
    · next hle =>
      refine List.pairwise_cons.2 ⟨?_, h⟩
      intro y hy
      simp only [List.mem_cons] at hy
      rcases hy with rfl | hy
      · exact hle
      · exact keyLe_trans _ _ _ (hx.1 y hy) hle
    · next hle =>
      have hxe : keyLe e x = true := (keyLe_total x e).resolve_left hle
      refine List.pairwise_cons.2 ⟨?_, ih hx.2⟩
      intro y hy
      have hy' := (insertDesc_perm e xs).mem_iff.1 hy
      simp only [List.mem_cons] at hy'
      rcases hy' with rfl | hy'
      · exact hxe
      · exact hx.1 y hy'

theorem sortDesc_desc (l : List Entry) : Desc (sortDesc l) := by
  induction l with
  | nil => exact List.Pairwise.nil
  | cons e es ih => exact insertDesc_desc e _ ih

/-! ### `_delegate` -/

theorem delegateLoop_fs (f : Fss) (p : Str) (es : List Entry) : (delegateLoop f p es).1 = f := by
  induction es with
  | nil => rfl
  | cons e es ih =>
    simp only [delegateLoop]
    have hq : (memberCall f e.fs .exists_ p (.exists_ p)).1 = f := memberCall_query _ _ _ _ _ rfl
    split
    · exact hq
    · exact hq
    · simp only [hq]; exact ih

theorem delegateLoop_calls (f : Fss) (p : Str) (es : List Entry) :
    ∀ c ∈ (delegateLoop f p es).2.2, isQuery c.op = true := by
  induction es with
  | nil => simp [delegateLoop]
  | cons e es ih =>
    simp only [delegateLoop]
    have hq : (memberCall f e.fs .exists_ p (.exists_ p)).1 = f := memberCall_query _ _ _ _ _ rfl
    split
    · intro c hc; simp only [List.mem_singleton] at hc; subst hc; rfl
    · intro c hc; simp only [List.mem_singleton] at hc; subst hc; rfl
    · simp only [hq, List.mem_cons]
      rintro c (rfl | hc)
      · rfl
      · exact ih c hc

theorem memberCall_out (f : Fss) (i : Nat) (meth : Meth) (path : Str) (op : Ref.Op) :
    (memberCall f i meth path op).2.1 = (Ref.step (f i) op).2 := rfl

theorem delegateLoop_some (f : Fss) (p : Str) (es : List Entry) (i : Nat)
    (h : (delegateLoop f p es).2.1 = .ok (some i)) :
    ∃ pre e post, es = pre ++ e :: post ∧ e.fs = i ∧ Holds f p e ∧ ∀ x ∈ pre, ¬ Holds f p x := by
  induction es with
  | nil => simp [delegateLoop] at h
  | cons e es ih =>
    simp only [delegateLoop] at h
    have hq : (memberCall f e.fs .exists_ p (.exists_ p)).1 = f := memberCall_query _ _ _ _ _ rfl
    split at h
    · simp at h
    · next hout =>
      simp only [Res.ok.injEq, Option.some.injEq] at h
      exact ⟨[], e, es, rfl, h, by rw [memberCall_out] at hout; exact hout, by simp⟩
    · next a hne hout =>
      simp only [hq] at h
      obtain ⟨pre, e', post, rfl, h1, h2, h3⟩ := ih h
      refine ⟨e :: pre, e', post, rfl, h1, h2, ?_⟩
      intro x hx
      simp only [List.mem_cons] at hx
      rcases hx with rfl | hx
      · intro hh
        rw [memberCall_out] at hout
        unfold Holds at hh
        rw [hh] at hout
        simp only [Res.ok.injEq] at hout
        exact hne hout.symm
      · exact h3 x hx

theorem delegateLoop_none (f : Fss) (p : Str) (es : List Entry)
    (h : (delegateLoop f p es).2.1 = .ok none) : ∀ e ∈ es, ¬ Holds f p e := by
  induction es with
  | nil => simp
  | cons e es ih =>
    simp only [delegateLoop] at h
    have hq : (memberCall f e.fs .exists_ p (.exists_ p)).1 = f := memberCall_query _ _ _ _ _ rfl
    split at h
    · simp at h
    · simp at h
    · next a hne hout =>
      simp only [hq] at h
      intro x hx
      simp only [List.mem_cons] at hx
      rcases hx with rfl | hx
      · intro hh
        rw [memberCall_out] at hout
        unfold Holds at hh
        rw [hh] at hout
        simp only [Res.ok.injEq] at hout
        exact hne hout.symm
      · exact ih h x hx

/-! ### de-duplication -/

theorem mem_dedupGo (seen l : List Name) (x : Name) : x ∈ dedupGo seen l ↔ x ∈ l ∧ x ∉ seen := by
  induction l generalizing seen with
  | nil => simp [dedupGo]
  | cons y ys ih =>
    simp only [dedupGo]
    split
    · next hy =>
      rw [ih]
      constructor
      · rintro ⟨h1, h2⟩; exact ⟨List.mem_cons_of_mem _ h1, h2⟩
      · rintro ⟨h1, h2⟩
        simp only [List.mem_cons] at h1
        rcases h1 with rfl | h1
        · exact absurd hy h2
        · exact ⟨h1, h2⟩
    · next hy =>
      simp only [List.mem_cons, ih]
      constructor
      · rintro (rfl | ⟨h1, h2⟩)
        · exact ⟨Or.inl rfl, hy⟩
        · exact ⟨Or.inr h1, fun h => h2 (Or.inr h)⟩
      · rintro ⟨h1 | h1, h2⟩
        · exact Or.inl h1
        · by_cases hxy : x = y
          · exact Or.inl hxy
          · exact Or.inr ⟨h1, by intro h; rcases h with h | h; exact hxy h; exact h2 h⟩

theorem nodup_dedupGo (seen l : List Name) : (dedupGo seen l).Nodup := by
  induction l generalizing seen with
  | nil => simp [dedupGo]
  | cons y ys ih =>
    simp only [dedupGo]
    split
    · exact ih seen
    · refine List.nodup_cons.2 ⟨?_, ih _⟩
      rw [mem_dedupGo]
      simp

theorem sublist_dedupGo (seen l : List Name) : (dedupGo seen l).Sublist l := by
  induction l generalizing seen with
  | nil => simp [dedupGo]
  | cons y ys ih =>
    simp only [dedupGo]
    split
    · exact (ih seen).cons _
    · exact (ih _).cons_cons _

/-! ### union listings -/

theorem listLoop_fs (meth : Meth) (p : Str) (es : List Entry) :
    ∀ (f : Fss) (acc : List Name) (ex : Bool), (listLoop f meth p es acc ex).1 = f := by
  induction es with
  | nil => intro f acc ex; rfl
  | cons e es ih =>
    intro f acc ex
    simp only [listLoop]
    have hq : (memberCall f e.fs meth p (.listdir p)).1 = f := memberCall_query _ _ _ _ _ rfl
    split
    · simp only [hq]; exact ih _ _ _
    · split
      · simp only [hq]; exact ih _ _ _
      · exact hq
    · exact hq
    · simp only [hq]; exact ih _ _ _
    · simp only [hq]; exact ih _ _ _

theorem listLoop_calls (meth : Meth) (p : Str) (es : List Entry) :
    ∀ (f : Fss) (acc : List Name) (ex : Bool), ∀ c ∈ (listLoop f meth p es acc ex).2.2,
      isQuery c.op = true := by
  induction es with
  | nil => intro f acc ex; simp [listLoop]
  | cons e es ih =>
    intro f acc ex
    simp only [listLoop]
    have hq : (memberCall f e.fs meth p (.listdir p)).1 = f := memberCall_query _ _ _ _ _ rfl
    split <;> (try split)
    all_goals first
      | (simp only [hq, List.mem_cons]
         rintro c (rfl | hc)
         · rfl
         · exact ih _ _ _ c hc)
      | (intro c hc; simp only [List.mem_singleton] at hc; subst hc; rfl)

theorem listingOf_of_err (f : Fss) (p : Str) (e : Entry) (er : Err)
    (h : (Ref.step (f e.fs) (.listdir p)).2 = .err er) : listingOf f p e = [] := by
  simp [listingOf, h]

/-- without an error, the loop concatenates what every member lists, in `iterate_fs` order
(members that do not hold the path, or hold it as a file, contribute nothing) -/
theorem listLoop_ok (meth : Meth) (p : Str) (es : List Entry) :
    ∀ (f : Fss) (acc : List Name) (ex : Bool) (acc' : List Name) (ex' : Bool),
      (listLoop f meth p es acc ex).2.1 = .ok (acc', ex') →
      acc' = acc ++ es.flatMap (listingOf f p) := by
  induction es with
  | nil =>
    intro f acc ex acc' ex' h
    simp only [listLoop, Res.ok.injEq, Prod.mk.injEq] at h
    simp [h.1]
  | cons e es ih =>
    intro f acc ex acc' ex' h
    simp only [listLoop] at h
    have hq : (memberCall f e.fs meth p (.listdir p)).1 = f := memberCall_query _ _ _ _ _ rfl
    simp only [List.flatMap_cons]
    split at h
    · next hout =>
      simp only [hq] at h
      rw [ih _ _ _ _ _ h]
      rw [memberCall_out] at hout
      simp [listingOf_of_err f p e _ hout]
    · next hout =>
      rw [memberCall_out] at hout
      split at h
      · simp only [hq] at h
        rw [ih _ _ _ _ _ h]
        simp [listingOf_of_err f p e _ hout]
      · cases h
    · cases h
    · next l hout =>
      simp only [hq] at h
      rw [ih _ _ _ _ _ h]
      rw [memberCall_out] at hout
      simp [listingOf, hout]
    · next v hne hout =>
      simp only [hq] at h
      rw [ih _ _ _ _ _ h]
      rw [memberCall_out] at hout
      have : listingOf f p e = [] := by
        unfold listingOf
        rw [hout]
        split
        · next l hl =>
          simp only [Res.ok.injEq] at hl
          exact absurd hl (hne l)
        · rfl
      simp [this]

/-- members answer a listing with names, `ResourceNotFound` or `DirectoryExpected` (they are open
and the path is valid) -/
def WellAnswered (f : Fss) (p : Str) (es : List Entry) : Prop :=
  ∀ e ∈ es, (∃ l, listAnswer f p e = .ok (.names l)) ∨ listAnswer f p e = .err .ResourceNotFound ∨
    listAnswer f p e = .err .DirectoryExpected

/-- the outcome of the listing loop: decided by the first member that contains the path -/
theorem listLoop_outcome (meth : Meth) (p : Str) (es : List Entry) :
    ∀ (f : Fss) (acc : List Name) (ex : Bool), WellAnswered f p es →
      (listLoop f meth p es acc ex).2.1 =
        if ex then .ok (acc ++ es.flatMap (listingOf f p), true)
        else match firstHolder f p es with
          | none => .ok (acc ++ es.flatMap (listingOf f p), false)
          | some h =>
            match listAnswer f p h with
            | .ok _ => .ok (acc ++ es.flatMap (listingOf f p), true)
            | .err er => .err er := by
  induction es with
  | nil => intro f acc ex _; cases ex <;> simp [listLoop, firstHolder]
  | cons e es ih =>
    intro f acc ex hw
    have hq : (memberCall f e.fs meth p (.listdir p)).1 = f := memberCall_query _ _ _ _ _ rfl
    have hw' : WellAnswered f p es := fun x hx => hw x (List.mem_cons_of_mem _ hx)
    have hout : (memberCall f e.fs meth p (.listdir p)).2.1 = listAnswer f p e := rfl
    rcases hw e (by simp) with ⟨l, ha⟩ | ha | ha
    · have hl : listingOf f p e = l := by
        have : (Ref.step (f e.fs) (.listdir p)).2 = .ok (.names l) := ha
        simp [listingOf, this]
      simp only [listLoop, hout, ha, hq, ih f _ true hw', if_true, firstHolder, List.flatMap_cons, hl,
        List.append_assoc, reduceCtorEq, if_false]
      cases ex <;> simp
    · have hl : listingOf f p e = [] := listingOf_of_err f p e _ ha
      simp only [listLoop, hout, ha, hq, ih f _ ex hw', firstHolder, List.flatMap_cons, hl,
        List.nil_append, if_true]
    · have hl : listingOf f p e = [] := listingOf_of_err f p e _ ha
      cases ex
      · simp [listLoop, hout, ha, firstHolder]
      · simp only [listLoop, hout, ha, hq, ih f _ true hw', if_true, List.flatMap_cons, hl,
          List.nil_append]

theorem scanFirstLoop_fs (p : Str) (es : List Entry) :
    ∀ (f : Fss) (ex : Bool), (scanFirstLoop f p es ex).1 = f := by
  induction es with
  | nil => intro f ex; rfl
  | cons e es ih =>
    intro f ex
    simp only [scanFirstLoop]
    have hq : (memberCall f e.fs .scandir p (.listdir p)).1 = f := memberCall_query _ _ _ _ _ rfl
    split
    · simp only [hq]; exact ih _ _
    · split
      · simp only [hq]; exact ih _ _
      · exact hq
    · exact hq
    · exact hq
    · simp only [hq]; exact ih _ _

theorem scanFirstLoop_calls (p : Str) (es : List Entry) :
    ∀ (f : Fss) (ex : Bool), ∀ c ∈ (scanFirstLoop f p es ex).2.2, isQuery c.op = true := by
  induction es with
  | nil => intro f ex; simp [scanFirstLoop]
  | cons e es ih =>
    intro f ex
    simp only [scanFirstLoop]
    have hq : (memberCall f e.fs .scandir p (.listdir p)).1 = f := memberCall_query _ _ _ _ _ rfl
    split <;> (try split)
    all_goals first
      | (simp only [hq, List.mem_cons]
         rintro c (rfl | hc)
         · rfl
         · exact ih _ _ c hc)
      | (intro c hc; simp only [List.mem_singleton] at hc; subst hc; rfl)

end MultiL

namespace MultiL
open Fs.Multi

/-! ### the primitives of MultiFS -/

/-- the parts of a MultiFS state that only `add_fs` / `close` touch -/
def SameCfg (s s' : MState) : Prop :=
  s'.entries = s.entries ∧ s'.writeFs = s.writeFs ∧ s'.closed = s.closed ∧
  s'.autoClose = s.autoClose ∧ s'.sortIndex = s.sortIndex

theorem SameCfg.refl (s : MState) : SameCfg s s := ⟨rfl, rfl, rfl, rfl, rfl⟩

theorem sameCfg_fs (s : MState) (f : Fss) : SameCfg s { s with fs := f } := ⟨rfl, rfl, rfl, rfl, rfl⟩

theorem checked_cfg (s : MState) (k : MState × Out × List Call) (h : SameCfg s k.1) :
    SameCfg s (checked s k).1 := by
  unfold checked; split
  · exact SameCfg.refl s
  · exact h

theorem onMember_cfg (s : MState) (i : Nat) (pr : Prim) (path : Str) : SameCfg s (onMember s i pr path).1 :=
  sameCfg_fs s _

theorem viaDelegate_cfg (s : MState) (pr : Prim) (p : Str) (cp : Res Str) (o : Out) :
    SameCfg s (viaDelegate s pr p cp o).1 := by
  unfold viaDelegate
  simp only
  split
  · exact sameCfg_fs s _
  · exact sameCfg_fs s _
  · split
    · exact sameCfg_fs s _
    · exact sameCfg_fs s _

theorem viaWrite_cfg (s : MState) (pr : Prim) (p : Str) : SameCfg s (viaWrite s pr p).1 := by
  unfold viaWrite
  split
  · exact SameCfg.refl s
  · exact sameCfg_fs s _

theorem listing_cfg (s : MState) (meth : Meth) (p : Str) : SameCfg s (listing s meth p).1 := by
  unfold listing
  simp only
  split
  · exact sameCfg_fs s _
  · split <;> exact sameCfg_fs s _

theorem prim_cfg (s : MState) (pr : Prim) : SameCfg s (prim s pr).1 := by
  cases pr <;> simp only [prim]
  case listdir p => exact checked_cfg s _ (listing_cfg s _ _)
  case scandir p => exact checked_cfg s _ (listing_cfg s _ _)
  case scanFirst p => exact checked_cfg s _ (sameCfg_fs s _)
  case openbin p m =>
    apply checked_cfg
    split
    · exact SameCfg.refl s
    · split
      · exact viaWrite_cfg s _ _
      · exact viaDelegate_cfg s _ _ _ _
  case open_ p m d =>
    apply checked_cfg
    split
    · exact SameCfg.refl s
    · split
      · exact viaWrite_cfg s _ _
      · exact viaDelegate_cfg s _ _ _ _
  all_goals first
    | exact checked_cfg s _ (viaDelegate_cfg s _ _ _ _)
    | exact checked_cfg s _ (viaWrite_cfg s _ _)

theorem checked_fs (s : MState) (k : MState × Out × List Call) (j : Nat)
    (h : ¬ s.closed = true → k.1.fs j = s.fs j) : (checked s k).1.fs j = s.fs j := by
  unfold checked; split
  · rfl
  · next hc => exact h hc

theorem checked_trace' (s : MState) (k : MState × Out × List Call) (Q : Call → Prop)
    (h : ∀ c ∈ k.2.2, Q c) : ∀ c ∈ (checked s k).2.2, Q c := by
  unfold checked; split
  · simp
  · exact h

theorem checked_open (s : MState) (k : MState × Out × List Call) (hc : ¬ s.closed = true) :
    checked s k = k := by
  unfold checked; simp [hc]

theorem onMember_frame (s : MState) (i : Nat) (pr : Prim) (path : Str) (j : Nat)
    (h : i = j → isQuery (pr.memberOp path) = true) : (onMember s i pr path).1.fs j = s.fs j :=
  forward_frame s.fs i pr path j h

theorem onMember_trace (s : MState) (i : Nat) (pr : Prim) (path : Str) :
    (onMember s i pr path).2.2 = [⟨i, pr.meth, path, pr.memberOp path⟩] := by
  simp only [onMember, forward_call]

/-- the state, result and trace of `viaDelegate`, by cases on what `_delegate` answers -/
theorem viaDelegate_cases (s : MState) (pr : Prim) (p : Str) (cp : Res Str) (o : Out) :
    let d := delegateLoop s.fs p (iterateFs s)
    (∃ e, d.2.1 = .err e ∧ viaDelegate s pr p cp o = (s, .err e, d.2.2)) ∨
    (d.2.1 = .ok none ∧ viaDelegate s pr p cp o = (s, o, d.2.2)) ∨
    (∃ i e, d.2.1 = .ok (some i) ∧ cp = .err e ∧ viaDelegate s pr p cp o = (s, .err e, d.2.2)) ∨
    (∃ i path, d.2.1 = .ok (some i) ∧ cp = .ok path ∧
      viaDelegate s pr p cp o =
        ((onMember s i pr path).1, (onMember s i pr path).2.1, d.2.2 ++ (onMember s i pr path).2.2)) := by
  have hs : ({ s with fs := (delegateLoop s.fs p (iterateFs s)).1 } : MState) = s := by
    rw [delegateLoop_fs]
  simp only [viaDelegate, hs]
  cases hd : (delegateLoop s.fs p (iterateFs s)).2.1 with
  | err e => exact Or.inl ⟨e, rfl, rfl⟩
  | ok oi =>
    cases oi with
    | none => exact Or.inr (Or.inl ⟨rfl, rfl⟩)
    | some i =>
      cases cp with
      | err e => exact Or.inr (Or.inr (Or.inl ⟨i, e, rfl, rfl, rfl⟩))
      | ok path => exact Or.inr (Or.inr (Or.inr ⟨i, path, rfl, rfl, rfl⟩))

theorem viaDelegate_frame (s : MState) (pr : Prim) (p : Str) (cp : Res Str) (o : Out) (j : Nat)
    (h : ∀ c ∈ (viaDelegate s pr p cp o).2.2, c.fs = j → isQuery c.op = true) :
    (viaDelegate s pr p cp o).1.fs j = s.fs j := by
  rcases viaDelegate_cases s pr p cp o with ⟨e, _, heq⟩ | ⟨_, heq⟩ | ⟨i, e, _, _, heq⟩ | ⟨i, path, _, _, heq⟩
  · rw [heq]
  · rw [heq]
  · rw [heq]
  · rw [heq] at h ⊢
    apply onMember_frame
    intro hij
    have := h ⟨i, pr.meth, path, pr.memberOp path⟩ (by simp [onMember_trace]) hij
    exact this

theorem viaWrite_frame (s : MState) (pr : Prim) (p : Str) (j : Nat)
    (h : ∀ c ∈ (viaWrite s pr p).2.2, c.fs = j → isQuery c.op = true) :
    (viaWrite s pr p).1.fs j = s.fs j := by
  unfold viaWrite at h ⊢
  cases hw : s.writeFs with
  | none => rfl
  | some i =>
    simp only [hw] at h ⊢
    apply onMember_frame
    intro hij
    exact h ⟨i, pr.meth, p, pr.memberOp p⟩ (by simp [onMember_trace]) hij

theorem listing_fs (s : MState) (meth : Meth) (p : Str) : (listing s meth p).1.fs = s.fs := by
  unfold listing
  simp only
  split
  · exact listLoop_fs _ _ _ _ _ _
  · split <;> exact listLoop_fs _ _ _ _ _ _

theorem listing_calls (s : MState) (meth : Meth) (p : Str) :
    ∀ c ∈ (listing s meth p).2.2, isQuery c.op = true := by
  unfold listing
  simp only
  split
  · exact listLoop_calls _ _ _ _ _ _
  · split <;> exact listLoop_calls _ _ _ _ _ _

/-- frame of a MultiFS primitive -/
theorem prim_frame (s : MState) (pr : Prim) (j : Nat)
    (h : ∀ c ∈ (prim s pr).2.2, c.fs = j → isQuery c.op = true) : (prim s pr).1.fs j = s.fs j := by
  cases pr <;> simp only [prim] at h ⊢
  case listdir p =>
    apply checked_fs; intro _; rw [listing_fs]
  case scandir p =>
    apply checked_fs; intro _; rw [listing_fs]
  case scanFirst p =>
    apply checked_fs; intro _
    simp only
    rw [scanFirstLoop_fs]
  case openbin p m =>
    apply checked_fs; intro hc
    rw [checked_open s _ hc] at h
    split
    · rfl
    · next hm =>
      simp only [hm] at h
      split
      · next hw => simp only [hw, if_true] at h; exact viaWrite_frame s _ _ j h
      · next hw => simp only [hw] at h; exact viaDelegate_frame s _ _ _ _ j h
  case open_ p m d =>
    apply checked_fs; intro hc
    rw [checked_open s _ hc] at h
    split
    · rfl
    · next hm =>
      simp only [hm] at h
      split
      · next hw => simp only [hw, if_true] at h; exact viaWrite_frame s _ _ j h
      · next hw => simp only [hw] at h; exact viaDelegate_frame s _ _ _ _ j h
  all_goals
    apply checked_fs; intro hc
    rw [checked_open s _ hc] at h
    first
      | exact viaDelegate_frame s _ _ _ _ j h
      | exact viaWrite_frame s _ _ j h

/-- what a call made by a MultiFS primitive can be: a query; or the forwarded creating/writing
call, on the write member; or the forwarded `remove`/`removedir`, on the member `_delegate`
found -/
def CallClass (s : MState) (pr : Prim) (c : Call) : Prop :=
  isQuery c.op = true ∨ (pr.writes = true ∧ s.writeFs = some c.fs) ∨
  (removes pr = true ∧ (delegateLoop s.fs pr.path (iterateFs s)).2.1 = .ok (some c.fs))

theorem viaDelegate_calls (s : MState) (pr : Prim) (p : Str) (cp : Res Str) (o : Out)
    (hq : (∀ path, isQuery (pr.memberOp path) = true) ∨ (removes pr = true ∧ pr.path = p)) :
    ∀ c ∈ (viaDelegate s pr p cp o).2.2, CallClass s pr c := by
  have hd := delegateLoop_calls s.fs p (iterateFs s)
  rcases viaDelegate_cases s pr p cp o with ⟨e, _, heq⟩ | ⟨_, heq⟩ | ⟨i, e, _, _, heq⟩ | ⟨i, path, hi, _, heq⟩
  · rw [heq]; exact fun c hc => Or.inl (hd c hc)
  · rw [heq]; exact fun c hc => Or.inl (hd c hc)
  · rw [heq]; exact fun c hc => Or.inl (hd c hc)
  · rw [heq]
    intro c hc
    rcases List.mem_append.1 hc with hc | hc
    · exact Or.inl (hd c hc)
    · simp only [onMember_trace, List.mem_singleton] at hc
      subst hc
      rcases hq with hq | ⟨hr, hp⟩
      · exact Or.inl (hq path)
      · exact Or.inr (Or.inr ⟨hr, by rw [hp]; exact hi⟩)

theorem viaWrite_calls (s : MState) (pr : Prim) (p : Str) (hw : pr.writes = true) :
    ∀ c ∈ (viaWrite s pr p).2.2, CallClass s pr c := by
  unfold viaWrite
  cases hwf : s.writeFs with
  | none => simp
  | some i =>
    simp only [onMember_trace, List.mem_singleton]
    intro c hc
    subst hc
    exact Or.inr (Or.inl ⟨hw, hwf⟩)

theorem prim_calls (s : MState) (pr : Prim) : ∀ c ∈ (prim s pr).2.2, CallClass s pr c := by
  cases pr <;> simp only [prim]
  case listdir p => exact checked_trace' s _ _ (fun c hc => Or.inl (listing_calls s _ _ c hc))
  case scandir p => exact checked_trace' s _ _ (fun c hc => Or.inl (listing_calls s _ _ c hc))
  case scanFirst p =>
    exact checked_trace' s _ _ (fun c hc => Or.inl (scanFirstLoop_calls _ _ _ _ c hc))
  case openbin p m =>
    apply checked_trace'
    split
    · simp
    · split
      · next hw => exact viaWrite_calls s _ _ (by simpa [Prim.writes, checkWritable] using hw)
      · next hw =>
        apply viaDelegate_calls
        left
        intro path
        simpa [Prim.memberOp, isQuery, checkWritable] using hw
  case open_ p m d =>
    apply checked_trace'
    split
    · simp
    · split
      · next hw => exact viaWrite_calls s _ _ (by simpa [Prim.writes, checkWritable] using hw)
      · next hw =>
        apply viaDelegate_calls
        left
        intro path
        show (!checkWritable (binMode m)) = true
        rw [checkWritable_binMode]
        simpa using hw
  case remove p => exact checked_trace' s _ _ (viaDelegate_calls s _ _ _ _ (Or.inr ⟨rfl, rfl⟩))
  case removedir p => exact checked_trace' s _ _ (viaDelegate_calls s _ _ _ _ (Or.inr ⟨rfl, rfl⟩))
  all_goals first
    | exact checked_trace' s _ _ (viaDelegate_calls s _ _ _ _ (Or.inl (fun _ => rfl)))
    | exact checked_trace' s _ _ (viaWrite_calls s _ _ rfl)

theorem viaDelegate_calls_op (s : MState) (pr : Prim) (p : Str) (cp : Res Str) (o : Out) :
    ∀ c ∈ (viaDelegate s pr p cp o).2.2, isQuery c.op = true ∨ c.op = pr.memberOp c.path := by
  have hd := delegateLoop_calls s.fs p (iterateFs s)
  rcases viaDelegate_cases s pr p cp o with ⟨e, _, heq⟩ | ⟨_, heq⟩ | ⟨i, e, _, _, heq⟩ | ⟨i, path, hi, _, heq⟩
  · rw [heq]; exact fun c hc => Or.inl (hd c hc)
  · rw [heq]; exact fun c hc => Or.inl (hd c hc)
  · rw [heq]; exact fun c hc => Or.inl (hd c hc)
  · rw [heq]
    intro c hc
    rcases List.mem_append.1 hc with hc | hc
    · exact Or.inl (hd c hc)
    · simp only [onMember_trace, List.mem_singleton] at hc
      subst hc
      exact Or.inr rfl

theorem viaWrite_calls_op (s : MState) (pr : Prim) (p : Str) :
    ∀ c ∈ (viaWrite s pr p).2.2, isQuery c.op = true ∨ c.op = pr.memberOp c.path := by
  unfold viaWrite
  cases hwf : s.writeFs with
  | none => simp
  | some i =>
    simp only [onMember_trace, List.mem_singleton]
    intro c hc
    subst hc
    exact Or.inr rfl

/-- every non-query call a primitive makes is the forwarded call itself -/
theorem prim_calls_op (s : MState) (pr : Prim) :
    ∀ c ∈ (prim s pr).2.2, isQuery c.op = true ∨ c.op = pr.memberOp c.path := by
  cases pr <;> simp only [prim]
  case listdir p => exact checked_trace' s _ _ (fun c hc => Or.inl (listing_calls s _ _ c hc))
  case scandir p => exact checked_trace' s _ _ (fun c hc => Or.inl (listing_calls s _ _ c hc))
  case scanFirst p =>
    exact checked_trace' s _ _ (fun c hc => Or.inl (scanFirstLoop_calls _ _ _ _ c hc))
  case openbin p m =>
    apply checked_trace'
    split
    · simp
    · split
      · exact viaWrite_calls_op s _ _
      · exact viaDelegate_calls_op s _ _ _ _
  case open_ p m d =>
    apply checked_trace'
    split
    · simp
    · split
      · exact viaWrite_calls_op s _ _
      · exact viaDelegate_calls_op s _ _ _ _
  all_goals first
    | exact checked_trace' s _ _ (viaDelegate_calls_op s _ _ _ _)
    | exact checked_trace' s _ _ (viaWrite_calls_op s _ _)

theorem validate_calls (s : MState) (p : Str) :
    ∀ c ∈ (Multi.validate s p).2, isQuery c.op = true := by
  unfold Multi.validate
  split
  · simp
  · cases s.writeFs with
    | none => simp
    | some i =>
      simp only [List.mem_singleton, forall_eq]
      rfl


/-! ### programs on a MultiFS -/

/-- the programs of creating/writing operations never issue `remove` / `removedir` -/
theorem creating_allPrims (op : Ref.Op) (pr : Prog) (h : Multi.prog op = some pr)
    (hcw : creatingOrWriting op = true) : AllPrims (fun q => removes q = false) pr := by
  cases op <;> simp [creatingOrWriting] at hcw <;>
    simp only [Multi.prog, commonProg, Option.some.injEq] at h <;> subst h
  case create p w => exact allPrims_createThen rfl rfl (fun _ => trivial)
  case touch p =>
    refine allPrims_createThen rfl rfl (fun b => ?_)
    cases b
    · exact allPrims_one rfl
    · trivial
  case copy src dst ow => exact allPrims_baseCopy src dst ow rfl rfl (fun _ => rfl)
  all_goals exact allPrims_one rfl

/-- programs whose every path to a result either fails, or ends with a result in `A`, given
that creating/writing primitives fail -/
def WriteEnds (A : Out → Prop) : Prog → Prop
  | .ret o => A o
  | .call p k => (p.writes = true → ∀ e, WriteEnds A (k (.err e))) ∧ (p.writes = false → ∀ o, WriteEnds A (k o))
  | .validate _ k => WriteEnds A k
  | .check k => WriteEnds A k

theorem viaWrite_none (s : MState) (pr : Prim) (p : Str) (hw : s.writeFs = none) :
    viaWrite s pr p = (s, .err .ResourceReadOnly, []) := by
  simp [viaWrite, hw]

/-- without a write member every creating/writing primitive fails -/
theorem prim_write_fails (s : MState) (pr : Prim) (hw : s.writeFs = none) (hpw : pr.writes = true) :
    ∃ e, (prim s pr).2.1 = .err e := by
  cases pr <;> simp [Prim.writes] at hpw <;> simp only [prim, viaWrite_none _ _ _ hw]
  case openbin p m =>
    unfold checked
    split
    · exact ⟨_, rfl⟩
    · split
      · exact ⟨_, rfl⟩
      · have : checkWritable m = true := by simpa [checkWritable] using hpw
        simp only [this, if_true]
        exact ⟨_, rfl⟩
  case open_ p m d =>
    unfold checked
    split
    · exact ⟨_, rfl⟩
    · split
      · exact ⟨_, rfl⟩
      · have : checkWritable m = true := by simpa [checkWritable] using hpw
        simp only [this, if_true]
        exact ⟨_, rfl⟩
  all_goals first
    | exact ⟨_, rfl⟩
    | (unfold checked; split <;> exact ⟨_, rfl⟩)

/-- … and, on an open MultiFS (for `openbin`/`open`: with a valid mode), the error is `ResourceReadOnly` -/
theorem prim_write_read_only (s : MState) (pr : Prim) (hw : s.writeFs = none) (hc : s.closed = false)
    (hpw : pr.writes = true)
    (hm : ∀ p m, (pr = .openbin p m ∨ ∃ d, pr = .open_ p m d) → modeOk m = true) :
    (prim s pr).2.1 = .err .ResourceReadOnly := by
  cases pr <;> simp [Prim.writes] at hpw <;> simp only [prim, viaWrite_none _ _ _ hw, checked, hc]
  case openbin p m =>
    have h1 := hm p m (Or.inl rfl)
    have : checkWritable m = true := by simpa [checkWritable] using hpw
    simp [h1, this]
  case open_ p m d =>
    have h1 := hm p m (Or.inr ⟨d, rfl⟩)
    have : checkWritable m = true := by simpa [checkWritable] using hpw
    simp [h1, this]
  all_goals rfl

theorem run_writeEnds (A : Out → Prop) (hA : ∀ e, A (.err e)) :
    ∀ (prog : Prog) (s : MState), s.writeFs = none → WriteEnds A prog →
      A (prog.run Multi.sem s).2.1 := by
  intro prog
  induction prog with
  | ret o => intro s _ h; exact h
  | call p k ih =>
    intro s hw h
    simp only [Prog.run]
    have hw1 : (Multi.sem.prim s p).1.writeFs = none := (prim_cfg s p).2.1.trans hw
    cases hpw : p.writes with
    | true =>
      obtain ⟨e, he⟩ := prim_write_fails s p hw hpw
      have : (Multi.sem.prim s p).2.1 = .err e := he
      rw [this]
      exact ih _ _ hw1 (h.1 hpw e)
    | false => exact ih _ _ hw1 (h.2 hpw _)
  | validate p k ih =>
    intro s hw h
    simp only [Prog.run]
    split
    · exact hA _
    · exact ih s hw h
  | check k ih =>
    intro s hw h
    simp only [Prog.run]
    split
    · exact hA _
    · exact ih s hw h

end MultiL

end Fs.RouteLemmas
