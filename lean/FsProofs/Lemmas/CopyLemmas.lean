import FsModel.File
import FsProofs.Lemmas.FileLemmas

namespace Fs.CopyLemmas
open Fs Fs.File Fs.FileLemmas

set_option linter.unusedSimpArgs false

/-! ### the short-read reader -/

theorem readSize_pos (chunk : Int) (avail : Nat) (o : Option Nat) (hc : chunk ≠ 0) (ha : 0 < avail) :
    1 ≤ readSize chunk avail o := by
  unfold readSize
  simp only [hc, if_false]
  cases o with
  | some k => simp; omega
  | none =>
    simp only
    split
    · exact ha
    · have : 1 ≤ chunk.toNat := by omega
      omega

theorem readSize_le (chunk : Int) (avail : Nat) (o : Option Nat) (ha : 0 < avail) :
    readSize chunk avail o ≤ avail := by
  unfold readSize
  split
  · omega
  · cases o with
    | some k => simp only; split <;> omega
    | none => simp only; split <;> omega

theorem readSize_le_chunk (chunk : Int) (avail : Nat) (o : Option Nat) (hc : 0 < chunk) :
    readSize chunk avail o ≤ chunk.toNat := by
  unfold readSize
  have h0 : ¬ chunk = 0 := by omega
  have h1 : ¬ chunk < 0 := by omega
  simp only [h0, h1, if_false]
  have : 1 ≤ chunk.toNat := by omega
  cases o with
  | some k => simp only; omega
  | none => simp only; omega

/-- the copy loop appends exactly the reader's remaining data -/
theorem copyLoop_exact (chunk : Int) (hc : chunk ≠ 0) (fuel : Nat) (r : Reader) (out : Bytes)
    (hf : r.data.length < fuel) : copyLoop chunk fuel r out = out ++ r.data := by
  induction fuel generalizing r out with
  | zero => omega
  | succ fuel ih =>
    obtain ⟨data, oracle⟩ := r
    simp only at hf
    unfold copyLoop
    simp only [Reader.read]
    cases data with
    | nil => simp
    | cons x xs =>
      have hk := readSize_pos chunk (x :: xs).length oracle.head? hc (by simp)
      have hne : (List.take (readSize chunk (x :: xs).length oracle.head?) (x :: xs)).isEmpty = false := by
        cases hk' : readSize chunk (x :: xs).length oracle.head? with
        | zero => rw [hk'] at hk; omega
        | succ k => simp
      simp only [hne]
      rw [ih]
      · simp [List.append_assoc]
      · simp only [List.length_drop, List.length_cons] at hf hk ⊢; omega

theorem copyChunks_flatten (chunk : Int) (hc : chunk ≠ 0) (fuel : Nat) (r : Reader)
    (hf : r.data.length < fuel) : (copyChunks chunk fuel r).flatten = r.data := by
  induction fuel generalizing r with
  | zero => omega
  | succ fuel ih =>
    obtain ⟨data, oracle⟩ := r
    simp only at hf
    unfold copyChunks
    simp only [Reader.read]
    cases data with
    | nil => simp
    | cons x xs =>
      have hk := readSize_pos chunk (x :: xs).length oracle.head? hc (by simp)
      have hne : (List.take (readSize chunk (x :: xs).length oracle.head?) (x :: xs)).isEmpty = false := by
        cases hk' : readSize chunk (x :: xs).length oracle.head? with
        | zero => rw [hk'] at hk; omega
        | succ k => simp
      simp only [hne]
      simp only [Bool.false_eq_true, if_false, List.flatten_cons]
      rw [ih]
      · simp
      · simp only [List.length_drop, List.length_cons] at hf hk ⊢; omega

/-- every chunk handed to `write` is non-empty and (for a positive chunk size) at most that long -/
theorem copyChunks_bounded (chunk : Int) (fuel : Nat) (r : Reader) :
    ∀ c ∈ copyChunks chunk fuel r, c ≠ [] ∧ (0 < chunk → c.length ≤ chunk.toNat) := by
  induction fuel generalizing r with
  | zero => simp [copyChunks]
  | succ fuel ih =>
    intro c hcm
    obtain ⟨data, oracle⟩ := r
    unfold copyChunks at hcm
    simp only [Reader.read] at hcm
    cases hne : (List.take (readSize chunk data.length oracle.head?) data).isEmpty with
    | true => simp [hne] at hcm
    | false =>
      simp only [hne, Bool.false_eq_true, if_false, List.mem_cons] at hcm
      rcases hcm with h | hcm
      · subst h
        constructor
        · intro h; simp [h] at hne
        · intro hpos
          have := readSize_le_chunk chunk data.length oracle.head? hpos
          simp only [List.length_take]; omega
      · exact ih _ c hcm

/-! ### sessions over IoRef -/

theorem limit_prefix (n : Option Int) (l : Bytes) : limit n l ++ l.drop (limit n l).length = l := by
  unfold limit
  cases n with
  | none => simp
  | some z =>
    simp only
    split
    · simp
    · rw [List.length_take]
      by_cases h : z.toNat ≤ l.length
      · rw [Nat.min_eq_left h]; exact List.take_append_drop _ _
      · have h' : l.length ≤ z.toNat := by omega
        rw [Nat.min_eq_right h', List.take_of_length_le h']; simp

theorem limit_ne_nil (n : Option Int) (l : Bytes) (hn : n ≠ some 0) (hl : l ≠ []) : limit n l ≠ [] := by
  unfold limit
  cases n with
  | none => exact hl
  | some z =>
    simp only
    split
    · exact hl
    · have : z ≠ 0 := fun h => hn (by rw [h])
      have hz : 1 ≤ z.toNat := by omega
      cases l with
      | nil => contradiction
      | cons x xs =>
        cases hzz : z.toNat with
        | zero => omega
        | succ k => simp

/-- the generic draining argument: a call that returns a non-empty prefix of the unread data
(and advances by its length) until nothing is left returns the unread data -/
theorem drainWith_exact (fl : Flags) (op : Op) (take : Bytes → Bytes)
    (hp : ∀ l, take l ++ l.drop (take l).length = l)
    (hn : ∀ l, l ≠ [] → take l ≠ [])
    (h1 : ∀ s : IoState, s.closed = false → take (s.bytes.drop s.pos) ≠ [] →
      IoRef.step fl s op = ({ s with pos := s.pos + (take (s.bytes.drop s.pos)).length },
                            .bytes (take (s.bytes.drop s.pos))))
    (h0 : ∀ s : IoState, s.closed = false → s.bytes.drop s.pos = [] →
      (IoRef.step fl s op).2 = .bytes [] ∨ (IoRef.step fl s op).2 = .err .stopIteration)
    (fuel : Nat) (s : IoState) (ho : s.closed = false) (hf : s.bytes.length - s.pos < fuel) :
    (drainWith fl op fuel s).flatten = s.bytes.drop s.pos := by
  induction fuel generalizing s with
  | zero => omega
  | succ fuel ih =>
    unfold drainWith
    by_cases hrest : s.bytes.drop s.pos = []
    · rw [hrest]
      cases hstep : IoRef.step fl s op with
      | mk s' o =>
        have := h0 s ho hrest
        rw [hstep] at this
        rcases this with h | h <;> simp only at h <;> subst h <;> simp
    · have hne := hn _ hrest
      rw [h1 s ho hne]
      have hne' : (take (s.bytes.drop s.pos)).isEmpty = false := by
        cases h : take (s.bytes.drop s.pos) <;> simp_all
      simp only [hne', Bool.false_eq_true, if_false, List.flatten_cons]
      have hlt : s.pos < s.bytes.length := by
        by_cases h : s.pos < s.bytes.length
        · exact h
        · exfalso; apply hrest; exact List.drop_eq_nil_of_le (by omega)
      have hlen : 1 ≤ (take (s.bytes.drop s.pos)).length := by
        cases h : take (s.bytes.drop s.pos) <;> simp_all
      rw [ih]
      · simp only [← List.drop_drop]
        exact hp _
      · exact ho
      · simp only; omega

end Fs.CopyLemmas
