/-
  Helper lemmas for FsProofs/InfoLaws: the code-point order on strings, `sortedSet` as a canonical
  form of a set of names, table look-ups over `_LINUX_PERMS`, calendar ranges.
-/
import FsModel.Info
import FsProofs.Lemmas.PathLemmas
import FsProofs.Lemmas.FtpLemmas

namespace Fs.InfoLemmas
open Fs Fs.Path Fs.FtpParse Fs.Info Fs.Info.Permissions Fs.PathLemmas Fs.FtpLemmas

/-! ### `ltStr`: the strict lexicographic order by code point -/

theorem char_toNat_inj (a b : Char) (h : a.toNat = b.toNat) : a = b := by
  exact Char.ext (UInt32.toNat_inj.mp h)

theorem ltStr_irrefl : ∀ a : Str, ltStr a a = false
  | [] => rfl
  | x :: xs => by simp [ltStr, ltStr_irrefl xs]

theorem ltStr_trans : ∀ a b c : Str, ltStr a b = true → ltStr b c = true → ltStr a c = true
  | [], [], _, h, _ => by simp [ltStr] at h
  | [], _ :: _, [], _, h => by simp [ltStr] at h
  | [], _ :: _, _ :: _, _, _ => by simp [ltStr]
  | _ :: _, [], _, h, _ => by simp [ltStr] at h
  | _ :: _, _ :: _, [], _, h => by simp [ltStr] at h
  | x :: xs, y :: ys, z :: zs, h1, h2 => by
    simp only [ltStr, Bool.or_eq_true, decide_eq_true_eq, Bool.and_eq_true, beq_iff_eq] at h1 h2 ⊢
    rcases h1 with h1 | ⟨rfl, h1⟩
    · rcases h2 with h2 | ⟨rfl, _⟩
      · left; omega
      · left; exact h1
    · rcases h2 with h2 | ⟨rfl, h2⟩
      · left; exact h2
      · right; exact ⟨rfl, ltStr_trans xs ys zs h1 h2⟩

theorem ltStr_total : ∀ a b : Str, a ≠ b → ltStr a b = false → ltStr b a = true
  | [], [], h, _ => absurd rfl h
  | [], _ :: _, _, h => by simp [ltStr] at h
  | _ :: _, [], _, _ => by simp [ltStr]
  | x :: xs, y :: ys, hne, h => by
    simp only [ltStr, Bool.or_eq_false_iff, decide_eq_false_iff_not, Bool.and_eq_false_iff,
      beq_eq_false_iff_ne] at h
    simp only [ltStr, Bool.or_eq_true, decide_eq_true_eq, Bool.and_eq_true, beq_iff_eq]
    by_cases hxy : x = y
    · subst hxy
      right
      refine ⟨rfl, ltStr_total xs ys (fun e => hne (by rw [e])) ?_⟩
      rcases h.2 with h | h
      · exact absurd rfl h
      · exact h
    · left
      have : x.toNat ≠ y.toNat := fun e => hxy (char_toNat_inj _ _ e)
      omega

theorem ltStr_asymm (a b : Str) (h : ltStr a b = true) : ltStr b a = false := by
  cases h' : ltStr b a with
  | false => rfl
  | true => have := ltStr_trans a b a h h'; rw [ltStr_irrefl] at this; cases this

theorem ltStr_ne (a b : Str) (h : ltStr a b = true) : a ≠ b := by
  intro e; subst e; rw [ltStr_irrefl] at h; cases h

/-! ### `sortedSet` -/

/-- strictly increasing -/
abbrev Sorted (l : List Str) : Prop := l.Pairwise fun a b => ltStr a b = true

theorem mem_insertSorted (x a : Str) : ∀ l : List Str, x ∈ insertSorted a l ↔ x = a ∨ x ∈ l
  | [] => by simp [insertSorted]
  | y :: ys => by
    unfold insertSorted
    split
    · rename_i h; subst h; simp
    · split
      · simp
      · simp only [List.mem_cons, mem_insertSorted x a ys]
        constructor <;> rintro (h | h | h) <;> simp [h]

theorem mem_sortedSet (x : Str) : ∀ l : List Str, x ∈ sortedSet l ↔ x ∈ l
  | [] => by simp [sortedSet]
  | a :: l => by
    have ih := mem_sortedSet x l
    simp only [sortedSet, List.foldr_cons] at ih ⊢
    rw [mem_insertSorted, ih]; simp

theorem sorted_insertSorted (a : Str) : ∀ l : List Str, Sorted l → Sorted (insertSorted a l)
  | [], _ => by simp [insertSorted, Sorted]
  | y :: ys, h => by
    unfold insertSorted
    have hy : ∀ z ∈ ys, ltStr y z = true := (List.pairwise_cons.mp h).1
    have hys : Sorted ys := (List.pairwise_cons.mp h).2
    split
    · exact h
    · rename_i hne
      split
      · rename_i hlt
        refine List.pairwise_cons.mpr ⟨?_, h⟩
        intro z hz
        rcases List.mem_cons.mp hz with rfl | hz
        · exact hlt
        · exact ltStr_trans _ _ _ hlt (hy z hz)
      · rename_i hnlt
        have hya : ltStr y a = true := ltStr_total a y hne (by simpa using hnlt)
        refine List.pairwise_cons.mpr ⟨?_, sorted_insertSorted a ys hys⟩
        intro z hz
        rcases (mem_insertSorted z a ys).mp hz with rfl | hz
        · exact hya
        · exact hy z hz

theorem sorted_sortedSet : ∀ l : List Str, Sorted (sortedSet l)
  | [] => by simp [sortedSet, Sorted]
  | a :: l => by
    have ih := sorted_sortedSet l
    simp only [sortedSet, List.foldr_cons] at ih ⊢
    exact sorted_insertSorted a _ ih

theorem sorted_nodup (l : List Str) (h : Sorted l) : l.Nodup :=
  h.imp (fun hab => ltStr_ne _ _ hab)

/-- two strictly increasing lists with the same members are equal -/
theorem sorted_ext : ∀ l₁ l₂ : List Str, Sorted l₁ → Sorted l₂ → (∀ x, x ∈ l₁ ↔ x ∈ l₂) → l₁ = l₂
  | [], [], _, _, _ => rfl
  | [], b :: _, _, _, h => by have := (h b).2 (by simp); simp at this
  | a :: _, [], _, _, h => by have := (h a).1 (by simp); simp at this
  | a :: as, b :: bs, h1, h2, h => by
    have ha := (List.pairwise_cons.mp h1)
    have hb := (List.pairwise_cons.mp h2)
    have hab : a = b := by
      rcases List.mem_cons.mp ((h a).1 (by simp)) with e | hin
      · exact e
      · rcases List.mem_cons.mp ((h b).2 (by simp)) with e | hin'
        · exact e.symm
        · have h1 := hb.1 a hin
          have h2 := ha.1 b hin'
          rw [ltStr_asymm _ _ h1] at h2; cases h2
    subst hab
    congr 1
    apply sorted_ext as bs ha.2 hb.2
    intro x
    constructor
    · intro hx
      rcases List.mem_cons.mp ((h x).1 (List.mem_cons_of_mem _ hx)) with e | hx'
      · subst e; have := ha.1 x hx; rw [ltStr_irrefl] at this; cases this
      · exact hx'
    · intro hx
      rcases List.mem_cons.mp ((h x).2 (List.mem_cons_of_mem _ hx)) with e | hx'
      · subst e; have := hb.1 x hx; rw [ltStr_irrefl] at this; cases this
      · exact hx'

/-- `sorted(set(l))` depends only on the set -/
theorem sortedSet_ext (l₁ l₂ : List Str) (h : ∀ x, x ∈ l₁ ↔ x ∈ l₂) : sortedSet l₁ = sortedSet l₂ :=
  sorted_ext _ _ (sorted_sortedSet l₁) (sorted_sortedSet l₂)
    (fun x => by rw [mem_sortedSet, mem_sortedSet]; exact h x)

theorem sortedSet_eq_iff (l₁ l₂ : List Str) : sortedSet l₁ = sortedSet l₂ ↔ ∀ x, x ∈ l₁ ↔ x ∈ l₂ :=
  ⟨fun e x => by rw [← mem_sortedSet x l₁, ← mem_sortedSet x l₂, e], sortedSet_ext l₁ l₂⟩

/-! ### the table `_LINUX_PERMS`: keys are distinct, masks are the twelve low bits -/

theorem keys_inj : ∀ e ∈ linuxPerms, ∀ e' ∈ linuxPerms, e.1 = e'.1 → e = e' := by decide +kernel

theorem masks_lt : ∀ e ∈ linuxPerms, e.2 < 4096 := by decide

theorem and_mask (m k : Nat) (h : k < 4096) : (m % 4096) &&& k = m &&& k := by
  have h1 : m % 4096 = m &&& (2 ^ 12 - 1) := (Nat.and_two_pow_sub_one_eq_mod m 12).symm
  have h2 : k = k &&& (2 ^ 12 - 1) := by
    rw [Nat.and_two_pow_sub_one_eq_mod]; exact (Nat.mod_eq_of_lt h).symm
  rw [h1, Nat.and_assoc, Nat.and_comm (2 ^ 12 - 1) k, ← h2]

theorem ofMode_mod (m : Nat) : ofMode (m % 4096) = ofMode m := by
  unfold ofMode
  congr 2
  apply List.filter_congr
  intro e he
  rw [and_mask m e.2 (masks_lt e he)]

theorem mem_ofMode (m : Nat) (k : Str) :
    k ∈ (ofMode m).perms ↔ ∃ e ∈ linuxPerms, (m &&& e.2) ≠ 0 ∧ e.1 = k := by
  simp [ofMode, List.mem_map, List.mem_filter, and_assoc]

theorem contains_iff (p : Permissions) (k : Str) : p.contains k = true ↔ k ∈ p.perms := by
  simp [Permissions.contains]

theorem contains_ofMode (m : Nat) (e : Str × Nat) (he : e ∈ linuxPerms) :
    (ofMode m).contains e.1 = ((m &&& e.2) != 0) := by
  rw [Bool.eq_iff_iff, contains_iff, mem_ofMode]
  constructor
  · rintro ⟨e', he', hb, hk⟩
    rw [← keys_inj e' he' e he hk]; simpa using hb
  · intro h; exact ⟨e, he, by simpa using h, rfl⟩

theorem testBit_orFold : ∀ (L : List (Bool × Nat)) (a j : Nat),
    (L.foldl (fun acc e => if e.1 then acc ||| e.2 else acc) a).testBit j =
      (a.testBit j || L.any (fun e => e.1 && e.2.testBit j))
  | [], a, j => by simp
  | e :: L, a, j => by
    simp only [List.foldl_cons, List.any_cons]
    rw [testBit_orFold L]
    cases e.1 <;> simp [Nat.testBit_or, Bool.or_assoc]

theorem linuxPerms_pow : linuxPerms =
    [ ("setuid".toList, 2 ^ 11), ("setguid".toList, 2 ^ 10), ("sticky".toList, 2 ^ 9),
      ("u_r".toList, 2 ^ 8), ("u_w".toList, 2 ^ 7), ("u_x".toList, 2 ^ 6),
      ("g_r".toList, 2 ^ 5), ("g_w".toList, 2 ^ 4), ("g_x".toList, 2 ^ 3),
      ("o_r".toList, 2 ^ 2), ("o_w".toList, 2 ^ 1), ("o_x".toList, 2 ^ 0) ] := rfl

theorem and_two_pow_ne_zero (m i : Nat) : ((m &&& 2 ^ i) != 0) = m.testBit i := by
  cases h : m.testBit i
  · have : m &&& 2 ^ i = 0 := by
      apply Nat.eq_of_testBit_eq
      intro j
      rw [Nat.testBit_and, Nat.testBit_two_pow, Nat.zero_testBit]
      by_cases hij : i = j
      · subst hij; simp [h]
      · simp [hij]
    simp [this]
  · have : (m &&& 2 ^ i).testBit i = true := by
      rw [Nat.testBit_and, Nat.testBit_two_pow, h]; simp
    have hne : m &&& 2 ^ i ≠ 0 := by
      intro e; rw [e, Nat.zero_testBit] at this; cases this
    simpa using hne

/-- bit `j` of the mode of any permission set -/
theorem testBit_mode (p : Permissions) (j : Nat) :
    p.mode.testBit j = linuxPerms.any (fun e => p.contains e.1 && e.2.testBit j) := by
  have := testBit_orFold (linuxPerms.map fun e => (p.contains e.1, e.2)) 0 j
  simp only [List.foldl_map, List.any_map, Nat.zero_testBit, Bool.false_or] at this
  exact this

theorem any_congr_mem {α : Type} (f g : α → Bool) : ∀ l : List α, (∀ a ∈ l, f a = g a) → l.any f = l.any g
  | [], _ => rfl
  | a :: l, h => by
    simp only [List.any_cons]
    rw [h a (by simp), any_congr_mem f g l (fun a ha => h a (List.mem_cons_of_mem _ ha))]

theorem mode_ofMode (m : Nat) : (ofMode m).mode = m % 4096 := by
  apply Nat.eq_of_testBit_eq
  intro j
  rw [testBit_mode, show (4096 : Nat) = 2 ^ 12 from rfl, Nat.testBit_mod_two_pow]
  have hc : ∀ e ∈ linuxPerms, (ofMode m).contains e.1 = ((m &&& e.2) != 0) := contains_ofMode m
  rw [any_congr_mem _ (fun e => ((m &&& e.2) != 0) && e.2.testBit j) _ (fun e he => by rw [hc e he])]
  simp only [linuxPerms_pow, List.any_cons, List.any_nil, and_two_pow_ne_zero, Nat.testBit_two_pow, Bool.or_false]
  have : j = 0 ∨ j = 1 ∨ j = 2 ∨ j = 3 ∨ j = 4 ∨ j = 5 ∨ j = 6 ∨ j = 7 ∨ j = 8 ∨ j = 9 ∨ j = 10 ∨ j = 11 ∨ 12 ≤ j := by omega
  rcases this with rfl | rfl | rfl | rfl | rfl | rfl | rfl | rfl | rfl | rfl | rfl | rfl | h
  all_goals try simp
  simp [show ¬ 11 = j by omega, show ¬ 10 = j by omega, show ¬ 9 = j by omega, show ¬ 8 = j by omega,
    show ¬ 7 = j by omega, show ¬ 6 = j by omega, show ¬ 5 = j by omega, show ¬ 4 = j by omega,
    show ¬ 3 = j by omega, show ¬ 2 = j by omega, show ¬ 1 = j by omega, show ¬ 0 = j by omega, show ¬ j < 12 by omega]

/-! ### `as_str` and `parse` -/

def rc (b : Bool) (ch : Char) : Char := if b then ch else '-'

def xc (sp x : Bool) (lo up : Char) : Char := if sp then (if x then lo else up) else rc x 'x'

theorem names9 : linuxPermsNames.drop (linuxPermsNames.length - 9) =
    ["u_r".toList, "u_w".toList, "u_x".toList, "g_r".toList, "g_w".toList, "g_x".toList,
     "o_r".toList, "o_w".toList, "o_x".toList] := rfl

theorem asStr_eq (p : Permissions) : p.asStr =
    [ rc (p.contains "u_r".toList) 'r', rc (p.contains "u_w".toList) 'w',
      xc (p.contains "setuid".toList) (p.contains "u_x".toList) 's' 'S',
      rc (p.contains "g_r".toList) 'r', rc (p.contains "g_w".toList) 'w',
      xc (p.contains "setguid".toList) (p.contains "g_x".toList) 's' 'S',
      rc (p.contains "o_r".toList) 'r', rc (p.contains "o_w".toList) 'w',
      xc (p.contains "sticky".toList) (p.contains "o_x".toList) 't' 'T' ] := by
  unfold Permissions.asStr
  rw [names9]
  have hz : "rwxrwxrwx".toList = ['r','w','x','r','w','x','r','w','x'] := rfl
  rw [hz]
  simp only [List.zip_cons_cons, List.zip_nil_right, List.map_cons, List.map_nil, rc, xc]
  cases p.contains "setuid".toList <;> cases p.contains "setguid".toList <;> cases p.contains "sticky".toList <;>
    simp [List.set]

theorem mem_ugo3 (pre a b c : Char) (x : Str) :
    x ∈ ugo pre [a, b, c] ↔
      (a ≠ '-' ∧ x = [pre, '_', a]) ∨ (b ≠ '-' ∧ x = [pre, '_', b]) ∨ (c ≠ '-' ∧ x = [pre, '_', c]) := by
  simp only [ugo, List.mem_map, List.mem_filter, List.mem_cons, List.not_mem_nil, or_false, bne_iff_ne, ne_eq]
  constructor
  · rintro ⟨ch, ⟨h | h | h, hne⟩, rfl⟩
    · subst h; exact Or.inl ⟨hne, rfl⟩
    · subst h; exact Or.inr (Or.inl ⟨hne, rfl⟩)
    · subst h; exact Or.inr (Or.inr ⟨hne, rfl⟩)
  · rintro (⟨h, rfl⟩ | ⟨h, rfl⟩ | ⟨h, rfl⟩)
    · exact ⟨a, ⟨Or.inl rfl, h⟩, rfl⟩
    · exact ⟨b, ⟨Or.inr (Or.inl rfl), h⟩, rfl⟩
    · exact ⟨c, ⟨Or.inr (Or.inr rfl), h⟩, rfl⟩

theorem mem_parse9 (c0 c1 c2 c3 c4 c5 c6 c7 c8 : Char) (x : Str) :
    x ∈ (Permissions.parse [c0, c1, c2, c3, c4, c5, c6, c7, c8]).perms ↔
      x ∈ ugo 'u' [c0, c1, c2] ∨ x ∈ ugo 'g' [c3, c4, c5] ∨ x ∈ ugo 'o' [c6, c7, c8] := by
  simp [Permissions.parse, ofUGO, Permissions.init]

theorem rc_iff (b : Bool) (ch pre : Char) (x : Str) (h : ch ≠ '-') :
    (rc b ch ≠ '-' ∧ x = [pre, '_', rc b ch]) ↔ (b = true ∧ x = [pre, '_', ch]) := by
  cases b <;> simp [rc, h]

def rwxNames : List Str :=
  ["u_r".toList, "u_w".toList, "u_x".toList, "g_r".toList, "g_w".toList, "g_x".toList,
   "o_r".toList, "o_w".toList, "o_x".toList]

theorem xc_cases (sp x : Bool) (lo up pre : Char) (y : Str)
    (h : xc sp x lo up ≠ '-' ∧ y = [pre, '_', xc sp x lo up]) :
    sp = true ∨ (x = true ∧ y = [pre, '_', 'x']) := by
  cases sp
  · right; cases x <;> simp_all [xc, rc]
  · left; rfl

theorem parse_asStr_iff (p : Permissions) :
    (Permissions.parse p.asStr).eq p = true ↔ ∀ n ∈ p.perms, n ∈ rwxNames := by
  simp only [Permissions.eq, Permissions.dump, beq_iff_eq, sortedSet_eq_iff]
  rw [asStr_eq]
  simp only [mem_parse9, mem_ugo3, rc_iff _ _ _ _ (show 'r' ≠ '-' by decide), rc_iff _ _ _ _ (show 'w' ≠ '-' by decide)]
  have len3 : ∀ (y : Str) (pre ch : Char), y = [pre, '_', ch] → y.length = 3 := by
    intro y pre ch h; rw [h]; rfl
  constructor
  · intro E n hn
    have special : ∀ s : Str, s.length ≠ 3 → p.contains s = true → False := by
      intro s hl hs
      have hs' := (E s).2 ((contains_iff p s).1 hs)
      rcases hs' with (⟨_, h⟩ | ⟨_, h⟩ | ⟨_, h⟩) | (⟨_, h⟩ | ⟨_, h⟩ | ⟨_, h⟩) | (⟨_, h⟩ | ⟨_, h⟩ | ⟨_, h⟩) <;>
        exact hl (len3 _ _ _ h)
    rcases (E n).2 hn with (⟨_, h⟩ | ⟨_, h⟩ | h) | (⟨_, h⟩ | ⟨_, h⟩ | h) | (⟨_, h⟩ | ⟨_, h⟩ | h)
    · subst h; decide
    · subst h; decide
    · rcases xc_cases _ _ _ _ _ _ h with hs | ⟨_, h⟩
      · exact (special _ (by decide) hs).elim
      · subst h; decide
    · subst h; decide
    · subst h; decide
    · rcases xc_cases _ _ _ _ _ _ h with hs | ⟨_, h⟩
      · exact (special _ (by decide) hs).elim
      · subst h; decide
    · subst h; decide
    · subst h; decide
    · rcases xc_cases _ _ _ _ _ _ h with hs | ⟨_, h⟩
      · exact (special _ (by decide) hs).elim
      · subst h; decide
  · intro H x
    have nospecial : ∀ s : Str, s ∉ rwxNames → p.contains s = false := by
      intro s hs
      cases h : p.contains s with
      | false => rfl
      | true => exact absurd (H s ((contains_iff p s).1 h)) hs
    rw [nospecial "setuid".toList (by decide), nospecial "setguid".toList (by decide), nospecial "sticky".toList (by decide)]
    simp only [xc, Bool.false_eq_true, if_false, rc_iff _ _ _ _ (show 'x' ≠ '-' by decide), contains_iff]
    constructor
    · rintro ((⟨h, rfl⟩ | ⟨h, rfl⟩ | ⟨h, rfl⟩) | (⟨h, rfl⟩ | ⟨h, rfl⟩ | ⟨h, rfl⟩) | (⟨h, rfl⟩ | ⟨h, rfl⟩ | ⟨h, rfl⟩)) <;> exact h
    · intro hx
      have hm := H x hx
      simp only [rwxNames, List.mem_cons, List.not_mem_nil, or_false] at hm
      rcases hm with rfl | rfl | rfl | rfl | rfl | rfl | rfl | rfl | rfl
      · exact Or.inl (Or.inl ⟨hx, rfl⟩)
      · exact Or.inl (Or.inr (Or.inl ⟨hx, rfl⟩))
      · exact Or.inl (Or.inr (Or.inr ⟨hx, rfl⟩))
      · exact Or.inr (Or.inl (Or.inl ⟨hx, rfl⟩))
      · exact Or.inr (Or.inl (Or.inr (Or.inl ⟨hx, rfl⟩)))
      · exact Or.inr (Or.inl (Or.inr (Or.inr ⟨hx, rfl⟩)))
      · exact Or.inr (Or.inr (Or.inl ⟨hx, rfl⟩))
      · exact Or.inr (Or.inr (Or.inr (Or.inl ⟨hx, rfl⟩)))
      · exact Or.inr (Or.inr (Or.inr (Or.inr ⟨hx, rfl⟩)))

/-! ### calendar ranges; seconds ↔ civil fields -/

theorem daysInMonth_bounds (y m : Nat) : 28 ≤ daysInMonth y m ∧ daysInMonth y m ≤ 31 := by
  unfold daysInMonth; split <;> (try split) <;> omega

theorem days_bounds (y m d : Nat) (h : validDate y m d = true) :
    -719162 ≤ daysFromCivil y m d ∧ daysFromCivil y m d ≤ 2932896 := by
  rw [validDate_iff] at h
  obtain ⟨hy1, hy2, hm1, hm2, hd1, hd2⟩ := h
  have := daysInMonth_bounds y m
  unfold daysFromCivil
  simp only
  have hm : m = 1 ∨ m = 2 ∨ m = 3 ∨ m = 4 ∨ m = 5 ∨ m = 6 ∨ m = 7 ∨ m = 8 ∨ m = 9 ∨ m = 10 ∨ m = 11 ∨ m = 12 := by omega
  rcases hm with rfl | rfl | rfl | rfl | rfl | rfl | rfl | rfl | rfl | rfl | rfl | rfl <;>
    simp only [Nat.reduceLeDiff, if_true, if_false, Nat.reduceAdd, Nat.reduceMod, Nat.reduceMul, Nat.reduceDiv] <;> omega

theorem days_last : daysFromCivil 9999 12 31 = 2932896 := by decide

theorem days_first : daysFromCivil 1 1 1 = -719162 := by decide

theorem days_surj : ∀ n : Nat, n ≤ 3652058 →
    ∃ y m d, validDate y m d = true ∧ daysFromCivil y m d = (n : Int) - 719162
  | 0, _ => ⟨1, 1, 1, by decide, by decide⟩
  | n + 1, hn => by
    obtain ⟨y, m, d, hv, hd⟩ := days_surj n (by omega)
    have hv' := (validDate_iff y m d).1 hv
    obtain ⟨hy1, hy2, hm1, hm2, hd1, hd2⟩ := hv'
    have hb := daysInMonth_bounds y m
    by_cases h1 : d < daysInMonth y m
    · refine ⟨y, m, d + 1, (validDate_iff _ _ _).2 ⟨hy1, hy2, hm1, hm2, by omega, by omega⟩, ?_⟩
      rw [days_succ_day y m d hd1, hd]; omega
    · have hdd : d = daysInMonth y m := by omega
      by_cases h2 : m < 12
      · have hb' := daysInMonth_bounds y (m + 1)
        refine ⟨y, m + 1, 1, (validDate_iff _ _ _).2 ⟨hy1, hy2, by omega, by omega, by omega, by omega⟩, ?_⟩
        rw [days_succ_month y m hy1 hm1 h2, ← hdd, hd]; omega
      · have hm12 : m = 12 := by omega
        subst hm12
        have hd31 : d = 31 := by rw [hdd]; rfl
        subst hd31
        have hy : y ≠ 9999 := by
          intro e; subst e; rw [days_last] at hd; omega
        refine ⟨y + 1, 1, 1, (validDate_iff _ _ _).2 ⟨by omega, by omega, by omega, by omega, by omega, by have := daysInMonth_bounds (y + 1) 1; omega⟩, ?_⟩
        rw [days_succ_year y, hd]; omega

/-- every day number of years 1–9999 is the day number of its own civil date -/
theorem days_civil_roundtrip (z : Int) (h1 : -719162 ≤ z) (h2 : z ≤ 2932896) :
    validDate (civilFromDays z).1 (civilFromDays z).2.1 (civilFromDays z).2.2 = true ∧
    daysFromCivil (civilFromDays z).1 (civilFromDays z).2.1 (civilFromDays z).2.2 = z := by
  obtain ⟨y, m, d, hv, hd⟩ := days_surj (z + 719162).toNat (by omega)
  have hz : daysFromCivil y m d = z := by rw [hd]; omega
  rw [← hz, civil_roundtrip y m d hv]
  exact ⟨hv, rfl⟩

theorem roundHalfEven_one (n : Int) : roundHalfEven n 1 = n := by
  simp [roundHalfEven]

theorem epochToDatetime_eq (t : Int) (h1 : minEpoch ≤ t) (h2 : t ≤ maxEpoch) :
    epochToDatetime t = .ok (dtOfSeconds t 0) := by
  unfold epochToDatetime epochToDatetimeQ
  simp only [roundHalfEven_one, Nat.one_ne_zero, if_false]
  have e1 : t * 1000000 / 1000000 = t := by omega
  have e2 : t * 1000000 % 1000000 = 0 := by omega
  rw [e1, e2]
  have : ¬ (t < minEpoch ∨ maxEpoch < t) := by omega
  simp [this]

/-- seconds → civil fields → seconds -/
theorem epoch_dt_epoch (t : Int) (h1 : minEpoch ≤ t) (h2 : t ≤ maxEpoch) :
    (dtOfSeconds t 0).valid = true ∧ datetimeToEpoch (dtOfSeconds t 0) = t := by
  unfold minEpoch at h1; unfold maxEpoch at h2
  obtain ⟨hv, hd⟩ := days_civil_roundtrip (t / 86400) (by omega) (by omega)
  have hs1 : 0 ≤ t % 86400 := by omega
  have hs2 : t % 86400 < 86400 := by omega
  constructor
  · have hh : (dtOfSeconds t 0).hour < 24 := by show (t % 86400).toNat / 3600 < 24; omega
    have hmi : (dtOfSeconds t 0).minute < 60 := by show (t % 86400).toNat % 3600 / 60 < 60; omega
    have hs : (dtOfSeconds t 0).second < 60 := by show (t % 86400).toNat % 60 < 60; omega
    have hmic : (dtOfSeconds t 0).micro < 1000000 := by show 0 < 1000000; omega
    have hv' : validDate (dtOfSeconds t 0).year (dtOfSeconds t 0).month (dtOfSeconds t 0).day = true := hv
    simp only [DT.valid, Bool.and_eq_true, decide_eq_true_eq]
    exact ⟨⟨⟨⟨hv', hh⟩, hmi⟩, hs⟩, hmic⟩
  · simp only [datetimeToEpoch, dtOfSeconds, epochOf, hd]
    omega

/-- civil fields → seconds → civil fields -/
theorem dt_epoch_dt (d : DT) (hv : d.valid = true) (hm : d.micro = 0) :
    epochToDatetime (datetimeToEpoch d) = .ok d := by
  simp only [DT.valid, Bool.and_eq_true, decide_eq_true_eq] at hv
  obtain ⟨⟨⟨⟨hdate, hh⟩, hmi⟩, hs⟩, _⟩ := hv
  obtain ⟨b1, b2⟩ := days_bounds _ _ _ hdate
  have hE : datetimeToEpoch d = daysFromCivil d.year d.month d.day * 86400 + ((d.hour * 3600 + d.minute * 60 + d.second : Nat) : Int) := by
    simp [datetimeToEpoch, epochOf]
  have hdiv : datetimeToEpoch d / 86400 = daysFromCivil d.year d.month d.day := by rw [hE]; omega
  have hmod : datetimeToEpoch d % 86400 = ((d.hour * 3600 + d.minute * 60 + d.second : Nat) : Int) := by rw [hE]; omega
  rw [epochToDatetime_eq _ (by unfold minEpoch; rw [hE]; omega) (by unfold maxEpoch; rw [hE]; omega)]
  simp only [dtOfSeconds, hdiv, hmod, civil_roundtrip _ _ _ hdate, Int.toNat_natCast]
  cases d
  simp only at hh hmi hs hm ⊢
  subst hm
  congr 2 <;> omega

/-- `roundHalfEven n d` is a nearest integer to `n/d`, and the even one on a tie -/
theorem roundHalfEven_nearest (n : Int) (d : Nat) (hd : 0 < d) :
    let q := roundHalfEven n d
    2 * (n - q * d) ≥ -(d : Int) ∧ 2 * (n - q * d) ≤ d ∧ ((2 * (n - q * d) = d ∨ 2 * (n - q * d) = -(d : Int)) → q % 2 = 0) := by
  intro q
  have hdpos : (0 : Int) < d := by exact_mod_cast hd
  have h0 := Int.emod_nonneg n (Int.ne_of_gt hdpos)
  have h1 := Int.emod_lt_of_pos n hdpos
  have h2 := Int.emod_add_mul_ediv n d
  have hq : q = roundHalfEven n d := rfl
  clear_value q
  unfold roundHalfEven at hq
  simp only at hq
  generalize n / (d : Int) = e at *
  generalize n % (d : Int) = r at *
  generalize hX : (d : Int) * e = X at *
  have hmul : ∀ k : Int, (e + k) * d = X + k * d := by intro k; rw [Int.add_mul, Int.mul_comm e, hX]
  have hmul0 : e * (d : Int) = X := by rw [Int.mul_comm, hX]
  split at hq
  · subst hq; rw [hmul0]; omega
  · split at hq
    · subst hq; rw [hmul 1]; omega
    · split at hq
      · subst hq; rw [hmul0]; omega
      · subst hq; rw [hmul 1]; omega

/-! ### `suffix`, `suffixes`, `stem` -/

theorem joinWith_flatten (c : Char) (h : Str) : ∀ t : List Str,
    joinWith c (h :: t) = h ++ (t.map (c :: ·)).flatten
  | [] => by simp [joinWith]
  | a :: t => by
    rw [joinWith_cons]
    simp only [reduceCtorEq, if_false, List.map_cons, List.flatten_cons]
    rw [joinWith_flatten c a t]; simp

/-- a name is its first dot-separated piece followed by the remaining pieces, each with its dot -/
theorem name_split (name : Str) :
    (splitOn '.' name).headD [] ++ (((splitOn '.' name).drop 1).map ('.' :: ·)).flatten = name := by
  have hne := splitOn_ne_nil '.' name
  have hj := joinWith_splitOn '.' name
  cases hs : splitOn '.' name with
  | nil => exact absurd hs hne
  | cons h t =>
    rw [hs, joinWith_flatten] at hj
    simpa using hj

theorem dotStart_iff (name : Str) : dotStart name = true ↔ ∃ r, name = '.' :: r := by
  cases name with
  | nil => simp [dotStart]
  | cons c r => simp [dotStart]

theorem dotStart_split (name : Str) (h : dotStart name = true) : (splitOn '.' name).headD [] = [] := by
  obtain ⟨r, rfl⟩ := (dotStart_iff name).1 h
  rw [splitOn_cons_sep]; rfl

theorem stem_suffixes_iff (name : Str) :
    stemOf name ++ (suffixesOf name).flatten = name ↔ ¬ (dotStart name = true ∧ 2 ≤ name.count '.') := by
  have hsplit := name_split name
  unfold stemOf suffixesOf
  by_cases hd : dotStart name = true
  · obtain ⟨r, rfl⟩ := (dotStart_iff name).1 hd
    have hc : List.count '.' ('.' :: r) = List.count '.' r + 1 := by simp
    by_cases h1 : List.count '.' ('.' :: r) = 1
    · simp [hd, h1]
    · have hhead := dotStart_split _ hd
      rw [hhead, List.nil_append] at hsplit
      simp only [hd, Bool.true_and, beq_iff_eq, h1, if_false, if_true, hsplit]
      constructor
      · intro h; have := congrArg List.length h; simp at this
      · intro h; exact absurd ⟨trivial, by omega⟩ h
  · have hd' : dotStart name = false := by simpa using hd
    simp only [hd', Bool.false_and, Bool.false_eq_true, if_false, false_and, not_false_eq_true, iff_true]
    exact hsplit

theorem suffix_last (name : Str) : suffixOf name = ((suffixesOf name).getLast?).getD [] := by
  unfold suffixOf suffixesOf
  split
  · rfl
  · by_cases hdot : '.' ∈ name
    · have hne := splitOn_ne_nil '.' name
      have hj := joinWith_splitOn '.' name
      have hnm := not_mem_of_mem_splitOn '.' name
      obtain ⟨ini, last, hs⟩ : ∃ ini last, splitOn '.' name = ini ++ [last] :=
        ⟨(splitOn '.' name).dropLast, (splitOn '.' name).getLast hne, (List.dropLast_concat_getLast hne).symm⟩
      have hini : ini ≠ [] := by
        intro e; subst e
        rw [hs] at hj; simp [joinWith] at hj
        subst hj
        exact hnm last (by rw [hs]; simp) hdot
      have hlast : '.' ∉ last := hnm last (by rw [hs]; simp)
      rw [hs, joinWith_append '.' ini [last] hini (by simp)] at hj
      simp only [joinWith] at hj
      have hr := rsplit1_some '.' (joinWith '.' ini) last hlast
      rw [hj] at hr
      simp only [rpartition, hr, if_true]
      rw [hs]
      cases ini with
      | nil => exact absurd rfl hini
      | cons a rest => simp [List.getLast?_append]
    · have hs := splitOn_of_not_mem '.' name hdot
      simp [rpartition, rsplit1_none '.' name hdot, hs]

/-! ### names → mode → names; microseconds -/

/-- bit test of the mode of *any* permission set = membership of the name -/
theorem contains_mode_bit (p : Permissions) (e : Str × Nat) (he : e ∈ linuxPerms) :
    ((p.mode &&& e.2) != 0) = p.contains e.1 := by
  rw [linuxPerms_pow] at he
  simp only [List.mem_cons, List.not_mem_nil, or_false] at he
  rcases he with rfl | rfl | rfl | rfl | rfl | rfl | rfl | rfl | rfl | rfl | rfl | rfl <;>
    (rw [and_two_pow_ne_zero, testBit_mode]
     simp only [linuxPerms_pow, List.any_cons, List.any_nil, Nat.testBit_two_pow, Bool.or_false]
     simp)

theorem mem_ofMode_mode (p : Permissions) (x : Str) :
    x ∈ (ofMode p.mode).perms ↔ x ∈ linuxPermsNames ∧ x ∈ p.perms := by
  rw [mem_ofMode]
  constructor
  · rintro ⟨e, he, hb, rfl⟩
    refine ⟨List.mem_map.mpr ⟨e, he, rfl⟩, (contains_iff p e.1).1 ?_⟩
    rw [← contains_mode_bit p e he]; simpa using hb
  · rintro ⟨hn, hx⟩
    obtain ⟨e, he, rfl⟩ := List.mem_map.mp hn
    refine ⟨e, he, ?_, rfl⟩
    have := contains_mode_bit p e he
    rw [(contains_iff p e.1).2 hx] at this
    simpa using this

theorem epoch_dt_epoch_us (t : Int) (us : Nat) (hus : us < 1000000) (h1 : minEpoch ≤ t) (h2 : t ≤ maxEpoch) :
    (dtOfSeconds t us).valid = true ∧ datetimeToEpoch (dtOfSeconds t us) = t ∧ (dtOfSeconds t us).micro = us := by
  unfold minEpoch at h1; unfold maxEpoch at h2
  obtain ⟨hv, hd⟩ := days_civil_roundtrip (t / 86400) (by omega) (by omega)
  have hs1 : 0 ≤ t % 86400 := by omega
  have hs2 : t % 86400 < 86400 := by omega
  refine ⟨?_, ?_, rfl⟩
  · have hh : (dtOfSeconds t us).hour < 24 := by show (t % 86400).toNat / 3600 < 24; omega
    have hmi : (dtOfSeconds t us).minute < 60 := by show (t % 86400).toNat % 3600 / 60 < 60; omega
    have hs : (dtOfSeconds t us).second < 60 := by show (t % 86400).toNat % 60 < 60; omega
    have hmic : (dtOfSeconds t us).micro < 1000000 := hus
    have hv' : validDate (dtOfSeconds t us).year (dtOfSeconds t us).month (dtOfSeconds t us).day = true := hv
    simp only [DT.valid, Bool.and_eq_true, decide_eq_true_eq]
    exact ⟨⟨⟨⟨hv', hh⟩, hmi⟩, hs⟩, hmic⟩
  · simp only [datetimeToEpoch, dtOfSeconds, epochOf, hd]
    omega

end Fs.InfoLemmas
