/-
  Helper lemmas for C20 (FTP LIST / MLSD / FEAT parsers).  Core Lean only.
-/
import FsModel.FtpParse
import FsProofs.Lemmas.ParseLemmas

namespace Fs.FtpLemmas
open Fs Fs.Path Fs.Parse Fs.FtpParse Fs.ParseLemmas

/-! ### totality of the LIST parsers -/

/-- `_parse_time` never raises: an impossible `datetime` yields `None` -/
theorem finishTime_ok (y : Nat) (t : Option Tm) : ∃ r, finishTime y t = .ok r := by
  unfold finishTime
  cases t with
  | none => exact ⟨_, rfl⟩
  | some tm =>
    simp only
    split
    · exact ⟨_, rfl⟩
    · exact ⟨_, rfl⟩

theorem finishTime_ne_err (y : Nat) (t : Option Tm) (e : Err) : finishTime y t ≠ .err e := by
  obtain ⟨r, hr⟩ := finishTime_ok y t
  rw [hr]; intro h; cases h

theorem intOfDigits_err (s : Str) (e : Err) (h : intOfDigits s = .err e) : e = .ValueError := by
  unfold intOfDigits at h; split at h <;> cases h; rfl

/-- the only exception `decode_linux` can raise is the `ValueError` of `int(size)` -/
theorem decodeLinux_err (y : Nat) (l : Str) (g : LinuxGroups) (e : Err)
    (h : decodeLinux y l g = .err e) : e = .ValueError := by
  unfold decodeLinux decodeLinuxTime at h
  simp only at h
  split at h
  · rename_i heq; exact absurd heq (finishTime_ne_err _ _ _)
  · split at h
    · rename_i heq; cases h; exact intOfDigits_err _ _ heq
    · cases h

theorem decodeNt_err (y : Nat) (l : Str) (g : NtGroups) (e : Err)
    (h : decodeNt y l g = .err e) : e = .ValueError := by
  unfold decodeNt decodeNtTime at h
  split at h
  · rename_i heq
    cases h
    unfold ntSize at heq
    split at heq
    · cases heq
    · split at heq
      · cases heq
      · rename_i h2; cases heq; exact intOfDigits_err _ _ h2
  · split at h
    · rename_i heq; exact absurd heq (finishTime_ne_err _ _ _)
    · cases h

/-- `except ValueError` catches everything a decoder can raise -/
theorem skipErr_ok (r : Res ListInfo) (h : ∀ e, r = .err e → e = .ValueError) :
    ∃ o, skipErr r = .ok o := by
  cases r with
  | ok i => exact ⟨_, rfl⟩
  | err e => rw [h e rfl]; exact ⟨none, rfl⟩

theorem parseLine_total (y : Nat) (l : Str) : ∃ r, parseLine y l = .ok r := by
  unfold parseLine
  split
  · exact skipErr_ok _ (fun e he => decodeLinux_err _ _ _ e he)
  · split
    · exact skipErr_ok _ (fun e he => decodeNt_err _ _ _ e he)
    · exact ⟨_, rfl⟩

theorem validDate_iff (y m d : Nat) :
    validDate y m d = true ↔ 1 ≤ y ∧ y ≤ 9999 ∧ 1 ≤ m ∧ m ≤ 12 ∧ 1 ≤ d ∧ d ≤ daysInMonth y m := by
  simp [validDate, and_assoc]

theorem daysInMonth_1900_le (y m : Nat) : daysInMonth 1900 m ≤ daysInMonth y m := by
  unfold daysInMonth
  by_cases h : m = 2
  · subst h
    have h19 : isLeap 1900 = false := by decide
    simp only [beq_self_eq_true, if_true, h19, Bool.false_eq_true, if_false]
    split <;> omega
  · have : (m == 2) = false := by simpa using h
    simp [this]

/-- for a time that `strptime` accepted, `_parse_time` gives no value exactly for
    "Feb 29 HH:MM" in a non-leap current year (where `datetime(...)` raises and is caught) -/
theorem finishTime_none_iff (y : Nat) (hy : 1 ≤ y ∧ y ≤ 9999) (tm : Tm) (hv : tmValid tm = true) :
    finishTime y (some tm) = .ok none ↔
      (tm.year = none ∧ tm.month = 2 ∧ tm.day = 29 ∧ isLeap y = false) := by
  unfold finishTime
  simp only
  unfold tmValid at hv
  cases hyr : tm.year with
  | some yy =>
    rw [hyr] at hv
    simp only at hv
    have hvd : validDate (substYear y (some yy)) tm.month tm.day = true := by
      unfold substYear
      simp only
      split
      · rename_i h1900
        subst h1900
        rw [validDate_iff] at hv ⊢
        have := daysInMonth_1900_le y tm.month
        omega
      · exact hv
    simp [hvd]
  | none =>
    rw [hyr] at hv
    simp only [substYear] at hv ⊢
    by_cases hfeb : (tm.month == 2 && tm.day == 29) = true
    · simp only [Bool.and_eq_true, beq_iff_eq] at hfeb
      obtain ⟨hm, hd⟩ := hfeb
      by_cases hl : isLeap y = true
      · have : validDate y tm.month tm.day = true := by
          rw [validDate_iff, hm, hd]; simp [daysInMonth, hl]; omega
        simp [this, hl]
      · have hl' : isLeap y = false := by simpa using hl
        have : validDate y tm.month tm.day = false := by
          have : ¬ validDate y tm.month tm.day = true := by
            rw [validDate_iff, hm, hd]; simp [daysInMonth, hl']
          simpa using this
        rw [hm, hd] at this
        simp [this, hm, hd, hl']
    · simp only [hfeb, Bool.false_eq_true, if_false] at hv
      have : validDate y tm.month tm.day = true := by
        rw [validDate_iff] at hv ⊢
        have := daysInMonth_1900_le y tm.month
        omega
      simp only [this, if_true, Res.ok.injEq, reduceCtorEq, false_iff, not_and]
      intro _ hm hd
      simp [hm, hd] at hfeb

/-- value of a line result (errors carry no value) -/
def okVal {α} (r : Res (Option α)) : Option α :=
  match r with
  | .ok o => o
  | .err _ => none

theorem parse_eq_filterMap (y : Nat) (lines : List Str)
    (h : ∀ l ∈ lines, strip l ≠ [] → ∃ r, parseLine y l = .ok r) :
    parse y lines = .ok ((lines.filter (fun l => decide (strip l ≠ []))).filterMap
      (fun l => okVal (parseLine y l))) := by
  induction lines with
  | nil => rfl
  | cons l rest ih =>
    have ih' := ih (fun l' hl' => h l' (List.mem_cons_of_mem _ hl'))
    unfold parse
    by_cases hb : strip l = []
    · simp [hb, ih']
    · obtain ⟨r, hr⟩ := h l (by simp) hb
      simp only [hb, if_false, hr, ih']
      cases r <;> simp [hb, hr, okVal]

theorem parse_err (y : Nat) (lines : List Str) (e : Err)
    (h : parse y lines = .err e) : ∃ l ∈ lines, strip l ≠ [] ∧ parseLine y l = .err e := by
  induction lines with
  | nil => cases h
  | cons l rest ih =>
    unfold parse at h
    by_cases hb : strip l = []
    · simp only [hb, if_true] at h
      obtain ⟨l', hl', h'⟩ := ih h
      exact ⟨l', List.mem_cons_of_mem _ hl', h'⟩
    · simp only [hb, if_false] at h
      cases hr : parseLine y l with
      | err e' =>
        rw [hr] at h; cases h
        exact ⟨l, by simp, hb, hr⟩
      | ok r =>
        rw [hr] at h
        simp only at h
        cases hp : parse y rest with
        | err e' =>
          rw [hp] at h; cases h
          obtain ⟨l', hl', h'⟩ := ih hp
          exact ⟨l', List.mem_cons_of_mem _ hl', h'⟩
        | ok infos => rw [hp] at h; cases h

/-! ### MLSD -/

theorem timegm_err (y m d h mi s : Int) (e : Err) (he : timegm y m d h mi s = .err e) :
    e = .ValueError := by
  unfold timegm at he; split at he <;> cases he; rfl

/-- `_parse_ftp_time` never raises (`calendar.timegm` is inside the `try`) -/
theorem parseFtpTime_ok (t : Str) : ∃ r, parseFtpTime t = .ok r := by
  unfold parseFtpTime
  split
  · split
    · exact ⟨_, rfl⟩
    · rename_i e heq
      rw [timegm_err _ _ _ _ _ _ e heq]
      exact ⟨none, rfl⟩
  · exact ⟨_, rfl⟩

theorem mlsdSize_ok (facts : List (Str × Str)) : ∃ n, mlsdSize facts = .ok n := by
  unfold mlsdSize
  simp only
  split
  · split <;> exact ⟨_, rfl⟩
  · exact ⟨_, rfl⟩

theorem mlsdTime_ok (facts : List (Str × Str)) (k : Str) : ∃ r, mlsdTime facts k = .ok r := by
  unfold mlsdTime
  split
  · exact ⟨_, rfl⟩
  · rename_i v _
    obtain ⟨r, hr⟩ := parseFtpTime_ok v
    rw [hr]; exact ⟨_, rfl⟩

theorem parseMlsxLine_total (l : Str) : ∃ r, parseMlsxLine l = .ok r := by
  unfold parseMlsxLine
  simp only
  split
  · exact ⟨_, rfl⟩
  · split
    · exact ⟨_, rfl⟩
    · obtain ⟨n, hn⟩ := mlsdSize_ok (parseFacts (dropLeadSpace (rstripEol l))).2
      obtain ⟨m, hm⟩ := mlsdTime_ok (parseFacts (dropLeadSpace (rstripEol l))).2 kModify
      obtain ⟨c, hc⟩ := mlsdTime_ok (parseFacts (dropLeadSpace (rstripEol l))).2 kCreate
      rw [hn, hm, hc]
      exact ⟨_, rfl⟩

theorem parseMlsx_total (ls : List Str) : ∃ r, parseMlsx ls = .ok r := by
  induction ls with
  | nil => exact ⟨_, rfl⟩
  | cons l rest ih =>
    obtain ⟨r, hr⟩ := parseMlsxLine_total l
    obtain ⟨rs, hrs⟩ := ih
    unfold parseMlsx
    rw [hr, hrs]
    exact ⟨_, rfl⟩

/-! ### splitlines -/


theorem go_cons_nobreak (cur : Str) (c : Char) (rest : Str) (h : isLineBreak c = false) :
    splitlines.go cur (c :: rest) = splitlines.go (c :: cur) rest := by
  have hr : c ≠ '\r' := by rintro rfl; revert h; decide
  rw [splitlines.go.eq_def]
  split
  · simp at *
  · rename_i heq; simp only [List.cons.injEq] at heq; exact absurd heq.1 hr
  · rename_i heq; simp only [List.cons.injEq] at heq; obtain ⟨rfl, rfl⟩ := heq; simp [h]

theorem go_nl (cur rest : Str) :
    splitlines.go cur ('\n' :: rest) = cur.reverse :: splitlines.go [] rest := by
  rw [splitlines.go.eq_def]
  split
  · simp at *
  · rename_i heq; simp at heq
  · rename_i heq; simp only [List.cons.injEq] at heq; obtain ⟨rfl, rfl⟩ := heq; simp [isLineBreak]

theorem go_line (cur l rest : Str) (h : NoBreak l) :
    splitlines.go cur (l ++ '\n' :: rest) = (cur.reverse ++ l) :: splitlines.go [] rest := by
  induction l generalizing cur with
  | nil => simp [go_nl]
  | cons c cs ih =>
    rw [List.cons_append, go_cons_nobreak _ _ _ (h c (by simp)), ih _ (fun x hx => h x (by simp [hx]))]
    simp

theorem go_last (cur l : Str) (h : NoBreak l) (hne : l ≠ []) :
    splitlines.go cur l = [cur.reverse ++ l] := by
  induction l generalizing cur with
  | nil => exact absurd rfl hne
  | cons c cs ih =>
    rw [go_cons_nobreak _ _ _ (h c (by simp))]
    cases cs with
    | nil => simp [splitlines.go]
    | cons d ds =>
      rw [ih _ (fun x hx => h x (by simp [hx])) (by simp)]
      simp

/-! ### FEAT -/




theorem dictSet_new (k v : Str) (d : List (Str × Str)) (h : k ∉ d.map Prod.fst) :
    dictSet k v d = d ++ [(k, v)] := by
  induction d with
  | nil => rfl
  | cons x xs ih =>
    obtain ⟨k', v'⟩ := x
    simp only [List.map_cons, List.mem_cons, not_or] at h
    have : k' ≠ k := fun e => h.1 e.symm
    simp [dictSet, this, ih h.2]

def featStep (d : List (Str × Str)) (line : Str) : List (Str × Str) :=
  match line with
  | ' ' :: body => let p := partition ' ' body; dictSet p.1 p.2.2 d
  | _ => d

theorem parseFeatures_eq (resp : Str) : parseFeatures resp =
    if (partition '-' resp).1 = ['2', '1', '1'] then (splitlines resp).foldl featStep [] else [] := by
  unfold parseFeatures; rfl

theorem featStep_line (d : List (Str × Str)) (kv : Str × Str) (hk : ' ' ∉ kv.1)
    (hnew : kv.1 ∉ d.map Prod.fst) : featStep d (featLine kv) = d ++ [kv] := by
  unfold featStep featLine
  simp only
  by_cases hv : kv.2 = []
  · simp only [hv, if_true, List.append_nil]
    rw [partition_not_mem _ _ hk]
    simp only
    rw [dictSet_new _ _ _ hnew]
    obtain ⟨k, v⟩ := kv
    simp at hv; simp [hv]
  · simp only [hv, if_false, List.cons_append]
    rw [partition_append_sep _ _ _ hk]
    simp only
    rw [dictSet_new _ _ _ hnew]

theorem foldl_featStep (feats d : List (Str × Str))
    (hk : ∀ kv ∈ feats, ' ' ∉ kv.1) (hnd : ((d ++ feats).map Prod.fst).Nodup) :
    (feats.map featLine).foldl featStep d = d ++ feats := by
  induction feats generalizing d with
  | nil => simp
  | cons x xs ih =>
    simp only [List.map_cons, List.foldl_cons]
    have hx : x.1 ∉ d.map Prod.fst := by
      simp only [List.map_append, List.map_cons] at hnd
      have := (List.nodup_append.1 hnd).2.2
      intro hm
      exact this _ hm _ (by simp) rfl
    rw [featStep_line d x (hk x (by simp)) hx]
    have e : d ++ [x] ++ xs = d ++ x :: xs := by simp
    rw [ih _ (fun kv h => hk kv (by simp [h])) (by rw [e]; exact hnd), e]

theorem splitlines_render (feats : List (Str × Str)) (h : ∀ kv ∈ feats, NoBreak (featLine kv)) :
    splitlines (renderFeat feats) = featHead :: (feats.map featLine ++ [featEnd]) := by
  unfold splitlines renderFeat
  have hh : NoBreak featHead := by unfold NoBreak; decide
  have he : NoBreak featEnd := by unfold NoBreak; decide
  rw [List.append_assoc, List.cons_append, go_line [] _ _ hh]
  simp only [List.reverse_nil, List.nil_append, List.cons.injEq, true_and]
  induction feats with
  | nil => simpa using go_last [] featEnd he (by decide)
  | cons x xs ih =>
    simp only [List.flatMap_cons, List.append_assoc, List.cons_append, List.nil_append,
      List.map_cons]
    rw [go_line [] _ _ (h x (by simp))]
    simp only [List.reverse_nil, List.nil_append, List.cons.injEq, true_and]
    exact ih (fun kv hkv => h kv (by simp [hkv]))

theorem feat_roundtrip_core (feats : List (Str × Str))
    (hk : ∀ kv ∈ feats, ' ' ∉ kv.1) (hb : ∀ kv ∈ feats, NoBreak kv.1 ∧ NoBreak kv.2)
    (hnd : (feats.map Prod.fst).Nodup) :
    parseFeatures (renderFeat feats) = feats := by
  rw [parseFeatures_eq]
  have hpre : (partition '-' (renderFeat feats)).1 = ['2', '1', '1'] := by
    have : renderFeat feats = ['2', '1', '1'] ++ '-' :: ("Features:".toList ++ '\n' ::
        feats.flatMap (fun kv => featLine kv ++ ['\n']) ++ featEnd) := by
      unfold renderFeat featHead; simp
    rw [this, partition_append_sep _ _ _ (by decide)]
  rw [if_pos hpre, splitlines_render feats (by
    intro kv hkv c hc
    obtain ⟨h1, h2⟩ := hb kv hkv
    unfold featLine at hc
    simp only [List.cons_append, List.mem_cons, List.mem_append] at hc
    rcases hc with rfl | hc | hc
    · decide
    · exact h1 c hc
    · split at hc
      · simp at hc
      · simp only [List.mem_cons] at hc
        rcases hc with rfl | hc
        · decide
        · exact h2 c hc)]
  simp only [List.foldl_cons, List.foldl_append, List.foldl_nil]
  have h0 : featStep [] featHead = [] := by decide
  rw [h0, foldl_featStep feats [] hk (by simpa using hnd)]
  simp only [List.nil_append]
  unfold featStep featEnd
  rfl

/-! ### calendar arithmetic -/

theorem isLeap_iff (y : Nat) : isLeap y = true ↔ (y % 4 = 0 ∧ (y % 100 ≠ 0 ∨ y % 400 = 0)) := by
  simp [isLeap]

theorem days_anchor : daysFromCivil 1970 1 1 = 0 := by decide

theorem days_succ_day (y m d : Nat) (hd : 1 ≤ d) : daysFromCivil y m (d + 1) = daysFromCivil y m d + 1 := by
  unfold daysFromCivil
  simp only
  omega

theorem days_succ_month (y m : Nat) (hy : 1 ≤ y) (hm1 : 1 ≤ m) (hm : m < 12) :
    daysFromCivil y (m + 1) 1 = daysFromCivil y m (daysInMonth y m) + 1 := by
  have hl := isLeap_iff y
  have : m = 1 ∨ m = 2 ∨ m = 3 ∨ m = 4 ∨ m = 5 ∨ m = 6 ∨ m = 7 ∨ m = 8 ∨ m = 9 ∨ m = 10 ∨ m = 11 := by omega
  rcases this with rfl | rfl | rfl | rfl | rfl | rfl | rfl | rfl | rfl | rfl | rfl
  all_goals (unfold daysFromCivil daysInMonth; simp only [Nat.reduceBEq, Nat.reduceLeDiff, Nat.reduceAdd, Nat.reduceMod, if_true, if_false, Bool.false_eq_true, Bool.or_self, Bool.or_false, Bool.or_true])
  case inr.inl =>
    -- February → March: the leap rule
    by_cases h : isLeap y = true
    · simp only [h, if_true]; have := hl.1 h; omega
    · have h' : isLeap y = false := by simpa using h
      simp only [h', Bool.false_eq_true, if_false]
      have : ¬ (y % 4 = 0 ∧ (y % 100 ≠ 0 ∨ y % 400 = 0)) := fun c => h (hl.2 c)
      omega
  all_goals omega

theorem days_succ_year (y : Nat) :
    daysFromCivil (y + 1) 1 1 = daysFromCivil y 12 31 + 1 := by
  unfold daysFromCivil
  simp only [Nat.reduceLeDiff, if_true, if_false, Nat.add_sub_cancel]
  omega

/-- recovering the year of the era from the day of the era (the core of days → civil), with the
    year written as `100 g + 4 q + t` -/
theorem yoe_recover (g q t doy : Nat) (hg : g < 4) (hq : q < 25) (ht : t < 4) (hd : doy < 366)
    (hleap : doy = 365 → t = 3 ∧ (q = 24 → g = 3)) :
    let doe := 36524 * g + 1461 * q + 365 * t + doy
    (doe - doe / 1460 + doe / 36524 - doe / 146096) / 365 = 100 * g + 4 * q + t ∧ doe < 146097 := by
  intro doe
  by_cases hlast : g = 3 ∧ q = 24 ∧ t = 3 ∧ doy = 365
  · obtain ⟨rfl, rfl, rfl, rfl⟩ := hlast
    decide
  · have hc : 1461 * q + 365 * t + doy < 36524 := by omega
    have h1 : doe / 36524 = g := by simp only [doe]; omega
    have h2 : doe / 146096 = 0 := by simp only [doe]; omega
    by_cases hδ : 24 * g + q + 365 * t + doy ≥ 1460
    · have h3 : doe / 1460 = 25 * g + q + 1 := by simp only [doe]; omega
      rw [h1, h2, h3]
      simp only [doe]
      omega
    · have h3 : doe / 1460 = 25 * g + q := by simp only [doe]; omega
      rw [h1, h2, h3]
      simp only [doe]
      omega

/-- the March-based day of the year and its inverse -/
theorem civil_of_era (y' doy : Nat) (hd : doy < 366)
    (hleap : doy = 365 → (y' + 1) % 4 = 0 ∧ ((y' + 1) % 100 ≠ 0 ∨ (y' + 1) % 400 = 0)) :
    let yoe := y' % 400
    let z := y' / 400 * 146097 + (yoe * 365 + yoe / 4 - yoe / 100 + doy)
    let doe := z % 146097
    let yoe2 := (doe - doe / 1460 + doe / 36524 - doe / 146096) / 365
    z / 146097 = y' / 400 ∧ yoe2 = yoe ∧ doe - (365 * yoe2 + yoe2 / 4 - yoe2 / 100) = doy := by
  intro yoe z doe yoe2
  have hyoe : yoe < 400 := Nat.mod_lt _ (by decide)
  have hrec := yoe_recover (yoe / 100) (yoe % 100 / 4) (yoe % 4) doy (by omega) (by omega) (by omega) hd
    (by intro h; have := hleap h; omega)
  simp only at hrec
  have hdoe : yoe * 365 + yoe / 4 - yoe / 100 + doy
      = 36524 * (yoe / 100) + 1461 * (yoe % 100 / 4) + 365 * (yoe % 4) + doy := by omega
  have hsum : 100 * (yoe / 100) + 4 * (yoe % 100 / 4) + yoe % 4 = yoe := by omega
  rw [← hdoe, hsum] at hrec
  obtain ⟨h1, h2⟩ := hrec
  have hz1 : z / 146097 = y' / 400 := by simp only [z]; omega
  have hz2 : doe = yoe * 365 + yoe / 4 - yoe / 100 + doy := by simp only [doe, z]; omega
  refine ⟨hz1, ?_, ?_⟩
  · simp only [yoe2]; rw [hz2]; exact h1
  · have : yoe2 = yoe := by simp only [yoe2]; rw [hz2]; exact h1
    rw [this, hz2]; omega

theorem civil_roundtrip (y m d : Nat) (h : validDate y m d = true) :
    civilFromDays (daysFromCivil y m d) = (y, m, d) := by
  rw [validDate_iff] at h
  obtain ⟨hy1, hy2, hm1, hm2, hd1, hd2⟩ := h
  have hl := isLeap_iff y
  have hdim : daysInMonth y m ≤ 31 := by unfold daysInMonth; split <;> (try split) <;> omega
  have key : ∀ (y' doy mp : Nat), doy < 366 →
      (doy = 365 → (y' + 1) % 4 = 0 ∧ ((y' + 1) % 100 ≠ 0 ∨ (y' + 1) % 400 = 0)) →
      (5 * doy + 2) / 153 = mp → doy - (153 * mp + 2) / 5 + 1 = d →
      (if mp < 10 then mp + 3 else mp - 9) = m → (if m ≤ 2 then y' + 1 else y') = y →
      daysFromCivil y m d = ((y' / 400 * 146097 + (y' % 400 * 365 + y' % 400 / 4 - y' % 400 / 100 + doy) : Nat) : Int) - 719468 →
      civilFromDays (daysFromCivil y m d) = (y, m, d) := by
    intro y' doy mp hdoy hleap hmp hdd hmm hyy hdfc
    obtain ⟨e1, e2, e3⟩ := civil_of_era y' doy hdoy hleap
    rw [hdfc]
    unfold civilFromDays
    simp only [Int.sub_add_cancel, Int.toNat_natCast]
    rw [e2] at e3
    rw [e1, e2, e3, hmp, hdd, hmm]
    have : y' % 400 + y' / 400 * 400 = y' := by omega
    rw [this, hyy]
  have hm : m = 1 ∨ m = 2 ∨ m = 3 ∨ m = 4 ∨ m = 5 ∨ m = 6 ∨ m = 7 ∨ m = 8 ∨ m = 9 ∨ m = 10 ∨ m = 11 ∨ m = 12 := by omega
  have hfeb : m = 2 → d ≤ 29 ∧ (d = 29 → (y % 4 = 0 ∧ (y % 100 ≠ 0 ∨ y % 400 = 0))) := by
    intro hm2
    subst hm2
    unfold daysInMonth at hd2
    simp only [beq_self_eq_true, if_true] at hd2
    by_cases hlp : isLeap y = true
    · simp only [hlp, if_true] at hd2; exact ⟨hd2, fun _ => hl.1 hlp⟩
    · have : isLeap y = false := by simpa using hlp
      simp only [this, Bool.false_eq_true, if_false] at hd2
      exact ⟨by omega, fun h29 => by omega⟩
  have h30 : (m = 4 ∨ m = 6 ∨ m = 9 ∨ m = 11) → d ≤ 30 := by
    intro hm4
    unfold daysInMonth at hd2
    rcases hm4 with rfl | rfl | rfl | rfl <;> simpa using hd2
  rcases hm with rfl | rfl | rfl | rfl | rfl | rfl | rfl | rfl | rfl | rfl | rfl | rfl
  · exact key (y - 1) (306 + d - 1) 10 (by omega) (by intro h; omega) (by omega) (by omega) (by decide) (by simp only [Nat.reduceLeDiff, ↓reduceIte] <;> omega)
      (by simp only [daysFromCivil, Nat.reduceLeDiff, ↓reduceIte, Nat.reduceAdd, Nat.reduceMod, Nat.reduceMul, Nat.reduceDiv] <;> omega)
  · have := hfeb rfl
    exact key (y - 1) (337 + d - 1) 11 (by omega) (by intro h; have := this.2 (by omega); omega) (by omega) (by omega) (by decide) (by simp only [Nat.reduceLeDiff, ↓reduceIte] <;> omega)
      (by simp only [daysFromCivil, Nat.reduceLeDiff, ↓reduceIte, Nat.reduceAdd, Nat.reduceMod, Nat.reduceMul, Nat.reduceDiv] <;> omega)
  · exact key y (0 + d - 1) 0 (by omega) (by intro h; omega) (by omega) (by omega) (by decide) (by simp only [Nat.reduceLeDiff, ↓reduceIte] <;> omega)
      (by simp only [daysFromCivil, Nat.reduceLeDiff, ↓reduceIte, Nat.reduceAdd, Nat.reduceMod, Nat.reduceMul, Nat.reduceDiv] <;> omega)
  · have := h30 (by omega)
    exact key y (31 + d - 1) 1 (by omega) (by intro h; omega) (by omega) (by omega) (by decide) (by simp only [Nat.reduceLeDiff, ↓reduceIte] <;> omega)
      (by simp only [daysFromCivil, Nat.reduceLeDiff, ↓reduceIte, Nat.reduceAdd, Nat.reduceMod, Nat.reduceMul, Nat.reduceDiv] <;> omega)
  · exact key y (61 + d - 1) 2 (by omega) (by intro h; omega) (by omega) (by omega) (by decide) (by simp only [Nat.reduceLeDiff, ↓reduceIte] <;> omega)
      (by simp only [daysFromCivil, Nat.reduceLeDiff, ↓reduceIte, Nat.reduceAdd, Nat.reduceMod, Nat.reduceMul, Nat.reduceDiv] <;> omega)
  · have := h30 (by omega)
    exact key y (92 + d - 1) 3 (by omega) (by intro h; omega) (by omega) (by omega) (by decide) (by simp only [Nat.reduceLeDiff, ↓reduceIte] <;> omega)
      (by simp only [daysFromCivil, Nat.reduceLeDiff, ↓reduceIte, Nat.reduceAdd, Nat.reduceMod, Nat.reduceMul, Nat.reduceDiv] <;> omega)
  · exact key y (122 + d - 1) 4 (by omega) (by intro h; omega) (by omega) (by omega) (by decide) (by simp only [Nat.reduceLeDiff, ↓reduceIte] <;> omega)
      (by simp only [daysFromCivil, Nat.reduceLeDiff, ↓reduceIte, Nat.reduceAdd, Nat.reduceMod, Nat.reduceMul, Nat.reduceDiv] <;> omega)
  · exact key y (153 + d - 1) 5 (by omega) (by intro h; omega) (by omega) (by omega) (by decide) (by simp only [Nat.reduceLeDiff, ↓reduceIte] <;> omega)
      (by simp only [daysFromCivil, Nat.reduceLeDiff, ↓reduceIte, Nat.reduceAdd, Nat.reduceMod, Nat.reduceMul, Nat.reduceDiv] <;> omega)
  · have := h30 (by omega)
    exact key y (184 + d - 1) 6 (by omega) (by intro h; omega) (by omega) (by omega) (by decide) (by simp only [Nat.reduceLeDiff, ↓reduceIte] <;> omega)
      (by simp only [daysFromCivil, Nat.reduceLeDiff, ↓reduceIte, Nat.reduceAdd, Nat.reduceMod, Nat.reduceMul, Nat.reduceDiv] <;> omega)
  · exact key y (214 + d - 1) 7 (by omega) (by intro h; omega) (by omega) (by omega) (by decide) (by simp only [Nat.reduceLeDiff, ↓reduceIte] <;> omega)
      (by simp only [daysFromCivil, Nat.reduceLeDiff, ↓reduceIte, Nat.reduceAdd, Nat.reduceMod, Nat.reduceMul, Nat.reduceDiv] <;> omega)
  · have := h30 (by omega)
    exact key y (245 + d - 1) 8 (by omega) (by intro h; omega) (by omega) (by omega) (by decide) (by simp only [Nat.reduceLeDiff, ↓reduceIte] <;> omega)
      (by simp only [daysFromCivil, Nat.reduceLeDiff, ↓reduceIte, Nat.reduceAdd, Nat.reduceMod, Nat.reduceMul, Nat.reduceDiv] <;> omega)
  · exact key y (275 + d - 1) 9 (by omega) (by intro h; omega) (by omega) (by omega) (by decide) (by simp only [Nat.reduceLeDiff, ↓reduceIte] <;> omega)
      (by simp only [daysFromCivil, Nat.reduceLeDiff, ↓reduceIte, Nat.reduceAdd, Nat.reduceMod, Nat.reduceMul, Nat.reduceDiv] <;> omega)


/-! ### maximal runs -/


theorem stops_nil (p : Char → Bool) : Stops p [] := by intro c r h; cases h
theorem stops_cons (p : Char → Bool) (c : Char) (r : Str) (h : p c = false) : Stops p (c :: r) := by
  intro c' r' e; cases e; exact h

theorem takeWhile_append_stop (p : Char → Bool) (tok rest : Str) (hall : ∀ c ∈ tok, p c = true)
    (hstop : Stops p rest) : (tok ++ rest).takeWhile p = tok := by
  induction tok with
  | nil =>
    cases rest with
    | nil => rfl
    | cons c r => simp [hstop c r rfl]
  | cons x xs ih =>
    simp only [List.cons_append, List.takeWhile, hall x (by simp)]
    rw [ih (fun c hc => hall c (by simp [hc]))]

theorem dropWhile_append_stop (p : Char → Bool) (tok rest : Str) (hall : ∀ c ∈ tok, p c = true)
    (hstop : Stops p rest) : (tok ++ rest).dropWhile p = rest := by
  induction tok with
  | nil =>
    cases rest with
    | nil => rfl
    | cons c r => simp [hstop c r rfl]
  | cons x xs ih =>
    simp only [List.cons_append, List.dropWhile, hall x (by simp)]
    rw [ih (fun c hc => hall c (by simp [hc]))]

theorem run1_append (p : Char → Bool) (tok rest : Str) (hne : tok ≠ [])
    (hall : ∀ c ∈ tok, p c = true) (hstop : Stops p rest) :
    run1 p (tok ++ rest) = some (tok, rest) := by
  unfold run1
  rw [takeWhile_append_stop p tok rest hall hstop, dropWhile_append_stop p tok rest hall hstop]
  cases tok with
  | nil => exact absurd rfl hne
  | cons x xs => rfl

theorem run1_space (rest : Str) (hstop : Stops isSpace rest) :
    run1 isSpace (' ' :: rest) = some ([' '], rest) :=
  run1_append isSpace [' '] rest (by simp) (by intro c hc; simp at hc; subst hc; decide) hstop

/-! ### digits -/

theorem digit_toNat : ∀ n, n < 10 → (Char.ofNat (48 + n)).toNat = 48 + n := by decide
theorem digit_isDigit : ∀ n, n < 10 → isDigit (Char.ofNat (48 + n)) = true := by decide
theorem digit_not_space : ∀ n, n < 10 → isSpace (Char.ofNat (48 + n)) = false := by decide

theorem digitChar_val (n : Nat) : (digitChar n).toNat - 48 = n % 10 := by
  unfold digitChar; rw [digit_toNat _ (Nat.mod_lt _ (by decide))]; omega
theorem digitChar_isDigit (n : Nat) : isDigit (digitChar n) = true :=
  digit_isDigit _ (Nat.mod_lt _ (by decide))

theorem natOfDigits_pad2 (n : Nat) (h : n < 100) : natOfDigits (pad2 n) = n := by
  simp only [natOfDigits, pad2, List.foldl, digitChar_val]; omega
theorem natOfDigits_pad4 (n : Nat) (h : n < 10000) : natOfDigits (pad4 n) = n := by
  simp only [natOfDigits, pad4, List.foldl, digitChar_val]; omega
theorem allDigits_pad2 (n : Nat) : allDigits (pad2 n) = true := by
  simp [allDigits, pad2, digitChar_isDigit]
theorem allDigits_pad4 (n : Nat) : allDigits (pad4 n) = true := by
  simp [allDigits, pad4, digitChar_isDigit]
theorem mem_pad2 (n : Nat) : ∀ c ∈ pad2 n, isDigit c = true := by
  intro c hc; simp only [pad2, List.mem_cons, List.not_mem_nil, or_false] at hc
  rcases hc with rfl | rfl <;> exact digitChar_isDigit _
theorem mem_pad4 (n : Nat) : ∀ c ∈ pad4 n, isDigit c = true := by
  intro c hc; simp only [pad4, List.mem_cons, List.not_mem_nil, or_false] at hc
  rcases hc with rfl | rfl | rfl | rfl <;> exact digitChar_isDigit _

theorem isDigit_props (c : Char) (h : isDigit c = true) :
    isSpace c = false ∧ isIntSpace c = false ∧ c ≠ '-' ∧ c ≠ '+' ∧ c ≠ '_' ∧ c ≠ ':' ∧ c ≠ '=' ∧ c ≠ ';'
      ∧ isWord c = true ∧ isDigitProp c = true := by
  have hv : 48 ≤ c.toNat ∧ c.toNat ≤ 57 := by simpa [isDigit] using h
  have hc : c = Char.ofNat c.toNat := (Char.ofNat_toNat c).symm
  have : ∀ n, n < 58 → 48 ≤ n → (isSpace (Char.ofNat n) = false ∧ isIntSpace (Char.ofNat n) = false ∧
      Char.ofNat n ≠ '-' ∧ Char.ofNat n ≠ '+' ∧ Char.ofNat n ≠ '_' ∧ Char.ofNat n ≠ ':' ∧
      Char.ofNat n ≠ '=' ∧ Char.ofNat n ≠ ';' ∧ isWord (Char.ofNat n) = true ∧
      isDigitProp (Char.ofNat n) = true) := by decide
  rw [hc]; exact this _ (by omega) hv.1

/-- `intBody` accepts a plain digit string -/
theorem intBody_digits (s : Str) (hne : s ≠ []) (h : ∀ c ∈ s, isDigit c = true) : intBody s = some s := by
  induction s with
  | nil => exact absurd rfl hne
  | cons c cs ih =>
    have hc := h c (by simp)
    cases cs with
    | nil => simp [intBody, hc]
    | cons d ds =>
      have hd := h d (by simp)
      have hd' : d ≠ '_' := (isDigit_props d hd).2.2.2.2.1
      simp only [intBody, hc, if_true, hd', if_false]
      rw [ih (by simp) (fun x hx => h x (by simp [hx]))]
      rfl

theorem dropWhile_head_false (p : Char → Bool) (c : Char) (r : Str) (h : p c = false) :
    (c :: r).dropWhile p = c :: r := by simp [List.dropWhile, h]

/-- `int()` of a plain digit string within the digit limit -/
theorem pyInt_digits (s : Str) (hne : s ≠ []) (h : ∀ c ∈ s, isDigit c = true)
    (hlen : s.length ≤ maxStrDigits) : pyInt s = some (natOfDigits s : Int) := by
  unfold pyInt
  obtain ⟨c, cs, rfl⟩ : ∃ c cs, s = c :: cs := by cases s with
    | nil => exact absurd rfl hne
    | cons c cs => exact ⟨c, cs, rfl⟩
  have hc := isDigit_props c (h c (by simp))
  rw [dropWhile_head_false _ c cs hc.2.1]
  -- the reversed string starts with a digit as well
  obtain ⟨l, ls, hrev⟩ : ∃ l ls, (c :: cs).reverse = l :: ls := by
    cases hr : (c :: cs).reverse with
    | nil => simp at hr
    | cons l ls => exact ⟨l, ls, rfl⟩
  have hl : isDigit l = true := h l (by
    have : l ∈ (c :: cs).reverse := by rw [hrev]; simp
    exact List.mem_reverse.1 this)
  rw [hrev, dropWhile_head_false _ l ls (isDigit_props l hl).2.1, ← hrev, List.reverse_reverse]
  have hm : splitSign (c :: cs) = (false, c :: cs) := by
    unfold splitSign
    split
    · rename_i heq; simp only [List.cons.injEq] at heq; exact absurd heq.1 hc.2.2.1
    · rename_i heq; simp only [List.cons.injEq] at heq; exact absurd heq.1 hc.2.2.2.1
    · rfl
  simp only [hm, intBody_digits _ hne h]
  have : ¬ (c :: cs).length > maxStrDigits := by omega
  rw [if_neg this]
  rfl

/-! ### strip -/

theorem strip_eq_self (s : Str) (h1 : Stops isSpace s) (h2 : Stops isSpace s.reverse) : strip s = s := by
  unfold strip lstrip rstrip
  have e1 : s.dropWhile isSpace = s := by
    cases s with
    | nil => rfl
    | cons c r => exact dropWhile_head_false _ c r (h1 c r rfl)
  rw [e1]
  have e2 : s.reverse.dropWhile isSpace = s.reverse := by
    cases hr : s.reverse with
    | nil => rfl
    | cons c r => exact dropWhile_head_false _ c r (h2 c r hr)
  rw [e2, List.reverse_reverse]


theorem strip_stripped (s : Str) (h : Stripped s) : strip s = s := strip_eq_self s h.1 h.2

theorem strip_space_cons (s : Str) (h : Stripped s) : strip (' ' :: s) = s := by
  unfold strip lstrip
  have : (' ' :: s).dropWhile isSpace = s.dropWhile isSpace := by
    simp [List.dropWhile, show isSpace ' ' = true by decide]
  rw [this]
  exact strip_eq_self s h.1 h.2


/-! ### MLSD -/

theorem pyInt_pad2 (n : Nat) (h : n < 100) : pyInt (pad2 n) = some (n : Int) := by
  rw [pyInt_digits _ (by simp [pad2]) (mem_pad2 n) (by simp [pad2, maxStrDigits]), natOfDigits_pad2 n h]
theorem pyInt_pad4 (n : Nat) (h : n < 10000) : pyInt (pad4 n) = some (n : Int) := by
  rw [pyInt_digits _ (by simp [pad4]) (mem_pad4 n) (by simp [pad4, maxStrDigits]), natOfDigits_pad4 n h]

theorem days_from_first (y m d : Nat) (hd : 1 ≤ d) :
    daysFromCivil y m 1 + (d : Int) - 1 = daysFromCivil y m d := by
  unfold daysFromCivil
  simp only
  omega

/-- `_parse_ftp_time` on a well-formed `YYYYMMDDHHMMSS[.fraction]` -/
theorem ftp_time_roundtrip_core (y m d h mi s : Nat) (frac : Str)
    (hy : 1 ≤ y ∧ y ≤ 9999) (hm : 1 ≤ m ∧ m ≤ 12) (hd : 1 ≤ d ∧ d < 100) (hh : h < 100) (hmi : mi < 100)
    (hs : s < 100) :
    parseFtpTime (stamp y m d h mi s ++ frac) = .ok (some (epochOf y m d h mi s)) := by
  unfold parseFtpTime
  have e1 : (stamp y m d h mi s ++ frac).take 4 = pad4 y := by simp [stamp, pad4, pad2]
  have e2 : ((stamp y m d h mi s ++ frac).drop 4).take 2 = pad2 m := by simp [stamp, pad4, pad2]
  have e3 : ((stamp y m d h mi s ++ frac).drop 6).take 2 = pad2 d := by simp [stamp, pad4, pad2]
  have e4 : ((stamp y m d h mi s ++ frac).drop 8).take 2 = pad2 h := by simp [stamp, pad4, pad2]
  have e5 : ((stamp y m d h mi s ++ frac).drop 10).take 2 = pad2 mi := by simp [stamp, pad4, pad2]
  have e6 : ((stamp y m d h mi s ++ frac).drop 12).take 2 = pad2 s := by simp [stamp, pad4, pad2]
  rw [e1, e2, e3, e4, e5, e6, pyInt_pad4 y (by omega), pyInt_pad2 m (by omega), pyInt_pad2 d (by omega),
    pyInt_pad2 h hh, pyInt_pad2 mi hmi, pyInt_pad2 s hs]
  simp only
  unfold timegm
  have hc : (1 : Int) ≤ (y : Int) ∧ (y : Int) ≤ 9999 ∧ (1 : Int) ≤ (m : Int) ∧ (m : Int) ≤ 12 := by omega
  rw [if_pos hc]
  simp only [Int.toNat_natCast]
  rw [days_from_first y m d hd.1]
  unfold epochOf
  congr 2
  omega

/-- the facts part of a rendered line: `k1=v1;k2=v2;…;` -/
def factsText (facts : List (Str × Str)) : Str :=
  facts.flatMap (fun kv => kv.1 ++ '=' :: kv.2 ++ [';'])

theorem renderMlsd_eq (facts : List (Str × Str)) (name : Str) :
    renderMlsd facts name = factsText facts ++ ' ' :: name := rfl

theorem factsText_cons (kv : Str × Str) (rest : List (Str × Str)) :
    factsText (kv :: rest) = factStr kv ++ ';' :: factsText rest := by
  simp [factsText, factStr, List.append_assoc]

theorem factsText_no_space (facts : List (Str × Str)) (hf : ∀ kv ∈ facts, WFFact kv) :
    ' ' ∉ factsText facts := by
  induction facts with
  | nil => simp [factsText]
  | cons kv rest ih =>
    have hw := hf kv (by simp)
    rw [factsText_cons]
    unfold factStr
    simp only [List.mem_append, List.mem_cons, not_or]
    exact ⟨⟨hw.k_sp, by decide, hw.v_sp⟩, by decide, ih (fun kv' h => hf kv' (by simp [h]))⟩

theorem factsText_ends (facts : List (Str × Str)) (hne : facts ≠ []) :
    ∃ a, factsText facts = a ++ [';'] := by
  induction facts with
  | nil => exact absurd rfl hne
  | cons kv rest ih =>
    rw [factsText_cons]
    cases rest with
    | nil => exact ⟨factStr kv, by simp [factsText]⟩
    | cons kv' rest' =>
      obtain ⟨a, ha⟩ := ih (by simp)
      exact ⟨factStr kv ++ ';' :: a, by rw [ha]; simp⟩

theorem endsWithSemi_snoc (a : Str) : endsWithSemi (a ++ [';']) = true := by
  simp [endsWithSemi]

/-- a rendered line always has a facts part (possibly the empty one) -/
theorem noFactsPart_render (facts : List (Str × Str)) (name : Str) (hf : ∀ kv ∈ facts, WFFact kv) :
    noFactsPart (renderMlsd facts name) = false := by
  unfold noFactsPart
  rw [renderMlsd_eq, partition_append_sep _ _ _ (factsText_no_space facts hf)]
  simp only [Bool.not_true, Bool.false_or, Bool.and_eq_false_imp, Bool.not_eq_eq_eq_not,
    Bool.not_true, Bool.not_false]
  cases facts with
  | nil => simp [factsText]
  | cons kv rest =>
    obtain ⟨a, ha⟩ := factsText_ends (kv :: rest) (by simp)
    intro _
    rw [ha, endsWithSemi_snoc]

theorem splitOn_factsText (facts : List (Str × Str)) (hf : ∀ kv ∈ facts, WFFact kv) :
    splitOn ';' (factsText facts) = facts.map factStr ++ [[]] := by
  induction facts with
  | nil => rfl
  | cons kv rest ih =>
    have hw := hf kv (by simp)
    rw [factsText_cons, PathLemmas.splitOn_append_sep ';' _ _ (by
      unfold factStr; simp only [List.mem_append, List.mem_cons, not_or]
      exact ⟨hw.k_semi, by decide, hw.v_semi⟩)]
    rw [ih (fun kv' h => hf kv' (by simp [h]))]
    simp

theorem factStep_fact (d : List (Str × Str)) (kv : Str × Str) (hw : WFFact kv) :
    factStep d (factStr kv) = dictSet (lower kv.1) kv.2 d := by
  unfold factStep factStr
  simp only
  rw [partition_append_sep _ _ _ hw.k_eq]
  simp only [if_true, strip_stripped _ hw.k_strip, strip_stripped _ hw.v_strip]

theorem factStep_nil (d : List (Str × Str)) : factStep d [] = d := by
  simp [factStep, partition]

theorem foldl_factStep (facts : List (Str × Str)) (d : List (Str × Str))
    (hf : ∀ kv ∈ facts, WFFact kv)
    (hnd : ((d.map Prod.fst) ++ facts.map (fun kv => lower kv.1)).Nodup) :
    (facts.map factStr).foldl factStep d = d ++ facts.map (fun kv => (lower kv.1, kv.2)) := by
  induction facts generalizing d with
  | nil => simp
  | cons kv rest ih =>
    simp only [List.map_cons, List.foldl_cons]
    rw [factStep_fact d kv (hf kv (by simp))]
    have hnew : lower kv.1 ∉ d.map Prod.fst := by
      have := (List.nodup_append.1 hnd).2.2
      intro hm
      exact this _ hm _ (by simp) rfl
    rw [dictSet_new _ _ _ hnew]
    rw [ih _ (fun kv' h => hf kv' (by simp [h])) (by
      simp only [List.map_append, List.map_cons, List.map_nil, List.append_assoc, List.cons_append,
        List.nil_append]
      simpa using hnd)]
    simp

/-- a name without `/`, not empty, not `.` / `..` is its own `pathName` -/
theorem pathName_wf (name : Str) (hn : WFName name) : pathName name = some name := by
  unfold pathName
  have h1 : name ≠ ['/'] := fun h => hn.slash (by rw [h]; simp)
  have hb : basename (rstripSlash name) = name := by
    rw [PathLemmas.rstripSlash_of_not_ends _ (PathLemmas.endsWithSlash_of_not_mem _ hn.slash)]
    unfold basename split
    rw [PathLemmas.rsplit1_none _ _ hn.slash]
  simp only [h1, hn.ne, or_self, if_false, hb, Option.some.injEq, hn.dot, hn.dotdot]

theorem rsplit1_go_spec (c : Char) (xs acc : Str) (hacc : c ∉ acc) :
    match rsplit1.go c xs acc with
    | none => c ∉ xs
    | some ht => c ∉ ht.2 ∧ ht.2.length ≤ xs.length + acc.length := by
  induction xs generalizing acc with
  | nil => simp [rsplit1.go]
  | cons x xs ih =>
    by_cases hx : x = c
    · simp [rsplit1.go, hx, hacc]
    · have hacc' : c ∉ x :: acc := by
        simp only [List.mem_cons, not_or]; exact ⟨fun e => hx e.symm, hacc⟩
      have := ih (x :: acc) hacc'
      simp only [rsplit1.go, hx, if_false]
      split
      · rename_i hnone; rw [hnone] at this
        simp only [List.mem_cons, not_or]; exact ⟨fun e => hx e.symm, this⟩
      · rename_i ht hsome; rw [hsome] at this
        refine ⟨this.1, ?_⟩
        have := this.2
        simp only [List.length_cons] at this ⊢
        omega

/-- `basename` is what follows the last `/`: it contains none -/
theorem basename_no_slash (s : Str) : '/' ∉ basename s := by
  have h := rsplit1_go_spec '/' s.reverse [] (by simp)
  unfold basename split rsplit1
  split
  · rename_i hnone
    rw [hnone] at h
    simpa using h
  · rename_i hd tl hsome
    rw [hsome] at h
    exact h.1

theorem basename_length_le (s : Str) : (basename s).length ≤ s.length := by
  have h := rsplit1_go_spec '/' s.reverse [] (by simp)
  unfold basename split rsplit1
  split
  · exact Nat.le_refl _
  · rename_i hd tl hsome
    rw [hsome] at h
    simpa using h.2

theorem lstripSlash_length_le (s : Str) : (lstripSlash s).length ≤ s.length := by
  induction s with
  | nil => exact Nat.le_refl _
  | cons c cs ih =>
    unfold lstripSlash
    split
    · simp only [List.length_cons]; omega
    · exact Nat.le_refl _

theorem rstripSlash_length_le (s : Str) : (rstripSlash s).length ≤ s.length := by
  unfold rstripSlash
  have := lstripSlash_length_le s.reverse
  simpa using this

theorem rstripEol_length_le (s : Str) : (rstripEol s).length ≤ s.length := by
  unfold rstripEol
  have := (List.dropWhile_suffix (l := s.reverse) isEol).length_le
  simpa using this

/-- `rstrip("\r\n")` leaves exactly the texts that do not end with CR / LF alone -/
theorem noEol_of_rstripEol (s : Str) (h : (rstripEol s).length = s.length) : NoEol s := by
  unfold rstripEol at h
  simp only [List.length_reverse] at h
  intro c r hcr
  have hl : s.length = r.length + 1 := by
    have := congrArg List.length hcr
    simpa using this
  rw [hcr] at h
  cases hc : isEol c with
  | false => rfl
  | true =>
    exfalso
    simp only [List.dropWhile, hc] at h
    have := (List.dropWhile_suffix (l := r) isEol).length_le
    omega

/-- whenever an entry has a name, it is the last component of the pathname without its trailing
    slashes — nothing else is done to it -/
theorem pathName_some (p n : Str) (h : pathName p = some n) : n = basename (rstripSlash p) := by
  unfold pathName at h
  by_cases h1 : p = [] ∨ p = ['/']
  · simp [h1] at h
  · by_cases hb : basename (rstripSlash p) = []
    · simp [h1, hb] at h
    · simp only [h1, hb, if_false] at h
      split at h
      · cases h
      · exact (Option.some.inj h).symm

/-- **exactness of `WFName`**: a pathname comes back as the name, unchanged, iff it is `WFName` -/
theorem pathName_self_iff (name : Str) : pathName name = some name ↔ WFName name := by
  constructor
  · intro h
    have hb := pathName_some _ _ h
    have hsl : '/' ∉ name := by rw [hb]; exact basename_no_slash _
    refine ⟨?_, hsl, ?_, ?_⟩
    · intro e; subst e; exact absurd h (by decide)
    · intro e; subst e; exact absurd h (by decide)
    · intro e; subst e; exact absurd h (by decide)
  · exact pathName_wf name

/-- **`_parse_facts` on any rendered line**: the facts come back, and the name is `pathName` of
    *everything* behind the first space -/
theorem parseFacts_render_any (facts : List (Str × Str)) (name : Str) (hf : ∀ kv ∈ facts, WFFact kv)
    (hnd : (facts.map (fun kv => lower kv.1)).Nodup) :
    parseFacts (renderMlsd facts name) = (pathName name, facts.map (fun kv => (lower kv.1, kv.2))) := by
  unfold parseFacts
  simp only [noFactsPart_render facts name hf, Bool.false_eq_true, if_false]
  rw [renderMlsd_eq, partition_append_sep _ _ _ (factsText_no_space facts hf)]
  simp only
  rw [splitOn_factsText facts hf, List.foldl_append, foldl_factStep facts [] hf (by simpa using hnd)]
  simp [factStep_nil]

theorem parseFacts_render (facts : List (Str × Str)) (name : Str) (hf : ∀ kv ∈ facts, WFFact kv)
    (hn : WFName name) (hnd : (facts.map (fun kv => lower kv.1)).Nodup) :
    parseFacts (renderMlsd facts name) = (some name, facts.map (fun kv => (lower kv.1, kv.2))) := by
  rw [parseFacts_render_any facts name hf hnd, pathName_wf name hn]

/-- a text without a facts part is a pathname -/
theorem parseFacts_noFacts (l : Str) (h : noFactsPart l = true) : parseFacts l = (pathName l, []) := by
  unfold parseFacts
  simp only [h, if_true]
  simp [splitOn, factStep_nil]

theorem dropWhile_append_cons (p : Char → Bool) (a : Str) (x : Char) (r : Str) (hx : p x = false) :
    (a ++ x :: r).dropWhile p = a.dropWhile p ++ x :: r := by
  induction a with
  | nil => simp [List.dropWhile, hx]
  | cons c cs ih =>
    by_cases hc : p c = true
    · simp [List.dropWhile, hc, ih]
    · simp [List.dropWhile, hc]

theorem rstripEol_append_space (a n : Str) : rstripEol (a ++ ' ' :: n) = a ++ ' ' :: rstripEol n := by
  unfold rstripEol
  simp only [List.reverse_append, List.reverse_cons, List.append_assoc, List.singleton_append]
  rw [dropWhile_append_cons isEol n.reverse ' ' a.reverse (by decide)]
  simp

theorem rstripEol_render (facts : List (Str × Str)) (name : Str) :
    rstripEol (renderMlsd facts name) = renderMlsd facts (rstripEol name) := by
  rw [renderMlsd_eq, renderMlsd_eq, rstripEol_append_space]

theorem rstripEol_noEol (s : Str) (h : NoEol s) : rstripEol s = s := by
  unfold rstripEol
  have e : s.reverse.dropWhile isEol = s.reverse := by
    cases hr : s.reverse with
    | nil => rfl
    | cons c r => exact dropWhile_head_false _ c r (h c r hr)
  rw [e, List.reverse_reverse]

theorem dropLeadSpace_cons_ne (c : Char) (r : Str) (h : c ≠ ' ') : dropLeadSpace (c :: r) = c :: r := by
  unfold dropLeadSpace
  split
  · rename_i heq; cases heq; exact absurd rfl h
  · rfl

theorem dropLeadSpace_of_stops (l : Str) (h : Stops (fun c => c == ' ') l) : dropLeadSpace l = l := by
  cases l with
  | nil => rfl
  | cons c r =>
    apply dropLeadSpace_cons_ne
    intro e
    have := h c r rfl
    simp [e] at this

/-- a rendered line with at least one fact does not start with a space -/
theorem render_head (facts : List (Str × Str)) (name : Str) (hf : ∀ kv ∈ facts, WFFact kv)
    (hne : facts ≠ []) : Stops (fun c => c == ' ') (renderMlsd facts name) := by
  cases facts with
  | nil => exact absurd rfl hne
  | cons kv rest =>
    have hw := hf kv (by simp)
    rw [renderMlsd_eq, factsText_cons]
    unfold factStr
    cases hk : kv.1 with
    | nil => simp only [List.nil_append, List.cons_append]; exact stops_cons _ _ _ (by decide)
    | cons c r =>
      simp only [List.cons_append]
      apply stops_cons
      have : c ≠ ' ' := by
        intro e; apply hw.k_sp; rw [hk, e]; simp
      simpa using this

/-- what `_parse_mlsx` hands to `_parse_facts` for a rendered line, and what comes back -/
theorem parseFacts_line (facts : List (Str × Str)) (name : Str) (hf : ∀ kv ∈ facts, WFFact kv)
    (hne : facts ≠ []) (hnd : (facts.map (fun kv => lower kv.1)).Nodup) :
    parseFacts (dropLeadSpace (rstripEol (renderMlsd facts name))) =
      (pathName (rstripEol name), facts.map (fun kv => (lower kv.1, kv.2))) := by
  rw [rstripEol_render, dropLeadSpace_of_stops _ (render_head facts _ hf hne),
    parseFacts_render_any facts _ hf hnd]

/-- the MLST reply form (one leading space) reads like the MLSD form -/
theorem parseMlsxLine_lead_space (l : Str) (h : Stops (fun c => c == ' ') l) :
    parseMlsxLine (' ' :: l) = parseMlsxLine l := by
  have e1 : rstripEol (' ' :: l) = ' ' :: rstripEol l := rstripEol_append_space [] l
  have e2 : dropLeadSpace (rstripEol l) = rstripEol l := by
    apply dropLeadSpace_of_stops
    unfold rstripEol
    intro c r hcr
    -- the first character of a prefix of `l` is the first character of `l`
    have hpre : (l.reverse.dropWhile isEol).reverse <+: l := by
      have := List.dropWhile_suffix (l := l.reverse) isEol
      simpa using List.reverse_prefix.2 this
    rw [hcr] at hpre
    obtain ⟨t, ht⟩ := hpre
    exact h c (r ++ t) (by rw [← ht]; simp)
  unfold parseMlsxLine
  rw [e1, e2]
  rfl

theorem mlsdSize_digits (F : List (Str × Str)) (sz : Str)
    (hsz : (dictGet kSize F).getD ((dictGet kSizd F).getD ['0']) = sz)
    (hne : sz ≠ []) (hd : ∀ c ∈ sz, isDigit c = true) (hlen : sz.length ≤ maxStrDigits) :
    mlsdSize F = .ok (natOfDigits sz) := by
  unfold mlsdSize
  simp only [hsz]
  have hall : sz.all isDigitProp = true := by
    rw [List.all_eq_true]; intro c hc; exact (isDigit_props c (hd c hc)).2.2.2.2.2.2.2.2.2
  rw [if_pos ⟨hne, hall⟩, pyInt_digits sz hne hd hlen]
  simp

theorem mlsdTime_absent (F : List (Str × Str)) (k : Str) (h : dictGet k F = none) :
    mlsdTime F k = .ok none := by
  unfold mlsdTime; rw [h]

theorem mlsdTime_stamp (F : List (Str × Str)) (k : Str) (y m d h mi s : Nat) (frac : Str)
    (hk : dictGet k F = some (stamp y m d h mi s ++ frac))
    (hy : 1 ≤ y ∧ y ≤ 9999) (hm : 1 ≤ m ∧ m ≤ 12) (hd : 1 ≤ d ∧ d < 100) (hh : h < 100) (hmi : mi < 100)
    (hs : s < 100) :
    mlsdTime F k = .ok (some (some (epochOf y m d h mi s))) := by
  unfold mlsdTime
  rw [hk]
  simp only
  rw [ftp_time_roundtrip_core y m d h mi s frac hy hm hd hh hmi hs]

theorem mlsd_roundtrip_core (facts : List (Str × Str)) (name : Str)
    (hf : ∀ kv ∈ facts, WFFact kv) (hne : facts ≠ []) (hn : WFName name) (heol : NoEol name)
    (hnd : (facts.map (fun kv => lower kv.1)).Nodup)
    (ty : Str) (hty : (dictGet kType (facts.map (fun kv => (lower kv.1, kv.2)))).getD kFile = ty)
    (htyok : ty = kDir ∨ ty = kFile)
    (sz : Nat) (hsz : mlsdSize (facts.map (fun kv => (lower kv.1, kv.2))) = .ok sz)
    (mo cr : Option (Option Int))
    (hmo : mlsdTime (facts.map (fun kv => (lower kv.1, kv.2))) kModify = .ok mo)
    (hcr : mlsdTime (facts.map (fun kv => (lower kv.1, kv.2))) kCreate = .ok cr) :
    parseMlsxLine (renderMlsd facts name) =
      .ok (some ⟨name, ty = kDir, facts.map (fun kv => (lower kv.1, kv.2)), sz, mo, cr⟩) := by
  unfold parseMlsxLine
  simp only [parseFacts_line facts name hf hne hnd, rstripEol_noEol name heol, pathName_wf name hn,
    hty, hsz, hmo, hcr]
  have : ¬ (ty ≠ kDir ∧ ty ≠ kFile) := by
    rcases htyok with h | h <;> simp [h]
  rw [if_neg this]

/-- a line whose type is neither `dir` nor `file` (cdir, pdir, OS.unix=slink…) is skipped, whatever
    its name -/
theorem mlsd_other_skipped (facts : List (Str × Str)) (name : Str)
    (hf : ∀ kv ∈ facts, WFFact kv)
    (hnd : (facts.map (fun kv => lower kv.1)).Nodup)
    (ty : Str) (hty : dictGet kType (facts.map (fun kv => (lower kv.1, kv.2))) = some ty)
    (h1 : ty ≠ kDir) (h2 : ty ≠ kFile) :
    parseMlsxLine (renderMlsd facts name) = .ok none := by
  have hne : facts ≠ [] := by intro e; subst e; simp [dictGet] at hty
  unfold parseMlsxLine
  simp only [parseFacts_line facts name hf hne hnd]
  cases pathName (rstripEol name) with
  | none => rfl
  | some n =>
    simp only [hty, Option.getD_some]
    rw [if_pos ⟨h1, h2⟩]

/-- the name of a listed entry is the last component of the text behind `facts; SP`, minus the
    line terminator and trailing slashes — and nothing else; its facts are the line's facts -/
theorem mlsd_name_core (facts : List (Str × Str)) (name : Str)
    (hf : ∀ kv ∈ facts, WFFact kv) (hne : facts ≠ [])
    (hnd : (facts.map (fun kv => lower kv.1)).Nodup)
    (info : MlsdInfo) (h : parseMlsxLine (renderMlsd facts name) = .ok (some info)) :
    pathName (rstripEol name) = some info.name ∧
      info.facts = facts.map (fun kv => (lower kv.1, kv.2)) := by
  unfold parseMlsxLine at h
  simp only [parseFacts_line facts name hf hne hnd] at h
  cases hp : pathName (rstripEol name) with
  | none => rw [hp] at h; cases h
  | some n =>
    rw [hp] at h
    simp only at h
    split at h
    · cases h
    · split at h
      · cases h
      · split at h
        · cases h
        · split at h
          · cases h
          · simp only [Res.ok.injEq, Option.some.injEq] at h
            subst h
            exact ⟨rfl, rfl⟩

/-- **exactness**: an entry comes back under the very name the line states only if that name is
    `WFName` and does not end with CR / LF -/
theorem mlsd_name_exact_core (facts : List (Str × Str)) (name : Str)
    (hf : ∀ kv ∈ facts, WFFact kv) (hne : facts ≠ [])
    (hnd : (facts.map (fun kv => lower kv.1)).Nodup)
    (info : MlsdInfo) (h : parseMlsxLine (renderMlsd facts name) = .ok (some info))
    (hname : info.name = name) : WFName name ∧ NoEol name := by
  have hp := (mlsd_name_core facts name hf hne hnd info h).1
  rw [hname] at hp
  have hb := pathName_some _ _ hp
  have h1 := basename_length_le (rstripSlash (rstripEol name))
  have h2 := rstripSlash_length_le (rstripEol name)
  have h3 := rstripEol_length_le name
  have hlen : (rstripEol name).length = name.length := by
    have : name.length = (basename (rstripSlash (rstripEol name))).length := congrArg List.length hb
    omega
  have heol := noEol_of_rstripEol name hlen
  rw [rstripEol_noEol name heol] at hp
  exact ⟨(pathName_self_iff name).1 hp, heol⟩

/-- a line without facts: ` name` (or just `name`) is a file of that name -/
theorem mlsd_nofacts_core (name : Str) (hn : WFName name) (heol : NoEol name)
    (hnf : noFactsPart name = true) :
    parseMlsxLine (' ' :: name) = .ok (some ⟨name, false, [], 0, none, none⟩) ∧
    parseMlsxLine name = .ok (some ⟨name, false, [], 0, none, none⟩) := by
  have hst : Stops (fun c => c == ' ') name := by
    intro c r hcr
    subst hcr
    by_cases hc : c = ' '
    · subst hc; simp [noFactsPart, partition] at hnf
    · simpa using hc
  have h2 : parseMlsxLine name = .ok (some ⟨name, false, [], 0, none, none⟩) := by
    unfold parseMlsxLine
    simp only [rstripEol_noEol name heol, dropLeadSpace_of_stops name hst, parseFacts_noFacts name hnf,
      pathName_wf name hn]
    have hty : ¬ ((dictGet kType []).getD kFile ≠ kDir ∧ (dictGet kType []).getD kFile ≠ kFile) := by decide
    have hs : mlsdSize [] = .ok 0 := by decide
    have hm : ∀ k, mlsdTime [] k = .ok none := fun _ => rfl
    rw [if_neg hty]
    simp only [hs, hm]
    rfl
  exact ⟨by rw [parseMlsxLine_lead_space name hst]; exact h2, h2⟩

/-! ### strptime pieces -/

theorem field12_pad2 (lo1 lo2 hi2 n : Nat) (h1 : lo2 ≤ n) (h2 : n ≤ hi2) (h100 : n < 100) :
    field12 lo1 lo2 hi2 (pad2 n) = some n := by
  unfold field12
  rw [allDigits_pad2, natOfDigits_pad2 n h100]
  simp [pad2, h1, h2]

theorem wsTokGo_run (cur a rest : Str) (ha : ∀ c ∈ a, isSpace c = false) :
    wsTokGo cur false (a ++ rest) = wsTokGo (a.reverse ++ cur) false rest := by
  induction a generalizing cur with
  | nil => rfl
  | cons x xs ih =>
    simp only [List.cons_append, wsTokGo, ha x (by simp), Bool.false_eq_true, if_false]
    rw [ih _ (fun c hc => ha c (by simp [hc]))]
    simp

theorem wsTokGo_end (cur a : Str) (ha : ∀ c ∈ a, isSpace c = false) :
    wsTokGo cur false a = some [cur.reverse ++ a] := by
  have := wsTokGo_run cur a [] ha
  rw [List.append_nil] at this
  rw [this]
  simp [wsTokGo]

theorem wsTokGo_sep (cur a : Str) (x : Char) (xs : Str) (ha : ∀ c ∈ a, isSpace c = false)
    (hx : isSpace x = false) :
    wsTokGo cur false (a ++ ' ' :: x :: xs) = (wsTokGo [x] false xs).map ((cur.reverse ++ a) :: ·) := by
  rw [wsTokGo_run cur a _ ha]
  simp [wsTokGo, show isSpace ' ' = true by decide, hx]

/-- two white-space-free tokens separated by one space -/
theorem wsTokens_two (a b : Str) (ha : ∀ c ∈ a, isSpace c = false) (hb : ∀ c ∈ b, isSpace c = false)
    (hane : a ≠ []) (hbne : b ≠ []) : wsTokens (a ++ ' ' :: b) = some [a, b] := by
  obtain ⟨a0, as, rfl⟩ : ∃ a0 as, a = a0 :: as := by cases a with
    | nil => exact absurd rfl hane
    | cons c cs => exact ⟨c, cs, rfl⟩
  obtain ⟨b0, bs, rfl⟩ : ∃ b0 bs, b = b0 :: bs := by cases b with
    | nil => exact absurd rfl hbne
    | cons c cs => exact ⟨c, cs, rfl⟩
  simp only [List.cons_append, wsTokens, ha a0 (by simp), Bool.false_eq_true, if_false]
  rw [wsTokGo_sep [a0] as b0 bs (fun c hc => ha c (by simp [hc])) (hb b0 (by simp)),
    wsTokGo_end [b0] bs (fun c hc => hb c (by simp [hc]))]
  simp

theorem wsTokens_three (a b c : Str) (ha : ∀ x ∈ a, isSpace x = false) (hb : ∀ x ∈ b, isSpace x = false)
    (hc : ∀ x ∈ c, isSpace x = false) (hane : a ≠ []) (hbne : b ≠ []) (hcne : c ≠ []) :
    wsTokens (a ++ ' ' :: (b ++ ' ' :: c)) = some [a, b, c] := by
  obtain ⟨a0, as, rfl⟩ : ∃ a0 as, a = a0 :: as := by cases a with
    | nil => exact absurd rfl hane
    | cons c cs => exact ⟨c, cs, rfl⟩
  obtain ⟨b0, bs, rfl⟩ : ∃ b0 bs, b = b0 :: bs := by cases b with
    | nil => exact absurd rfl hbne
    | cons c cs => exact ⟨c, cs, rfl⟩
  obtain ⟨c0, cs, rfl⟩ : ∃ c0 cs, c = c0 :: cs := by cases c with
    | nil => exact absurd rfl hcne
    | cons c cs => exact ⟨c, cs, rfl⟩
  simp only [List.cons_append, wsTokens, ha a0 (by simp), Bool.false_eq_true, if_false]
  rw [wsTokGo_sep [a0] as b0 _ (fun c hc => ha c (by simp [hc])) (hb b0 (by simp)),
    wsTokGo_sep [b0] bs c0 cs (fun c hc => hb c (by simp [hc])) (hc c0 (by simp)),
    wsTokGo_end [c0] cs (fun x hx => hc x (by simp [hx]))]
  simp

theorem digit_nonspace (c : Char) (h : isDigit c = true) : isSpace c = false := (isDigit_props c h).1

theorem pad2_nonspace (n : Nat) : ∀ c ∈ pad2 n, isSpace c = false :=
  fun c hc => digit_nonspace c (mem_pad2 n c hc)
theorem pad2_not_mem (n : Nat) (x : Char) (hx : isDigit x = false) : x ∉ pad2 n := by
  intro h; have := mem_pad2 n x h; rw [hx] at this; cases this
theorem pad4_not_mem (n : Nat) (x : Char) (hx : isDigit x = false) : x ∉ pad4 n := by
  intro h; have := mem_pad4 n x h; rw [hx] at this; cases this

theorem dmy_ntDate (e : NtEntry) (hd : 1 ≤ e.day ∧ e.day ≤ 31) (hm : 1 ≤ e.month ∧ e.month ≤ 12)
    (hy : e.yy < 100) : dmy (ntDate e) = some (fullYear e.yy, e.month, e.day) := by
  unfold dmy ntDate
  have hdash : ∀ n, '-' ∉ pad2 n := fun n => pad2_not_mem n '-' (by decide)
  have : pad2 e.day ++ '-' :: pad2 e.month ++ '-' :: pad2 e.yy
      = pad2 e.day ++ '-' :: (pad2 e.month ++ '-' :: pad2 e.yy) := by simp
  rw [this, PathLemmas.splitOn_append_sep _ _ _ (hdash _), PathLemmas.splitOn_append_sep _ _ _ (hdash _),
    PathLemmas.splitOn_of_not_mem _ _ (hdash _)]
  simp only
  rw [show dayField (pad2 e.day) = some e.day from field12_pad2 _ _ _ _ hd.1 hd.2 (by omega),
    show monField (pad2 e.month) = some e.month from field12_pad2 _ _ _ _ hm.1 hm.2 (by omega)]
  simp only [allDigits_pad2, natOfDigits_pad2 _ hy]
  simp [pad2, fullYear]

theorem ntDate_nonspace (e : NtEntry) : ∀ c ∈ ntDate e, isSpace c = false := by
  intro c hc
  simp only [ntDate, List.mem_append, List.mem_cons] at hc
  rcases hc with (h | rfl | h) | rfl | h
  · exact pad2_nonspace _ c h
  · decide
  · exact pad2_nonspace _ c h
  · decide
  · exact pad2_nonspace _ c h

theorem ntClock_nonspace (e : NtEntry) : ∀ c ∈ ntClock e, isSpace c = false := by
  intro c hc
  unfold ntClock at hc
  split at hc
  · simp only [List.mem_append, List.mem_cons] at hc
    rcases hc with (h | rfl | h) | h
    · exact pad2_nonspace _ c h
    · decide
    · exact pad2_nonspace _ c h
    · split at h <;> (simp only [List.mem_cons, List.not_mem_nil, or_false] at h; rcases h with rfl | rfl <;> decide)
  · simp only [List.mem_append, List.mem_cons] at hc
    rcases hc with h | rfl | h
    · exact pad2_nonspace _ c h
    · decide
    · exact pad2_nonspace _ c h

theorem dropDaySpace_digit (c : Char) (r : Str) (h : isDigit c = true) :
    dropDaySpace (c :: r) = some (c :: r) := by
  have hne : c ≠ ' ' := by rintro rfl; revert h; decide
  unfold dropDaySpace
  split
  · rename_i heq; simp only [List.cons.injEq] at heq; exact absurd heq.1.symm (fun e => hne e.symm)
  · rename_i heq; simp only [List.cons.injEq] at heq; exact absurd heq.1.symm (fun e => hne e.symm)
  · rfl

theorem ntDate_head (e : NtEntry) : ∃ c r, ntDate e = c :: r ∧ isDigit c = true :=
  ⟨digitChar (e.day / 10), _, rfl, digitChar_isDigit _⟩

theorem ntClock_ne (e : NtEntry) : ntClock e ≠ [] := by
  unfold ntClock; split <;> simp [pad2]

theorem nt_tokens (e : NtEntry) :
    dropDaySpace (ntTimeText e) = some (ntTimeText e) ∧
    wsTokens (ntTimeText e) = some [ntDate e, ntClock e] := by
  obtain ⟨c, r, hcr, hc⟩ := ntDate_head e
  constructor
  · unfold ntTimeText; rw [hcr]; exact dropDaySpace_digit c _ hc
  · exact wsTokens_two _ _ (ntDate_nonspace e) (ntClock_nonspace e) (by rw [hcr]; simp) (ntClock_ne e)

theorem wf_nt_ranges (e : NtEntry) (h : WFNtTime e) :
    1 ≤ e.day ∧ e.day ≤ 31 ∧ 1 ≤ e.month ∧ e.month ≤ 12 := by
  have := (validDate_iff _ _ _).1 h.date
  have hdim : daysInMonth (fullYear e.yy) e.month ≤ 31 := by
    unfold daysInMonth; split <;> (try split) <;> omega
  omega

theorem strpNt24_render (e : NtEntry) (h : WFNtTime e) (h24 : e.twelve = false) :
    strpNt12 (ntTimeText e) = none ∧
    strpNt24 (ntTimeText e) = some ⟨some (fullYear e.yy), e.month, e.day, e.hour, e.minute⟩ := by
  obtain ⟨t1, t2⟩ := nt_tokens e
  obtain ⟨hd1, hd2, hm1, hm2⟩ := wf_nt_ranges e h
  have hclock : ntClock e = pad2 e.hour ++ ':' :: pad2 e.minute := by simp [ntClock, h24]
  have hcolon : ':' ∉ pad2 e.hour := pad2_not_mem _ ':' (by decide)
  constructor
  · unfold strpNt12
    simp only [t1, t2, dmy_ntDate e ⟨hd1, hd2⟩ ⟨hm1, hm2⟩ h.yy, hclock]
    rw [partition_append_sep _ _ _ hcolon]
    simp only [if_true]
    have : (pad2 e.minute).dropWhile isDigit = [] := by
      have := dropWhile_append_stop isDigit (pad2 e.minute) [] (mem_pad2 _) (stops_nil _)
      simpa using this
    rw [this]
    split <;> simp
  · unfold strpNt24
    simp only [t1, t2, dmy_ntDate e ⟨hd1, hd2⟩ ⟨hm1, hm2⟩ h.yy, hclock]
    rw [partition_append_sep _ _ _ hcolon]
    simp only [if_true]
    rw [show hourField (pad2 e.hour) = some e.hour from field12_pad2 _ _ _ _ (by omega) (by have := h.hour; omega) (by have := h.hour; omega),
      show minField (pad2 e.minute) = some e.minute from field12_pad2 _ _ _ _ (by omega) (by have := h.minute; omega) (by have := h.minute; omega)]
    simp only [tmValid, h.date, if_true]

theorem strpNt12_render (e : NtEntry) (h : WFNtTime e) (h12 : e.twelve = true) :
    strpNt12 (ntTimeText e) = some ⟨some (fullYear e.yy), e.month, e.day, e.hour, e.minute⟩ := by
  obtain ⟨t1, t2⟩ := nt_tokens e
  obtain ⟨hd1, hd2, hm1, hm2⟩ := wf_nt_ranges e h
  have hhr := h.hour
  have hmn := h.minute
  have hclock : ntClock e = pad2 (if e.hour % 12 = 0 then 12 else e.hour % 12) ++ ':' ::
      (pad2 e.minute ++ (if e.hour < 12 then ['A', 'M'] else ['P', 'M'])) := by
    simp [ntClock, h12]
  have hcolon : ∀ n, ':' ∉ pad2 n := fun n => pad2_not_mem _ ':' (by decide)
  unfold strpNt12
  simp only [t1, t2, dmy_ntDate e ⟨hd1, hd2⟩ ⟨hm1, hm2⟩ h.yy, hclock]
  rw [partition_append_sep _ _ _ (hcolon _)]
  simp only [if_true]
  have hstop : Stops isDigit (if e.hour < 12 then ['A', 'M'] else ['P', 'M']) := by
    split <;> exact stops_cons _ _ _ (by decide)
  rw [takeWhile_append_stop isDigit _ _ (mem_pad2 _) hstop, dropWhile_append_stop isDigit _ _ (mem_pad2 _) hstop]
  rw [show minField (pad2 e.minute) = some e.minute from field12_pad2 _ _ _ _ (by omega) (by omega) (by omega)]
  rw [show monField (pad2 (if e.hour % 12 = 0 then 12 else e.hour % 12)) = some (if e.hour % 12 = 0 then 12 else e.hour % 12)
    from field12_pad2 _ _ _ _ (by split <;> omega) (by split <;> omega) (by split <;> omega)]
  simp only
  by_cases ham : e.hour < 12
  · simp only [ham, if_true]
    have : (['A', 'M'].map fun c : Char => if 65 ≤ c.toNat && c.toNat ≤ 90 then Char.ofNat (c.toNat + 32) else c) = ['a', 'm'] := by decide
    rw [this]
    simp only [if_true]
    have hh : (if ((if e.hour % 12 = 0 then 12 else e.hour % 12) == 12) = true then 0 else (if e.hour % 12 = 0 then 12 else e.hour % 12)) = e.hour := by
      by_cases h0 : e.hour % 12 = 0
      · simp [h0]; omega
      · have h12' : ¬ e.hour % 12 = 12 := by omega
        simp [h0, h12']; omega
    rw [hh]
    simp only [tmValid, h.date, if_true]
  · simp only [ham, if_false]
    have : (['P', 'M'].map fun c : Char => if 65 ≤ c.toNat && c.toNat ≤ 90 then Char.ofNat (c.toNat + 32) else c) = ['p', 'm'] := by decide
    rw [this]
    simp only [show ¬ (['p', 'm'] = ['a', 'm']) by decide, if_false, if_true]
    have hh : (if ((if e.hour % 12 = 0 then 12 else e.hour % 12) == 12) = true then 12 else (if e.hour % 12 = 0 then 12 else e.hour % 12) + 12) = e.hour := by
      by_cases h0 : e.hour % 12 = 0
      · simp [h0]; omega
      · have h12' : ¬ e.hour % 12 = 12 := by omega
        simp [h0, h12']; omega
    rw [hh]
    simp only [tmValid, h.date, if_true]

theorem fullYear_range (yy : Nat) (h : yy < 100) : 1969 ≤ fullYear yy ∧ fullYear yy ≤ 2068 := by
  unfold fullYear; split <;> omega

theorem finishTime_year (cy y m d hh mi : Nat) (hy : y ≠ 1900) (hv : validDate y m d = true) :
    finishTime cy (some ⟨some y, m, d, hh, mi⟩) = .ok (some (epochOf y m d hh mi 0)) := by
  unfold finishTime substYear
  simp [hy, hv]

theorem decodeNtTime_render (cy : Nat) (e : NtEntry) (h : WFNtTime e) :
    decodeNtTime cy (ntTimeText e) =
      .ok (some (epochOf (fullYear e.yy) e.month e.day e.hour e.minute 0)) := by
  unfold decodeNtTime
  have hyr : fullYear e.yy ≠ 1900 := by have := fullYear_range e.yy h.yy; omega
  cases h12 : e.twelve with
  | true =>
    rw [strpNt12_render e h h12]
    exact finishTime_year cy _ _ _ _ _ hyr h.date
  | false =>
    obtain ⟨h1, h2⟩ := strpNt24_render e h h12
    rw [h1, h2]
    exact finishTime_year cy _ _ _ _ _ hyr h.date

/-! ### RE_WINDOWSNT on a rendered line -/

theorem stops_append (p : Char → Bool) (a rest : Str) (hne : a ≠ []) (h : ∀ c ∈ a, p c = false) :
    Stops p (a ++ rest) := by
  cases a with
  | nil => exact absurd rfl hne
  | cons c r => exact stops_cons _ _ _ (h c (by simp))

theorem run1_two_spaces (rest : Str) (hstop : Stops isSpace rest) :
    run1 isSpace (' ' :: ' ' :: rest) = some ([' ', ' '], rest) :=
  run1_append isSpace [' ', ' '] rest (by simp)
    (by intro c hc; simp at hc; rcases hc with rfl | rfl <;> decide) hstop

theorem nameTok_space (name : Str) (hs : Stops isSpace name) (hnl : '\n' ∉ name) :
    nameTok (' ' :: name) = some name := by
  unfold nameTok
  rw [run1_space name hs]
  simp only [dropFinalNl_of_not_mem _ hnl, (has_eq_false_iff _ _).2 hnl]
  simp

theorem renderNt_eq (e : NtEntry) : renderNt e =
    ntDate e ++ (' ' :: ' ' :: (ntClock e ++ (' ' :: ' ' :: (ntSizeStr e ++ (' ' :: e.name))))) := by
  unfold renderNt ntDate ntSizeStr; rfl

theorem reNt_render (e : NtEntry) (h : WFNt e) :
    reNt (renderNt e) = some ⟨ntDate e, ntClock e, e.size, e.name⟩ := by
  rw [renderNt_eq]
  unfold reNt
  have hns : ∀ (a : Str), (∀ c ∈ a, isSpace c = false) → ∀ c ∈ a, (fun c => !isSpace c) c = true := by
    intro a ha c hc; simp [ha c hc]
  have hsp : ∀ r, Stops (fun c => !isSpace c) (' ' :: r) := fun r => stops_cons _ _ _ (by decide)
  obtain ⟨c0, r0, hd0, hc0⟩ := ntDate_head e
  rw [run1_append _ (ntDate e) _ (by rw [hd0]; simp) (hns _ (ntDate_nonspace e)) (hsp _)]
  simp only
  rw [run1_two_spaces _ (stops_append _ _ _ (ntClock_ne e) (ntClock_nonspace e))]
  simp only
  rw [run1_append _ (ntClock e) _ (ntClock_ne e) (hns _ (ntClock_nonspace e)) (hsp _)]
  simp only
  have hsz_ne : ntSizeStr e ≠ [] := by
    unfold ntSizeStr; cases hs : e.size with
    | none => simp
    | some ds => exact (h.size ds hs).1
  have hsz_ns : ∀ c ∈ ntSizeStr e, isSpace c = false := by
    unfold ntSizeStr; cases hs : e.size with
    | none => decide
    | some ds => exact fun c hc => digit_nonspace c ((h.size ds hs).2.1 c hc)
  rw [run1_two_spaces _ (stops_append _ _ _ hsz_ne hsz_ns)]
  simp only
  cases hs : e.size with
  | none =>
    simp only [ntSizeStr, hs, List.cons_append, List.nil_append]
    rw [nameTok_space _ h.name_start h.name_nl]
    rfl
  | some ds =>
    obtain ⟨hne, hdig, _⟩ := h.size ds hs
    simp only [ntSizeStr, hs]
    obtain ⟨d0, dr, rfl⟩ : ∃ d0 dr, ds = d0 :: dr := by cases ds with
      | nil => exact absurd rfl hne
      | cons c cs => exact ⟨c, cs, rfl⟩
    have hlt : d0 ≠ '<' := by
      intro e'; have := hdig d0 (by simp); rw [e'] at this; revert this; decide
    have hrun := run1_append isDigit (d0 :: dr) (' ' :: e.name) hne hdig (stops_cons _ _ _ (by decide))
    split
    · rename_i heq; simp only [List.cons_append, List.cons.injEq] at heq; exact absurd heq.1 hlt
    · rw [hrun]
      simp only
      rw [nameTok_space _ h.name_start h.name_nl]
      rfl

theorem nt_line_roundtrip_core (cy : Nat) (e : NtEntry) (h : WFNt e) :
    parseLine cy (renderNt e) = .ok (some ⟨e.name, e.size.isNone, e.size.map natOfDigits,
      some (epochOf (fullYear e.yy) e.month e.day e.hour e.minute 0), none, none, none, renderNt e⟩) := by
  unfold parseLine
  have hlin : reLinux (renderNt e) = none := by
    rw [renderNt_eq]
    obtain ⟨c0, r0, hd0, hc0⟩ := ntDate_head e
    rw [hd0]
    unfold reLinux
    simp only [List.cons_append]
    have : isTypeChar c0 = false := by
      have : ∀ n, n < 58 → 48 ≤ n → isTypeChar (Char.ofNat n) = false := by decide
      have hv : 48 ≤ c0.toNat ∧ c0.toNat ≤ 57 := by simpa [isDigit] using hc0
      rw [← Char.ofNat_toNat c0]; exact this _ (by omega) hv.1
    simp only [this, Bool.not_false, if_true]
  rw [hlin, reNt_render e h]
  simp only
  unfold decodeNt
  have hsz : ntSize e.size = .ok (e.size.map natOfDigits) := by
    cases hs : e.size with
    | none => rfl
    | some ds =>
      have := (h.size ds hs).2.2
      simp only [ntSize, intOfDigits, Option.map_some]
      rw [if_neg (by omega)]
  rw [hsz]
  simp only
  have := decodeNtTime_render cy e h.time
  unfold ntTimeText at this
  rw [this]
  rfl


/-! ### RE_LINUX pieces -/

theorem permTok_append (ps sfx rest : Str) (hp : permOk ps = true)
    (hs : sfx = [] ∨ sfx = ['.'] ∨ sfx = ['+']) (hr : Stops (fun c => c == '.' || c == '+') rest) :
    permTok (ps ++ (sfx ++ rest)) = some (ps ++ sfx, rest) := by
  unfold permOk at hp
  simp only [Bool.and_eq_true, beq_iff_eq] at hp
  obtain ⟨hlen, htok⟩ := hp
  match ps, hlen with
  | [a, b, c, d, e, f, g, h, i], _ =>
    unfold permTok at htok ⊢
    simp only [List.cons_append, List.nil_append] at htok ⊢
    split at htok
    · rename_i hcond
      simp only [hcond, if_true]
      rcases hs with rfl | rfl | rfl
      · simp only [List.nil_append]
        cases rest with
        | nil => rfl
        | cons x xs =>
          have := hr x xs rfl
          simp only [Bool.or_eq_false_iff, beq_eq_false_iff_ne] at this
          split
          · rename_i heq; simp only [List.cons.injEq] at heq; exact absurd heq.1 this.1
          · rename_i heq; simp only [List.cons.injEq] at heq; exact absurd heq.1 this.2
          · rfl
      · rfl
      · rfl
    · simp at htok

theorem idTok_append (u rest : Str) (h : WFId u) :
    idTok (u ++ ' ' :: rest) = some (u, ' ' :: rest) := by
  obtain ⟨c, r, d, rfl, hc, hr, hd⟩ := h.shape
  unfold idTok
  simp only [List.cons_append, hc, if_true, List.append_assoc]
  rcases hd with rfl | rfl
  · simp only [List.nil_append, List.append_nil]
    rw [takeWhile_append_stop isIdChar r _ hr (stops_cons _ _ _ (by decide)),
      dropWhile_append_stop isIdChar r _ hr (stops_cons _ _ _ (by decide))]
    rfl
  · simp only [List.cons_append, List.nil_append]
    rw [takeWhile_append_stop isIdChar r _ hr (stops_cons _ _ _ (by decide)),
      dropWhile_append_stop isIdChar r _ hr (stops_cons _ _ _ (by decide))]
    rfl

theorem wfid_head_nonspace (u : Str) (h : WFId u) : Stops isSpace u := by
  obtain ⟨c, r, d, rfl, hc, _, _⟩ := h.shape
  apply stops_cons
  have : ∀ n, n < 123 → isAlnumAscii (Char.ofNat n) = true → isSpace (Char.ofNat n) = false := by decide
  have hv : c.toNat < 123 := by
    simp only [isAlnumAscii, Bool.or_eq_true, Bool.and_eq_true, decide_eq_true_eq] at hc; omega
  rw [← Char.ofNat_toNat c] at hc ⊢
  exact this _ hv hc

theorem monName_props : ∀ m, m < 13 → 1 ≤ m →
    ((monName m).length = 3 ∧ (monName m).all isWord = true ∧ (monName m).all (fun c => !isSpace c) = true ∧
      monthOf (monName m) = some m) := by decide

theorem monName_shape (m : Nat) (h1 : 1 ≤ m) (h2 : m ≤ 12) :
    ∃ a b c, monName m = [a, b, c] ∧ isWord a = true ∧ isWord b = true ∧ isWord c = true ∧
      isSpace a = false ∧ isSpace b = false ∧ isSpace c = false ∧ monthOf [a, b, c] = some m := by
  obtain ⟨hl, hw, hs, hm⟩ := monName_props m (by omega) h1
  match hmn : monName m, hl with
  | [a, b, c], _ =>
    rw [hmn] at hw hs hm
    simp only [List.all_cons, List.all_nil, Bool.and_true, Bool.and_eq_true, Bool.not_eq_true'] at hw hs
    exact ⟨a, b, c, rfl, hw.1, hw.2.1, hw.2.2, hs.1, hs.2.1, hs.2.2, hm⟩

theorem renderLTime_props (t : LTime) :
    renderLTime t ≠ [] ∧ (∀ c ∈ renderLTime t, (isWord c || c == ':') = true) ∧
    (∀ c ∈ renderLTime t, isSpace c = false) := by
  cases t with
  | year y =>
    refine ⟨by simp [renderLTime, pad4], ?_, ?_⟩
    · intro c hc; have := (isDigit_props c (mem_pad4 y c hc)).2.2.2.2.2.2.2.2.1; simp [this]
    · intro c hc; exact digit_nonspace c (mem_pad4 y c hc)
  | clock h mi =>
    refine ⟨by simp [renderLTime, pad2], ?_, ?_⟩
    · intro c hc
      simp only [renderLTime, List.mem_append, List.mem_cons] at hc
      rcases hc with hc | rfl | hc
      · have := (isDigit_props c (mem_pad2 h c hc)).2.2.2.2.2.2.2.2.1; simp [this]
      · decide
      · have := (isDigit_props c (mem_pad2 mi c hc)).2.2.2.2.2.2.2.2.1; simp [this]
    · intro c hc
      simp only [renderLTime, List.mem_append, List.mem_cons] at hc
      rcases hc with hc | rfl | hc
      · exact pad2_nonspace _ c hc
      · decide
      · exact pad2_nonspace _ c hc

theorem valid_ranges (y m d : Nat) (h : validDate y m d = true) : 1 ≤ d ∧ d ≤ 31 ∧ 1 ≤ m ∧ m ≤ 12 := by
  have := (validDate_iff _ _ _).1 h
  have hdim : daysInMonth y m ≤ 31 := by unfold daysInMonth; split <;> (try split) <;> omega
  omega

theorem tmValid_noyear (cy m d h mi : Nat) (hv : validDate cy m d = true) :
    tmValid ⟨none, m, d, h, mi⟩ = true := by
  unfold tmValid
  simp only
  by_cases hfeb : (m == 2 && d == 29) = true
  · simp [hfeb]
  · simp only [hfeb, Bool.false_eq_true, if_false]
    rw [validDate_iff] at hv ⊢
    obtain ⟨_, _, hm1, hm2, hd1, hd2⟩ := hv
    refine ⟨by omega, by omega, hm1, hm2, hd1, ?_⟩
    by_cases hm : m = 2
    · subst hm
      have hd29 : d ≠ 29 := by intro e; subst e; simp at hfeb
      have : daysInMonth cy 2 ≤ 29 := by unfold daysInMonth; simp; split <;> omega
      have h19 : daysInMonth 1900 2 = 28 := by decide
      omega
    · have : daysInMonth 1900 m = daysInMonth cy m := by
        unfold daysInMonth
        have : (m == 2) = false := by simpa using hm
        simp [this]
      omega

theorem decodeLinuxTime_render (cy month day : Nat) (t : LTime) (h : wfLTime cy month day t) :
    decodeLinuxTime cy (linuxTimeText month day t) = .ok (some (ltimeEpoch cy month day t)) := by
  have hr : 1 ≤ day ∧ day ≤ 31 ∧ 1 ≤ month ∧ month ≤ 12 := by
    cases t with
    | year y => exact valid_ranges _ _ _ h.1
    | clock hh mi => exact valid_ranges _ _ _ h.2.2
  obtain ⟨a, b, c, hmn, _, _, _, hsa, hsb, hsc, hmo⟩ := monName_shape month hr.2.2.1 hr.2.2.2
  obtain ⟨hne, _, hns⟩ := renderLTime_props t
  have htok : wsTokens (linuxTimeText month day t) = some [[a, b, c], pad2 day, renderLTime t] := by
    unfold linuxTimeText
    rw [hmn]
    exact wsTokens_three _ _ _ (by intro x hx; simp at hx; rcases hx with rfl | rfl | rfl <;> assumption)
      (pad2_nonspace _) hns (by simp) (by simp [pad2]) hne
  have hday : dayField (pad2 day) = some day := field12_pad2 _ _ _ _ hr.1 hr.2.1 (by omega)
  unfold decodeLinuxTime
  cases t with
  | year y =>
    obtain ⟨hv, hy⟩ := h
    have hy4 : y < 10000 := by have := (validDate_iff _ _ _).1 hv; omega
    have : strpBdY (linuxTimeText month day (.year y)) = some ⟨some y, month, day, 0, 0⟩ := by
      unfold strpBdY
      simp only [htok, hmo, hday, renderLTime, allDigits_pad4, natOfDigits_pad4 y hy4]
      simp [pad4, tmValid, hv]
    rw [this]
    exact finishTime_year cy _ _ _ _ _ hy hv
  | clock hh mi =>
    obtain ⟨hh24, hmi60, hv⟩ := h
    have h1 : strpBdY (linuxTimeText month day (.clock hh mi)) = none := by
      unfold strpBdY
      simp only [htok, hmo, hday, renderLTime]
      simp [pad2]
    have h2 : strpBdHM (linuxTimeText month day (.clock hh mi)) = some ⟨none, month, day, hh, mi⟩ := by
      unfold strpBdHM
      simp only [htok, hmo, hday, renderLTime]
      rw [partition_append_sep _ _ _ (pad2_not_mem _ ':' (by decide))]
      simp only [if_true]
      rw [show hourField (pad2 hh) = some hh from field12_pad2 _ _ _ _ (by omega) (by omega) (by omega),
        show minField (pad2 mi) = some mi from field12_pad2 _ _ _ _ (by omega) (by omega) (by omega)]
      simp only [tmValid_noyear cy month day hh mi hv, if_true]
    rw [h1, h2]
    unfold finishTime substYear
    simp [hv, ltimeEpoch]

/-! ### names and link arrows -/

theorem partitionArrow_cons (c : Char) (rest : Str) (h : ¬ (c = '-' ∧ ∃ r, rest = '>' :: r)) :
    partitionArrow (c :: rest) =
      (c :: (partitionArrow rest).1, (partitionArrow rest).2.1, (partitionArrow rest).2.2) := by
  rw [partitionArrow.eq_def]
  split
  · simp at *
  · rename_i heq
    simp only [List.cons.injEq] at heq
    exact absurd ⟨heq.1, _, heq.2⟩ h
  · rename_i heq; simp only [List.cons.injEq] at heq; obtain ⟨rfl, rfl⟩ := heq; rfl

theorem partitionArrow_found (rest : Str) : partitionArrow ('-' :: '>' :: rest) = ([], true, rest) := by
  simp [partitionArrow]

theorem noArrow_cons (c : Char) (n : Str) (h : NoArrow (c :: n)) :
    ¬ (c = '-' ∧ ∃ r, n = '>' :: r) ∧ NoArrow n := by
  by_cases hc : c = '-' ∧ ∃ r, n = '>' :: r
  · obtain ⟨rfl, r, rfl⟩ := hc
    unfold NoArrow at h; rw [partitionArrow_found] at h; simp at h
  · refine ⟨hc, ?_⟩
    unfold NoArrow at h ⊢
    rw [partitionArrow_cons c n hc] at h
    exact h

theorem partitionArrow_noarrow (n : Str) (h : NoArrow n) : partitionArrow n = (n, false, []) := by
  induction n with
  | nil => rfl
  | cons c n ih =>
    obtain ⟨hc, hn⟩ := noArrow_cons c n h
    rw [partitionArrow_cons c n hc, ih hn]

theorem partitionArrow_append (n rest : Str) (h : NoArrow n) :
    partitionArrow (n ++ ' ' :: '-' :: '>' :: rest) = (n ++ [' '], true, rest) := by
  induction n with
  | nil =>
    simp only [List.nil_append]
    rw [partitionArrow_cons ' ' _ (by simp), partitionArrow_found]
  | cons c n ih =>
    obtain ⟨hc, hn⟩ := noArrow_cons c n h
    have hc' : ¬ (c = '-' ∧ ∃ r, n ++ ' ' :: '-' :: '>' :: rest = '>' :: r) := by
      rintro ⟨rfl, r, hr⟩
      cases n with
      | nil => simp at hr
      | cons x xs =>
        simp only [List.cons_append, List.cons.injEq] at hr
        exact hc ⟨rfl, xs, by rw [hr.1]⟩
    rw [List.cons_append, partitionArrow_cons c _ hc', ih hn]
    rfl

theorem strip_append_space (n : Str) (hs : Stripped n) (hne : n ≠ []) : strip (n ++ [' ']) = n := by
  obtain ⟨c, r, rfl⟩ : ∃ c r, n = c :: r := by cases n with
    | nil => exact absurd rfl hne
    | cons c cs => exact ⟨c, cs, rfl⟩
  unfold strip lstrip rstrip
  rw [List.cons_append, dropWhile_head_false _ c _ (hs.1 c r rfl)]
  rw [← List.cons_append, List.reverse_append]
  simp only [List.reverse_cons, List.reverse_nil, List.nil_append, List.singleton_append]
  have : (' ' :: (r.reverse ++ [c])).dropWhile isSpace = (r.reverse ++ [c]).dropWhile isSpace := by
    simp [List.dropWhile, show isSpace ' ' = true by decide]
  rw [this]
  cases hr : r.reverse ++ [c] with
  | nil => simp at hr
  | cons x xs =>
    have hx : isSpace x = false := hs.2 x xs (by simpa using hr)
    rw [dropWhile_head_false _ x xs hx, ← hr]
    simp

theorem nameField_props (e : LinuxEntry) (h : WFLinuxName e) :
    Stops isSpace (nameField e) ∧ '\n' ∉ nameField e := by
  unfold nameField
  cases ht : e.target with
  | none => simp only [List.append_nil]; exact ⟨h.start, h.nl⟩
  | some t =>
    obtain ⟨_, hne⟩ := h.target t ht
    constructor
    · obtain ⟨c, r, hcr⟩ : ∃ c r, e.name = c :: r := by cases hn : e.name with
        | nil => exact absurd hn hne
        | cons c cs => exact ⟨c, cs, rfl⟩
      rw [hcr, List.cons_append]
      exact stops_cons _ _ _ (h.start c r hcr)
    · simp only [List.mem_append, List.mem_cons, not_or]
      exact ⟨h.nl, ⟨by decide, by decide, by decide, by decide⟩, h.nl_target t ht⟩

theorem decoded_name (e : LinuxEntry) (h : WFLinuxName e) :
    (if (e.ty == 'l') = true then strip (partitionArrow (nameField e)).1 else nameField e) = e.name := by
  unfold nameField
  cases ht : e.target with
  | none =>
    simp only [List.append_nil]
    by_cases hl : e.ty = 'l'
    · obtain ⟨hna, hst⟩ := h.link hl
      simp only [hl, beq_self_eq_true, if_true]
      rw [partitionArrow_noarrow _ hna, strip_stripped _ hst]
    · have : (e.ty == 'l') = false := by simpa using hl
      simp [this]
  | some t =>
    obtain ⟨hl, hne⟩ := h.target t ht
    obtain ⟨hna, hst⟩ := h.link hl
    simp only [hl, beq_self_eq_true, if_true, List.cons_append, List.nil_append]
    rw [partitionArrow_append _ _ hna]
    exact strip_append_space _ hst hne

/-! ### RE_LINUX on a rendered line -/

theorem renderLinux_eq (e : LinuxEntry) : renderLinux e =
    e.ty :: (e.perms ++ (e.suffix ++ (' ' :: (e.links ++ (' ' :: (e.uid ++ (' ' :: (e.gid ++ (' ' ::
    (e.size ++ (' ' :: (monName e.month ++ (' ' :: (pad2 e.day ++ (' ' :: (renderLTime e.time ++
    (' ' :: nameField e))))))))))))))))) := by
  unfold renderLinux nameField; rfl

theorem reLinux_render (cy : Nat) (e : LinuxEntry) (h : WFLinux cy e) :
    reLinux (renderLinux e) = some ⟨e.ty, e.perms ++ e.suffix, e.links, e.uid, e.gid, e.size,
      linuxTimeText e.month e.day e.time, nameField e⟩ := by
  have hr : 1 ≤ e.day ∧ e.day ≤ 31 ∧ 1 ≤ e.month ∧ e.month ≤ 12 := by
    have ht := h.time
    cases htm : e.time with
    | year y => rw [htm] at ht; exact valid_ranges _ _ _ ht.1
    | clock hh mi => rw [htm] at ht; exact valid_ranges _ _ _ ht.2.2
  obtain ⟨a, b, c, hmn, hwa, hwb, hwc, hsa, hsb, hsc, _⟩ := monName_shape e.month hr.2.2.1 hr.2.2.2
  obtain ⟨hlne, hlw, hlns⟩ := renderLTime_props e.time
  obtain ⟨hnstart, hnnl⟩ := nameField_props e h.name
  have dstop : ∀ r, Stops isDigit (' ' :: r) := fun r => stops_cons _ _ _ (by decide)
  have dns : ∀ (s : Str), (∀ c ∈ s, isDigit c = true) → ∀ c ∈ s, isSpace c = false :=
    fun s hs c hc => digit_nonspace c (hs c hc)
  rw [renderLinux_eq]
  unfold reLinux
  simp only [h.ty, Bool.not_true, Bool.false_eq_true, if_false]
  rw [permTok_append _ _ _ h.perms h.suffix (stops_cons _ _ _ (by decide))]
  simp only
  rw [run1_space _ (stops_append _ _ _ h.links.1 (dns _ h.links.2))]
  simp only
  rw [run1_append isDigit _ _ h.links.1 h.links.2 (dstop _)]
  simp only
  rw [run1_space _ (by
    obtain ⟨c0, r0, d0, hu, hc0, _, _⟩ := h.uid.shape
    have := wfid_head_nonspace _ h.uid
    rw [hu] at this ⊢
    exact stops_cons _ _ _ (this c0 _ rfl))]
  simp only
  rw [idTok_append _ _ h.uid]
  simp only
  rw [run1_space _ (by
    obtain ⟨c0, r0, d0, hu, hc0, _, _⟩ := h.gid.shape
    have := wfid_head_nonspace _ h.gid
    rw [hu] at this ⊢
    exact stops_cons _ _ _ (this c0 _ rfl))]
  simp only
  rw [idTok_append _ _ h.gid]
  simp only
  rw [run1_space _ (stops_append _ _ _ h.size.1 (dns _ h.size.2.1))]
  simp only
  rw [run1_append isDigit _ _ h.size.1 h.size.2.1 (dstop _)]
  simp only
  rw [run1_space _ (by rw [hmn]; exact stops_cons _ _ _ hsa)]
  simp only [hmn, List.cons_append, List.nil_append, hwa, hwb, hwc, Bool.and_self, Bool.not_true,
    Bool.false_eq_true, if_false]
  rw [run1_space _ (stops_append _ _ _ (by simp [pad2]) (pad2_nonspace _))]
  simp only
  rw [run1_append isDigit _ _ (by simp [pad2]) (mem_pad2 _) (dstop _)]
  simp only [pad2, List.length_cons, List.length_nil, Nat.reduceAdd, Nat.lt_irrefl, if_false,
    gt_iff_lt]
  rw [run1_space _ (stops_append _ _ _ hlne hlns)]
  simp only
  rw [run1_append (fun c => isWord c || c == ':') _ _ hlne hlw (stops_cons _ _ _ (by decide))]
  simp only
  rw [nameTok_space _ hnstart hnnl]
  simp [linuxTimeText, hmn, pad2]

theorem permNames_suffix (ps sfx : Str) (hp : permOk ps = true) : permNames (ps ++ sfx) = permNames ps := by
  unfold permOk at hp
  simp only [Bool.and_eq_true, beq_iff_eq] at hp
  match ps, hp.1 with
  | [a, b, c, d, e, f, g, h, i], _ => simp [permNames]

theorem linux_line_roundtrip_core (cy : Nat) (e : LinuxEntry) (h : WFLinux cy e) :
    parseLine cy (renderLinux e) = .ok (some ⟨e.name, e.ty == 'd' || e.ty == 'l',
      some (natOfDigits e.size),
      some (ltimeEpoch cy e.month e.day e.time),
      some (permNames e.perms), some e.uid, some e.gid, renderLinux e⟩) := by
  unfold parseLine
  rw [reLinux_render cy e h]
  simp only
  unfold decodeLinux
  simp only
  rw [decodeLinuxTime_render cy e.month e.day e.time h.time]
  simp only
  have : intOfDigits e.size = .ok (natOfDigits e.size) := by
    unfold intOfDigits; rw [if_neg (by have := h.size.2.2; omega)]
  rw [this]
  simp only [skipErr, decoded_name e h.name, permNames_suffix _ _ h.perms]

end Fs.FtpLemmas
