/-
  Runs of file-object calls on one handle (helper for FsProofs/HandleLaws.lean).
-/
import FsModel.Handles
import FsProofs.Lemmas.HandleLemmas
import FsProofs.Lemmas.HandleWf

namespace Fs.HandleLemmas
open Fs Fs.File Fs.Handles Fs.TreeLemmas

/-- the `IoRef` state after a sequence of calls -/
def ioRun (fl : Flags) : IoState → List File.Op → IoState
  | s, [] => s
  | s, op :: ops => ioRun fl (IoRef.step fl s op).1 ops

theorem runFrom_final (fl : Flags) (io : IoState) (calls : List File.Op) :
    (IoRef.runFrom fl io calls).2 = (ioRun fl io calls).bytes := by
  induction calls generalizing io with
  | nil => rfl
  | cons op ops ih => simp only [IoRef.runFrom, ioRun]; exact ih _

theorem ioRun_append (fl : Flags) (io : IoState) (a b : List File.Op) :
    ioRun fl io (a ++ b) = ioRun fl (ioRun fl io a) b := by
  induction a generalizing io with
  | nil => rfl
  | cons op ops ih => simp only [List.cons_append, ioRun]; exact ih _

theorem set_self_of_getElem? {α : Type} {l : List α} {i : Nat} {a : α} (h : l[i]? = some a) : l.set i a = l := by
  obtain ⟨hlt, heq⟩ := List.getElem?_eq_some_iff.1 h
  rw [← heq]; exact List.set_getElem_self hlt

/-- what a handle-level trace entry of a file-object call looks like -/
def fileObs (x : File.Out × Option Nat) : HOut × Option Nat := (HOut.file x.1, x.2)

/-- consecutive calls on ONE handle whose inode is linked at `cs`: exactly `IoRef` on the file's bytes;
the tree changes in the bytes of that file only, the tables only in this handle's position -/
theorem run_file_calls_linked (impl : MovedirImpl) (hid : Nat) (cs : List Name) (hne : cs ≠ []) :
    ∀ (calls : List File.Op) (s : HState) (h : Handle) (b : Bytes),
      s.handles[hid]? = some h → s.inodes[h.ino]? = some (.linked cs) →
      s.fs.root.get cs = some (.file b) →
      (run impl s (calls.map (.file hid))).1.fs =
          { s.fs with root := s.fs.root.set cs (.file (ioRun h.fl ⟨b, h.pos, h.closed⟩ calls).bytes) } ∧
      (run impl s (calls.map (.file hid))).1.inodes = s.inodes ∧
      (run impl s (calls.map (.file hid))).1.handles =
          s.handles.set hid { h with pos := (ioRun h.fl ⟨b, h.pos, h.closed⟩ calls).pos,
                                     closed := (ioRun h.fl ⟨b, h.pos, h.closed⟩ calls).closed } ∧
      (run impl s (calls.map (.file hid))).2 = (IoRef.runFrom h.fl ⟨b, h.pos, h.closed⟩ calls).1.map fileObs := by
  intro calls
  induction calls with
  | nil =>
    intro s h b hh hi hb
    refine ⟨?_, rfl, ?_, rfl⟩
    · simp only [List.map_nil, run, ioRun]
      rw [set_get_self cs _ _ hb]
    · simp only [List.map_nil, run, ioRun]
      exact (set_self_of_getElem? hh).symm
  | cons op rest ih =>
    intro s h b hh hi hb
    have hok : inoOk s h.ino := by
      unfold inoOk; rw [hi]; exact ⟨hne, b, hb⟩
    have hbytes : s.inoBytes h.ino = b := inoBytes_linked hi hb
    have hstep := fileStep_eq op hh hok
    rw [hbytes, setInoBytes_linked _ hi hb] at hstep
    obtain ⟨hlt, _⟩ := List.getElem?_eq_some_iff.1 hh
    -- the state after the first call
    generalize hst : IoRef.step h.fl ⟨b, h.pos, h.closed⟩ op = st at hstep
    have h1 := ih (fileStep s hid op).1 { h with pos := st.1.pos, closed := st.1.closed } st.1.bytes
      (by rw [hstep]; simp [hlt]) (by rw [hstep]; exact hi)
      (by rw [hstep]; exact get_set_file_self _ hne hb)
    obtain ⟨hfs, hino, hhd, htr⟩ := h1
    have heta : (⟨st.1.bytes, st.1.pos, st.1.closed⟩ : IoState) = st.1 := rfl
    simp only [heta] at hfs hhd htr
    simp only [List.map_cons, run, step, ioRun, IoRef.runFrom, hst]
    refine ⟨?_, ?_, ?_, ?_⟩
    · rw [hfs, hstep]; simp only [set_set]
    · rw [hino, hstep]
    · rw [hhd, hstep]; simp only [List.set_set]
    · rw [htr, hstep]
      simp only [fileObs, obsTell, subject, tellOf, IoRef.obsTell, hlt, List.getElem?_set_self]

theorem run_file_calls_bad (impl : MovedirImpl) (hid : Nat) :
    ∀ (calls : List File.Op) (s : HState), s.handles[hid]? = none →
      run impl s (calls.map (.file hid)) = (s, calls.map fun _ => (HOut.badHandle, none)) := by
  intro calls
  induction calls with
  | nil => intro s _; rfl
  | cons op rest ih =>
    intro s hh
    simp only [List.map_cons, run, step, fileStep_bad op hh, ih s hh, obsTell, subject, tellOf, hh]

theorem run_append (impl : MovedirImpl) (s : HState) (a b : List HOp) :
    run impl s (a ++ b) = ((run impl (run impl s a).1 b).1, (run impl s a).2 ++ (run impl (run impl s a).1 b).2) := by
  induction a generalizing s with
  | nil => rfl
  | cons op ops ih => simp only [List.cons_append, run, ih]

/-! ### what the table transformers do to one entry -/

theorem getElem?_unlinkUnder (t : Node) (pre : List Name) (l : List Link) (i : Nat) :
    (unlinkUnder t pre l)[i]? = (l[i]?).map fun x =>
      match x with
      | .linked q => if Ref.isPrefix pre q then .unlinked ((fileAt t q).getD []) else .linked q
      | .unlinked b => .unlinked b := by
  unfold unlinkUnder; rw [List.getElem?_map]
  cases l[i]? with
  | none => rfl
  | some e => cases e <;> rfl

theorem getElem?_relocate (a b : List Name) (l : List Link) (i : Nat) :
    (relocate a b l)[i]? = (l[i]?).map fun x =>
      match x with
      | .linked q => if Ref.isPrefix a q then .linked (b ++ q.drop a.length) else .linked q
      | .unlinked x => .unlinked x := by
  unfold relocate; rw [List.getElem?_map]
  cases l[i]? with
  | none => rfl
  | some e => cases e <;> rfl

/-- an entry that is unlinked in `l'` was unlinked with the same bytes in `l`, or was linked at a path
whose bytes in `t` it now holds -/
def Keeps (t : Node) (l l' : List Link) : Prop :=
  ∀ (i : Nat) (x : Bytes), l'[i]? = some (Link.unlinked x) →
    l[i]? = some (Link.unlinked x) ∨ ∃ q, l[i]? = some (Link.linked q) ∧ x = (fileAt t q).getD []

theorem keeps_refl (t : Node) (l : List Link) : Keeps t l l := fun _ _ h => Or.inl h

theorem keeps_unlinkUnder (t : Node) (pre : List Name) (l : List Link) : Keeps t l (unlinkUnder t pre l) := by
  intro i x h
  rw [getElem?_unlinkUnder] at h
  cases hl : l[i]? with
  | none => simp [hl] at h
  | some e =>
    cases e with
    | unlinked b => simp only [hl, Option.map_some, Option.some.injEq, Link.unlinked.injEq] at h; subst h; exact Or.inl rfl
    | linked q =>
      simp only [hl, Option.map_some, Option.some.injEq] at h
      split at h
      · simp only [Link.unlinked.injEq] at h; exact Or.inr ⟨q, rfl, h.symm⟩
      · cases h

theorem keeps_relocate {t : Node} {l l' : List Link} (a b : List Name) (h : Keeps t l l') :
    Keeps t l (relocate a b l') := by
  intro i x hx
  rw [getElem?_relocate] at hx
  cases hl : l'[i]? with
  | none => simp [hl] at hx
  | some e =>
    cases e with
    | unlinked y =>
      simp only [hl, Option.map_some, Option.some.injEq, Link.unlinked.injEq] at hx
      subst hx; exact h i y hl
    | linked q =>
      simp only [hl, Option.map_some, Option.some.injEq] at hx
      split at hx <;> cases hx

theorem keeps_fixup (impl : MovedirImpl) (t : Node) (op : Ref.Op) (l : List Link) : Keeps t l (fixup impl t op l) := by
  unfold fixup
  split
  · split
    · exact keeps_unlinkUnder _ _ _
    · exact keeps_refl _ _
  · split
    · exact keeps_unlinkUnder _ _ _
    · exact keeps_refl _ _
  · split
    · split
      · exact keeps_refl _ _
      · exact keeps_relocate _ _ (keeps_unlinkUnder _ _ _)
    · exact keeps_refl _ _
  · split
    · split
      · exact keeps_refl _ _
      · split
        · exact keeps_relocate _ _ (keeps_refl _ _)
        · exact keeps_unlinkUnder _ _ _
    · exact keeps_refl _ _
  · exact keeps_refl _ _

/-- facts a successful `move` between different paths establishes about the tree before it -/
theorem move_ok_facts (st : Ref.State) (sp dp : Str) (ow : Bool) (a b : List Name) (v : Ref.Val)
    (ha : Ref.validate sp = .ok a) (hb : Ref.validate dp = .ok b) (hne : a ≠ b)
    (hok : (Ref.step st (.move sp dp ow)).2 = .ok v) :
    ∃ data, st.root.get a = some (.file data) ∧ (∀ ds, st.root.get b ≠ some (.dir ds)) := by
  have hs := step_two_ok (op := .move sp dp ow) rfl ha hb hok
  rw [hs] at hok
  have h2 := eff2 st a b (.move sp dp ow)
  generalize Ref.step2 st a b (.move sp dp ow) = r at h2 hok
  cases h2 with
  | fail e => cases hok
  | noop v' h => exact absurd (h ⟨_, _, _, Or.inl rfl⟩) hne
  | move data ps ha' hab hbne hp hnd _ => exact ⟨data, ha', hnd⟩
  | copy _ _ _ _ _ _ _ hop => obtain ⟨_, _, _, h⟩ := hop; cases h
  | movedirMerge _ _ _ _ _ _ _ _ _ _ hop => obtain ⟨_, _, _, h⟩ := hop; cases h
  | movedirNew _ _ _ _ _ _ _ hop => obtain ⟨_, _, _, h⟩ := hop; cases h
  | copydirMerge _ _ _ _ _ _ _ hop => obtain ⟨_, _, _, h⟩ := hop; cases h
  | copydirNew _ _ _ _ _ hop => obtain ⟨_, _, _, h⟩ := hop; cases h

/-! ### interning the same path twice -/

theorem findLink_append_self {cs : List Name} {l : List Link} (h : findLink cs l = none) :
    findLink cs (l ++ [.linked cs]) = some l.length := by
  induction l with
  | nil => simp [findLink]
  | cons x xs ih =>
    simp only [findLink] at h
    split at h
    · cases h
    · next hx =>
      simp only [Option.map_eq_none_iff] at h
      simp only [List.cons_append, findLink, hx, if_false, ih h, Option.map_some, List.length_cons]

/-- the second interning of a path finds the inode of the first -/
theorem intern_twice (l : List Link) (cs : List Name) :
    intern (intern l cs).1 cs = ((intern l cs).1, (intern l cs).2) := by
  unfold intern
  cases hf : findLink cs l with
  | some i => simp only [hf]
  | none => simp only [findLink_append_self hf]

/-! ### what one file-object call does, seen through `view` -/

theorem inoBytes_with_handles (s : HState) (hs : List Handle) (i : Nat) :
    ({ s with handles := hs } : HState).inoBytes i = s.inoBytes i := rfl

/-- result, new handle entry and new inode bytes of one call -/
theorem fileStep_view {s : HState} (hw : WF s) {hid : Nat} {h : Handle} (op : File.Op)
    (hh : s.handles[hid]? = some h) :
    (fileStep s hid op).2 = .file (IoRef.step h.fl ⟨s.inoBytes h.ino, h.pos, h.closed⟩ op).2 ∧
    (fileStep s hid op).1.handles[hid]? =
      some { h with pos := (IoRef.step h.fl ⟨s.inoBytes h.ino, h.pos, h.closed⟩ op).1.pos,
                    closed := (IoRef.step h.fl ⟨s.inoBytes h.ino, h.pos, h.closed⟩ op).1.closed } ∧
    (fileStep s hid op).1.inoBytes h.ino = (IoRef.step h.fl ⟨s.inoBytes h.ino, h.pos, h.closed⟩ op).1.bytes := by
  have hok := hw.inoOk hh
  obtain ⟨hlt, _⟩ := List.getElem?_eq_some_iff.1 hh
  rw [fileStep_eq op hh hok]
  exact ⟨rfl, List.getElem?_set_self hlt, by rw [inoBytes_with_handles]; exact inoBytes_setInoBytes _ hok⟩

theorem view_fileStep_self {s : HState} (hw : WF s) {hid : Nat} {h : Handle} (op : File.Op)
    (hh : s.handles[hid]? = some h) :
    view (fileStep s hid op).1 hid = some (IoRef.step h.fl ⟨s.inoBytes h.ino, h.pos, h.closed⟩ op).1 := by
  obtain ⟨_, h2, h3⟩ := fileStep_view hw op hh
  simp only [view, h2, h3]

/-- no operation changes the inode or the mode of an existing handle -/
theorem step_keeps_handle_static (impl : MovedirImpl) {s : HState} (hw : WF s) (op : HOp) {hid : Nat} {h : Handle}
    (hh : s.handles[hid]? = some h) :
    ∃ h', (step impl s op).1.handles[hid]? = some h' ∧ h'.fl = h.fl ∧ h'.ino = h.ino := by
  obtain ⟨hlt, _⟩ := List.getElem?_eq_some_iff.1 hh
  cases op with
  | tree op => exact ⟨h, hh, rfl, rfl⟩
  | open_ p m =>
    simp only [step]
    cases hr : Ref.step s.fs (.openbin p m) with
    | mk fs' out =>
      cases out with
      | err e => rw [openStep_err hr]; exact ⟨h, hh, rfl, rfl⟩
      | ok v =>
        cases hv : Ref.validate p with
        | err e => rw [openStep_invalid hr hv]; exact ⟨h, hh, rfl, rfl⟩
        | ok cs =>
          rw [openStep_ok hr hv]
          exact ⟨h, by simp only [List.getElem?_append_left hlt]; exact hh, rfl, rfl⟩
  | file hid2 fop =>
    simp only [step]
    cases hh2 : s.handles[hid2]? with
    | none => rw [fileStep_bad fop hh2]; exact ⟨h, hh, rfl, rfl⟩
    | some h2 =>
      by_cases he : hid2 = hid
      · subst he
        rw [hh] at hh2; cases hh2
        exact ⟨_, (fileStep_view hw fop hh).2.1, rfl, rfl⟩
      · rw [fileStep_eq fop hh2 (hw.inoOk hh2)]
        exact ⟨h, by simp only [List.getElem?_set_ne he]; exact hh, rfl, rfl⟩

/-! ### small facts used by FsProofs/HandleLaws.lean -/

theorem nodupB_iff {α : Type} [DecidableEq α] (l : List α) : nodupB l = true ↔ l.Nodup := by
  induction l with
  | nil => simp [nodupB]
  | cons a as ih =>
    simp only [nodupB, Bool.and_eq_true, Bool.not_eq_eq_eq_not, Bool.not_true, List.nodup_cons, ih]
    constructor
    · rintro ⟨h1, h2⟩
      refine ⟨?_, h2⟩
      intro hm
      rw [← List.contains_iff_mem] at hm
      rw [hm] at h1; cases h1
    · rintro ⟨h1, h2⟩
      refine ⟨?_, h2⟩
      cases hc : as.contains a with
      | false => rfl
      | true => exact absurd (List.contains_iff_mem.1 hc) h1

theorem ioRun_close_closed (fl : Flags) (io : IoState) (calls : List File.Op) :
    (ioRun fl io (calls ++ [File.Op.close])).closed = true := by
  rw [ioRun_append]
  generalize ioRun fl io calls = st
  simp only [ioRun, IoRef.step, IoRef.isReadline0]
  cases hc : st.closed <;> simp [IoRef.stepClosed, IoRef.stepOpen, hc]

theorem mapM_fileObs (l : List (File.Out × Option Nat)) : (l.map fileObs).mapM fileEntry = some l := by
  induction l with
  | nil => rfl
  | cons a l ih =>
    obtain ⟨o, t⟩ := a
    simp only [List.map_cons, List.mapM_cons, fileObs, fileEntry, ih]
    rfl

theorem session_flat (hid : Nat) (p mode : Str) (calls : List File.Op) :
    (Item.session p mode calls).flat hid = .open_ p mode :: (calls ++ [File.Op.close]).map (.file hid) := by
  simp [Item.flat]

theorem allClosed_append_set (hs : List Handle) (nh h' : Handle) :
    ((hs ++ [nh]).set hs.length h').all (·.closed) = (hs.all (·.closed) && h'.closed) := by
  rw [List.set_append_right _ _ (Nat.le_refl _)]
  simp

/-- a call that succeeds has a valid path -/
theorem validate_ok_of_step_ok {st : Ref.State} {op : Ref.Op} {p : Str} {v : Ref.Val} (hp : op.paths = [p])
    (hok : (Ref.step st op).2 = .ok v) : ∃ cs, Ref.validate p = .ok cs := by
  cases step_case st op with
  | close h _ => subst h; simp [Ref.Op.paths] at hp
  | fail e _ h => rw [h] at hok; cases hok
  | one p' cs _ hp' hv _ =>
    rw [hp] at hp'
    simp only [List.cons.injEq, and_true] at hp'
    subst hp'; exact ⟨cs, hv⟩
  | two p' q' a b _ hp' _ _ _ => rw [hp] at hp'; simp at hp'

theorem quiescentAt_append (impl : MovedirImpl) (s : HState) (a b : List HOp) :
    quiescentAt impl s (a ++ b) = (quiescentAt impl s a && quiescentAt impl (run impl s a).1 b) := by
  induction a generalizing s with
  | nil => simp [quiescentAt, run]
  | cons op ops ih => simp only [List.cons_append, quiescentAt, run, ih, Bool.and_assoc]

theorem quiescentAt_files (impl : MovedirImpl) (s : HState) (hid : Nat) (calls : List File.Op) :
    quiescentAt impl s (calls.map (.file hid)) = true := by
  induction calls generalizing s with
  | nil => rfl
  | cons op rest ih => simp only [List.map_cons, quiescentAt, Bool.true_and]; exact ih _

theorem writeAt_read_back (b d : Bytes) (p : Nat) (hd : d ≠ []) : ((writeAt b p d).drop p).take d.length = d := by
  have hde : d.isEmpty = false := by cases d <;> simp_all
  have hlen : ((b ++ zeros (p - b.length)).take p).length = p := by
    simp only [List.length_take, List.length_append, zeros, List.length_replicate]; omega
  simp only [writeAt, hde, Bool.false_eq_true, if_false, List.append_assoc]
  rw [List.drop_left' hlen, List.take_left' rfl]

theorem ioref_write_bytes (fl : Flags) (b d : Bytes) (pos : Nat) (hw : fl.writing = true) (hd : d ≠ []) :
    (IoRef.step fl ⟨b, pos, false⟩ (.write d)).1.bytes = writeAt b (if fl.appending then b.length else pos) d := by
  have hde : d.isEmpty = false := by cases d <;> simp_all
  simp [IoRef.step, IoRef.isReadline0, IoRef.stepOpen, hw, IoRef.write1, hde]

theorem ioref_seek_set (fl : Flags) (b : Bytes) (pos n : Nat) :
    (IoRef.step fl ⟨b, pos, false⟩ (.seek (Int.ofNat n) 0)).1 = ⟨b, n, false⟩ := by
  have hn : ¬ ((n : Int) < 0) := by omega
  simp [IoRef.step, IoRef.isReadline0, IoRef.stepOpen, hn]

theorem ioref_read_some (fl : Flags) (b : Bytes) (pos n : Nat) (hr : fl.reading = true) :
    (IoRef.step fl ⟨b, pos, false⟩ (.read (some (Int.ofNat n)))).2 = .bytes ((b.drop pos).take n) := by
  have hn : ¬ ((n : Int) < 0) := by omega
  simp [IoRef.step, IoRef.isReadline0, IoRef.stepOpen, hr, IoRef.readN, limit, hn]

end Fs.HandleLemmas
