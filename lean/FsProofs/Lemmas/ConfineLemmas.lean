/-
  Helper lemmas for C03 (path confinement) over FsModel.Confine.
-/
import FsModel.Confine
import FsProofs.Lemmas.PathLemmas

namespace Fs.ConfineLemmas
open Fs Fs.Path Fs.PathSpec Fs.PathLemmas Fs.Confine

/-! ### splitting at a separator distributes over append -/

theorem splitOn_append_sep' (c : Char) (a b : Str) :
    splitOn c (a ++ c :: b) = splitOn c a ++ splitOn c b := by
  induction a with
  | nil => simp [splitOn]
  | cons x xs ih =>
    by_cases hx : x = c
    · subst hx
      rw [List.cons_append, splitOn_cons_sep, splitOn_cons_sep, ih]; rfl
    · rw [List.cons_append, splitOn_cons_ne c x _ hx, splitOn_cons_ne c x xs hx, ih]
      have hn := splitOn_ne_nil c xs
      cases hs : splitOn c xs with
      | nil => exact absurd hs hn
      | cons h t => simp

theorem comps_append_sep (a b : Str) : comps (a ++ '/' :: b) = comps a ++ comps b := by
  simp [comps, splitSlash, splitOn_append_sep']

theorem filter_ne_nil_clean {cs : List Str} (h : Clean cs) :
    cs.filter (fun c => c ≠ []) = cs := by
  rw [List.filter_eq_self]
  intro c hc
  simpa using (h c hc).1

theorem comps_mkp {a : Bool} {cs : List Str} (h : Clean cs) : comps (mkp a cs) = cs := by
  unfold comps
  simp only [splitSlash]
  rw [splitOn_mkp h]
  have := filter_ne_nil_clean h
  cases a <;> by_cases hc : cs = [] <;> simp_all

theorem comps_join_clean {cs : List Str} (h : Clean cs) : comps (joinWith '/' cs) = cs := by
  simpa [mkp] using comps_mkp (a := false) h

theorem resolve_append (l1 l2 : List Str) :
    resolve (l1 ++ l2) = l2.foldl step (resolve l1) := by
  simp [resolve, List.foldl_append]

/-! ### what `normpath` / `iteratepath` return -/

/-- `normpath p = ok n` pins `n` down completely -/
theorem normpath_ok_resolve (p n : Str) (h : normpath p = .ok n) :
    ∃ cs, resolve (splitSlash p) = some cs ∧ Clean cs ∧ n = mkp (startsWithSlash p) cs := by
  rw [normpath_eq_specNorm, specNorm] at h
  cases hr : resolve (splitSlash p) with
  | none => rw [hr] at h; cases h
  | some cs =>
    rw [hr] at h
    simp only [Res.ok.injEq] at h
    exact ⟨cs, rfl, resolve_result_clean p cs hr, h.symm⟩

theorem normpath_of_resolve (p : Str) (cs : List Str) (h : resolve (splitSlash p) = some cs) :
    normpath p = .ok (mkp (startsWithSlash p) cs) := by
  rw [normpath_eq_specNorm, specNorm, h]; rfl

theorem normpath_err_of_resolve (p : Str) (h : resolve (splitSlash p) = none) :
    normpath p = .err .IllegalBackReference := by
  rw [normpath_eq_specNorm, specNorm, h]

theorem normpath_err_only_backref' (p : Str) (e : Err) (h : normpath p = .err e) :
    e = .IllegalBackReference ∧ resolve (splitSlash p) = none := by
  rw [normpath_eq_specNorm, specNorm] at h
  cases hr : resolve (splitSlash p) with
  | none => rw [hr] at h; simp at h; exact ⟨h.symm, rfl⟩
  | some cs => rw [hr] at h; cases h

theorem iteratepath_mkp (a : Bool) {cs : List Str} (h : Clean cs) :
    iteratepath (mkp a cs) = .ok cs := by
  unfold iteratepath
  rw [normpath_mkp h, bind_ok]
  simp only [relpath, lstripSlash_mkp h, pure_eq]
  by_cases hc : cs = []
  · subst hc; rfl
  · have : joinWith '/' cs ≠ [] := fun e => hc ((join_clean_eq_nil_iff h).1 e)
    simp [this, splitSlash, splitOn_join_clean h hc]

theorem iteratepath_eq (p : Str) :
    iteratepath p = match normpath p with
      | .err e => .err e
      | .ok n => .ok (if relpath n = [] then [] else splitSlash (relpath n)) := by
  unfold iteratepath
  cases normpath p with
  | err e => rfl
  | ok n =>
    simp only [bind_ok, pure_eq]
    by_cases h : relpath n = [] <;> simp [h]

theorem iteratepath_ok (p : Str) (cs : List Str) (h : iteratepath p = .ok cs) :
    resolve (splitSlash p) = some cs ∧ Clean cs := by
  rw [iteratepath_eq] at h
  cases hn : normpath p with
  | err e => rw [hn] at h; cases h
  | ok n =>
    obtain ⟨cs', hr, hc, rfl⟩ := normpath_ok_resolve p n hn
    rw [hn] at h
    simp only [relpath, lstripSlash_mkp hc, Res.ok.injEq] at h
    by_cases he : cs' = []
    · subst he
      simp [joinWith] at h
      subst h
      exact ⟨hr, hc⟩
    · have : joinWith '/' cs' ≠ [] := fun e => he ((join_clean_eq_nil_iff hc).1 e)
      simp [this, splitSlash, splitOn_join_clean hc he] at h
      subst h
      exact ⟨hr, hc⟩

theorem iteratepath_err (p : Str) (e : Err) (h : iteratepath p = .err e) :
    e = .IllegalBackReference ∧ resolve (splitSlash p) = none := by
  rw [iteratepath_eq] at h
  cases hn : normpath p with
  | ok n => rw [hn] at h; cases h
  | err e' =>
    rw [hn] at h
    simp only [Res.err.injEq] at h
    subst h
    have := normpath_err_only_backref' p e' hn
    exact this

/-! ### the OS path string -/

theorem osJoin_root_clean {rc cs : List Str} (hr : Clean rc) (hc : Clean cs) :
    comps (osJoin (mkp true rc) (joinWith '/' cs)) = rc ++ cs := by
  unfold osJoin
  rw [startsWithSlash_join_clean hc]
  have hne : (mkp true rc == []) = false := by simp [mkp]
  simp only [Bool.false_eq_true, if_false, hne, Bool.false_or]
  by_cases hrc : rc = []
  · subst hrc
    have : endsWithSlash (mkp true []) = true := by decide
    simp only [this, if_true]
    have e : mkp true [] ++ joinWith '/' cs = mkp true cs := by simp [mkp, joinWith]
    rw [e, comps_mkp hc]; rfl
  · rw [endsWithSlash_mkp hr hrc]
    simp only [Bool.false_eq_true, if_false]
    rw [comps_append_sep, comps_mkp hr, comps_join_clean hc]

/-! ### join of a sub-directory and a relative clean path -/

theorem normpath_sub_join {scs cs : List Str} (hs : Clean scs) (hc : Clean cs) (hne : cs ≠ []) :
    normpath (mkp true scs ++ '/' :: joinWith '/' cs) = .ok (mkp true (scs ++ cs)) := by
  have hst : startsWithSlash (mkp true scs ++ '/' :: joinWith '/' cs) = true := by
    simp [mkp, startsWithSlash_cons]
  have := normpath_of_resolve (mkp true scs ++ '/' :: joinWith '/' cs) (scs ++ cs) (by
    simp only [splitSlash]
    rw [splitOn_append_sep', resolve_append, resolve_splitOn_mkp hs, splitOn_join_clean hc hne]
    exact foldl_step_clean cs scs hc)
  rw [this, hst]

theorem join_sub_rel {scs cs : List Str} (hs : Clean scs) (hc : Clean cs) :
    join [mkp true scs, joinWith '/' cs] = .ok (mkp true (scs ++ cs)) := by
  have hsub : mkp true scs ≠ [] := by simp [mkp]
  have hsw : startsWithSlash (mkp true scs) = true := startsWithSlash_mkp hs
  by_cases hne : cs = []
  · subst hne
    have hgo : join.go [mkp true scs, []] false [] = (true, [mkp true scs]) := by
      rw [join_go_cons _ _ _ _ hsub, hsw]
      simp only [if_true]
      rw [join_go_cons_nil, join_go_nil]; rfl
    show join [mkp true scs, []] = _
    unfold join
    simp only [hgo, joinSlash, joinWith]
    rw [normpath_mkp hs, bind_ok]
    simp [pure_eq, abspath_mkp hs]
  · have hr : joinWith '/' cs ≠ [] := fun e => hne ((join_clean_eq_nil_iff hc).1 e)
    have hgo : join.go [mkp true scs, joinWith '/' cs] false [] =
        (true, [mkp true scs, joinWith '/' cs]) := by
      rw [join_go_cons _ _ _ _ hsub, hsw]
      simp only [if_true]
      rw [join_go_cons _ _ _ _ hr, startsWithSlash_join_clean hc]
      simp only [Bool.false_eq_true, if_false]
      rw [join_go_nil]; rfl
    unfold join
    simp only [hgo, joinSlash, joinWith]
    rw [normpath_sub_join hs hc hne, bind_ok]
    have hcl : Clean (scs ++ cs) := clean_append.2 ⟨hs, hc⟩
    simp [pure_eq, abspath_mkp hcl]

/-! ### MountFS -/

theorem rstripSlash_dirs {cs : List Str} (h : Clean cs) : rstripSlash (dirs cs) = joinWith '/' cs := by
  by_cases hne : cs = []
  · subst hne; rfl
  · rw [← join_append_slash cs hne, rstripSlash_append_single]
    simp only [if_true]
    exact rstripSlash_of_not_ends _ (endsWithSlash_join_clean h)

theorem dirs_length_drop (as bs : List Str) : (dirs (as ++ bs)).drop (dirs as).length = dirs bs := by
  rw [dirs_append, List.drop_left]

theorem findMount_some {path : Str} {ms : List Str} {k i : Nat} {m : Str}
    (h : findMount path ms k = some (i, m)) :
    k ≤ i ∧ ms[i - k]? = some m ∧ startsWith path m = true ∧
      ∀ j, j < i - k → ∀ m', ms[j]? = some m' → startsWith path m' = false := by
  induction ms generalizing k with
  | nil => simp [findMount] at h
  | cons x xs ih =>
    unfold findMount at h
    by_cases hx : startsWith path x = true
    · simp only [hx, if_true, Option.some.injEq, Prod.mk.injEq] at h
      obtain ⟨rfl, rfl⟩ := h
      refine ⟨Nat.le_refl _, by simp, hx, ?_⟩
      intro j hj; omega
    · simp only [hx] at h
      obtain ⟨hk, hget, hsw, hfirst⟩ := ih h
      have hk' : k ≤ i := by omega
      have hpos : i - k = (i - (k + 1)) + 1 := by omega
      refine ⟨hk', ?_, hsw, ?_⟩
      · rw [hpos]; simpa using hget
      · intro j hj m' hm'
        cases j with
        | zero =>
          simp only [List.getElem?_cons_zero, Option.some.injEq] at hm'
          subst hm'
          simpa using hx
        | succ j =>
          simp only [List.getElem?_cons_succ] at hm'
          exact hfirst j (by omega) m' hm'

theorem findMount_none {path : Str} {ms : List Str} {k : Nat} (h : findMount path ms k = none) :
    ∀ m ∈ ms, startsWith path m = false := by
  induction ms generalizing k with
  | nil => simp
  | cons x xs ih =>
    unfold findMount at h
    by_cases hx : startsWith path x = true
    · simp [hx] at h
    · simp only [hx] at h
      intro m hm
      simp only [List.mem_cons] at hm
      rcases hm with rfl | hm
      · simpa using hx
      · exact ih h m hm

/-! ### strip("/") never leaves a leading slash -/

theorem startsWithSlash_lstrip (s : Str) : startsWithSlash (lstripSlash s) = false := by
  induction s with
  | nil => rfl
  | cons c cs ih =>
    by_cases hc : c = '/'
    · simp [lstripSlash, hc, ih]
    · simp [lstripSlash, hc, startsWithSlash_cons]

theorem startsWithSlash_rstrip (s : Str) (h : startsWithSlash s = false) :
    startsWithSlash (rstripSlash s) = false := by
  cases s with
  | nil => rfl
  | cons c cs =>
    rw [startsWithSlash_cons] at h
    rw [rstripSlash_cons]
    have hc : c ≠ '/' := by simpa using h
    split <;> simp [hc, startsWithSlash_cons]

theorem startsWithSlash_strip (s : Str) : startsWithSlash (stripSlash s) = false :=
  startsWithSlash_rstrip _ (startsWithSlash_lstrip s)


/-! ### archives: tar keys -/

theorem foldl_inv {α β : Type} (P : β → Prop) (f : β → α → β) (l : List α) (b : β)
    (hb : P b) (hstep : ∀ b a, P b → P (f b a)) : P (l.foldl f b) := by
  induction l generalizing b with
  | nil => exact hb
  | cons a l ih => exact ih (f b a) (hstep b a hb)

theorem mem_odInsert {keys : List Str} {k x : Str} (h : x ∈ odInsert keys k) : x ∈ keys ∨ x = k := by
  unfold odInsert at h
  split at h
  · exact Or.inl h
  · simpa using h

theorem mem_dedup {l : List (List Str)} {x : List Str} (h : x ∈ dedup l) : x ∈ l := by
  unfold dedup at h
  have : ∀ acc : List (List Str), (∀ y ∈ acc, y ∈ l) →
      ∀ l' : List (List Str), (∀ y ∈ l', y ∈ l) →
      ∀ y ∈ l'.foldl (fun acc x => if acc.contains x then acc else acc ++ [x]) acc, y ∈ l := by
    intro acc hacc l'
    induction l' generalizing acc with
    | nil => intro _ y hy; exact hacc y hy
    | cons a l' ih =>
      intro hl' y hy
      simp only [List.foldl_cons] at hy
      refine ih _ ?_ (fun z hz => hl' z (by simp [hz])) y hy
      intro z hz
      split at hz
      · exact hacc z hz
      · simp only [List.mem_append, List.mem_singleton] at hz
        rcases hz with hz | rfl
        · exact hacc z hz
        · exact hl' _ (by simp)
  exact this [] (by simp) l (fun y hy => hy) x h

theorem mem_prefixesOf {cs v : List Str} (h : v ∈ prefixesOf cs) :
    ∃ i, i < cs.length ∧ v = cs.take (i + 1) := by
  unfold prefixesOf at h
  simp only [List.mem_map, List.mem_range] at h
  obtain ⟨i, hi, rfl⟩ := h
  exact ⟨i, hi, rfl⟩

theorem take_succ_ne_nil {cs : List Str} {i : Nat} (h : i < cs.length) : cs.take (i + 1) ≠ [] := by
  cases cs with
  | nil => simp at h
  | cons c cs => simp

/-! ### archives: the zip directory -/

/-- every entry of the directory is a non-empty list of clean components -/
def ZClean (d : ZDir) : Prop := ∀ e ∈ d, e.1 ≠ [] ∧ Clean e.1

theorem zclean_nil : ZClean [] := by intro e he; cases he

theorem zclean_snoc {d : ZDir} {cs : List Str} {b : Bool} (hd : ZClean d) (hne : cs ≠ [])
    (hc : Clean cs) : ZClean (d ++ [(cs, b)]) := by
  intro e he
  simp only [List.mem_append, List.mem_singleton] at he
  rcases he with he | rfl
  · exact hd e he
  · exact ⟨hne, hc⟩

theorem zLookup_nil (d : ZDir) : zLookup d [] = some true := by simp [zLookup]

theorem zMkGo_clean (pres : List (List Str)) (d d2 : ZDir) (hd : ZClean d)
    (hp : ∀ x ∈ pres, x ≠ [] ∧ Clean x) (h : zMkGo d pres = .ok d2) : ZClean d2 := by
  induction pres generalizing d with
  | nil => simp only [zMkGo, Res.ok.injEq] at h; subst h; exact hd
  | cons pre rest ih =>
    have hrest : ∀ x ∈ rest, x ≠ [] ∧ Clean x := fun x hx => hp x (by simp [hx])
    unfold zMkGo at h
    split at h
    · exact ih d hd hrest h
    · cases h
    · exact ih _ (zclean_snoc hd (hp pre (by simp)).1 (hp pre (by simp)).2) hrest h

theorem properPrefixes_clean {cs : List Str} (hc : Clean cs) :
    ∀ x ∈ properPrefixes cs, x ≠ [] ∧ Clean x := by
  intro x hx
  unfold properPrefixes at hx
  simp only [List.mem_map, List.mem_range] at hx
  obtain ⟨i, hi, rfl⟩ := hx
  exact ⟨take_succ_ne_nil (by omega), clean_take hc _⟩

theorem zValidate_clean {p : Str} {cs : List Str} (h : zValidate p = .ok cs) : Clean cs :=
  (iteratepath_ok p cs h).2

theorem zMakedirs_clean (d d2 : ZDir) (p : Str) (hd : ZClean d) (h : zMakedirs d p = .ok d2) :
    ZClean d2 := by
  unfold zMakedirs at h
  split at h
  · cases h
  · next cs hv =>
    have hc := zValidate_clean hv
    split at h
    · cases h
    · next d' hgo =>
      have hd' := zMkGo_clean _ d d' hd (properPrefixes_clean hc) hgo
      split at h
      · simp only [Res.ok.injEq] at h; subst h; exact hd'
      · cases h
      · next hl =>
        simp only [Res.ok.injEq] at h; subst h
        refine zclean_snoc hd' ?_ hc
        intro e; subst e
        rw [zLookup_nil] at hl; cases hl

theorem zCreate_clean (d d2 : ZDir) (p : Str) (hd : ZClean d) (h : zCreate d p = .ok d2) :
    ZClean d2 := by
  unfold zCreate at h
  split at h
  · cases h
  · next cs hv =>
    have hc := zValidate_clean hv
    split at h
    · simp only [Res.ok.injEq] at h; subst h; exact hd
    · next hl =>
      split at h
      · simp only [Res.ok.injEq] at h; subst h
        refine zclean_snoc hd ?_ hc
        intro e; subst e
        rw [zLookup_nil] at hl; cases hl
      · cases h

theorem zStep_clean (d d2 : ZDir) (name : Str) (hd : ZClean d) (h : zStep d name = .ok d2) :
    ZClean d2 := by
  unfold zStep at h
  split at h
  · exact zMakedirs_clean d d2 name hd h
  · split at h
    · cases h
    · next d' hm => exact zCreate_clean d' d2 name (zMakedirs_clean d d' _ hd hm) h

theorem zipDirectory_zclean (names : List Str) (d : ZDir) (hd : ZClean d) :
    ZClean (zipDirectory names d).1 := by
  induction names generalizing d with
  | nil => exact hd
  | cons nm rest ih =>
    unfold zipDirectory
    split
    · next d' hs => exact ih d' (zStep_clean d d' nm hd hs)
    · exact hd

end Fs.ConfineLemmas
