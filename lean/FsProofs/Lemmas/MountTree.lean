/-
  Tree lemmas for the MountFS refinement (FsProofs/MountRefines.lean): replacing the node at one
  path commutes with writing / deleting at a path that DIVERGES from it; what an ANCESTOR of the
  replaced path looks like afterwards; and the FRAME lemma for `Ref.step1`: a one-path operation on a
  path that is not at/below `mp` does not see what is grafted at `mp`.
-/
import FsModel.Tree
import FsModel.Ref
import FsProofs.Lemmas.TreeLemmas
import FsProofs.Lemmas.WrapLemmas

namespace Fs.MountTree
open Fs Fs.Ref Fs.TreeLemmas Fs.WrapLemmas

/-! ### entry lists -/

theorem put_comm (c m : Name) (x y : Node) (es : Ents) (hne : c ≠ m) (hc : (Ents.lookup c es).isSome = true) :
    Ents.put m y (Ents.put c x es) = Ents.put c x (Ents.put m y es) := by
  induction es with
  | nil => simp [Ents.lookup] at hc
  | cons e es ih =>
    obtain ⟨k, v⟩ := e
    by_cases hk : k = c
    · subst hk
      have : ¬ k = m := hne
      simp [Ents.put, this]
    · by_cases hm : k = m
      · subst hm
        simp [Ents.put, hk]
      · have hc' : (Ents.lookup c es).isSome = true := by simpa [Ents.lookup, hk] using hc
        simp [Ents.put, hk, hm, ih hc']

theorem erase_put_comm (c m : Name) (x : Node) (es : Ents) (hne : c ≠ m) :
    Ents.erase m (Ents.put c x es) = Ents.put c x (Ents.erase m es) := by
  induction es with
  | nil =>
    have : ¬ c = m := hne
    simp [Ents.put, Ents.erase, this]
  | cons e es ih =>
    obtain ⟨k, v⟩ := e
    by_cases hk : k = c
    · subst hk
      have : ¬ k = m := hne
      simp [Ents.put, Ents.erase, this]
    · by_cases hm : k = m
      · subst hm
        simp [Ents.put, Ents.erase, hk]
      · simp [Ents.put, Ents.erase, hk, hm, ih]

theorem names_put_present (c : Name) (x : Node) (es : Ents) (hc : (Ents.lookup c es).isSome = true) :
    Ents.names (Ents.put c x es) = Ents.names es := by
  induction es with
  | nil => simp [Ents.lookup] at hc
  | cons e es ih =>
    obtain ⟨k, v⟩ := e
    by_cases hk : k = c
    · subst hk; simp [Ents.put, Ents.names]
    · have hc' : (Ents.lookup c es).isSome = true := by simpa [Ents.lookup, hk] using hc
      have := ih hc'
      simp only [Ents.names] at this
      simp [Ents.put, Ents.names, hk, this]

theorem ne_nil_of_lookup {c : Name} {es : Ents} (hc : (Ents.lookup c es).isSome = true) : es ≠ [] := by
  intro h; subst h; simp [Ents.lookup] at hc

/-! ### divergent paths -/

/-- neither path is a prefix of the other -/
def Diverge (a b : List Name) : Prop := ¬ a <+: b ∧ ¬ b <+: a

theorem Diverge.symm {a b : List Name} (h : Diverge a b) : Diverge b a := ⟨h.2, h.1⟩

theorem Diverge.ne_nil_left {a b : List Name} (h : Diverge a b) : a ≠ [] := by
  intro e; subst e; exact h.1 List.nil_prefix

theorem Diverge.ne_nil_right {a b : List Name} (h : Diverge a b) : b ≠ [] := h.symm.ne_nil_left

theorem Diverge.tail {c : Name} {a b : List Name} (h : Diverge (c :: a) (c :: b)) : Diverge a b :=
  ⟨fun hh => h.1 (List.cons_prefix_cons.2 ⟨rfl, hh⟩), fun hh => h.2 (List.cons_prefix_cons.2 ⟨rfl, hh⟩)⟩

/-- a path that is not at/below `mp` either diverges from it or is a proper ancestor -/
theorem not_below_cases {mp cs : List Name} (h : ¬ mp <+: cs) : Diverge cs mp ∨ (cs <+: mp ∧ cs ≠ mp) := by
  by_cases h2 : cs <+: mp
  · right; refine ⟨h2, ?_⟩; intro e; subst e; exact h (List.prefix_refl _)
  · left; exact ⟨h2, h⟩

theorem set_cons_of_lookup {c : Name} {cs : List Name} {es : Ents} {ch : Node} (v : Node)
    (hl : Ents.lookup c es = some ch) (hne : cs ≠ []) :
    (Node.dir es).set (c :: cs) v = .dir (Ents.put c (ch.set cs v) es) := by
  cases cs with
  | nil => exact absurd rfl hne
  | cons d r => simp [Node.set, hl]

theorem del_cons_of_lookup {c : Name} {cs : List Name} {es : Ents} {ch : Node}
    (hl : Ents.lookup c es = some ch) (hne : cs ≠ []) :
    (Node.dir es).del (c :: cs) = .dir (Ents.put c (ch.del cs) es) := by
  cases cs with
  | nil => exact absurd rfl hne
  | cons d r => simp [Node.del, hl]

/-- `set` at the head entry `c` of a directory, whatever the rest of the path: some entry list
obtained by a `put` at `c`, or nothing -/
theorem set_head_shape (c : Name) (cs : List Name) (es : Ents) (v : Node) :
    (Node.dir es).set (c :: cs) v = .dir es ∨ ∃ X, (Node.dir es).set (c :: cs) v = .dir (Ents.put c X es) := by
  cases cs with
  | nil => right; exact ⟨v, rfl⟩
  | cons d r =>
    cases hl : Ents.lookup c es with
    | none => left; simp [Node.set, hl]
    | some ch => right; exact ⟨ch.set (d :: r) v, by simp [Node.set, hl]⟩

/-- writing at `a` (which exists) and at a divergent `b` commute -/
theorem set_set_comm : ∀ (a b : List Name) (t x y : Node), Diverge a b → (t.get a).isSome = true →
    (t.set a x).set b y = (t.set b y).set a x := by
  intro a
  induction a with
  | nil => intro b t x y h; exact absurd rfl h.ne_nil_left
  | cons c a' ih =>
    intro b t x y h hg
    cases b with
    | nil => exact absurd rfl h.ne_nil_right
    | cons m b' =>
      cases t with
      | file d => simp [Node.get] at hg
      | dir es =>
        cases hl : Ents.lookup c es with
        | none => simp [Node.get, hl] at hg
        | some ch =>
          by_cases hcm : c = m
          · subst hcm
            have hd := h.tail
            have ha' : a' ≠ [] := hd.ne_nil_left
            have hb' : b' ≠ [] := hd.ne_nil_right
            have hg' : (ch.get a').isSome = true := by simpa [Node.get, hl] using hg
            rw [set_cons_of_lookup x hl ha', set_cons_of_lookup y hl hb',
              set_cons_of_lookup y (lookup_put_same c _ es) hb', set_cons_of_lookup x (lookup_put_same c _ es) ha',
              put_put, put_put, ih b' ch x y hd hg']
          · -- different heads: two `put`s at different names, the first of which exists
            have hX : ∃ X, (Node.dir es).set (c :: a') x = .dir (Ents.put c X es) ∧
                ∀ es', Ents.lookup c es' = some ch → (Node.dir es').set (c :: a') x = .dir (Ents.put c X es') := by
              cases a' with
              | nil => exact ⟨x, rfl, fun _ _ => rfl⟩
              | cons d r => exact ⟨ch.set (d :: r) x, by simp [Node.set, hl], fun es' h' => by simp [Node.set, h']⟩
            obtain ⟨X, hX1, hX2⟩ := hX
            rw [hX1]
            have hmc : m ≠ c := fun e => hcm e.symm
            cases b' with
            | nil =>
              simp only [Node.set]
              rw [hX2 _ (by rw [lookup_put_other _ _ _ _ hcm]; exact hl)]
              rw [put_comm c m X y es hcm (by simp [hl])]
            | cons d r =>
              cases hm : Ents.lookup m es with
              | none =>
                have : Ents.lookup m (Ents.put c X es) = none := by rw [lookup_put_other _ _ _ _ hmc]; exact hm
                simp only [Node.set, this, hm]
                exact hX1.symm
              | some ch2 =>
                have : Ents.lookup m (Ents.put c X es) = some ch2 := by rw [lookup_put_other _ _ _ _ hmc]; exact hm
                simp only [Node.set, this, hm]
                rw [hX2 _ (by rw [lookup_put_other _ _ _ _ hcm]; exact hl)]
                rw [put_comm c m X _ es hcm (by simp [hl])]

/-- writing at `a` (which exists) commutes with deleting at a divergent `b` -/
theorem del_set_comm : ∀ (a b : List Name) (t x : Node), Diverge a b → (t.get a).isSome = true →
    (t.set a x).del b = (t.del b).set a x := by
  intro a
  induction a with
  | nil => intro b t x h; exact absurd rfl h.ne_nil_left
  | cons c a' ih =>
    intro b t x h hg
    cases b with
    | nil => exact absurd rfl h.ne_nil_right
    | cons m b' =>
      cases t with
      | file d => simp [Node.get] at hg
      | dir es =>
        cases hl : Ents.lookup c es with
        | none => simp [Node.get, hl] at hg
        | some ch =>
          by_cases hcm : c = m
          · subst hcm
            have hd := h.tail
            have ha' : a' ≠ [] := hd.ne_nil_left
            have hb' : b' ≠ [] := hd.ne_nil_right
            have hg' : (ch.get a').isSome = true := by simpa [Node.get, hl] using hg
            rw [set_cons_of_lookup x hl ha', del_cons_of_lookup hl hb',
              del_cons_of_lookup (lookup_put_same c _ es) hb', set_cons_of_lookup x (lookup_put_same c _ es) ha',
              put_put, put_put, ih b' ch x hd hg']
          · have hX : ∃ X, (Node.dir es).set (c :: a') x = .dir (Ents.put c X es) ∧
                ∀ es', Ents.lookup c es' = some ch → (Node.dir es').set (c :: a') x = .dir (Ents.put c X es') := by
              cases a' with
              | nil => exact ⟨x, rfl, fun _ _ => rfl⟩
              | cons d r => exact ⟨ch.set (d :: r) x, by simp [Node.set, hl], fun es' h' => by simp [Node.set, h']⟩
            obtain ⟨X, hX1, hX2⟩ := hX
            rw [hX1]
            have hmc : m ≠ c := fun e => hcm e.symm
            cases b' with
            | nil =>
              simp only [Node.del]
              rw [hX2 _ (by rw [lookup_erase_other _ _ _ hcm]; exact hl)]
              rw [erase_put_comm c m X es hcm]
            | cons d r =>
              cases hm : Ents.lookup m es with
              | none =>
                have : Ents.lookup m (Ents.put c X es) = none := by rw [lookup_put_other _ _ _ _ hmc]; exact hm
                simp only [Node.del, this, hm]
                exact hX1.symm
              | some ch2 =>
                have : Ents.lookup m (Ents.put c X es) = some ch2 := by rw [lookup_put_other _ _ _ _ hmc]; exact hm
                simp only [Node.del, this, hm]
                rw [hX2 _ (by rw [lookup_put_other _ _ _ _ hcm]; exact hl)]
                rw [put_comm c m X _ es hcm (by simp [hl])]

/-- what a PROPER ANCESTOR `cs` of the replaced path `mp` looks like: a directory before and after,
with the same entry names in the same order, not empty -/
theorem get_set_ancestor : ∀ (cs mp : List Name) (t x : Node), cs <+: mp → cs ≠ mp → (t.get mp).isSome = true →
    ∃ es es', t.get cs = some (.dir es) ∧ (t.set mp x).get cs = some (.dir es') ∧
      Ents.names es' = Ents.names es ∧ es ≠ [] ∧ es' ≠ [] := by
  intro cs
  induction cs with
  | nil =>
    intro mp t x _ hne hg
    cases mp with
    | nil => exact absurd rfl hne
    | cons c mp' =>
      cases t with
      | file d => simp [Node.get] at hg
      | dir es =>
        cases hl : Ents.lookup c es with
        | none => simp [Node.get, hl] at hg
        | some ch =>
          have hs : (Ents.lookup c es).isSome = true := by simp [hl]
          rcases set_head_shape c mp' es x with h | ⟨X, h⟩
          · exact ⟨es, es, rfl, by rw [h]; rfl, rfl, ne_nil_of_lookup hs, ne_nil_of_lookup hs⟩
          · refine ⟨es, Ents.put c X es, rfl, by rw [h]; rfl, names_put_present c X es hs, ne_nil_of_lookup hs, ?_⟩
            exact ne_nil_of_lookup (c := c) (by simp [lookup_put_same])
  | cons c cs' ih =>
    intro mp t x hp hne hg
    cases mp with
    | nil => simp at hp
    | cons m mp' =>
      obtain ⟨rfl, hp'⟩ := List.cons_prefix_cons.1 hp
      have hne' : cs' ≠ mp' := fun e => hne (by rw [e])
      have hmp' : mp' ≠ [] := by
        intro e; subst e
        exact hne' (List.prefix_nil.1 hp')
      cases t with
      | file d => simp [Node.get] at hg
      | dir es =>
        cases hl : Ents.lookup c es with
        | none => simp [Node.get, hl] at hg
        | some ch =>
          have hg' : (ch.get mp').isSome = true := by simpa [Node.get, hl] using hg
          obtain ⟨e1, e2, h1, h2, h3, h4, h5⟩ := ih mp' ch x hp' hne' hg'
          refine ⟨e1, e2, by simpa [Node.get, hl] using h1, ?_, h3, h4, h5⟩
          rw [set_cons_of_lookup x hl hmp']
          simpa [Node.get, lookup_put_same] using h2


theorem get_del_diverge (cs q : List Name) (t : Node) (h1 : ¬ cs <+: q) (h2 : ¬ q <+: cs) :
    (t.del cs).get q = t.get q := by
  fun_induction Node.del cs t generalizing q with
  | case1 n => exact absurd List.nil_prefix h1
  | case2 c es =>
    cases q with
    | nil => exact absurd List.nil_prefix h2
    | cons c' qs =>
      have hne : c' ≠ c := by
        intro e; subst e
        exact h1 (List.cons_prefix_cons.2 ⟨rfl, List.nil_prefix⟩)
      simp only [Node.get]
      rw [lookup_erase_other _ _ _ hne]
  | case3 c d cs es ch hl ih =>
    cases q with
    | nil => exact absurd List.nil_prefix h2
    | cons c' qs =>
      by_cases hne : c' = c
      · subst hne
        simp only [Node.get, lookup_put_same, hl]
        exact ih qs (fun hh => h1 (List.cons_prefix_cons.2 ⟨rfl, hh⟩))
          (fun hh => h2 (List.cons_prefix_cons.2 ⟨rfl, hh⟩))
      · simp only [Node.get]
        rw [lookup_put_other _ _ _ _ hne]
  | case4 c d cs es hl => rfl
  | case5 c cs b => rfl

/-- how a path `q` that is not at/below `mp` reads after the node at `mp` was replaced: exactly as
before, or (a proper ancestor) as a directory with the same entry names -/
theorem get_rel (mp q : List Name) (t x : Node) (hg : (t.get mp).isSome = true) (hn : ¬ mp <+: q) :
    (t.set mp x).get q = t.get q ∨
    ∃ es es', t.get q = some (.dir es) ∧ (t.set mp x).get q = some (.dir es') ∧
      Ents.names es' = Ents.names es ∧ es ≠ [] ∧ es' ≠ [] := by
  rcases not_below_cases hn with hd | ⟨hp, hne⟩
  · left; exact get_set_diverge mp q t x hd.2 hd.1
  · right; exact get_set_ancestor q mp t x hp hne hg

theorem not_below_parent {mp cs : List Name} (hn : ¬ mp <+: cs) : ¬ mp <+: parentOf cs := by
  intro h
  exact hn (h.trans (List.dropLast_prefix cs))

/-- the one-path operations whose outcome is decided by the node at the path and the KIND of its
parent (all but `makedirs`, which walks the prefixes, and `removetree`, which removes descendants) -/
def frameOp : Op → Bool
  | .makedirs _ _ | .removetree _ | .move _ _ _ | .copy _ _ _ | .movedir _ _ _ | .copydir _ _ _ | .close => false
  | _ => true

theorem step1_frame_diverge (T : Node) (c : Bool) (mp cs : List Name) (x : Node) (op : Op)
    (hmp : (T.get mp).isSome = true) (hd : Diverge cs mp) (hop : frameOp op = true) :
    step1 ⟨T.set mp x, c⟩ cs op =
      (⟨(step1 ⟨T, c⟩ cs op).1.root.set mp x, c⟩, (step1 ⟨T, c⟩ cs op).2) := by
  have hne : cs ≠ [] := hd.ne_nil_left
  have hget : (T.set mp x).get cs = T.get cs := get_set_diverge mp cs T x hd.2 hd.1
  have hset : ∀ v, (T.set mp x).set cs v = (T.set cs v).set mp x :=
    fun v => set_set_comm mp cs T x v hd.symm hmp
  have hdel : (T.set mp x).del cs = (T.del cs).set mp x := del_set_comm mp cs T x hd.symm hmp
  have hpar := get_rel mp (parentOf cs) T x hmp (not_below_parent hd.2)
  obtain ⟨o, ho⟩ : ∃ o, T.get cs = o := ⟨_, rfl⟩
  rcases hpar with hp | ⟨es, es', hp1, hp2, _, _, _⟩
  · obtain ⟨o', ho'⟩ : ∃ o, T.get (parentOf cs) = o := ⟨_, rfl⟩
    cases op <;> simp only [frameOp, Bool.false_eq_true] at hop
    all_goals simp only [step1, writeFile, hne, hget, hset, hdel, hp, ho, ho', if_false]
    all_goals rcases o with _ | ⟨_ | _⟩ <;> rcases o' with _ | ⟨_ | _⟩
    all_goals try (repeat' split)
    all_goals try simp [fail, done, upd]
  · cases op <;> simp only [frameOp, Bool.false_eq_true] at hop
    all_goals simp only [step1, writeFile, hne, hget, hset, hdel, hp1, hp2, ho, if_false]
    all_goals rcases o with _ | ⟨_ | _⟩
    all_goals try (repeat' split)
    all_goals try simp [fail, done, upd]

theorem parent_prefix_ne {cs mp : List Name} (hp : cs <+: mp) (hcs : cs ≠ []) :
    parentOf cs <+: mp ∧ parentOf cs ≠ mp := by
  refine ⟨(List.dropLast_prefix cs).trans hp, ?_⟩
  intro e
  have h1 : (parentOf cs).length < cs.length := by
    simp only [parentOf, List.length_dropLast]
    have : 0 < cs.length := List.length_pos_iff.2 hcs
    omega
  have h2 : cs.length ≤ mp.length := hp.length_le
  rw [e] at h1
  omega

theorem step1_frame_ancestor (T : Node) (c : Bool) (mp cs : List Name) (x : Node) (op : Op)
    (hmp : (T.get mp).isSome = true) (hp : cs <+: mp) (hne : cs ≠ mp) (hop : frameOp op = true) :
    step1 ⟨T.set mp x, c⟩ cs op = (⟨T.set mp x, c⟩, (step1 ⟨T, c⟩ cs op).2) ∧
    (step1 ⟨T, c⟩ cs op).1 = ⟨T, c⟩ := by
  obtain ⟨es, es', h1, h2, h3, h4, h5⟩ := get_set_ancestor cs mp T x hp hne hmp
  have he : es.isEmpty = false := by cases es <;> simp_all
  have he' : es'.isEmpty = false := by cases es' <;> simp_all
  by_cases hcs : cs = []
  · subst hcs
    cases op <;> simp only [frameOp, Bool.false_eq_true] at hop
    all_goals simp only [step1, writeFile, h1, h2, h3, he, he', Option.isSome_some, if_true]
    all_goals try (repeat' split)
    all_goals try simp [fail, done]
    all_goals simp_all
  · obtain ⟨hpp, hpne⟩ := parent_prefix_ne hp hcs
    obtain ⟨ps, ps', q1, q2, _, _, _⟩ := get_set_ancestor (parentOf cs) mp T x hpp hpne hmp
    cases op <;> simp only [frameOp, Bool.false_eq_true] at hop
    all_goals simp only [step1, writeFile, hcs, h1, h2, h3, he, he', q1, q2, Option.isSome_some, if_true, if_false]
    all_goals try (repeat' split)
    all_goals try simp [fail, done]
    all_goals simp_all

/-- the resulting tree of a frame operation: unchanged, one node written at the path, or the node
at the path deleted -/
theorem step1_root_cases (s : State) (cs : List Name) (op : Op) (hop : frameOp op = true) :
    (step1 s cs op).1.closed = s.closed ∧
    ((step1 s cs op).1.root = s.root ∨ (∃ v, (step1 s cs op).1.root = s.root.set cs v) ∨
      (step1 s cs op).1.root = s.root.del cs) := by
  have h := eff1 s cs op
  generalize step1 s cs op = r at h
  cases h with
  | same o => exact ⟨rfl, Or.inl rfl⟩
  | setFile b v es _ _ _ _ => exact ⟨rfl, Or.inr (Or.inl ⟨_, rfl⟩)⟩
  | mkdir es _ _ _ _ => exact ⟨rfl, Or.inr (Or.inl ⟨_, rfl⟩)⟩
  | mkdirs _ _ h3 => obtain ⟨p, r, rfl⟩ := h3; simp [frameOp] at hop
  | delFile b _ _ _ => exact ⟨rfl, Or.inr (Or.inr rfl)⟩
  | delEmpty _ _ _ => exact ⟨rfl, Or.inr (Or.inr rfl)⟩
  | delTree es _ _ h3 => obtain ⟨p, rfl⟩ := h3; simp [frameOp] at hop
  | clear _ h3 => obtain ⟨p, rfl⟩ := h3; simp [frameOp] at hop

/-- **FRAME for one-path operations.**  `T` holds some node at `mp`; `x` is grafted there.  A frame
operation on a path that is NOT at/below `mp` gives the same outcome with and without the graft,
its effect commutes with the graft, and it leaves the node at `mp` of the un-grafted tree alone. -/
theorem step1_frame (T : Node) (c : Bool) (mp cs : List Name) (x : Node) (op : Op)
    (hmp : (T.get mp).isSome = true) (hn : ¬ mp <+: cs) (hop : frameOp op = true) :
    step1 ⟨T.set mp x, c⟩ cs op =
      (⟨(step1 ⟨T, c⟩ cs op).1.root.set mp x, c⟩, (step1 ⟨T, c⟩ cs op).2) ∧
    (step1 ⟨T, c⟩ cs op).1.root.get mp = T.get mp ∧ (step1 ⟨T, c⟩ cs op).1.closed = c := by
  rcases not_below_cases hn with hd | ⟨hp, hne⟩
  · refine ⟨step1_frame_diverge T c mp cs x op hmp hd hop, ?_⟩
    obtain ⟨hc, hr | ⟨v, hr⟩ | hr⟩ := step1_root_cases ⟨T, c⟩ cs op hop
    · exact ⟨by rw [hr], hc⟩
    · exact ⟨by rw [hr]; exact get_set_diverge cs mp T v hd.1 hd.2, hc⟩
    · exact ⟨by rw [hr]; exact get_del_diverge cs mp T hd.1 hd.2, hc⟩
  · obtain ⟨h1, h2⟩ := step1_frame_ancestor T c mp cs x op hmp hp hne hop
    refine ⟨?_, by rw [h2], by rw [h2]⟩
    rw [h1, h2]

/-! ### several grafts -/

/-- the default tree with a list of trees grafted at their mount paths; the FIRST entry is grafted
last (outermost) -/
def glueN (d : Node) : List (List Name × Node) → Node
  | [] => d
  | e :: r => setAt (glueN d r) e.1 e.2

/-- no mount path is a prefix of another one -/
def Disjoint (l : List (List Name)) : Prop := l.Pairwise Diverge

theorem setAt_eq_set {t x : Node} {mp : List Name} (h : mp ≠ []) : setAt t mp x = t.set mp x := by
  simp [setAt, h]

theorem glueN_get_diverge (d : Node) (l : List (List Name × Node)) (q : List Name)
    (h : ∀ e ∈ l, Diverge e.1 q) : (glueN d l).get q = d.get q := by
  induction l with
  | nil => rfl
  | cons e r ih =>
    have he := h e (by simp)
    rw [glueN, get_setAt_diverge e.1 q _ _ he.1 he.2]
    exact ih (fun e' h' => h e' (by simp [h']))

theorem glueN_get_mount (d : Node) (pre post : List (List Name × Node)) (mp : List Name) (x : Node)
    (hdis : Disjoint ((pre ++ (mp, x) :: post).map (·.1))) (hph : (d.get mp).isSome = true) :
    (glueN d (pre ++ (mp, x) :: post)).get mp = some x := by
  induction pre with
  | nil =>
    simp only [List.nil_append, glueN]
    have hdiv : ∀ e ∈ post, Diverge e.1 mp := by
      intro e he
      have := List.rel_of_pairwise_cons (by simpa [Disjoint] using hdis) (List.mem_map_of_mem (f := (·.1)) he)
      exact this.symm
    have : ((glueN d post).get mp).isSome = true := by rw [glueN_get_diverge d post mp hdiv]; exact hph
    obtain ⟨u, hu⟩ := Option.isSome_iff_exists.1 this
    exact get_setAt_self hu x
  | cons e pre' ih =>
    have hd : Disjoint ((pre' ++ (mp, x) :: post).map (·.1)) := by
      simp only [Disjoint, List.cons_append, List.map_cons] at hdis
      exact (List.pairwise_cons.1 hdis).2
    have hdiv : Diverge e.1 mp := by
      simp only [Disjoint, List.cons_append, List.map_cons] at hdis
      exact (List.pairwise_cons.1 hdis).1 mp (by simp)
    simp only [List.cons_append, glueN]
    rw [get_setAt_diverge e.1 mp _ _ hdiv.1 hdiv.2]
    exact ih hd

/-- replacing one member's tree is one more graft at its mount path -/
theorem glueN_update (d : Node) (pre post : List (List Name × Node)) (mp : List Name) (x x' : Node)
    (hdis : Disjoint ((pre ++ (mp, x) :: post).map (·.1))) (hph : (d.get mp).isSome = true) :
    glueN d (pre ++ (mp, x') :: post) = setAt (glueN d (pre ++ (mp, x) :: post)) mp x' := by
  induction pre with
  | nil => simp only [List.nil_append, glueN]; rw [setAt_setAt]
  | cons e pre' ih =>
    have hd : Disjoint ((pre' ++ (mp, x) :: post).map (·.1)) := by
      simp only [Disjoint, List.cons_append, List.map_cons] at hdis
      exact (List.pairwise_cons.1 hdis).2
    have hdiv : Diverge e.1 mp := by
      simp only [Disjoint, List.cons_append, List.map_cons] at hdis
      exact (List.pairwise_cons.1 hdis).1 mp (by simp)
    have hg := glueN_get_mount d pre' post mp x hd hph
    simp only [List.cons_append, glueN]
    rw [ih hd, setAt_eq_set hdiv.ne_nil_left, setAt_eq_set hdiv.ne_nil_right, setAt_eq_set hdiv.ne_nil_right,
      setAt_eq_set hdiv.ne_nil_left]
    exact set_set_comm mp e.1 _ x' e.2 hdiv.symm (by rw [hg]; rfl)

/-- **FRAME for the default tree.**  A frame operation on a path that is not at/below any mount
path acts on the default tree alone: same outcome, and the resulting glued tree is the glue over the
default tree's result; the placeholders survive. -/
theorem step1_glueN (d : Node) (c : Bool) (l : List (List Name × Node)) (cs : List Name) (op : Op)
    (hdis : Disjoint (l.map (·.1))) (hph : ∀ e ∈ l, (d.get e.1).isSome = true)
    (hn : ∀ e ∈ l, ¬ e.1 <+: cs) (hop : frameOp op = true) :
    step1 ⟨glueN d l, c⟩ cs op =
      (⟨glueN (step1 ⟨d, c⟩ cs op).1.root l, c⟩, (step1 ⟨d, c⟩ cs op).2) ∧
    (∀ e ∈ l, (step1 ⟨d, c⟩ cs op).1.root.get e.1 = d.get e.1) ∧ (step1 ⟨d, c⟩ cs op).1.closed = c := by
  induction l with
  | nil =>
    have hc := (step1_root_cases ⟨d, c⟩ cs op hop).1
    refine ⟨?_, fun _ h => by simp at h, hc⟩
    simp only [glueN]
    generalize step1 ⟨d, c⟩ cs op = r at hc
    obtain ⟨⟨rt, cl⟩, o⟩ := r
    simp only at hc; subst hc; rfl
  | cons e r ih =>
    have hd : Disjoint (r.map (·.1)) := by
      simp only [Disjoint, List.map_cons] at hdis
      exact (List.pairwise_cons.1 hdis).2
    have hdiv : ∀ e' ∈ r, Diverge e'.1 e.1 := by
      intro e' he'
      simp only [Disjoint, List.map_cons] at hdis
      exact ((List.pairwise_cons.1 hdis).1 e'.1 (List.mem_map_of_mem (f := (·.1)) he')).symm
    obtain ⟨ih1, ih2, ih3⟩ := ih hd (fun e' h' => hph e' (by simp [h'])) (fun e' h' => hn e' (by simp [h']))
    have hne : e.1 ≠ [] := by intro h0; exact hn e (by simp) (by rw [h0]; exact List.nil_prefix)
    have hT : ((glueN d r).get e.1).isSome = true := by
      rw [glueN_get_diverge d r e.1 hdiv]; exact hph e (by simp)
    obtain ⟨f1, _, _⟩ := step1_frame (glueN d r) c e.1 cs e.2 op hT (hn e (by simp)) hop
    obtain ⟨g1, g2, g3⟩ := step1_frame d c e.1 cs e.2 op (hph e (by simp)) (hn e (by simp)) hop
    refine ⟨?_, ?_, g3⟩
    · simp only [glueN]
      rw [setAt_eq_set hne, f1, ih1, setAt_eq_set hne]
    · intro e' he'
      rcases List.mem_cons.1 he' with h | h
      · subst h; exact g2
      · exact ih2 e' h

end Fs.MountTree
