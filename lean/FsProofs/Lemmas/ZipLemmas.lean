/-
  ReadZipFS at the level of its API: what every query answers at a validated path, given the
  kinds of the rebuilt directory and the members the zip names resolve to.
-/
import FsProofs.Lemmas.ArchiveLemmas

namespace Fs.ZipLemmas
open Fs Fs.Path Fs.PathSpec Fs.PathLemmas Fs.Archive Fs.ArchiveLemmas

theorem relpath_mkp {a : Bool} {cs : List Name} (h : Clean cs) : relpath (mkp a cs) = mkp false cs := by
  rw [relpath, lstripSlash_mkp h]; simp [mkp]

theorem mkp_true_beq {cs : List Name} (h : Clean cs) : (mkp true cs == ['/']) = decide (cs = []) := by
  by_cases hc : cs = []
  · subst hc; rfl
  · have : mkp true cs ≠ ['/'] := fun e => hc ((mkp_eq_slash_iff h).1 e).2
    simp [hc, this]

theorem forcedir_mkp_false {cs : List Name} (h : Clean cs) (hne : cs ≠ []) :
    forcedir (mkp false cs) = joinWith '/' cs ++ ['/'] := by
  simp only [forcedir, endsWithSlash_mkp h hne, Bool.false_eq_true, if_false]
  simp [mkp]

section
variable (z : ZipFS) (p : Str) (cs : List Name) (hv : Ref.validate p = .ok cs)
include hv

theorem dq_exists : z.dq (.exists_ p) = .ok (.bool (z.dir.get cs).isSome) := by
  simp only [ZipFS.dq, step_exists _ _ _ hv, Ref.step1, Ref.done]
theorem dq_isdir : z.dq (.isdir p) =
    .ok (.bool (match z.dir.get cs with | some (.dir _) => true | _ => false)) := by
  simp only [ZipFS.dq, step_isdir _ _ _ hv, Ref.step1, Ref.done]
  cases z.dir.get cs with
  | none => rfl
  | some n => cases n <;> rfl
theorem dq_isfile : z.dq (.isfile p) =
    .ok (.bool (match z.dir.get cs with | some (.file _) => true | _ => false)) := by
  simp only [ZipFS.dq, step_isfile _ _ _ hv, Ref.step1, Ref.done]
  cases z.dir.get cs with
  | none => rfl
  | some n => cases n <;> rfl
theorem dq_listdir : z.dq (.listdir p) =
    (match z.dir.get cs with
     | none => .err .ResourceNotFound
     | some (.file _) => .err .DirectoryExpected
     | some (.dir es) => .ok (.names (Ents.names es))) := by
  simp only [ZipFS.dq, step_listdir _ _ _ hv, Ref.step1]
  cases z.dir.get cs with
  | none => rfl
  | some n => cases n <;> rfl
theorem dq_getinfo : z.dq (.getinfo p) =
    (match z.dir.get cs with
     | none => .err .ResourceNotFound
     | some (.file b) => .ok (.info (Ref.lastName cs) false b.length)
     | some (.dir _) => .ok (.info (Ref.lastName cs) true 0)) := by
  simp only [ZipFS.dq, step_getinfo _ _ _ hv, Ref.step1]
  cases z.dir.get cs with
  | none => rfl
  | some n => cases n <;> rfl
end

/-- everything `ReadZipFS` answers at a validated path, from the kinds of its directory and the
members its zip names resolve to -/
theorem zip_obs_agree {t : Node} {z : ZipFS} (mt : List Name → Int)
    (ht : t.wf = true) (hd : t.isDir = true) (hzw : z.dir.wf = true)
    (hk : ∀ q, kindAt z.dir q = kindAt t q)
    (hm : ∀ cs n, cs ≠ [] → t.get cs = some n →
      lookupLast z.members (zipName cs n.isDir) =
        some ⟨zipName cs n.isDir, n.isDir, fileBytes n, zipTime (mt cs)⟩)
    {p : Str} {cs : List Name} (hv : Ref.validate p = .ok cs) :
    Agree t (zipTime (mt cs)) cs (z.obs p) := by
  obtain ⟨hac, hnorm⟩ := validate_ok hv
  have hcl := hac.clean
  have hvt : Ref.validate (mkp true cs) = .ok cs := validate_mkp true hac
  have hvf : Ref.validate (mkp false cs) = .ok cs := validate_mkp false hac
  have habs : abspath (mkp (startsWithSlash p) cs) = mkp true cs := abspath_mkp hcl
  have hrel : relpath (mkp (startsWithSlash p) cs) = mkp false cs := relpath_mkp hcl
  have hkc := hk cs
  -- the basic namespace
  have hbasic : z.basic p = match z.dir.get cs with
      | none => .err .ResourceNotFound
      | some n => .ok (Ref.lastName cs, n.isDir) := by
    simp only [ZipFS.basic, hnorm, habs, mkp_true_beq hcl]
    by_cases hc : cs = []
    · subst hc
      have hr : z.dir.isDir = true := by
        have := hk []
        simpa [kindAt, get_nil, hd] using this
      simp [get_nil, hr, Ref.lastName]
    · simp only [hc, decide_false, Bool.false_eq_true, if_false, dq_getinfo z _ cs hvt]
      cases z.dir.get cs with
      | none => rfl
      | some n => cases n <;> rfl
  have hzn : z.zipNameOf p = match z.dir.get cs with
      | some (.dir _) => .ok (forcedir (mkp false cs))
      | _ => .ok (mkp false cs) := by
    simp only [ZipFS.zipNameOf, hnorm, hrel, dq_isdir z _ cs hvf]
    cases z.dir.get cs with
    | none => rfl
    | some n => cases n <;> rfl
  unfold Agree
  cases hg : t.get cs with
  | none =>
    have hzg : z.dir.get cs = none := by
      simp only [kindAt, hg, Option.map_none, Option.map_eq_none_iff] at hkc; exact hkc
    simp only [ZipFS.obs, ZipFS.exists_, ZipFS.isdir, ZipFS.isfile, ZipFS.listdir, ZipFS.openRead,
      ZipFS.readbytes, ZipFS.details, hbasic, hzg, dq_listdir z p cs hv, dq_exists z p cs hv,
      dq_isfile z p cs hv, Option.isSome_none, hnorm, habs, mkp_true_beq hcl]
    have hc : cs ≠ [] := by
      intro e; subst e; rw [get_nil] at hg; cases hg
    simp [hc, dq_getinfo z _ cs hvt, hzg]
  | some n =>
    cases n with
    | file b =>
      have hzg : ∃ b', z.dir.get cs = some (.file b') := by
        simp only [kindAt, hg, Option.map_some, Node.isDir] at hkc
        cases hz : z.dir.get cs with
        | none => rw [hz] at hkc; simp at hkc
        | some m =>
          cases m with
          | file b' => exact ⟨b', rfl⟩
          | dir es => rw [hz] at hkc; simp [Node.isDir] at hkc
      obtain ⟨b', hzg⟩ := hzg
      have hc : cs ≠ [] := by
        intro e; subst e; rw [get_nil] at hg; cases hg; simp [Node.isDir] at hd
      have hlk := hm cs (.file b) hc hg
      simp only [Node.isDir, zipName_file hcl, fileBytes] at hlk
      simp only [ZipFS.obs, ZipFS.exists_, ZipFS.isdir, ZipFS.isfile, ZipFS.listdir, ZipFS.openRead,
        ZipFS.readbytes, ZipFS.details, hbasic, hzg, dq_listdir z p cs hv, dq_exists z p cs hv,
        dq_isfile z p cs hv, dq_isdir z p cs hv, hzn, hnorm, habs, mkp_true_beq hcl,
        ZipFS.memberOf, hlk, Node.isDir]
      simp [hc, dq_getinfo z _ cs hvt, hzg, Res.map]
    | dir es =>
      have hzg : ∃ es', z.dir.get cs = some (.dir es') := by
        simp only [kindAt, hg, Option.map_some, Node.isDir] at hkc
        cases hz : z.dir.get cs with
        | none => rw [hz] at hkc; simp at hkc
        | some m =>
          cases m with
          | dir es' => exact ⟨es', rfl⟩
          | file b' => rw [hz] at hkc; simp [Node.isDir] at hkc
      obtain ⟨es', hzg⟩ := hzg
      have hperm := names_perm_of_kinds hzw ht hk hzg hg
      simp only [ZipFS.obs, ZipFS.exists_, ZipFS.isdir, ZipFS.isfile, ZipFS.listdir, ZipFS.openRead,
        ZipFS.details, hbasic, hzg, dq_listdir z p cs hv, dq_exists z p cs hv,
        dq_isdir z p cs hv, hnorm, habs, mkp_true_beq hcl, Node.isDir]
      refine ⟨by simp, by simp, by simp, ⟨_, rfl, hperm⟩, by simp, ?_⟩
      by_cases hc : cs = []
      · simp [hc]
      · have hlk := hm cs (.dir es) hc hg
        simp only [Node.isDir, zipName_dir hcl hc, fileBytes] at hlk
        simp [hc, dq_getinfo z _ cs hvt, hzg, hzn, forcedir_mkp_false hcl hc, hlk]

end Fs.ZipLemmas
