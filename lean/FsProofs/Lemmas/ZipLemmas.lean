/-
  ReadZipFS at the level of its API: what every query answers at a validated path, given the
  kinds of the rebuilt directory and the members the zip names resolve to.
-/
import FsProofs.Lemmas.ArchiveLemmas

namespace Fs.ZipLemmas
open Fs Fs.Path Fs.PathSpec Fs.PathLemmas Fs.Archive Fs.ArchiveLemmas

theorem mkp_true_beq {cs : List Name} (h : Clean cs) : (mkp true cs == ['/']) = decide (cs = []) := by
  by_cases hc : cs = []
  · subst hc; rfl
  · have : mkp true cs ≠ ['/'] := fun e => hc ((mkp_eq_slash_iff h).1 e).2
    simp [hc, this]

section
variable (z : ZipFS) (p : Str) (cs : List Name) (hv : Ref.validate p = .ok cs)
include hv

theorem dq_exists : z.dq (.exists_ p) = .ok (.bool (z.dir.get cs).isSome) := by
  simp only [ZipFS.dq, step_exists _ _ _ hv, Ref.step1, Ref.done]
theorem dq_isdir : z.dq (.isdir p) =
    .ok (.bool (match z.dir.get cs with | some (.dir _) => true | _ => false)) := by
  simp only [ZipFS.dq, step_isdir _ _ _ hv, Ref.step1, Ref.done]
  cases z.dir.get cs with
  | none => rfl
  | some n => cases n <;> rfl
theorem dq_isfile : z.dq (.isfile p) =
    .ok (.bool (match z.dir.get cs with | some (.file _) => true | _ => false)) := by
  simp only [ZipFS.dq, step_isfile _ _ _ hv, Ref.step1, Ref.done]
  cases z.dir.get cs with
  | none => rfl
  | some n => cases n <;> rfl
theorem dq_listdir : z.dq (.listdir p) =
    (match z.dir.get cs with
     | none => .err .ResourceNotFound
     | some (.file _) => .err .DirectoryExpected
     | some (.dir es) => .ok (.names (Ents.names es))) := by
  simp only [ZipFS.dq, step_listdir _ _ _ hv, Ref.step1]
  cases z.dir.get cs with
  | none => rfl
  | some n => cases n <;> rfl
theorem dq_getinfo : z.dq (.getinfo p) =
    (match z.dir.get cs with
     | none => .err .ResourceNotFound
     | some (.file b) => .ok (.info (Ref.lastName cs) false b.length)
     | some (.dir _) => .ok (.info (Ref.lastName cs) true 0)) := by
  simp only [ZipFS.dq, step_getinfo _ _ _ hv, Ref.step1]
  cases z.dir.get cs with
  | none => rfl
  | some n => cases n <;> rfl
end

theorem assocGet_mem {k v : Str} {nm : List (Str × Str)} (h : assocGet k nm = some v) : (k, v) ∈ nm := by
  induction nm with
  | nil => simp [assocGet] at h
  | cons e nm ih =>
    obtain ⟨k', v'⟩ := e
    simp only [assocGet] at h
    by_cases hk : k' = k
    · subst hk; simp at h; subst h; exact List.mem_cons_self
    · simp only [hk, if_false] at h
      exact List.mem_cons_of_mem _ (ih h)

/-- when every remembered stored name is the normalised name itself, the lookup is the identity -/
theorem stored_eq {z : ZipFS} (h : ∀ e ∈ z.names, e.1 = e.2) (x : Str) : z.stored x = x := by
  unfold ZipFS.stored
  cases hg : assocGet x z.names with
  | none => rfl
  | some v => exact (h _ (assocGet_mem hg)).symm

/-- everything `ReadZipFS` answers at a validated path, from the kinds of its directory and the
members its zip names resolve to -/
theorem zip_obs_agree {t : Node} {z : ZipFS} (mt : List Name → Int)
    (ht : t.wf = true) (hd : t.isDir = true) (hzw : z.dir.wf = true)
    (hk : ∀ q, kindAt z.dir q = kindAt t q) (hnames : ∀ e ∈ z.names, e.1 = e.2)
    (hm : ∀ cs n, cs ≠ [] → t.get cs = some n →
      lookupLast z.members (zipName cs n.isDir) =
        some ⟨zipName cs n.isDir, n.isDir, fileBytes n, zipTime (mt cs)⟩)
    {p : Str} {cs : List Name} (hv : Ref.validate p = .ok cs) :
    Agree t (zipTime (mt cs)) cs (z.obs p) := by
  obtain ⟨hac, hnorm⟩ := validate_ok hv
  have hcl := hac.clean
  have hvt : Ref.validate (mkp true cs) = .ok cs := validate_mkp true hac
  have hvf : Ref.validate (mkp false cs) = .ok cs := validate_mkp false hac
  have habs : abspath (mkp (startsWithSlash p) cs) = mkp true cs := abspath_mkp hcl
  have hrel : relpath (mkp (startsWithSlash p) cs) = mkp false cs := relpath_mkp hcl
  have hkc := hk cs
  -- the basic namespace
  have hbasic : z.basic p = match z.dir.get cs with
      | none => .err .ResourceNotFound
      | some n => .ok (Ref.lastName cs, n.isDir) := by
    simp only [ZipFS.basic, hnorm, habs, mkp_true_beq hcl]
    by_cases hc : cs = []
    · subst hc
      have hr : z.dir.isDir = true := by
        have := hk []
        simpa [kindAt, get_nil, hd] using this
      simp [get_nil, hr, Ref.lastName]
    · simp only [hc, decide_false, Bool.false_eq_true, if_false, dq_getinfo z _ cs hvt]
      cases z.dir.get cs with
      | none => rfl
      | some n => cases n <;> rfl
  have hzn : z.zipNameOf p = match z.dir.get cs with
      | some (.dir _) => .ok (forcedir (mkp false cs))
      | _ => .ok (mkp false cs) := by
    simp only [ZipFS.zipNameOf, hnorm, hrel, dq_isdir z _ cs hvf, stored_eq hnames]
    cases z.dir.get cs with
    | none => rfl
    | some n => cases n <;> rfl
  unfold Agree
  cases hg : t.get cs with
  | none =>
    have hzg : z.dir.get cs = none := by
      simp only [kindAt, hg, Option.map_none, Option.map_eq_none_iff] at hkc; exact hkc
    simp only [ZipFS.obs, ZipFS.exists_, ZipFS.isdir, ZipFS.isfile, ZipFS.listdir, ZipFS.openRead,
      ZipFS.readbytes, ZipFS.details, hbasic, hzg, dq_listdir z p cs hv, dq_exists z p cs hv,
      dq_isfile z p cs hv, Option.isSome_none, hnorm, habs, mkp_true_beq hcl]
    have hc : cs ≠ [] := by
      intro e; subst e; rw [get_nil] at hg; cases hg
    simp [hc, dq_getinfo z _ cs hvt, hzg]
  | some n =>
    cases n with
    | file b =>
      have hzg : ∃ b', z.dir.get cs = some (.file b') := by
        simp only [kindAt, hg, Option.map_some, Node.isDir] at hkc
        cases hz : z.dir.get cs with
        | none => rw [hz] at hkc; simp at hkc
        | some m =>
          cases m with
          | file b' => exact ⟨b', rfl⟩
          | dir es => rw [hz] at hkc; simp [Node.isDir] at hkc
      obtain ⟨b', hzg⟩ := hzg
      have hc : cs ≠ [] := by
        intro e; subst e; rw [get_nil] at hg; cases hg; simp [Node.isDir] at hd
      have hlk := hm cs (.file b) hc hg
      simp only [Node.isDir, zipName_file hcl, fileBytes] at hlk
      simp only [ZipFS.obs, ZipFS.exists_, ZipFS.isdir, ZipFS.isfile, ZipFS.listdir, ZipFS.openRead,
        ZipFS.readbytes, ZipFS.details, hbasic, hzg, dq_listdir z p cs hv, dq_exists z p cs hv,
        dq_isfile z p cs hv, dq_isdir z p cs hv, hzn, hnorm, habs, mkp_true_beq hcl,
        ZipFS.memberOf, hlk, Node.isDir]
      simp [hc, dq_getinfo z _ cs hvt, hzg, Res.map]
    | dir es =>
      have hzg : ∃ es', z.dir.get cs = some (.dir es') := by
        simp only [kindAt, hg, Option.map_some, Node.isDir] at hkc
        cases hz : z.dir.get cs with
        | none => rw [hz] at hkc; simp at hkc
        | some m =>
          cases m with
          | dir es' => exact ⟨es', rfl⟩
          | file b' => rw [hz] at hkc; simp [Node.isDir] at hkc
      obtain ⟨es', hzg⟩ := hzg
      have hperm := names_perm_of_kinds hzw ht hk hzg hg
      simp only [ZipFS.obs, ZipFS.exists_, ZipFS.isdir, ZipFS.isfile, ZipFS.listdir, ZipFS.openRead,
        ZipFS.details, hbasic, hzg, dq_listdir z p cs hv, dq_exists z p cs hv,
        dq_isdir z p cs hv, hnorm, habs, mkp_true_beq hcl, Node.isDir]
      refine ⟨by simp, by simp, by simp, ⟨_, rfl, hperm⟩, by simp, ?_⟩
      by_cases hc : cs = []
      · simp [hc]
      · have hlk := hm cs (.dir es) hc hg
        simp only [Node.isDir, zipName_dir hcl hc, fileBytes] at hlk
        simp [hc, dq_getinfo z _ cs hvt, hzg, hzn, forcedir_mkp_false hcl hc, hlk]


/-! ### any member list: every listed file has a stored name that is in the archive -/

theorem blocked_false_prefix {T : Node} (pre cs : List Name) (h : Ref.blockedByFile T pre cs = false) :
    ∀ q, q <+: cs → q ≠ cs → kindAt T (pre ++ q) ≠ some false := by
  induction cs generalizing pre with
  | nil => intro q hq hne; rw [List.prefix_nil] at hq; exact absurd hq hne
  | cons c cs ih =>
    simp only [Ref.blockedByFile, Bool.or_eq_false_iff] at h
    obtain ⟨h1, h2⟩ := h
    intro q hq hne
    rcases List.prefix_cons_iff.1 hq with rfl | ⟨q', rfl, hq'⟩
    · simp only [List.append_nil, kindAt]
      cases hg : T.get pre with
      | none => simp
      | some n =>
        cases n with
        | dir es => simp [Node.isDir]
        | file d => rw [hg] at h1; simp at h1
    · by_cases hcs : cs = []
      · subst hcs
        rw [List.prefix_nil] at hq'
        subst hq'
        exact absurd rfl hne
      · simp only [hcs, if_false] at h2
        have := ih (pre ++ [c]) h2 q' hq' (by intro e; exact hne (by rw [e]))
        simpa using this

/-- files of `T'` are files of `T`, except possibly at `extra` -/
def FilesFrom (T' T : Node) (extra : Option (List Name)) : Prop :=
  ∀ r, kindAt T' r = some false → kindAt T r = some false ∨ extra = some r

theorem step_makedirs_files (T : Node) (p : Str) (s' : Ref.State) (v : Ref.Val)
    (h : Ref.step ⟨T, false⟩ (.makedirs p true) = (s', .ok v)) :
    s'.closed = false ∧ FilesFrom s'.root T none := by
  cases hv : Ref.validate p with
  | err e =>
    simp only [Ref.step, Ref.Op.paths, mapM_single_err p e hv, Ref.fail] at h
    cases h
  | ok cs =>
    rw [step_makedirs T p cs hv] at h
    simp only [Ref.step1] at h
    by_cases hb : Ref.blockedByFile T [] cs = true
    · simp [hb, Ref.fail] at h
    · simp only [hb, Bool.false_eq_true, if_false] at h
      cases hg : T.get cs with
      | some n =>
        rw [hg] at h
        cases n with
        | dir es =>
          simp only [if_true, Ref.done, Prod.mk.injEq] at h
          obtain ⟨rfl, _⟩ := h
          exact ⟨rfl, fun r hr => Or.inl hr⟩
        | file d => simp [Ref.fail] at h
      | none =>
        rw [hg] at h
        simp only [Ref.upd, Prod.mk.injEq] at h
        obtain ⟨rfl, _⟩ := h
        refine ⟨rfl, ?_⟩
        have hbf : Ref.blockedByFile T [] cs = false := by simpa using hb
        have hTroot : kindAt T [] ≠ some false := by
          by_cases hc : cs = []
          · subst hc; rw [get_nil] at hg; cases hg
          · have := blocked_false_prefix [] cs hbf [] List.nil_prefix (fun e => hc e.symm)
            simpa using this
        have hroot : kindAt T [] = some true := by
          simp only [kindAt, get_nil, Option.map_some] at hTroot ⊢
          cases hd : T.isDir
          · simp [hd] at hTroot
          · rfl
        have hnb : ∀ q, q <+: cs → kindAt T ([] ++ q) ≠ some false := by
          intro q hq
          by_cases hqc : q = cs
          · subst hqc; simp [kindAt, hg]
          · exact blocked_false_prefix [] cs hbf q hq hqc
        obtain ⟨_, p2⟩ := kindAt_mkdirs (T := T) [] cs hroot hnb
        intro r hr
        rcases p2 r with h1 | ⟨_, h2, _⟩
        · left; rw [← h1]; exact hr
        · simp only at hr; rw [h2] at hr; cases hr

theorem step_create_files (T : Node) (p : Str) (s' : Ref.State) (v : Ref.Val)
    (h : Ref.step ⟨T, false⟩ (.create p false) = (s', .ok v)) :
    ∃ cs, Ref.validate p = .ok cs ∧ s'.closed = false ∧ FilesFrom s'.root T (some cs) := by
  cases hv : Ref.validate p with
  | err e =>
    simp only [Ref.step, Ref.Op.paths, mapM_single_err p e hv, Ref.fail] at h
    cases h
  | ok cs =>
    refine ⟨cs, rfl, ?_⟩
    rw [step_create T p cs hv] at h
    simp only [Ref.step1, Bool.not_false, Bool.true_and] at h
    cases hg : T.get cs with
    | some n =>
      simp only [hg, Option.isSome_some, if_true, Ref.done, Prod.mk.injEq] at h
      obtain ⟨rfl, _⟩ := h
      exact ⟨rfl, fun r hr => Or.inl hr⟩
    | none =>
      simp only [hg, Option.isSome_none, Bool.false_eq_true, if_false, Ref.writeFile] at h
      by_cases hc : cs = []
      · simp [hc, Ref.fail] at h
      · simp only [hc, if_false, Ref.parentOf] at h
        cases hp : T.get cs.dropLast with
        | none => simp [hp, Ref.fail] at h
        | some n =>
          cases n with
          | file d => simp [hp, Ref.fail] at h
          | dir es =>
            simp only [hp, Ref.upd, Prod.mk.injEq] at h
            obtain ⟨rfl, _⟩ := h
            refine ⟨rfl, ?_⟩
            have hset := kindAt_set (T := T) (cs := cs) (v := .file []) hc
              (by simp [kindAt, hp, Node.isDir]) hg (leaf_file [])
            intro r hr
            simp only at hr
            rw [hset r] at hr
            by_cases hrc : r = cs
            · right; rw [hrc]
            · left; simpa [hrc] using hr

theorem step_makedirs_err (T : Node) (p : Str) (s' : Ref.State) (e : Err)
    (h : Ref.step ⟨T, false⟩ (.makedirs p true) = (s', .err e)) : s' = ⟨T, false⟩ := by
  cases hv : Ref.validate p with
  | err e' =>
    simp only [Ref.step, Ref.Op.paths, mapM_single_err p e' hv, Ref.fail, Bool.false_eq_true, if_false,
      Prod.mk.injEq] at h
    exact h.1.symm
  | ok cs =>
    rw [step_makedirs T p cs hv] at h
    simp only [Ref.step1] at h
    split at h
    · simp only [Ref.fail, Prod.mk.injEq] at h; exact h.1.symm
    · split at h
      · simp only [if_true, Ref.done, Prod.mk.injEq] at h; exact h.1.symm
      · simp only [if_true, Ref.fail, Prod.mk.injEq] at h; exact h.1.symm
      · simp [Ref.upd] at h

theorem step_create_err (T : Node) (p : Str) (s' : Ref.State) (e : Err)
    (h : Ref.step ⟨T, false⟩ (.create p false) = (s', .err e)) : s' = ⟨T, false⟩ := by
  cases hv : Ref.validate p with
  | err e' =>
    simp only [Ref.step, Ref.Op.paths, mapM_single_err p e' hv, Ref.fail, Bool.false_eq_true, if_false,
      Prod.mk.injEq] at h
    exact h.1.symm
  | ok cs =>
    rw [step_create T p cs hv] at h
    simp only [Ref.step1, Bool.not_false, Bool.true_and] at h
    split at h
    · simp [Ref.done] at h
    · simp only [Ref.writeFile] at h
      split at h
      · simp only [Ref.fail, Prod.mk.injEq] at h; exact h.1.symm
      · split at h
        · simp only [Ref.fail, Prod.mk.injEq] at h; exact h.1.symm
        · simp only [Ref.fail, Prod.mk.injEq] at h; exact h.1.symm
        · split at h
          · simp only [Ref.fail, Prod.mk.injEq] at h; exact h.1.symm
          · simp [Ref.upd] at h
          · simp [Ref.upd] at h

/-- every file of the directory is remembered under its normalised path, with a stored name from `seen` -/
def Named (T : Node) (nm : List (Str × Str)) (seen : List Str) : Prop :=
  ∀ cs, kindAt T cs = some false → ∃ st, assocGet (mkp false cs) nm = some st ∧ st ∈ seen

theorem endsWithSlash_forcedir (x : Str) : endsWithSlash (forcedir x) = true := by
  unfold forcedir
  by_cases h : endsWithSlash x = true
  · simp [h]
  · simp only [h, Bool.false_eq_true, if_false]
    simp [endsWithSlash, startsWithSlash]

theorem kind_file_clean {T : Node} (hT : T.wf = true) {cs : List Name} (h : kindAt T cs = some false) :
    Clean cs ∧ cs ≠ [] ∨ cs = [] := by
  by_cases hc : cs = []
  · exact Or.inr hc
  · left
    simp only [kindAt, Option.map_eq_some_iff] at h
    obtain ⟨n, hn, _⟩ := h
    exact ⟨(wf_get hT hn).1.clean, hc⟩

theorem dirStep_named {T : Node} (hT : T.wf = true) {nm : List (Str × Str)} {seen : List Str}
    (hN : Named T nm seen) (name k : Str) (s' : Ref.State)
    (hstep : dirStep ⟨T, false⟩ name = (s', none)) (hk : zipKey name = .ok k) :
    Named s'.root ((k, name) :: nm) (name :: seen) := by
  have hw' := (dirStep_wf ⟨T, false⟩ hT rfl name)
  rw [hstep] at hw'
  have keep : ∀ cs, kindAt T cs = some false → mkp false cs ≠ k →
      ∃ st, assocGet (mkp false cs) ((k, name) :: nm) = some st ∧ st ∈ name :: seen := by
    intro cs hcs hne
    obtain ⟨st, h1, h2⟩ := hN cs hcs
    refine ⟨st, ?_, List.mem_cons_of_mem _ h2⟩
    simp only [assocGet]
    have : ¬ k = mkp false cs := fun e => hne e.symm
    simp [this, h1]
  simp only [dirStep] at hstep
  by_cases hes : endsWithSlash name = true
  · -- a directory member
    simp only [hes, if_true] at hstep
    cases hr : Ref.step ⟨T, false⟩ (.makedirs name true) with
    | mk s1 o1 =>
      rw [hr] at hstep
      cases o1 with
      | err e => simp [outErr] at hstep
      | ok v =>
        simp only [outErr, Prod.mk.injEq, and_true] at hstep
        subst hstep
        obtain ⟨_, hf⟩ := step_makedirs_files T name s1 v hr
        intro cs hcs
        rcases hf cs hcs with h | h
        · apply keep cs h
          intro e
          -- k ends with a slash, the join of a file path does not
          simp only [zipKey] at hk
          cases hn : normpath name with
          | err e' => rw [hn] at hk; cases hk
          | ok n =>
            rw [hn] at hk
            simp only [hes, if_true, Res.ok.injEq] at hk
            have hke : endsWithSlash k = true := by rw [← hk]; exact endsWithSlash_forcedir _
            rcases kind_file_clean hT h with ⟨hcl, hne⟩ | hnil
            · rw [← e, endsWithSlash_mkp hcl hne] at hke; cases hke
            · subst hnil
              rw [← e] at hke
              simp [mkp, joinWith, endsWithSlash, startsWithSlash] at hke
        · cases h
  · -- a file member
    simp only [hes, Bool.false_eq_true, if_false] at hstep
    cases hr : Ref.step ⟨T, false⟩ (.makedirs (dirname name) true) with
    | mk s1 o1 =>
      rw [hr] at hstep
      cases o1 with
      | err e => simp at hstep
      | ok v =>
        simp only at hstep
        obtain ⟨hc1, hf1⟩ := step_makedirs_files T (dirname name) s1 v hr
        obtain ⟨T1, c1⟩ := s1
        simp only at hc1 hf1
        subst hc1
        cases hr2 : Ref.step ⟨T1, false⟩ (.create name false) with
        | mk s2 o2 =>
          rw [hr2] at hstep
          cases o2 with
          | err e => simp [outErr] at hstep
          | ok v2 =>
            simp only [outErr, Prod.mk.injEq, and_true] at hstep
            subst hstep
            obtain ⟨cs0, hv0, _, hf2⟩ := step_create_files T1 name s2 v2 hr2
            obtain ⟨hac0, hn0⟩ := validate_ok hv0
            have hk' : k = mkp false cs0 := by
              simp only [zipKey, hn0, hes, Bool.false_eq_true, if_false, Res.ok.injEq,
                relpath_mkp hac0.clean] at hk
              exact hk.symm
            intro cs hcs
            by_cases hcc : mkp false cs = k
            · exact ⟨name, by simp [assocGet, hcc], List.mem_cons_self⟩
            · rcases hf2 cs hcs with h | h
              · rcases hf1 cs h with h' | h'
                · exact keep cs h' hcc
                · cases h'
              · cases h
                exact absurd hk'.symm hcc

theorem named_of_filesFrom {T T' : Node} {nm : List (Str × Str)} {seen : List Str} (hN : Named T nm seen)
    (hf : FilesFrom T' T none) : Named T' nm seen := by
  intro cs hcs
  rcases hf cs hcs with h | h
  · exact hN cs h
  · cases h

/-- a member at which the loop aborts leaves no file behind -/
theorem dirStep_abort_files (T : Node) (name : Str) (s' : Ref.State) (e : Err)
    (hstep : dirStep ⟨T, false⟩ name = (s', some e)) : FilesFrom s'.root T none := by
  simp only [dirStep] at hstep
  by_cases hes : endsWithSlash name = true
  · simp only [hes, if_true] at hstep
    cases hr : Ref.step ⟨T, false⟩ (.makedirs name true) with
    | mk s1 o1 =>
      rw [hr] at hstep
      cases o1 with
      | ok v => simp [outErr] at hstep
      | err e1 =>
        simp only [outErr, Prod.mk.injEq] at hstep
        obtain ⟨rfl, _⟩ := hstep
        rw [step_makedirs_err T name s1 e1 hr]
        exact fun r hr => Or.inl hr
  · simp only [hes, Bool.false_eq_true, if_false] at hstep
    cases hr : Ref.step ⟨T, false⟩ (.makedirs (dirname name) true) with
    | mk s1 o1 =>
      rw [hr] at hstep
      cases o1 with
      | err e1 =>
        simp only [Prod.mk.injEq] at hstep
        obtain ⟨rfl, _⟩ := hstep
        rw [step_makedirs_err T _ s1 e1 hr]
        exact fun r hr => Or.inl hr
      | ok v =>
        simp only at hstep
        obtain ⟨hc1, hf1⟩ := step_makedirs_files T (dirname name) s1 v hr
        obtain ⟨T1, c1⟩ := s1
        simp only at hc1 hf1
        subst hc1
        cases hr2 : Ref.step ⟨T1, false⟩ (.create name false) with
        | mk s2 o2 =>
          rw [hr2] at hstep
          cases o2 with
          | ok v2 => simp [outErr] at hstep
          | err e2 =>
            simp only [outErr, Prod.mk.injEq] at hstep
            obtain ⟨rfl, _⟩ := hstep
            rw [step_create_err T1 name s2 e2 hr2]
            exact hf1

/-- a member that was processed has a `_zip_names` key -/
theorem dirStep_ok_zipKey (T : Node) (name : Str) (s' : Ref.State)
    (hstep : dirStep ⟨T, false⟩ name = (s', none)) : ∃ k, zipKey name = .ok k := by
  have hval : ∃ cs, Ref.validate name = .ok cs := by
    simp only [dirStep] at hstep
    by_cases hes : endsWithSlash name = true
    · simp only [hes, if_true] at hstep
      cases hv : Ref.validate name with
      | ok cs => exact ⟨cs, rfl⟩
      | err e =>
        simp [Ref.step, Ref.Op.paths, mapM_single_err name e hv, Ref.fail, outErr] at hstep
    · simp only [hes, Bool.false_eq_true, if_false] at hstep
      cases hr : Ref.step ⟨T, false⟩ (.makedirs (dirname name) true) with
      | mk s1 o1 =>
        rw [hr] at hstep
        cases o1 with
        | err e1 => simp at hstep
        | ok v =>
          simp only at hstep
          obtain ⟨hc1, _⟩ := step_makedirs_files T (dirname name) s1 v hr
          obtain ⟨T1, c1⟩ := s1
          simp only at hc1
          subst hc1
          cases hr2 : Ref.step ⟨T1, false⟩ (.create name false) with
          | mk s2 o2 =>
            rw [hr2] at hstep
            cases o2 with
            | err e2 => simp [outErr] at hstep
            | ok v2 =>
              obtain ⟨cs0, hv0, _⟩ := step_create_files T1 name s2 v2 hr2
              exact ⟨cs0, hv0⟩
  obtain ⟨cs, hv⟩ := hval
  obtain ⟨_, hn⟩ := validate_ok hv
  simp only [zipKey, hn]
  exact ⟨_, rfl⟩

theorem buildDir_named (names : List Str) (s : Ref.State) (hs : s.root.wf = true) (hc : s.closed = false)
    (nm : List (Str × Str)) (seen : List Str) (hN : Named s.root nm seen) :
    Named (buildDir s nm names).1.root (buildDir s nm names).2.1 (names.reverse ++ seen) := by
  induction names generalizing s nm seen with
  | nil => simpa [buildDir] using hN
  | cons n ns ih =>
    obtain ⟨T, c⟩ := s
    simp only at hs hc hN
    subst hc
    have hw := dirStep_wf ⟨T, false⟩ hs rfl n
    have weaken : ∀ {T' : Node} {nm' : List (Str × Str)}, Named T' nm' seen →
        Named T' nm' ((n :: ns).reverse ++ seen) := by
      intro T' nm' h cs hcs
      obtain ⟨st, h1, h2⟩ := h cs hcs
      exact ⟨st, h1, List.mem_append_right _ h2⟩
    simp only [buildDir]
    cases hd : dirStep ⟨T, false⟩ n with
    | mk s' e =>
      rw [hd] at hw
      cases e with
      | some e =>
        -- aborted: `dirStep` changes the directory only by successful steps before the failing one;
        -- what is there was named before or is a fresh directory … handled by the general frame:
        simp only
        exact weaken (named_of_filesFrom hN (dirStep_abort_files T n s' e hd))
      | none =>
        simp only
        cases hk : zipKey n with
        | err e =>
          obtain ⟨k, hk'⟩ := dirStep_ok_zipKey T n s' hd
          rw [hk] at hk'; cases hk' 
        | ok k =>
          simp only
          have h1 := dirStep_named hs hN n k s' hd hk
          have := ih s' hw.1 hw.2 ((k, n) :: nm) (n :: seen) h1
          simpa [List.reverse_cons, List.append_assoc] using this


theorem lookupLast_of_mem_names {ms : List Member} {st : Str} (h : st ∈ ms.map (·.name)) :
    ∃ m, m ∈ ms ∧ m.name = st ∧ lookupLast ms st = some m := by
  unfold lookupLast
  obtain ⟨m0, hm0, hn0⟩ := List.mem_map.1 h
  cases hf : ms.reverse.find? (fun m => m.name == st) with
  | none =>
    rw [List.find?_eq_none] at hf
    have := hf m0 (List.mem_reverse.2 hm0)
    simp [hn0] at this
  | some m =>
    have h1 := List.find?_some hf
    have h2 := List.mem_of_find?_eq_some hf
    exact ⟨m, List.mem_reverse.1 h2, by simpa using h1, rfl⟩

/-- the directory of any archive remembers, for each of its files, a stored name that is a member -/
theorem readZip_named (ms : List Member) : Named (readZip ms).dir (readZip ms).names (ms.map (·.name)) := by
  have h0 : Named (Ref.State.empty).root [] [] := by
    intro cs hcs
    cases cs with
    | nil => simp [kindAt, Ref.State.empty, get_nil, Node.isDir] at hcs
    | cons c cs => simp [kindAt, Ref.State.empty, get_cons_dir, Ents.lookup] at hcs
  have := buildDir_named (ms.map (·.name)) Ref.State.empty (by decide) rfl [] [] h0
  intro cs hcs
  obtain ⟨st, h1, h2⟩ := this cs hcs
  refine ⟨st, h1, ?_⟩
  simpa using h2

/-- EVERY LISTED FILE CAN BE READ AND STAT'ED, whatever the member names: at any path string that
validates to the components of a file of the directory, `openbin`, `readbytes` and
`getinfo(details)` answer with the bytes / size / mtime of one member of the archive -/
theorem zip_listed_file_readable (ms : List Member) {p : Str} {cs : List Name}
    (hv : Ref.validate p = .ok cs) {b : Bytes} (hg : (readZip ms).dir.get cs = some (.file b)) :
    ∃ m, m ∈ ms ∧ (readZip ms).openRead p = .ok m.data ∧ (readZip ms).readbytes p = .ok m.data ∧
      (readZip ms).details p = .ok ⟨Ref.lastName cs, false, some m.data.length, some m.mtime⟩ := by
  obtain ⟨hac, hnorm⟩ := validate_ok hv
  have hcl := hac.clean
  have hvt : Ref.validate (mkp true cs) = .ok cs := validate_mkp true hac
  have hvf : Ref.validate (mkp false cs) = .ok cs := validate_mkp false hac
  have habs : abspath (mkp (startsWithSlash p) cs) = mkp true cs := abspath_mkp hcl
  have hrel : relpath (mkp (startsWithSlash p) cs) = mkp false cs := relpath_mkp hcl
  have hkf : kindAt (readZip ms).dir cs = some false := by simp [kindAt, hg, Node.isDir]
  obtain ⟨st, hst1, hst2⟩ := readZip_named ms cs hkf
  obtain ⟨m, hm1, _, hm3⟩ := lookupLast_of_mem_names hst2
  have hmem : lookupLast (readZip ms).members st = some m := hm3
  have hc : cs ≠ [] := by
    intro e; subst e
    have hroot : (readZip ms).dir.isDir = true := by
      have := buildDir_isDir (ms.map (·.name)) Ref.State.empty rfl []
      simpa [readZip, Ref.State.empty, Node.isDir] using this
    rw [get_nil, Option.some.injEq] at hg
    rw [hg] at hroot
    simp [Node.isDir] at hroot
  have hstored : (readZip ms).stored (mkp false cs) = st := by simp [ZipFS.stored, hst1]
  have hzn : (readZip ms).zipNameOf p = .ok st := by
    simp only [ZipFS.zipNameOf, hnorm, hrel, dq_isdir _ _ cs hvf, hg, hstored]
  refine ⟨m, hm1, ?_, ?_, ?_⟩
  · simp only [ZipFS.openRead, dq_exists _ p cs hv, dq_isdir _ p cs hv, hg, hzn, ZipFS.memberOf, hmem]
    simp [Res.map]
  · simp only [ZipFS.readbytes, dq_isfile _ p cs hv, hg, hzn, ZipFS.memberOf, hmem]
    simp [Res.map]
  · simp only [ZipFS.details, hnorm, habs, mkp_true_beq hcl, hc, decide_false, Bool.false_eq_true, if_false,
      dq_getinfo _ _ cs hvt, hg, hzn, hmem]

end Fs.ZipLemmas
