/-
  Helper lemmas for `MultiRefines.multi_mutators_refine_when_unshadowed`: the reference semantics is LOCAL
  to the top-level entry a path goes through.

  `act1`        what `Ref.step1` does, as data: it looks at the node at the path, at the TYPE of the parent
                and at whether a file blocks the path — nothing else — and answers / sets / deletes / makes
                the missing directories at that path (`step1_act`);
  `AgreeAt c`   two directory trees hold the same entry (sub-tree) under the top-level name `c`;
  `step1_agree` on two trees that agree at `c`, an operation on a path `c :: rest` gives the same answer, the
                resulting trees agree at `c`, and every OTHER top-level entry of either tree is untouched.
-/
import FsProofs.Lemmas.MultiFsListing

namespace Fs.MultiFsLemmas
open Fs Fs.Ref Fs.MultiFs

/-- what `step1` does to the tree at the path -/
inductive Act where
  | fail (e : Err)
  | done (v : Val)
  | set (n : Node) (v : Val)
  | del (v : Val)
  | mkdirs (v : Val)
  | clear

def applyAct (s : State) (cs : List Name) : Act → State × Out
  | .fail e => fail s e
  | .done v => done s v
  | .set n v => upd s (s.root.set cs n) v
  | .del v => upd s (s.root.del cs) v
  | .mkdirs v => upd s (mkdirs [] cs s.root) v
  | .clear => upd s (.dir [])

/-- `writeFile` as data (`pk`: the parent is a directory / a file / missing) -/
def wfAct (cs : List Name) (g : Option Node) (pk : Option Bool) (f : Option Bytes → Bytes) (v : Val) : Act :=
  if cs = [] then .fail .FileExpected
  else match pk with
    | none => .fail .ResourceNotFound
    | some false => .fail .ResourceNotFound
    | some true =>
      match g with
      | some (.dir _) => .fail .FileExpected
      | some (.file b) => .set (.file (f (some b))) v
      | none => .set (.file (f none)) v

/-- `step1` as data: `g` the node at the path, `pk` the type of the parent, `bl` whether a file blocks it -/
def act1 (cs : List Name) (g : Option Node) (pk : Option Bool) (bl : Bool) : Op → Act
  | .exists_ _ => .done (.bool g.isSome)
  | .isdir _ => .done (.bool (match g with | some (.dir _) => true | _ => false))
  | .isfile _ => .done (.bool (match g with | some (.file _) => true | _ => false))
  | .listdir _ => match g with
    | none => .fail .ResourceNotFound
    | some (.file _) => .fail .DirectoryExpected
    | some (.dir es) => .done (.names (Ents.names es))
  | .isempty _ => match g with
    | none => .fail .ResourceNotFound
    | some (.file _) => .fail .DirectoryExpected
    | some (.dir es) => .done (.bool es.isEmpty)
  | .getsize _ => match g with
    | none => .fail .ResourceNotFound
    | some (.file b) => .done (.nat b.length)
    | some (.dir _) => .done (.nat 0)
  | .gettype _ => match g with
    | none => .fail .ResourceNotFound
    | some (.file _) => .done (.nat 2)
    | some (.dir _) => .done (.nat 1)
  | .getinfo _ => match g with
    | none => .fail .ResourceNotFound
    | some (.file b) => .done (.info (lastName cs) false b.length)
    | some (.dir _) => .done (.info (lastName cs) true 0)
  | .readbytes _ => match g with
    | none => .fail .ResourceNotFound
    | some (.dir _) => .fail .FileExpected
    | some (.file b) => .done (.bytes b)
  | .makedir _ recreate =>
    if cs = [] then (if recreate then .done .unit else .fail .DirectoryExists)
    else match pk with
      | none => .fail .ResourceNotFound
      | some false => .fail .ResourceNotFound
      | some true =>
        match g with
        | some (.dir _) => if recreate then .done .unit else .fail .DirectoryExists
        | some (.file _) => if recreate then .fail .DirectoryExpected else .fail .DirectoryExists
        | none => .set (.dir []) .unit
  | .makedirs _ recreate =>
    if bl then .fail .DirectoryExpected
    else match g with
      | some (.dir _) => if recreate then .done .unit else .fail .DirectoryExists
      | some (.file _) => if recreate then .fail .DirectoryExpected else .fail .DirectoryExists
      | none => .mkdirs .unit
  | .writebytes _ data => wfAct cs g pk (fun _ => data) .unit
  | .appendbytes _ data => wfAct cs g pk (fun o => (o.getD []) ++ data) .unit
  | .create _ wipe =>
    if !wipe && g.isSome then .done (.bool false) else wfAct cs g pk (fun _ => []) (.bool true)
  | .touch _ => if g.isSome then .done .unit else wfAct cs g pk (fun _ => []) .unit
  | .settimes _ => if g.isSome then .done .unit else .fail .ResourceNotFound
  | .openbin _ mode =>
    match parseBinMode mode with
    | none => .fail .ValueError
    | some m =>
      if cs = [] then .fail .FileExpected
      else match pk with
        | none => .fail .ResourceNotFound
        | some false => .fail .ResourceNotFound
        | some true =>
          match g with
          | some (.dir _) => .fail .FileExpected
          | some (.file _) =>
            if m.exclusive then .fail .FileExists
            else if m.truncate then .set (.file []) .unit
            else .done .unit
          | none => if m.create then .set (.file []) .unit else .fail .ResourceNotFound
  | .remove _ =>
    if cs = [] then .fail .FileExpected
    else match g with
      | none => .fail .ResourceNotFound
      | some (.dir _) => .fail .FileExpected
      | some (.file _) => .del .unit
  | .removedir _ =>
    if cs = [] then .fail .RemoveRootError
    else match g with
      | none => .fail .ResourceNotFound
      | some (.file _) => .fail .DirectoryExpected
      | some (.dir es) => if es.isEmpty then .del .unit else .fail .DirectoryNotEmpty
  | .removetree _ =>
    if cs = [] then .clear
    else match g with
      | none => .fail .ResourceNotFound
      | some (.file _) => .fail .DirectoryExpected
      | some (.dir _) => .del .unit
  | _ => .done .unit

/-- the type of the parent node -/
def parentKind (t : Node) (cs : List Name) : Option Bool := (t.get (parentOf cs)).map Node.isDir

/-- **`step1` looks at three things and acts at one place** -/
theorem step1_act (s : State) (cs : List Name) (op : Op) :
    step1 s cs op =
      applyAct s cs (act1 cs (s.root.get cs) (parentKind s.root cs) (blockedByFile s.root [] cs) op) := by
  unfold parentKind
  cases op <;> simp only [step1, act1, writeFile, wfAct]
  all_goals
    rcases hp : s.root.get (parentOf cs) with _ | ⟨_ | _⟩ <;>
    rcases hg : s.root.get cs with _ | ⟨_ | _⟩ <;>
    (try simp only [Option.map_none, Option.map_some, Node.isDir, Option.isSome_none, Option.isSome_some]) <;>
    (repeat' split) <;> simp_all [applyAct, fail, done, upd]


theorem act1_ne_clear (cs : List Name) (hne : cs ≠ []) (g : Option Node) (pk : Option Bool) (bl : Bool) (op : Op) :
    act1 cs g pk bl op ≠ .clear := by
  cases op <;> simp only [act1, wfAct, hne, if_false] <;> (repeat' split) <;> simp

/-! ### trees that agree under one top-level name -/

/-- two directory trees that hold the same entry (sub-tree) under the top-level name `c` -/
def AgreeAt (c : Name) (t u : Node) : Prop :=
  ∃ et eu, t = .dir et ∧ u = .dir eu ∧ Ents.lookup c et = Ents.lookup c eu

/-- the top-level entry `k` of a tree -/
def topOf (t : Node) (k : Name) : Option Node := Ents.lookup k t.entries

/-- the top-level names of a tree do not repeat -/
def NodupTop (t : Node) : Prop := (Ents.names t.entries).Nodup

theorem get_cons_dir (c : Name) (rest : List Name) (es : Ents) :
    (Node.dir es).get (c :: rest) = (Ents.lookup c es).bind (fun ch => ch.get rest) := by
  simp only [Node.get]; cases Ents.lookup c es <;> rfl

theorem agree_get {c : Name} {t u : Node} (h : AgreeAt c t u) (rest : List Name) :
    t.get (c :: rest) = u.get (c :: rest) := by
  obtain ⟨et, eu, rfl, rfl, hl⟩ := h
  rw [get_cons_dir, get_cons_dir, hl]

theorem agree_parentKind {c : Name} {t u : Node} (h : AgreeAt c t u) (rest : List Name) :
    parentKind t (c :: rest) = parentKind u (c :: rest) := by
  unfold parentKind parentOf
  cases rest with
  | nil =>
    obtain ⟨et, eu, rfl, rfl, _⟩ := h
    simp [Node.get, Node.isDir]
  | cons d r =>
    simp only [List.dropLast_cons_cons]
    rw [agree_get h]

theorem blocked_congr (t u : Node) : ∀ (cs pre : List Name), (∀ q, t.get (pre ++ q) = u.get (pre ++ q)) →
    blockedByFile t pre cs = blockedByFile u pre cs := by
  intro cs
  induction cs with
  | nil => intro _ _; rfl
  | cons c cs ih =>
    intro pre h
    have h0 := h []
    simp only [List.append_nil] at h0
    simp only [blockedByFile, h0]
    by_cases hcs : cs = []
    · simp [hcs]
    · simp only [hcs, if_false]
      rw [ih (pre ++ [c]) (fun q => by simpa using h (c :: q))]

theorem agree_blocked {c : Name} {t u : Node} (h : AgreeAt c t u) (rest : List Name) :
    blockedByFile t [] (c :: rest) = blockedByFile u [] (c :: rest) := by
  have hg := agree_get h
  obtain ⟨et, eu, rfl, rfl, _⟩ := h
  simp only [blockedByFile, Node.get, Bool.false_or]
  by_cases hr : rest = []
  · simp [hr]
  · simp only [hr, if_false]
    exact blocked_congr _ _ rest [c] (fun q => by simpa using hg q)

theorem agree_set {c : Name} {t u : Node} (h : AgreeAt c t u) (rest : List Name) (n : Node) :
    AgreeAt c (t.set (c :: rest) n) (u.set (c :: rest) n) := by
  obtain ⟨et, eu, rfl, rfl, hl⟩ := h
  cases rest with
  | nil =>
    refine ⟨Ents.put c n et, Ents.put c n eu, by simp [Node.set], by simp [Node.set], ?_⟩
    rw [TreeLemmas.lookup_put_same, TreeLemmas.lookup_put_same]
  | cons d r =>
    simp only [Node.set]
    rw [← hl]
    cases hc : Ents.lookup c et with
    | none => exact ⟨et, eu, rfl, rfl, hl⟩
    | some ch =>
      exact ⟨_, _, rfl, rfl, by rw [TreeLemmas.lookup_put_same, TreeLemmas.lookup_put_same]⟩

theorem top_set (t : Node) (c : Name) (rest : List Name) (n : Node) (k : Name) (hk : k ≠ c) :
    topOf (t.set (c :: rest) n) k = topOf t k := by
  cases t with
  | file b => simp [Node.set]
  | dir et =>
    cases rest with
    | nil => simp [Node.set, topOf, Node.entries, TreeLemmas.lookup_put_other _ _ _ _ hk]
    | cons d r =>
      simp only [Node.set]
      cases Ents.lookup c et with
      | none => rfl
      | some ch => simp [topOf, Node.entries, TreeLemmas.lookup_put_other _ _ _ _ hk]

theorem lookup_erase_nodup (c : Name) : ∀ (es : Ents), (Ents.names es).Nodup → Ents.lookup c (Ents.erase c es) = none := by
  intro es
  induction es with
  | nil => intro _; rfl
  | cons e es ih =>
    intro hn
    obtain ⟨k, v⟩ := e
    have hn2 : (k :: Ents.names es).Nodup := hn
    have hn' := List.nodup_cons.1 hn2
    by_cases hk : k = c
    · subst hk
      simp only [Ents.erase, if_true]
      cases hl : Ents.lookup k es with
      | none => rfl
      | some v' =>
        exfalso
        have := (QueryLemmas.lookup_isSome_iff k es).1 (by rw [hl]; rfl)
        exact hn'.1 this
    · simp only [Ents.erase, hk, if_false, Ents.lookup]
      exact ih hn'.2

theorem agree_del {c : Name} {t u : Node} (h : AgreeAt c t u) (ht : NodupTop t) (hu : NodupTop u)
    (rest : List Name) : AgreeAt c (t.del (c :: rest)) (u.del (c :: rest)) := by
  obtain ⟨et, eu, rfl, rfl, hl⟩ := h
  cases rest with
  | nil =>
    refine ⟨Ents.erase c et, Ents.erase c eu, by simp [Node.del], by simp [Node.del], ?_⟩
    rw [lookup_erase_nodup c et ht, lookup_erase_nodup c eu hu]
  | cons d r =>
    simp only [Node.del]
    rw [← hl]
    cases hc : Ents.lookup c et with
    | none => exact ⟨et, eu, rfl, rfl, hl⟩
    | some ch =>
      exact ⟨_, _, rfl, rfl, by rw [TreeLemmas.lookup_put_same, TreeLemmas.lookup_put_same]⟩

theorem top_del (t : Node) (c : Name) (rest : List Name) (k : Name) (hk : k ≠ c) :
    topOf (t.del (c :: rest)) k = topOf t k := by
  cases t with
  | file b => simp [Node.del]
  | dir et =>
    cases rest with
    | nil => simp [Node.del, topOf, Node.entries, TreeLemmas.lookup_erase_other _ _ _ hk]
    | cons d r =>
      simp only [Node.del]
      cases Ents.lookup c et with
      | none => rfl
      | some ch => simp [topOf, Node.entries, TreeLemmas.lookup_put_other _ _ _ _ hk]

theorem agree_mkdirs_pre {c : Name} : ∀ (cs pre : List Name) (t u : Node), AgreeAt c t u →
    AgreeAt c (mkdirs (c :: pre) cs t) (mkdirs (c :: pre) cs u) := by
  intro cs
  induction cs with
  | nil => intro _ t u h; exact h
  | cons d cs ih =>
    intro pre t u h
    simp only [mkdirs, List.cons_append]
    rw [← agree_get h (pre ++ [d])]
    cases t.get (c :: (pre ++ [d])) with
    | none => exact ih (pre ++ [d]) _ _ (agree_set h (pre ++ [d]) _)
    | some x => exact ih (pre ++ [d]) _ _ h

theorem top_mkdirs_pre {c : Name} (k : Name) (hk : k ≠ c) : ∀ (cs pre : List Name) (t : Node),
    topOf (mkdirs (c :: pre) cs t) k = topOf t k := by
  intro cs
  induction cs with
  | nil => intro _ _; rfl
  | cons d cs ih =>
    intro pre t
    simp only [mkdirs, List.cons_append]
    cases t.get (c :: (pre ++ [d])) with
    | none => rw [ih (pre ++ [d]) _, top_set _ _ _ _ _ hk]
    | some x => exact ih (pre ++ [d]) _

theorem agree_mkdirs {c : Name} {t u : Node} (h : AgreeAt c t u) (rest : List Name) :
    AgreeAt c (mkdirs [] (c :: rest) t) (mkdirs [] (c :: rest) u) := by
  simp only [mkdirs, List.nil_append]
  rw [← agree_get h []]
  cases t.get [c] with
  | none => exact agree_mkdirs_pre rest [] _ _ (agree_set h [] _)
  | some x => exact agree_mkdirs_pre rest [] _ _ h

theorem top_mkdirs (t : Node) (c : Name) (rest : List Name) (k : Name) (hk : k ≠ c) :
    topOf (mkdirs [] (c :: rest) t) k = topOf t k := by
  simp only [mkdirs, List.nil_append]
  cases t.get [c] with
  | none => rw [top_mkdirs_pre k hk rest [] _, top_set _ _ _ _ _ hk]
  | some x => exact top_mkdirs_pre k hk rest [] _

/-- **locality of the reference semantics**: on two trees that agree under the top-level name `c`, an
operation on a path through `c` gives the same answer, the resulting trees agree under `c`, and every other
top-level entry of either tree is what it was -/
theorem step1_agree (c : Name) (rest : List Name) (t u : State) (hA : AgreeAt c t.root u.root)
    (ht : NodupTop t.root) (hu : NodupTop u.root) (op : Op) :
    (step1 t (c :: rest) op).2 = (step1 u (c :: rest) op).2 ∧
    AgreeAt c (step1 t (c :: rest) op).1.root (step1 u (c :: rest) op).1.root ∧
    (∀ k, k ≠ c → topOf (step1 t (c :: rest) op).1.root k = topOf t.root k) ∧
    (∀ k, k ≠ c → topOf (step1 u (c :: rest) op).1.root k = topOf u.root k) := by
  rw [step1_act t, step1_act u, ← agree_get hA rest, ← agree_parentKind hA rest, ← agree_blocked hA rest]
  have hnc := act1_ne_clear (c :: rest) (by simp) (t.root.get (c :: rest)) (parentKind t.root (c :: rest))
    (blockedByFile t.root [] (c :: rest)) op
  generalize act1 (c :: rest) (t.root.get (c :: rest)) (parentKind t.root (c :: rest))
    (blockedByFile t.root [] (c :: rest)) op = a at hnc ⊢
  cases a with
  | fail e => exact ⟨rfl, hA, fun _ _ => rfl, fun _ _ => rfl⟩
  | done v => exact ⟨rfl, hA, fun _ _ => rfl, fun _ _ => rfl⟩
  | set n v =>
    exact ⟨rfl, agree_set hA rest n, fun k hk => top_set _ _ _ _ _ hk, fun k hk => top_set _ _ _ _ _ hk⟩
  | del v =>
    exact ⟨rfl, agree_del hA ht hu rest, fun k hk => top_del _ _ _ _ hk, fun k hk => top_del _ _ _ _ hk⟩
  | mkdirs v =>
    exact ⟨rfl, agree_mkdirs hA rest, fun k hk => top_mkdirs _ _ _ _ hk, fun k hk => top_mkdirs _ _ _ _ hk⟩
  | clear => exact absurd rfl hnc

end Fs.MultiFsLemmas
