import FsProofs.Lemmas.RegexParseLemmas

namespace Fs.RegexParseLemmas
open Fs Fs.Regex Fs.GlobLemmas

/-! ### one step of `parseItems` per kind of piece -/

/-- the next character is not a quantifier -/
def NoQ (r : Str) : Prop := ∀ c t, r = c :: t → isQuant c = false

theorem quantify_noq (a : Atom) (r : Str) (h : NoQ r) : quantify a r = .ok (.one a, r) := by
  cases r with
  | nil => rfl
  | cons q t =>
    have := h q t rfl
    simp [quantify, this]

theorem pi_nil (f : Nat) (acc : List Item) : parseItems (f + 1) [] acc = .ok acc.reverse := by
  rw [parseItems]

theorem pi_endZ (f : Nat) (r : Str) (acc : List Item) :
    parseItems (f + 1) ('\\' :: 'Z' :: r) acc = parseItems f r (.endZ :: acc) := by
  rw [parseItems]; simp

theorem pi_bol (f : Nat) (r : Str) (acc : List Item) :
    parseItems (f + 1) ('^' :: r) acc = parseItems f r (.bol :: acc) := by
  rw [parseItems]

theorem pi_esc (f : Nat) (c : Char) (r : Str) (acc : List Item) (hc : isSpecial c = true) (hr : NoQ r) :
    parseItems (f + 1) ('\\' :: c :: r) acc = parseItems f r (.one (.chr ⟨c, true⟩) :: acc) := by
  obtain ⟨h1, h2⟩ := special_not_alnum c hc
  rw [parseItems]
  have hz : (c == 'Z') = false := by simpa using h2
  simp only [hz, Bool.false_eq_true, if_false, h1, quantify_noq _ r hr]

theorem pi_dot (f : Nat) (r : Str) (acc : List Item) (hr : NoQ r) :
    parseItems (f + 1) ('.' :: r) acc = parseItems f r (.one .any :: acc) := by
  rw [parseItems]; simp only [quantify_noq _ r hr]


theorem pi_lit (f : Nat) (c : Char) (r : Str) (acc : List Item) (hc : isSpecial c = false) (hr : NoQ r) :
    parseItems (f + 1) (c :: r) acc = parseItems f r (.one (.chr ⟨c, false⟩) :: acc) := by
  obtain ⟨h1, h2, h3, h4, h5, h6, h7, h8, h9, h10, _, _⟩ := notSpecial_facts c hc
  rw [parseItems]
  · have e1 : (c == '(') = false := by simpa using h6
    have e2 : (c == ')') = false := by simpa using h7
    have e3 : (c == '|') = false := by simpa using h8
    have e4 : (c == '{') = false := by simpa using h9
    simp only [h10, e1, e2, e3, e4, Bool.false_eq_true, if_false, Bool.or_self, quantify_noq _ r hr]
  all_goals (intros; simp_all)

/-- `[` … `]` not followed by a quantifier -/
theorem pi_set (f : Nat) (r : Str) (acc : List Item) :
    parseItems (f + 1) ('[' :: r) acc =
      (match classParse r with
       | .err e => .err e
       | .ok (a, r1) =>
         match quantify a r1 with
         | .err e => .err e
         | .ok (it, r') => parseItems f r' (it :: acc)) := by
  by_cases h : ∃ b, r = '^' :: b
  · obtain ⟨b, rfl⟩ := h
    rw [parseItems, classParse_neg]
    cases parseSetLoop (b.length + 1) b [] with
    | err e => rfl
    | ok p => rfl
  · have h' : ∀ b, r ≠ '^' :: b := fun b e => h ⟨b, e⟩
    rw [parseItems, classParse_pos r h']
    · cases parseSetLoop (r.length + 1) r [] with
      | err e => rfl
      | ok p => rfl
    · intro b e; exact h' b e


theorem quantify_star (a : Atom) (r : Str) (h : NoQ r) : quantify a ('*' :: r) = .ok (.star a false, r) := by
  cases r with
  | nil => rfl
  | cons q t =>
    have hq := h q t rfl
    simp only [isQuant, Bool.or_eq_false_iff, beq_eq_false_iff_ne, ne_eq] at hq
    obtain ⟨⟨h1, h2⟩, h3⟩ := hq
    simp only [quantify, isQuant, beq_self_eq_true, Bool.true_or, if_true]
    split
    · next r' heq => simp at heq; exact absurd heq.1 h3
    · next heq => simp at heq; exact absurd heq.1 h2
    · rfl

theorem quantify_opt (a : Atom) (r : Str) (h : NoQ r) : quantify a ('?' :: r) = .ok (.opt a false, r) := by
  cases r with
  | nil => rfl
  | cons q t =>
    have hq := h q t rfl
    simp only [isQuant, Bool.or_eq_false_iff, beq_eq_false_iff_ne, ne_eq] at hq
    obtain ⟨⟨h1, h2⟩, h3⟩ := hq
    simp only [quantify, isQuant, beq_self_eq_true, Bool.or_true, if_true]
    split
    · next r' heq => simp at heq; exact absurd heq.1 h3
    · next heq => simp at heq; exact absurd heq.1 h2
    · rfl

theorem noq_cons (c : Char) (t : Str) (h : isQuant c = false) : NoQ (c :: t) := by
  intro c' t' e; cases e; exact h

theorem noq_nil : NoQ [] := by intro c t e; cases e

/-- `[^/]` as a bracket expression of the parser -/
theorem classParse_notSlash (r : Str) : classParse ('^' :: '/' :: ']' :: r) = .ok (Wild.notSlash, r) := by
  rw [classParse_neg]
  have := parseSet_raw ['/'] false (('/' :: ']' :: r).length + 1) [] r (by simp) (by simp) (by simp) (by simp)
  simp only [rawText, Wild.rawChar, LChar.toPy] at this
  simp only [List.length_cons] at this ⊢
  simp at this
  rw [this]
  rfl

theorem pw_star (m : Nat) (r : Str) (acc : List Item) (hr : NoQ r) :
    parseItems (m + 1) ("[^/]*".toList ++ r) acc = parseItems m r (.star Wild.notSlash false :: acc) := by
  show parseItems (m + 1) ('[' :: '^' :: '/' :: ']' :: '*' :: r) acc = _
  rw [pi_set, classParse_notSlash]
  simp only [quantify_star _ r hr]

theorem pw_any (m : Nat) (r : Str) (acc : List Item) (hr : NoQ r) :
    parseItems (m + 1) ('.' :: r) acc = parseItems m r (.one .any :: acc) := pi_dot m r acc hr

theorem pw_lit (m : Nat) (c : Char) (r : Str) (acc : List Item) (hr : NoQ r) :
    parseItems (m + 1) (Wild.reEscape c ++ r) acc = parseItems m r (.one (.chr (LChar.lit c)) :: acc) := by
  by_cases hc : isSpecial c = true
  · simp only [Wild.reEscape, LChar.lit, LChar.toPy, hc, if_true, List.cons_append, List.nil_append]
    exact pi_esc m c r acc hc hr
  · have hc' : isSpecial c = false := by simpa using hc
    simp only [Wild.reEscape, LChar.lit, LChar.toPy, hc', Bool.false_eq_true, if_false, List.cons_append,
      List.nil_append]
    exact pi_lit m c r acc hc' hr

theorem pw_lbracket (m : Nat) (r : Str) (acc : List Item) (hr : NoQ r) :
    parseItems (m + 1) ('\\' :: '[' :: r) acc = parseItems m r (.one (.chr ⟨'[', true⟩) :: acc) :=
  pi_esc m '[' r acc (by decide) hr

/-- a bracket expression of `wildcard._translate` -/
theorem pw_class (m : Nat) (stuff r : Str) (acc : List Item) (hs : StuffOk stuff) (hr : NoQ r) :
    parseItems (m + 1) (Wild.classText ['^'] stuff ++ r) acc =
      (match Wild.classAtom stuff with
       | .ok a => parseItems m r (.one a :: acc)
       | .err e => .err e) := by
  rw [classText_eq]
  simp only [List.cons_append]
  rw [pi_set, classParse_text stuff r hs]
  cases Wild.classAtom stuff with
  | err e => rfl
  | ok a => simp only [quantify_noq a r hr]


/-! ### the fold over a wildcard pattern -/

theorem noq_append_of_head (a : Str) (c : Char) (t r : Str) (ha : a = c :: t) (hc : isQuant c = false) :
    NoQ (a ++ r) := by
  subst ha; exact noq_cons c (t ++ r) hc

theorem reEscape_head (c : Char) : ∃ d t, Wild.reEscape c = d :: t ∧ isQuant d = false := by
  by_cases hc : isSpecial c = true
  · exact ⟨'\\', [c], by simp [Wild.reEscape, LChar.lit, LChar.toPy, hc], by decide⟩
  · have hc' : isSpecial c = false := by simpa using hc
    exact ⟨c, [], by simp [Wild.reEscape, LChar.lit, LChar.toPy, hc'], (notSpecial_facts c hc').2.2.2.2.2.2.2.2.2.1⟩

theorem classText_head (neg stuff : Str) : ∃ t, Wild.classText neg stuff = '[' :: t := by
  simp [Wild.classText]

theorem noq_wild_textGo (s : Str) : ∀ (k : Nat) (r : Str), NoQ r → NoQ (Wild.textGo s k ++ r) := by
  induction s with
  | nil => intro k r h; simpa [Wild.textGo] using h
  | cons c cs ih =>
    intro k r h
    cases k with
    | succ k => simp only [Wild.textGo]; exact ih k r h
    | zero =>
      simp only [Wild.textGo]
      split
      · exact noq_cons '[' _ (by decide)
      · split
        · exact noq_cons '.' _ (by decide)
        · split
          · cases Wild.scanClass cs with
            | none => exact noq_cons '\\' _ (by decide)
            | some p =>
              obtain ⟨t, ht⟩ := classText_head ['^'] p.1
              simp only [List.append_assoc]
              rw [ht]
              exact noq_cons '[' _ (by decide)
          · obtain ⟨d, t, hd, hq⟩ := reEscape_head c
            simp only [List.append_assoc]
            rw [hd]
            exact noq_cons d _ hq

theorem wild_parse_go (s : Str) : ∀ (k : Nat) (r : Str) (acc : List Item), NoQ r →
    (match Wild.go s k with
     | .ok items => ∀ m, parseItems (m + items.length) (Wild.textGo s k ++ r) acc =
         parseItems m r (items.reverse ++ acc)
     | .err e => ∀ m, (Wild.textGo s k).length < m → parseItems m (Wild.textGo s k ++ r) acc = .err e) := by
  induction s with
  | nil => intro k r acc h; simp [Wild.go, Wild.textGo]
  | cons c cs ih =>
    intro k r acc hr
    cases k with
    | succ k => simp only [Wild.go, Wild.textGo]; exact ih k r acc hr
    | zero =>
      -- one piece `P` producing the item `i`, then the rest with skip `k'`
      have step : ∀ (P : Str) (i : Item) (k' : Nat),
          (∀ m r' acc', NoQ r' → parseItems (m + 1) (P ++ r') acc' = parseItems m r' (i :: acc')) →
          1 ≤ P.length →
          (match Wild.cons i (Wild.go cs k') with
           | .ok items => ∀ m, parseItems (m + items.length) ((P ++ Wild.textGo cs k') ++ r) acc =
               parseItems m r (items.reverse ++ acc)
           | .err e => ∀ m, (P ++ Wild.textGo cs k').length < m →
               parseItems m ((P ++ Wild.textGo cs k') ++ r) acc = .err e) := by
        intro P i k' hP hlen
        have hn := noq_wild_textGo cs k' r hr
        have := ih k' r (i :: acc) hr
        cases hg : Wild.go cs k' with
        | ok items' =>
          rw [hg] at this
          simp only [Wild.cons, TR.map]
          intro m
          rw [List.append_assoc, List.length_cons, ← Nat.add_assoc, hP _ _ _ hn, this m]
          simp
        | err e =>
          rw [hg] at this
          simp only [Wild.cons, TR.map]
          intro m hm
          cases m with
          | zero => simp at hm
          | succ m' =>
            rw [List.append_assoc, hP _ _ _ hn]
            exact this m' (by simp at hm; omega)
      simp only [Wild.go, Wild.textGo]
      by_cases h1 : c = '*'
      · simp only [h1, if_true]
        exact step _ _ 0 (fun m r' acc' h => pw_star m r' acc' h) (by simp)
      · by_cases h2 : c = '?'
        · simp only [h1, h2, if_true, if_false]
          exact step ['.'] (.one .any) 0 (fun m r' acc' h => pw_any m r' acc' h) (by simp)
        · by_cases h3 : c = '['
          · subst h3
            simp only [show ¬ ('[' : Char) = '*' by decide, show ¬ ('[' : Char) = '?' by decide, if_false, if_true]
            cases hs : Wild.scanClass cs with
            | none =>
              exact step ['\\', '['] (.one (.chr ⟨'[', true⟩)) 0
                (fun m r' acc' h => pw_lbracket m r' acc' h) (by simp)
            | some p =>
              obtain ⟨stuff, rest⟩ := p
              have hok := scanClass_stuffOk cs stuff rest hs
              simp only
              cases ha : Wild.classAtom stuff with
              | err e =>
                simp only
                intro m hm
                cases m with
                | zero => simp at hm
                | succ m' =>
                  rw [List.append_assoc, pw_class m' stuff _ acc hok (noq_wild_textGo cs _ r hr), ha]
              | ok a =>
                simp only
                exact step _ _ _ (fun m r' acc' h => by rw [pw_class m stuff r' acc' hok h, ha])
                  (by obtain ⟨t, ht⟩ := classText_head ['^'] stuff; rw [ht]; simp)
          · simp only [h1, h2, h3, if_false]
            obtain ⟨d, t, hd, _⟩ := reEscape_head c
            exact step _ _ 0 (fun m r' acc' h => pw_lit m c r' acc' h) (by rw [hd]; simp)


theorem lchar_toPy_pos (a : LChar) : 1 ≤ a.toPy.length := by
  simp only [LChar.toPy]; split <;> simp

theorem atom_toPy_pos (a : Atom) : 1 ≤ a.toPy.length := by
  cases a with
  | chr x => exact lchar_toPy_pos x
  | any => simp [Atom.toPy]
  | set n l => simp [Atom.toPy]

theorem item_toPy_pos (i : Item) : 1 ≤ i.toPy.length := by
  cases i with
  | one a => exact atom_toPy_pos a
  | star a l => have := atom_toPy_pos a; simp [Item.toPy]; omega
  | plus a l => have := atom_toPy_pos a; simp [Item.toPy]; omega
  | opt a l => have := atom_toPy_pos a; simp [Item.toPy]; omega
  | bol => simp [Item.toPy]
  | eol => simp [Item.toPy]
  | endZ => simp [Item.toPy]
  | notAhead a => simp [Item.toPy]
  | starGroup b => simp [Item.toPy]

theorem itemsToPy_length (items : List Item) : items.length ≤ (itemsToPy items).length := by
  induction items with
  | nil => simp [itemsToPy]
  | cons i r ih =>
    rw [itemsToPy_cons, List.length_append, List.length_cons]
    have := item_toPy_pos i
    omega

theorem parseInline_ms (rest : Str) : parseInline ("(?ms)".toList ++ rest) = .ok (['m', 's'], rest) := by
  show parseInline ('(' :: '?' :: 'm' :: 's' :: ')' :: rest) = _
  simp [parseInline, List.takeWhile]

/-- **Parsing the regex text `wildcard._translate` builds gives exactly the AST of the hand model** (or the
same `re.error`), for every pattern and both case modes. -/
theorem wild_parse_text (pat : Str) (cs : Bool) :
    Regex.parse (Wild.regexText pat cs) (!cs) = Wild.compile pat cs := by
  simp only [Regex.parse, Wild.regexText, Wild.compile, Wild.translate, Wild.translateText, List.append_assoc,
    parseInline_ms]
  generalize (if cs = true then pat else Wild.lowerStr pat) = s
  have hz : NoQ "\\Z".toList := noq_cons '\\' ['Z'] (by decide)
  have key := wild_parse_go s 0 "\\Z".toList [] hz
  cases hg : Wild.go s 0 with
  | err e =>
    rw [hg] at key
    simp only [TR.map]
    rw [key _ (by simp; omega)]
  | ok items =>
    rw [hg] at key
    have hlen := itemsToPy_length items
    rw [wild_go_print s 0 items hg] at hlen
    have hm : (Wild.textGo s 0 ++ "\\Z".toList).length + 1 =
        ((Wild.textGo s 0).length - items.length + 1 + 1 + 1) + items.length := by
      simp; omega
    rw [hm, key]
    have e : parseItems ((Wild.textGo s 0).length - items.length + 1 + 1 + 1) "\\Z".toList (items.reverse ++ []) =
        .ok (items ++ [Item.endZ]) := by
      show parseItems _ ('\\' :: 'Z' :: []) _ = _
      rw [pi_endZ, pi_nil]
      simp
    rw [e]
    simp [TR.map]


/-! ### the pieces of `glob._translate` / `_translate_glob` -/

theorem pi_lit_q (f : Nat) (c : Char) (r : Str) (acc : List Item) (hc : isSpecial c = false) :
    parseItems (f + 1) (c :: r) acc =
      (match quantify (.chr ⟨c, false⟩) r with
       | .err e => .err e
       | .ok (it, r') => parseItems f r' (it :: acc)) := by
  obtain ⟨h1, h2, h3, h4, h5, h6, h7, h8, h9, h10, _, _⟩ := notSpecial_facts c hc
  rw [parseItems]
  · have e1 : (c == '(') = false := by simpa using h6
    have e2 : (c == ')') = false := by simpa using h7
    have e3 : (c == '|') = false := by simpa using h8
    have e4 : (c == '{') = false := by simpa using h9
    simp only [h10, e1, e2, e3, e4, Bool.false_eq_true, if_false, Bool.or_self]
    cases quantify (Atom.chr ⟨c, false⟩) r <;> rfl
  all_goals (intros; simp_all)

theorem pi_dot_q (f : Nat) (r : Str) (acc : List Item) :
    parseItems (f + 1) ('.' :: r) acc =
      (match quantify .any r with
       | .err e => .err e
       | .ok (it, r') => parseItems f r' (it :: acc)) := by
  rw [parseItems]
  cases quantify Atom.any r <;> rfl

theorem pg_q (m : Nat) (r : Str) (acc : List Item) (hr : NoQ r) :
    parseItems (m + 1) ("[^/]".toList ++ r) acc = parseItems m r (.one Wild.notSlash :: acc) := by
  show parseItems (m + 1) ('[' :: '^' :: '/' :: ']' :: r) acc = _
  rw [pi_set, classParse_notSlash]
  simp only [quantify_noq _ r hr]

theorem pg_slash (m : Nat) (r : Str) (acc : List Item) (hr : NoQ r) :
    parseItems (m + 1) ('/' :: r) acc = parseItems m r (.one Glob.slash :: acc) :=
  pi_lit m '/' r acc (by decide) hr

theorem pg_optslash (m : Nat) (r : Str) (acc : List Item) (hr : NoQ r) :
    parseItems (m + 1) ('/' :: '?' :: r) acc = parseItems m r (Glob.optSlash :: acc) := by
  rw [pi_lit_q m '/' _ acc (by decide), quantify_opt _ r hr]
  rfl

theorem pg_anyrun (m : Nat) (r : Str) (acc : List Item) (hr : NoQ r) :
    parseItems (m + 1) ('.' :: '*' :: r) acc = parseItems m r (Glob.anyRun :: acc) := by
  rw [pi_dot_q, quantify_star _ r hr]
  rfl

theorem pg_lookahead (m : Nat) (r : Str) (acc : List Item) (hr : NoQ r) :
    parseItems (m + 1) ("(?!/)".toList ++ r) acc = parseItems m r (.notAhead Glob.slash :: acc) := by
  show parseItems (m + 1) ('(' :: '?' :: '!' :: '/' :: ')' :: r) acc = _
  rw [parseItems]
  have hp : parseAtom ('/' :: ')' :: r) = .ok (.chr ⟨'/', false⟩, ')' :: r) := by
    simp [parseAtom, isQuant]
  simp only [hp]
  cases r with
  | nil => rfl
  | cons q t =>
    have := hr q t rfl
    simp only [this, Bool.false_eq_true, if_false]
    rfl


theorem parseAtom_set (r : Str) : parseAtom ('[' :: r) = classParse r := by
  by_cases h : ∃ b, r = '^' :: b
  · obtain ⟨b, rfl⟩ := h
    rw [parseAtom, classParse_neg]
    cases parseSetLoop (b.length + 1) b [] with
    | err e => rfl
    | ok p => rfl
  · have h' : ∀ b, r ≠ '^' :: b := fun b e => h ⟨b, e⟩
    rw [parseAtom, classParse_pos r h']
    · cases parseSetLoop (r.length + 1) r [] with
      | err e => rfl
      | ok p => rfl
    · intro b e; exact h' b e

theorem parseGroupBody_level (f : Nat) (r : Str) :
    parseGroupBody (f + 3) ("/[^/]+)".toList ++ r) [] = .ok (Glob.levelGroup, r) := by
  show parseGroupBody (f + 3) ('/' :: '[' :: '^' :: '/' :: ']' :: '+' :: ')' :: r) [] = _
  have hp : parseAtom ('/' :: '[' :: '^' :: '/' :: ']' :: '+' :: ')' :: r) =
      .ok (.chr ⟨'/', false⟩, '[' :: '^' :: '/' :: ']' :: '+' :: ')' :: r) := by
    simp [parseAtom, isQuant]
  rw [parseGroupBody]
  · simp only [hp]
    rw [parseGroupBody]
    · rw [parseAtom_set, classParse_notSlash]
      simp only []
      rw [parseGroupBody]
      rfl
    · intro r' h; cases h
  · intro r' h; cases h

theorem pg_group (m : Nat) (r : Str) (acc : List Item) (hr : NoQ r) :
    parseItems (m + 1) ("(?:/[^/]+)*".toList ++ r) acc = parseItems m r (.starGroup Glob.levelGroup :: acc) := by
  show parseItems (m + 1) ('(' :: '?' :: ':' :: ("/[^/]+)".toList ++ ('*' :: r))) acc = _
  rw [parseItems]
  have hl : ("/[^/]+)".toList ++ '*' :: r).length + 1 = (r.length + 6) + 3 := by simp
  rw [hl, parseGroupBody_level]
  simp only []
  cases r with
  | nil => rfl
  | cons q t =>
    have := hr q t rfl
    simp only [this, Bool.false_eq_true, if_false]


/-! ### the fold over one glob component without `**` -/

/-- what the parser does with the text `T` of a piece of the hand model that yields `res` -/
def ParsesTo (T : Str) (r : Str) (res : TR (List Item)) : Prop :=
  match res with
  | .ok items => items.length ≤ T.length ∧
      ∀ m acc, parseItems (m + items.length) (T ++ r) acc = parseItems m r (items.reverse ++ acc)
  | .err e => ∀ m acc, T.length < m → parseItems m (T ++ r) acc = .err e

/-- a piece `P` yielding the items `I`, in front of a text that parses to `res` -/
theorem parsesTo_step (P T r : Str) (I : List Item) (res : TR (List Item))
    (hP : ∀ m r' acc', NoQ r' → parseItems (m + I.length) (P ++ r') acc' = parseItems m r' (I.reverse ++ acc'))
    (hI : I.length ≤ P.length) (hn : NoQ (T ++ r)) (h : ParsesTo T r res) :
    ParsesTo (P ++ T) r (Glob.consL I res) := by
  cases res with
  | ok items =>
    simp only [ParsesTo, Glob.consL, TR.map] at h ⊢
    refine ⟨by simp; omega, ?_⟩
    intro m acc
    rw [List.append_assoc, List.length_append, show m + (I.length + items.length) = (m + items.length) + I.length by omega,
      hP _ _ _ hn, h.2]
    simp
  | err e =>
    simp only [ParsesTo, Glob.consL, TR.map] at h ⊢
    intro m acc hm
    have hm' : m = (m - I.length) + I.length ∧ T.length < m - I.length := by
      simp at hm; omega
    rw [hm'.1, List.append_assoc, hP _ _ _ hn]
    exact h _ _ hm'.2


theorem consL_single (i : Item) (res : TR (List Item)) : Glob.consL [i] res = Wild.cons i res := by
  cases res <;> rfl

theorem parsesTo_nil (r : Str) : ParsesTo [] r (.ok []) := by
  refine ⟨by simp, ?_⟩
  intro m acc; simp

/-- the items of two texts one after the other -/
def seqRes (r1 r2 : TR (List Item)) : TR (List Item) :=
  match r1 with
  | .err e => .err e
  | .ok i1 => Glob.consL i1 r2

/-- two texts one after the other -/
theorem parsesTo_append (T1 T2 r : Str) (res1 res2 : TR (List Item))
    (h1 : ParsesTo T1 (T2 ++ r) res1) (h2 : ParsesTo T2 r res2) :
    ParsesTo (T1 ++ T2) r (seqRes res1 res2) := by
  cases res1 with
  | err e =>
    intro m acc hm
    rw [List.append_assoc]
    exact h1 m acc (by simp at hm; omega)
  | ok i1 =>
    obtain ⟨hl1, h1⟩ := h1
    cases res2 with
    | ok i2 =>
      obtain ⟨hl2, h2⟩ := h2
      refine ⟨by simp; omega, ?_⟩
      intro m acc
      simp only [List.length_append]
      rw [List.append_assoc, show m + (i1.length + i2.length) = (m + i2.length) + i1.length by omega, h1, h2]
      simp
    | err e =>
      intro m acc hm
      have hm' : m = (m - i1.length) + i1.length ∧ T2.length < m - i1.length := by
        simp at hm; omega
      rw [hm'.1, List.append_assoc, h1]
      exact h2 _ _ hm'.2

theorem glob_parse_go (s : Str) : ∀ (k : Nat) (r : Str), Glob.hasSS s = false → NoQ r →
    ∃ T, Glob.textGo s k = .ok T ∧ NoQ (T ++ r) ∧ ParsesTo T r (Glob.go s k) := by
  induction s with
  | nil => intro k r _ hr; exact ⟨[], by simp [Glob.textGo], by simpa using hr, by simp [Glob.go]; exact parsesTo_nil r⟩
  | cons c cs ih =>
    intro k r hss hr
    have hss' := hasSS_tail c cs hss
    cases k with
    | succ k => simp only [Glob.go, Glob.textGo]; exact ih k r hss' hr
    | zero =>
      have step : ∀ (P : Str) (I : List Item) (k' : Nat) (d : Char) (t : Str), P = d :: t → isQuant d = false →
          (∀ m r' acc', NoQ r' → parseItems (m + I.length) (P ++ r') acc' = parseItems m r' (I.reverse ++ acc')) →
          I.length ≤ P.length →
          ∃ T, Glob.tappend P (Glob.textGo cs k') = .ok T ∧ NoQ (T ++ r) ∧
            ParsesTo T r (Glob.consL I (Glob.go cs k')) := by
        intro P I k' d t hd hq hP hI
        obtain ⟨T', hT', hn', hp'⟩ := ih k' r hss' hr
        refine ⟨P ++ T', by simp [Glob.tappend, hT', TR.map], ?_, parsesTo_step P T' r I _ hP hI hn' hp'⟩
        rw [hd]; exact noq_cons d _ hq
      simp only [Glob.go, Glob.textGo]
      by_cases h1 : c = '*'
      · subst h1
        have hh := hasSS_head cs hss
        simp only [if_true, hh, if_false]
        rw [← consL_single]
        exact step _ [_] 0 '[' _ rfl (by decide) (fun m r' acc' h => pw_star m r' acc' h) (by simp)
      · by_cases h2 : c = '?'
        · simp only [h1, h2, if_true, if_false]
          rw [← consL_single]
          exact step _ [_] 0 '[' _ rfl (by decide) (fun m r' acc' h => pg_q m r' acc' h) (by simp)
        · by_cases h3 : c = '['
          · subst h3
            simp only [show ¬ ('[' : Char) = '*' by decide, show ¬ ('[' : Char) = '?' by decide, if_false, if_true]
            cases hs : Wild.scanClass cs with
            | none =>
              simp only
              rw [← consL_single]
              exact step ['\\', '['] [_] 0 '\\' _ rfl (by decide) (fun m r' acc' h => pw_lbracket m r' acc' h) (by simp)
            | some p =>
              obtain ⟨stuff, rest⟩ := p
              have hok := scanClass_stuffOk cs stuff rest hs
              simp only
              cases ha : Wild.classAtom stuff with
              | err e =>
                simp only
                obtain ⟨T', hT', hn', _⟩ := ih (stuff.length + 1) r hss' hr
                refine ⟨("(?!/)".toList ++ Wild.classText ['^'] stuff) ++ T', by simp [Glob.tappend, hT', TR.map], ?_, ?_⟩
                · exact noq_cons '(' _ (by decide)
                · intro m acc hm
                  cases m with
                  | zero => simp at hm
                  | succ m' =>
                    cases m' with
                    | zero => simp at hm
                    | succ m'' =>
                      have hn2 : NoQ (Wild.classText ['^'] stuff ++ (T' ++ r)) := by
                        obtain ⟨t, ht⟩ := classText_head ['^'] stuff
                        rw [ht]; exact noq_cons '[' _ (by decide)
                      rw [List.append_assoc, List.append_assoc, pg_lookahead _ _ _ hn2,
                        pw_class m'' stuff _ _ hok hn', ha]
              | ok a =>
                simp only
                obtain ⟨t, ht⟩ := classText_head ['^'] stuff
                exact step _ [.notAhead Glob.slash, .one a] _ '(' _ rfl (by decide)
                  (fun m r' acc' h => by
                    have hn2 : NoQ (Wild.classText ['^'] stuff ++ r') := by
                      rw [ht]; exact noq_cons '[' _ (by decide)
                    show parseItems (m + 1 + 1) (("(?!/)".toList ++ Wild.classText ['^'] stuff) ++ r') acc' = _
                    rw [List.append_assoc, pg_lookahead _ _ _ hn2, pw_class m stuff r' _ hok h, ha]
                    simp)
                  (by rw [ht]; simp)
          · simp only [h1, h2, h3, if_false]
            obtain ⟨d, t, hd, hq⟩ := reEscape_head c
            rw [← consL_single]
            exact step _ [_] 0 d t hd hq (fun m r' acc' h => pw_lit m c r' acc' h) (by rw [hd]; simp)

end Fs.RegexParseLemmas
