import FsModel.Path
import FsModel.PathSpec

namespace Fs.PathLemmas
open Fs Fs.Path Fs.PathSpec

/-! ### splitOn / joinWith -/

theorem splitOn_ne_nil (c : Char) (s : Str) : splitOn c s ≠ [] := by
  induction s with
  | nil => simp [splitOn]
  | cons x xs ih =>
    unfold splitOn
    split
    · simp
    · split <;> simp

theorem splitOn_cons_sep (c : Char) (s : Str) : splitOn c (c :: s) = [] :: splitOn c s := by
  simp [splitOn]

theorem splitOn_cons_ne (c x : Char) (s : Str) (h : x ≠ c) :
    splitOn c (x :: s) = (x :: (splitOn c s).headD []) :: (splitOn c s).tail := by
  rw [splitOn]
  simp only [h, if_false]
  have := splitOn_ne_nil c s
  split
  · contradiction
  · next h' t heq => simp [heq]

theorem splitOn_of_not_mem (c : Char) (a : Str) (h : c ∉ a) : splitOn c a = [a] := by
  induction a with
  | nil => simp [splitOn]
  | cons x xs ih =>
    simp only [List.mem_cons, not_or] at h
    have hx : x ≠ c := fun e => h.1 e.symm
    rw [splitOn_cons_ne c x xs hx]
    simp [ih h.2]

theorem splitOn_append_sep (c : Char) (a b : Str) (h : c ∉ a) :
    splitOn c (a ++ c :: b) = a :: splitOn c b := by
  induction a with
  | nil => simp [splitOn]
  | cons x xs ih =>
    simp only [List.mem_cons, not_or] at h
    have hx : x ≠ c := fun e => h.1 e.symm
    rw [List.cons_append, splitOn_cons_ne c x _ hx]
    simp [ih h.2]

theorem splitOn_joinWith (c : Char) (cs : List Str) (hne : cs ≠ [])
    (h : ∀ x ∈ cs, c ∉ x) : splitOn c (joinWith c cs) = cs := by
  induction cs with
  | nil => contradiction
  | cons a rest ih =>
    cases rest with
    | nil => simpa [joinWith] using splitOn_of_not_mem c a (h a (by simp))
    | cons b rest =>
      rw [joinWith, splitOn_append_sep c a _ (h a (by simp))]
      rw [ih (by simp) (fun x hx => h x (List.mem_cons_of_mem _ hx))]

theorem joinWith_splitOn (c : Char) (s : Str) : joinWith c (splitOn c s) = s := by
  induction s with
  | nil => simp [splitOn, joinWith]
  | cons x xs ih =>
    by_cases hx : x = c
    · subst hx
      rw [splitOn_cons_sep]
      have := splitOn_ne_nil x xs
      cases hs : splitOn x xs with
      | nil => contradiction
      | cons h t => rw [joinWith, ← hs, ih]; simp
    · rw [splitOn_cons_ne c x xs hx]
      have hn := splitOn_ne_nil c xs
      revert ih
      generalize splitOn c xs = l at hn ⊢
      cases l with
      | nil => contradiction
      | cons h t =>
        cases t with
        | nil => simp [joinWith]
        | cons h2 t2 => simp [joinWith]

theorem not_mem_of_mem_splitOn (c : Char) (s : Str) : ∀ x ∈ splitOn c s, c ∉ x := by
  induction s with
  | nil => simp [splitOn]
  | cons y ys ih =>
    by_cases hy : y = c
    · subst hy
      rw [splitOn_cons_sep]
      intro x hx
      simp only [List.mem_cons] at hx
      rcases hx with rfl | hx
      · simp
      · exact ih x hx
    · rw [splitOn_cons_ne c y ys hy]
      have hn := splitOn_ne_nil c ys
      revert ih
      generalize splitOn c ys = l at hn ⊢
      cases l with
      | nil => contradiction
      | cons h t =>
        intro ih x hx
        simp only [List.headD_cons, List.tail_cons, List.mem_cons] at hx
        rcases hx with rfl | hx
        · have := ih h (by simp)
          simp only [List.mem_cons, not_or]
          exact ⟨fun e => hy e.symm, this⟩
        · exact ih x (by simp [hx])

/-! ### strip / startsWith -/

theorem startsWithSlash_nil : startsWithSlash [] = false := rfl

theorem startsWithSlash_cons (c : Char) (s : Str) : startsWithSlash (c :: s) = decide (c = '/') := by
  by_cases h : c = '/'
  · subst h; rfl
  · simp only [h, decide_false]
    unfold startsWithSlash
    split
    · next heq => simp at heq; exact absurd heq.1 h
    · rfl

theorem lstripSlash_append_single (a : Str) (x : Char) :
    lstripSlash (a ++ [x]) =
      if lstripSlash a = [] then (if x = '/' then [] else [x]) else lstripSlash a ++ [x] := by
  induction a with
  | nil => simp [lstripSlash]
  | cons y ys ih =>
    by_cases hy : y = '/'
    · simp [lstripSlash, hy, ih]
    · simp [lstripSlash, hy]

theorem rstripSlash_nil : rstripSlash [] = [] := rfl

theorem rstripSlash_cons (x : Char) (xs : Str) :
    rstripSlash (x :: xs) =
      if rstripSlash xs = [] then (if x = '/' then [] else [x]) else x :: rstripSlash xs := by
  simp only [rstripSlash, List.reverse_cons, lstripSlash_append_single, List.reverse_eq_nil_iff]
  split
  · split <;> simp
  · simp

theorem rstripSlash_append_single (a : Str) (x : Char) :
    rstripSlash (a ++ [x]) = if x = '/' then rstripSlash a else a ++ [x] := by
  simp only [rstripSlash, List.reverse_append, List.reverse_cons, List.reverse_nil, List.nil_append,
    List.cons_append, lstripSlash]
  split <;> simp

theorem startsWithSlash_of_not_mem (s : Str) (h : '/' ∉ s) : startsWithSlash s = false := by
  cases s with
  | nil => rfl
  | cons c s =>
    rw [startsWithSlash_cons]
    simp only [List.mem_cons, not_or] at h
    have : c ≠ '/' := fun e => h.1 e.symm
    simp [this]

theorem startsWithSlash_append (s t : Str) (h : s ≠ []) :
    startsWithSlash (s ++ t) = startsWithSlash s := by
  cases s with
  | nil => contradiction
  | cons c s => simp [startsWithSlash_cons]

theorem endsWithSlash_append (s t : Str) (h : t ≠ []) :
    endsWithSlash (s ++ t) = endsWithSlash t := by
  simp only [endsWithSlash, List.reverse_append]
  exact startsWithSlash_append _ _ (by simpa using h)

theorem endsWithSlash_of_not_mem (s : Str) (h : '/' ∉ s) : endsWithSlash s = false :=
  startsWithSlash_of_not_mem _ (by simpa using h)

theorem lstripSlash_of_not_starts (s : Str) (h : startsWithSlash s = false) : lstripSlash s = s := by
  cases s with
  | nil => rfl
  | cons c s =>
    rw [startsWithSlash_cons] at h
    simp at h
    simp [lstripSlash, h]

theorem rstripSlash_of_not_ends (s : Str) (h : endsWithSlash s = false) : rstripSlash s = s := by
  unfold rstripSlash
  rw [lstripSlash_of_not_starts _ h]; simp

theorem rstripSlash_append (a b : Str) :
    rstripSlash (a ++ b) = if rstripSlash b = [] then rstripSlash a else a ++ rstripSlash b := by
  induction a with
  | nil => simp [rstripSlash_nil]
  | cons x xs ih =>
    rw [List.cons_append, rstripSlash_cons, ih, rstripSlash_cons]
    by_cases hb : rstripSlash b = []
    · simp [hb]
    · simp [hb]

/-! ### joinWith structure -/

theorem joinWith_cons (c : Char) (a : Str) (rest : List Str) :
    joinWith c (a :: rest) = if rest = [] then a else a ++ c :: joinWith c rest := by
  cases rest <;> simp [joinWith]

theorem joinWith_eq_nil_iff (c : Char) (cs : List Str) (h : ∀ x ∈ cs, x ≠ []) :
    joinWith c cs = [] ↔ cs = [] := by
  cases cs with
  | nil => simp [joinWith]
  | cons a rest =>
    have := h a (by simp)
    rw [joinWith_cons]
    split <;> simp [this]

theorem joinWith_append (c : Char) (as bs : List Str) (ha : as ≠ []) (hb : bs ≠ []) :
    joinWith c (as ++ bs) = joinWith c as ++ c :: joinWith c bs := by
  induction as with
  | nil => contradiction
  | cons a rest ih =>
    cases rest with
    | nil =>
      cases bs with
      | nil => contradiction
      | cons b bs => simp [joinWith]
    | cons a2 rest =>
      have := ih (by simp)
      simp only [List.cons_append] at this ⊢
      simp [joinWith, this]

/-! ### normLoop vs resolve -/

theorem foldl_step_none (cs : List Str) : cs.foldl step none = none := by
  induction cs with
  | nil => rfl
  | cons c cs ih => simpa [step] using ih

theorem inDotDot_iff (c : Str) : inDotDot c = true ↔ (c = [] ∨ c = dot ∨ c = dotdot) := by
  simp [inDotDot, dot, dotdot, or_assoc]

theorem normLoop_eq_foldl (cs acc : List Str) :
    normLoop cs acc = cs.foldl step (some acc.reverse) := by
  induction cs generalizing acc with
  | nil => simp [normLoop]
  | cons c cs ih =>
    rw [normLoop.eq_def, List.foldl_cons]; simp only []
    by_cases h1 : c = []
    · subst h1
      simp [inDotDot, step, ih]
    · by_cases h2 : c = dot
      · subst h2
        simp [inDotDot, step, ih, dot]
      · by_cases h3 : c = dotdot
        · subst h3
          cases acc with
          | nil => simp [inDotDot, step, dotdot, dot, foldl_step_none]
          | cons x acc' =>
            simp [inDotDot, step, dotdot, ih, dot]
        · have : inDotDot c = false := by
            rw [Bool.eq_false_iff]; intro h; rw [inDotDot_iff] at h; simp_all
          simp [this, step, h1, h2, h3, ih]

theorem normLoop_eq_resolve (cs : List Str) : normLoop cs [] = resolve cs := by
  simp [normLoop_eq_foldl, resolve]

/-! ### Clean lists -/

theorem clean_nil : Clean [] := by intro c hc; cases hc

theorem clean_cons {c : Str} {cs : List Str} : Clean (c :: cs) ↔ CleanComp c ∧ Clean cs := by
  simp [Clean]

theorem clean_append {as bs : List Str} : Clean (as ++ bs) ↔ Clean as ∧ Clean bs := by
  simp only [Clean, List.mem_append]
  constructor
  · intro h; exact ⟨fun c hc => h c (Or.inl hc), fun c hc => h c (Or.inr hc)⟩
  · rintro ⟨h1, h2⟩ c (hc | hc)
    · exact h1 c hc
    · exact h2 c hc

theorem clean_dropLast {cs : List Str} (h : Clean cs) : Clean cs.dropLast :=
  fun c hc => h c (List.dropLast_subset cs hc)

theorem clean_take {cs : List Str} (h : Clean cs) (n : Nat) : Clean (cs.take n) :=
  fun c hc => h c (List.mem_of_mem_take hc)

theorem clean_drop {cs : List Str} (h : Clean cs) (n : Nat) : Clean (cs.drop n) :=
  fun c hc => h c (List.mem_of_mem_drop hc)

theorem foldl_step_clean (cs s : List Str) (h : Clean cs) :
    cs.foldl step (some s) = some (s ++ cs) := by
  induction cs generalizing s with
  | nil => simp
  | cons c cs ih =>
    rw [clean_cons] at h
    obtain ⟨⟨h1, h2, h3, _⟩, hcs⟩ := h
    simp [step, h1, h2, h3, ih _ hcs]

theorem resolve_clean (cs : List Str) (h : Clean cs) : resolve cs = some cs := by
  simpa [resolve] using foldl_step_clean cs [] h

theorem foldl_step_result_clean (cs s r : List Str) (hs : Clean s) (hcs : ∀ c ∈ cs, '/' ∉ c)
    (h : cs.foldl step (some s) = some r) : Clean r := by
  induction cs generalizing s with
  | nil => simp at h; subst h; exact hs
  | cons c cs ih =>
    rw [List.foldl_cons] at h
    have hcs' : ∀ c ∈ cs, '/' ∉ c := fun x hx => hcs x (List.mem_cons_of_mem _ hx)
    by_cases h1 : c = [] ∨ c = dot
    · simp only [step, h1, if_true] at h
      exact ih s hs hcs' h
    · by_cases h3 : c = dotdot
      · subst h3
        have e1 : ¬ (dotdot = [] ∨ dotdot = dot) := by decide
        by_cases h4 : s = []
        · simp [step, e1, h4, foldl_step_none] at h
        · simp only [step, e1, h4, if_true, if_false] at h
          exact ih _ (clean_dropLast hs) hcs' h
      · simp only [step, h1, h3, if_false] at h
        refine ih _ ?_ hcs' h
        rw [clean_append]
        refine ⟨hs, ?_⟩
        rw [clean_cons]
        simp only [not_or] at h1
        exact ⟨⟨h1.1, h1.2, h3, hcs c (by simp)⟩, clean_nil⟩

theorem resolve_result_clean (p : Str) (r : List Str) (h : resolve (splitSlash p) = some r) :
    Clean r :=
  foldl_step_result_clean _ [] r clean_nil (not_mem_of_mem_splitOn '/' p) h

/-! ### the fast path of normpath -/

theorem foldl_step_nodots (cs s : List Str) (h : cs.any isDots = false) :
    cs.foldl step (some s) = some (s ++ cs.filter (fun c => c ≠ [])) := by
  induction cs generalizing s with
  | nil => simp
  | cons c cs ih =>
    simp only [List.any_cons, Bool.or_eq_false_iff] at h
    obtain ⟨hc, hcs⟩ := h
    have h2 : c ≠ dot ∧ c ≠ dotdot := by
      simpa [isDots, dot, dotdot] using hc
    rw [List.foldl_cons]
    by_cases h1 : c = []
    · subst h1; simp [step, ih _ hcs]
    · simp [step, h1, h2.1, h2.2, ih _ hcs]

theorem filter_ne_nil_eq_nil_of_go (l : List Str) (hl : l ≠ [])
    (hgo : hasInteriorEmpty.go l = false) (hf : l.filter (fun c => c ≠ []) = []) : l = [[]] := by
  match l, hl with
  | [y], _ => simpa using hf
  | c :: d :: rest, _ =>
    simp only [hasInteriorEmpty.go, Bool.or_eq_false_iff, beq_eq_false_iff_ne] at hgo
    simp [hgo.1] at hf

theorem rstrip_join_filter (l : List Str) (hl : l ≠ [])
    (hgo : hasInteriorEmpty.go l = false) (hs : ∀ c ∈ l, '/' ∉ c) :
    rstripSlash (joinWith '/' l) = joinWith '/' (l.filter (fun c => c ≠ [])) := by
  induction l with
  | nil => contradiction
  | cons c rest ih =>
    cases rest with
    | nil =>
      by_cases hc : c = []
      · subst hc; simp [joinWith, rstripSlash_nil]
      · simp only [joinWith, ne_eq, hc, not_false_eq_true, decide_true, List.filter_cons_of_pos,
          List.filter_nil]
        exact rstripSlash_of_not_ends _ (endsWithSlash_of_not_mem _ (hs c (by simp)))
    | cons d rest =>
      simp only [hasInteriorEmpty.go, Bool.or_eq_false_iff, beq_eq_false_iff_ne] at hgo
      have ih' := ih (by simp) hgo.2 (fun x hx => hs x (List.mem_cons_of_mem _ hx))
      have hc : c ≠ [] := hgo.1
      have hfc : (c :: d :: rest).filter (fun c => c ≠ []) =
          c :: (d :: rest).filter (fun c => c ≠ []) := by simp [hc]
      rw [hfc, joinWith_cons _ c (d :: rest), joinWith_cons _ c (List.filter _ _),
        if_neg (by simp), rstripSlash_append, rstripSlash_cons, ih']
      have hjn : joinWith '/' ((d :: rest).filter (fun c => c ≠ [])) = [] ↔
          (d :: rest).filter (fun c => c ≠ []) = [] :=
        joinWith_eq_nil_iff _ _ (fun x hx => by simpa using (List.mem_filter.1 hx).2)
      generalize (d :: rest).filter (fun c => c ≠ []) = F at *
      by_cases hF : F = []
      · subst hF
        simp only [joinWith, if_true]
        exact rstripSlash_of_not_ends _ (endsWithSlash_of_not_mem _ (hs c (by simp)))
      · have : joinWith '/' F ≠ [] := fun e => hF (hjn.1 e)
        simp [this, hF]

theorem fastpath_list (cs : List Str) (hne : cs ≠ []) (hs : ∀ c ∈ cs, '/' ∉ c)
    (hie : hasInteriorEmpty cs = false)
    (h1 : joinWith '/' cs ≠ []) (h2 : joinWith '/' cs ≠ ['/']) :
    (if startsWithSlash (joinWith '/' cs) then ['/'] else []) ++
        joinWith '/' (cs.filter (fun c => c ≠ [])) = rstripSlash (joinWith '/' cs) := by
  match cs, hne with
  | [x], _ =>
    have hx : x ≠ [] := by simpa [joinWith] using h1
    have hsx : '/' ∉ x := hs x (by simp)
    simp [joinWith, hx, startsWithSlash_of_not_mem _ hsx,
      rstripSlash_of_not_ends _ (endsWithSlash_of_not_mem _ hsx)]
  | x :: d :: rest, _ =>
    have hsx : '/' ∉ x := hs x (by simp)
    have hgo : hasInteriorEmpty.go (d :: rest) = false := hie
    have hs' : ∀ c ∈ d :: rest, '/' ∉ c := fun c hc => hs c (List.mem_cons_of_mem _ hc)
    by_cases hx : x = []
    · subst hx
      have hA := rstrip_join_filter (d :: rest) (by simp) hgo hs'
      have hF : (d :: rest).filter (fun c => c ≠ []) ≠ [] := by
        intro hf
        have := filter_ne_nil_eq_nil_of_go _ (by simp) hgo hf
        rw [this] at h2
        simp [joinWith] at h2
      have hjn : joinWith '/' ((d :: rest).filter (fun c => c ≠ [])) ≠ [] := fun e =>
        hF ((joinWith_eq_nil_iff _ _
          (fun x hx => by simpa using (List.mem_filter.1 hx).2)).1 e)
      rw [joinWith.eq_def]
      simp only [List.nil_append]
      rw [rstripSlash_cons, hA]
      simpa [startsWithSlash_cons] using hjn
    · have hgo' : hasInteriorEmpty.go (x :: d :: rest) = false := by
        simp [hasInteriorEmpty.go, hx, hgo]
      rw [rstrip_join_filter _ (by simp) hgo' hs]
      have : startsWithSlash (joinWith '/' (x :: d :: rest)) = false := by
        rw [joinWith, startsWithSlash_append _ _ hx]
        exact startsWithSlash_of_not_mem _ hsx
      simp [this]

theorem fastpath_spec (p : Str) (h1 : p ≠ []) (h2 : p ≠ ['/'])
    (h : requiresNormalization p = false) : specNorm p = .ok (rstripSlash p) := by
  simp only [requiresNormalization, Bool.or_eq_false_iff] at h
  obtain ⟨⟨hd, _⟩, hie⟩ := h
  have hj : joinWith '/' (splitOn '/' p) = p := joinWith_splitOn '/' p
  have hs := not_mem_of_mem_splitOn '/' p
  have hne := splitOn_ne_nil '/' p
  unfold specNorm
  simp only [splitSlash, joinSlash] at *
  rw [resolve, foldl_step_nodots _ _ hd]
  simp only [List.nil_append]
  have := fastpath_list (splitOn '/' p) hne hs hie (by rw [hj]; exact h1) (by rw [hj]; exact h2)
  rw [hj] at this
  rw [this]

/-! ### normpath = specNorm -/

theorem normpath_eq_specNorm (p : Str) : normpath p = specNorm p := by
  by_cases h1 : p = []
  · subst h1; decide
  by_cases h2 : p = ['/']
  · subst h2; decide
  unfold normpath
  have h12 : (p == [] || p == ['/']) = false := by simp [h1, h2]
  rw [h12]
  simp only [Bool.false_eq_true, if_false]
  by_cases h3 : requiresNormalization p = false
  · rw [h3]; simp only [Bool.not_false, if_true]
    exact (fastpath_spec p h1 h2 h3).symm
  · simp only [Bool.not_eq_false] at h3
    rw [h3]
    simp only [Bool.not_true, Bool.false_eq_true, if_false]
    rw [normLoop_eq_resolve]
    unfold specNorm
    cases resolve (splitSlash p) <;> rfl

/-- paths built from clean components -/
def mkp (a : Bool) (cs : List Str) : Str := (if a then ['/'] else []) ++ joinWith '/' cs

theorem clean_not_mem {cs : List Str} (h : Clean cs) : ∀ c ∈ cs, '/' ∉ c :=
  fun c hc => (h c hc).2.2.2

theorem clean_ne_nil {cs : List Str} (h : Clean cs) : ∀ c ∈ cs, c ≠ [] :=
  fun c hc => (h c hc).1

theorem join_clean_eq_nil_iff {cs : List Str} (h : Clean cs) : joinWith '/' cs = [] ↔ cs = [] :=
  joinWith_eq_nil_iff _ _ (clean_ne_nil h)

theorem splitOn_join_clean {cs : List Str} (h : Clean cs) (hne : cs ≠ []) :
    splitOn '/' (joinWith '/' cs) = cs :=
  splitOn_joinWith _ _ hne (clean_not_mem h)

theorem startsWithSlash_join_clean {cs : List Str} (h : Clean cs) :
    startsWithSlash (joinWith '/' cs) = false := by
  cases cs with
  | nil => rfl
  | cons c rest =>
    rw [joinWith_cons]
    have hc := (clean_cons.1 h).1
    split
    · exact startsWithSlash_of_not_mem _ hc.2.2.2
    · rw [startsWithSlash_append _ _ hc.1]; exact startsWithSlash_of_not_mem _ hc.2.2.2

theorem endsWithSlash_join_clean {cs : List Str} (h : Clean cs) :
    endsWithSlash (joinWith '/' cs) = false := by
  induction cs with
  | nil => rfl
  | cons c rest ih =>
    rw [joinWith_cons]
    rw [clean_cons] at h
    split
    · exact endsWithSlash_of_not_mem _ h.1.2.2.2
    · next hr =>
      have : joinWith '/' rest ≠ [] := fun e => hr ((join_clean_eq_nil_iff h.2).1 e)
      rw [endsWithSlash_append _ _ (by simp), show '/' :: joinWith '/' rest = ['/'] ++ joinWith '/' rest from rfl,
        endsWithSlash_append _ _ this]
      exact ih h.2

theorem startsWithSlash_mkp {a : Bool} {cs : List Str} (h : Clean cs) :
    startsWithSlash (mkp a cs) = a := by
  cases a
  · simpa [mkp] using startsWithSlash_join_clean h
  · simp [mkp, startsWithSlash_cons]

theorem lstripSlash_mkp {a : Bool} {cs : List Str} (h : Clean cs) :
    lstripSlash (mkp a cs) = joinWith '/' cs := by
  have := lstripSlash_of_not_starts _ (startsWithSlash_join_clean h)
  cases a
  · simpa [mkp] using this
  · simpa [mkp, lstripSlash] using this

theorem mkp_eq_nil_iff {a : Bool} {cs : List Str} (h : Clean cs) :
    mkp a cs = [] ↔ a = false ∧ cs = [] := by
  cases a <;> simp [mkp, join_clean_eq_nil_iff h]

theorem mkp_eq_slash_iff {a : Bool} {cs : List Str} (h : Clean cs) :
    mkp a cs = ['/'] ↔ a = true ∧ cs = [] := by
  cases a
  · simp only [mkp, Bool.false_eq_true, if_false, List.nil_append, false_and, iff_false]
    intro e
    have := startsWithSlash_join_clean h
    rw [e] at this
    exact absurd this (by decide)
  · simp [mkp, join_clean_eq_nil_iff h]

theorem endsWithSlash_mkp {a : Bool} {cs : List Str} (h : Clean cs) (hne : cs ≠ []) :
    endsWithSlash (mkp a cs) = false := by
  have : joinWith '/' cs ≠ [] := fun e => hne ((join_clean_eq_nil_iff h).1 e)
  rw [mkp, endsWithSlash_append _ _ this]
  exact endsWithSlash_join_clean h

theorem rstripSlash_mkp {a : Bool} {cs : List Str} (h : Clean cs) (hne : cs ≠ []) :
    rstripSlash (mkp a cs) = mkp a cs :=
  rstripSlash_of_not_ends _ (endsWithSlash_mkp h hne)

theorem splitOn_mkp {a : Bool} {cs : List Str} (h : Clean cs) :
    splitOn '/' (mkp a cs) = (if a then [[]] else []) ++ (if cs = [] then [[]] else cs) := by
  have : splitOn '/' (joinWith '/' cs) = if cs = [] then [[]] else cs := by
    split
    · next e => subst e; rfl
    · next e => exact splitOn_join_clean h e
  cases a
  · simpa [mkp] using this
  · simpa [mkp, splitOn_cons_sep] using this

theorem resolve_splitOn_mkp {a : Bool} {cs : List Str} (h : Clean cs) :
    resolve (splitOn '/' (mkp a cs)) = some cs := by
  rw [splitOn_mkp h]
  by_cases hc : cs = []
  · subst hc; cases a <;> decide
  · have := resolve_clean cs h
    cases a
    · simpa [hc] using this
    · simp only [if_true, if_neg hc, List.cons_append, List.nil_append, resolve, List.foldl_cons]
      simpa [step, resolve] using this

theorem normpath_mkp {a : Bool} {cs : List Str} (h : Clean cs) :
    normpath (mkp a cs) = .ok (mkp a cs) := by
  rw [normpath_eq_specNorm, specNorm]
  simp only [splitSlash, joinSlash]
  rw [resolve_splitOn_mkp h, startsWithSlash_mkp h]
  rfl

theorem normpath_ok_clean (p q : Str) (h : normpath p = .ok q) :
    ∃ cs, Clean cs ∧ q = mkp (startsWithSlash p) cs := by
  rw [normpath_eq_specNorm, specNorm] at h
  cases hr : resolve (splitSlash p) with
  | none => rw [hr] at h; cases h
  | some cs =>
    rw [hr] at h
    simp only [Res.ok.injEq] at h
    exact ⟨cs, resolve_result_clean p cs hr, h.symm⟩

/-! ### Res monad -/

theorem bind_ok {α β} (x : α) (f : α → Res β) : (Res.ok x >>= f) = f x := rfl
theorem bind_err {α β} (e : Err) (f : α → Res β) : (Res.err e >>= f) = Res.err e := rfl
theorem pure_eq {α} (x : α) : (pure x : Res α) = Res.ok x := rfl

theorem stripSlash_mkp {a : Bool} {cs : List Str} (h : Clean cs) :
    stripSlash (mkp a cs) = joinWith '/' cs := by
  rw [stripSlash, lstripSlash_mkp h]
  exact rstripSlash_of_not_ends _ (endsWithSlash_join_clean h)

/-! ### split -/

theorem rsplit1_go_skip (c : Char) (u rest acc : Str) (h : c ∉ u) :
    rsplit1.go c (u ++ rest) acc = rsplit1.go c rest (u.reverse ++ acc) := by
  induction u generalizing acc with
  | nil => rfl
  | cons x xs ih =>
    simp only [List.mem_cons, not_or] at h
    have hx : x ≠ c := fun e => h.1 e.symm
    simp [rsplit1.go, hx, ih _ h.2]

theorem rsplit1_none (c : Char) (s : Str) (h : c ∉ s) : rsplit1 c s = none := by
  have := rsplit1_go_skip c s.reverse [] [] (by simpa using h)
  simpa [rsplit1, rsplit1.go] using this

theorem rsplit1_some (c : Char) (a b : Str) (h : c ∉ b) :
    rsplit1 c (a ++ c :: b) = some (a, b) := by
  have := rsplit1_go_skip c b.reverse (c :: a.reverse) [] (by simpa using h)
  simp only [rsplit1, List.reverse_append, List.reverse_cons, List.append_assoc,
    List.singleton_append]
  simpa [rsplit1.go] using this

theorem mkp_snoc {a : Bool} {cs : List Str} (c : Str) (hne : cs ≠ []) :
    mkp a (cs ++ [c]) = mkp a cs ++ '/' :: c := by
  simp [mkp, joinWith_append _ _ _ hne, joinWith]

theorem mkp_ne_nil {a : Bool} {cs : List Str} (h : Clean cs) (hne : cs ≠ []) : mkp a cs ≠ [] := by
  intro e; exact hne ((mkp_eq_nil_iff h).1 e).2

theorem split_mkp_snoc (a : Bool) (cs : List Str) (c : Str) (h : Clean (cs ++ [c])) :
    split (mkp a (cs ++ [c])) = (mkp a cs, c) := by
  rw [clean_append, clean_cons] at h
  obtain ⟨hcs, hc, -⟩ := h
  by_cases hne : cs = []
  · subst hne
    cases a
    · simp [mkp, joinWith, split, rsplit1_none _ _ hc.2.2.2]
    · have : mkp true ([] ++ [c]) = [] ++ '/' :: c := rfl
      rw [this, split, rsplit1_some _ _ _ hc.2.2.2]
      rfl
  · rw [mkp_snoc c hne, split, rsplit1_some _ _ _ hc.2.2.2]
    have := mkp_ne_nil (a := a) hcs hne
    simp [this]

theorem split_mkp_nil (a : Bool) : split (mkp a []) = (mkp a [], []) := by
  cases a <;> decide

theorem list_nil_or_snoc {α} (l : List α) : l = [] ∨ ∃ i x, l = i ++ [x] := by
  rcases List.eq_nil_or_concat l with h | ⟨i, x, h⟩
  · exact Or.inl h
  · exact Or.inr ⟨i, x, by simpa using h⟩

theorem combine_split_mkp (a : Bool) (cs : List Str) (h : Clean cs) :
    combine (split (mkp a cs)).1 (split (mkp a cs)).2 = mkp a cs := by
  rcases list_nil_or_snoc cs with rfl | ⟨i, c, rfl⟩
  · cases a <;> decide
  · rw [split_mkp_snoc a i c h]
    rw [clean_append, clean_cons] at h
    obtain ⟨hi, hc, -⟩ := h
    have hlc : lstripSlash c = c :=
      lstripSlash_of_not_starts _ (startsWithSlash_of_not_mem _ hc.2.2.2)
    by_cases hne : i = []
    · subst hne
      cases a
      · simp [combine, mkp, joinWith]
      · simp only [combine, hlc]
        rfl
    · have h1 := mkp_ne_nil (a := a) hi hne
      simp only [combine, hlc, rstripSlash_mkp hi hne, mkp_snoc c hne]
      simp [h1]

theorem join_go_cons (p : Str) (ps : List Str) (ab : Bool) (rel : List Str) (hp : p ≠ []) :
    join.go (p :: ps) ab rel =
      if startsWithSlash p then join.go ps true [p] else join.go ps ab (p :: rel) := by
  cases p with
  | nil => contradiction
  | cons x xs =>
    rw [join.go, startsWithSlash_cons]
    by_cases hx : x = '/' <;> simp [hx]

theorem join_go_nil (ab : Bool) (rel : List Str) : join.go [] ab rel = (ab, rel.reverse) := by
  rw [join.go]

theorem join_go_cons_nil (ps : List Str) (ab : Bool) (rel : List Str) :
    join.go ([] :: ps) ab rel = join.go ps ab rel := by
  rw [join.go]

theorem join_split_mkp (a : Bool) (cs : List Str) (h : Clean cs) :
    join [(split (mkp a cs)).1, (split (mkp a cs)).2] = .ok (mkp a cs) := by
  rcases list_nil_or_snoc cs with rfl | ⟨i, c, rfl⟩
  · cases a <;> decide
  · rw [split_mkp_snoc a i c h]
    have hfull := h
    rw [clean_append, clean_cons] at h
    obtain ⟨hi, hc, -⟩ := h
    have hsc : startsWithSlash c = false := startsWithSlash_of_not_mem _ hc.2.2.2
    simp only
    by_cases hne : i = []
    · subst hne
      cases a
      · have e : mkp false [] = [] := rfl
        have e2 : mkp false ([] ++ [c]) = c := by simp [mkp, joinWith]
        rw [e, e2, join]
        rw [join_go_cons_nil, join_go_cons _ _ _ _ hc.1, hsc]
        simp only [Bool.false_eq_true, if_false, join_go_nil, List.reverse_cons, List.reverse_nil,
          List.nil_append, joinSlash, joinWith]
        have := normpath_mkp (a := false) hfull
        rw [e2] at this
        rw [this]; rfl
      · have e : mkp true [] = ['/'] := rfl
        have e2 : mkp true ([] ++ [c]) = '/' :: c := by simp [mkp, joinWith]
        rw [e, e2, join]
        rw [join_go_cons _ _ _ _ (by simp), join_go_cons _ _ _ _ hc.1, hsc]
        simp only [Bool.false_eq_true, join_go_nil, startsWithSlash_cons, decide_true, List.reverse_cons, List.reverse_nil,
          List.nil_append, joinSlash, joinWith, List.cons_append, ↓reduceIte]
        have : normpath ('/' :: '/' :: c) = .ok ('/' :: c) := by
          rw [normpath_eq_specNorm, specNorm]
          simp only [splitSlash, splitOn_cons_sep, splitOn_of_not_mem _ _ hc.2.2.2]
          have hr : resolve [[], [], c] = some [c] := by
            simp [resolve, step, hc.1, hc.2.1, hc.2.2.1]
          rw [hr]; rfl
        rw [this]; rfl
    · have h1 := mkp_ne_nil (a := a) hi hne
      rw [join, join_go_cons _ _ _ _ h1, startsWithSlash_mkp hi]
      have hn := normpath_mkp (a := a) hfull
      rw [mkp_snoc c hne] at hn ⊢
      cases a
      · simp only [Bool.false_eq_true, if_false]
        rw [join_go_cons _ _ _ _ hc.1, hsc]
        simp only [Bool.false_eq_true, if_false, join_go_nil, List.reverse_cons, List.reverse_nil,
          List.nil_append, joinSlash, joinWith, List.cons_append]
        rw [hn]; rfl
      · simp only [if_true]
        rw [join_go_cons _ _ _ _ hc.1, hsc]
        simp only [Bool.false_eq_true, if_false, join_go_nil, List.reverse_cons, List.reverse_nil,
          List.nil_append, joinSlash, joinWith, List.cons_append]
        rw [hn, bind_ok, pure_eq]
        simp only [if_true, abspath]
        rw [← mkp_snoc c hne, startsWithSlash_mkp hfull]
        rfl

/-! ### isbase -/

/-- every component followed by a slash -/
def dirs : List Str → Str
  | [] => []
  | c :: cs => c ++ '/' :: dirs cs

theorem dirs_append (as bs : List Str) : dirs (as ++ bs) = dirs as ++ dirs bs := by
  induction as with
  | nil => rfl
  | cons a as ih => simp [dirs, ih]

theorem join_append_slash (cs : List Str) (hne : cs ≠ []) :
    joinWith '/' cs ++ ['/'] = dirs cs := by
  induction cs with
  | nil => contradiction
  | cons c rest ih =>
    cases rest with
    | nil => simp [joinWith, dirs]
    | cons d rest =>
      have := ih (by simp)
      simp only [joinWith, dirs, List.append_assoc, List.cons_append] at this ⊢
      rw [this]

theorem join_snoc (cs : List Str) (c : Str) : joinWith '/' (cs ++ [c]) = dirs cs ++ c := by
  by_cases h : cs = []
  · subst h; simp [joinWith, dirs]
  · rw [joinWith_append _ _ _ h (by simp), ← join_append_slash cs h]; simp [joinWith]

theorem startsWith_iff_prefix (a b : Str) : startsWith a b = true ↔ b <+: a := by
  induction a generalizing b with
  | nil => cases b <;> simp [startsWith]
  | cons x xs ih =>
    cases b with
    | nil => simp [startsWith]
    | cons y ys =>
      simp only [startsWith, Bool.and_eq_true, beq_iff_eq, ih, List.cons_prefix_cons]
      constructor
      · rintro ⟨rfl, h⟩; exact ⟨rfl, h⟩
      · rintro ⟨rfl, h⟩; exact ⟨rfl, h⟩

theorem append_sep_inj (c : Char) (a b u v : Str) (ha : c ∉ a) (hb : c ∉ b)
    (h : a ++ c :: u = b ++ c :: v) : a = b ∧ u = v := by
  have h' := congrArg (splitOn c) h
  rw [splitOn_append_sep c a u ha, splitOn_append_sep c b v hb] at h'
  have hab : a = b := (List.cons.inj h').1
  subst hab
  exact ⟨rfl, by simpa using h⟩

theorem dirs_prefix_iff {as bs : List Str} (ha : Clean as) (hb : Clean bs) :
    dirs as <+: dirs bs ↔ as <+: bs := by
  constructor
  · intro h
    induction as generalizing bs with
    | nil => exact List.nil_prefix
    | cons a as ih =>
      rw [clean_cons] at ha
      cases bs with
      | nil =>
        obtain ⟨t, ht⟩ := h
        simp [dirs] at ht
      | cons b bs =>
        rw [clean_cons] at hb
        obtain ⟨t, ht⟩ := h
        simp only [dirs, List.append_assoc, List.cons_append] at ht
        obtain ⟨rfl, h2⟩ := append_sep_inj '/' a b _ _ ha.1.2.2.2 hb.1.2.2.2 ht
        rw [List.cons_prefix_cons]
        exact ⟨rfl, ih ha.2 hb.2 ⟨t, h2⟩⟩
  · rintro ⟨t, rfl⟩
    rw [dirs_append]
    exact List.prefix_append _ _

theorem abspath_mkp {a : Bool} {cs : List Str} (h : Clean cs) : abspath (mkp a cs) = mkp true cs := by
  unfold abspath
  rw [startsWithSlash_mkp h]
  cases a <;> simp [mkp]

theorem forcedir_mkp_true {cs : List Str} (h : Clean cs) :
    forcedir (mkp true cs) = '/' :: dirs cs := by
  by_cases hne : cs = []
  · subst hne; rfl
  · rw [forcedir, endsWithSlash_mkp h hne]
    simp only [Bool.false_eq_true, if_false, mkp, if_true, List.cons_append, List.nil_append]
    rw [join_append_slash cs hne]

theorem isbase_mkp_iff (a b : Bool) (as bs : List Str) (ha : Clean as) (hb : Clean bs) :
    isbase (mkp a as) (mkp b bs) = true ↔ as <+: bs := by
  rw [isbase, abspath_mkp ha, abspath_mkp hb, forcedir_mkp_true ha, forcedir_mkp_true hb,
    startsWith_iff_prefix, List.cons_prefix_cons]
  simp [dirs_prefix_iff ha hb]

/-! ### isparent / frombase -/

theorem isparent_core_iff (l1 l2 : List Str) :
    (if l1.length > l2.length then false else zipAllEq l1 l2) = true ↔ l1 <+: l2 := by
  induction l1 generalizing l2 with
  | nil => simp [zipAllEq]
  | cons x xs ih =>
    cases l2 with
    | nil => simp
    | cons y ys =>
      have := ih ys
      simp only [List.length_cons, gt_iff_lt, Nat.add_lt_add_iff_right, zipAllEq,
        List.cons_prefix_cons] at this ⊢
      rw [← this]
      by_cases hl : ys.length < xs.length
      · simp [hl]
      · simp [hl]

theorem dropTrailingEmpty_snoc (l : List Str) (x : Str) (hx : x ≠ []) :
    dropTrailingEmpty (l ++ [x]) = l ++ [x] := by
  simp [dropTrailingEmpty, hx]

theorem dropTrailingEmpty_of_ne_nil (l : List Str) (hl : l ≠ []) (h : ∀ x ∈ l, x ≠ []) :
    dropTrailingEmpty l = l := by
  rcases list_nil_or_snoc l with rfl | ⟨i, x, rfl⟩
  · contradiction
  · exact dropTrailingEmpty_snoc i x (h x (by simp))

theorem isparent_mkp_iff (a : Bool) (as bs : List Str) (ha : Clean as) (hb : Clean bs) :
    isparent (mkp a as) (mkp a bs) = true ↔ as <+: bs := by
  unfold isparent
  simp only [splitSlash]
  rw [isparent_core_iff, splitOn_mkp ha, splitOn_mkp hb]
  by_cases hne : as = []
  · subst hne
    have : dropTrailingEmpty ((if a then [[]] else []) ++ (if ([] : List Str) = [] then [[]] else [])) = [] := by
      cases a <;> decide
    rw [this]
    simp
  · rw [if_neg hne]
    have hd : dropTrailingEmpty ((if a then [[]] else []) ++ as) = (if a then [[]] else []) ++ as := by
      rcases list_nil_or_snoc as with rfl | ⟨i, x, rfl⟩
      · contradiction
      · rw [← List.append_assoc]
        exact dropTrailingEmpty_snoc _ x (clean_ne_nil ha x (by simp))
    rw [hd, List.prefix_append_right_inj]
    by_cases hbn : bs = []
    · subst hbn
      simp only [if_true, List.prefix_nil, hne, iff_false]
      cases as with
      | nil => contradiction
      | cons x xs =>
        rw [List.cons_prefix_cons]
        rintro ⟨rfl, -⟩
        exact clean_ne_nil ha [] (by simp) rfl
    · rw [if_neg hbn]

theorem startsWith_append_self (p t : Str) : startsWith (p ++ t) p = true :=
  (startsWith_iff_prefix _ _).2 (List.prefix_append _ _)

/-- `frombase` on a path that literally starts with `p1`: the slice -/
theorem frombase_of_append (p t : Str) (h : isparent p (p ++ t) = true) :
    frombase p (p ++ t) = .ok t := by
  simp only [frombase, h, startsWith_append_self, Bool.not_true, Bool.false_eq_true, if_false,
    List.drop_left]

/-- one path absolute, the other relative: `isparent` holds only for the empty component list
(`"/"` resp. `""`), whose `split` is dropped entirely -/
theorem isparent_mkp_mixed (a b : Bool) (as bs : List Str) (ha : Clean as) (hb : Clean bs)
    (hab : a ≠ b) : isparent (mkp a as) (mkp b bs) = true ↔ as = [] := by
  unfold isparent
  simp only [splitSlash]
  rw [isparent_core_iff, splitOn_mkp ha, splitOn_mkp hb]
  by_cases hne : as = []
  · subst hne
    have : dropTrailingEmpty ((if a then [[]] else []) ++ (if ([] : List Str) = [] then [[]] else [])) = [] := by
      cases a <;> decide
    rw [this]
    simp
  · rw [if_neg hne]
    have hd : dropTrailingEmpty ((if a then [[]] else []) ++ as) = (if a then [[]] else []) ++ as := by
      rcases list_nil_or_snoc as with rfl | ⟨i, x, rfl⟩
      · contradiction
      · rw [← List.append_assoc]
        exact dropTrailingEmpty_snoc _ x (clean_ne_nil ha x (by simp))
    rw [hd]
    simp only [hne, iff_false]
    cases as with
    | nil => contradiction
    | cons x xs =>
      have hx : x ≠ [] := clean_ne_nil ha x (by simp)
      cases a <;> cases b
      · exact absurd rfl hab
      · simp only [Bool.false_eq_true, if_false, if_true, List.nil_append, List.cons_append,
          List.cons_prefix_cons]
        rintro ⟨rfl, -⟩; exact hx rfl
      · simp only [Bool.false_eq_true, if_false, if_true, List.nil_append, List.cons_append]
        by_cases hbn : bs = []
        · subst hbn
          simp only [if_true, List.cons_prefix_cons]
          rintro ⟨-, h2⟩
          simp at h2
        · rw [if_neg hbn]
          cases bs with
          | nil => contradiction
          | cons y ys =>
            rw [List.cons_prefix_cons]
            rintro ⟨h1, -⟩
            exact clean_ne_nil hb y (by simp) h1.symm
      · exact absurd rfl hab

theorem mkp_prefix {a : Bool} {as bs : List Str} (hp : as <+: bs) : mkp a as <+: mkp a bs := by
  obtain ⟨t, rfl⟩ := hp
  by_cases h1 : as = []
  · subst h1; simp [mkp, joinWith]
  by_cases h2 : t = []
  · subst h2; simp
  · rw [mkp, mkp, joinWith_append _ _ _ h1 h2, ← List.append_assoc]
    exact List.prefix_append _ _

/-! ### issamedir -/

theorem join_clean_inj {as bs : List Str} (ha : Clean as) (hb : Clean bs)
    (h : joinWith '/' as = joinWith '/' bs) : as = bs := by
  by_cases h1 : as = []
  · subst h1
    exact ((join_clean_eq_nil_iff hb).1 h.symm).symm
  · have h2 : bs ≠ [] := by
      intro e; subst e
      exact h1 ((join_clean_eq_nil_iff ha).1 h)
    rw [← splitOn_join_clean ha h1, ← splitOn_join_clean hb h2, h]

theorem mkp_inj {a : Bool} {as bs : List Str} (ha : Clean as) (hb : Clean bs)
    (h : mkp a as = mkp a bs) : as = bs :=
  join_clean_inj ha hb (List.append_cancel_left h)

theorem issamedir_mkp (a : Bool) (as bs : List Str) (ha : Clean as) (hb : Clean bs)
    (hna : as ≠ []) (hnb : bs ≠ []) :
    issamedir (mkp a as) (mkp a bs) = .ok (decide (as.dropLast = bs.dropLast)) := by
  unfold issamedir
  rw [normpath_mkp ha, normpath_mkp hb, bind_ok, bind_ok, pure_eq]
  rcases list_nil_or_snoc as with rfl | ⟨i, x, rfl⟩
  · contradiction
  rcases list_nil_or_snoc bs with rfl | ⟨j, y, rfl⟩
  · contradiction
  simp only [dirname, split_mkp_snoc a i x ha, split_mkp_snoc a j y hb, List.dropLast_concat]
  congr 1
  rw [clean_append] at ha hb
  by_cases hij : i = j
  · subst hij; simp
  · have : mkp a i ≠ mkp a j := fun e => hij (mkp_inj ha.1 hb.1 e)
    simp [hij, this]

/-! ### relativefrom -/

theorem commonLen_le_left (as bs : List Str) : commonLen as bs ≤ as.length := by
  induction as generalizing bs with
  | nil => simp [commonLen]
  | cons a as ih =>
    cases bs with
    | nil => simp [commonLen]
    | cons b bs =>
      simp only [commonLen]
      split
      · have := ih bs; simp; omega
      · simp

theorem take_commonLen (as bs : List Str) :
    as.take (commonLen as bs) = bs.take (commonLen as bs) := by
  induction as generalizing bs with
  | nil => simp [commonLen]
  | cons a as ih =>
    cases bs with
    | nil => simp [commonLen]
    | cons b bs =>
      simp only [commonLen]
      split
      · next h => simp at h; subst h; simp [ih bs]
      · simp

theorem foldl_step_dotdots (n : Nat) (s : List Str) (h : n ≤ s.length) :
    (List.replicate n dotdot).foldl step (some s) = some (s.take (s.length - n)) := by
  induction n generalizing s with
  | zero => simp
  | succ n ih =>
    have hs : s ≠ [] := by intro e; subst e; simp at h
    have e1 : ¬ (dotdot = [] ∨ dotdot = dot) := by decide
    rw [List.replicate_succ, List.foldl_cons]
    simp only [step, e1, if_false, if_true, hs]
    rw [ih _ (by simp; omega), List.dropLast_eq_take, List.take_take]
    simp only [List.length_take]
    congr 2
    omega

theorem relativefrom_core (as bs : List Str) (ha : Clean as) (hb : Clean bs) :
    resolve (as ++ splitOn '/' (joinWith '/'
      (List.replicate (as.length - commonLen as bs) dotdot ++ bs.drop (commonLen as bs)))) =
      some bs := by
  have hk := commonLen_le_left as bs
  have htk := take_commonLen as bs
  generalize commonLen as bs = k at *
  by_cases hL : List.replicate (as.length - k) dotdot ++ bs.drop k = []
  · rw [hL]
    simp only [List.append_eq_nil_iff, List.replicate_eq_nil_iff, List.drop_eq_nil_iff] at hL
    have e1 : as.take k = as := List.take_of_length_le (by omega)
    have e2 : bs.take k = bs := List.take_of_length_le hL.2
    have : as = bs := by rw [← e1, ← e2, htk]
    subst this
    simp only [joinWith, splitOn, resolve, List.foldl_append, foldl_step_clean _ _ ha,
      List.nil_append, List.foldl_cons, List.foldl_nil]
    simp [step]
  · rw [splitOn_joinWith _ _ hL]
    · rw [resolve, List.foldl_append, foldl_step_clean _ _ ha, List.nil_append, List.foldl_append,
        foldl_step_dotdots _ _ (by omega), foldl_step_clean _ _ (clean_drop hb k)]
      have : as.length - (as.length - k) = k := by omega
      rw [this, htk, List.take_append_drop]
    · intro x hx
      rw [List.mem_append] at hx
      rcases hx with hx | hx
      · rw [List.mem_replicate] at hx
        rw [hx.2]; decide
      · exact clean_not_mem (clean_drop hb k) x hx

/-! ### recursepath -/

theorem findSlash_go (c rest : Str) (i : Nat) (h : '/' ∉ c) :
    findSlashFrom.go (c ++ '/' :: rest) i = some (i + c.length) := by
  induction c generalizing i with
  | nil => simp [findSlashFrom.go]
  | cons x xs ih =>
    simp only [List.mem_cons, not_or] at h
    have hx : x ≠ '/' := fun e => h.1 e.symm
    simp only [List.cons_append, findSlashFrom.go, hx, if_false, ih _ h.2, List.length_cons]
    congr 1; omega

theorem findSlashFrom_at (pfx c rest : Str) (h : '/' ∉ c) :
    findSlashFrom (pfx ++ (c ++ '/' :: rest)) pfx.length = some (pfx.length + c.length) := by
  rw [findSlashFrom, List.drop_left, findSlash_go _ _ _ h]

/-- the paths `recurseLoop` emits, starting after the prefix `pfx` -/
def prefs (pfx : Str) : List Str → List Str
  | [] => []
  | c :: t => (pfx ++ c) :: prefs (pfx ++ c ++ ['/']) t

theorem recurseLoop_eq (todo : List Str) (pfx : Str) (fuel : Nat) (acc : List Str)
    (h : Clean todo) (hf : todo.length ≤ fuel) :
    recurseLoop (pfx ++ dirs todo) fuel pfx.length acc = acc.reverse ++ prefs pfx todo := by
  induction todo generalizing pfx fuel acc with
  | nil =>
    cases fuel with
    | zero => simp [recurseLoop, prefs]
    | succ f => simp [recurseLoop, prefs, dirs]
  | cons c t ih =>
    rw [clean_cons] at h
    cases fuel with
    | zero => simp at hf
    | succ f =>
      rw [recurseLoop]
      have hlt : pfx.length < (pfx ++ dirs (c :: t)).length := by
        simp [dirs]; omega
      rw [if_pos hlt]
      simp only [dirs]
      rw [findSlashFrom_at _ _ _ h.1.2.2.2]
      simp only
      have e1 : (pfx ++ (c ++ '/' :: dirs t)).take (pfx.length + c.length) = pfx ++ c := by
        rw [← List.append_assoc, ← List.length_append, List.take_left]
      have e2 : pfx ++ (c ++ '/' :: dirs t) = (pfx ++ c ++ ['/']) ++ dirs t := by simp
      have e3 : pfx.length + c.length + 1 = (pfx ++ c ++ ['/']).length := by simp; omega
      rw [e1, e2, e3, ih _ _ _ h.2 (by simpa using hf)]
      simp [prefs]

theorem prefs_eq (done todo : List Str) :
    prefs ('/' :: dirs done) todo =
      (List.range todo.length).map (fun i => mkp true (done ++ todo.take (i + 1))) := by
  induction todo generalizing done with
  | nil => simp [prefs]
  | cons c t ih =>
    have e1 : '/' :: dirs done ++ c = mkp true (done ++ [c]) := by
      simp [mkp, join_snoc]
    have e2 : '/' :: dirs done ++ c ++ ['/'] = '/' :: dirs (done ++ [c]) := by
      simp [dirs_append, dirs]
    rw [prefs, e2, ih, List.length_cons, List.range_succ_eq_map, List.map_cons, List.map_map, e1]
    simp

theorem recursepath_mkp (a : Bool) (cs : List Str) (h : Clean cs) :
    recursepath (mkp a cs) false =
      .ok ((List.range (cs.length + 1)).map fun i => mkp true (cs.take i)) := by
  by_cases hne : cs = []
  · subst hne; cases a <;> rfl
  · have h1 : mkp a cs ≠ [] := mkp_ne_nil h hne
    have h2 : mkp a cs ≠ ['/'] := fun e => hne ((mkp_eq_slash_iff h).1 e).2
    unfold recursepath
    have h12 : (mkp a cs == [] || mkp a cs == ['/']) = false := by simp [h1, h2]
    rw [h12]
    simp only [Bool.false_eq_true, if_false]
    rw [normpath_mkp h, bind_ok, pure_eq, abspath_mkp h]
    have e : mkp true cs ++ ['/'] = ['/'] ++ dirs cs := by
      simp only [mkp, if_true, List.append_assoc, join_append_slash cs hne]
    rw [e]
    have := recurseLoop_eq cs ['/'] (List.length (['/'] ++ dirs cs) + 1) [['/']] h
      (by
        have : cs.length ≤ (dirs cs).length := by
          clear e h12 h2 h1 hne h
          induction cs with
          | nil => simp
          | cons c t ih => simp [dirs]; omega
        simp; omega)
    simp only [List.length_singleton] at this
    rw [this]
    have := prefs_eq [] cs
    simp only [dirs, List.nil_append] at this
    rw [this, List.range_succ_eq_map, List.map_cons, List.map_map]
    simp
    rfl

end Fs.PathLemmas
