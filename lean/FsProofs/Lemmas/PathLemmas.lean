import FsModel.Path
import FsModel.PathSpec

namespace Fs.PathLemmas
open Fs Fs.Path Fs.PathSpec

end Fs.PathLemmas
