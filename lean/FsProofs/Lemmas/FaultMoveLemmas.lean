import FsProofs.Lemmas.FaultLemmas
set_option linter.unusedSimpArgs false
namespace Fs.Fault

/-! ### one step at a time -/

theorem step_pure {pr : Prim} {s s' : State} (hp : pr.isPure = true) (h : pr.step s = .ok s') : s' = s := by
  cases pr <;> simp [Prim.isPure] at hp
  · exact step_call h
  · simp [Prim.step] at h; exact h.symm
  · exact step_getinfo h
  · simp only [Prim.step] at h
    split at h
    · simp at h; exact h.symm
    · split at h <;> simp at h
  · exact step_openR h
  · exact step_close h
  · exact step_setinfo h

/-- an atomic failure (`late = false`) leaves the state alone -/
theorem execPrim_atomic (f : Option Fault) (hl : ∀ flt, f = some flt → flt.late = false)
    (p : Prim) (n : Nat) (s : State) (h : (execPrim f p n s).out ≠ .ok) : (execPrim f p n s).state = s := by
  unfold execPrim at h ⊢
  cases f with
  | none => cases hs : p.step s <;> simp [hs] at h ⊢
  | some flt =>
    have hl' := hl flt rfl
    obtain ⟨k, kind, late⟩ := flt
    simp only at hl'; subst hl'
    simp only at h ⊢
    by_cases hk : k = n
    · simp only [hk, if_true]
      cases kind <;> simp
    · simp only [hk, if_false] at h ⊢
      cases hs : p.step s <;> simp [hs] at h ⊢

theorem execPrim_ok_step (f : Option Fault) (p : Prim) (n : Nat) (s : State)
    (h : (execPrim f p n s).out = .ok) : p.step s = .ok (execPrim f p n s).state := by
  rcases execPrim_cases f p n s with ⟨_, h'⟩ | h'
  · exact absurd h h'
  · exact h'

/-- a pure step in front of `b`: the run stops there unchanged, or is the run of `b` -/
theorem exec_pure_seq (f : Option Fault) (pr : Prim) (hp : pr.isPure = true) (b : Prog) (n : Nat) (s : State)
    (P : State → Out → Prop) (h1 : ∀ o, o ≠ .ok → P s o)
    (h2 : P (exec f b (n + 1) s).state (exec f b (n + 1) s).out) :
    P (exec f (.prim pr ;; b) n s).state (exec f (.prim pr ;; b) n s).out := by
  have hctr : (execPrim f pr n s).ctr = n + 1 := by
    unfold execPrim
    cases f with
    | none => cases pr.step s <;> rfl
    | some flt =>
      obtain ⟨k, kind, late⟩ := flt
      simp only
      split
      · cases kind <;> simp <;> (try split) <;> (try (cases pr.step s <;> rfl)) <;> rfl
      · cases pr.step s <;> rfl
  simp only [exec]
  cases ho : (execPrim f pr n s).out with
  | ok =>
    simp only
    have hs := step_pure hp (execPrim_ok_step f pr n s ho)
    rw [hs, hctr]; exact h2
  | raised x =>
    simp only
    rcases execPrim_cases f pr n s with ⟨hst, _⟩ | hst
    · rw [hst, ho]; exact h1 _ (by simp)
    · rw [step_pure hp hst, ho]; exact h1 _ (by simp)
  | crashed =>
    simp only
    rcases execPrim_cases f pr n s with ⟨hst, _⟩ | hst
    · rw [hst, ho]; exact h1 _ (by simp)
    · rw [step_pure hp hst, ho]; exact h1 _ (by simp)

theorem exec_skip_seq (f : Option Fault) (b : Prog) (n : Nat) (s : State) :
    (exec f (.skip ;; b) n s).state = (exec f b n s).state ∧ (exec f (.skip ;; b) n s).out = (exec f b n s).out := by
  simp [exec]

theorem exec_raise_seq (f : Option Fault) (x : Exc) (b : Prog) (n : Nat) (s : State) :
    (exec f (.raise x ;; b) n s).state = s ∧ (exec f (.raise x ;; b) n s).out = .raised x := by
  simp [exec]


/-- the two halves of C07 for one file with bytes `b`: nothing lost, and a normal return means
    the file is complete at the destination -/
def Good (τ : Side) (p q : Path) (b : Bytes) (st : State) (o : Out) : Prop :=
  (st.file .a p = some b ∨ st.file τ q = some b) ∧ (o = .ok → st.file τ q = some b)

/-- after a copy phase `A` that returned, the destination is complete — under any fault -/
theorem copy_phase_complete (f : Option Fault) (A : Prog) (s1 : State) (Q : State → Prop)
    (hApost : Post A s1 Q)
    (hAtr : ∀ flt, f = some flt → A.transparent flt.kind.exc = true)
    (n : Nat) (ho : (exec f A n s1).out = .ok) : Q (exec f A n s1).state := by
  cases f with
  | none => exact hApost n ho
  | some flt =>
    cases hh : (exec (some flt) A n s1).hit with
    | true => exact absurd ho (exec_hit_not_ok flt A n s1 (hAtr flt rfl) hh)
    | false =>
      have e := exec_nohit_eq flt A n s1 hh
      rw [e] at ho ⊢
      exact hApost n ho

/-- copy phase `A` (touches only the destination entry), then removal phase `R` -/
theorem ctr_good (f : Option Fault) (A R : Prog) (τ : Side) (p q : Path) (b : Bytes) (s1 : State)
    (hne : ¬ (τ = .a ∧ q = p))
    (hAonly : OnlyMut A τ q)
    (hApost : Post A s1 (fun s' => s'.file τ q = some b))
    (hAtr : ∀ flt, f = some flt → A.transparent flt.kind.exc = true)
    (hs : s1.file .a p = some b)
    (hR : ∀ n s2, s2.file .a p = some b → s2.file τ q = some b →
      Good τ p q b (exec f R n s2).state (exec f R n s2).out) (n : Nat) :
    Good τ p q b (exec f (A ;; R) n s1).state (exec f (A ;; R) n s1).out := by
  have hsrc : (exec f A n s1).state.file .a p = some b := by
    rw [hAonly.frame f .a p hne n s1]; exact hs
  simp only [exec]
  cases ho : (exec f A n s1).out with
  | ok =>
    simp only
    exact hR _ _ hsrc (copy_phase_complete f A s1 _ hApost hAtr n ho)
  | raised x => simp only; exact ⟨Or.inl hsrc, by simp [ho]⟩
  | crashed => simp only; exact ⟨Or.inl hsrc, by simp [ho]⟩

/-- `self.remove(src)` as the last statement -/
theorem remove_good (f : Option Fault) (τ : Side) (p q : Path) (b : Bytes)
    (hne : ¬ (τ = .a ∧ q = p)) (n : Nat) (s2 : State)
    (_hs : s2.file .a p = some b) (hd : s2.file τ q = some b) :
    Good τ p q b (exec f (.prim (.remove .a p false)) n s2).state (exec f (.prim (.remove .a p false)) n s2).out := by
  have hfr : (exec f (.prim (.remove .a p false)) n s2).state.file τ q = some b := by
    rw [exec_frame f τ q _ n s2]
    · exact hd
    · intro pr hpr
      simp only [Prog.prims, List.mem_singleton] at hpr; subst hpr
      simp only [Prim.mutates, Bool.and_eq_false_iff, decide_eq_false_iff_not]
      by_cases h1 : Side.a = τ
      · right; intro h2; exact hne ⟨h1.symm, h2.symm⟩
      · left; exact h1
  exact ⟨Or.inr hfr, fun _ => hfr⟩

/-- `try: src.remove(p) except FSError: [dst.remove(q)]; raise` with an atomic failure -/
theorem cleanup_good (f : Option Fault) (hl : ∀ flt, f = some flt → flt.late = false)
    (cl : Bool) (p q : Path) (b : Bytes) (n : Nat) (s2 : State)
    (hs : s2.file .a p = some b) (hd : s2.file .b q = some b) :
    Good .b p q b
      (exec f (.tryCatch (.remove .a p false) .fsError (if cl then .prim (.remove .b q false) else .skip) true) n s2).state
      (exec f (.tryCatch (.remove .a p false) .fsError (if cl then .prim (.remove .b q false) else .skip) true) n s2).out := by
  have hmut : (Prim.remove .a p false).mutates .b q = false := by simp [Prim.mutates]
  simp only [exec]
  cases ho : (execPrim f (.remove .a p false) n s2).out with
  | ok =>
    simp only
    have : (execPrim f (.remove .a p false) n s2).state.file .b q = some b := by
      rw [execPrim_frame f _ n s2 .b q hmut]; exact hd
    exact ⟨Or.inr this, fun _ => this⟩
  | crashed =>
    simp only
    have hst := execPrim_atomic f hl _ n s2 (by rw [ho]; simp)
    rw [hst, ho]
    exact ⟨Or.inl hs, by simp⟩
  | raised x =>
    simp only
    have hst := execPrim_atomic f hl (.remove .a p false) n s2 (by rw [ho]; simp)
    split
    · -- the handler runs from the unchanged state and only touches the destination
      have hsrc : ∀ m, (exec f (if cl then .prim (.remove .b q false) else .skip) m s2).state.file .a p = some b := by
        intro m
        rw [exec_frame f .a p _ m s2]
        · exact hs
        · intro pr hpr
          cases cl
          · simp [Prog.prims] at hpr
          · simp only [if_true, Prog.prims, List.mem_singleton] at hpr; subst hpr
            simp [Prim.mutates]
      rw [hst]
      split
      · simp only; exact ⟨Or.inl (hsrc _), by simp⟩
      · rename_i o2 hne2
        refine ⟨Or.inl (hsrc _), ?_⟩
        intro h
        simp only at h
        exact absurd h (by simpa using hne2)
    · rw [hst, ho]; exact ⟨Or.inl hs, by simp⟩


theorem fileLen_eq {s : State} {σ : Side} {p : Path} {b : Bytes} (h : s.file σ p = some b) :
    fileLen s σ p = b.length := by simp [fileLen, h]

theorem copyAtomic_effect {σ : Side} {p q : Path} {b : Bytes} {s s' : State}
    (h : (Prim.copyAtomic σ p q).step s = .ok s') (hs : s.file σ p = some b) : s'.file σ q = some b := by
  simp only [Prim.step, hs] at h
  split at h
  · simp at h
  · split at h
    · simp at h
    · split at h
      · simp at h
      · simp at h; subst h; simp [Store.setFile, fget_fset_self]

theorem rename_effect {p q : Path} {τ : Side} {b : Bytes} {s s' : State}
    (h : (Prim.rename .a p τ q).step s = .ok s') (hs : s.file .a p = some b) : s'.file τ q = some b := by
  simp only [Prim.step, hs] at h
  split at h
  · simp at h
  · simp at h; subst h; simp [Store.setFile, fget_fset_self]

theorem relinkFile_effect {p q : Path} {ow : Bool} {b : Bytes} {s s' : State}
    (h : (Prim.relinkFile .a p q ow).step s = .ok s') (hs : s.file .a p = some b) : s'.file .a q = some b := by
  simp only [Prim.step, hs] at h
  split at h
  · simp at h
  · split at h
    · simp at h
    · split at h
      · rename_i hpq; simp at h; subst h; rw [← hpq]; exact hs
      · split at h
        · simp at h
        · simp at h; subst h; simp [Store.setFile, fget_fset_self]

theorem copyFileInternal_post (cfg : Cfg) (s s1 : State) (p q : Path) (b : Bytes)
    (hg : s.file .a p = some b) (hs1 : s1.file .a p = some b) (hne : ¬ (cfg.dstSide = .a ∧ q = p)) :
    Post (copyFileInternal cfg s p q) s1 (fun s' => s'.file cfg.dstSide q = some b) := by
  have hc : 0 < cfg.chunkSize := by simp [Cfg.chunkSize]
  have hlen := fileLen_eq hg
  unfold copyFileInternal
  cases hsame : cfg.same with
  | true =>
    have hd : cfg.dstSide = .a := by simp [Cfg.dstSide, hsame]
    rw [hd] at hne ⊢
    have hqp : q ≠ p := fun h => hne ⟨rfl, h⟩
    simp only [if_true]
    split
    · exact Post.raise _
    · unfold fsCopy
      apply Post.seq; apply Post.prim; intro s2 h2
      have := step_call h2; subst this
      cases cfg.srcB with
      | os =>
        simp only
        apply Post.prim; intro s3 h3
        exact copyAtomic_effect h3 hs1
      | base =>
        simp only
        split
        · exact Post.raise _
        · apply Post.seq
          refine Post.mono (uploadCopy_post .a p .a q _ _ b hc hlen (fun h => hqp h.2) s2 hs1) ?_
          intro s3 h3
          exact preservePart_post _ _ _ _ _ _ _ h3.1
      | mem =>
        simp only
        split
        · exact Post.raise _
        · apply Post.seq
          refine Post.mono (uploadCopy_post .a p .a q _ _ b hc hlen (fun h => hqp h.2) s2 hs1) ?_
          intro s3 h3
          exact preservePart_post _ _ _ _ _ _ _ h3.1
  | false =>
    have hd : cfg.dstSide = .b := by simp [Cfg.dstSide, hsame]
    rw [hd]
    simp only [Bool.false_eq_true, if_false]
    apply Post.seq
    cases cfg.dstB with
    | os =>
      simp only
      refine Post.mono (downloadCopy_post .a p .b q _ _ b hc hlen (fun h => by cases h.1) s1 hs1) ?_
      intro s3 h3
      exact preservePart_post _ _ _ _ _ _ _ h3.1
    | base =>
      simp only
      refine Post.mono (uploadCopy_post .a p .b q _ _ b hc hlen (fun h => by cases h.1) s1 hs1) ?_
      intro s3 h3
      exact preservePart_post _ _ _ _ _ _ _ h3.1
    | mem =>
      simp only
      refine Post.mono (uploadCopy_post .a p .b q _ _ b hc hlen (fun h => by cases h.1) s1 hs1) ?_
      intro s3 h3
      exact preservePart_post _ _ _ _ _ _ _ h3.1

theorem good_stop {τ : Side} {p q : Path} {b : Bytes} {s : State} (hs : s.file .a p = some b)
    (o : Out) (ho : o ≠ .ok) : Good τ p q b s o := ⟨Or.inl hs, fun h => absurd h ho⟩

/-- the standard path of `move_file`: `copy_file`, then `remove(src)` with cleanup -/
theorem moveFile_std_good (f : Option Fault) (hl : ∀ flt, f = some flt → flt.late = false)
    (cfg : Cfg) (hsame : cfg.same = false) (s : State) (p q : Path) (b : Bytes)
    (hs : s.file .a p = some b) (n : Nat) :
    Good .b p q b
      (exec f ((.prim (.call "copy_file" .a p) ;; copyFileInternal cfg s p q) ;;
        .tryCatch (.remove .a p false) .fsError (if cfg.cleanup then .prim (.remove .b q false) else .skip) true) n s).state
      (exec f ((.prim (.call "copy_file" .a p) ;; copyFileInternal cfg s p q) ;;
        .tryCatch (.remove .a p false) .fsError (if cfg.cleanup then .prim (.remove .b q false) else .skip) true) n s).out := by
  have hd : cfg.dstSide = .b := by simp [Cfg.dstSide, hsame]
  apply ctr_good f _ _ .b p q b s (fun h => by cases h.1)
  · have := copyFileInternal_only cfg s p q
    rw [hd] at this
    exact OnlyMut.seq (OnlyMut.pure (fun _ _ => rfl)) this
  · apply Post.seq; apply Post.prim; intro s2 h2
    rw [step_call h2]
    have := copyFileInternal_post cfg s s p q b hs hs (by rw [hd]; intro h; cases h.1)
    rw [hd] at this; exact this
  · intro flt _
    simp [Prog.transparent, copyFileInternal_transparent]
  · exact hs
  · intro m s2 h1 h2
    exact cleanup_good f hl cfg.cleanup p q b m s2 h1 h2

/-- the copy path of `FS.move`: stream copy, `copy_modified_time`, `remove(src)` -/
theorem fsMove_copyPath_good (f : Option Fault) (cfg : Cfg) (s s1 : State) (τ : Side) (p q : Path) (b : Bytes)
    (hne : ¬ (τ = .a ∧ q = p)) (hg : s.file .a p = some b) (hs : s1.file .a p = some b) (n : Nat) :
    Good τ p q b (exec f (fsMoveCopyPart cfg s .a p τ q ;; .prim (.remove .a p false)) n s1).state
      (exec f (fsMoveCopyPart cfg s .a p τ q ;; .prim (.remove .a p false)) n s1).out := by
  have hc : 0 < cfg.chunkSize := by simp [Cfg.chunkSize]
  apply ctr_good f _ _ τ p q b s1 hne (fsMoveCopyPart_only cfg s .a p τ q)
  · unfold fsMoveCopyPart
    apply Post.seq
    refine Post.mono (uploadCopy_post .a p τ q _ _ b hc (fileLen_eq hg) hne s1 hs) ?_
    intro s3 h3
    exact preservePart_post _ _ _ _ _ _ _ h3.1
  · intro flt _; exact fsMoveCopyPart_transparent _ cfg s .a p τ q
  · exact hs
  · intro m s2 h1 h2
    exact remove_good f τ p q b hne m s2 h1 h2


/-- a program that cannot change any file entry, from a state where the job is done or not begun -/
theorem noMut_good (f : Option Fault) (prog : Prog) (hnm : NoMut prog) (τ : Side) (p q : Path) (b : Bytes)
    (n : Nat) (s : State) (h : s.file .a p = some b ∨ s.file τ q = some b)
    (hok : (exec f prog n s).out = .ok → s.file τ q = some b) :
    Good τ p q b (exec f prog n s).state (exec f prog n s).out := by
  have e1 : (exec f prog n s).state.file .a p = s.file .a p := exec_frame f .a p prog n s (fun pr hpr => hnm pr hpr _ _)
  have e2 : (exec f prog n s).state.file τ q = s.file τ q := exec_frame f τ q prog n s (fun pr hpr => hnm pr hpr _ _)
  exact ⟨by rw [e1, e2]; exact h, fun ho => by rw [e2]; exact hok ho⟩

theorem preservePart_noMut (pt : Bool) (σ : Side) (p : Path) (τ : Side) (q : Path) :
    NoMut (preservePart pt σ p τ q) := by
  intro pr hpr ρ x
  cases pt
  · simp [preservePart, Prog.prims] at hpr
  · simp [preservePart, copyModTime, Prog.prims] at hpr
    rcases hpr with rfl | rfl <;> rfl

/-- `FS.move`: pre-checks, rename attempt, copy path -/
theorem fsMove_good (f : Option Fault) (hl : ∀ flt, f = some flt → flt.late = false)
    (cfg : Cfg) (s : State) (rn : Bool) (τ : Side) (p q : Path) (b : Bytes)
    (hs : s.file .a p = some b) (n : Nat) :
    Good τ p q b (exec f (fsMove cfg s rn .a p τ q) n s).state (exec f (fsMove cfg s rn .a p τ q) n s).out := by
  unfold fsMove
  apply exec_pure_seq f _ rfl _ n s (Good τ p q b) (good_stop hs)
  -- the `overwrite` check
  have key : ∀ m, Good τ p q b
      (exec f (.prim (.getinfo .a p) ;;
        (if (s.get .a).isDir p then .raise (.fs .FileExpected)
         else if Side.a = τ ∧ p = q then .skip
         else
           let copyPath := fsMoveCopyPart cfg s .a p τ q ;; .prim (.remove .a p false)
           if rn then .tryElse (.rename .a p τ q) .osError copyPath (preservePart cfg.preserveAtomic .a p τ q)
           else copyPath)) m s).state
      (exec f (.prim (.getinfo .a p) ;;
        (if (s.get .a).isDir p then .raise (.fs .FileExpected)
         else if Side.a = τ ∧ p = q then .skip
         else
           let copyPath := fsMoveCopyPart cfg s .a p τ q ;; .prim (.remove .a p false)
           if rn then .tryElse (.rename .a p τ q) .osError copyPath (preservePart cfg.preserveAtomic .a p τ q)
           else copyPath)) m s).out := by
    intro m
    apply exec_pure_seq f _ rfl _ m s (Good τ p q b) (good_stop hs)
    split
    · exact good_stop hs _ (by simp [exec])
    · split
      · rename_i hpq
        obtain ⟨h1, h2⟩ := hpq
        subst h1; subst h2
        exact ⟨Or.inl hs, fun _ => hs⟩
      · rename_i hpq
        have hne : ¬ (τ = .a ∧ q = p) := fun h => hpq ⟨h.1.symm, h.2.symm⟩
        simp only
        cases rn with
        | false => exact fsMove_copyPath_good f cfg s s τ p q b hne hs hs _
        | true =>
          simp only [if_true, exec]
          cases ho : (execPrim f (.rename .a p τ q) (m + 1) s).out with
          | ok =>
            simp only
            have hst := execPrim_ok_step f _ _ s ho
            have hd := rename_effect hst hs
            have := noMut_good f (preservePart cfg.preserveAtomic .a p τ q) (preservePart_noMut _ _ _ _ _) τ p q b
              (execPrim f (.rename .a p τ q) (m + 1) s).ctr _ (Or.inr hd) (fun _ => hd)
            exact this
          | crashed =>
            simp only
            rw [execPrim_atomic f hl _ _ s (by rw [ho]; simp), ho]
            exact good_stop hs _ (by simp)
          | raised x =>
            simp only
            have hst := execPrim_atomic f hl (.rename .a p τ q) (m + 1) s (by rw [ho]; simp)
            split
            · simp only
              rw [hst]
              exact fsMove_copyPath_good f cfg s s τ p q b hne hs hs _
            · rw [hst, ho]; exact good_stop hs _ (by simp)
  unfold owCheck
  split
  · exact key _
  · apply exec_pure_seq f _ rfl _ _ s (Good τ p q b) (good_stop hs)
    split
    · exact good_stop hs _ (by simp [exec])
    · exact key _

/-- `MemoryFS.move` -/
theorem memMove_good (f : Option Fault) (hl : ∀ flt, f = some flt → flt.late = false)
    (cfg : Cfg) (s : State) (p q : Path) (b : Bytes) (hs : s.file .a p = some b) (n : Nat) :
    Good .a p q b (exec f (memMove cfg p q) n s).state (exec f (memMove cfg p q) n s).out := by
  unfold memMove
  apply exec_pure_seq f _ rfl _ n s (Good .a p q b) (good_stop hs)
  simp only [exec]
  cases ho : (execPrim f (.relinkFile .a p q cfg.overwrite) (n + 1) s).out with
  | ok =>
    simp only
    have hst := execPrim_ok_step f _ _ s ho
    have hd := relinkFile_effect hst hs
    exact noMut_good f (preservePart cfg.preserveAtomic .a p .a q) (preservePart_noMut _ _ _ _ _) .a p q b _ _
      (Or.inr hd) (fun _ => hd)
  | crashed =>
    simp only
    rw [execPrim_atomic f hl _ _ s (by rw [ho]; simp), ho]
    exact good_stop hs _ (by simp)
  | raised x =>
    simp only
    rw [execPrim_atomic f hl _ _ s (by rw [ho]; simp), ho]
    exact good_stop hs _ (by simp)

/-- `fs.move.move_file`, every configuration -/
theorem moveFile_good (f : Option Fault) (hl : ∀ flt, f = some flt → flt.late = false)
    (cfg : Cfg) (s : State) (p q : Path) (b : Bytes) (hs : s.file .a p = some b) (n : Nat) :
    Good cfg.dstSide p q b (exec f (moveFile cfg s p q) n s).state (exec f (moveFile cfg s p q) n s).out := by
  unfold moveFile
  cases hsame : cfg.same with
  | true =>
    have hd : cfg.dstSide = .a := by simp [Cfg.dstSide, hsame]
    rw [hd]
    simp only [if_true]
    cases cfg.srcB with
    | mem => exact memMove_good f hl _ s p q b hs n
    | os => exact fsMove_good f hl _ s true .a p q b hs n
    | base => exact fsMove_good f hl _ s false .a p q b hs n
  | false =>
    have hd : cfg.dstSide = .b := by simp [Cfg.dstSide, hsame]
    rw [hd]
    simp only [Bool.false_eq_true, if_false]
    split
    · exact fsMove_good f hl _ s true .b p q b hs n
    · exact moveFile_std_good f hl cfg hsame s p q b hs n


/-! ### footprints of the directory programs -/

/-- every file entry a step of `prog` can change satisfies `P` -/
def MutWithin (prog : Prog) (P : Side → Path → Prop) : Prop :=
  ∀ pr ∈ prog.prims, ∀ ρ y, pr.mutates ρ y = true → P ρ y

theorem MutWithin.frame {prog : Prog} {P : Side → Path → Prop} (h : MutWithin prog P) (f : Option Fault)
    (ρ : Side) (x : Path) (hn : ¬ P ρ x) (n : Nat) (s : State) :
    (exec f prog n s).state.file ρ x = s.file ρ x := by
  apply exec_frame
  intro pr hpr
  cases hm : pr.mutates ρ x with
  | false => rfl
  | true => exact absurd (h pr hpr ρ x hm) hn

theorem MutWithin.seq {a b : Prog} {P : Side → Path → Prop} (ha : MutWithin a P) (hb : MutWithin b P) :
    MutWithin (a ;; b) P := by
  intro pr hpr
  simp only [Prog.prims, List.mem_append] at hpr
  rcases hpr with h | h
  · exact ha pr h
  · exact hb pr h

theorem MutWithin.seqs {l : List Prog} {P : Side → Path → Prop} (h : ∀ p ∈ l, MutWithin p P) :
    MutWithin (Prog.seqs l) P := by
  induction l with
  | nil => intro pr hpr; simp [Prog.seqs, Prog.prims] at hpr
  | cons p ps ih =>
    exact MutWithin.seq (h p (by simp)) (ih (fun q hq => h q (by simp [hq])))

theorem MutWithin.prim {p : Prim} {P : Side → Path → Prop} (h : ∀ ρ y, p.mutates ρ y = true → P ρ y) :
    MutWithin (.prim p) P := by
  intro pr hpr
  simp only [Prog.prims, List.mem_singleton] at hpr
  subst hpr; exact h

theorem MutWithin.pure {p : Prim} {P : Side → Path → Prop} (h : ∀ ρ y, p.mutates ρ y = false) :
    MutWithin (.prim p) P :=
  MutWithin.prim (fun ρ y hm => by rw [h ρ y] at hm; cases hm)

theorem MutWithin.skip {P : Side → Path → Prop} : MutWithin .skip P := by
  intro pr hpr; simp [Prog.prims] at hpr

theorem MutWithin.raise {P : Side → Path → Prop} {x : Exc} : MutWithin (.raise x) P := by
  intro pr hpr; simp [Prog.prims] at hpr

theorem MutWithin.tryCatch {p : Prim} {c : Catch} {h : Prog} {rr : Bool} {P : Side → Path → Prop}
    (hp : ∀ ρ y, p.mutates ρ y = true → P ρ y) (hh : MutWithin h P) : MutWithin (.tryCatch p c h rr) P := by
  intro pr hpr
  simp only [Prog.prims, List.mem_cons] at hpr
  rcases hpr with rfl | h'
  · exact hp
  · exact hh pr h'

theorem OnlyMut.within {prog : Prog} {τ : Side} {q : Path} {P : Side → Path → Prop}
    (h : OnlyMut prog τ q) (hP : P τ q) : MutWithin prog P := by
  intro pr hpr ρ y hm
  obtain ⟨rfl, rfl⟩ := h pr hpr ρ y hm
  exact hP

theorem MutWithin.noMut {prog : Prog} (h : MutWithin prog (fun _ _ => False)) : NoMut prog := by
  intro pr hpr ρ x
  cases hm : pr.mutates ρ x with
  | false => rfl
  | true => exact (h pr hpr ρ x hm).elim

theorem NoMut.state_files {prog : Prog} (h : NoMut prog) (f : Option Fault) (n : Nat) (s : State)
    (ρ : Side) (x : Path) : (exec f prog n s).state.file ρ x = s.file ρ x :=
  exec_frame f ρ x prog n s (fun pr hpr => h pr hpr ρ x)

theorem mem_byDepth {ps : List Path} {p : Path} (h : p ∈ byDepth ps) : p ∈ ps := by
  unfold byDepth at h
  simp only [List.mem_flatMap, List.mem_filter] at h
  obtain ⟨_, _, hp, _⟩ := h
  exact hp

theorem mem_subDirs {st : Store} {root d : Path} (h : d ∈ subDirs st root) : isPre root d = true := by
  unfold subDirs at h
  simp only [List.mem_cons] at h
  rcases h with rfl | h
  · exact isPre_refl _
  · have := mem_byDepth h
    simp only [List.mem_filter, Bool.and_eq_true] at this
    exact this.2.1

theorem mem_filesIn {st : Store} {d x : Path} (h : x ∈ filesIn st d) : d <+: x := by
  unfold filesIn at h
  simp only [List.mem_map, List.mem_filter, Bool.and_eq_true, decide_eq_true_eq] at h
  obtain ⟨e, ⟨_, he, _⟩, rfl⟩ := h
  rw [← he]
  exact List.dropLast_prefix _

theorem mem_treeFiles {st : Store} {root x : Path} (h : x ∈ treeFiles st root) :
    isPre root x = true ∧ st.isFile x = true := by
  unfold treeFiles at h
  simp only [List.mem_filter, List.mem_map] at h
  obtain ⟨⟨e, he, rfl⟩, hp⟩ := h
  refine ⟨hp, ?_⟩
  unfold Store.isFile
  -- a key of the list is found by the lookup
  have : ∀ l : Files, e ∈ l → (fget l e.1).isSome = true := by
    intro l
    induction l with
    | nil => intro h; cases h
    | cons e' r ih =>
      intro h
      obtain ⟨q, b⟩ := e'
      by_cases hq : q = e.1
      · simp [fget, hq]
      · simp only [List.mem_cons] at h
        rcases h with rfl | h
        · exact absurd rfl hq
        · simp [fget, hq, ih h]
  exact this _ he

theorem copyStructure_noMut (cfg : Cfg) (s : State) (root droot : Path) : NoMut (copyStructure cfg s root droot) := by
  apply MutWithin.noMut
  unfold copyStructure
  split
  · exact MutWithin.raise
  · refine MutWithin.seq ?_ ?_
    · unfold makedirsExisting
      exact MutWithin.seq (MutWithin.pure (fun _ _ => rfl))
        (MutWithin.seq (MutWithin.tryCatch (fun _ _ h => by cases h) MutWithin.skip)
          (MutWithin.seq (MutWithin.tryCatch (fun _ _ h => by cases h) MutWithin.skip)
            (MutWithin.pure (fun _ _ => rfl))))
    · apply MutWithin.seqs
      intro p hp
      simp only [List.mem_map] at hp
      obtain ⟨d, _, rfl⟩ := hp
      refine MutWithin.seq (MutWithin.pure (fun _ _ => rfl)) ?_
      apply MutWithin.seqs
      intro p hp
      simp only [List.mem_map] at hp
      obtain ⟨y, _, rfl⟩ := hp
      exact MutWithin.pure (fun _ _ => rfl)

/-- the copy loop writes only to destination paths of source files -/
theorem copyList_within (cfg : Cfg) (s : State) (root droot : Path) (L : List Path) :
    MutWithin (Prog.seqs (L.map fun x => copyFileInternal cfg s x (rebase root droot x)))
      (fun ρ y => ρ = cfg.dstSide ∧ ∃ x ∈ L, y = rebase root droot x) := by
  apply MutWithin.seqs
  intro p hp
  simp only [List.mem_map] at hp
  obtain ⟨x, hx, rfl⟩ := hp
  exact (copyFileInternal_only cfg s x _).within ⟨rfl, x, hx, rfl⟩

theorem scandirs_noMut (l : List Path) : NoMut (Prog.seqs (l.map fun d => .prim (.scandir .a d))) := by
  apply MutWithin.noMut
  apply MutWithin.seqs
  intro p hp
  simp only [List.mem_map] at hp
  obtain ⟨d, _, rfl⟩ := hp
  exact MutWithin.pure (fun _ _ => rfl)

theorem moveDirCopyPhase_within (cfg : Cfg) (s : State) (root droot : Path) :
    MutWithin (moveDirCopyPhase cfg s root droot)
      (fun ρ y => ρ = cfg.dstSide ∧ ∃ x ∈ treeFiles s.a root, y = rebase root droot x) := by
  unfold moveDirCopyPhase
  refine MutWithin.seq (MutWithin.pure (fun _ _ => rfl)) ?_
  split
  · refine MutWithin.seq (MutWithin.pure (fun _ _ => rfl)) (MutWithin.seq ?_ ?_)
    · intro pr hpr ρ y hm
      rw [copyStructure_noMut cfg s root droot pr hpr ρ y] at hm; cases hm
    · unfold copyFiles
      refine MutWithin.seq ?_ (copyList_within cfg s root droot _)
      intro pr hpr ρ y hm
      rw [scandirs_noMut _ pr hpr ρ y] at hm; cases hm
  · exact MutWithin.raise

/-- `removetree(root)` touches only entries at or below `root` of the source filesystem -/
theorem removeTree_within (cfg : Cfg) (s : State) (root : Path) :
    MutWithin (removeTree cfg s root) (fun ρ y => ρ = .a ∧ isPre root y = true) := by
  have hrm : ∀ (d : Path) (os : Bool), d ∈ subDirs s.a root →
      MutWithin (Prog.seqs ((filesIn s.a d).map fun x => .prim (.remove .a x os)))
        (fun ρ y => ρ = .a ∧ isPre root y = true) := by
    intro d os hd
    apply MutWithin.seqs
    intro p hp
    simp only [List.mem_map] at hp
    obtain ⟨x, hx, rfl⟩ := hp
    apply MutWithin.prim
    intro ρ y hm
    simp only [Prim.mutates, Bool.and_eq_true, decide_eq_true_eq] at hm
    obtain ⟨rfl, rfl⟩ := hm
    refine ⟨rfl, ?_⟩
    rw [isPre_iff]
    exact List.IsPrefix.trans ((isPre_iff _ _).1 (mem_subDirs hd)) (mem_filesIn hx)
  have hloop : ∀ os : Bool,
      MutWithin (Prog.seqs ((subDirs s.a root).reverse.map fun d =>
        (if os then .skip else .prim (.scandir .a d)) ;;
        Prog.seqs ((filesIn s.a d).map fun x => .prim (.remove .a x os)) ;;
        (if d = root then .skip else .prim (.removedir .a d os))))
        (fun ρ y => ρ = .a ∧ isPre root y = true) := by
    intro os
    apply MutWithin.seqs
    intro p hp
    simp only [List.mem_map, List.mem_reverse] at hp
    obtain ⟨d, hd, rfl⟩ := hp
    refine MutWithin.seq ?_ (MutWithin.seq (hrm d os hd) ?_)
    · split
      · exact MutWithin.skip
      · exact MutWithin.pure (fun _ _ => rfl)
    · split
      · exact MutWithin.skip
      · exact MutWithin.pure (fun _ _ => rfl)
  unfold removeTree
  refine MutWithin.seq (MutWithin.pure (fun _ _ => rfl)) ?_
  cases cfg.srcB with
  | mem =>
    apply MutWithin.prim
    intro ρ y hm
    simp only [Prim.mutates, Bool.and_eq_true, decide_eq_true_eq] at hm
    exact ⟨hm.1.symm, hm.2⟩
  | base =>
    refine MutWithin.seq (hloop _) ?_
    split
    · exact MutWithin.skip
    · exact MutWithin.pure (fun _ _ => rfl)
  | os =>
    refine MutWithin.seq (hloop _) ?_
    split
    · exact MutWithin.skip
    · exact MutWithin.pure (fun _ _ => rfl)


theorem isFile_some {st : Store} {x : Path} (h : st.isFile x = true) : ∃ b, fget st.files x = some b := by
  unfold Store.isFile at h
  cases hf : fget st.files x with
  | none => simp [hf] at h
  | some b => exact ⟨b, rfl⟩

/-- the destination of a source file is not a source path again (other filesystem, or no clash) -/
theorem dst_ne_src (cfg : Cfg) (s : State) (root droot : Path)
    (hclash : cfg.same = true → NoClash s root droot) (x y : Path)
    (hx : isPre root x = true) (hxf : (s.a).isFile x = true) (hy : isPre root y = true) :
    ¬ (cfg.dstSide = .a ∧ rebase root droot x = y) := by
  intro ⟨h1, h2⟩
  cases hsame : cfg.same with
  | false => simp [Cfg.dstSide, hsame] at h1
  | true =>
    have := hclash hsame x hx hxf
    rw [h2, hy] at this
    cases this

/-- the file loop of `copy_dir`: if it returns, every listed file is complete at its destination -/
theorem copyList_post (cfg : Cfg) (s : State) (root droot : Path)
    (hclash : cfg.same = true → NoClash s root droot) :
    ∀ (L : List Path), (∀ x ∈ L, isPre root x = true ∧ (s.a).isFile x = true) →
    ∀ s1 : State, (∀ y, isPre root y = true → s1.file .a y = s.file .a y) →
      Post (Prog.seqs (L.map fun x => copyFileInternal cfg s x (rebase root droot x))) s1
        (fun s' => ∀ x ∈ L, ∀ b, s.file .a x = some b → s'.file cfg.dstSide (rebase root droot x) = some b) := by
  intro L
  induction L with
  | nil => intro _ s1 _; exact Post.skip (fun x hx => by cases hx)
  | cons x L ih =>
    intro hL s1 hinv
    obtain ⟨hxp, hxf⟩ := hL x (by simp)
    obtain ⟨bx, hbx⟩ := isFile_some hxf
    have hbx' : s.file .a x = some bx := hbx
    have hne := dst_ne_src cfg s root droot hclash x x hxp hxf hxp
    simp only [List.map, Prog.seqs]
    apply Post.seq
    -- the copy of `x` itself
    have hpost := copyFileInternal_post cfg s s1 x (rebase root droot x) bx hbx' (by rw [hinv x hxp]; exact hbx') hne
    have hframe : Post (copyFileInternal cfg s x (rebase root droot x)) s1
        (fun s2 => ∀ y, isPre root y = true → s2.file .a y = s.file .a y) := by
      apply Post.of_all
      intro n y hy
      rw [(copyFileInternal_only cfg s x _).frame none .a y (dst_ne_src cfg s root droot hclash x y hxp hxf hy) n s1]
      exact hinv y hy
    refine Post.mono (Post.and hpost hframe) ?_
    intro s2 ⟨hd2, hinv2⟩
    -- the rest of the list
    have hrest := ih (fun x' hx' => hL x' (by simp [hx'])) s2 hinv2
    have hkeep : Post (Prog.seqs (L.map fun x => copyFileInternal cfg s x (rebase root droot x))) s2
        (fun s' => x ∉ L → s'.file cfg.dstSide (rebase root droot x) = some bx) := by
      apply Post.of_all
      intro n hxL
      rw [(copyList_within cfg s root droot L).frame none cfg.dstSide (rebase root droot x) ?_ n s2]
      · exact hd2
      · intro ⟨_, x', hx', he⟩
        have hx'p := (hL x' (by simp [hx'])).1
        have := rebase_inj root droot x x' hxp hx'p he
        subst this
        exact hxL hx'
    refine Post.mono (Post.and hrest hkeep) ?_
    intro s3 ⟨h3, h3k⟩ x' hx' b hb
    by_cases hin : x' ∈ L
    · exact h3 x' hin b hb
    · rcases List.mem_cons.1 hx' with rfl | hx'
      · rw [hbx'] at hb; cases hb
        exact h3k hin
      · exact absurd hx' hin

theorem fget_some_mem : ∀ (l : Files) (x : Path) (b : Bytes), fget l x = some b → ∃ e ∈ l, e.1 = x := by
  intro l x b
  induction l with
  | nil => intro h; simp [fget] at h
  | cons e r ih =>
    intro h
    obtain ⟨q, b'⟩ := e
    by_cases hq : q = x
    · exact ⟨(q, b'), by simp, hq⟩
    · simp only [fget, hq, if_false] at h
      obtain ⟨e', he', hx⟩ := ih h
      exact ⟨e', by simp [he'], hx⟩

/-- every file of the subtree is in the walk list -/
theorem mem_treeFiles_of {st : Store} {root x : Path} {b : Bytes} (hp : isPre root x = true)
    (h : fget st.files x = some b) : x ∈ treeFiles st root := by
  unfold treeFiles
  simp only [List.mem_filter, List.mem_map]
  exact ⟨fget_some_mem _ _ _ h, hp⟩

/-- the whole copy phase of `move_dir`: if it returns, the tree is complete at the destination -/
theorem moveDirCopyPhase_post (cfg : Cfg) (s : State) (root droot : Path)
    (hclash : cfg.same = true → NoClash s root droot) :
    Post (moveDirCopyPhase cfg s root droot) s (fun s' => Moved cfg.dstSide root droot s s') := by
  unfold moveDirCopyPhase
  apply Post.seq; apply Post.prim; intro s1 h1
  rw [step_getinfo h1]
  split
  · apply Post.seq
    refine Post.mono (Post.of_all (Q := fun s2 => ∀ ρ y, s2.file ρ y = s.file ρ y) ?_) ?_
    · intro n ρ y
      exact exec_frame none ρ y _ n s (fun pr hpr => by
        simp only [Prog.prims, List.mem_singleton] at hpr; subst hpr; rfl)
    intro s2 h2
    apply Post.seq
    refine Post.mono (Post.of_all (Q := fun s3 => ∀ ρ y, s3.file ρ y = s2.file ρ y) ?_) ?_
    · intro n ρ y
      exact (copyStructure_noMut cfg s root droot).state_files none n s2 ρ y
    intro s3 h3
    unfold copyFiles
    apply Post.seq
    refine Post.mono (Post.of_all (Q := fun s4 => ∀ ρ y, s4.file ρ y = s3.file ρ y) ?_) ?_
    · intro n ρ y
      exact (scandirs_noMut _).state_files none n s3 ρ y
    intro s4 h4
    have hinv : ∀ y, isPre root y = true → s4.file .a y = s.file .a y := by
      intro y _; rw [h4, h3, h2]
    refine Post.mono (copyList_post cfg s root droot hclash (treeFiles s.a root)
      (fun x hx => mem_treeFiles hx) s4 hinv) ?_
    intro s5 h5 x b hx hb
    exact h5 x (mem_treeFiles_of hx hb) b hb
  · exact Post.raise _


/-- the two halves of C07 for a tree: nothing lost, and a normal return means everything moved -/
def GoodDir (τ : Side) (root droot : Path) (s0 st : State) (o : Out) : Prop :=
  NoLoss τ root droot s0 st ∧ (o = .ok → Moved τ root droot s0 st)

theorem goodDir_stop {τ : Side} {root droot : Path} {s0 st : State} (h : SrcIntact root s0 st)
    (o : Out) (ho : o ≠ .ok) : GoodDir τ root droot s0 st o :=
  ⟨fun x b hx hb => Or.inl (h x b hx hb), fun h' => absurd h' ho⟩

theorem srcIntact_refl (root : Path) (s : State) : SrcIntact root s s := fun _ _ _ h => h

theorem file_isFile {s : State} {x : Path} {b : Bytes} (h : s.file .a x = some b) : (s.a).isFile x = true := by
  have : fget s.a.files x = some b := h
  simp [Store.isFile, this]

/-- moving a directory of a filesystem into itself: `copy_structure` raises `IllegalDestination`
    before any file is copied, and `removetree` is never reached -/
theorem moveDir_into_itself (f : Option Fault) (cfg : Cfg) (s : State) (root droot : Path)
    (hs : cfg.same = true) (hin : isPre root droot = true) (n : Nat) :
    (∀ ρ y, (exec f (moveDir cfg s root droot) n s).state.file ρ y = s.file ρ y) ∧
    (exec f (moveDir cfg s root droot) n s).out ≠ .ok := by
  have hA : (∀ ρ y, (exec f (moveDirCopyPhase cfg s root droot) n s).state.file ρ y = s.file ρ y) ∧
      (exec f (moveDirCopyPhase cfg s root droot) n s).out ≠ .ok := by
    unfold moveDirCopyPhase
    apply exec_pure_seq f _ rfl _ n s (fun st o => (∀ ρ y, st.file ρ y = s.file ρ y) ∧ o ≠ .ok)
      (fun o ho => ⟨fun _ _ => rfl, ho⟩)
    split
    · have hcs : copyStructure cfg s root droot = .raise (.fs .IllegalDestination) := by
        unfold copyStructure; simp [hs, hin]
      rw [hcs]
      have hmk : ∀ ρ y, (exec f (.prim (.makedir cfg.dstSide droot true)) (n + 1) s).state.file ρ y = s.file ρ y := by
        intro ρ y
        exact exec_frame f ρ y _ _ s (fun pr hpr => by
          simp only [Prog.prims, List.mem_singleton] at hpr; subst hpr; rfl)
      simp only [exec] at hmk ⊢
      split
      · exact ⟨hmk, by simp⟩
      · rename_i hne; exact ⟨hmk, by simpa using hne⟩
    · exact ⟨fun _ _ => rfl, by simp [exec]⟩
  unfold moveDir
  simp only [exec]
  split
  · rename_i ho; exact absurd ho hA.2
  · exact hA

/-- `fs.move.move_dir` (sequential copier): copy phase, then `removetree(src)` -/
theorem moveDir_good (f : Option Fault) (cfg : Cfg) (s : State) (root droot : Path)
    (hclash' : cfg.same = true → isPre root droot = false → NoClash s root droot) (n : Nat) :
    GoodDir cfg.dstSide root droot s (exec f (moveDir cfg s root droot) n s).state
      (exec f (moveDir cfg s root droot) n s).out := by
  by_cases hin : cfg.same = true ∧ isPre root droot = true
  · have h := moveDir_into_itself f cfg s root droot hin.1 hin.2 n
    exact goodDir_stop (fun x b _ hb => by rw [h.1]; exact hb) _ h.2
  have hclash : cfg.same = true → NoClash s root droot := by
    intro hs
    apply hclash' hs
    cases hp : isPre root droot with
    | false => rfl
    | true => exact absurd ⟨hs, hp⟩ hin
  unfold moveDir
  have hsrcA : SrcIntact root s (exec f (moveDirCopyPhase cfg s root droot) n s).state := by
    intro x b hx hb
    rw [(moveDirCopyPhase_within cfg s root droot).frame f .a x ?_ n s]
    · exact hb
    · intro ⟨h1, x', hx', he⟩
      obtain ⟨hp', hf'⟩ := mem_treeFiles hx'
      exact dst_ne_src cfg s root droot hclash x' x hp' hf' hx ⟨h1.symm, he.symm⟩
  simp only [exec]
  cases ho : (exec f (moveDirCopyPhase cfg s root droot) n s).out with
  | ok =>
    simp only
    have hmoved := copy_phase_complete f _ s _ (moveDirCopyPhase_post cfg s root droot hclash)
      (fun flt _ => moveDirCopyPhase_transparent flt.kind cfg s root droot) n ho
    have hkeep : Moved cfg.dstSide root droot s
        (exec f (removeTree cfg s root) (exec f (moveDirCopyPhase cfg s root droot) n s).ctr
          (exec f (moveDirCopyPhase cfg s root droot) n s).state).state := by
      intro x b hx hb
      rw [(removeTree_within cfg s root).frame f cfg.dstSide (rebase root droot x) ?_ _ _]
      · exact hmoved x b hx hb
      · intro ⟨h1, h2⟩
        exact dst_ne_src cfg s root droot hclash x (rebase root droot x) hx (file_isFile hb) h2 ⟨h1, rfl⟩
    exact ⟨fun x b hx hb => Or.inr (hkeep x b hx hb), fun _ => hkeep⟩
  | raised x => simp only; exact goodDir_stop hsrcA _ (by rw [ho]; simp)
  | crashed => simp only; exact goodDir_stop hsrcA _ (by rw [ho]; simp)

theorem rebase_same (p x : Path) (h : isPre p x = true) : rebase p p x = x := by
  rw [isPre_iff] at h
  obtain ⟨t, rfl⟩ := h
  simp [rebase]

theorem goodDir_of_files {τ : Side} {root droot : Path} {s0 st st' : State} {o : Out}
    (h : GoodDir τ root droot s0 st o) (he : ∀ ρ y, st'.file ρ y = st.file ρ y) :
    GoodDir τ root droot s0 st' o := by
  refine ⟨fun x b hx hb => ?_, fun ho x b hx hb => ?_⟩
  · rw [he, he]; exact h.1 x b hx hb
  · rw [he]; exact h.2 ho x b hx hb

/-- `FS.movedir` -/
theorem fsMovedir_good (f : Option Fault) (cfg : Cfg) (s : State) (p q : Path)
    (hclash : isPre p q = false → NoClash s p q) (n : Nat) :
    GoodDir .a p q s (exec f (fsMovedir cfg s p q) n s).state (exec f (fsMovedir cfg s p q) n s).out := by
  unfold fsMovedir
  apply exec_pure_seq f _ rfl _ n s (GoodDir .a p q s) (goodDir_stop (srcIntact_refl p s))
  have hmd : ∀ m, GoodDir .a p q s (exec f (moveDir { cfg with same := true } s p q) m s).state
      (exec f (moveDir { cfg with same := true } s p q) m s).out := by
    intro m
    have := moveDir_good f { cfg with same := true } s p q (fun _ => hclash) m
    simpa [Cfg.dstSide] using this
  split
  · rename_i hpq; subst hpq
    refine ⟨fun x b hx hb => Or.inl hb, fun _ x b hx hb => ?_⟩
    rw [rebase_same p x hx]; exact hb
  · split
    · exact goodDir_stop (srcIntact_refl p s) _ (by simp [exec])
    · unfold createCheck
      split
      · exact hmd _
      · apply exec_pure_seq f _ rfl _ _ s (GoodDir .a p q s) (goodDir_stop (srcIntact_refl p s))
        split
        · exact hmd _
        · exact goodDir_stop (srcIntact_refl p s) _ (by simp [exec])

theorem fget_map_rebase (p q x : Path) (hx : isPre p x = true) :
    ∀ l : Files, (∀ e ∈ l, isPre p e.1 = true) →
      fget (l.map (fun e => (rebase p q e.1, e.2))) (rebase p q x) = fget l x := by
  intro l
  induction l with
  | nil => intro _; rfl
  | cons e r ih =>
    intro h
    obtain ⟨k, b⟩ := e
    have hk : isPre p k = true := h (k, b) (by simp)
    by_cases hkx : k = x
    · simp [fget, hkx]
    · have : rebase p q k ≠ rebase p q x := fun he => hkx (rebase_inj p q k x hk hx he)
      simp only [List.map, fget, this, hkx, if_false]
      exact ih (fun e he => h e (by simp [he]))

theorem relinkDir_effect {p q : Path} {cr : Bool} {s s' : State}
    (h : (Prim.relinkDir .a p q cr).step s = .ok s') :
    ∀ x b, isPre p x = true → s.file .a x = some b → s'.file .a (rebase p q x) = some b := by
  intro x b hx hb
  simp only [Prim.step] at h
  split at h
  · simp at h
  · split at h
    · simp at h
    · split at h
      · simp at h
      · simp at h; subst h
        simp only [State.file_put_same, Store.moveTree]
        rw [fget_append]
        have h1 := fget_map_rebase p q x hx ((s.get .a).files.filter (fun e => isPre p e.1))
          (fun e he => by simp only [List.mem_filter] at he; exact he.2)
        rw [h1, fget_filter_key (fun k => isPre p k) _ x hx]
        have : fget (s.get .a).files x = some b := hb
        simp [this]

/-- `MemoryFS.movedir` -/
theorem memMovedir_good (f : Option Fault) (hl : ∀ flt, f = some flt → flt.late = false)
    (cfg : Cfg) (s : State) (p q : Path) (hclash : isPre p q = false → NoClash s p q) (n : Nat) :
    GoodDir .a p q s (exec f (memMovedir cfg s p q) n s).state (exec f (memMovedir cfg s p q) n s).out := by
  unfold memMovedir
  apply exec_pure_seq f _ rfl _ n s (GoodDir .a p q s) (goodDir_stop (srcIntact_refl p s))
  split
  · rename_i hpq; subst hpq
    refine ⟨fun x b hx hb => Or.inl hb, fun _ x b hx hb => ?_⟩
    rw [rebase_same p x hx]; exact hb
  · split
    · exact goodDir_stop (srcIntact_refl p s) _ (by simp [exec])
    · split
      · exact fsMovedir_good f _ s p q hclash _
      · simp only [exec]
        cases ho : (execPrim f (.relinkDir .a p q cfg.create) (n + 1) s).out with
        | ok =>
          simp only
          have hst := execPrim_ok_step f _ _ s ho
          have hd := relinkDir_effect hst
          have hnm := preservePart_noMut cfg.preserveAtomic .a p .a q
          have hfiles := fun ρ y => hnm.state_files f (execPrim f (.relinkDir .a p q cfg.create) (n + 1) s).ctr
            (execPrim f (.relinkDir .a p q cfg.create) (n + 1) s).state ρ y
          refine ⟨fun x b hx hb => Or.inr ?_, fun _ x b hx hb => ?_⟩
          · rw [hfiles]; exact hd x b hx hb
          · rw [hfiles]; exact hd x b hx hb
        | crashed =>
          simp only
          rw [execPrim_atomic f hl _ _ s (by rw [ho]; simp), ho]
          exact goodDir_stop (srcIntact_refl p s) _ (by simp)
        | raised x =>
          simp only
          rw [execPrim_atomic f hl _ _ s (by rw [ho]; simp), ho]
          exact goodDir_stop (srcIntact_refl p s) _ (by simp)


theorem execPrim_no_crash (f : Option Fault) (hk : ∀ flt, f = some flt → flt.kind ≠ .crash)
    (p : Prim) (n : Nat) (s : State) : (execPrim f p n s).out ≠ .crashed := by
  unfold execPrim
  cases f with
  | none => cases p.step s <;> simp
  | some flt =>
    have := hk flt rfl
    obtain ⟨k, kind, late⟩ := flt
    simp only at this ⊢
    split
    · cases kind
      · cases late <;> simp <;> (cases p.step s <;> simp)
      · cases late <;> simp <;> (cases p.step s <;> simp)
      · exact absurd rfl this
    · cases p.step s <;> simp

/-- without a crash fault nothing crashes -/
theorem exec_no_crash (f : Option Fault) (hk : ∀ flt, f = some flt → flt.kind ≠ .crash) (prog : Prog) :
    ∀ (n : Nat) (s : State), (exec f prog n s).out ≠ .crashed := by
  induction prog with
  | skip => intro n s; simp [exec]
  | prim p => intro n s; exact execPrim_no_crash f hk p n s
  | raise e => intro n s; simp [exec]
  | seq a b iha ihb =>
    intro n s
    simp only [exec]
    split
    · exact ihb _ _
    · exact iha n s
  | tryCatch p c hd rr ih =>
    intro n s
    simp only [exec]
    split
    · split
      · split
        · simp only; cases rr <;> simp
        · rename_i h; simp only; exact ih _ _
      · exact execPrim_no_crash f hk p n s
    · exact execPrim_no_crash f hk p n s
  | tryElse p c hd e ihh ihe =>
    intro n s
    simp only [exec]
    split
    · exact ihe _ _
    · split
      · exact ihh _ _
      · exact execPrim_no_crash f hk p n s
    · exact execPrim_no_crash f hk p n s
  | tryFinally b fin ihb ihf =>
    intro n s
    simp only [exec]
    split
    · exact ihb n s
    · rename_i o hne
      split
      · simp only
        intro h
        exact ihb n s h
      · simp only; exact ihf _ _

theorem out_isErr_of {o : Out} (h1 : o ≠ .ok) (h2 : o ≠ .crashed) : o.isErr = true := by
  cases o <;> simp [Out.isErr] at *

/-- a program of pure steps never changes the state -/
theorem exec_allpure_state (f : Option Fault) (prog : Prog) :
    ∀ (n : Nat) (s : State), (∀ pr ∈ prog.prims, pr.isPure = true) → (exec f prog n s).state = s := by
  have hp : ∀ (p : Prim) (n : Nat) (s : State), p.isPure = true → (execPrim f p n s).state = s := by
    intro p n s h
    rcases execPrim_cases f p n s with ⟨h', _⟩ | h'
    · exact h'
    · exact step_pure h h'
  induction prog with
  | skip => intro n s _; rfl
  | prim p => intro n s h; exact hp p n s (h p (by simp [Prog.prims]))
  | raise e => intro n s _; rfl
  | seq a b iha ihb =>
    intro n s h
    have ha := iha n s (fun pr hpr => h pr (by simp [Prog.prims, hpr]))
    simp only [exec]
    split
    · simp only; rw [ihb _ _ (fun pr hpr => h pr (by simp [Prog.prims, hpr])), ha]
    · exact ha
  | tryCatch p c hd rr ih =>
    intro n s h
    have h1 := hp p n s (h p (by simp [Prog.prims]))
    have h2 := ih (execPrim f p n s).ctr (execPrim f p n s).state (fun pr hpr => h pr (by simp [Prog.prims, hpr]))
    simp only [exec]
    split
    · split
      · split <;> (simp only; rw [h2, h1])
      · exact h1
    · exact h1
  | tryElse p c hd e ihh ihe =>
    intro n s h
    have h1 := hp p n s (h p (by simp [Prog.prims]))
    have h2 := ihh (execPrim f p n s).ctr (execPrim f p n s).state (fun pr hpr => h pr (by simp [Prog.prims, hpr]))
    have h3 := ihe (execPrim f p n s).ctr (execPrim f p n s).state (fun pr hpr => h pr (by simp [Prog.prims, hpr]))
    simp only [exec]
    split
    · simp only; rw [h3, h1]
    · split
      · simp only; rw [h2, h1]
      · exact h1
    · exact h1
  | tryFinally b fin ihb ihf =>
    intro n s h
    have h1 := ihb n s (fun pr hpr => h pr (by simp [Prog.prims, hpr]))
    have h2 := ihf (exec f b n s).ctr (exec f b n s).state (fun pr hpr => h pr (by simp [Prog.prims, hpr]))
    simp only [exec]
    split
    · exact h1
    · split <;> (simp only; rw [h2, h1])

theorem memMove_transparent (x : Exc) (cfg : Cfg) (p q : Path) : (memMove cfg p q).transparent x = true := by
  simp [memMove, Prog.transparent, preservePart_transparent]

theorem fsMove_norename_transparent (x : Exc) (cfg : Cfg) (s : State) (σ : Side) (p : Path) (τ : Side) (q : Path) :
    (fsMove cfg s false σ p τ q).transparent x = true := by
  unfold fsMove owCheck
  simp only [Prog.transparent, Bool.true_and]
  have key : Prog.transparent x
      (.prim (.getinfo σ p) ;;
        (if (s.get σ).isDir p then .raise (.fs .FileExpected)
         else if σ = τ ∧ p = q then .skip
         else
           let copyPath := fsMoveCopyPart cfg s σ p τ q ;; .prim (.remove σ p false)
           if false = true then .tryElse (.rename σ p τ q) .osError copyPath (preservePart cfg.preserveAtomic σ p τ q)
           else copyPath)) = true := by
    simp only [Prog.transparent, Bool.true_and]
    split
    · rfl
    · split
      · rfl
      · simp [Prog.transparent, fsMoveCopyPart_transparent]
  split
  · exact key
  · simp only [Prog.transparent, Bool.true_and]
    split
    · rfl
    · exact key

theorem moveFile_transparent (k : Kind) (cfg : Cfg) (s : State) (p q : Path) (h : cfg.usesRename = false) :
    (moveFile cfg s p q).transparent k.exc = true := by
  unfold moveFile
  unfold Cfg.usesRename at h
  cases hsame : cfg.same with
  | true =>
    simp only [if_true]
    cases hb : cfg.srcB with
    | mem => exact memMove_transparent _ _ p q
    | os => simp [hsame, hb] at h
    | base => exact fsMove_norename_transparent _ _ s .a p .a q
  | false =>
    simp only [Bool.false_eq_true, if_false]
    split
    · rename_i hos
      simp [hsame, hos.1, hos.2] at h
    · cases k <;>
        simp [Prog.transparent, copyFileInternal_transparent, Kind.exc, Catch.matches] <;>
        (split <;> rfl)

end Fs.Fault
