import FsModel.File

namespace Fs.FileLemmas
open Fs Fs.File

set_option linter.unusedSimpArgs false

/-! ### byte-list helpers -/

theorem zeros_length (n : Nat) : (zeros n).length = n := by simp [zeros]

theorem zeros_zero : zeros 0 = [] := rfl

theorem zeros_isEmpty (n : Nat) : (zeros n).isEmpty = decide (n = 0) := by
  cases n <;> simp [zeros, List.replicate]

theorem writeAt_nil (b : Bytes) (p : Nat) : writeAt b p [] = b := by simp [writeAt]

/-- writing at the end of the data appends -/
theorem writeAt_end (b d : Bytes) : writeAt b b.length d = b ++ d := by
  unfold writeAt
  split
  · next h => simp at h; simp [h]
  · simp [zeros]

theorem writeAt_length_end (b d : Bytes) : (writeAt b b.length d).length = b.length + d.length := by
  rw [writeAt_end]; simp

theorem resize_le (b : Bytes) (z : Nat) (h : z ≤ b.length) : resize b z = b.take z := by
  unfold resize
  have : z - b.length = 0 := by omega
  simp [this, zeros]

theorem resize_ge (b : Bytes) (z : Nat) (h : b.length ≤ z) : resize b z = b ++ zeros (z - b.length) := by
  unfold resize
  apply List.take_of_length_le
  simp [zeros_length]; omega

theorem resize_length (b : Bytes) (z : Nat) : (resize b z).length = z := by
  unfold resize
  simp [zeros_length]; omega

/-- the closed form used in the statement of `truncate_keeps_pos_zero_extends` -/
theorem resize_eq (b : Bytes) (z : Nat) : resize b z = b.take z ++ zeros (z - b.length) := by
  by_cases h : z ≤ b.length
  · rw [resize_le b z h]
    have : z - b.length = 0 := by omega
    simp [this, zeros]
  · have h' : b.length ≤ z := by omega
    rw [resize_ge b z h', List.take_of_length_le h']

/-! ### `lineOf` / `linesOf` -/

theorem lineOf_prefix (l : Bytes) : lineOf l ++ l.drop (lineOf l).length = l := by
  induction l with
  | nil => simp [lineOf]
  | cons c cs ih =>
    unfold lineOf
    split
    · simp
    · simp [ih]

theorem lineOf_length_le (l : Bytes) : (lineOf l).length ≤ l.length := by
  induction l with
  | nil => simp [lineOf]
  | cons c cs ih =>
    unfold lineOf
    split
    · simp
    · simp; omega

theorem lineOf_ne_nil (l : Bytes) (h : l ≠ []) : lineOf l ≠ [] := by
  cases l with
  | nil => contradiction
  | cons c cs => unfold lineOf; split <;> simp

theorem linesAux_flatten (l acc : Bytes) : (linesAux l acc).flatten = acc.reverse ++ l := by
  induction l generalizing acc with
  | nil =>
    unfold linesAux
    split
    · next h => simp at h; simp [h]
    · simp
  | cons c cs ih =>
    unfold linesAux
    split
    · simp [ih]
    · rw [ih]; simp

/-- the lines of a byte string concatenate back to it -/
theorem linesOf_flatten (l : Bytes) : (linesOf l).flatten = l := by
  simp [linesOf, linesAux_flatten]

theorem linesAux_unfold (l acc : Bytes) :
    linesAux l acc =
      if (acc.reverse ++ l).isEmpty then []
      else (acc.reverse ++ lineOf l) :: linesAux (l.drop (lineOf l).length) [] := by
  induction l generalizing acc with
  | nil =>
    cases acc with
    | nil => simp [linesAux]
    | cons a as => simp [linesAux, lineOf]
  | cons c cs ih =>
    by_cases hc : c = 10
    · subst hc
      simp [linesAux, lineOf]
    · rw [linesAux]
      simp only [hc, if_false]
      rw [ih]
      simp [lineOf, hc]

/-- reading line by line: the lines of `l` are its first line followed by the lines of the rest -/
theorem linesOf_unfold (l : Bytes) (h : l ≠ []) :
    linesOf l = lineOf l :: linesOf (l.drop (lineOf l).length) := by
  unfold linesOf
  rw [linesAux_unfold]
  have : l.isEmpty = false := by cases l <;> simp_all
  simp [this]

theorem linesOf_nil : linesOf [] = [] := by simp [linesOf, linesAux]

/-! ### the simulation relation between `_MemoryFile` and the reference -/

/-- the invariant: the shared BytesIO holds the file's bytes, `self.pos` is the position
(the BytesIO's own position is irrelevant: every call re-seeks) -/
def R (m : MemState) (r : IoState) : Prop :=
  m.bio.bytes = r.bytes ∧ m.pos = r.pos ∧ m.closed = r.closed

theorem all_empty_foldl_bio (ls : List Bytes) (h : ls.all (·.isEmpty) = true) (b : Bio) :
    ls.foldl Bio.write b = b := by
  induction ls generalizing b with
  | nil => rfl
  | cons d ds ih =>
    simp only [List.all_cons, Bool.and_eq_true] at h
    simp only [List.foldl_cons]
    have : Bio.write b d = b := by simp [Bio.write, h.1]
    rw [this]; exact ih h.2 b

theorem all_empty_foldl_ref (fl : Flags) (ls : List Bytes) (h : ls.all (·.isEmpty) = true) (s : IoState) :
    ls.foldl (IoRef.write1 fl) s = s := by
  induction ls generalizing s with
  | nil => rfl
  | cons d ds ih =>
    simp only [List.all_cons, Bool.and_eq_true] at h
    simp only [List.foldl_cons]
    have : IoRef.write1 fl s d = s := by simp [IoRef.write1, h.1]
    rw [this]; exact ih h.2 s

/-- without O_APPEND a sequence of writes acts on (bytes, pos) exactly like BytesIO's -/
theorem foldl_write_plain (fl : Flags) (hna : fl.appending = false) (ls : List Bytes)
    (b : Bytes) (p : Nat) (c : Bool) :
    ls.foldl (IoRef.write1 fl) ⟨b, p, c⟩ =
      ⟨(ls.foldl Bio.write ⟨b, p⟩).bytes, (ls.foldl Bio.write ⟨b, p⟩).pos, c⟩ := by
  induction ls generalizing b p with
  | nil => rfl
  | cons d ds ih =>
    simp only [List.foldl_cons]
    by_cases hd : d.isEmpty = true
    · have h1 : IoRef.write1 fl ⟨b, p, c⟩ d = ⟨b, p, c⟩ := by simp [IoRef.write1, hd]
      have h2 : Bio.write ⟨b, p⟩ d = ⟨b, p⟩ := by simp [Bio.write, hd]
      rw [h1, h2]; exact ih b p
    · have h1 : IoRef.write1 fl ⟨b, p, c⟩ d = ⟨writeAt b p d, p + d.length, c⟩ := by
        simp [IoRef.write1, hd, hna]
      have h2 : Bio.write ⟨b, p⟩ d = ⟨writeAt b p d, p + d.length⟩ := by simp [Bio.write, hd]
      rw [h1, h2]; exact ih _ _

/-- from the end of file, appending writes keep the position at the end (both machines) -/
theorem foldl_write_at_end (fl : Flags) (ls : List Bytes) (b : Bytes) (c : Bool) :
    ls.foldl (IoRef.write1 fl) ⟨b, b.length, c⟩ = ⟨b ++ ls.flatten, (b ++ ls.flatten).length, c⟩ ∧
    ls.foldl Bio.write ⟨b, b.length⟩ = ⟨b ++ ls.flatten, (b ++ ls.flatten).length⟩ := by
  induction ls generalizing b with
  | nil => simp
  | cons d ds ih =>
    simp only [List.foldl_cons, List.flatten_cons]
    have h1 : IoRef.write1 fl ⟨b, b.length, c⟩ d = ⟨b ++ d, (b ++ d).length, c⟩ := by
      unfold IoRef.write1
      split
      · next h => simp at h; simp [h]
      · simp [writeAt_end]
    have h2 : Bio.write ⟨b, b.length⟩ d = ⟨b ++ d, (b ++ d).length⟩ := by
      unfold Bio.write
      split
      · next h => simp at h; simp [h]
      · simp [writeAt_end]
    rw [h1, h2]
    have := ih (b ++ d)
    simpa [List.append_assoc] using this

/-- with O_APPEND, from any position: nothing happens while the pieces are empty, the first
non-empty piece jumps to the end -/
theorem foldl_write_append (fl : Flags) (ha : fl.appending = true) (ls : List Bytes)
    (b : Bytes) (p : Nat) (c : Bool) :
    ls.foldl (IoRef.write1 fl) ⟨b, p, c⟩ =
      if ls.all (·.isEmpty) then ⟨b, p, c⟩ else ⟨b ++ ls.flatten, (b ++ ls.flatten).length, c⟩ := by
  induction ls generalizing b p with
  | nil => simp
  | cons d ds ih =>
    simp only [List.foldl_cons, List.all_cons, List.flatten_cons]
    by_cases hd : d.isEmpty = true
    · have h1 : IoRef.write1 fl ⟨b, p, c⟩ d = ⟨b, p, c⟩ := by simp [IoRef.write1, hd]
      have hd' : d = [] := by simpa using hd
      rw [h1, ih b p]
      simp [hd']
    · have h1 : IoRef.write1 fl ⟨b, p, c⟩ d = ⟨b ++ d, (b ++ d).length, c⟩ := by
        simp [IoRef.write1, hd, ha, writeAt_end]
      rw [h1]
      have := (foldl_write_at_end fl ds (b ++ d) c).1
      rw [this]
      simp [hd, List.append_assoc]


/-! ### one call: `_MemoryFile` against the reference -/

/-- iteration (`list(f)` = `__next__` until StopIteration) reads the remaining lines and leaves
the position at the end of what was read -/
theorem iterLoop_spec (fl : Flags) (hr : fl.reading = true) (fuel : Nat) (b : Bytes) (bp p : Nat)
    (acc : List Bytes) (hf : (b.drop p).length < fuel) :
    ∃ bp', MemFile.iterLoop fl fuel ⟨⟨b, bp⟩, p, false⟩ acc =
      (⟨⟨b, bp'⟩, p + (b.drop p).length, false⟩, .lines (acc.reverse ++ linesOf (b.drop p))) := by
  induction fuel generalizing bp p acc with
  | zero => omega
  | succ fuel ih =>
    unfold MemFile.iterLoop
    cases hl : lineOf (List.drop p b) with
    | nil =>
      have hnil : List.drop p b = [] := by
        by_cases h : List.drop p b = []
        · exact h
        · exact absurd hl (lineOf_ne_nil _ h)
      refine ⟨p, ?_⟩
      simp [MemFile.nextStep, hr, MemFile.seekLock, Bio.readline, Bio.seekSet, limit, Out.isErr, hnil,
        linesOf_nil, lineOf]
    | cons x xs =>
      have hne : List.drop p b ≠ [] := by
        intro h; rw [h] at hl; simp [lineOf] at hl
      have hlen := lineOf_length_le (List.drop p b)
      rw [hl] at hlen
      have hdrop : List.drop (p + (x :: xs).length) b = (List.drop p b).drop (x :: xs).length := by
        rw [List.drop_drop]
      have hf' : (List.drop (p + (x :: xs).length) b).length < fuel := by
        rw [hdrop, List.length_drop]
        simp only [List.length_cons] at hlen hf ⊢
        omega
      obtain ⟨bp', hih⟩ := ih (p + (x :: xs).length) (p + (x :: xs).length) ((x :: xs) :: acc) hf'
      refine ⟨bp', ?_⟩
      simp only [MemFile.nextStep, hr, MemFile.seekLock, Bio.readline, Bio.seekSet, limit, hl, Out.isErr]
      simp only [Bool.not_true, Bool.false_eq_true, if_false, List.isEmpty_cons]
      rw [hih]
      have hun := linesOf_unfold (List.drop p b) hne
      rw [hl] at hun
      rw [hun, hdrop]
      simp only [List.length_drop, List.length_cons] at hlen ⊢
      refine Prod.ext ?_ ?_
      · simp only [MemState.mk.injEq, and_true, true_and]
        omega
      · simp

theorem truncate_body (b : Bytes) (p z : Nat) :
    let b1 : Bio := ⟨b.take z, p⟩
    let b2 := b1.seekEnd
    let b3 := if b2.pos < z then b2.write (zeros (z - b2.pos)) else b2
    (b3.seekSet p).bytes = resize b z ∧ (b3.seekSet p).pos = p := by
  by_cases hlen : b.length < z
  · have hle : b.length ≤ z := by omega
    have htake : List.take z b = b := List.take_of_length_le hle
    have hne : ¬ (z - b.length = 0) := by omega
    simp [Bio.seekEnd, Bio.seekSet, Bio.write, htake, hlen, zeros_isEmpty, hne, writeAt_end,
      resize_ge b z hle]
  · have hle : z ≤ b.length := by omega
    have hl2 : (List.take z b).length = z := by simp; omega
    simp [Bio.seekEnd, Bio.seekSet, hl2, resize_le b z hle]

theorem step_refines (fl : Flags) (m : MemState) (r : IoState) (op : Op)
    (hR : R m r) (hd : deviates fl r op = false) :
    R (MemFile.step fl m op).1 (IoRef.step fl r op).1 ∧
    (MemFile.step fl m op).2 = (IoRef.step fl r op).2 := by
  obtain ⟨⟨b, bp⟩, p, c⟩ := m
  obtain ⟨b', p', c'⟩ := r
  obtain ⟨h1, h2, h3⟩ := hR
  simp only at h1 h2 h3
  subst h1 h2 h3
  by_cases h0 : IoRef.isReadline0 op = true
  · -- readline(0): the reference never touches the file; the excluded class is closed/unreadable
    cases op with
    | readline n =>
      cases n with
      | none => simp [IoRef.isReadline0] at h0
      | some z =>
        simp [IoRef.isReadline0] at h0
        subst h0
        have hcr : c = false ∧ fl.reading = true := by
          cases c <;> cases hr : fl.reading <;> simp [deviates, devClass, hr] at hd ⊢
        obtain ⟨hc, hr⟩ := hcr
        subst hc
        simp [MemFile.step, MemFile.stepOpen, IoRef.step, IoRef.isReadline0, R, hr, MemFile.seekLock,
          Bio.readline, Bio.seekSet, Out.isErr, limit]
    | _ => simp [IoRef.isReadline0] at h0
  · cases c with
    | true =>
      -- closed: everything but close() is rejected on both sides
      cases op <;> simp_all [MemFile.step, MemFile.stepClosed, IoRef.step, IoRef.stepClosed, R]
    | false =>
    cases op with
    | close => simp [MemFile.step, MemFile.stepOpen, IoRef.step, IoRef.stepOpen, IoRef.isReadline0, R]
    | tell => simp [MemFile.step, MemFile.stepOpen, IoRef.step, IoRef.stepOpen, IoRef.isReadline0, R]
    | flush => simp [MemFile.step, MemFile.stepOpen, IoRef.step, IoRef.stepOpen, IoRef.isReadline0, R]
    | read n =>
      cases hr : fl.reading <;>
        simp [MemFile.step, MemFile.stepOpen, IoRef.step, IoRef.stepOpen, IoRef.isReadline0, R, hr,
          MemFile.seekLock, Bio.read, Bio.seekSet, IoRef.readN, Out.isErr]
    | readall =>
      cases hr : fl.reading <;>
        simp [MemFile.step, MemFile.stepOpen, IoRef.step, IoRef.stepOpen, IoRef.isReadline0, R, hr,
          MemFile.seekLock, Bio.read, Bio.seekSet, IoRef.readN, Out.isErr]
    | readinto k =>
      cases hr : fl.reading <;>
        simp [MemFile.step, MemFile.stepOpen, IoRef.step, IoRef.stepOpen, IoRef.isReadline0, R, hr,
          MemFile.seekLock, Bio.read, Bio.seekSet, IoRef.readN, Out.isErr]
    | readlines =>
      cases hr : fl.reading <;>
        simp [MemFile.step, MemFile.stepOpen, IoRef.step, IoRef.stepOpen, IoRef.isReadline0, R, hr,
          MemFile.seekLock, Bio.readlines, Bio.seekSet, IoRef.readLines, Out.isErr]
    | readline n =>
      cases hr : fl.reading <;>
        simp [MemFile.step, MemFile.stepOpen, IoRef.step, IoRef.stepOpen, h0, R, hr, MemFile.seekLock,
          Bio.readline, Bio.seekSet, IoRef.readLine, Out.isErr]
    | next =>
      cases hr : fl.reading
      · simp [MemFile.step, MemFile.stepOpen, MemFile.nextStep, IoRef.step, IoRef.stepOpen,
          IoRef.isReadline0, R, hr]
      · cases hl : lineOf (List.drop p b) with
        | nil =>
          simp [MemFile.step, MemFile.stepOpen, MemFile.nextStep, IoRef.step, IoRef.stepOpen,
            IoRef.isReadline0, hr, MemFile.seekLock, Bio.readline, Bio.seekSet, IoRef.readLine, limit, hl,
            Out.isErr, R]
        | cons x xs =>
          simp [MemFile.step, MemFile.stepOpen, MemFile.nextStep, IoRef.step, IoRef.stepOpen,
            IoRef.isReadline0, hr, MemFile.seekLock, Bio.readline, Bio.seekSet, IoRef.readLine, limit, hl,
            Out.isErr, R]
    | iter =>
      cases hr : fl.reading
      · -- the first __next__ raises; list(f) propagates it
        simp [MemFile.step, MemFile.stepOpen, MemFile.iterLoop, MemFile.nextStep, IoRef.step,
          IoRef.stepOpen, IoRef.isReadline0, R, hr]
      · obtain ⟨bp', hspec⟩ := iterLoop_spec fl hr (b.length - p + 1) b bp p []
          (by simp only [List.length_drop]; omega)
        simp only [MemFile.step, MemFile.stepOpen, Bool.false_eq_true, if_false]
        rw [hspec]
        simp [IoRef.step, IoRef.stepOpen, IoRef.isReadline0, R, hr, IoRef.readLines]
    | seek off whence =>
      match whence with
      | 0 =>
        by_cases h : off < 0 <;>
          simp [MemFile.step, MemFile.stepOpen, IoRef.step, IoRef.stepOpen, IoRef.isReadline0, R,
            MemFile.seekLock, Bio.seek, Bio.seekSet, Out.isErr, h]
      | 1 =>
        by_cases h : (p : Int) + off < 0 <;>
          simp [MemFile.step, MemFile.stepOpen, IoRef.step, IoRef.stepOpen, IoRef.isReadline0, R,
            MemFile.seekLock, Bio.seek, Bio.seekSet, Out.isErr, h]
      | 2 =>
        by_cases h : (b.length : Int) + off < 0 <;>
          simp [MemFile.step, MemFile.stepOpen, IoRef.step, IoRef.stepOpen, IoRef.isReadline0, R,
            MemFile.seekLock, Bio.seek, Bio.seekSet, Bio.seekEnd, Out.isErr, h]
      | w + 3 =>
        simp [MemFile.step, MemFile.stepOpen, IoRef.step, IoRef.stepOpen, IoRef.isReadline0, R,
          MemFile.seekLock, Bio.seek, Bio.seekSet, Out.isErr]
    | write d =>
      cases hw : fl.writing
      · simp [MemFile.step, MemFile.stepOpen, IoRef.step, IoRef.stepOpen, IoRef.isReadline0, R, hw]
      · cases ha : fl.appending <;> by_cases hde : d.isEmpty = true <;>
          simp [MemFile.step, MemFile.stepOpen, IoRef.step, IoRef.stepOpen, IoRef.isReadline0, R, hw, ha,
            MemFile.seekLock, Bio.write, Bio.seekSet, Bio.seekEnd, IoRef.write1, Out.isErr, hde]
    | writelines ls =>
      cases hw : fl.writing
      · have hne : ls.isEmpty = false := by
          cases h : ls.isEmpty <;> simp [deviates, devClass, hw, h] at hd ⊢
        simp [MemFile.step, MemFile.stepOpen, IoRef.step, IoRef.stepOpen, IoRef.isReadline0, R, hw, hne]
      · cases ha : fl.appending
        · have hf := foldl_write_plain fl ha ls b p false
          by_cases hne : ls.isEmpty = true
          · have : ls = [] := by simpa using hne
            subst this
            simp [MemFile.step, MemFile.stepOpen, IoRef.step, IoRef.stepOpen, IoRef.isReadline0, R, hw, ha,
              MemFile.seekLock, Bio.seekSet, Out.isErr]
          · simp [MemFile.step, MemFile.stepOpen, IoRef.step, IoRef.stepOpen, IoRef.isReadline0, R, hw, ha,
              hne, MemFile.seekLock, Bio.seekSet, Out.isErr, hf]
        · have hf := foldl_write_append fl ha ls b p false
          have hb := (foldl_write_at_end fl ls b false).2
          by_cases hall : ls.all (·.isEmpty) = true
          · -- nothing to write: no seek, nothing changes
            have hany : ls.any (fun l => !l.isEmpty) = false := by
              simp only [List.any_eq_false, Bool.not_eq_true', Bool.not_eq_false']
              simp only [List.all_eq_true] at hall
              intro x hx; simpa using hall x hx
            have hbio := all_empty_foldl_bio ls hall ⟨b, p⟩
            have href := all_empty_foldl_ref fl ls hall ⟨b, p, false⟩
            by_cases hne : ls.isEmpty = true
            · have : ls = [] := by simpa using hne
              subst this
              simp [MemFile.step, MemFile.stepOpen, IoRef.step, IoRef.stepOpen, IoRef.isReadline0, R, hw, ha,
                MemFile.seekLock, Bio.seekSet, Out.isErr]
            · simp [MemFile.step, MemFile.stepOpen, IoRef.step, IoRef.stepOpen, IoRef.isReadline0, R, hw, ha,
                hne, hany, MemFile.seekLock, Bio.seekSet, Out.isErr, hbio, href]
          · have hne : ls.isEmpty = false := by
              cases h : ls.isEmpty
              · rfl
              · exfalso; apply hall; have : ls = [] := by simpa using h
                subst this; rfl
            have hany : ls.any (fun l => !l.isEmpty) = true := by
              cases h : ls.any (fun l => !l.isEmpty)
              · exfalso; apply hall
                simp only [List.any_eq_false, Bool.not_eq_true', Bool.not_eq_false'] at h
                simp only [List.all_eq_true]
                intro x hx; simpa using h x hx
              · rfl
            simp only [hall] at hf
            simp [MemFile.step, MemFile.stepOpen, IoRef.step, IoRef.stepOpen, IoRef.isReadline0, R, hw, ha,
              hne, hany, MemFile.seekLock, Bio.seekSet, Bio.seekEnd, Out.isErr, hb, hf]
    | truncate size =>
      cases hw : fl.writing
      · simp [MemFile.step, MemFile.stepOpen, IoRef.step, IoRef.stepOpen, IoRef.isReadline0, R, hw]
      · cases size with
        | none =>
          have hb := truncate_body b p p
          have hp0 : ¬ ((p : Int) < 0) := by omega
          simp only [Bio.seekSet] at hb
          simp [MemFile.step, MemFile.stepOpen, IoRef.step, IoRef.stepOpen, IoRef.isReadline0, R, hw,
            MemFile.seekLock, Bio.truncate, Bio.seekSet, Out.isErr, hp0]
          exact ⟨hb.1, by cases p <;> rfl⟩
        | some z =>
          by_cases hz : z < 0
          · simp [MemFile.step, MemFile.stepOpen, IoRef.step, IoRef.stepOpen, IoRef.isReadline0, R, hw,
              MemFile.seekLock, Bio.truncate, Bio.seekSet, Out.isErr, hz]
          · have hb := truncate_body b p z.toNat
            simp only [Bio.seekSet] at hb
            simp [MemFile.step, MemFile.stepOpen, IoRef.step, IoRef.stepOpen, IoRef.isReadline0, R, hw,
              MemFile.seekLock, Bio.truncate, Bio.seekSet, Out.isErr, hz]
            have hiff : ∀ n : Nat, ((n : Int) < z) ↔ n < z.toNat := by intro n; omega
            simp only [hiff]
            exact hb.1

end Fs.FileLemmas
