/-
  Helper lemmas for FsProofs/BaseWalkLaws.lean, part 1:
  * the path strings the walkers of `FsModel.BaseWalk` build (`combine`, `frombase`, `isbase`,
    `abspath(normpath(…))`) on clean absolute paths `absOf cs`;
  * the primitive calls of `primOfStep Ref.step` on such paths, as `step1`/`step2` on components.
-/
import FsModel.BaseWalk
import FsProofs.Lemmas.TreeLemmas
import FsProofs.Lemmas.QueryLemmas
import FsProofs.Lemmas.WrapLemmas
import FsProofs.C12

namespace Fs.BaseWalkPrim
open Fs Fs.Path Fs.PathSpec Fs.PathLemmas Fs.Ref Fs.BaseWalk Fs.TreeLemmas Fs.WrapLemmas

/-- every component is a legal resource name -/
def CleanN (cs : List Name) : Prop := ∀ c ∈ cs, cleanName c = true

theorem cleanN_nil : CleanN [] := by intro c hc; cases hc

theorem cleanN_append {a b : List Name} : CleanN (a ++ b) ↔ CleanN a ∧ CleanN b := by
  simp only [CleanN, List.mem_append]
  constructor
  · intro h; exact ⟨fun c hc => h c (Or.inl hc), fun c hc => h c (Or.inr hc)⟩
  · rintro ⟨h1, h2⟩ c (hc | hc); exact h1 c hc; exact h2 c hc

theorem cleanN_single {n : Name} : CleanN [n] ↔ cleanName n = true := by
  simp [CleanN]

theorem cleanN_snoc {a : List Name} {n : Name} (ha : CleanN a) (hn : cleanName n = true) : CleanN (a ++ [n]) :=
  cleanN_append.2 ⟨ha, cleanN_single.2 hn⟩

/-! ### path strings -/

theorem absOf_nil : absOf [] = ['/'] := rfl

theorem absOf_eq_root {cs : List Name} (h : CleanN cs) : absOf cs = ['/'] ↔ cs = [] := by
  rw [absOf, mkp_eq_slash_iff (clean_of_cleanName h)]; simp

theorem absOf_inj {a b : List Name} (ha : CleanN a) (hb : CleanN b) (h : absOf a = absOf b) : a = b :=
  mkp_inj (clean_of_cleanName ha) (clean_of_cleanName hb) h

theorem absOf_ne_nil (cs : List Name) : absOf cs ≠ [] := by simp [absOf, mkp]

/-- `combine(dir_path, info.name)` -/
theorem combine_absOf {cs : List Name} {n : Name} (h : CleanN cs) (hn : cleanName n = true) :
    combine (absOf cs) n = absOf (cs ++ [n]) := by
  have hc := clean_of_cleanName h
  have hn' : CleanComp n := clean_of_cleanName (cleanN_single.2 hn) n (by simp)
  have hls : lstripSlash n = n := lstripSlash_of_not_starts _ (startsWithSlash_of_not_mem _ hn'.2.2.2)
  have hne : (absOf cs == []) = false := by simp [absOf_ne_nil]
  simp only [combine, hne, Bool.false_eq_true, if_false, hls]
  by_cases hcs : cs = []
  · subst hcs; rfl
  · rw [absOf, absOf, rstripSlash_mkp hc hcs, mkp_snoc n hcs]

/-- `abspath(normpath(p))` of a clean absolute path is the path -/
theorem normRes_absOf {cs : List Name} (h : CleanN cs) : normRes (absOf cs) = .ok (absOf cs) := by
  have hc := clean_of_cleanName h
  simp only [normRes, absOf, normpath_mkp hc, abspath_mkp hc]

theorem normRes_of_validate {p : Str} {cs : List Name} (h : validate p = .ok cs) :
    normRes p = .ok (absOf cs) := by
  have hcl := TreeLemmas.validate_clean p cs h
  have hr := validate_ok_resolve h
  unfold normRes
  rw [ConfineLemmas.normpath_of_resolve p cs hr]
  simp only [absOf]
  rw [PathLemmas.abspath_mkp (clean_of_cleanName hcl)]

theorem isbase_absOf {a b : List Name} (ha : CleanN a) (hb : CleanN b) :
    isbase (absOf a) (absOf b) = true ↔ a <+: b :=
  isbase_mkp_iff true true a b (clean_of_cleanName ha) (clean_of_cleanName hb)

theorem isbase_absOf_false {a b : List Name} (ha : CleanN a) (hb : CleanN b) (h : ¬ a <+: b) :
    isbase (absOf a) (absOf b) = false := by
  rw [Bool.eq_false_iff]; intro e; exact h ((isbase_absOf ha hb).1 e)

/-- `combine(dst_root, frombase(src_root, path))` for a path strictly below the source root -/
theorem target_absOf {a b r : List Name} (ha : CleanN a) (hb : CleanN b) (hr : CleanN r) (hne : r ≠ []) :
    target (absOf a) (absOf b) (absOf (a ++ r)) = .ok (absOf (b ++ r)) := by
  have hca := clean_of_cleanName ha
  have hcb := clean_of_cleanName hb
  have hcr := clean_of_cleanName hr
  have hcar : Clean (a ++ r) := clean_append.2 ⟨hca, hcr⟩
  obtain ⟨t, hf, ht⟩ := C12.frombase_append true a (a ++ r) hca hcar (List.prefix_append a r)
  simp only [C12.mk_eq_mkp] at hf ht
  simp only [target, absOf, hf]
  -- `t` is `join r` (source = root) or `"/" ++ join r`
  have hjr : joinWith '/' r ≠ [] := fun e => hne ((join_clean_eq_nil_iff hcr).1 e)
  have hl : lstripSlash t = joinWith '/' r := by
    by_cases hae : a = []
    · subst hae
      have : t = joinWith '/' r := by
        simpa [mkp, joinWith] using ht
      rw [this]
      exact lstripSlash_of_not_starts _ (startsWithSlash_join_clean hcr)
    · have : mkp true (a ++ r) = mkp true a ++ '/' :: joinWith '/' r := by
        simp [mkp, joinWith_append _ _ _ hae hne]
      rw [this] at ht
      have : t = '/' :: joinWith '/' r := List.append_cancel_left ht
      rw [this]
      simp only [lstripSlash]
      have := lstripSlash_of_not_starts _ (startsWithSlash_join_clean hcr)
      simpa [lstripSlash] using this
  have hne' : (mkp true b == []) = false := by simp [mkp]
  simp only [combine, hne', Bool.false_eq_true, if_false, hl]
  by_cases hbe : b = []
  · subst hbe
    simp [mkp, rstripSlash, joinWith, lstripSlash]
  · rw [rstripSlash_mkp hcb hbe]
    simp [mkp, joinWith_append _ _ _ hbe hne]


/-! ### the primitives of `Ref.step` on clean absolute paths -/

theorem ref_one (t : State) (hc : t.closed = false) (op : Op) {cs : List Name} (h : CleanN cs)
    (hp : op.paths = [absOf cs]) (hno : ∀ q m, op ≠ .openbin q m) : Ref.step t op = step1 t cs op := by
  rw [QueryLemmas.step_one t op _ hc hp hno, validate_absOf h]

theorem ref_two (t : State) (hc : t.closed = false) (op : Op) {a b : List Name} (ha : CleanN a) (hb : CleanN b)
    (hp : op.paths = [absOf a, absOf b]) : Ref.step t op = step2 t a b op := by
  rw [QueryLemmas.step_two t op _ _ hc hp, validate_absOf ha, validate_absOf hb]

/-- `fs.validatepath(p)` over `Ref.step` -/
theorem validateOf_ref (t : State) (hc : t.closed = false) (p : Str) :
    validateOf Ref.step t p = (t, match validate p with
      | .err e => .err e
      | .ok cs => .ok (absOf cs)) := by
  unfold validateOf
  rw [QueryLemmas.step_one t _ p hc rfl (by intro q m h; cases h)]
  cases hv : validate p with
  | err e => simp [fail]
  | ok cs => simp [step1, done, normRes_of_validate hv]

theorem validateOf_ref_absOf (t : State) (hc : t.closed = false) {cs : List Name} (h : CleanN cs) :
    validateOf Ref.step t (absOf cs) = (t, .ok (absOf cs)) := by
  rw [validateOf_ref t hc, validate_absOf h]

/-- what a scan reports of one entry -/
def infoOf (e : Name × Node) : ScanInfo :=
  match e.2 with
  | .dir _ => (e.1, true, 0)
  | .file b => (e.1, false, b.length)

def infos (es : Ents) : List ScanInfo := es.map infoOf

theorem lookup_of_mem_wf : ∀ (es : Ents) (k : Name) (v : Node), entsWf es = true → (k, v) ∈ es →
    Ents.lookup k es = some v
  | [], _, _, _, hm => by cases hm
  | (k', v') :: es, k, v, hw, hm => by
    simp only [entsWf, Bool.and_eq_true] at hw
    simp only [List.mem_cons, Prod.mk.injEq] at hm
    rcases hm with ⟨rfl, rfl⟩ | hm
    · simp [Ents.lookup]
    · have ih := lookup_of_mem_wf es k v hw.2 hm
      by_cases hk : k' = k
      · subst hk
        rw [ih] at hw
        simp at hw
      · simp [Ents.lookup, hk, ih]

theorem lastName_snoc (cs : List Name) (n : Name) : lastName (cs ++ [n]) = n := by
  simp [lastName]

theorem scanNames_ref (t : State) (hc : t.closed = false) {cs : List Name} (h : CleanN cs) (es : Ents)
    (hg : t.root.get cs = some (.dir es)) (hwf : entsWf es = true) :
    ∀ (es' : Ents) (acc : List ScanInfo), (∀ e ∈ es', e ∈ es) →
      scanNames Ref.step (absOf cs) (Ents.names es') acc t = (t, .ok (acc ++ infos es'))
  | [], acc, _ => by simp [scanNames, Ents.names, infos]
  | (k, v) :: es', acc, hsub => by
    have hmem : (k, v) ∈ es := hsub _ (by simp)
    have hl := lookup_of_mem_wf es k v hwf hmem
    have hk : cleanName k = true := lookup_clean k v es hwf hl
    have hgk : t.root.get (cs ++ [k]) = some v := by
      rw [TreeLemmas.get_append, hg]; simp [Node.get, hl]
    have ih := scanNames_ref t hc h es hg hwf es' (acc ++ [infoOf (k, v)]) (fun e he => hsub e (by simp [he]))
    simp only [Ents.names, List.map_cons] at ih ⊢
    rw [scanNames, combine_absOf h hk, ref_one t hc _ (cleanN_snoc h hk) rfl (by intro q m e; cases e)]
    cases v with
    | file b =>
      simp only [step1, hgk, done, lastName_snoc]
      simp only [infoOf] at ih
      rw [ih]; simp [infos, infoOf]
    | dir e =>
      simp only [step1, hgk, done, lastName_snoc]
      simp only [infoOf] at ih
      rw [ih]; simp [infos, infoOf]

/-- `fs.scandir(path)` (the base-class one: `listdir` + `getinfo` per name) over `Ref.step` -/
theorem scanOf_ref (t : State) (hc : t.closed = false) (hwf : t.root.wf = true) {cs : List Name} (h : CleanN cs) :
    scanOf Ref.step t (absOf cs) = (t, match t.root.get cs with
      | none => .err .ResourceNotFound
      | some (.file _) => .err .DirectoryExpected
      | some (.dir es) => .ok (infos es)) := by
  unfold scanOf
  rw [ref_one t hc _ h rfl (by intro q m e; cases e)]
  cases hg : t.root.get cs with
  | none => simp [step1, hg, fail]
  | some n =>
    cases n with
    | file b => simp [step1, hg, fail]
    | dir es =>
      simp only [step1, hg, done]
      have hw : entsWf es = true := by
        have := TreeLemmas.get_wf cs t.root _ hwf hg
        simpa [Node.wf] using this
      have := scanNames_ref t hc h es hg hw es [] (fun e he => he)
      simpa using this

end Fs.BaseWalkPrim
