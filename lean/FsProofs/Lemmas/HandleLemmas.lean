/-
  Helper lemmas for FsProofs/HandleLaws.lean (the reference with open handles).
-/
import FsModel.Handles
import FsProofs.Lemmas.TreeLemmas

namespace Fs.HandleLemmas
open Fs Fs.Ref Fs.File Fs.Handles Fs.TreeLemmas

/-! ### trees: writing the same leaf twice, writing back what is there -/

theorem put_put (c : Name) (v w : Node) (es : Ents) :
    Ents.put c w (Ents.put c v es) = Ents.put c w es := by
  induction es with
  | nil => simp [Ents.put]
  | cons e es ih =>
    obtain ⟨k, x⟩ := e
    by_cases h : k = c <;> simp [Ents.put, h, ih]

theorem set_set (cs : List Name) (t v w : Node) : (t.set cs v).set cs w = t.set cs w := by
  fun_induction Node.set cs t v with
  | case1 n v => simp [Node.set]
  | case2 c es v => simp [Node.set, put_put]
  | case3 c d cs es v ch hl ih =>
    simp only [Node.set, lookup_put_same, hl, ih, put_put]
  | case4 c d cs es v hl => simp [Node.set, hl]
  | case5 c cs b v => simp [Node.set]

theorem set_get_self (cs : List Name) (t n : Node) (h : t.get cs = some n) : t.set cs n = t := by
  fun_induction Node.set cs t n with
  | case1 n v => rfl
  | case2 c es v =>
    simp only [Node.get] at h
    cases hl : Ents.lookup c es with
    | none => simp [hl] at h
    | some ch =>
      simp only [hl] at h
      cases h
      rw [put_lookup_self _ _ _ hl]
  | case3 c d cs es v ch hl ih =>
    simp only [Node.get, hl] at h
    rw [ih h, put_lookup_self _ _ _ hl]
  | case4 c d cs es v hl => rfl
  | case5 c cs b v => rfl

/-- rewriting the bytes of a file makes nothing appear where nothing was -/
theorem get_set_leaf_none (cs : List Name) (t : Node) (b b' : Bytes) (q : List Name)
    (hg : t.get cs = some (.file b)) (hq : t.get q = none) : (t.set cs (.file b')).get q = none := by
  generalize hv : Node.file b' = v
  fun_induction Node.set cs t v generalizing q with
  | case1 n v => exact hq
  | case2 c es v =>
    cases q with
    | nil => simp [Node.get] at hq
    | cons c' qs =>
      by_cases hc : c' = c
      · subst hc
        simp only [Node.get] at hg hq ⊢
        rw [lookup_put_same]
        cases hl : Ents.lookup c' es with
        | none => simp [hl] at hg
        | some ch =>
          simp only [hl] at hg hq
          cases hg
          subst hv
          cases qs with
          | nil => simp [Node.get] at hq
          | cons d qs => simp [Node.get]
      · simp only [Node.get] at hq ⊢
        rw [lookup_put_other _ _ _ _ hc]; exact hq
  | case3 c d cs es v ch hl ih =>
    cases q with
    | nil => simp [Node.get] at hq
    | cons c' qs =>
      by_cases hc : c' = c
      · subst hc
        simp only [Node.get, hl] at hg hq
        simp only [Node.get, lookup_put_same]
        exact ih qs hg hq hv
      · simp only [Node.get] at hq ⊢
        rw [lookup_put_other _ _ _ _ hc]; exact hq
  | case4 c d cs es v hl => exact hq
  | case5 c cs b v => exact hq

/-! ### `fileAt` -/

theorem fileAt_eq_some {t : Node} {cs : List Name} {b : Bytes} :
    fileAt t cs = some b ↔ t.get cs = some (.file b) := by
  unfold fileAt
  cases h : t.get cs with
  | none => simp
  | some n => cases n <;> simp

theorem fileAt_isSome {t : Node} {cs : List Name} (h : (fileAt t cs).isSome = true) :
    ∃ b, t.get cs = some (.file b) := by
  cases hf : fileAt t cs with
  | none => simp [hf] at h
  | some b => exact ⟨b, fileAt_eq_some.1 hf⟩

/-- a file node that is not the root has a parent directory -/
theorem parent_of_file {t : Node} {cs : List Name} {b : Bytes} (hne : cs ≠ [])
    (h : t.get cs = some (.file b)) : ∃ es, t.get cs.dropLast = some (.dir es) :=
  get_parent_dir hne h

theorem get_set_file_self {t : Node} {cs : List Name} {b : Bytes} (b' : Bytes) (hne : cs ≠ [])
    (h : t.get cs = some (.file b)) : (t.set cs (.file b')).get cs = some (.file b') := by
  obtain ⟨es, he⟩ := parent_of_file hne h
  exact get_set_same cs t _ es hne he

/-- rewriting the bytes of the file at `cs` changes no other file -/
theorem fileAt_set_other {t : Node} {cs q : List Name} {b : Bytes} (b' : Bytes) (hne : cs ≠ [])
    (h : t.get cs = some (.file b)) (hq : q ≠ cs) :
    fileAt (t.set cs (.file b')) q = fileAt t q := by
  have key : ∀ (t : Node) (b b' x : Bytes), t.get cs = some (.file b) → t.get q = some (.file x) →
      (t.set cs (.file b')).get q = some (.file x) := by
    intro t b b' x h hx
    exact get_set_file cs q t _ x hx (not_prefix_of_not_dir hx hq (by simp [h]))
  cases hx : fileAt t q with
  | some x =>
    rw [fileAt_eq_some] at hx
    exact fileAt_eq_some.2 (key t b b' x h hx)
  | none =>
    cases hy : fileAt (t.set cs (.file b')) q with
    | none => rfl
    | some y =>
      rw [fileAt_eq_some] at hy
      have h' := get_set_file_self b' hne h
      have := key (t.set cs (.file b')) b' b y h' hy
      rw [set_set, set_get_self cs t _ h] at this
      rw [fileAt_eq_some.2 this] at hx
      cases hx

/-! ### inode contents -/

/-- inode `i` is usable: it is in the table and, when linked, linked at a non-root path that is a file -/
def inoOk (s : HState) (i : Nat) : Prop :=
  match s.inodes[i]? with
  | some (.linked cs) => cs ≠ [] ∧ ∃ b, s.fs.root.get cs = some (.file b)
  | some (.unlinked _) => True
  | none => False

theorem inoBytes_linked {s : HState} {i : Nat} {cs : List Name} {b : Bytes}
    (hi : s.inodes[i]? = some (.linked cs)) (hb : s.fs.root.get cs = some (.file b)) :
    s.inoBytes i = b := by
  simp [HState.inoBytes, hi, Link.bytes, fileAt_eq_some.2 hb]

theorem inoBytes_unlinked {s : HState} {i : Nat} {b : Bytes}
    (hi : s.inodes[i]? = some (.unlinked b)) : s.inoBytes i = b := by
  simp [HState.inoBytes, hi, Link.bytes]

theorem setInoBytes_handles (s : HState) (i : Nat) (b : Bytes) : (s.setInoBytes i b).handles = s.handles := by
  unfold HState.setInoBytes
  split
  · split <;> rfl
  · rfl
  · rfl

theorem setInoBytes_closed (s : HState) (i : Nat) (b : Bytes) : (s.setInoBytes i b).fs.closed = s.fs.closed := by
  unfold HState.setInoBytes
  split
  · split <;> rfl
  · rfl
  · rfl

theorem setInoBytes_linked {s : HState} {i : Nat} {cs : List Name} {b : Bytes} (b' : Bytes)
    (hi : s.inodes[i]? = some (.linked cs)) (hb : s.fs.root.get cs = some (.file b)) :
    s.setInoBytes i b' = { s with fs := { s.fs with root := s.fs.root.set cs (.file b') } } := by
  simp [HState.setInoBytes, hi, fileAt_eq_some.2 hb]

theorem setInoBytes_unlinked {s : HState} {i : Nat} {b : Bytes} (b' : Bytes)
    (hi : s.inodes[i]? = some (.unlinked b)) :
    s.setInoBytes i b' = { s with inodes := s.inodes.set i (.unlinked b') } := by
  simp [HState.setInoBytes, hi]

/-- storing the bytes an inode already has changes nothing -/
theorem setInoBytes_self {s : HState} {i : Nat} (hok : inoOk s i) : s.setInoBytes i (s.inoBytes i) = s := by
  unfold inoOk at hok
  cases hi : s.inodes[i]? with
  | none => simp [hi] at hok
  | some l =>
    cases l with
    | linked cs =>
      simp only [hi] at hok
      obtain ⟨_, b, hb⟩ := hok
      rw [inoBytes_linked hi hb, setInoBytes_linked b hi hb, set_get_self cs _ _ hb]
    | unlinked b =>
      rw [inoBytes_unlinked hi, setInoBytes_unlinked b hi]
      obtain ⟨hlt, heq⟩ := List.getElem?_eq_some_iff.1 hi
      have : s.inodes.set i (.unlinked b) = s.inodes := by
        rw [← heq]; exact List.set_getElem_self hlt
      rw [this]

/-- what was stored is what is read back -/
theorem inoBytes_setInoBytes {s : HState} {i : Nat} (b' : Bytes) (hok : inoOk s i) :
    (s.setInoBytes i b').inoBytes i = b' := by
  unfold inoOk at hok
  cases hi : s.inodes[i]? with
  | none => simp [hi] at hok
  | some l =>
    cases l with
    | linked cs =>
      simp only [hi] at hok
      obtain ⟨hne, b, hb⟩ := hok
      rw [setInoBytes_linked b' hi hb]
      exact inoBytes_linked (s := { s with fs := { s.fs with root := s.fs.root.set cs (.file b') } }) hi
        (get_set_file_self b' hne hb)
    | unlinked b =>
      rw [setInoBytes_unlinked b' hi]
      obtain ⟨hlt, _⟩ := List.getElem?_eq_some_iff.1 hi
      exact inoBytes_unlinked (s := { s with inodes := s.inodes.set i (.unlinked b') }) (b := b')
        (by simp [hlt])

/-- the inode stays usable, with the same link -/
theorem inoOk_setInoBytes {s : HState} {i : Nat} (b' : Bytes) (hok : inoOk s i) : inoOk (s.setInoBytes i b') i := by
  unfold inoOk at hok ⊢
  cases hi : s.inodes[i]? with
  | none => simp [hi] at hok
  | some l =>
    cases l with
    | linked cs =>
      simp only [hi] at hok
      obtain ⟨hne, b, hb⟩ := hok
      rw [setInoBytes_linked b' hi hb]
      simp only [hi]
      exact ⟨hne, b', get_set_file_self b' hne hb⟩
    | unlinked b =>
      rw [setInoBytes_unlinked b' hi]
      obtain ⟨hlt, _⟩ := List.getElem?_eq_some_iff.1 hi
      simp [hlt]

/-! ### one file-object call -/

/-- `fileStep` is: `IoRef.step` on (inode bytes, position, closed), the new bytes stored back -/
theorem fileStep_eq {s : HState} {hid : Nat} {h : Handle} (op : File.Op)
    (hh : s.handles[hid]? = some h) (hok : inoOk s h.ino) :
    fileStep s hid op =
      ({ (s.setInoBytes h.ino (IoRef.step h.fl ⟨s.inoBytes h.ino, h.pos, h.closed⟩ op).1.bytes) with
           handles := s.handles.set hid
             { h with pos := (IoRef.step h.fl ⟨s.inoBytes h.ino, h.pos, h.closed⟩ op).1.pos,
                      closed := (IoRef.step h.fl ⟨s.inoBytes h.ino, h.pos, h.closed⟩ op).1.closed } },
       .file (IoRef.step h.fl ⟨s.inoBytes h.ino, h.pos, h.closed⟩ op).2) := by
  simp only [fileStep, hh]
  split
  · next heq => rw [heq, setInoBytes_self hok]
  · rw [setInoBytes_handles]

theorem fileStep_bad {s : HState} {hid : Nat} (op : File.Op) (hh : s.handles[hid]? = none) :
    fileStep s hid op = (s, .badHandle) := by
  simp [fileStep, hh]

/-! ### files that a successful filesystem call does not take out of the tree stay files -/

mutual
theorem mergeNode_file_stays : ∀ (v d n : Node) (r : List Name) (x : Bytes),
    mergeNode v (some d) = some n → d.get r = some (.file x) → ∃ y, n.get r = some (.file y)
  | .file b, d, n, r, x, hm, hg => by
    cases d with
    | dir _ => simp [mergeNode] at hm
    | file _ =>
      simp only [mergeNode, Option.some.injEq] at hm
      subst hm
      cases r with
      | nil => exact ⟨b, rfl⟩
      | cons c r => simp [Node.get] at hg
  | .dir es, d, n, r, x, hm, hg => by
    cases d with
    | file _ => simp [mergeNode] at hm
    | dir ds =>
      simp only [mergeNode, Option.map_eq_some_iff] at hm
      obtain ⟨m, hm, rfl⟩ := hm
      exact mergeEnts_file_stays es ds m r x hm hg
theorem mergeEnts_file_stays : ∀ (es ds m : Ents) (r : List Name) (x : Bytes),
    mergeEnts es ds = some m → (Node.dir ds).get r = some (.file x) →
    ∃ y, (Node.dir m).get r = some (.file y)
  | [], ds, m, r, x, hm, hg => by
    simp only [mergeEnts, Option.some.injEq] at hm
    subst hm
    exact ⟨x, hg⟩
  | (k, v) :: es, ds, m, r, x, hm, hg => by
    simp only [mergeEnts] at hm
    cases hn : mergeNode v (Ents.lookup k ds) with
    | none => simp [hn] at hm
    | some n =>
      simp only [hn] at hm
      cases r with
      | nil => simp [Node.get] at hg
      | cons c r =>
        by_cases hc : c = k
        · subst hc
          simp only [Node.get] at hg
          cases hl : Ents.lookup c ds with
          | none => simp [hl] at hg
          | some d =>
            simp only [hl] at hg hn
            obtain ⟨y, hy⟩ := mergeNode_file_stays v d n r x hn hg
            exact mergeEnts_file_stays es _ m (c :: r) y hm (by simp [Node.get, lookup_put_same, hy])
        · exact mergeEnts_file_stays es _ m (c :: r) x hm
            (by simpa [Node.get, lookup_put_other _ _ _ _ hc] using hg)
end

/-- the component paths whose FILE a successful call takes out of the tree -/
def removed (op : Ref.Op) (q : List Name) : Prop :=
  match op with
  | .remove p => ∃ a, validate p = .ok a ∧ q = a
  | .removetree p => ∃ a, validate p = .ok a ∧ a <+: q
  | .move s d _ => ∃ a b, validate s = .ok a ∧ validate d = .ok b ∧ a ≠ b ∧ q = a
  | .movedir s d _ => ∃ a b, validate s = .ok a ∧ validate d = .ok b ∧ a ≠ b ∧ a <+: q
  | _ => False

theorem get_of_get_prefix_none {t : Node} {b r : List Name} (h : t.get b = none) : t.get (b ++ r) = none := by
  rw [get_append, h]; rfl

theorem eff1_file_survives {s : State} {cs : List Name} {op : Ref.Op} {p : Str} {r : State × Ref.Out}
    (h : Eff1 s cs op r) (hp : op.paths = [p]) (hv : validate p = .ok cs)
    (q : List Name) (x : Bytes) (hq : s.root.get q = some (.file x)) (hn : ¬ removed op q) :
    ∃ y, r.1.root.get q = some (.file y) := by
  cases h with
  | same o => exact ⟨x, hq⟩
  | setFile b v es hne hpar hnd hw =>
    by_cases hqc : q = cs
    · subst hqc; exact ⟨b, get_set_same _ _ _ es hne hpar⟩
    · exact ⟨x, get_set_file _ _ _ _ _ hq (not_prefix_of_not_dir hq hqc hnd)⟩
  | mkdir es hne hpar hnone hop =>
    have hqc : q ≠ cs := by intro e; subst e; rw [hnone] at hq; cases hq
    exact ⟨x, get_set_file _ _ _ _ _ hq (not_prefix_of_not_dir hq hqc (by simp [hnone]))⟩
  | mkdirs => exact ⟨x, mkdirs_file _ _ _ _ _ hq⟩
  | delFile b hne hb hop =>
    obtain ⟨p', rfl⟩ := hop
    simp only [Op.paths, List.cons.injEq, and_true] at hp
    subst hp
    have hqc : q ≠ cs := fun e => hn ⟨cs, hv, e⟩
    exact ⟨x, get_del_file _ _ _ _ hq (not_prefix_of_not_dir hq hqc (by simp [hb]))⟩
  | delEmpty hne hb hop =>
    refine ⟨x, get_del_file _ _ _ _ hq ?_⟩
    intro hpre
    by_cases hqc : q = cs
    · subst hqc; rw [hb] at hq; cases hq
    · obtain ⟨c, r', rfl⟩ := prefix_ne_split hpre (Ne.symm hqc)
      rw [get_append, hb] at hq
      simp [Node.get, Ents.lookup] at hq
  | delTree es hne hb hop =>
    obtain ⟨p', rfl⟩ := hop
    simp only [Op.paths, List.cons.injEq, and_true] at hp
    subst hp
    exact ⟨x, get_del_file _ _ _ _ hq (fun hpre => hn ⟨cs, hv, hpre⟩)⟩
  | clear he hop =>
    obtain ⟨p', rfl⟩ := hop
    simp only [Op.paths, List.cons.injEq, and_true] at hp
    subst hp
    subst he
    exact absurd ⟨[], hv, List.nil_prefix⟩ hn

theorem eff2_file_survives {s : State} {a b : List Name} {op : Ref.Op} {p p' : Str} {r : State × Ref.Out}
    (h : Eff2 s a b op r) (hp : op.paths = [p, p']) (ha : validate p = .ok a) (hb : validate p' = .ok b)
    (q : List Name) (x : Bytes) (hq : s.root.get q = some (.file x)) (hn : ¬ removed op q) :
    ∃ y, r.1.root.get q = some (.file y) := by
  cases h with
  | fail e => exact ⟨x, hq⟩
  | noop v _ => exact ⟨x, hq⟩
  | move data ps hga hab hbne hpar hnd hop =>
    obtain ⟨s', d', o, rfl⟩ := hop
    simp only [Op.paths, List.cons.injEq, and_true] at hp
    obtain ⟨rfl, rfl⟩ := hp
    have hqa : q ≠ a := fun e => hn ⟨a, b, ha, hb, hab, e⟩
    have h3 := get_set_same b s.root (.file data) ps hbne hpar
    by_cases hqb : q = b
    · subst hqb
      have h1 : ¬ q <+: a := not_prefix_of_not_dir hga hab hnd
      have h2 := get_set_file q a s.root (.file data) data hga h1
      have h4 : ¬ a <+: q := not_prefix_of_not_dir h3 (Ne.symm hab) (by simp [h2])
      exact ⟨data, get_del_file _ _ _ _ h3 h4⟩
    · have h1 := get_set_file b q s.root (.file data) x hq (not_prefix_of_not_dir hq hqb hnd)
      exact ⟨x, get_del_file _ _ _ _ h1 (not_prefix_of_not_dir hq hqa (by simp [hga]))⟩
  | copy data ps hga hab hbne hpar hnd hop =>
    by_cases hqb : q = b
    · subst hqb; exact ⟨data, get_set_same _ _ _ ps hbne hpar⟩
    · exact ⟨x, get_set_file b q s.root (.file data) x hq (not_prefix_of_not_dir hq hqb hnd)⟩
  | movedirMerge es ds0 ds m hab hpre hga hgb hd hm hop =>
    obtain ⟨s', d', o, rfl⟩ := hop
    simp only [Op.paths, List.cons.injEq, and_true] at hp
    obtain ⟨rfl, rfl⟩ := hp
    have hna : ¬ a <+: q := fun e => hn ⟨a, b, ha, hb, hab, e⟩
    have h1 := get_del_file a q s.root x hq hna
    by_cases hbq : b <+: q
    · obtain ⟨r', rfl⟩ := hbq
      rw [get_append, hd] at h1
      obtain ⟨y, hy⟩ := mergeEnts_file_stays es ds m r' x hm h1
      exact ⟨y, by simp only [upd]; rw [get_setAt_append _ b r' m ds hd]; exact hy⟩
    · exact ⟨x, get_setAt_file _ _ _ _ _ h1 hbq⟩
  | movedirNew es ps hab hpre hga hgb hpar hop =>
    obtain ⟨s', d', o, rfl⟩ := hop
    simp only [Op.paths, List.cons.injEq, and_true] at hp
    obtain ⟨rfl, rfl⟩ := hp
    have hna : ¬ a <+: q := fun e => hn ⟨a, b, ha, hb, hab, e⟩
    have hbq : ¬ b <+: q := by
      intro ⟨r', e⟩; subst e
      rw [get_of_get_prefix_none hgb] at hq; cases hq
    exact ⟨x, get_del_file _ _ _ _ (get_set_file _ _ _ _ _ hq hbq) hna⟩
  | copydirMerge es ds m hpre hga hgb hm hop =>
    by_cases hbq : b <+: q
    · obtain ⟨r', rfl⟩ := hbq
      have h1 := hq
      rw [get_append, hgb] at h1
      obtain ⟨y, hy⟩ := mergeEnts_file_stays es ds m r' x hm h1
      exact ⟨y, by simp only [upd]; rw [get_setAt_append _ b r' m ds hgb]; exact hy⟩
    · exact ⟨x, get_setAt_file _ _ _ _ _ hq hbq⟩
  | copydirNew es hpre hga hgb hblk hop =>
    have hbq : ¬ b <+: q := by
      intro ⟨r', e⟩; subst e
      rw [get_of_get_prefix_none hgb] at hq; cases hq
    exact ⟨x, get_set_file _ _ _ _ _ (mkdirs_file _ _ _ _ _ hq) hbq⟩

/-- a file the call does not take out of the tree is still a file afterwards (its bytes may have
been rewritten in place) -/
theorem file_survives (s : State) (op : Ref.Op) (q : List Name) (x : Bytes)
    (hq : s.root.get q = some (.file x)) (hn : ¬ removed op q) :
    ∃ y, (step s op).1.root.get q = some (.file y) := by
  cases step_case s op with
  | close _ h => rw [h]; exact ⟨x, hq⟩
  | fail e _ h => rw [h]; exact ⟨x, hq⟩
  | one p cs _ hp hv h => rw [h]; exact eff1_file_survives (eff1 s cs op) hp hv q x hq hn
  | two p p' a b _ hp ha hb h => rw [h]; exact eff2_file_survives (eff2 s a b op) hp ha hb q x hq hn

end Fs.HandleLemmas
