/-
  Helper lemmas for C13 (walk model).  Core Lean only.
-/
import FsModel.Walk

namespace Fs.WalkLemmas
open Fs Fs.Walk Fs.WalkSpec

/-! ### predicates of the machine = predicates of the spec -/

theorem checkFile_eq (o : Opts) (dir : WPath) (k : Name) : checkFile o dir k = fileSel o dir k := by
  unfold checkFile fileSel
  cases optAny o.exclude k <;> cases optAny o.excludeGlob (fileGlobPath dir k) <;>
    cases optAll o.filter k <;> cases globFileOk o (fileGlobPath dir k) <;> rfl

theorem checkOpenDir_eq (o : Opts) (dir : WPath) (k : Name) : checkOpenDir o dir k = dirSel o dir k := by
  unfold checkOpenDir dirSel
  cases optAny o.excludeDirs k <;> cases optAny o.excludeGlob (dirGlobPath dir k) <;>
    cases optAll o.filterDirs k <;> cases globDirOk o (dirGlobPath dir k) <;> rfl

theorem checkScanDir_eq (o : Opts) (r : Int) : checkScanDir o r = depthOk o r := by
  unfold checkScanDir depthOk
  cases o.maxDepth with
  | none => rfl
  | some m =>
    by_cases h : r < m
    · have : ¬ (r ≥ m) := by omega
      simp [h, this]
    · have : r ≥ m := by omega
      simp [h, this]

/-! ### resources -/

@[simp] theorem resources_nil : resources [] = [] := rfl

@[simp] theorem resources_cons_some (d : WPath) (i : Info) (evs : List Event) :
    resources ((d, some i) :: evs) = (d ++ [i.1], i.2) :: resources evs := by
  simp [resources]

@[simp] theorem resources_cons_none (d : WPath) (evs : List Event) :
    resources ((d, none) :: evs) = resources evs := by
  simp [resources]

@[simp] theorem resources_append (a b : List Event) : resources (a ++ b) = resources a ++ resources b := by
  simp [resources]

/-- what is selected from a whole queue -/
def selQueue (o : Opts) (d0 : Nat) (q : Queue) : List (WPath × Node) :=
  q.flatMap fun x => selEnts o d0 x.1 x.2

@[simp] theorem selQueue_nil (o : Opts) (d0 : Nat) : selQueue o d0 [] = [] := rfl
@[simp] theorem selQueue_cons (o : Opts) (d0 : Nat) (x : WPath × Ents) (q : Queue) :
    selQueue o d0 (x :: q) = selEnts o d0 x.1 x.2 ++ selQueue o d0 q := by simp [selQueue]
@[simp] theorem selQueue_append (o : Opts) (d0 : Nat) (a b : Queue) :
    selQueue o d0 (a ++ b) = selQueue o d0 a ++ selQueue o d0 b := by simp [selQueue]

/-- one directory scan of the breadth machine: its events plus what will be selected from the
directories it pushes is a permutation of the documented subset below that directory -/
theorem scanBreadth_perm (o : Opts) (d0 : Nat) (dir : WPath) (es : Ents) :
    (resources (scanBreadth o d0 dir es).1 ++ selQueue o d0 (scanBreadth o d0 dir es).2).Perm
      (selEnts o d0 dir es) := by
  fun_induction selEnts o d0 dir es with
  | case1 dir => simp [scanBreadth]
  | case2 dir k b es ih =>
    simp only [scanBreadth, checkFile_eq]
    split
    · simp only [resources_cons_some, List.cons_append, List.nil_append]
      exact List.Perm.cons _ ih
    · simpa using ih
  | case3 dir k sub es ih1 ih2 =>
    simp only [scanBreadth, checkOpenDir_eq, checkScanDir_eq]
    split
    · split
      · simp only [resources_cons_some, selQueue_cons, List.cons_append]
        refine List.Perm.cons _ ?_
        -- res ++ (selSub ++ selQ)  ~  selSub ++ selEnts es
        have h1 : (resources (scanBreadth o d0 dir es).1 ++
            (selEnts o d0 (dir ++ [k]) sub ++ selQueue o d0 (scanBreadth o d0 dir es).2)).Perm
            (selEnts o d0 (dir ++ [k]) sub ++
              (resources (scanBreadth o d0 dir es).1 ++ selQueue o d0 (scanBreadth o d0 dir es).2)) := by
          rw [← List.append_assoc, ← List.append_assoc]
          exact List.Perm.append_right _ List.perm_append_comm
        exact h1.trans (List.Perm.append_left _ ih2)
      · simp only [resources_cons_some, List.cons_append, List.nil_append]
        exact List.Perm.cons _ ih2
    · simpa using ih2

theorem bfs_perm (o : Opts) (d0 : Nat) (q : Queue) :
    (resources (walkBreadth o d0 q)).Perm (selQueue o d0 q) := by
  fun_induction walkBreadth o d0 q with
  | case1 => simp
  | case2 dir es q r ih =>
    simp only [resources_append, resources_cons_none, selQueue_cons]
    have hs := scanBreadth_perm o d0 dir es
    rw [selQueue_append] at ih
    -- res r.1 ++ walk(q ++ r.2)  ~  res r.1 ++ (selQ q ++ selQ r.2) ~ (res r.1 ++ selQ r.2) ++ selQ q
    refine (List.Perm.append_left _ ih).trans ?_
    have : (resources r.1 ++ (selQueue o d0 q ++ selQueue o d0 r.2)).Perm
        ((resources r.1 ++ selQueue o d0 r.2) ++ selQueue o d0 q) := by
      rw [List.append_assoc]
      exact List.Perm.append_left _ List.perm_append_comm
    exact this.trans (List.Perm.append_right _ hs)

/-! ### depth first -/

def parentRes : Option (WPath × Info) → List (WPath × Node)
  | some p => [(p.1 ++ [p.2.1], p.2.2)]
  | none => []

/-- what the depth machine still has to report, frame by frame -/
def dfsSpec (o : Opts) (d0 : Nat) : List Frame → List (WPath × Node)
  | [] => []
  | (dir, es, parent) :: st => selEntsPost o d0 dir es ++ parentRes parent ++ dfsSpec o d0 st

theorem dfs_eq (o : Opts) (d0 : Nat) (st : List Frame) :
    resources (walkDepth o d0 st) = dfsSpec o d0 st := by
  fun_induction walkDepth o d0 st with
  | case1 => rfl
  | case2 dir parent st ih =>
    cases parent with
    | none => simp [dfsSpec, selEntsPost, parentRes, ih]
    | some p => simp [dfsSpec, selEntsPost, parentRes, ih]
  | case3 dir k sub es parent st h1 h2 ih =>
    rw [checkOpenDir_eq] at h1; rw [checkScanDir_eq] at h2
    simp [dfsSpec, selEntsPost, parentRes, h1, h2, ih]
  | case4 dir k sub es parent st h1 h2 ih =>
    rw [checkOpenDir_eq] at h1; rw [checkScanDir_eq] at h2
    simp [dfsSpec, selEntsPost, h1, h2, ih]
  | case5 dir k sub es parent st h1 ih =>
    rw [checkOpenDir_eq] at h1
    simp [dfsSpec, selEntsPost, h1, ih]
  | case6 dir k b es parent st h1 ih =>
    rw [checkFile_eq] at h1
    simp [dfsSpec, selEntsPost, h1, ih]
  | case7 dir k b es parent st h1 ih =>
    rw [checkFile_eq] at h1
    simp [dfsSpec, selEntsPost, h1, ih]

theorem selEntsPost_perm (o : Opts) (d0 : Nat) (dir : WPath) (es : Ents) :
    (selEntsPost o d0 dir es).Perm (selEnts o d0 dir es) := by
  fun_induction selEnts o d0 dir es with
  | case1 dir => simp [selEntsPost]
  | case2 dir k b es ih =>
    simp only [selEntsPost]
    exact List.Perm.append_left _ ih
  | case3 dir k sub es ih1 ih2 =>
    simp only [selEntsPost]
    refine List.Perm.append ?_ ih2
    split
    · split
      · exact (List.perm_append_comm).trans (List.Perm.cons _ ih1)
      · simp
    · exact List.Perm.refl _

/-! ### the tree: enumeration, well-formedness, `get` -/

/-- every resource below a directory, parents first, in listing order (single recursion; equals
`entsWalk` of FsModel.Tree) -/
def allEnts (dir : WPath) : Ents → List (WPath × Node)
  | [] => []
  | (k, .file b) :: es => (dir ++ [k], Node.file b) :: allEnts dir es
  | (k, .dir sub) :: es => (dir ++ [k], Node.dir sub) :: (allEnts (dir ++ [k]) sub ++ allEnts dir es)

theorem allEnts_eq_entsWalk (dir : WPath) (es : Ents) : allEnts dir es = entsWalk dir es := by
  refine entsWalk.induct
    (motive_1 := fun pre v => (match v with | .file _ => [] | .dir es => allEnts pre es) = v.walk pre)
    (motive_2 := fun pre es => allEnts pre es = entsWalk pre es) ?_ ?_ ?_ ?_ dir es
  · intro pre a; simp [Node.walk]
  · intro pre a ih; simpa [Node.walk] using ih
  · intro pre; simp [allEnts, entsWalk]
  · intro pre k v es ih1 ih2
    cases v with
    | file b => simp [allEnts, entsWalk, Node.walk, ih2]
    | dir sub => simp only [allEnts, entsWalk, ← ih2, ← ih1]

theorem lookup_cons (c k : Name) (v : Node) (es : Ents) :
    Ents.lookup c ((k, v) :: es) = if k = c then some v else Ents.lookup c es := rfl

theorem entsWf_cons (k : Name) (v : Node) (es : Ents) :
    entsWf ((k, v) :: es) = (cleanName k && (Ents.lookup k es).isNone && v.wf && entsWf es) := by
  simp [entsWf]

theorem wf_dir (es : Ents) : (Node.dir es).wf = entsWf es := by simp [Node.wf]

theorem get_cons_dir (c : Name) (cs : List Name) (es : Ents) :
    Node.get (c :: cs) (.dir es) = (match Ents.lookup c es with | some ch => Node.get cs ch | none => none) := by
  cases h : Ents.lookup c es <;> simp [Node.get, h]

theorem get_cons_file (c : Name) (cs : List Name) (b : Bytes) : Node.get (c :: cs) (.file b) = none := by
  simp [Node.get]

theorem get_append (a b : List Name) (t : Node) :
    Node.get (a ++ b) t = (Node.get a t).bind (Node.get b) := by
  induction a generalizing t with
  | nil => simp [Node.get]
  | cons c cs ih =>
    cases t with
    | file d => simp [Node.get]
    | dir es =>
      simp only [List.cons_append, get_cons_dir]
      cases Ents.lookup c es with
      | none => simp
      | some ch => simpa using ih ch

/-- every enumerated path extends `dir` by a name that is listed in `es` -/
theorem allEnts_mem_prefix (dir : WPath) (es : Ents) (p : WPath) (n : Node)
    (h : (p, n) ∈ allEnts dir es) : ∃ k rest, p = dir ++ k :: rest ∧ (Ents.lookup k es).isSome := by
  fun_induction allEnts dir es with
  | case1 dir => simp at h
  | case2 dir k b es ih =>
    simp only [List.mem_cons, Prod.mk.injEq] at h
    rcases h with ⟨rfl, rfl⟩ | h
    · exact ⟨k, [], rfl, by simp [lookup_cons]⟩
    · obtain ⟨k', rest, hp, hl⟩ := ih h
      refine ⟨k', rest, hp, ?_⟩
      rw [lookup_cons]; split <;> simp [hl]
  | case3 dir k sub es ih1 ih2 =>
    simp only [List.mem_cons, Prod.mk.injEq, List.mem_append] at h
    rcases h with ⟨rfl, rfl⟩ | h | h
    · exact ⟨k, [], rfl, by simp [lookup_cons]⟩
    · obtain ⟨k', rest, hp, _⟩ := ih1 h
      exact ⟨k, k' :: rest, by simp [hp], by simp [lookup_cons]⟩
    · obtain ⟨k', rest, hp, hl⟩ := ih2 h
      refine ⟨k', rest, hp, ?_⟩
      rw [lookup_cons]; split <;> simp [hl]

theorem allEnts_nodup (dir : WPath) (es : Ents) (hwf : entsWf es = true) :
    ((allEnts dir es).map (·.1)).Nodup := by
  fun_induction allEnts dir es with
  | case1 dir => simp
  | case2 dir k b es ih =>
    rw [entsWf_cons] at hwf
    simp only [Bool.and_eq_true] at hwf
    obtain ⟨⟨⟨_, hk⟩, _⟩, hes⟩ := hwf
    simp only [List.map_cons, List.nodup_cons, List.mem_map, Prod.exists, exists_and_right, exists_eq_right]
    refine ⟨?_, ih hes⟩
    rintro ⟨n, hn⟩
    obtain ⟨k', rest, hp, hl⟩ := allEnts_mem_prefix dir es _ n hn
    have := List.append_cancel_left hp
    simp only [List.cons.injEq] at this
    obtain ⟨rfl, _⟩ := this
    simp [Option.isNone_iff_eq_none.mp hk] at hl
  | case3 dir k sub es ih1 ih2 =>
    rw [entsWf_cons, wf_dir] at hwf
    simp only [Bool.and_eq_true] at hwf
    obtain ⟨⟨⟨_, hk⟩, hsub⟩, hes⟩ := hwf
    have hk' : Ents.lookup k es = none := Option.isNone_iff_eq_none.mp hk
    simp only [List.map_cons, List.map_append, List.nodup_cons, List.mem_append, List.mem_map, Prod.exists,
      exists_and_right, exists_eq_right, not_or]
    refine ⟨⟨?_, ?_⟩, ?_⟩
    · rintro ⟨n, hn⟩
      obtain ⟨k', rest, hp, _⟩ := allEnts_mem_prefix _ sub _ n hn
      have : (dir ++ [k]).length = (dir ++ [k] ++ k' :: rest).length := by rw [← hp]
      simp at this
    · rintro ⟨n, hn⟩
      obtain ⟨k', rest, hp, hl⟩ := allEnts_mem_prefix dir es _ n hn
      have := List.append_cancel_left hp
      simp only [List.cons.injEq] at this
      obtain ⟨rfl, _⟩ := this
      simp [hk'] at hl
    · rw [List.nodup_append]
      refine ⟨ih1 hsub, ih2 hes, ?_⟩
      intro a ha b hb hab
      subst hab
      simp only [List.mem_map, Prod.exists, exists_and_right, exists_eq_right] at ha hb
      obtain ⟨n1, h1⟩ := ha
      obtain ⟨n2, h2⟩ := hb
      obtain ⟨k1, r1, hp1, _⟩ := allEnts_mem_prefix _ sub _ n1 h1
      obtain ⟨k2, r2, hp2, hl2⟩ := allEnts_mem_prefix dir es _ n2 h2
      rw [hp1, List.append_assoc] at hp2
      have := List.append_cancel_left hp2
      simp only [List.cons_append, List.nil_append, List.cons.injEq] at this
      obtain ⟨rfl, _⟩ := this
      simp [hk'] at hl2

/-- under well-formedness every enumerated pair is what `get` finds at that path -/
theorem allEnts_get (dir : WPath) (es : Ents) (hwf : entsWf es = true) (p : WPath) (n : Node)
    (h : (p, n) ∈ allEnts dir es) :
    ∃ rel, p = dir ++ rel ∧ rel ≠ [] ∧ Node.get rel (.dir es) = some n := by
  fun_induction allEnts dir es with
  | case1 dir => simp at h
  | case2 dir k b es ih =>
    rw [entsWf_cons] at hwf
    simp only [Bool.and_eq_true] at hwf
    obtain ⟨⟨⟨_, hk⟩, _⟩, hes⟩ := hwf
    have hk' : Ents.lookup k es = none := Option.isNone_iff_eq_none.mp hk
    simp only [List.mem_cons, Prod.mk.injEq] at h
    rcases h with ⟨rfl, rfl⟩ | h
    · exact ⟨[k], rfl, by simp, by simp [lookup_cons, Node.get]⟩
    · obtain ⟨rel, hp, hne, hg⟩ := ih hes h
      refine ⟨rel, hp, hne, ?_⟩
      cases rel with
      | nil => exact absurd rfl hne
      | cons c cs =>
        rw [get_cons_dir] at hg ⊢
        have hkc : k ≠ c := by intro e; subst e; rw [hk'] at hg; simp at hg
        rw [lookup_cons, if_neg hkc]; exact hg
  | case3 dir k sub es ih1 ih2 =>
    rw [entsWf_cons, wf_dir] at hwf
    simp only [Bool.and_eq_true] at hwf
    obtain ⟨⟨⟨_, hk⟩, hsub⟩, hes⟩ := hwf
    have hk' : Ents.lookup k es = none := Option.isNone_iff_eq_none.mp hk
    simp only [List.mem_cons, Prod.mk.injEq, List.mem_append] at h
    rcases h with ⟨rfl, rfl⟩ | h | h
    · exact ⟨[k], rfl, by simp, by simp [lookup_cons, Node.get]⟩
    · obtain ⟨rel, hp, hne, hg⟩ := ih1 hsub h
      refine ⟨k :: rel, by simp [hp], by simp, ?_⟩
      simp [get_cons_dir, lookup_cons, hg]
    · obtain ⟨rel, hp, hne, hg⟩ := ih2 hes h
      refine ⟨rel, hp, hne, ?_⟩
      cases rel with
      | nil => exact absurd rfl hne
      | cons c cs =>
        rw [get_cons_dir] at hg ⊢
        have hkc : k ≠ c := by intro e; subst e; rw [hk'] at hg; simp at hg
        rw [lookup_cons, if_neg hkc]; exact hg

/-- completeness: everything `get` can reach below a directory is enumerated -/
theorem get_allEnts (dir : WPath) (es : Ents) (rel : WPath) (n : Node) (hne : rel ≠ [])
    (hg : Node.get rel (.dir es) = some n) : (dir ++ rel, n) ∈ allEnts dir es := by
  fun_induction allEnts dir es generalizing rel with
  | case1 dir =>
    cases rel with
    | nil => exact absurd rfl hne
    | cons c cs => simp [get_cons_dir, Ents.lookup] at hg
  | case2 dir k b es ih =>
    cases rel with
    | nil => exact absurd rfl hne
    | cons c cs =>
      rw [get_cons_dir, lookup_cons] at hg
      split at hg
      · next h =>
        split at h
        · next hkc =>
          subst hkc
          simp only [Option.some.injEq] at h; subst h
          cases cs with
          | nil => simp only [Node.get, Option.some.injEq] at hg; subst hg; simp
          | cons c' cs' => simp [get_cons_file] at hg
        · refine List.mem_cons_of_mem _ (ih (c :: cs) (by simp) ?_)
          rw [get_cons_dir, h]; exact hg
      · simp at hg
  | case3 dir k sub es ih1 ih2 =>
    cases rel with
    | nil => exact absurd rfl hne
    | cons c cs =>
      rw [get_cons_dir, lookup_cons] at hg
      split at hg
      · next h =>
        split at h
        · next hkc =>
          subst hkc
          simp only [Option.some.injEq] at h; subst h
          cases cs with
          | nil => simp only [Node.get, Option.some.injEq] at hg; subst hg; simp
          | cons c' cs' =>
            have := ih1 (c' :: cs') (by simp) hg
            simp only [List.mem_cons, List.mem_append]
            right; left
            simpa using this
        · have := ih2 (c :: cs) (by simp) (by rw [get_cons_dir, h]; exact hg)
          simp only [List.mem_cons, List.mem_append]
          right; right; exact this
      · simp at hg

/-- the documented subset is a sub-sequence of the full enumeration -/
theorem selEnts_sublist (o : Opts) (d0 : Nat) (dir : WPath) (es : Ents) :
    (selEnts o d0 dir es).Sublist (allEnts dir es) := by
  fun_induction selEnts o d0 dir es with
  | case1 dir => simp [allEnts]
  | case2 dir k b es ih =>
    simp only [allEnts]
    split
    · exact List.Sublist.cons_cons _ ih
    · exact List.Sublist.cons _ ih
  | case3 dir k sub es ih1 ih2 =>
    simp only [allEnts]
    split
    · simp only [List.cons_append]
      refine List.Sublist.cons_cons _ (List.Sublist.append ?_ ih2)
      split
      · exact ih1
      · exact List.nil_sublist _
    · exact List.Sublist.cons _ (ih2.trans (List.sublist_append_right _ _))


/-! ### the documented subset, per resource (`chain`) -/

theorem chain_nil (o : Opts) (d0 : Nat) (n : Node) (dir : WPath) : chain o d0 n dir [] = false := by
  simp [chain]

theorem chain_single (o : Opts) (d0 : Nat) (n : Node) (dir : WPath) (k : Name) :
    chain o d0 n dir [k] = if n.isDir then dirSel o dir k else fileSel o dir k := by
  simp [chain]

theorem chain_cons2 (o : Opts) (d0 : Nat) (n : Node) (dir : WPath) (k k' : Name) (r : WPath) :
    chain o d0 n dir (k :: k' :: r) =
      (dirSel o dir k && depthOk o (relDepth d0 dir) && chain o d0 n (dir ++ [k]) (k' :: r)) := by
  simp [chain]

theorem get_cons_of_ne (k c : Name) (v : Node) (es : Ents) (cs : List Name) (h : k ≠ c) :
    Node.get (c :: cs) (.dir ((k, v) :: es)) = Node.get (c :: cs) (.dir es) := by
  rw [get_cons_dir, get_cons_dir, lookup_cons, if_neg h]

theorem get_cons_self (k : Name) (v : Node) (es : Ents) (cs : List Name) :
    Node.get (k :: cs) (.dir ((k, v) :: es)) = Node.get cs v := by
  rw [get_cons_dir, lookup_cons, if_pos rfl]

/-- if `get` succeeds below `es` along `c :: cs` and `k` is not listed in `es`, then `c ≠ k` -/
theorem ne_of_get (k c : Name) (es : Ents) (cs : List Name) (n : Node)
    (hk : Ents.lookup k es = none) (hg : Node.get (c :: cs) (.dir es) = some n) : k ≠ c := by
  intro e; subst e; rw [get_cons_dir, hk] at hg; simp at hg

theorem selEnts_mem_iff (o : Opts) (d0 : Nat) (dir : WPath) (es : Ents) (hwf : entsWf es = true)
    (p : WPath) (n : Node) :
    (p, n) ∈ selEnts o d0 dir es ↔
      ∃ rel, p = dir ++ rel ∧ Node.get rel (.dir es) = some n ∧ chain o d0 n dir rel = true := by
  fun_induction selEnts o d0 dir es with
  | case1 dir =>
    simp only [List.not_mem_nil, false_iff, not_exists, not_and]
    intro rel _ hg
    cases rel with
    | nil => simp [chain_nil]
    | cons c cs => simp [get_cons_dir, Ents.lookup] at hg
  | case2 dir k b es ih =>
    rw [entsWf_cons] at hwf
    simp only [Bool.and_eq_true] at hwf
    obtain ⟨⟨⟨_, hk⟩, _⟩, hes⟩ := hwf
    have hk' : Ents.lookup k es = none := Option.isNone_iff_eq_none.mp hk
    rw [List.mem_append, ih hes]
    constructor
    · rintro (h | ⟨rel, hp, hg, hc⟩)
      · split at h
        · next hf =>
          simp only [List.mem_singleton, Prod.mk.injEq] at h
          obtain ⟨rfl, rfl⟩ := h
          exact ⟨[k], rfl, by rw [get_cons_self]; rfl, by simp [chain_single, Node.isDir, hf]⟩
        · simp at h
      · cases rel with
        | nil => simp [chain_nil] at hc
        | cons c cs =>
          exact ⟨c :: cs, hp, by rw [get_cons_of_ne _ _ _ _ _ (ne_of_get k c es cs n hk' hg)]; exact hg, hc⟩
    · rintro ⟨rel, hp, hg, hc⟩
      cases rel with
      | nil => simp [chain_nil] at hc
      | cons c cs =>
        by_cases hkc : k = c
        · subst hkc
          rw [get_cons_self] at hg
          cases cs with
          | nil =>
            simp only [Node.get, Option.some.injEq] at hg; subst hg
            simp only [chain_single, Node.isDir, Bool.false_eq_true, if_false] at hc
            left; simp [hc, hp]
          | cons c' r => simp [get_cons_file] at hg
        · right
          exact ⟨c :: cs, hp, by rw [get_cons_of_ne _ _ _ _ _ hkc] at hg; exact hg, hc⟩
  | case3 dir k sub es ih1 ih2 =>
    rw [entsWf_cons, wf_dir] at hwf
    simp only [Bool.and_eq_true] at hwf
    obtain ⟨⟨⟨_, hk⟩, hsub⟩, hes⟩ := hwf
    have hk' : Ents.lookup k es = none := Option.isNone_iff_eq_none.mp hk
    rw [List.mem_append, ih2 hes]
    constructor
    · rintro (h | ⟨rel, hp, hg, hc⟩)
      · split at h
        · next hd =>
          rw [List.mem_cons] at h
          rcases h with h | h
          · simp only [Prod.mk.injEq] at h
            obtain ⟨rfl, rfl⟩ := h
            exact ⟨[k], rfl, by rw [get_cons_self]; rfl, by simp [chain_single, Node.isDir, hd]⟩
          · split at h
            · next hdep =>
              obtain ⟨rel, hp, hg, hc⟩ := (ih1 hsub).mp h
              cases rel with
              | nil => simp [chain_nil] at hc
              | cons c' r =>
                exact ⟨k :: c' :: r, by simp [hp], by rw [get_cons_self]; exact hg,
                  by simp [chain_cons2, hd, hdep, hc]⟩
            · simp at h
        · simp at h
      · cases rel with
        | nil => simp [chain_nil] at hc
        | cons c cs =>
          exact ⟨c :: cs, hp, by rw [get_cons_of_ne _ _ _ _ _ (ne_of_get k c es cs n hk' hg)]; exact hg, hc⟩
    · rintro ⟨rel, hp, hg, hc⟩
      cases rel with
      | nil => simp [chain_nil] at hc
      | cons c cs =>
        by_cases hkc : k = c
        · subst hkc
          rw [get_cons_self] at hg
          left
          cases cs with
          | nil =>
            simp only [Node.get, Option.some.injEq] at hg; subst hg
            simp only [chain_single, Node.isDir, if_true] at hc
            simp [hc, hp]
          | cons c' r =>
            simp only [chain_cons2, Bool.and_eq_true] at hc
            obtain ⟨⟨hd, hdep⟩, hc⟩ := hc
            simp only [hd, hdep, if_true, List.mem_cons]
            right
            exact (ih1 hsub).mpr ⟨c' :: r, by simp [hp], hg, hc⟩
        · right
          exact ⟨c :: cs, hp, by rw [get_cons_of_ne _ _ _ _ _ hkc] at hg; exact hg, hc⟩

/-- nothing is selected below a directory that `_check_open_dir` rejects, nor below one that is not
scanned: every proper ancestor on the way to a selected resource was opened and scanned -/
theorem chain_ancestors (o : Opts) (d0 : Nat) (n : Node) (dir a : WPath) (k : Name) (b : WPath)
    (hb : b ≠ []) (h : chain o d0 n dir (a ++ k :: b) = true) :
    dirSel o (dir ++ a) k = true ∧ depthOk o (relDepth d0 (dir ++ a)) = true := by
  induction a generalizing dir with
  | nil =>
    cases b with
    | nil => exact absurd rfl hb
    | cons k' r =>
      simp only [List.nil_append, chain_cons2, Bool.and_eq_true] at h
      simpa using h.1
  | cons c cs ih =>
    cases hcs : cs ++ k :: b with
    | nil => simp at hcs
    | cons k' r =>
      simp only [List.cons_append, hcs, chain_cons2, Bool.and_eq_true] at h
      have := ih (dir ++ [c]) (by rw [hcs]; exact h.2)
      simpa using this

/-! ### single-option readings of `chain` -/

theorem relOf_eq (start rel p : WPath) (h : p = start ++ rel) : relOf start p = rel := by
  simp [relOf, h]


theorem dirComps_cons2 (n : Node) (k k' : Name) (r : WPath) :
    dirComps n (k :: k' :: r) = k :: dirComps n (k' :: r) := by
  unfold dirComps; split <;> simp [List.dropLast]

/-- options that never prune: the test of the last component decides -/
theorem chain_noprune (o : Opts) (d0 : Nat) (n : Node) (hdir : ∀ d k, dirSel o d k = true)
    (hdep : ∀ r, depthOk o r = true) (dir rel : WPath) (hne : rel ≠ []) :
    chain o d0 n dir rel = (n.isDir || fileSel o (dir ++ rel.dropLast) (rel.getLast hne)) := by
  induction rel generalizing dir with
  | nil => exact absurd rfl hne
  | cons k r ih =>
    cases r with
    | nil =>
      rw [chain_single]
      cases n.isDir <;> simp [hdir]
    | cons k' r' =>
      rw [chain_cons2, hdir, hdep, ih (dir ++ [k]) (by simp)]
      simp [List.dropLast, List.getLast_cons]

/-- only name tests on directories (`filter_dirs` / `exclude_dirs`): every directory name on the
way must pass -/
theorem chain_dirsOnly (o : Opts) (d0 : Nat) (n : Node) (g : Name → Bool)
    (hdir : ∀ d k, dirSel o d k = g k) (hfile : ∀ d k, fileSel o d k = true)
    (hdep : ∀ r, depthOk o r = true) (dir rel : WPath) (hne : rel ≠ []) :
    chain o d0 n dir rel = (dirComps n rel).all g := by
  induction rel generalizing dir with
  | nil => exact absurd rfl hne
  | cons k r ih =>
    cases r with
    | nil =>
      rw [chain_single]
      unfold dirComps
      cases n.isDir <;> simp [hdir, hfile]
    | cons k' r' =>
      rw [chain_cons2, hdir, hdep, ih (dir ++ [k]) (by simp), dirComps_cons2]
      simp

/-- only `max_depth = m`: a resource at relative depth `L` is selected iff `L = 1 ∨ L ≤ m` -/
theorem chain_maxDepth (o : Opts) (d0 : Nat) (n : Node) (m : Int)
    (hdir : ∀ d k, dirSel o d k = true) (hfile : ∀ d k, fileSel o d k = true)
    (hdep : ∀ r, depthOk o r = decide (r < m)) (dir rel : WPath) (hne : rel ≠ []) :
    chain o d0 n dir rel =
      decide (rel.length = 1 ∨ (dir.length : Int) - (d0 : Int) + (rel.length : Int) ≤ m) := by
  induction rel generalizing dir with
  | nil => exact absurd rfl hne
  | cons k r ih =>
    cases r with
    | nil =>
      rw [chain_single]
      cases n.isDir <;> simp [hdir, hfile]
    | cons k' r' =>
      rw [chain_cons2, hdir, hdep, ih (dir ++ [k]) (by simp)]
      rw [Bool.eq_iff_iff]
      simp only [Bool.true_and, Bool.and_eq_true, decide_eq_true_eq]
      simp only [relDepth, List.length_append, List.length_cons, List.length_nil]
      constructor
      · rintro ⟨h1, h2 | h2⟩
        · right; omega
        · right; omega
      · rintro (h | h)
        · omega
        · refine ⟨by omega, ?_⟩
          right; omega

/-- no option at all: the documented subset is everything below the directory -/
theorem selEnts_none (d0 : Nat) (dir : WPath) (es : Ents) : selEnts {} d0 dir es = allEnts dir es := by
  fun_induction allEnts dir es with
  | case1 dir => simp [selEnts]
  | case2 dir k b es ih => simp [selEnts, fileSel, optAll, optAny, globFileOk, ih]
  | case3 dir k sub es ih1 ih2 => simp [selEnts, dirSel, depthOk, optAll, optAny, globDirOk, ih1, ih2]

theorem chain_none (d0 : Nat) (n : Node) (dir rel : WPath) (hne : rel ≠ []) : chain {} d0 n dir rel = true := by
  rw [chain_noprune {} d0 n (by intros; simp [dirSel, optAll, optAny, globDirOk]) (by intros; simp [depthOk]) dir rel hne]
  simp [fileSel, optAll, optAny, globFileOk]

/-! ### well-formedness is inherited; order of the post-order enumeration -/

theorem lookup_wf (c : Name) (es : Ents) (ch : Node) (hwf : entsWf es = true)
    (h : Ents.lookup c es = some ch) : ch.wf = true := by
  induction es with
  | nil => simp [Ents.lookup] at h
  | cons e es ih =>
    obtain ⟨k, v⟩ := e
    rw [entsWf_cons] at hwf
    simp only [Bool.and_eq_true] at hwf
    rw [lookup_cons] at h
    split at h
    · simp only [Option.some.injEq] at h; subst h; exact hwf.1.2
    · exact ih hwf.2 h

theorem wf_get (p : List Name) (t n : Node) (hwf : t.wf = true) (h : Node.get p t = some n) : n.wf = true := by
  induction p generalizing t with
  | nil => simp only [Node.get, Option.some.injEq] at h; subst h; exact hwf
  | cons c cs ih =>
    cases t with
    | file b => simp [get_cons_file] at h
    | dir es =>
      rw [get_cons_dir] at h
      rw [wf_dir] at hwf
      cases hl : Ents.lookup c es with
      | none => simp [hl] at h
      | some ch =>
        simp only [hl] at h
        exact ih ch (lookup_wf c es ch hwf hl) h

theorem selEntsPost_mem_prefix (o : Opts) (d0 : Nat) (dir : WPath) (es : Ents) (x : WPath × Node)
    (h : x ∈ selEntsPost o d0 dir es) : ∃ k rest, x.1 = dir ++ k :: rest ∧ (Ents.lookup k es).isSome := by
  have h1 : x ∈ selEnts o d0 dir es := (selEntsPost_perm o d0 dir es).mem_iff.mp h
  have h2 : x ∈ allEnts dir es := (selEnts_sublist o d0 dir es).subset h1
  exact allEnts_mem_prefix dir es x.1 x.2 h2

theorem not_prefix_of_ne (dir : WPath) (k k' : Name) (a b : WPath) (h : k ≠ k') :
    ¬ (dir ++ k :: a) <+: (dir ++ k' :: b) := by
  intro hp
  rw [List.prefix_append_right_inj] at hp
  obtain ⟨t, ht⟩ := hp
  simp only [List.cons_append, List.cons.injEq] at ht
  exact h ht.1

theorem not_prefix_of_longer (a b : WPath) (h : b.length < a.length) : ¬ a <+: b := by
  intro hp
  have := hp.length_le
  omega

/-- in the post-order enumeration nothing that comes later lies at or below something earlier:
a directory is enumerated only after everything selected inside it -/
theorem selEntsPost_pairwise (o : Opts) (d0 : Nat) (dir : WPath) (es : Ents) (hwf : entsWf es = true) :
    (selEntsPost o d0 dir es).Pairwise (fun x y => ¬ x.1 <+: y.1) := by
  fun_induction selEntsPost o d0 dir es with
  | case1 dir => simp
  | case2 dir k b es ih =>
    rw [entsWf_cons] at hwf
    simp only [Bool.and_eq_true] at hwf
    obtain ⟨⟨⟨_, hk⟩, _⟩, hes⟩ := hwf
    have hk' : Ents.lookup k es = none := Option.isNone_iff_eq_none.mp hk
    rw [List.pairwise_append]
    refine ⟨?_, ih hes, ?_⟩
    · split <;> simp
    · intro x hx y hy
      split at hx
      · simp only [List.mem_singleton] at hx; subst hx
        obtain ⟨k', rest, hp, hl⟩ := selEntsPost_mem_prefix o d0 dir es y hy
        rw [hp]
        exact not_prefix_of_ne dir k k' [] rest (by intro e; subst e; simp [hk'] at hl)
      · simp at hx
  | case3 dir k sub es ih1 ih2 =>
    rw [entsWf_cons, wf_dir] at hwf
    simp only [Bool.and_eq_true] at hwf
    obtain ⟨⟨⟨_, hk⟩, hsub⟩, hes⟩ := hwf
    have hk' : Ents.lookup k es = none := Option.isNone_iff_eq_none.mp hk
    rw [List.pairwise_append]
    refine ⟨?_, ih2 hes, ?_⟩
    · split
      · rw [List.pairwise_append]
        refine ⟨?_, by simp, ?_⟩
        · split
          · exact ih1 hsub
          · simp
        · intro x hx y hy
          simp only [List.mem_singleton] at hy; subst hy
          split at hx
          · obtain ⟨k', rest, hp, _⟩ := selEntsPost_mem_prefix o d0 _ sub x hx
            rw [hp]
            exact not_prefix_of_longer _ _ (by simp)
          · simp at hx
      · simp
    · intro x hx y hy
      obtain ⟨k', rest, hp, hl⟩ := selEntsPost_mem_prefix o d0 dir es y hy
      have hne : k ≠ k' := by intro e; subst e; simp [hk'] at hl
      rw [hp]
      split at hx
      · rw [List.mem_append] at hx
        rcases hx with hx | hx
        · split at hx
          · obtain ⟨k1, r1, hp1, _⟩ := selEntsPost_mem_prefix o d0 _ sub x hx
            rw [hp1, List.append_assoc]
            exact not_prefix_of_ne dir k k' _ rest hne
          · simp at hx
        · simp only [List.mem_singleton] at hx; subst hx
          exact not_prefix_of_ne dir k k' [] rest hne
      · simp at hx

/-- the last component of a selected relative path passed its own test -/
theorem chain_last (o : Opts) (d0 : Nat) (n : Node) (dir a : WPath) (k : Name)
    (h : chain o d0 n dir (a ++ [k]) = true) :
    (if n.isDir then dirSel o (dir ++ a) k else fileSel o (dir ++ a) k) = true := by
  induction a generalizing dir with
  | nil => simpa [chain_single] using h
  | cons c cs ih =>
    cases hcs : cs ++ [k] with
    | nil => simp at hcs
    | cons k' r =>
      simp only [List.cons_append, hcs, chain_cons2, Bool.and_eq_true] at h
      have := ih (dir ++ [c]) (by rw [hcs]; exact h.2)
      simpa using this

/-- the documented subset without any recursion: every proper ancestor directory below the start is
opened and scanned, and the last component passes its own test -/
theorem chain_iff (o : Opts) (d0 : Nat) (n : Node) (dir rel : WPath) :
    chain o d0 n dir rel = true ↔
      rel ≠ [] ∧
      (∀ a k b, rel = a ++ k :: b → b ≠ [] →
        dirSel o (dir ++ a) k = true ∧ depthOk o (relDepth d0 (dir ++ a)) = true) ∧
      (∀ a k, rel = a ++ [k] →
        (if n.isDir then dirSel o (dir ++ a) k else fileSel o (dir ++ a) k) = true) := by
  constructor
  · intro h
    refine ⟨by intro e; subst e; simp [chain_nil] at h, ?_, ?_⟩
    · intro a k b hr hb; subst hr; exact chain_ancestors o d0 n dir a k b hb h
    · intro a k hr; subst hr; exact chain_last o d0 n dir a k h
  · rintro ⟨hne, hanc, hlast⟩
    induction rel generalizing dir with
    | nil => exact absurd rfl hne
    | cons k r ih =>
      cases r with
      | nil =>
        rw [chain_single]
        simpa using hlast [] k rfl
      | cons k' r' =>
        rw [chain_cons2]
        have h0 := hanc [] k (k' :: r') rfl (by simp)
        simp only [List.append_nil] at h0
        simp only [h0.1, h0.2, Bool.true_and]
        refine ih (dir ++ [k]) (by simp) ?_ ?_
        · intro a k'' b hr hb
          have := hanc (k :: a) k'' b (by simp [hr]) hb
          simpa using this
        · intro a k'' hr
          have := hlast (k :: a) k'' (by simp [hr])
          simpa using this

/-! ### files / dirs as projections -/

theorem files_proj (evs : List Event) :
    evs.filterMap (fun e => match e.2 with
      | some i => if !i.2.isDir then some (e.1 ++ [i.1]) else none
      | none => none) = ((resources evs).filter (fun r => !r.2.isDir)).map (·.1) := by
  induction evs with
  | nil => rfl
  | cons e evs ih =>
    obtain ⟨d, i⟩ := e
    cases i with
    | none => rw [resources_cons_none, ← ih]; rfl
    | some i =>
      rw [resources_cons_some, List.filterMap_cons]
      cases hd : i.2.isDir
      · simp only [hd, Bool.not_false, if_true, List.filter_cons, List.map_cons]
        rw [ih]
      · simp only [hd, Bool.not_true, Bool.false_eq_true, if_false, List.filter_cons]
        rw [ih]

theorem dirs_proj (evs : List Event) :
    evs.filterMap (fun e => match e.2 with
      | some i => if i.2.isDir then some (e.1 ++ [i.1]) else none
      | none => none) = ((resources evs).filter (fun r => r.2.isDir)).map (·.1) := by
  induction evs with
  | nil => rfl
  | cons e evs ih =>
    obtain ⟨d, i⟩ := e
    cases i with
    | none => rw [resources_cons_none, ← ih]; rfl
    | some i =>
      rw [resources_cons_some, List.filterMap_cons]
      cases hd : i.2.isDir
      · simp only [hd, Bool.false_eq_true, if_false, List.filter_cons]
        rw [ih]
      · simp only [hd, if_true, List.filter_cons, List.map_cons]
        rw [ih]

/-! ### `Walker.walk`: regrouping the events into Steps -/

def pendFlat (p : Pending) : List (WPath × Info) := p.flatMap (fun kv => kv.2.map (fun i => (kv.1, i)))

def pendKeys (p : Pending) : List WPath := p.map (·.1)

theorem mem_keys_pendAdd (d : WPath) (i : Info) (p : Pending) (k : WPath) :
    k ∈ pendKeys (pendAdd d i p) ↔ k = d ∨ k ∈ pendKeys p := by
  induction p with
  | nil => simp [pendAdd, pendKeys]
  | cons kv r ih =>
    obtain ⟨k', v⟩ := kv
    simp only [pendAdd]
    split
    · next h => subst h; simp [pendKeys]
    · simp only [pendKeys, List.map_cons, List.mem_cons] at ih ⊢
      rw [ih]
      constructor
      · rintro (h | h | h)
        · right; left; exact h
        · left; exact h
        · right; right; exact h
      · rintro (h | h | h)
        · right; left; exact h
        · left; exact h
        · right; right; exact h

theorem nodup_keys_pendAdd (d : WPath) (i : Info) (p : Pending) (h : (pendKeys p).Nodup) :
    (pendKeys (pendAdd d i p)).Nodup := by
  induction p with
  | nil => simp [pendAdd, pendKeys]
  | cons kv r ih =>
    obtain ⟨k', v⟩ := kv
    simp only [pendKeys, List.map_cons, List.nodup_cons] at h
    simp only [pendAdd]
    split
    · next hk => subst hk; simpa [pendKeys] using h
    · next hk =>
      simp only [pendKeys, List.map_cons, List.nodup_cons]
      refine ⟨?_, ih h.2⟩
      intro hm
      have := (mem_keys_pendAdd d i r k').mp hm
      rcases this with h1 | h1
      · exact hk h1
      · exact h.1 h1

theorem pendFlat_add (d : WPath) (i : Info) (p : Pending) :
    (pendFlat (pendAdd d i p)).Perm (pendFlat p ++ [(d, i)]) := by
  induction p with
  | nil => simp [pendAdd, pendFlat]
  | cons kv r ih =>
    obtain ⟨k', v⟩ := kv
    simp only [pendAdd]
    split
    · next h =>
      subst h
      simp only [pendFlat, List.flatMap_cons, List.map_append, List.map_cons, List.map_nil, List.append_assoc]
      exact List.Perm.append_left _ List.perm_append_comm
    · simp only [pendFlat, List.flatMap_cons, List.append_assoc] at ih ⊢
      exact List.Perm.append_left _ ih

theorem mem_keys_pendDel (d : WPath) (p : Pending) (k : WPath) :
    k ∈ pendKeys (pendDel d p) ↔ k ≠ d ∧ k ∈ pendKeys p := by
  induction p with
  | nil => simp [pendDel, pendKeys]
  | cons kv r ih =>
    obtain ⟨k', v⟩ := kv
    simp only [pendDel, pendKeys] at ih
    by_cases hk : k' = d
    · subst hk
      simp only [pendDel, pendKeys, List.filter_cons, ne_eq, not_true_eq_false, decide_false,
        Bool.false_eq_true, if_false, List.map_cons, List.mem_cons]
      rw [ih]
      constructor
      · rintro ⟨h1, h2⟩; exact ⟨h1, Or.inr h2⟩
      · rintro ⟨h1, h2 | h2⟩
        · exact absurd h2 h1
        · exact ⟨h1, h2⟩
    · simp only [pendDel, pendKeys, List.filter_cons, ne_eq, hk, not_false_eq_true, decide_true, if_true,
        List.map_cons, List.mem_cons]
      rw [ih]
      constructor
      · rintro (h | ⟨h1, h2⟩)
        · subst h; exact ⟨hk, Or.inl rfl⟩
        · exact ⟨h1, Or.inr h2⟩
      · rintro ⟨h1, h2 | h2⟩
        · exact Or.inl h2
        · exact Or.inr ⟨h1, h2⟩

theorem nodup_keys_pendDel (d : WPath) (p : Pending) (h : (pendKeys p).Nodup) :
    (pendKeys (pendDel d p)).Nodup :=
  (List.Sublist.map _ (List.filter_sublist (l := p))).nodup h

theorem pendDel_of_not_mem (d : WPath) (p : Pending) (h : d ∉ pendKeys p) : pendDel d p = p := by
  simp only [pendDel, List.filter_eq_self, decide_eq_true_eq]
  intro kv hkv e
  exact h (by simp only [pendKeys, List.mem_map]; exact ⟨kv, hkv, e⟩)

theorem pendFlat_get_del (d : WPath) (p : Pending) (h : (pendKeys p).Nodup) :
    (pendFlat p).Perm ((pendGet d p).map (fun i => (d, i)) ++ pendFlat (pendDel d p)) := by
  induction p with
  | nil => simp [pendGet, pendDel, pendFlat]
  | cons kv r ih =>
    obtain ⟨k', v⟩ := kv
    simp only [pendKeys, List.map_cons, List.nodup_cons] at h
    simp only [pendGet]
    split
    · next hk =>
      subst hk
      have : pendDel k' ((k', v) :: r) = r := by
        have hr := pendDel_of_not_mem k' r h.1
        simp only [pendDel] at hr ⊢
        rw [List.filter_cons]
        simp only [ne_eq, not_true_eq_false, decide_false, Bool.false_eq_true, if_false]
        exact hr
      rw [this]
      simp [pendFlat]
    · next hk =>
      have : pendDel d ((k', v) :: r) = (k', v) :: pendDel d r := by
        simp [pendDel, hk]
      rw [this]
      simp only [pendFlat, List.flatMap_cons] at ih ⊢
      refine (List.Perm.append_left _ (ih h.2)).trans ?_
      rw [← List.append_assoc, ← List.append_assoc]
      exact List.Perm.append_right _ List.perm_append_comm

theorem filter_split_perm {α : Type} (q : α → Bool) (l : List α) :
    (l.filter q ++ l.filter (fun x => !q x)).Perm l := by
  induction l with
  | nil => simp
  | cons a l ih =>
    cases h : q a
    · simp only [List.filter_cons, h, Bool.false_eq_true, if_false, Bool.not_false, if_true]
      exact (List.perm_middle).trans (List.Perm.cons _ ih)
    · simp only [List.filter_cons, h, if_true, Bool.not_true, Bool.false_eq_true, if_false, List.cons_append]
      exact List.Perm.cons _ ih

@[simp] theorem infoEvents_cons_some (d : WPath) (i : Info) (evs : List Event) :
    infoEvents ((d, some i) :: evs) = (d, i) :: infoEvents evs := by simp [infoEvents]
@[simp] theorem infoEvents_cons_none (d : WPath) (evs : List Event) :
    infoEvents ((d, none) :: evs) = infoEvents evs := by simp [infoEvents]

/-- conservation: the Steps plus what is left in `dir_info` hold exactly the info events seen
(plus what `dir_info` held before) -/
theorem regroup_conserves (evs : List Event) (p : Pending) (h : (pendKeys p).Nodup) :
    ((regroup evs p).1.flatMap stepFlat ++ pendFlat (regroup evs p).2).Perm (pendFlat p ++ infoEvents evs) := by
  induction evs generalizing p with
  | nil => simp [regroup, infoEvents]
  | cons e evs ih =>
    obtain ⟨d, i⟩ := e
    cases i with
    | none =>
      simp only [regroup, List.flatMap_cons, infoEvents_cons_none, List.append_assoc]
      have h1 := ih (pendDel d p) (nodup_keys_pendDel d p h)
      have h2 := pendFlat_get_del d p h
      have h3 : (stepFlat ⟨d, (pendGet d p).filter (fun i => i.2.isDir), (pendGet d p).filter (fun i => !i.2.isDir)⟩).Perm
          ((pendGet d p).map (fun i => (d, i))) := by
        simp only [stepFlat]
        exact (filter_split_perm _ _).map _
      refine (List.Perm.append h3 h1).trans ?_
      rw [← List.append_assoc]
      exact List.Perm.append_right _ h2.symm
    | some i =>
      simp only [regroup, infoEvents_cons_some]
      refine (ih (pendAdd d i p) (nodup_keys_pendAdd d i p h)).trans ?_
      refine (List.Perm.append_right _ (pendFlat_add d i p)).trans ?_
      simp

theorem regroup_paths (evs : List Event) (p : Pending) :
    (regroup evs p).1.map (·.path) = markers evs := by
  induction evs generalizing p with
  | nil => simp [regroup, markers]
  | cons e evs ih =>
    obtain ⟨d, i⟩ := e
    cases i with
    | none => simpa [regroup, markers] using ih (pendDel d p)
    | some i => simpa [regroup, markers] using ih (pendAdd d i p)

theorem regroup_kinds (evs : List Event) (p : Pending) :
    ∀ s ∈ (regroup evs p).1, (∀ i ∈ s.dirs, i.2.isDir = true) ∧ (∀ i ∈ s.files, i.2.isDir = false) := by
  induction evs generalizing p with
  | nil => simp [regroup]
  | cons e evs ih =>
    obtain ⟨d, i⟩ := e
    cases i with
    | none =>
      intro s hs
      simp only [regroup, List.mem_cons] at hs
      rcases hs with rfl | hs
      · simp [List.mem_filter]
      · exact ih _ s hs
    | some i => simpa [regroup] using ih (pendAdd d i p)

/-- every info event is later followed by the end marker of its directory -/
def closed : List Event → Prop
  | [] => True
  | (d, some _) :: evs => (d, none) ∈ evs ∧ closed evs
  | (_, none) :: evs => closed evs

theorem regroup_final_empty (evs : List Event) (p : Pending) (hc : closed evs)
    (hk : ∀ k ∈ pendKeys p, ((k, none) : Event) ∈ evs) : (regroup evs p).2 = [] := by
  induction evs generalizing p with
  | nil =>
    cases p with
    | nil => rfl
    | cons kv r => exact absurd (hk kv.1 (by simp [pendKeys])) (by simp)
  | cons e evs ih =>
    obtain ⟨d, i⟩ := e
    cases i with
    | none =>
      simp only [regroup]
      refine ih _ hc ?_
      intro k hkm
      obtain ⟨hne, hm⟩ := (mem_keys_pendDel d p k).mp hkm
      have := hk k hm
      simp only [List.mem_cons, Prod.mk.injEq, and_true] at this
      rcases this with h | h
      · exact absurd h hne
      · exact h
    | some i =>
      simp only [regroup]
      refine ih _ hc.2 ?_
      intro k hkm
      rcases (mem_keys_pendAdd d i p k).mp hkm with h | h
      · subst h; exact hc.1
      · have := hk k h
        simpa using this

theorem closed_append_marker (a : List Event) (d : WPath) (rest : List Event)
    (ha : ∀ e ∈ a, e.1 = d) (hr : closed rest) : closed (a ++ (d, none) :: rest) := by
  induction a with
  | nil => exact hr
  | cons e a ih =>
    obtain ⟨d', i⟩ := e
    have hd : d' = d := ha (d', i) (by simp)
    subst hd
    have ih' := ih (fun e he => ha e (by simp [he]))
    cases i with
    | none => exact ih'
    | some i => exact ⟨by simp, ih'⟩

theorem scanBreadth_dir (o : Opts) (d0 : Nat) (dir : WPath) (es : Ents) :
    ∀ e ∈ (scanBreadth o d0 dir es).1, e.1 = dir := by
  induction es with
  | nil => simp [scanBreadth]
  | cons e es ih =>
    obtain ⟨k, v⟩ := e
    cases v with
    | file b =>
      simp only [scanBreadth]
      split
      · intro e he
        simp only [List.mem_cons] at he
        rcases he with rfl | he
        · rfl
        · exact ih e he
      · exact ih
    | dir sub =>
      simp only [scanBreadth]
      split
      · intro e he
        simp only [List.mem_cons] at he
        rcases he with rfl | he
        · rfl
        · exact ih e he
      · exact ih

theorem walkBreadth_closed (o : Opts) (d0 : Nat) (q : Queue) : closed (walkBreadth o d0 q) := by
  fun_induction walkBreadth o d0 q with
  | case1 => trivial
  | case2 dir es q r ih => exact closed_append_marker _ dir _ (scanBreadth_dir o d0 dir es) ih

/-- the parent marker of a frame names the directory of the frame below it -/
def stackOk : List Frame → Prop
  | [] => True
  | (_, _, par) :: st => (∀ pd i, par = some (pd, i) → ∃ f st', st = f :: st' ∧ f.1 = pd) ∧ stackOk st

theorem walkDepth_closed (o : Opts) (d0 : Nat) (st : List Frame) (hok : stackOk st) :
    closed (walkDepth o d0 st) ∧ ∀ f ∈ st, ((f.1, none) : Event) ∈ walkDepth o d0 st := by
  fun_induction walkDepth o d0 st with
  | case1 => exact ⟨trivial, by simp⟩
  | case2 dir parent st ih =>
    obtain ⟨hc, hm⟩ := ih hok.2
    cases parent with
    | none =>
      refine ⟨by simpa [closed] using hc, ?_⟩
      intro f hf
      simp only [List.mem_cons] at hf
      rcases hf with rfl | hf
      · simp
      · simp [hm f hf]
    | some p =>
      obtain ⟨pd, i⟩ := p
      obtain ⟨f, st', hst, hfd⟩ := hok.1 pd i rfl
      have hpm : ((pd, none) : Event) ∈ walkDepth o d0 st := by
        rw [← hfd]; exact hm f (by simp [hst])
      refine ⟨?_, ?_⟩
      · simp only [List.cons_append, List.nil_append, closed]
        exact ⟨by simp [hpm], hc⟩
      · intro f' hf'
        simp only [List.mem_cons] at hf'
        rcases hf' with rfl | hf'
        · simp
        · simp [hm f' hf']
  | case3 dir k sub es parent st h1 h2 ih =>
    have hok' : stackOk ((dir ++ [k], sub, some (dir, (k, Node.dir sub))) :: (dir, es, parent) :: st) := by
      refine ⟨?_, hok.1, hok.2⟩
      intro pd i hp
      simp only [Option.some.injEq, Prod.mk.injEq] at hp
      exact ⟨(dir, es, parent), st, rfl, hp.1⟩
    obtain ⟨hc, hm⟩ := ih hok'
    refine ⟨hc, ?_⟩
    intro f hf
    simp only [List.mem_cons] at hf
    rcases hf with rfl | hf
    · exact hm (dir, es, parent) (by simp)
    · exact hm f (by simp [hf])
  | case4 dir k sub es parent st h1 h2 ih =>
    obtain ⟨hc, hm⟩ := ih ⟨hok.1, hok.2⟩
    refine ⟨⟨hm (dir, es, parent) (by simp), hc⟩, ?_⟩
    intro f hf
    simp only [List.mem_cons] at hf
    rcases hf with rfl | hf
    · exact List.mem_cons_of_mem _ (hm (dir, es, parent) (by simp))
    · exact List.mem_cons_of_mem _ (hm f (by simp [hf]))
  | case5 dir k sub es parent st h1 ih =>
    obtain ⟨hc, hm⟩ := ih ⟨hok.1, hok.2⟩
    refine ⟨hc, ?_⟩
    intro f hf
    simp only [List.mem_cons] at hf
    rcases hf with rfl | hf
    · exact hm (dir, es, parent) (by simp)
    · exact hm f (by simp [hf])
  | case6 dir k b es parent st h1 ih =>
    obtain ⟨hc, hm⟩ := ih ⟨hok.1, hok.2⟩
    refine ⟨⟨hm (dir, es, parent) (by simp), hc⟩, ?_⟩
    intro f hf
    simp only [List.mem_cons] at hf
    rcases hf with rfl | hf
    · exact List.mem_cons_of_mem _ (hm (dir, es, parent) (by simp))
    · exact List.mem_cons_of_mem _ (hm f (by simp [hf]))
  | case7 dir k b es parent st h1 ih =>
    obtain ⟨hc, hm⟩ := ih ⟨hok.1, hok.2⟩
    refine ⟨hc, ?_⟩
    intro f hf
    simp only [List.mem_cons] at hf
    rcases hf with rfl | hf
    · exact hm (dir, es, parent) (by simp)
    · exact hm f (by simp [hf])

theorem resources_eq_infoEvents (evs : List Event) :
    resources evs = (infoEvents evs).map (fun x => (x.1 ++ [x.2.1], x.2.2)) := by
  induction evs with
  | nil => rfl
  | cons e evs ih =>
    obtain ⟨d, i⟩ := e
    cases i with
    | none => simpa using ih
    | some i => simp [ih]

/-! ### `filter_glob`: pruning by prefix acceptance is sound when prefix acceptance is complete -/

theorem chain_glob_complete (o : Opts) (g : GlobFilter) (ho : o.filterGlob = some g)
    (hpc : PrefixComplete g) (d0 : Nat) (b : Bytes) (dir a : WPath) (name : Name)
    (hother : chain { o with filterGlob := none } d0 (.file b) dir (a ++ [name]) = true)
    (hex : g.exact (fileGlobPath (dir ++ a) name) = true) :
    chain o d0 (.file b) dir (a ++ [name]) = true := by
  induction a generalizing dir with
  | nil =>
    simp only [List.nil_append, chain_single, Node.isDir, Bool.false_eq_true, if_false, List.append_nil] at hother hex ⊢
    simp only [fileSel, globFileOk, Bool.and_true, Bool.and_eq_true] at hother
    simp only [fileSel, globFileOk, ho, Bool.and_eq_true]
    exact ⟨⟨⟨hother.1.1, hother.1.2⟩, hex⟩, hother.2⟩
  | cons c cs ih =>
    cases hcs : cs ++ [name] with
    | nil => simp at hcs
    | cons k' r =>
      simp only [List.cons_append, hcs, chain_cons2, Bool.and_eq_true] at hother ⊢
      obtain ⟨⟨hd, hdep⟩, hrest⟩ := hother
      refine ⟨⟨?_, ?_⟩, ?_⟩
      · simp only [dirSel, globDirOk, Bool.and_true, Bool.and_eq_true] at hd
        simp only [dirSel, globDirOk, ho, Bool.and_eq_true]
        refine ⟨⟨⟨hd.1.1, hd.1.2⟩, ?_⟩, hd.2⟩
        exact hpc dir c cs name hex
      · simpa [depthOk] using hdep
      · rw [← hcs]
        refine ih (dir ++ [c]) (by rw [hcs]; exact hrest) ?_
        simpa using hex

/-! ### the paths-only breadth machine -/

theorem lookup_of_mem (k : Name) (v : Node) (es : Ents) (hwf : entsWf es = true) (h : (k, v) ∈ es) :
    Ents.lookup k es = some v := by
  induction es with
  | nil => simp at h
  | cons e es ih =>
    obtain ⟨k', v'⟩ := e
    rw [entsWf_cons] at hwf
    simp only [Bool.and_eq_true] at hwf
    rw [lookup_cons]
    simp only [List.mem_cons, Prod.mk.injEq] at h
    rcases h with ⟨rfl, rfl⟩ | h
    · simp
    · have hl := ih hwf.2 h
      have hk : Ents.lookup k' es = none := Option.isNone_iff_eq_none.mp hwf.1.1.2
      have : k' ≠ k := by intro e; subst e; rw [hk] at hl; cases hl
      rw [if_neg this]; exact hl

/-- what `scanBreadth` pushes are sub-directories listed in `es` -/
theorem scanBreadth_pushes (o : Opts) (d0 : Nat) (dir : WPath) (es : Ents) :
    ∀ x ∈ (scanBreadth o d0 dir es).2, ∃ k, x.1 = dir ++ [k] ∧ (k, Node.dir x.2) ∈ es := by
  induction es with
  | nil => simp [scanBreadth]
  | cons e es ih =>
    obtain ⟨k, v⟩ := e
    cases v with
    | file b =>
      simp only [scanBreadth]
      split
      · intro x hx
        obtain ⟨k', h1, h2⟩ := ih x hx
        exact ⟨k', h1, List.mem_cons_of_mem _ h2⟩
      · intro x hx
        obtain ⟨k', h1, h2⟩ := ih x hx
        exact ⟨k', h1, List.mem_cons_of_mem _ h2⟩
    | dir sub =>
      simp only [scanBreadth]
      split
      · split
        · intro x hx
          simp only [List.mem_cons] at hx
          rcases hx with rfl | hx
          · exact ⟨k, rfl, by simp⟩
          · obtain ⟨k', h1, h2⟩ := ih x hx
            exact ⟨k', h1, List.mem_cons_of_mem _ h2⟩
        · intro x hx
          obtain ⟨k', h1, h2⟩ := ih x hx
          exact ⟨k', h1, List.mem_cons_of_mem _ h2⟩
      · intro x hx
        obtain ⟨k', h1, h2⟩ := ih x hx
        exact ⟨k', h1, List.mem_cons_of_mem _ h2⟩

/-- the paths-only machine (re-scanning the tree) yields the same events as the machine that
carries the listings, for a well-formed tree and enough fuel -/
theorem walkBreadthPaths_eq (o : Opts) (d0 : Nat) (t : Node) (hwf : t.wf = true) (q : Queue) (fuel : Nat)
    (hq : ∀ x ∈ q, t.get x.1 = some (.dir x.2)) (hf : qsize q ≤ fuel) :
    walkBreadthPaths o d0 t fuel (q.map (·.1)) = walkBreadth o d0 q := by
  fun_induction walkBreadth o d0 q generalizing fuel with
  | case1 => cases fuel <;> simp [walkBreadthPaths]
  | case2 dir es q r ih =>
    cases fuel with
    | zero => simp [qsize] at hf
    | succ fuel =>
      have hd : t.get dir = some (.dir es) := hq (dir, es) (by simp)
      have hes : entsWf es = true := by
        have := wf_get dir t _ hwf hd
        rwa [wf_dir] at this
      simp only [List.map_cons, walkBreadthPaths, hd]
      congr 2
      have := ih fuel ?_ ?_
      · simpa using this
      · intro x hx
        simp only [List.mem_append] at hx
        rcases hx with hx | hx
        · exact hq x (List.mem_cons_of_mem _ hx)
        · obtain ⟨k, h1, h2⟩ := scanBreadth_pushes o d0 dir es x hx
          rw [h1, get_append, hd]
          simp [lookup_of_mem k _ es hes h2, Node.get]
      · have : qsize r.2 ≤ entsCount es := scanBreadth_qsize o d0 dir es
        simp only [qsize] at hf
        rw [qsize_append]
        omega

theorem lookup_count (c : Name) (es : Ents) (ch : Node) (h : Ents.lookup c es = some ch) :
    ch.count ≤ entsCount es := by
  induction es with
  | nil => simp [Ents.lookup] at h
  | cons e es ih =>
    obtain ⟨k, v⟩ := e
    rw [lookup_cons] at h
    simp only [entsCount]
    split at h
    · simp only [Option.some.injEq] at h; subst h; omega
    · have := ih h; omega

theorem get_count (p : List Name) (t n : Node) (h : Node.get p t = some n) : n.count ≤ t.count := by
  induction p generalizing t with
  | nil => simp only [Node.get, Option.some.injEq] at h; subst h; exact Nat.le_refl _
  | cons c cs ih =>
    cases t with
    | file b => simp [get_cons_file] at h
    | dir es =>
      rw [get_cons_dir] at h
      cases hl : Ents.lookup c es with
      | none => simp [hl] at h
      | some ch =>
        simp only [hl] at h
        have h1 := ih ch h
        have h2 := lookup_count c es ch hl
        simp only [Node.count]
        omega

/-! ### breadth order: top of the tree first -/

/-- everything the breadth machine reports strictly extends the path of some queued directory -/
theorem bfs_mem_extends (o : Opts) (d0 : Nat) (q : Queue) (x : WPath × Node)
    (h : x ∈ resources (walkBreadth o d0 q)) : ∃ d ∈ q, d.1.length < x.1.length := by
  have h1 : x ∈ selQueue o d0 q := (bfs_perm o d0 q).mem_iff.mp h
  simp only [selQueue, List.mem_flatMap] at h1
  obtain ⟨d, hd, hx⟩ := h1
  have h2 : x ∈ allEnts d.1 d.2 := (selEnts_sublist o d0 d.1 d.2).subset hx
  obtain ⟨k, rest, hp, _⟩ := allEnts_mem_prefix d.1 d.2 x.1 x.2 h2
  exact ⟨d, hd, by rw [hp]; simp⟩

/-- the FIFO invariant: queued directories are sorted by depth and span at most two levels -/
def qInv : Queue → Prop
  | [] => True
  | (dir, _) :: q => (∀ x ∈ q, dir.length ≤ x.1.length ∧ x.1.length ≤ dir.length + 1) ∧ qInv q

theorem qInv_const (L : Nat) (ps : Queue) (h : ∀ p ∈ ps, p.1.length = L) : qInv ps := by
  induction ps with
  | nil => trivial
  | cons p ps ih =>
    obtain ⟨d, es⟩ := p
    have hd : d.length = L := h (d, es) (by simp)
    refine ⟨?_, ih (fun p hp => h p (by simp [hp]))⟩
    intro x hx
    have := h x (by simp [hx])
    omega

theorem qInv_append (L : Nat) (q ps : Queue) (hq : qInv q)
    (hb : ∀ x ∈ q, L ≤ x.1.length ∧ x.1.length ≤ L + 1) (hp : ∀ p ∈ ps, p.1.length = L + 1) :
    qInv (q ++ ps) := by
  induction q with
  | nil => exact qInv_const (L + 1) ps hp
  | cons x q ih =>
    obtain ⟨d, es⟩ := x
    have hd := hb (d, es) (by simp)
    refine ⟨?_, ih hq.2 (fun x hx => hb x (by simp [hx]))⟩
    intro y hy
    have hy' : y ∈ q ++ ps := hy
    rw [List.mem_append] at hy'
    rcases hy' with hy | hy
    · exact hq.1 y hy
    · have := hp y hy
      simp only at hd
      omega

theorem scanBreadth_res_len (o : Opts) (d0 : Nat) (dir : WPath) (es : Ents) :
    ∀ x ∈ resources (scanBreadth o d0 dir es).1, x.1.length = dir.length + 1 := by
  intro x hx
  rw [resources_eq_infoEvents, List.mem_map] at hx
  obtain ⟨e, he, rfl⟩ := hx
  simp only [infoEvents, List.mem_filterMap, Option.map_eq_some_iff] at he
  obtain ⟨ev, hev, i, _, rfl⟩ := he
  have := scanBreadth_dir o d0 dir es ev hev
  simp [this]

/-- breadth order reports the resources by non-decreasing depth -/
theorem bfs_sorted (o : Opts) (d0 : Nat) (q : Queue) (hq : qInv q) :
    (resources (walkBreadth o d0 q)).Pairwise (fun x y => x.1.length ≤ y.1.length) := by
  fun_induction walkBreadth o d0 q with
  | case1 => simp
  | case2 dir es q r ih =>
    have hpush : ∀ p ∈ r.2, p.1.length = dir.length + 1 := by
      intro p hp
      obtain ⟨k, hk, _⟩ := scanBreadth_pushes o d0 dir es p hp
      rw [hk]; simp
    have hinv : qInv (q ++ r.2) := qInv_append dir.length q r.2 hq.2 hq.1 hpush
    simp only [resources_append, resources_cons_none]
    rw [List.pairwise_append]
    refine ⟨?_, ih hinv, ?_⟩
    · rw [List.pairwise_iff_forall_sublist]
      intro a b hab
      have ha := scanBreadth_res_len o d0 dir es a (hab.subset (by simp))
      have hb := scanBreadth_res_len o d0 dir es b (hab.subset (by simp))
      omega
    · intro a ha b hb
      have hla := scanBreadth_res_len o d0 dir es a ha
      obtain ⟨d, hd, hlt⟩ := bfs_mem_extends o d0 (q ++ r.2) b hb
      rw [List.mem_append] at hd
      rcases hd with hd | hd
      · have := (hq.1 d hd).1
        omega
      · have := hpush d hd
        omega

end Fs.WalkLemmas
