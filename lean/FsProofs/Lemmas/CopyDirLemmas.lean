/-
  Helper lemmas for C19: association-list directories, `get`/`set` on paths, the frame lemma
  `view_get_set_ne`, folds that may fail.
-/
import FsModel.Copy

namespace Fs.Copy
open Fs

/-! ### association lists -/

@[simp] theorem lookup_nil (k : Name) : lookup k [] = none := rfl

theorem lookup_put_self (k : Name) (v : CNode) (es : CEnts) : lookup k (put k v es) = some v := by
  induction es with
  | nil => simp [put, lookup]
  | cons x xs ih =>
    obtain ⟨a, b⟩ := x
    by_cases h : a = k
    · simp [put, lookup, h]
    · simp [put, lookup, h, ih]

theorem lookup_put_ne {k c : Name} (h : k ≠ c) (v : CNode) (es : CEnts) :
    lookup k (put c v es) = lookup k es := by
  induction es with
  | nil => simp [put, lookup]; exact fun h' => absurd h'.symm h
  | cons x xs ih =>
    obtain ⟨a, b⟩ := x
    by_cases h1 : a = c
    · subst h1
      have : ¬ a = k := fun h' => h h'.symm
      simp [put, lookup, this]
    · by_cases h2 : a = k
      · subst h2; simp [put, lookup, h]
      · simp [put, lookup, h1, h2, ih]

theorem lookup_put (k c : Name) (v : CNode) (es : CEnts) :
    lookup k (put c v es) = if k = c then some v else lookup k es := by
  by_cases h : k = c
  · subst h; simp [lookup_put_self]
  · simp [h, lookup_put_ne h]

theorem lookup_erase_self (k : Name) (es : CEnts) : lookup k (erase k es) = none := by
  induction es with
  | nil => rfl
  | cons x xs ih =>
    obtain ⟨a, b⟩ := x
    by_cases h : a = k
    · simp [erase, h, ih]
    · simp [erase, lookup, h, ih]

theorem lookup_erase_ne {k c : Name} (h : k ≠ c) (es : CEnts) :
    lookup k (erase c es) = lookup k es := by
  induction es with
  | nil => rfl
  | cons x xs ih =>
    obtain ⟨a, b⟩ := x
    by_cases h1 : a = c
    · subst h1
      have : ¬ a = k := fun h' => h h'.symm
      simp [erase, lookup, this, ih]
    · by_cases h2 : a = k
      · subst h2; simp [erase, lookup, h]
      · simp [erase, lookup, h1, h2, ih]

theorem lookup_erase (k c : Name) (es : CEnts) :
    lookup k (erase c es) = if k = c then none else lookup k es := by
  by_cases h : k = c
  · subst h; simp [lookup_erase_self]
  · simp [h, lookup_erase_ne h]

theorem lookup_isSome_iff_mem_names (k : Name) (es : CEnts) :
    (lookup k es).isSome = true ↔ k ∈ names es := by
  induction es with
  | nil => simp [names]
  | cons x xs ih =>
    obtain ⟨a, b⟩ := x
    by_cases h : a = k
    · simp [lookup, names, h]
    · have h' : ¬ k = a := fun e => h e.symm
      simp [lookup, names, h, h'] at ih ⊢
      exact ih

theorem put_of_lookup {k : Name} {v : CNode} {es : CEnts} (h : lookup k es = some v) : put k v es = es := by
  induction es with
  | nil => simp [lookup] at h
  | cons x xs ih =>
    obtain ⟨a, b⟩ := x
    by_cases h1 : a = k
    · simp [lookup, h1] at h; simp [put, h1, h]
    · simp [lookup, h1] at h; simp [put, h1, ih h]

/-! ### paths -/

@[simp] theorem get_nil (t : CNode) : t.get [] = some t := by cases t <;> rfl

theorem get_cons_dir (c : Name) (cs : List Name) (es : CEnts) :
    (CNode.dir es).get (c :: cs) = (lookup c es).bind (CNode.get cs) := by
  simp only [CNode.get]
  cases lookup c es <;> rfl

@[simp] theorem get_cons_file (c : Name) (cs : List Name) (b : Bytes) (m : Option Int) :
    (CNode.file b m).get (c :: cs) = none := rfl

theorem set_single (c : Name) (es : CEnts) (v : CNode) : (CNode.dir es).set [c] v = .dir (put c v es) := rfl

theorem set_cons_cons (c d : Name) (cs : List Name) (es : CEnts) (v : CNode) :
    (CNode.dir es).set (c :: d :: cs) v =
      match lookup c es with
      | some ch => .dir (put c (ch.set (d :: cs) v) es)
      | none => .dir es := rfl

@[simp] theorem set_file (p : List Name) (b : Bytes) (m : Option Int) (v : CNode) :
    (CNode.file b m).set p v = .file b m := by
  cases p with
  | nil => rfl
  | cons c cs => cases cs <;> rfl

/-- a node without children: what `upload` and `makedir` put into a directory -/
def leaf : CNode → Prop
  | .file _ _ => True
  | .dir es => es = []

theorem get_leaf {v : CNode} (hv : leaf v) {r : List Name} (hr : r ≠ []) : v.get r = none := by
  cases v with
  | file b m => cases r with
    | nil => exact absurd rfl hr
    | cons c cs => rfl
  | dir es =>
    simp [leaf] at hv; subst hv
    cases r with
    | nil => exact absurd rfl hr
    | cons c cs => simp [get_cons_dir]

/-- after `set`, the path holds the new node — when its parent is a directory -/
theorem get_set_self (p : List Name) (t v : CNode) (hp : p ≠ [])
    (hpar : ∃ es, t.get p.dropLast = some (.dir es)) : (t.set p v).get p = some v := by
  induction p generalizing t with
  | nil => exact absurd rfl hp
  | cons c cs ih =>
    cases t with
    | file b m =>
      obtain ⟨es, h⟩ := hpar
      cases cs with
      | nil => simp at h
      | cons d ds => simp [List.dropLast] at h
    | dir es =>
      cases cs with
      | nil => simp [set_single, get_cons_dir, lookup_put_self]
      | cons d ds =>
        obtain ⟨es', h⟩ := hpar
        simp only [List.dropLast_cons_cons, get_cons_dir] at h
        rw [set_cons_cons]
        cases hl : lookup c es with
        | none => simp [hl] at h
        | some ch =>
          simp only [hl, Option.bind_some] at h
          simp only [get_cons_dir, lookup_put_self, Option.bind_some]
          exact ih ch (by simp) ⟨es', h⟩

/-- FRAME for one write: putting a leaf at `p` (where no directory was) changes what is
observable at no other path -/
theorem view_get_set_ne (p : List Name) (t v : CNode) (q : List Name) (hne : q ≠ p)
    (hnd : ∀ es, t.get p ≠ some (.dir es)) (hv : leaf v) :
    view ((t.set p v).get q) = view (t.get q) := by
  induction p generalizing t q with
  | nil => cases t <;> rfl
  | cons c cs ih =>
    cases t with
    | file b m => simp
    | dir es =>
      cases q with
      | nil =>
        cases cs with
        | nil => simp [set_single, view]
        | cons d ds =>
          rw [set_cons_cons]; cases lookup c es <;> simp [view]
      | cons k r =>
        cases cs with
        | nil =>
          rw [set_single, get_cons_dir, get_cons_dir, lookup_put]
          by_cases hk : k = c
          · subst hk
            have hr : r ≠ [] := fun e => hne (by rw [e])
            simp only [if_true, Option.bind_some, get_leaf hv hr]
            -- the old node at `k` is not a directory, so nothing was below it
            cases hl : lookup k es with
            | none => simp
            | some ch =>
              cases ch with
              | file b m => cases r with
                | nil => exact absurd rfl hr
                | cons _ _ => simp
              | dir es' => exact absurd (by simp [get_cons_dir, hl]) (hnd es')
          · simp [hk]
        | cons d ds =>
          rw [set_cons_cons]
          cases hl : lookup c es with
          | none => rfl
          | some ch =>
            simp only [get_cons_dir, lookup_put]
            by_cases hk : k = c
            · subst hk
              simp only [if_true, Option.bind_some, hl]
              apply ih ch r (fun e => hne (by rw [e]))
              intro es' h'
              exact hnd es' (by simp [get_cons_dir, hl, h'])
            · simp [hk]

/-! ### loops that may fail -/

theorem foldRes_append {σ α : Type} (f : σ → α → Res σ) (s : σ) (xs ys : List α) :
    foldRes f s (xs ++ ys) = match foldRes f s xs with
      | .ok s' => foldRes f s' ys
      | .err e => .err e := by
  induction xs generalizing s with
  | nil => rfl
  | cons x xs ih =>
    simp only [List.cons_append, foldRes]
    cases f s x with
    | ok s' => exact ih s'
    | err e => rfl

/-- an invariant of every successful iteration is an invariant of the successful loop -/
theorem foldRes_inv {σ α : Type} (f : σ → α → Res σ) (P : σ → Prop)
    (hstep : ∀ s a s', P s → f s a = .ok s' → P s') :
    ∀ (xs : List α) (s s' : σ), P s → foldRes f s xs = .ok s' → P s' := by
  intro xs
  induction xs with
  | nil => intro s s' hs h; simp [foldRes] at h; cases h; exact hs
  | cons x xs ih =>
    intro s s' hs h
    simp only [foldRes] at h
    cases hf : f s x with
    | ok s1 => rw [hf] at h; exact ih s1 s' (hstep s x s1 hs hf) h
    | err e => rw [hf] at h; cases h

/-! ### views -/

theorem view_eq_file {x : Option CNode} {b : Bytes} {m : Option Int} (h : view x = .file b m) :
    x = some (.file b m) := by
  cases x with
  | none => simp [view] at h
  | some n => cases n with
    | file b' m' => simp [view] at h; obtain ⟨h1, h2⟩ := h; subst h1; subst h2; rfl
    | dir es => simp [view] at h

theorem view_eq_dir {x : Option CNode} (h : view x = .dir) : ∃ es, x = some (.dir es) := by
  cases x with
  | none => simp [view] at h
  | some n => cases n with
    | file b' m' => simp [view] at h
    | dir es => exact ⟨es, rfl⟩

theorem view_eq_absent {x : Option CNode} (h : view x = .absent) : x = none := by
  cases x with
  | none => rfl
  | some n => cases n <;> simp [view] at h

theorem statTime_congr (times : Bool) (now : Int) {x y : Option CNode} (h : view x = view y) :
    statTime times now x = statTime times now y := by
  cases x with
  | none => rw [view_eq_absent h.symm]
  | some n => cases n with
    | file b m => rw [view_eq_file (x := y) (by rw [← h]; rfl)]
    | dir es => obtain ⟨es', h'⟩ := view_eq_dir (x := y) (by rw [← h]; rfl); rw [h']; rfl

/-! ### the walk -/

def itemView : Item → View
  | .dir => .dir
  | .file b m => .file b m

theorem entsWf_cons {k : Name} {v : CNode} {es : CEnts} (h : entsWf ((k, v) :: es) = true) :
    lookup k es = none ∧ v.wf = true ∧ entsWf es = true := by
  simp [entsWf] at h
  exact ⟨h.1.1.2, h.1.2, h.2⟩

mutual
/-- SOUNDNESS of the walk: what it yields is what the source holds at that path -/
theorem walkNode_sound (w : Walker) : ∀ (n : CNode) (abs : List Name) (d : Nat), n.wf = true →
    ∀ x, x ∈ walkNode w abs d n → view (n.get x.1) = itemView x.2 ∧ x.1 ≠ []
  | .file _ _, _, _, _, x, hx => by simp [walkNode] at hx
  | .dir es, abs, d, hwf, x, hx =>
    walkEnts_sound w es abs d (by simpa [CNode.wf] using hwf) x (by simpa [walkNode] using hx)
theorem walkEnts_sound (w : Walker) : ∀ (es : CEnts) (abs : List Name) (d : Nat), entsWf es = true →
    ∀ x, x ∈ walkEnts w abs d es → view ((CNode.dir es).get x.1) = itemView x.2 ∧ x.1 ≠ []
  | [], _, _, _, x, hx => by simp [walkEnts] at hx
  | (k, v) :: es, abs, d, hwf, x, hx => by
    obtain ⟨hk, hv, hes⟩ := entsWf_cons hwf
    simp only [walkEnts, List.mem_append] at hx
    rcases hx with hx | hx
    · cases v with
      | file b m =>
        simp only at hx
        split at hx
        · simp only [List.mem_singleton] at hx; subst hx
          simp [get_cons_dir, lookup, view, itemView]
        · simp at hx
      | dir sub =>
        simp only at hx
        split at hx
        · simp only [List.mem_cons] at hx
          rcases hx with hx | hx
          · subst hx; simp [get_cons_dir, lookup, view, itemView]
          · split at hx
            · simp only [List.mem_map] at hx
              obtain ⟨y, hy, rfl⟩ := hx
              have := walkNode_sound w (.dir sub) (abs ++ [k]) (d + 1) hv y hy
              simp [get_cons_dir, lookup, this.1]
            · simp at hx
        · simp at hx
    · have ih := walkEnts_sound w es abs d hes x hx
      refine ⟨?_, ih.2⟩
      obtain ⟨p, it⟩ := x
      cases p with
      | nil => exact absurd rfl ih.2
      | cons k' r =>
        have hne : ¬ k = k' := by
          intro e; subst e
          have h1 := ih.1
          simp only [get_cons_dir, hk, Option.bind_none] at h1
          cases it <;> simp [view, itemView] at h1
        simp only [get_cons_dir, lookup, hne, if_false]
        simpa [get_cons_dir] using ih.1
end

theorem mem_names_of_walk (w : Walker) (es : CEnts) (abs : List Name) (d : Nat) (hwf : entsWf es = true)
    (x : List Name × Item) (hx : x ∈ walkEnts w abs d es) :
    ∃ k r, x.1 = k :: r ∧ (lookup k es).isSome = true := by
  have h := walkEnts_sound w es abs d hwf x hx
  obtain ⟨p, it⟩ := x
  cases p with
  | nil => exact absurd rfl h.2
  | cons k r =>
    refine ⟨k, r, rfl, ?_⟩
    have h1 := h.1
    simp only [get_cons_dir] at h1
    cases hl : lookup k es with
    | none => rw [hl] at h1; cases it <;> simp [view, itemView] at h1
    | some _ => rfl

mutual
/-- the walk yields every path at most once -/
theorem walkNode_nodup (w : Walker) : ∀ (n : CNode) (abs : List Name) (d : Nat), n.wf = true →
    ((walkNode w abs d n).map (·.1)).Nodup
  | .file _ _, _, _, _ => by simp [walkNode]
  | .dir es, abs, d, hwf => by
    simpa [walkNode] using walkEnts_nodup w es abs d (by simpa [CNode.wf] using hwf)
theorem walkEnts_nodup (w : Walker) : ∀ (es : CEnts) (abs : List Name) (d : Nat), entsWf es = true →
    ((walkEnts w abs d es).map (·.1)).Nodup
  | [], _, _, _ => by simp [walkEnts]
  | (k, v) :: es, abs, d, hwf => by
    obtain ⟨hk, hv, hes⟩ := entsWf_cons hwf
    simp only [walkEnts, List.map_append]
    rw [List.nodup_append]
    refine ⟨?_, walkEnts_nodup w es abs d hes, ?_⟩
    · cases v with
      | file b m => simp only; split <;> simp
      | dir sub =>
        simp only
        split
        · simp only [List.map_cons, List.nodup_cons]
          split
          · have ih := walkNode_nodup w (.dir sub) (abs ++ [k]) (d + 1) hv
            refine ⟨?_, ?_⟩
            · simp only [List.map_map, List.mem_map, Function.comp]
              rintro ⟨y, hy, he⟩
              have := (walkNode_sound w (.dir sub) (abs ++ [k]) (d + 1) hv y hy).2
              simp at he; exact this he
            · rw [List.map_map]
              have : ((fun x : List Name × Item => x.1) ∘ fun x : List Name × Item => (k :: x.1, x.2))
                  = (fun p => k :: p) ∘ (fun x : List Name × Item => x.1) := rfl
              rw [this, ← List.map_map]
              exact List.Pairwise.map (fun p => k :: p) (fun a b h => by simpa using h) ih
          · simp
        · simp
    · intro a ha b hb
      simp only [List.mem_map] at hb
      obtain ⟨y, hy, rfl⟩ := hb
      obtain ⟨k', r, hkr, hsome⟩ := mem_names_of_walk w es abs d hes y hy
      have hne : k' ≠ k := by intro e; subst e; rw [hk] at hsome; simp at hsome
      -- every path of the head group starts with `k`
      have hhead : ∃ r', a = k :: r' := by
        cases v with
        | file b m =>
          simp only at ha; split at ha
          · simp at ha; exact ⟨[], ha⟩
          · simp at ha
        | dir sub =>
          simp only at ha; split at ha
          · simp only [List.map_cons, List.mem_cons] at ha
            rcases ha with ha | ha
            · exact ⟨[], ha⟩
            · split at ha
              · simp only [List.map_map, List.mem_map, Function.comp] at ha
                obtain ⟨z, _, rfl⟩ := ha
                exact ⟨z.1, rfl⟩
              · simp at ha
          · simp at ha
      obtain ⟨r', rfl⟩ := hhead
      rw [hkr]; intro e; simp at e; exact hne e.1.symm
end

theorem eq_of_nodup_map {α β : Type} (f : α → β) : ∀ (l : List α), (l.map f).Nodup →
    ∀ a b, a ∈ l → b ∈ l → f a = f b → a = b := by
  intro l
  induction l with
  | nil => intro _ a b ha; simp at ha
  | cons x xs ih =>
    intro h a b ha hb he
    simp only [List.map_cons, List.nodup_cons] at h
    rcases List.mem_cons.1 ha with ha' | ha'
    · rcases List.mem_cons.1 hb with hb' | hb'
      · rw [ha', hb']
      · subst ha'; exact absurd (by rw [he]; exact List.mem_map_of_mem hb') h.1
    · rcases List.mem_cons.1 hb with hb' | hb'
      · subst hb'; exact absurd (by rw [← he]; exact List.mem_map_of_mem ha') h.1
      · exact ih h.2 a b ha' hb' he

theorem map_fst_filterMap_nodup {α β : Type} (g : List Name × α → Option (List Name × β))
    (hg : ∀ x y, g x = some y → y.1 = x.1) :
    ∀ l : List (List Name × α), (l.map (·.1)).Nodup → ((l.filterMap g).map (·.1)).Nodup := by
  intro l
  induction l with
  | nil => simp
  | cons x xs ih =>
    intro h
    simp only [List.map_cons, List.nodup_cons] at h
    simp only [List.filterMap_cons]
    cases hgx : g x with
    | none => exact ih h.2
    | some y =>
      simp only [List.map_cons, List.nodup_cons]
      refine ⟨?_, ih h.2⟩
      intro hmem
      apply h.1
      simp only [List.mem_map, List.mem_filterMap] at hmem ⊢
      obtain ⟨z, ⟨u, hu, hz⟩, he⟩ := hmem
      exact ⟨u, hu, by rw [← hg u z hz, he, hg x y hgx]⟩

theorem selFiles_nodup (w : Walker) (abs : List Name) (es : CEnts) (hwf : entsWf es = true) :
    ((selFiles w abs es).map (·.1)).Nodup := by
  unfold selFiles
  apply map_fst_filterMap_nodup _ _ _ (walkEnts_nodup w es abs 0 hwf)
  intro x y h
  cases hx : x.2 <;> simp [hx] at h
  rw [← h]

theorem mem_selFiles {w : Walker} {abs : List Name} {es : CEnts} {f : List Name × Bytes × Option Int} :
    f ∈ selFiles w abs es ↔ (f.1, Item.file f.2.1 f.2.2) ∈ walkEnts w abs 0 es := by
  unfold selFiles
  simp only [List.mem_filterMap]
  constructor
  · rintro ⟨x, hx, h⟩
    obtain ⟨p, it⟩ := x
    cases it with
    | dir => simp at h
    | file b m => simp at h; subst h; exact hx
  · intro h; exact ⟨_, h, by simp⟩

theorem mem_selDirs {w : Walker} {abs : List Name} {es : CEnts} {r : List Name} :
    r ∈ selDirs w abs es ↔ (r, Item.dir) ∈ walkEnts w abs 0 es := by
  unfold selDirs
  simp only [List.mem_filterMap]
  constructor
  · rintro ⟨x, hx, h⟩
    obtain ⟨p, it⟩ := x
    cases it with
    | dir => simp at h; subst h; exact hx
    | file b m => simp at h
  · intro h; exact ⟨_, h, by simp⟩

/-! ### single steps on the destination -/

theorem writeFile_ok {e : Env} {pt : Bool} {t t' : CNode} {p : List Name} {b : Bytes} {m : Option Int}
    (h : writeFile e pt t p b m = .ok t') :
    p ≠ [] ∧ (∃ es, t.get p.dropLast = some (.dir es)) ∧ (∀ es, t.get p ≠ some (.dir es)) ∧
      t' = t.set p (.file b (newTime e pt m)) := by
  unfold writeFile at h
  split at h
  · cases h
  · rename_i hp
    split at h
    · rename_i es hpar
      split at h
      · cases h
      · rename_i hnd
        cases h
        exact ⟨hp, ⟨es, hpar⟩, fun es' he => hnd es' he, rfl⟩
    · cases h

theorem writeFile_self {e : Env} {pt : Bool} {t t' : CNode} {p : List Name} {b : Bytes} {m : Option Int}
    (h : writeFile e pt t p b m = .ok t') : t'.get p = some (.file b (newTime e pt m)) := by
  obtain ⟨hp, hpar, _, rfl⟩ := writeFile_ok h
  exact get_set_self p t _ hp hpar

theorem writeFile_view {e : Env} {pt : Bool} {t t' : CNode} {p : List Name} {b : Bytes} {m : Option Int}
    (h : writeFile e pt t p b m = .ok t') (q : List Name) (hq : q ≠ p) :
    view (t'.get q) = view (t.get q) := by
  obtain ⟨_, _, hnd, rfl⟩ := writeFile_ok h
  exact view_get_set_ne p t _ q hq hnd trivial

/-- `makedir(recreate=True)`: either nothing changes (a directory is there) or an empty directory
appears where nothing was -/
theorem makedirR_ok {t t' : CNode} {p : List Name} (h : makedirR t p = .ok t') :
    t' = t ∨ (p ≠ [] ∧ (∃ es, t.get p.dropLast = some (.dir es)) ∧ t.get p = none ∧ t' = t.set p (.dir [])) := by
  unfold makedirR at h
  split at h
  · cases h; exact Or.inl rfl
  · rename_i hp
    split at h
    · rename_i es hpar
      split at h
      · cases h; exact Or.inl rfl
      · cases h
      · rename_i hn
        cases h
        exact Or.inr ⟨hp, ⟨es, hpar⟩, hn, rfl⟩
    · cases h

theorem makedirR_view {t t' : CNode} {p : List Name} (h : makedirR t p = .ok t') (q : List Name)
    (hq : view (t.get q) ≠ .absent ∨ q ≠ p) : view (t'.get q) = view (t.get q) := by
  rcases makedirR_ok h with rfl | ⟨_, _, hn, rfl⟩
  · rfl
  · apply view_get_set_ne p t (.dir []) q _ (by simp [hn]) (show leaf (.dir []) from rfl)
    rcases hq with hq | hq
    · intro e; subst e; rw [hn] at hq; exact hq rfl
    · exact hq

theorem makedirR_self {t t' : CNode} {p : List Name} (h : makedirR t p = .ok t') (hp : p ≠ []) :
    view (t'.get p) = .dir := by
  unfold makedirR at h
  simp only [hp, if_false] at h
  split at h
  · rename_i es hpar
    split at h
    · rename_i es' hd; cases h; rw [hd]; rfl
    · cases h
    · cases h; rw [get_set_self p t _ hp ⟨es, hpar⟩]; rfl
  · cases h

theorem makedirsR_view : ∀ (cs pre : List Name) (t t' : CNode), makedirsR pre cs t = .ok t' →
    ∀ q, (view (t.get q) ≠ .absent ∨ ¬ q <+: pre ++ cs) → view (t'.get q) = view (t.get q)
  | [], _, t, t', h, q, _ => by simp [makedirsR] at h; subst h; rfl
  | c :: cs, pre, t, t', h, q, hq => by
    simp only [makedirsR] at h
    split at h
    · have := makedirsR_view cs (pre ++ [c]) t t' h q (by simpa using hq)
      exact this
    · cases h
    · rename_i hn
      have hne : q ≠ pre ++ [c] := by
        rcases hq with hq | hq
        · intro e; subst e; rw [hn] at hq; exact hq rfl
        · intro e; subst e; apply hq
          exact ⟨cs, by simp⟩
      have h1 : view ((t.set (pre ++ [c]) (.dir [])).get q) = view (t.get q) :=
        view_get_set_ne _ t (.dir []) q hne (by simp [hn]) (show leaf (.dir []) from rfl)
      have := makedirsR_view cs (pre ++ [c]) _ t' h q (by rw [h1]; simpa using hq)
      rw [this, h1]

/-! ### the two loops of `copy_dir_if` -/

/-- `copy_structure`'s loop: whatever existed is unchanged; new directories appear only at the
walked paths -/
theorem structLoop_view (dp : List Name) : ∀ (rels : List (List Name)) (t t' : CNode),
    foldRes (fun t rel => makedirR t (dp ++ rel)) t rels = .ok t' →
    ∀ q, (view (t.get q) ≠ .absent ∨ ∀ rel ∈ rels, q ≠ dp ++ rel) → view (t'.get q) = view (t.get q)
  | [], t, t', h, q, _ => by simp [foldRes] at h; subst h; rfl
  | r :: rels, t, t', h, q, hq => by
    simp only [foldRes] at h
    cases hm : makedirR t (dp ++ r) with
    | err x => rw [hm] at h; cases h
    | ok t1 =>
      rw [hm] at h
      have h1 : view (t1.get q) = view (t.get q) :=
        makedirR_view hm q (hq.imp id (fun hq => hq r (List.mem_cons_self ..)))
      rw [structLoop_view dp rels t1 t' h q (by
        rw [h1]; exact hq.imp id (fun hq rel hrel => hq rel (List.mem_cons_of_mem _ hrel))), h1]

theorem structLoop_dirs (dp : List Name) : ∀ (rels : List (List Name)) (t t' : CNode),
    foldRes (fun t rel => makedirR t (dp ++ rel)) t rels = .ok t' →
    (∀ rel ∈ rels, rel ≠ []) → ∀ rel ∈ rels, view (t'.get (dp ++ rel)) = .dir
  | [], _, _, _, _, rel, hrel => by simp at hrel
  | r :: rels, t, t', h, hne, rel, hrel => by
    simp only [foldRes] at h
    cases hm : makedirR t (dp ++ r) with
    | err x => rw [hm] at h; cases h
    | ok t1 =>
      rw [hm] at h
      rcases List.mem_cons.1 hrel with rfl | hrel
      · have hs : view (t1.get (dp ++ rel)) = .dir :=
          makedirR_self hm (by simp [hne rel (List.mem_cons_self ..)])
        rw [structLoop_view dp rels t1 t' h _ (Or.inl (by rw [hs]; simp)), hs]
      · exact structLoop_dirs dp rels t1 t' h (fun x hx => hne x (List.mem_cons_of_mem _ hx)) rel hrel

theorem wanted_congr (e : Env) (cond : Str) (dp : List Name) (t t' : CNode) (f : List Name × Bytes × Option Int)
    (h : view (t'.get (dp ++ f.1)) = view (t.get (dp ++ f.1))) : wanted e cond dp t' f = wanted e cond dp t f := by
  unfold wanted; rw [statTime_congr _ _ h]

theorem copyFilesStep_ok {e : Env} {cond : Str} {pt : Bool} {dp : List Name} {st st' : CNode × List (List Name)}
    {f : List Name × Bytes × Option Int} (h : copyFilesStep e cond pt dp st f = .ok st') :
    (wanted e cond dp st.1 f = false ∧ st' = st) ∨
    (wanted e cond dp st.1 f = true ∧ writeFile e pt st.1 (dp ++ f.1) f.2.1 f.2.2 = .ok st'.1 ∧ st'.2 = st.2 ++ [f.1]) := by
  unfold copyFilesStep at h
  unfold wanted
  split at h
  · cases h
  · rename_i hn; cases h; left; rw [hn]; exact ⟨by decide, rfl⟩
  · rename_i hn
    split at h
    · rename_i t hw; cases h; right; rw [hn]; exact ⟨by decide, hw, rfl⟩
    · cases h

/-- the files loop of `copy_dir_if`, from any state: which files are copied is decided by the
state at loop entry; those files are at the destination afterwards; nothing else changes -/
theorem filesLoop (e : Env) (cond : Str) (pt : Bool) (dp : List Name) :
    ∀ (fs : List (List Name × Bytes × Option Int)), (fs.map (·.1)).Nodup →
    ∀ (st st' : CNode × List (List Name)), foldRes (copyFilesStep e cond pt dp) st fs = .ok st' →
      st'.2 = st.2 ++ (fs.filter (wanted e cond dp st.1)).map (·.1) ∧
      (∀ f ∈ fs, wanted e cond dp st.1 f = true →
        st'.1.get (dp ++ f.1) = some (.file f.2.1 (newTime e pt f.2.2))) ∧
      (∀ q, (∀ f ∈ fs, wanted e cond dp st.1 f = true → q ≠ dp ++ f.1) →
        view (st'.1.get q) = view (st.1.get q))
  | [], _, st, st', h => by
    simp [foldRes] at h; subst h; simp
  | f :: fs, hnd, st, st', h => by
    simp only [List.map_cons, List.nodup_cons] at hnd
    simp only [foldRes] at h
    cases hs : copyFilesStep e cond pt dp st f with
    | err x => rw [hs] at h; cases h
    | ok s1 =>
      rw [hs] at h
      obtain ⟨ih1, ih2, ih3⟩ := filesLoop e cond pt dp fs hnd.2 s1 st' h
      have hpne : ∀ g ∈ fs, dp ++ g.1 ≠ dp ++ f.1 := by
        intro g hg e'
        exact hnd.1 (by rw [← List.append_cancel_left e']; exact List.mem_map_of_mem hg)
      rcases copyFilesStep_ok hs with ⟨hw, rfl⟩ | ⟨hw, hwr, hlog⟩
      · refine ⟨?_, ?_, ?_⟩
        · rw [ih1]; simp [hw]
        · intro g hg hwg
          rcases List.mem_cons.1 hg with rfl | hg
          · rw [hw] at hwg; cases hwg
          · exact ih2 g hg hwg
        · intro q hq
          exact ih3 q (fun g hg hwg => hq g (List.mem_cons_of_mem _ hg) hwg)
      · have hsame : ∀ g ∈ fs, wanted e cond dp s1.1 g = wanted e cond dp st.1 g := fun g hg =>
          wanted_congr e cond dp st.1 s1.1 g (writeFile_view hwr _ (hpne g hg))
        refine ⟨?_, ?_, ?_⟩
        · rw [ih1, hlog, List.filter_cons, hw]
          have : fs.filter (wanted e cond dp s1.1) = fs.filter (wanted e cond dp st.1) :=
            List.filter_congr (fun g hg => hsame g hg)
          simp [this]
        · intro g hg hwg
          rcases List.mem_cons.1 hg with rfl | hg
          · have h3 := ih3 (dp ++ g.1) (fun g' hg' _ => (hpne g' hg').symm)
            rw [writeFile_self hwr] at h3
            exact view_eq_file h3
          · exact ih2 g hg (by rw [hsame g hg]; exact hwg)
        · intro q hq
          rw [ih3 q (fun g hg hwg => hq g (List.mem_cons_of_mem _ hg) (by rw [← hsame g hg]; exact hwg))]
          exact writeFile_view hwr q (hq f (List.mem_cons_self ..) hw)

/-- directories stay directories through the files loop -/
theorem filesLoop_dirs (e : Env) (cond : Str) (pt : Bool) (dp : List Name) (q : List Name)
    (fs : List (List Name × Bytes × Option Int)) (st st' : CNode × List (List Name))
    (h : foldRes (copyFilesStep e cond pt dp) st fs = .ok st') (hq : view (st.1.get q) = .dir) :
    view (st'.1.get q) = .dir := by
  refine foldRes_inv (copyFilesStep e cond pt dp) (fun s => view (s.1.get q) = .dir) ?_ fs st st' hq h
  intro s f s' hs hstep
  rcases copyFilesStep_ok hstep with ⟨_, rfl⟩ | ⟨_, hwr, _⟩
  · exact hs
  · rw [writeFile_view hwr q ?_]; exact hs
    intro e'; subst e'
    obtain ⟨es, he⟩ := view_eq_dir hs
    exact (writeFile_ok hwr).2.2.1 es he

/-- what `copy_dir_if` does, phase by phase -/
theorem copyDirIf_ok {e : Env} {w : Walker} {src dst : CNode} {sp dp : List Name} {cond : Str} {pt : Bool}
    {r : CNode × List (List Name)} (h : copyDirIf e w src sp dst dp cond pt = .ok r) :
    ∃ d0 d1 es, makedirsR [] dp dst = .ok d0 ∧ src.get sp = some (.dir es) ∧
      foldRes (fun t rel => makedirR t (dp ++ rel)) d0 (selDirs w sp es) = .ok d1 ∧
      foldRes (copyFilesStep e cond pt dp) (d1, []) (selFiles w sp es) = .ok r := by
  unfold copyDirIf copyStructure at h
  cases hm : makedirsR [] dp dst with
  | err x => simp [hm] at h
  | ok d0 =>
    cases hs : src.get sp with
    | none => simp [hm, hs] at h
    | some n =>
      cases n with
      | file b m => simp [hm, hs] at h
      | dir es =>
        simp only [hm, hs] at h
        cases hf : foldRes (fun t rel => makedirR t (dp ++ rel)) d0 (selDirs w sp es) with
        | err x => simp [hf] at h
        | ok d1 => simp only [hf] at h; exact ⟨d0, d1, es, rfl, rfl, hf, h⟩

/-! ### the unfiltered walker selects everything -/

def itemOf : CNode → Item
  | .file b m => .file b m
  | .dir _ => .dir

theorem get_append {t n : CNode} : ∀ {p : List Name} (q : List Name), t.get p = some n → t.get (p ++ q) = n.get q := by
  intro p
  induction p generalizing t with
  | nil => intro q h; simp at h; subst h; rfl
  | cons c cs ih =>
    intro q h
    cases t with
    | file b m => simp at h
    | dir es =>
      simp only [List.cons_append, get_cons_dir] at h ⊢
      cases hl : lookup c es with
      | none => rw [hl] at h; simp at h
      | some ch => rw [hl] at h; simp only [Option.bind_some] at h ⊢; exact ih q h

mutual
theorem walkNode_complete : ∀ (v : CNode) (abs : List Name) (d : Nat) (r : List Name) (n : CNode),
    r ≠ [] → v.get r = some n → (r, itemOf n) ∈ walkNode Walker.all abs d v
  | .file _ _, _, _, r, n, hr, h => by
    cases r with
    | nil => exact absurd rfl hr
    | cons _ _ => simp at h
  | .dir es, abs, d, r, n, hr, h => by
    simpa [walkNode] using walkEnts_complete es abs d r n hr h
theorem walkEnts_complete : ∀ (es : CEnts) (abs : List Name) (d : Nat) (q : List Name) (n : CNode),
    q ≠ [] → (CNode.dir es).get q = some n → (q, itemOf n) ∈ walkEnts Walker.all abs d es
  | [], _, _, q, n, hq, h => by
    cases q with
    | nil => exact absurd rfl hq
    | cons c r => simp [get_cons_dir] at h
  | (k, v) :: es, abs, d, q, n, hq, h => by
    cases q with
    | nil => exact absurd rfl hq
    | cons c r =>
      simp only [walkEnts, List.mem_append]
      simp only [get_cons_dir, lookup] at h
      by_cases hk : k = c
      · subst hk
        simp only [if_true, Option.bind_some] at h
        left
        cases r with
        | nil =>
          simp at h; subst h
          cases v <;> simp [Walker.all, itemOf]
        | cons c' r' =>
          cases v with
          | file b m => simp at h
          | dir sub =>
            have := walkNode_complete (.dir sub) (abs ++ [k]) (d + 1) (c' :: r') n (by simp) h
            simp only [Walker.all, Walker.scan, if_true, List.mem_cons, List.mem_map]
            right
            exact ⟨(c' :: r', itemOf n), this, rfl⟩
      · right
        simp only [hk, if_false] at h
        exact walkEnts_complete es abs d (c :: r) n (by simp) (by simpa [get_cons_dir] using h)
end

end Fs.Copy
