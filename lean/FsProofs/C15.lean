/-
  C15 — Zip and Tar archives round-trip any tree.

  Model: FsModel/Archive.lean (writers' member list; ReadZipFS; ReadTarFS), over FsModel/Ref.lean
  (the directory of ReadZipFS is a fold of `Ref.step`).  Helper lemmas: FsProofs/Lemmas/
  {Archive,Zip,Tar}Lemmas.lean.  All statements quantify over every well-formed tree (any names,
  any nesting, any bytes), every mtime assignment and every path *string*.

  EXTERNAL HYPOTHESIS of the two round-trip theorems (not a Lean hypothesis: it is the place
  where `zipMembers`/`tarMembers` is fed to `readZip`/`readTar`): zipfile / tarfile return
  exactly the (name, kind, bytes, time) list they were given, in order.  The correspondence
  (harness/props/c15.py) compares both sides of that seam with the real libraries on every run.
-/
import FsModel.Archive
import FsProofs.Lemmas.TarLemmas

namespace Fs.C15
open Fs Fs.Path Fs.PathSpec Fs.Archive
open Fs.PathLemmas Fs.ArchiveLemmas Fs.ZipLemmas Fs.TarLemmas

/-! ## the writers emit one member per resource -/

/-- `write_zip` and `write_tar` emit exactly one member for every resource below the root (the
breadth-first walker misses nothing and repeats nothing), carrying its kind, bytes and mtime;
member names are pairwise different. -/
theorem members_cover_tree (t : Node) (mt : List Name → Int) (ht : t.wf = true) (hd : t.isDir = true) :
    (∀ m, m ∈ zipMembers mt t ↔ ∃ cs n, cs ≠ [] ∧ t.get cs = some n ∧
        m = ⟨zipName cs n.isDir, n.isDir, fileBytes n, zipTime (mt cs)⟩) ∧
    (∀ m, m ∈ tarMembers mt t ↔ ∃ cs n, cs ≠ [] ∧ t.get cs = some n ∧
        m = ⟨tarName cs, n.isDir, fileBytes n, tarTime (mt cs)⟩) ∧
    ((zipMembers mt t).map (·.name)).Nodup ∧ ((tarMembers mt t).map (·.name)).Nodup ∧
    (zipMembers mt t).length + 1 = t.count ∧ (tarMembers mt t).length + 1 = t.count := by
  have hmem : ∀ e : List Name × Node, e ∈ walkInfo t ↔ e.1 ≠ [] ∧ t.get e.1 = some e.2 :=
    fun e => mem_walkInfo ht hd e.1 e.2
  have hnd : (walkInfo t).Nodup := nodup_of_map _ _ (walkInfo_nodup ht hd)
  have hlen : (walkInfo t).length + 1 = t.count := by
    cases t with
    | file d => simp [Node.isDir] at hd
    | dir es =>
      rw [(walkInfo_perm es).length_eq]
      exact walk_length (.dir es) []
  refine ⟨?_, ?_, ?_, ?_, by simpa [zipMembers] using hlen, by simpa [tarMembers] using hlen⟩
  · intro m
    simp only [zipMembers, List.mem_map]
    constructor
    · rintro ⟨⟨cs, n⟩, hw, rfl⟩
      obtain ⟨h1, h2⟩ := (hmem (cs, n)).1 hw
      exact ⟨cs, n, h1, h2, rfl⟩
    · rintro ⟨cs, n, h1, h2, rfl⟩
      exact ⟨(cs, n), (hmem (cs, n)).2 ⟨h1, h2⟩, rfl⟩
  · intro m
    simp only [tarMembers, List.mem_map]
    constructor
    · rintro ⟨⟨cs, n⟩, hw, rfl⟩
      obtain ⟨h1, h2⟩ := (hmem (cs, n)).1 hw
      exact ⟨cs, n, h1, h2, rfl⟩
    · rintro ⟨cs, n, h1, h2, rfl⟩
      exact ⟨(cs, n), (hmem (cs, n)).2 ⟨h1, h2⟩, rfl⟩
  · simp only [zipMembers, List.map_map]
    apply nodup_map_on _ _ hnd
    rintro ⟨cs, n⟩ hx ⟨cs', n'⟩ hy he
    obtain ⟨h1, h2⟩ := (hmem _).1 hx
    obtain ⟨h1', h2'⟩ := (hmem _).1 hy
    simp only [Function.comp] at he
    obtain ⟨rfl, _⟩ := zipName_inj (wf_get ht h2).1.clean (wf_get ht h2').1.clean h1 h1' he
    simp only at h2 h2'
    rw [h2] at h2'; cases h2'; rfl
  · simp only [tarMembers, List.map_map]
    apply nodup_map_on _ _ hnd
    rintro ⟨cs, n⟩ hx ⟨cs', n'⟩ hy he
    obtain ⟨h1, h2⟩ := (hmem _).1 hx
    obtain ⟨h1', h2'⟩ := (hmem _).1 hy
    simp only [Function.comp] at he
    rw [tarName_eq (wf_get ht h2).1.clean, tarName_eq (wf_get ht h2').1.clean] at he
    have := mkp_inj (wf_get ht h2).1.clean (wf_get ht h2').1.clean he
    subst this
    simp only at h2 h2'
    rw [h2] at h2'; cases h2'; rfl


example : (zipMembers (fun _ => 7) (.dir [("d".toList, .dir [("f".toList, .file [1, 2])]), ("e".toList, .dir [])])).map
    (fun m => (String.ofList m.name, m.isDir, m.data, m.mtime)) =
    [("d/", true, [], 6), ("e/", true, [], 6), ("d/f", false, [1, 2], 6)] := by decide

/-! ## round trip -/

/-- ZIP ROUND TRIP.  Write any well-formed tree with `write_zip`, reopen the members with
`ReadZipFS`: building the directory raises nothing, and at *every path string* `p` that
validates (to the components `cs`) the reopened archive answers exactly what the tree holds
there — existence, type, listing (as a set), the bytes through `openbin` and through
`readbytes`, the size, and the mtime rounded down to an even second. -/
theorem zip_roundtrip (t : Node) (mt : List Name → Int) (ht : t.wf = true) (hd : t.isDir = true)
    (p : Str) (cs : List Name) (hv : Ref.validate p = .ok cs) :
    (readZip (zipMembers mt t)).err = none ∧
    Agree t (zipTime (mt cs)) cs ((readZip (zipMembers mt t)).obs p) := by
  obtain ⟨h1, h2, h3⟩ := readZip_dir_kinds ht hd mt
  refine ⟨h1, ?_⟩
  have hzw : (readZip (zipMembers mt t)).dir.wf = true :=
    buildDir_wf Ref.State.empty (by decide) rfl _ _
  exact zip_obs_agree mt ht hd hzw h2 h3 (fun cs n hne hg => lookupLast_zipMembers ht hd mt hne hg) hv

/-- a path that does not validate is refused by the archive as by any filesystem: nothing to compare -/
example : (readZip (zipMembers (fun _ => 0) (.dir []))).isdir "..".toList = .err .IllegalBackReference := by
  decide

/-- TAR ROUND TRIP, below the root: as for zip (mtime to the whole second); empty directories are
members of their own and intermediate directories are found both as members and implicitly. -/
theorem tar_roundtrip (t : Node) (mt : List Name → Int) (ht : t.wf = true) (hd : t.isDir = true)
    (p : Str) (cs : List Name) (hv : Ref.validate p = .ok cs) (hc : cs ≠ []) :
    Agree t (tarTime (mt cs)) cs ((readTar (tarMembers mt t)).obs p) :=
  tar_obs_agree mt ht hd hv hc

/-
  FULL STATEMENT (still false of the code at one point, see the counterexample below):
    ∀ p cs, validate p = ok cs → Agree t (tarTime (mt cs)) cs ((readTar (tarMembers mt t)).obs p)
  At the root `openbin("/")` raises ResourceNotFound where the contract says FileExpected (error
  class only).  Everything else holds at the root too — since fix e5a4c4f for *every* tree, the
  empty one included (before, `isdir("/")` was False for an archive without members).
-/

/-- TAR ROUND TRIP at the root, for every tree including the empty one: everything except the error
class of `openbin("/")`. -/
theorem tar_roundtrip_root_partial (t : Node) (mt : List Name → Int) (ht : t.wf = true)
    (hd : t.isDir = true) (p : Str) (hv : Ref.validate p = .ok []) :
    let o := (readTar (tarMembers mt t)).obs p
    o.exists_ = .ok true ∧ o.isdir = .ok true ∧ o.isfile = .ok false ∧
    (∃ l, o.listdir = .ok l ∧ l.Perm (Ents.names t.entries)) ∧
    o.details = .ok ⟨[], true, none, none⟩ ∧ o.read = .err .ResourceNotFound :=
  tar_obs_root mt ht hd hv

/-- REGRESSION (fix e5a4c4f; was `tar_empty_root_isdir_counterexample`): the empty tree round-trips
through tar — the root of an archive without members is a directory for `isdir` as well -/
theorem tar_empty_root_isdir_repaired :
    (readTar (tarMembers (fun _ => 0) (.dir []))).isdir ['/'] = .ok true ∧
    ((readTar (tarMembers (fun _ => 0) (.dir []))).details ['/']).map (·.isDir) = .ok true ∧
    (readTar (tarMembers (fun _ => 0) (.dir []))).listdir ['/'] = .ok [] ∧
    (readTar []).isdir [] = .ok true := by decide

/-- `ReadTarFS.openbin("/")` reports the root as missing rather than as a directory (not fixed) -/
theorem tar_root_read_class_counterexample :
    (readTar (tarMembers (fun _ => 0) (.dir [("f".toList, .file [])]))).openRead ['/'] = .err .ResourceNotFound := by
  decide

/-- `ReadZipFS.readbytes` of a directory raises ResourceNotFound where `openbin` (and the contract)
say FileExpected: the reason `Agree` leaves `readbytes` of a directory open -/
theorem zip_readbytes_dir_counterexample :
    (readZip (zipMembers (fun _ => 0) (.dir [("d".toList, .dir [])]))).readbytes "d".toList = .err .ResourceNotFound ∧
    (readZip (zipMembers (fun _ => 0) (.dir [("d".toList, .dir [])]))).openRead "d".toList = .err .FileExpected := by
  decide

/-- the hypotheses are met by a tree with an empty directory, an empty file, nested directories,
names with spaces / dots / glob characters / non-BMP code points -/
example : (Node.dir [("a b".toList, .dir [("..x".toList, .file []), ("😀*".toList, .dir [])]),
    ("[é]".toList, .file [0, 255])]).wf = true := by decide

example : (readTar (tarMembers (fun _ => 5) (.dir [("a b".toList, .dir [("😀*".toList, .dir [])])]))).listdir
    "/zz/../a b/".toList = .ok ["😀*".toList] := by decide

/-! ## modification times -/

/-- zip keeps the even second at or below the mtime (DOS time: 2-second resolution), tar the whole
second; writing what was read back changes nothing.  (That the reopened archive reports exactly
`zipTime (mt cs)` / `tarTime (mt cs)` is the `details` component of the round-trip theorems.) -/
theorem mtime_to_resolution (m : Int) :
    zipTime m ≤ m ∧ m < zipTime m + 2 ∧ zipTime m % 2 = 0 ∧ zipTime (zipTime m) = zipTime m ∧
    tarTime m = m := by
  simp only [zipTime, tarTime]
  refine ⟨by omega, by omega, by omega, by omega, trivial⟩

/-! ## archives nobody should have written -/

/-- HOSTILE NAMES, zip.  Whatever the member names (absolute, `..`, `a//b`, `./a`, duplicates, a
file below a file), the directory `ReadZipFS` builds is a well-formed tree: every name in it is a
legal resource name (non-empty, not `.`/`..`, no `/`, no NUL) and unique in its directory. -/
theorem zip_directory_wf (ms : List Member) : (readZip ms).dir.wf = true :=
  buildDir_wf Ref.State.empty (by decide) rfl _ _

/-- HOSTILE NAMES.  For every member list and every path string: the names a read-only archive
lists are clean components; in a zip every resource that exists at all is reached through clean
components only; and the `name` under which ReadTarFS describes a resource is the last component
of the (normalised) path that was asked for — empty for the root, clean otherwise. -/
theorem hostile_names_confined (ms : List Member) :
    (∀ p l, (readZip ms).listdir p = .ok l → ∀ c ∈ l, CleanComp c) ∧
    (∀ p l, (readTar ms).listdir p = .ok l → ∀ c ∈ l, CleanComp c) ∧
    (∀ cs n, (readZip ms).dir.get cs = some n → Clean cs) ∧
    (∀ p d, (readTar ms).details p = .ok d → d.name = [] ∨ CleanComp d.name) := by
  have hw := zip_directory_wf ms
  refine ⟨?_, ?_, fun cs n hg => (wf_get hw hg).1.clean, ?_⟩
  · intro p l hl c hc
    cases hv : Ref.validate p with
    | err e =>
      simp only [ZipFS.listdir, ZipFS.dq, Ref.step, Ref.Op.paths, mapM_single_err p e hv] at hl
      cases hl
    | ok cs =>
      rw [ZipFS.listdir, dq_listdir _ p cs hv] at hl
      cases hg : (readZip ms).dir.get cs with
      | none => rw [hg] at hl; cases hl
      | some n =>
        cases n with
        | file b => rw [hg] at hl; cases hl
        | dir es =>
          rw [hg] at hl
          simp only [Res.ok.injEq] at hl
          subst hl
          have hes := wf_dir.1 (wf_get hw hg).2
          obtain ⟨v, hv'⟩ : ∃ v, Ents.lookup c es = some v := by
            have := (mem_names_iff c es).1 hc
            cases hl : Ents.lookup c es with
            | none => exact absurd hl this
            | some v => exact ⟨v, rfl⟩
          exact cleanName_clean (entsWf_mem hes (lookup_mem hv')).1
  · intro p l hl c hc
    simp only [TarFS.listdir] at hl
    cases hr : TarFS.rel p with
    | err e => rw [hr] at hl; cases hl
    | ok r =>
      rw [hr] at hl
      simp only at hl
      cases hd : (readTar ms).details p with
      | err e => rw [hd] at hl; cases hl
      | ok d =>
        rw [hd] at hl
        simp only at hl
        split at hl
        · cases hl
        · -- r = mkp false cs for clean cs
          simp only [TarFS.rel] at hr
          cases hn : normpath p with
          | err e => rw [hn] at hr; cases hr
          | ok n =>
            rw [hn] at hr
            obtain ⟨cs, hcs, rfl⟩ := normpath_ok_clean p n hn
            simp only [abspath_mkp hcs, relpath_mkp hcs, Res.ok.injEq] at hr
            subst hr
            obtain ⟨l', h1, _, h3⟩ := childNames_spec (keyed_tarEntries ms) hcs
            have hl' : (readTar ms).childNames (mkp false cs) = .ok l' := h1
            rw [hl'] at hl
            cases hl
            obtain ⟨e, _, rest, hclr, _⟩ := (h3 c).1 hc
            exact (clean_append.1 hclr).2 c List.mem_cons_self
  · intro p d hd
    obtain ⟨cs, hcs, _, hname⟩ := tar_details_name _ p d hd
    rcases list_nil_or_snoc cs with rfl | ⟨i, x, rfl⟩
    · left; rw [hname]; rfl
    · right
      rw [hname, lastName_snoc]
      exact (clean_append.1 hcs).2 x List.mem_cons_self

/-- REGRESSION (fix b3e3bd5; was `tar_info_name_counterexample`): the members `a/.` and `b/c/..` are
listed as `a` / `b` and are now also *described* as `a` / `b` (the raw member name gave `.` / `..`,
on which the walker looped or left the root) -/
theorem tar_info_name_repaired :
    (readTar [⟨"a/.".toList, true, [], 0⟩]).listdir ['/'] = .ok ["a".toList] ∧
    ((readTar [⟨"a/.".toList, true, [], 0⟩]).details "a".toList).map (·.name) = .ok "a".toList ∧
    ((readTar [⟨"b/c/..".toList, false, [1], 0⟩]).details "b".toList).map (·.name) = .ok "b".toList := by
  decide

/-- … in general: every name ReadTarFS lists can be stat'ed, is described under that very name,
and can be opened when it is a file — for any member list (explicit and implicit directories,
duplicates, un-normalised names) -/
theorem tar_listed_paths_stat (ms : List Member) (cs : List Name) (hcs : Clean cs) (l : List Name)
    (hl : (readTar ms).listdir (mkp true cs) = .ok l) (x : Name) (hx : x ∈ l) :
    ∃ d, (readTar ms).details (mkp true (cs ++ [x])) = .ok d ∧ d.name = x ∧
      (d.isDir = false → ∃ b, (readTar ms).openRead (mkp true (cs ++ [x])) = .ok b) :=
  tar_listed_stat (keyed_tarEntries ms) hcs hl hx

/-- members that climb above the root are dropped by ReadTarFS and abort ReadZipFS's directory at
that member (first access raises, later accesses see the members before it); neither exposes a
path outside -/
theorem backref_members :
    (readTar [⟨"ok".toList, false, [1], 0⟩, ⟨"../up".toList, false, [2], 0⟩, ⟨"a/../../x".toList, false, [3], 0⟩]).listdir
      ['/'] = .ok ["ok".toList] ∧
    (readZip [⟨"ok".toList, false, [1], 0⟩, ⟨"../up".toList, false, [2], 0⟩, ⟨"later".toList, false, [3], 0⟩]).err =
      some .IllegalBackReference ∧
    (readZip [⟨"ok".toList, false, [1], 0⟩, ⟨"../up".toList, false, [2], 0⟩, ⟨"later".toList, false, [3], 0⟩]).listdir
      ['/'] = .ok ["ok".toList] := by decide

/-- REGRESSION (fix 1679dcb; was `zip_unnormalised_name_counterexample`): members stored under
un-normalised names are listed under their normalised path *and can be read and stat'ed there*
(before: raw KeyError from `openbin`/`readbytes`, `details` silently lost) -/
theorem zip_unnormalised_name_repaired :
    (readZip [⟨"a//b".toList, false, [120], 7⟩]).listdir "a".toList = .ok ["b".toList] ∧
    (readZip [⟨"a//b".toList, false, [120], 7⟩]).openRead "a/b".toList = .ok [120] ∧
    (readZip [⟨"a//b".toList, false, [120], 7⟩]).readbytes "a/b".toList = .ok [120] ∧
    (readZip [⟨"a//b".toList, false, [120], 7⟩]).details "a/b".toList = .ok ⟨"b".toList, false, some 1, some 7⟩ ∧
    (readZip [⟨"./a".toList, false, [121], 0⟩]).openRead "a".toList = .ok [121] ∧
    (readZip [⟨"/abs".toList, false, [122], 0⟩]).openRead "abs".toList = .ok [122] ∧
    (readZip [⟨"a/../b".toList, false, [123], 0⟩]).openRead "b".toList = .ok [123] ∧
    (readZip [⟨"d//".toList, true, [], 9⟩]).details "d".toList = .ok ⟨"d".toList, true, some 0, some 9⟩ := by decide

/-- … in general: EVERY LISTED FILE CAN BE OPENED AND STAT'ED, whatever the member names.  At any
path string that validates to the components of a file of the directory, `openbin`, `readbytes`
and `getinfo(details)` answer with the bytes, size and mtime of one member of the archive. -/
theorem zip_listed_files_readable (ms : List Member) (p : Str) (cs : List Name)
    (hv : Ref.validate p = .ok cs) (b : Bytes) (hg : (readZip ms).dir.get cs = some (.file b)) :
    ∃ m, m ∈ ms ∧ (readZip ms).openRead p = .ok m.data ∧ (readZip ms).readbytes p = .ok m.data ∧
      (readZip ms).details p = .ok ⟨Ref.lastName cs, false, some m.data.length, some m.mtime⟩ :=
  zip_listed_file_readable ms hv hg

/-- with several members normalising to one path the last one is read (`_zip_names` is a dict) -/
example : (readZip [⟨"a//b".toList, false, [1], 0⟩, ⟨"a/b".toList, false, [2], 0⟩, ⟨"a/./b".toList, false, [3], 0⟩]).openRead
    "a/b".toList = .ok [3] := by decide

/-! ## duplicates -/

/-- zip: the bytes, size and mtime of a name come from the *last* member written under it
(`ZipFile.NameToInfo`) -/
theorem zip_duplicate_last_wins (pre post : List Member) (m : Member)
    (h : ∀ x ∈ post, x.name ≠ m.name) : lookupLast (pre ++ m :: post) m.name = some m := by
  unfold lookupLast
  rw [List.reverse_append, List.reverse_cons, List.append_assoc, List.find?_append]
  have h1 : post.reverse.find? (fun x => x.name == m.name) = none := by
    rw [List.find?_eq_none]
    intro x hx
    simpa using h x (List.mem_reverse.1 hx)
  rw [h1]
  simp

/-- … while the *type* of a path is decided by the first member that creates it (`create` does not
replace, `makedirs(recreate=True)` accepts what is there) -/
theorem zip_duplicate_type_first_wins :
    (readZip [⟨"a/".toList, true, [], 0⟩, ⟨"a".toList, false, [1], 0⟩]).isdir "a".toList = .ok true ∧
    (readZip [⟨"d".toList, false, [1], 0⟩, ⟨"e".toList, false, [2], 0⟩, ⟨"d".toList, false, [3], 0⟩]).openRead "d".toList =
      .ok [3] ∧
    (readZip [⟨"d".toList, false, [1], 0⟩, ⟨"e".toList, false, [2], 0⟩, ⟨"d".toList, false, [3], 0⟩]).listdir ['/'] =
      .ok ["d".toList, "e".toList] := by decide

/-- tar: `OrderedDict` — a key resolves to the *last* member whose name normalises to it … -/
theorem tar_duplicate_last_wins (pre post : List Member) (m : Member) (k : Str)
    (hk : tarKey m.name = some k) (h : ∀ x ∈ post, tarKey x.name ≠ some k) :
    odGet k (tarEntries (pre ++ m :: post)) = some m := by
  rw [odGet_tarEntries, List.reverse_append, List.reverse_cons, List.append_assoc, List.find?_append]
  have h1 : post.reverse.find? (fun x => tarKey x.name == some k) = none := by
    rw [List.find?_eq_none]
    intro x hx
    simpa using h x (List.mem_reverse.1 hx)
  rw [h1]
  simp [hk]

/-- … and is listed at the position of the *first*: the keys of the dictionary are the first
occurrences of the normalised names, in archive order -/
theorem tar_duplicate_first_position (ms : List Member) :
    (readTar ms).entries.map Prod.fst = dedupe (ms.filterMap fun m => tarKey m.name) :=
  keys_tarEntries ms

example :
    (readTar [⟨"d".toList, false, [1], 0⟩, ⟨"e".toList, false, [2], 0⟩, ⟨"./d".toList, false, [3], 0⟩]).listdir ['/'] =
      .ok ["d".toList, "e".toList] ∧
    (readTar [⟨"d".toList, false, [1], 0⟩, ⟨"e".toList, false, [2], 0⟩, ⟨"./d".toList, false, [3], 0⟩]).openRead "d".toList =
      .ok [3] := by decide

end Fs.C15
