/-
  TextLaws — the TEXT half of C02 and the layer selection of `fs.iotools` (extra proof module of C02).

  "text written with a given encoding, errors and newline setting is stored and read back exactly
  as Python's io text layer would with those settings (unchanged under the defaults)"

  Property theorems only (helpers: FsProofs/Lemmas/TextLemmas.lean).  Model: FsModel/Text.lean.
  * codecs are external: they enter as the abstract `Codec` with the named hypothesis
    `Codec.Roundtrip` (`dec (enc s) = some s` on encodable strings); UTF-8, UTF-16-LE, UTF-32-LE,
    latin-1 and ascii are given concretely and PROVED to satisfy it, so no theorem is vacuous;
  * the byte level under the text layer is C02's matrix over `IoRef` (`store_exact`, `fetch_exact`):
    every statement holds for any byte-level write path (= any buffering / chunking of the encoded
    bytes) and any valid byte-level read path;
  * `make_stream` / `FS.open` / `io.open` are layer-selection functions; the stacks are proved *as
    they are* — where `make_stream` differs from `io.open` is a theorem, not a finding (buffering is
    not observable in the data once the handle is closed: `buffering_transparent_at_close`).
-/
import FsModel.Text
import FsProofs.Lemmas.TextLemmas
import FsProofs.C02

namespace Fs.TextLaws
open Fs Fs.File Fs.Text Fs.TextLemmas

set_option linter.unusedSimpArgs false
set_option linter.unusedVariables false

/-! ## the codec hypothesis is satisfiable: concrete codecs -/

/-- strict UTF-8 decoding inverts UTF-8 encoding on every sequence of scalar values -/
theorem utf8_roundtrip : utf8.Roundtrip ∧ ∀ s : Str, utf8Dec (utf8Enc s) = some s := by
  refine ⟨?_, utf8Dec_enc⟩
  intro s b h
  simp only [utf8, Option.some.injEq] at h
  subst h
  exact utf8Dec_enc s

/-- **strict decoding**: the decoder accepts a byte string exactly when it is the (unique, shortest
form) encoding of the string it returns — overlong forms, surrogates, values above U+10FFFF, stray
or missing continuation bytes are all rejected; encoder and decoder are inverse bijections between
strings and well-formed UTF-8 -/
theorem utf8_strict (b : Bytes) (s : Str) : utf8Dec b = some s ↔ b = utf8Enc s :=
  ⟨fun h => (utf8Enc_dec b s h).symm, fun h => h ▸ utf8Dec_enc s⟩

/-- UTF-8 is stateless: pieces encode independently (what lets the text layer encode write by write) -/
theorem utf8_additive : utf8.Additive := by
  intro s t a b hs ht
  simp only [utf8, Option.some.injEq] at hs ht ⊢
  subst hs; subst ht
  exact utf8Enc_append s t

theorem utf16le_roundtrip : utf16le.Roundtrip ∧ utf16le.Additive := by
  constructor
  · intro s b h
    simp only [utf16le, Option.some.injEq] at h
    subst h; exact utf16Dec_enc s
  · intro s t a b hs ht
    simp only [utf16le, Option.some.injEq] at hs ht ⊢
    subst hs; subst ht; exact utf16Enc_append s t

theorem utf32le_roundtrip : utf32le.Roundtrip ∧ utf32le.Additive := by
  constructor
  · intro s b h
    simp only [utf32le, Option.some.injEq] at h
    subst h; exact utf32Dec_enc s
  · intro s t a b hs ht
    simp only [utf32le, Option.some.injEq] at hs ht ⊢
    subst hs; subst ht; exact utf32Enc_append s t

/-- the partial codecs: `enc` fails on characters outside the range, and the hypothesis only speaks
about encodable strings -/
theorem latin1_ascii_roundtrip :
    (latin1 .strict).Roundtrip ∧ (ascii .strict).Roundtrip ∧
    (∀ em, (latin1 em).Additive) ∧ (∀ em, (ascii em).Additive) :=
  ⟨fun s b h => byteDec_enc 256 (by omega) s b h, fun s b h => byteDec_enc 128 (by omega) s b h,
   fun em s t a b hs ht => byteEnc_append 256 em s t a b hs ht,
   fun em s t a b hs ht => byteEnc_append 128 em s t a b hs ht⟩

example : utf8Enc ['a', 'é', '日', '😀'] = [0x61, 0xC3, 0xA9, 0xE6, 0x97, 0xA5, 0xF0, 0x9F, 0x98, 0x80] := by decide
example : utf8Dec [0xC0, 0x80] = none ∧ utf8Dec [0xED, 0xA0, 0x80] = none ∧ utf8Dec [0xF4, 0x90, 0x80, 0x80] = none ∧
    utf8Dec [0xE2, 0x82] = none ∧ utf8Dec [0x80] = none := by decide
example : (ascii .strict).enc ['é'] = none ∧ (ascii .replace).enc ['a', 'é'] = some [0x61, 0x3F] ∧
    (ascii .ignore).enc ['a', 'é'] = some [0x61] := by decide

/-- the `errors` handlers are *not* round trips (the hypothesis is about the strict codec) -/
theorem errors_replace_counterexample :
    ¬ (ascii .replace).Roundtrip ∧ ¬ (ascii .ignore).Roundtrip := by
  constructor
  · intro h
    have := h ['é'] [0x3F] (by decide)
    revert this; decide
  · intro h
    have := h ['é'] [] (by decide)
    revert this; decide

/-! ## what is stored, what is read -/

/-- **stored exactly as the io text layer would**: whatever byte-level write path carries the
encoded bytes (one `write`, any chunking by a buffered layer, `writelines`, an upload-style copy),
whatever the file held before, the file holds `enc (translate_write newline s)` — or the write
fails exactly when the codec rejects the text -/
theorem text_store_model (c : Codec) (nl : Newline) (w : WritePath) (existing : Option Bytes) (s : Str) :
    storeText c nl w existing s = c.enc (translateWrite nl s) := by
  unfold storeText
  cases h : c.enc (translateWrite nl s) with
  | none => rfl
  | some b => simp [C02.store_exact]

/-- **read back exactly as the io text layer would**: through any valid byte-level read path
(`read()`, a buffered layer's `read(n)` loop, `readinto` loop, …) `read()` returns
`translate_read newline (dec file)` and iteration its lines -/
theorem text_fetch_model (c : Codec) (nl : Newline) (r : ReadPath) (hr : r.valid = true) (file : Bytes) :
    fetchText c nl r file = (c.dec file).map (translateRead nl) ∧
    fetchLines c nl r file = (c.dec file).map (readLines nl) := by
  unfold fetchText fetchLines
  rw [C02.fetch_exact r hr]
  exact ⟨rfl, rfl⟩

/-- **every (write newline, read newline) pair** — the general formula for all 25: writing `s` with
newline setting `wnl` and reading the file with `rnl` returns
`translate_read rnl (translate_write wnl s)`, for every codec satisfying the hypothesis, every
encodable text, every write path × read path and any previous content -/
theorem newline_write_read_model (c : Codec) (hc : c.Roundtrip) (wnl rnl : Newline)
    (w : WritePath) (r : ReadPath) (hr : r.valid = true) (existing : Option Bytes) (s : Str)
    (henc : (c.enc (translateWrite wnl s)).isSome = true) :
    (storeText c wnl w existing s).bind (fetchText c rnl r) =
      some (translateRead rnl (translateWrite wnl s)) := by
  rw [text_store_model]
  cases h : c.enc (translateWrite wnl s) with
  | none => rw [h] at henc; cases henc
  | some b =>
    rw [Option.bind_some, (text_fetch_model c rnl r hr b).1, hc _ _ h]
    rfl

/-- which of the 25 pairs give the text back unchanged *for every text* -/
def identityPair (wnl rnl : Newline) : Bool :=
  (wnl == .none || wnl == .empty || wnl == .lf) && rnl != .none

/-- the table of the 25 pairs: the composition is the identity on every string exactly for
write ∈ {None, "", "\n"} × read ∈ {"", "\n", "\r", "\r\n"} (12 pairs); the other 13 change some text
(`"\r"` under read `None`, `"\n"` under write `"\r"`/`"\r\n"`) -/
theorem newline_pair_table (wnl rnl : Newline) :
    (∀ s : Str, translateRead rnl (translateWrite wnl s) = s) ↔ identityPair wnl rnl = true := by
  constructor
  · intro h
    have h1 := h ['\r']
    have h2 := h ['\n']
    revert h1 h2
    cases wnl <;> cases rnl <;> decide
  · intro h s
    cases wnl <;> cases rnl <;> first | rfl | exact absurd h (by decide)

/-- the explicit translations, pair by pair (the write side depends only on `wnl`, the read side
only on whether `rnl` is `None`) -/
theorem newline_translation_table (s : Str) :
    translateWrite .none s = s ∧ translateWrite .empty s = s ∧ translateWrite .lf s = s ∧
    translateWrite .cr s = replaceLf ['\r'] s ∧ translateWrite .crlf s = replaceLf ['\r', '\n'] s ∧
    translateRead .none s = univ s ∧ translateRead .empty s = s ∧ translateRead .lf s = s ∧
    translateRead .cr s = s ∧ translateRead .crlf s = s :=
  ⟨rfl, rfl, rfl, rfl, rfl, rfl, rfl, rfl, rfl, rfl⟩

/-- universal-newline reading undoes every write translation on text that contains no `"\r"`
(the portable case: any of the 5 write settings, read with `newline=None`) -/
theorem newline_universal_roundtrip (wnl : Newline) (s : Str) (h : '\r' ∉ s) :
    translateRead .none (translateWrite wnl s) = s := by
  cases wnl <;> simp only [translateRead, translateWrite, writeNl]
  · exact univ_noCR s h
  · exact univ_noCR s h
  · exact univ_noCR s h
  · exact univ_replace_cr s h
  · exact univ_replace_crlf s h

example : translateRead .none (translateWrite .crlf ['a', '\n', 'b']) = ['a', '\n', 'b'] := by decide
example : translateWrite .crlf ['a', '\n', 'b'] = ['a', '\r', '\n', 'b'] := by decide
example : translateRead .none ['a', '\r', '\n', '\r', 'b'] = ['a', '\n', '\n', 'b'] := by decide

/-- **unchanged under the defaults**: with the library default `newline=""` (`FS.open`,
`readtext`, `writetext`, `appendtext`), write-then-read is the identity on every encodable string —
any codec satisfying the hypothesis, any write path × read path, any previous content -/
theorem text_roundtrip_default (c : Codec) (hc : c.Roundtrip) (w : WritePath) (r : ReadPath)
    (hr : r.valid = true) (existing : Option Bytes) (s : Str) (henc : (c.enc s).isSome = true) :
    (storeText c .empty w existing s).bind (fetchText c .empty r) = some s :=
  newline_write_read_model c hc .empty .empty w r hr existing s henc

/-- the same for UTF-8 (the library default encoding), with no hypothesis left: every string -/
theorem text_roundtrip_default_utf8 (w : WritePath) (r : ReadPath) (hr : r.valid = true)
    (existing : Option Bytes) (s : Str) :
    (storeText utf8 .empty w existing s).bind (fetchText utf8 .empty r) = some s :=
  text_roundtrip_default utf8 utf8_roundtrip.1 w r hr existing s rfl

/-- a `newline=None` default would *not* be the identity (why the library default is `""`):
a lone `"\r"` comes back as `"\n"` -/
theorem text_roundtrip_newline_none_counterexample :
    (storeText utf8 .none .writebytes none ['a', '\r', 'b']).bind (fetchText utf8 .none .readbytes) =
      some ['a', '\n', 'b'] := by decide

example : (storeText utf8 .empty (.pieces [1, 2]) (some [9]) ['é', '\r', '\n', '日']).bind
    (fetchText utf8 .empty (.readLoop 2)) = some ['é', '\r', '\n', '日'] := by decide

/-! ## lines -/

/-- iteration / `readlines()` / the `readline()` loop: the lines concatenate to what `read()`
returns, none is empty, and every line but the last ends with a terminator recognised under the
setting -/
theorem lines_join (nl : Newline) (s : Str) :
    (readLines nl s).flatten = translateRead nl s ∧
    (∀ l ∈ readLines nl s, l ≠ []) ∧
    (∀ l ∈ (readLines nl s).dropLast, EndsWith nl l) := by
  unfold readLines Text.linesOf
  refine ⟨linesFuel_flatten _ _ _ (Nat.le_refl _), linesFuel_ne_nil _ _ _, ?_⟩
  exact linesFuel_dropLast (termLen nl) (EndsWith nl) (fun s h => firstLine_endsWith nl s h) _ _

/-- `readline()` returns the *shortest* prefix that ends in a terminator: no terminator is
recognised at any earlier offset; without any terminator it returns everything -/
theorem readline_minimal (nl : Newline) (s : Str) :
    let d := translateRead nl s
    (∃ p, p < d.length ∧ termLen nl (d.drop p) ≠ 0 ∧ (∀ k, k < p → termLen nl (d.drop k) = 0) ∧
      (readline nl s).1 = d.take p ++ (d.drop p).take (termLen nl (d.drop p)) ∧
      (readline nl s).2 = (d.drop p).drop (termLen nl (d.drop p))) ∨
    ((∀ k, k < d.length → termLen nl (d.drop k) = 0) ∧ (readline nl s).1 = d ∧ (readline nl s).2 = []) :=
  firstLine_spec (termLen nl) (translateRead nl s)

example : readLines .empty ['a', '\r', '\n', 'b', '\r', 'c', '\n', '\n'] =
    [['a', '\r', '\n'], ['b', '\r'], ['c', '\n'], ['\n']] := by decide
example : readLines .none ['a', '\r', '\n', 'b', '\r', 'c'] = [['a', '\n'], ['b', '\n'], ['c']] := by decide
example : readLines .crlf ['\r', '\r', '\n', '\n', 'a'] = [['\r', '\r', '\n'], ['\n', 'a']] := by decide
example : readLines .cr ['a', '\r', '\n', 'b'] = [['a', '\r'], ['\n', 'b']] := by decide

/-! ## append and byte-order marks -/

/-- the mark goes out with the first piece a handle encodes, and only when the underlying position
was 0 when the handle was made -/
theorem bom_only_at_start (c : BomCodec) (s : Str) (ss : List Str) (bs : List Bytes)
    (h : (s :: ss).mapM c.body.enc = some bs) :
    c.encSession true (s :: ss) = some (c.bom ++ bs.flatten) ∧
    c.encSession false (s :: ss) = some bs.flatten ∧
    c.encSession true [] = some [] := by
  simp [BomCodec.encSession, h]

/-- **append mode**: the stored bytes are `old ++ enc (translate_write newline new)`; a byte-order
mark is written only if the file was empty (or missing) -/
theorem append_concat_text (c : BomCodec) (nl : Newline) (old : Bytes) (s : Str) :
    appendText c nl (some old) s =
      (c.body.enc (translateWrite nl s)).map (fun b => old ++ (if old = [] then c.bom else []) ++ b) ∧
    appendText c nl none s = (c.body.enc (translateWrite nl s)).map (fun b => c.bom ++ b) := by
  constructor
  · unfold appendText
    cases h : c.body.enc (translateWrite nl s) with
    | none => simp [BomCodec.encSession, h]
    | some b =>
      simp only [Option.getD_some, BomCodec.encSession, List.mapM_cons, List.mapM_nil, h, Option.pure_def,
        Option.bind_eq_bind, Option.bind_some, List.isEmpty_cons, Bool.not_false, Bool.and_true,
        List.flatten_cons, List.flatten_nil, List.append_nil, Option.map_some]
      rw [(C02.append_concat old _ 0 0).1]
      cases old <;> simp
  · unfold appendText
    cases h : c.body.enc (translateWrite nl s) with
    | none => simp [BomCodec.encSession, h]
    | some b =>
      have hnone : ∀ ops, IoRef.run modeA none ops = IoRef.run modeA (some []) ops := by
        intro ops
        have hv : Mode.validateBin modeA = .ok () := by decide
        simp [IoRef.run, hv, IoRef.openFile, C02.flagsA]
      simp only [Option.getD_none, BomCodec.encSession, List.mapM_cons, List.mapM_nil, h, Option.pure_def,
        Option.bind_eq_bind, Option.bind_some, List.isEmpty_cons, List.isEmpty_nil, Bool.not_false,
        Bool.and_true, if_true, List.flatten_cons, List.flatten_nil, List.append_nil, Option.map_some]
      rw [hnone, (C02.append_concat [] _ 0 0).1]
      simp

/-- `writetext` then `appendtext` then `readtext` with a mark-writing encoding: exactly one mark is
stored, and the text read back is the concatenation — for any body codec satisfying the codec
hypotheses (round trip, stateless) -/
theorem write_append_read_text (c : BomCodec) (hc : c.body.Roundtrip) (ha : c.body.Additive)
    (existing : Option Bytes) (s1 s2 : Str) (b1 b2 : Bytes)
    (h1 : c.body.enc s1 = some b1) (h2 : c.body.enc s2 = some b2) :
    writeTextBom c .empty existing s1 = some (c.bom ++ b1) ∧
    appendText c .empty (some (c.bom ++ b1)) s2 = some (c.bom ++ b1 ++ b2) ∧
    fetchTextBom c .empty (c.bom ++ b1 ++ b2) = some (s1 ++ s2) := by
  refine ⟨?_, ?_, ?_⟩
  · unfold writeTextBom
    simp only [translateWrite, writeNl, BomCodec.encSession, List.mapM_cons, List.mapM_nil, h1,
      Option.pure_def, Option.bind_eq_bind, Option.bind_some, List.isEmpty_cons, Bool.not_false,
      Bool.and_true, if_true, List.flatten_cons, List.flatten_nil, List.append_nil]
    have := C02.piecewise_writes_concat existing [c.bom ++ b1]
    simpa using this
  · rw [(append_concat_text c .empty (c.bom ++ b1) s2).1]
    simp only [translateWrite, writeNl, h2, Option.map_some]
    by_cases hb : c.bom ++ b1 = []
    · have hbom : c.bom = [] := (List.append_eq_nil_iff.mp hb).1
      simp [hb, hbom]
    · simp [hb]
  · unfold fetchTextBom
    rw [C02.fetch_exact _ (by decide)]
    simp only [Option.bind_some, BomCodec.dec, stripPrefix, translateRead]
    have hp : c.bom.isPrefixOf (c.bom ++ b1 ++ b2) = true := by
      rw [List.isPrefixOf_iff_prefix, List.append_assoc]; exact List.prefix_append _ _
    rw [List.append_assoc] at hp ⊢
    simp only [hp, if_true, List.drop_left]
    rw [hc _ _ (ha s1 s2 b1 b2 h1 h2)]
    rfl

/-- instantiated for `utf-8-sig` without hypotheses (every pair of strings) -/
theorem write_append_read_utf8sig (existing : Option Bytes) (s1 s2 : Str) :
    ((writeTextBom utf8sig .empty existing s1).bind fun f => appendText utf8sig .empty (some f) s2).bind
      (fetchTextBom utf8sig .empty) = some (s1 ++ s2) := by
  have h := write_append_read_text utf8sig utf8_roundtrip.1 utf8_additive existing s1 s2
    (utf8Enc s1) (utf8Enc s2) rfl rfl
  rw [h.1, Option.bind_some, h.2.1, Option.bind_some, h.2.2]

example : appendText utf16 .crlf (some []) ['a', '\n'] = some [0xFF, 0xFE, 0x61, 0, 0x0D, 0, 0x0A, 0] := by decide
example : appendText utf16 .crlf (some [1, 2]) ['a', '\n'] = some [1, 2, 0x61, 0, 0x0D, 0, 0x0A, 0] := by decide
example : writeTextBom utf16 .empty none [] = some [0xFF, 0xFE] := by decide

/-! ## `RawWrapper` -/

/-- **every `RawWrapper` method is the wrapped file's method**: each call of the wrapper returns what
the same call on the wrapped io file returns and leaves it in the same state — including
`read(-1)` (→ `readall` → `f.read()`), `readline(None)` (→ `f.readline(-1)`), `readinto` with or
without a `readinto` on the wrapped object, `truncate(size)`, iteration, use after close -/
theorem rawwrapper_transparent (hasReadinto : Bool) (fl : Flags) (s : IoState) (op : Op) :
    RawWrapper.step hasReadinto fl s op = IoRef.step fl s op := by
  unfold RawWrapper.step
  cases op with
  | read n =>
    simp only [RawWrapper.forward]
    split
    · rename_i h; subst h
      simp [IoRef.step, IoRef.isReadline0, IoRef.stepOpen, IoRef.stepClosed, IoRef.readN, limit]
    · rfl
  | readall => simp [RawWrapper.forward, IoRef.step, IoRef.isReadline0, IoRef.stepOpen, IoRef.stepClosed]
  | readinto k =>
    cases hasReadinto
    · simp [RawWrapper.forward, IoRef.step, IoRef.isReadline0, IoRef.stepOpen, IoRef.stepClosed]
    · rfl
  | readline n =>
    cases n with
    | none =>
      simp [RawWrapper.forward, IoRef.step, IoRef.isReadline0, IoRef.stepOpen, IoRef.stepClosed,
        IoRef.readLine, limit]
    | some z => rfl
  | _ => rfl

/-- whole sessions: the observations through the wrapper are the reference's -/
theorem rawwrapper_run_transparent (hasReadinto : Bool) (mode : Str) (existing : Option Bytes) (ops : List Op) :
    RawWrapper.run hasReadinto mode existing ops = IoRef.run mode existing ops := by
  have key : ∀ (fl : Flags) (s : IoState), RawWrapper.runFrom hasReadinto fl s ops = IoRef.runFrom fl s ops := by
    intro fl
    induction ops with
    | nil => intro s; rfl
    | cons op ops ih =>
      intro s
      simp only [RawWrapper.runFrom, IoRef.runFrom, rawwrapper_transparent, ih]
  unfold RawWrapper.run IoRef.run
  cases Mode.validateBin mode with
  | err e => rfl
  | ok _ =>
    simp only
    cases IoRef.openFile (Mode.flags mode) existing with
    | err e => rfl
    | ok s => simp only [key]

/-- the documented differences are in *which* call reaches the wrapped file, not in the result -/
theorem rawwrapper_forwarding_table :
    RawWrapper.forward true (.read (some (-1))) = .read none ∧
    RawWrapper.forward true (.read none) = .read none ∧
    RawWrapper.forward true (.read (some 3)) = .read (some 3) ∧
    RawWrapper.forward true .readall = .read none ∧
    RawWrapper.forward true (.readinto 4) = .readinto 4 ∧
    RawWrapper.forward false (.readinto 4) = .read (some 4) ∧
    RawWrapper.forward true (.readline none) = .readline (some (-1)) ∧
    RawWrapper.forward true (.truncate none) = .truncate none ∧
    RawWrapper.forward true .iter = .iter := by decide

/-! ## layer selection -/

/-- which `Buffered*` class `make_stream` picks from the mode string (`none`: no buffered layer) -/
def expectedKind (m : Str) : Option BufKind :=
  if m.contains '+' then some .random
  else if m.contains 'r' then some .reader
  else if m.contains 'x' then none
  else some .writer

/-- **`FS.open`'s stack as it is**, for every mode string `Mode.validate` accepts and every
`buffering`: `RawWrapper`; then — only when `buffering >= 0` and the mode is not a bare `x` —
`BufferedRandom` (`+`) / `BufferedReader` (`r`) / `BufferedWriter` (`w`, `a`) of size
`buffering or 8192`; then — unless `b` — `TextIOWrapper(line_buffering=False)`.  The constructor
checks of the buffered classes never fail (the binary file was opened with the same mode). -/
theorem make_stream_layers (m : Str) (hv : Mode.validate m = .ok ()) (buffering : Int) :
    fsOpen m buffering = .ok (
      Layer.rawWrapper ::
      ((if buffering < 0 then []
        else match expectedKind m with
          | none => []
          | some k => [Layer.buffered k (if buffering = 0 then 8192 else buffering.toNat)]) ++
       (if m.contains 'b' then [] else [Layer.textIO false]))) := by
  obtain ⟨hone, htb, _⟩ := validate_facts m hv
  unfold fsOpen
  rw [hv]
  simp only [makeStream, capsOfMode, Mode.reading, Mode.writing, Mode.has, expectedKind, bufferedOk,
    defaultBufferSize, filter_t_contains m 'r' (by decide), filter_t_contains m '+' (by decide),
    filter_t_contains m 'w' (by decide), filter_t_contains m 'a' (by decide),
    filter_t_contains m 'x' (by decide)]
  generalize m.contains 'x' = bx at hone ⊢
  generalize m.contains 'r' = br at hone ⊢
  generalize m.contains 'w' = bw at hone ⊢
  generalize m.contains 'a' = ba at hone ⊢
  generalize m.contains '+' = bp
  generalize m.contains 'b' = bb
  by_cases hneg : buffering < 0
  · cases bb <;> simp [hneg]
  · cases bx <;> cases br <;> cases bw <;> cases ba <;> simp [PyMode.b2n] at hone <;>
      cases bp <;> cases bb <;> simp [hneg]

/-- `make_stream` itself checks nothing: with a binary file that lacks a capability the mode asks
for, the `Buffered*` constructor raises `io.UnsupportedOperation` (only when `buffering >= 0`) -/
theorem make_stream_capability_check (lb : Bool) :
    makeStream ['r', '+'] 0 lb ⟨true, false, true⟩ = .err .UnsupportedOperation ∧
    makeStream ['r', '+'] (-1) lb ⟨true, false, true⟩ = .ok [.rawWrapper, .textIO lb] ∧
    makeStream ['w', 'b'] 4 lb ⟨true, false, true⟩ = .err .UnsupportedOperation ∧
    makeStream ['r', 'b'] 4 lb ⟨false, true, true⟩ = .err .UnsupportedOperation ∧
    makeStream ['r', 'b', '+'] 4 lb ⟨true, true, false⟩ = .err .UnsupportedOperation := by
  cases lb <;> decide

/-- forget which raw class sits at the bottom (`RawWrapper` ↔ `FileIO`) -/
def normLayer : Layer → Layer
  | .fileIO => .rawWrapper
  | l => l

def sameStack (a b : Res (List Layer)) : Prop :=
  match a, b with
  | .ok x, .ok y => x.map normLayer = y.map normLayer
  | _, _ => False

/-- a mode that creates exclusively without `+` -/
def bareX (m : Str) : Bool := m.contains 'x' && !m.contains '+'

/-- **where `make_stream` differs from `io.open`** (same mode, same `buffering`, `st_blksize ≥ 2`).
The stacks coincide — up to the raw class — exactly when `buffering >= 2` and the mode is not a bare
`x`, or `buffering = 0` for a binary bare `x`.  Everywhere else they differ:
`buffering = -1`: `io.open` inserts a buffered layer of `st_blksize`, `make_stream` none;
`buffering = 0`: `io.open` returns the raw file (binary) or raises `ValueError` (text), `make_stream`
inserts a buffered layer of the default size; `buffering = 1`: `io.open` line-buffers with the
default size, `make_stream` makes a 1-byte buffer; bare `x` modes are never buffered by
`make_stream`. -/
theorem make_stream_layers_vs_io_open (m : Str) (hv : Mode.validate m = .ok ()) (buffering : Int)
    (blk : Nat) (hblk : 2 ≤ blk) :
    sameStack (fsOpen m buffering) (ioOpen m buffering blk) ↔
      ((2 ≤ buffering ∧ bareX m = false) ∨ (buffering = 0 ∧ bareX m = true ∧ m.contains 'b' = true)) := by
  obtain ⟨hone, htb, hio⟩ := validate_facts m hv
  rw [make_stream_layers m hv buffering]
  unfold ioOpen
  cases hraw : PyMode.ioOpenRawMode m with
  | none => rw [hraw] at hio; cases hio
  | some raw =>
    simp only [expectedKind, bareX, sameStack]
    generalize m.contains 'x' = bx at hone ⊢
    generalize m.contains 'r' = br at hone ⊢
    generalize m.contains 'w' = bw at hone ⊢
    generalize m.contains 'a' = ba at hone ⊢
    generalize m.contains '+' = bp
    generalize m.contains 'b' = bb
    have hcases : buffering < 0 ∨ buffering = 0 ∨ buffering = 1 ∨ 2 ≤ buffering := by omega
    rcases hcases with hb | hb | hb | hb
    · have h1 : ¬ buffering = 1 := by omega
      have h0 : ¬ buffering = 0 := by omega
      have h2 : ¬ 2 ≤ buffering := by omega
      have hz : ¬ blk = 0 := by omega
      cases bb <;> simp [hb, h0, h1, h2, hz, normLayer]
    · subst hb
      cases bx <;> cases br <;> cases bw <;> cases ba <;> simp [PyMode.b2n] at hone <;>
        cases bp <;> cases bb <;> simp [normLayer]
    · subst hb
      have hz : ¬ blk = 0 := by omega
      have hz1 : ¬ 1 = blk := by omega
      have hz2 : ¬ blk = 1 := by omega
      cases bx <;> cases br <;> cases bw <;> cases ba <;> simp [PyMode.b2n] at hone <;>
        cases bp <;> cases bb <;> simp [normLayer, hz, hz1, hz2]
    · have h1 : ¬ buffering = 1 := by omega
      have h0 : ¬ buffering = 0 := by omega
      have hn : ¬ buffering < 0 := by omega
      have hz : ¬ buffering.toNat = 0 := by omega
      cases bx <;> cases br <;> cases bw <;> cases ba <;> simp [PyMode.b2n] at hone <;>
        cases bp <;> cases bb <;> simp [normLayer, h0, h1, hn, hz, hb]

/-- the three observations of the earlier package, as consequences for concrete modes -/
theorem make_stream_quirks :
    -- buffering=-1 inserts no Buffered layer (io.open: one of st_blksize)
    fsOpen ['r', 'b'] (-1) = .ok [.rawWrapper] ∧
    ioOpen ['r', 'b'] (-1) 4096 = .ok [.fileIO, .buffered .reader 4096] ∧
    fsOpen ['w'] (-1) = .ok [.rawWrapper, .textIO false] ∧
    -- buffering=0 inserts a default-size one (io.open: the raw file / ValueError for text)
    fsOpen ['r', 'b'] 0 = .ok [.rawWrapper, .buffered .reader 8192] ∧
    ioOpen ['r', 'b'] 0 4096 = .ok [.fileIO] ∧
    fsOpen ['r'] 0 = .ok [.rawWrapper, .buffered .reader 8192, .textIO false] ∧
    ioOpen ['r'] 0 4096 = .err .ValueError ∧
    -- buffering=1: a 1-byte buffer, no line buffering (io.open: default size, line buffering)
    fsOpen ['w'] 1 = .ok [.rawWrapper, .buffered .writer 1, .textIO false] ∧
    ioOpen ['w'] 1 4096 = .ok [.fileIO, .buffered .writer 4096, .textIO true] ∧
    -- x modes are never buffered (io.open: BufferedWriter)
    fsOpen ['x', 'b'] 8192 = .ok [.rawWrapper] ∧
    ioOpen ['x', 'b'] 8192 4096 = .ok [.fileIO, .buffered .writer 8192] ∧
    fsOpen ['x', '+'] 8192 = .ok [.rawWrapper, .buffered .random 8192, .textIO false] := by decide

/-! ## buffering is not observable in the data -/

/-- **buffering is transparent at close** — for every call sequence (reads, writes, seeks,
truncates, iteration, use after close, …) and every flush policy of the buffered layer: each call
returns what it returns on the unbuffered file, and once the handle is closed (which flushes) the
file holds the same bytes.  (Positions reported *between* a write and its flush are not claimed:
Python's buffered `tell()` in append mode is known to differ from the raw one there.) -/
theorem buffering_transparent_at_close (fl : Flags) (s : IoState) (ops : List (Op × Bool)) :
    Buffered.runFrom fl ⟨s, []⟩ ops =
      (((IoRef.runFrom fl s (ops.map Prod.fst)).1.map Prod.fst), (IoRef.runFrom fl s (ops.map Prod.fst)).2) := by
  have key : ∀ (b : BufState), Buffered.runFrom fl b ops =
      (((IoRef.runFrom fl (Buffered.flush fl b) (ops.map Prod.fst)).1.map Prod.fst),
       (IoRef.runFrom fl (Buffered.flush fl b) (ops.map Prod.fst)).2) := by
    induction ops with
    | nil => intro b; rfl
    | cons of ops ih =>
      intro b
      obtain ⟨op, f⟩ := of
      have hstep : (Buffered.step fl f b op).2 = (IoRef.step fl (Buffered.flush fl b) op).2 ∧
          Buffered.flush fl (Buffered.step fl f b op).1 = (IoRef.step fl (Buffered.flush fl b) op).1 := by
        cases op with
        | write d =>
          have hc : (Buffered.flush fl b).closed = b.raw.closed := foldl_write1_closed fl _ _
          simp only [Buffered.step, step_write, hc]
          by_cases h1 : b.raw.closed = true
          · simp [h1]
          · by_cases h2 : fl.writing = true
            · cases f <;> simp [h1, h2, Buffered.flush, List.foldl_append]
            · simp [h1, h2]
        | _ => simp [Buffered.step, Buffered.flush]
      simp only [Buffered.runFrom, List.map_cons, IoRef.runFrom, ih, hstep.1, hstep.2]
  exact key ⟨s, []⟩

/-- the text layer is one more such buffer: however the encoded bytes are cut into raw writes,
the same file results -/
theorem text_buffering_invisible (c : Codec) (nl : Newline) (w1 w2 : WritePath) (existing : Option Bytes) (s : Str) :
    storeText c nl w1 existing s = storeText c nl w2 existing s := by
  rw [text_store_model, text_store_model]

example : Buffered.runFrom (Mode.flags ['w', '+', 'b']) ⟨⟨[], 0, false⟩, []⟩
    [(.write [1, 2], false), (.write [3], false), (.seek 0 0, false), (.read none, false)] =
    ([.nat 2, .nat 1, .nat 0, .bytes [1, 2, 3]], [1, 2, 3]) := by decide

end Fs.TextLaws
