/-
  PathGenEq — the definitions regenerated from `$VERIF_REPO/fs/path.py` on every run
  (`FsModel/Generated/PathGen.lean`, written by `harness/extract/pathgen.py`) are equal to the
  hand-written transcription `FsModel/Path.lean` that the C12 theorems are stated over.

  One theorem `f_eq` per function of fs/path.py.  Where the Python code uses a partial operation
  (`l[i]`, `l.pop()`, `a, b = l`) or a `while` loop the generated function returns `Res`; when the
  hand model is total the theorem reads `PathGen.f x = .ok (Path.f x)`, i.e. it also proves that
  the partial operation never fails and that the loop's fuel hint suffices.

  These theorems are re-proved on every run against the freshly generated file: a semantic change
  of fs/path.py changes the generated term and breaks the corresponding `f_eq` (C12's failing-input
  search then decides the verdict); renaming locals does not change the term.  `coverage` pins the
  set of translated functions, `nothing_refused` the absence of translator refusals.
-/
import FsModel.Generated.PathGen
import FsProofs.Lemmas.PathGenLemmas

namespace Fs.PathGenEq
open Fs Fs.PyStr Fs.PyStrLemmas Fs.PathLemmas Fs.PathGenLemmas

/-! ## the translator covered the module -/

/-- exactly the functions the hand model transcribes were found and translated (a new top-level
function of fs/path.py, or a vanished one, breaks this) -/
theorem coverage : PathGen.translated =
    ["abspath", "basename", "combine", "dirname", "forcedir", "frombase", "isabs", "isbase", "isdotfile",
     "isparent", "issamedir", "iswildcard", "iteratepath", "join", "normpath", "parts", "recursepath",
     "relativefrom", "relpath", "split", "splitext"] := by decide +kernel

/-- every name exported by `__all__` was translated -/
theorem all_exported_translated :
    ∀ n ∈ PathGen.allNames, PathGen.translated.contains n = true := by decide +kernel

/-- the translator refused nothing -/
theorem nothing_refused : PathGen.refused = [] := by decide +kernel

/-! ## one equality per function -/

theorem relpath_eq (p : Str) : PathGen.relpath p = Path.relpath p := by
  simp [PathGen.relpath, Path.relpath, pyLstrip_slash]

theorem isabs_eq (p : Str) : PathGen.isabs p = Path.isabs p := by
  simp [PathGen.isabs, Path.isabs, startsWith_slash]

theorem abspath_eq (p : Str) : PathGen.abspath p = Path.abspath p := by
  simp only [PathGen.abspath, Path.abspath, startsWith_slash]
  cases Path.startsWithSlash p <;> simp

theorem forcedir_eq (p : Str) : PathGen.forcedir p = Path.forcedir p := by
  simp only [PathGen.forcedir, Path.forcedir, pyEndsWith_slash]
  cases Path.endsWithSlash p <;> simp

theorem combine_eq (a b : Str) : PathGen.combine a b = Path.combine a b := by
  simp only [PathGen.combine, Path.combine, pyLstrip_slash, pyRstrip_slash]
  cases a <;> simp

theorem isbase_eq (a b : Str) : PathGen.isbase a b = Path.isbase a b := by
  simp [PathGen.isbase, Path.isbase, forcedir_eq, abspath_eq]

theorem iswildcard_eq (p : Str) : PathGen.iswildcard p = Path.iswildcard p := by
  have hw : PathGen._WILD_CHARS = Path.wildChars := by decide
  simp [PathGen.iswildcard, Path.iswildcard, pyIsDisjoint, hw]

theorem split_eq (p : Str) : PathGen.split p = .ok (Path.split p) := by
  simp only [PathGen.split, Path.split, pyIn_char, pyRsplit1]
  rcases rsplit1_cases '/' p with ⟨hn, hr⟩ | ⟨a, b, hab, hb, hr⟩
  · simp [hn, hr]
  · have hm : '/' ∈ p := by rw [hab]; simp
    simp only [hr, pyIdx_two_0, pyIdx_two_1]
    cases a <;> simp [pyOr, hm]

theorem dirname_eq (p : Str) : PathGen.dirname p = .ok (Path.dirname p) := by
  simp [PathGen.dirname, Path.dirname, split_eq]

theorem basename_eq (p : Str) : PathGen.basename p = .ok (Path.basename p) := by
  simp [PathGen.basename, Path.basename, split_eq]

theorem isdotfile_eq (p : Str) : PathGen.isdotfile p = .ok (Path.isdotfile p) := by
  simp [PathGen.isdotfile, Path.isdotfile, basename_eq, startsWith_single]

theorem normpath_eq (p : Str) : PathGen.normpath p = Path.normpath p := by
  simp only [PathGen.normpath, Path.normpath, pyIn_slash, startsWith_slash, pyRstrip_slash]
  by_cases h0 : (p == [] || p == ['/']) = true
  · simp only [h0, if_true]
  · simp only [h0]
    by_cases h1 : Path.requiresNormalization p = true
    · simp only [h1]
      rw [pyFor_normStep]
      · simp only [List.reverse_nil]
        cases Path.normLoop (Path.splitSlash p) [] <;> simp
      · intro c s
        simp only [normStep, pyIn_dotdot, pyPop]
        cases Path.inDotDot c <;> cases (c == ['.', '.']) <;> cases s.getLast? <;> rfl
    · simp [h1]

theorem iteratepath_eq (p : Str) : PathGen.iteratepath p = Path.iteratepath p := by
  simp only [PathGen.iteratepath, Path.iteratepath, normpath_eq, relpath_eq]
  cases Path.normpath p with
  | err e => rfl
  | ok n =>
    simp only [bind_ok, pure_eq]
    cases Path.relpath n <;> rfl

theorem parts_eq (p : Str) : PathGen.parts p = Path.parts p := by
  simp only [PathGen.parts, Path.parts, normpath_eq, pyStrip_slash, startsWith_slash]
  cases Path.normpath p with
  | err e => rfl
  | ok n =>
    simp only [bind_ok, pure_eq]
    cases Path.stripSlash n <;> simp

theorem issamedir_eq (a b : Str) : PathGen.issamedir a b = Path.issamedir a b := by
  simp only [PathGen.issamedir, Path.issamedir, normpath_eq, dirname_eq]
  cases Path.normpath a with
  | err e => rfl
  | ok x =>
    cases Path.normpath b with
    | err e => rfl
    | ok y => rfl

theorem join_eq (ps : List Str) : PathGen.join ps = Path.join ps := by
  simp only [PathGen.join, Path.join, normpath_eq, abspath_eq]
  rw [pyFor_joinStep]
  · simp only [List.reverse_nil]
    exact join_tail _ _
  · intro p s
    cases p with
    | nil => rfl
    | cons c r =>
      simp only [joinStep, List.isEmpty_cons, Bool.not_false, if_true, pyStrIdx_cons_zero]
      by_cases hc : c = '/'
      · subst hc; simp
      · simp [hc]

theorem splitext_eq (p : Str) : PathGen.splitext p = Path.splitext p := by
  simp only [PathGen.splitext, Path.splitext, split_eq, join_eq, startsWith_single, pyCount, pyIn_char,
    pyRsplit1]
  cases Path.split p with
  | mk parent name =>
    simp only []
    by_cases h1 : (name.head? == some '.' && List.count '.' name == 1) = true
    · simp only [h1, if_true]
    · simp only [h1]
      rcases rsplit1_cases '.' name with ⟨hn, hr⟩ | ⟨a, b, hab, hb, hr⟩
      · simp [hn, hr]
      · have hm : '.' ∈ name := by rw [hab]; simp
        simp only [hr, pyUnpack2]
        cases Path.join [parent, a] with
        | err e => simp [hm, bind_err]
        | ok n => simp [hm, bind_ok, pure_eq]

theorem isparent_eq (a b : Str) : PathGen.isparent a b = .ok (Path.isparent a b) := by
  simp only [PathGen.isparent, Path.isparent]
  rw [pyWhile_stripStep _ _ _ _ (by omega)]
  · simp only []
    by_cases hl : (Path.dropTrailingEmpty (Path.splitSlash a)).length > (Path.splitSlash b).length
    · simp [hl]
    · simp only [hl, decide_false, if_false]
      rw [pyFor_zipStep]
      · cases Path.zipAllEq (Path.dropTrailingEmpty (Path.splitSlash a)) (Path.splitSlash b) <;> simp
      · intro x s; by_cases h : x.1 = x.2 <;> simp [h]
  · intro s
    rcases list_nil_or_snoc s with rfl | ⟨i, x, rfl⟩
    · rfl
    · simp only [stripStep, pyIdx_neg_one_snoc, pyPop_snoc]
      simp

theorem frombase_eq (a b : Str) : PathGen.frombase a b = Path.frombase a b := by
  simp only [PathGen.frombase, Path.frombase, isparent_eq, pyRstrip_slash, pyStartsWith]

theorem relativefrom_eq (a b : Str) : PathGen.relativefrom a b = Path.relativefrom a b := by
  simp only [PathGen.relativefrom, Path.relativefrom, iteratepath_eq]
  cases Path.iteratepath a with
  | err e => rfl
  | ok bp =>
    cases Path.iteratepath b with
    | err e => rfl
    | ok pp =>
      simp only [bind_ok, pure_eq]
      rw [pyFor_commonStep]
      · simp only [Nat.zero_add, pyRepeat_single]
      · intro x s; by_cases h : x.1 = x.2 <;> simp [h]

theorem recursepath_eq (p : Str) (r : Bool) : PathGen.recursepath p r = Path.recursepath p r := by
  simp only [PathGen.recursepath, Path.recursepath, pyIn_slash, normpath_eq, abspath_eq]
  by_cases h0 : (p == [] || p == ['/']) = true
  · simp only [h0, if_true]
  · simp only [h0]
    cases Path.normpath p with
    | err e => rfl
    | ok n =>
      simp only [bind_ok, pure_eq]
      generalize hW : pyWhile _ _ _ = w
      have key : ∃ pos', w = .done (pos', Path.recurseLoop (Path.abspath n ++ ['/'])
          ((Path.abspath n ++ ['/']).length + 1) 1 [['/']]) := by
        refine pyWhile_recStep' (Path.abspath n) _ ?_ _ 1 _ ?_ ?_ w hW
        · intro s; simp [recStep]
        · omega
        · omega
      obtain ⟨pos', rfl⟩ := key
      cases r <;> rfl

end Fs.PathGenEq
